package main

// batch F intrinsics.
//
// math/bits.Mul64: exact 64x64->128 multiplication. The library body (four 32x32 partial
// products, masks and shifts) is correct but opaque to the solvers: with the integer back
// end (cvc5-int) every mask/shift becomes a div/mod chain. When one operand is a constant
// power of two -- the only case restic needs (ui.ParseBytes multiplies by 1, 2^10 .. 2^40) --
// the product is a pair of shifts; otherwise the library formula is built directly as terms.

import (
	"math"
	"math/bits"

	"golang.org/x/tools/go/ssa"
)

// math.Float64frombits / Float64bits (and the 32-bit pair) are unsafe pointer casts in the
// library; the engine keeps floats as concrete FloatV values, so the casts are done here.
// Symbolic bit patterns are not supported (the engine has no symbolic floating point).
func init() {
	intrinsics["math.Float64frombits"] = func(th *Thread, fn *ssa.Function, args []Value) Value {
		t := th.asTerm(nil, args[0])
		if !t.IsConst() {
			panic(engineErr("math.Float64frombits of a symbolic value (no symbolic floating point)"))
		}
		return FloatV(math.Float64frombits(t.Val))
	}
	intrinsics["math.Float32frombits"] = func(th *Thread, fn *ssa.Function, args []Value) Value {
		t := th.asTerm(nil, args[0])
		if !t.IsConst() {
			panic(engineErr("math.Float32frombits of a symbolic value (no symbolic floating point)"))
		}
		return FloatV(float64(math.Float32frombits(uint32(t.Val))))
	}
	intrinsics["math.Float64bits"] = func(th *Thread, fn *ssa.Function, args []Value) Value {
		f, ok := args[0].(FloatV)
		if !ok {
			panic(engineErr("math.Float64bits of %T", args[0]))
		}
		return th.ctx().Const(64, math.Float64bits(float64(f)))
	}
	intrinsics["math.Float32bits"] = func(th *Thread, fn *ssa.Function, args []Value) Value {
		f, ok := args[0].(FloatV)
		if !ok {
			panic(engineErr("math.Float32bits of %T", args[0]))
		}
		return th.ctx().Const(32, uint64(math.Float32bits(float32(f))))
	}
}

func init() {
	intrinsics["math/bits.Mul64"] = func(th *Thread, fn *ssa.Function, args []Value) Value {
		ctx := th.ctx()
		x := th.asTerm(nil, args[0])
		y := th.asTerm(nil, args[1])
		if x.IsConst() && y.IsConst() {
			hi, lo := bits.Mul64(x.Val, y.Val)
			return TupleV{ctx.Const(64, hi), ctx.Const(64, lo)}
		}
		pow2 := func(c, v *Term) (Value, bool) {
			if !c.IsConst() {
				return nil, false
			}
			if c.Val == 0 {
				return TupleV{ctx.Const(64, 0), ctx.Const(64, 0)}, true
			}
			if c.Val&(c.Val-1) != 0 {
				return nil, false
			}
			k := uint64(bits.TrailingZeros64(c.Val))
			if k == 0 {
				return TupleV{ctx.Const(64, 0), v}, true
			}
			return TupleV{ctx.LShr(v, ctx.Const(64, 64-k)), ctx.Shl(v, ctx.Const(64, k))}, true
		}
		if r, ok := pow2(y, x); ok {
			return r
		}
		if r, ok := pow2(x, y); ok {
			return r
		}
		m32 := ctx.Const(64, 1<<32-1)
		c32 := ctx.Const(64, 32)
		x0, x1 := ctx.BVAnd(x, m32), ctx.LShr(x, c32)
		y0, y1 := ctx.BVAnd(y, m32), ctx.LShr(y, c32)
		w0 := ctx.Mul(x0, y0)
		t := ctx.Add(ctx.Mul(x1, y0), ctx.LShr(w0, c32))
		w1 := ctx.BVAnd(t, m32)
		w2 := ctx.LShr(t, c32)
		w1 = ctx.Add(w1, ctx.Mul(x0, y1))
		hi := ctx.Add(ctx.Add(ctx.Mul(x1, y1), w2), ctx.LShr(w1, c32))
		lo := ctx.Mul(x, y)
		return TupleV{hi, lo}
	}
}

package main

import (
	"fmt"
	"go/token"
	"go/types"
	"sort"
	"strings"

	"golang.org/x/tools/go/ssa"
)

// toGo converts an engine value to a Go value for fmt; ok=false if symbolic/unsupported.
func (th *Thread) toGo(v Value, t types.Type, depth int) (interface{}, bool) {
	switch x := v.(type) {
	case *Term:
		if !x.IsConst() {
			return nil, false
		}
		if x.W == 0 {
			return x.Val != 0, true
		}
		if t != nil && isSigned(t) {
			return sx(x.Val, x.W), true
		}
		if t == nil {
			return sx(x.Val, x.W), true
		}
		return x.Val, true
	case FloatV:
		return float64(x), true
	case *StrV:
		s, ok := x.Concrete()
		return s, ok
	case *IfaceV:
		if x.T == nil {
			return nil, true
		}
		if depth > 3 {
			return "<" + x.T.String() + ">", true
		}
		// error / Stringer
		for _, mname := range []string{"Error", "String"} {
			if m := th.p.eng.lookupMethodByName(x.T, mname); m != nil && m.Signature.Params().Len() == 0 && m.Signature.Results().Len() == 1 && isString(m.Signature.Results().At(0).Type()) {
				r := th.callFunction(&FuncV{Fn: m}, []Value{x.V})
				if s, ok := r.(*StrV); ok {
					cs, ok := s.Concrete()
					if ok {
						return fmtStringer(cs), true
					}
					return nil, false
				}
			}
		}
		return th.toGo(x.V, x.T, depth+1)
	case *SliceV:
		if t != nil {
			if st, ok := t.Underlying().(*types.Slice); ok && x.O != nil {
				if bvWidth(st.Elem()) == 8 {
					b := make([]byte, x.Len)
					for k := 0; k < x.Len; k++ {
						tt := x.O.V.(*ArrV).E[x.Off+k].(*Term)
						if !tt.IsConst() {
							return nil, false
						}
						b[k] = byte(tt.Val)
					}
					return b, true
				}
				out := make([]interface{}, x.Len)
				for k := 0; k < x.Len; k++ {
					g, ok := th.toGo(x.O.V.(*ArrV).E[x.Off+k], st.Elem(), depth+1)
					if !ok {
						return nil, false
					}
					out[k] = g
				}
				return out, true
			}
		}
		return fmt.Sprintf("<slice len=%d>", x.Len), true
	case *ArrV:
		if t != nil {
			if at, ok := t.Underlying().(*types.Array); ok && bvWidth(at.Elem()) == 8 {
				b := make([]byte, len(x.E))
				for k := range x.E {
					tt := x.E[k].(*Term)
					if !tt.IsConst() {
						return nil, false
					}
					b[k] = byte(tt.Val)
				}
				return b, true
			}
		}
		return fmt.Sprintf("<array %d>", len(x.E)), true
	case *PtrV:
		if x.IsNil() {
			return nil, true
		}
		return fmt.Sprintf("<ptr obj%d>", x.O.ID), true
	case *StructV:
		return "<struct>", true
	case nil:
		return nil, true
	}
	return fmt.Sprintf("<%T>", v), true
}

type fmtStringer string

func (s fmtStringer) String() string { return string(s) }
func (s fmtStringer) Error() string  { return string(s) }

// format implements Sprintf; returns the string and the %w-wrapped errors.
func (th *Thread) format(format string, argv []Value) (string, []*IfaceV) {
	var wrapped []*IfaceV
	goArgs := make([]interface{}, len(argv))
	opaque := false
	for i, a := range argv {
		iv, _ := a.(*IfaceV)
		if iv == nil {
			goArgs[i] = nil
			continue
		}
		g, ok := th.toGo(iv, nil, 0)
		if !ok {
			opaque = true
			g = "<sym>"
		}
		goArgs[i] = g
	}
	// collect %w operands
	if strings.Contains(format, "%w") {
		ai := 0
		for i := 0; i < len(format); i++ {
			if format[i] != '%' {
				continue
			}
			j := i + 1
			for j < len(format) && strings.ContainsRune("+-# 0123456789.[]*", rune(format[j])) {
				j++
			}
			if j >= len(format) {
				break
			}
			if format[j] == '%' {
				i = j
				continue
			}
			if format[j] == 'w' && ai < len(argv) {
				if iv, ok := argv[ai].(*IfaceV); ok && iv.T != nil {
					wrapped = append(wrapped, iv)
				}
			}
			ai++
			i = j
		}
		format = strings.ReplaceAll(format, "%w", "%v")
	}
	_ = opaque
	return fmt.Sprintf(format, goArgs...), wrapped
}

func (th *Thread) variadic(v Value) []Value {
	s, ok := v.(*SliceV)
	if !ok || s.O == nil {
		return nil
	}
	out := make([]Value, s.Len)
	for k := 0; k < s.Len; k++ {
		out[k] = s.O.V.(*ArrV).E[s.Off+k]
	}
	return out
}

func (th *Thread) typeNamed(pkgPath, name string) types.Type {
	for _, p := range th.p.eng.prog.AllPackages() {
		if p.Pkg.Path() == pkgPath {
			if tn := p.Type(name); tn != nil {
				return tn.Type()
			}
		}
	}
	panic(engineErr("type %s.%s not found", pkgPath, name))
}

func (th *Thread) writeTo(w Value, s *StrV) Value {
	iv, ok := w.(*IfaceV)
	if !ok || iv.T == nil {
		return TupleV{th.ctx().Const(64, 0), &IfaceV{}}
	}
	m := th.p.eng.lookupMethodByName(iv.T, "Write")
	if m == nil {
		panic(engineErr("Fprintf: writer %s has no Write", iv.T))
	}
	arr := &ArrV{E: make([]Value, len(s.B))}
	for i := range s.B {
		arr.E[i] = s.B[i]
	}
	sl := &SliceV{O: th.p.newObj(arr, "fmtbuf"), Len: len(s.B), Cap: len(s.B)}
	return th.callFunction(&FuncV{Fn: m}, []Value{iv.V, sl})
}

func init() {
	intrinsics["fmt.Sprintf"] = func(th *Thread, fn *ssa.Function, args []Value) Value {
		s, _ := th.formatV(th.argStrLoose(args[0]), th.variadic(args[1]))
		return s
	}
	intrinsics["fmt.Errorf"] = func(th *Thread, fn *ssa.Function, args []Value) Value {
		sv0, wrapped := th.formatV(th.argStrLoose(args[0]), th.variadic(args[1]))
		if len(wrapped) == 0 {
			return th.newErrorV(sv0)
		}
		if len(wrapped) == 1 {
			t := th.typeNamed("fmt", "wrapError")
			sv := &StructV{F: []Value{sv0, wrapped[0]}}
			return &IfaceV{T: types.NewPointer(t), V: &PtrV{O: th.p.newObj(sv, "wrapError")}}
		}
		s := sv0
		t := th.typeNamed("fmt", "wrapErrors")
		arr := &ArrV{E: make([]Value, len(wrapped))}
		for i, w := range wrapped {
			arr.E[i] = w
		}
		sl := &SliceV{O: th.p.newObj(arr, "errs"), Len: len(wrapped), Cap: len(wrapped)}
		sv := &StructV{F: []Value{s, sl}}
		return &IfaceV{T: types.NewPointer(t), V: &PtrV{O: th.p.newObj(sv, "wrapErrors")}}
	}
	sprint := func(ln bool) intrinsicFn {
		return func(th *Thread, fn *ssa.Function, args []Value) Value {
			argv := th.variadic(args[0])
			g := make([]interface{}, len(argv))
			for i, a := range argv {
				x, ok := th.toGo(a, nil, 0)
				if !ok {
					x = "<sym>"
				}
				g[i] = x
			}
			if ln {
				return strConst(th.ctx(), fmt.Sprintln(g...))
			}
			return strConst(th.ctx(), fmt.Sprint(g...))
		}
	}
	intrinsics["fmt.Sprint"] = sprint(false)
	intrinsics["fmt.Sprintln"] = sprint(true)
	intrinsics["fmt.Fprintf"] = func(th *Thread, fn *ssa.Function, args []Value) Value {
		s, _ := th.formatV(th.argStrLoose(args[1]), th.variadic(args[2]))
		return th.writeTo(args[0], s)
	}
	fprint := func(ln bool) intrinsicFn {
		return func(th *Thread, fn *ssa.Function, args []Value) Value {
			s := sprint(ln)(th, fn, args[1:]).(*StrV)
			return th.writeTo(args[0], s)
		}
	}
	intrinsics["fmt.Fprint"] = fprint(false)
	intrinsics["fmt.Fprintln"] = fprint(true)
	noop2 := func(th *Thread, fn *ssa.Function, args []Value) Value {
		return TupleV{th.ctx().Const(64, 0), &IfaceV{}}
	}
	intrinsics["fmt.Printf"] = noop2
	intrinsics["fmt.Println"] = noop2
	intrinsics["fmt.Print"] = noop2

	// errors
	intrinsics["errors.Is"] = func(th *Thread, fn *ssa.Function, args []Value) Value {
		return th.ctx().Bool(th.errorsIs(args[0].(*IfaceV), args[1].(*IfaceV), 0))
	}
	intrinsics["errors.As"] = func(th *Thread, fn *ssa.Function, args []Value) Value {
		return th.ctx().Bool(th.errorsAs(args[0].(*IfaceV), args[1].(*IfaceV), 0))
	}
	intrinsics["github.com/pkg/errors.callers"] = func(th *Thread, fn *ssa.Function, args []Value) Value {
		return nilPtr
	}
	intrinsics[modPath+"/internal/debug.Log"] = func(th *Thread, fn *ssa.Function, args []Value) Value { return nil }
	intrinsics[modPath+"/internal/debug.DumpStacktrace"] = func(th *Thread, fn *ssa.Function, args []Value) Value { return nil }

	// runtime
	nop := func(th *Thread, fn *ssa.Function, args []Value) Value { return nil }
	intrinsics["runtime.KeepAlive"] = nop
	intrinsics["runtime.GC"] = nop
	intrinsics["runtime.SetFinalizer"] = nop
	intrinsics["runtime.Gosched"] = func(th *Thread, fn *ssa.Function, args []Value) Value { th.yield(nil); return nil }
	intrinsics["runtime.GOMAXPROCS"] = func(th *Thread, fn *ssa.Function, args []Value) Value {
		n := 1
		if v, ok := th.p.eng.cfg.Params["GOMAXPROCS"]; ok {
			n = v
		}
		return th.ctx().Const(64, uint64(n))
	}
	intrinsics["runtime.NumCPU"] = intrinsics["runtime.GOMAXPROCS"]
	intrinsics["runtime.Callers"] = func(th *Thread, fn *ssa.Function, args []Value) Value { return th.ctx().Const(64, 0) }
	intrinsics["runtime.Caller"] = func(th *Thread, fn *ssa.Function, args []Value) Value {
		return TupleV{th.ctx().Const(64, 0), &StrV{}, th.ctx().Const(64, 0), th.ctx().False()}
	}
	intrinsics["internal/abi.NoEscape"] = func(th *Thread, fn *ssa.Function, args []Value) Value { return args[0] }
	intrinsics["internal/abi.Escape"] = func(th *Thread, fn *ssa.Function, args []Value) Value { return args[0] }
	intrinsics["internal/race.Enabled"] = nop
	intrinsics["os.Getenv"] = func(th *Thread, fn *ssa.Function, args []Value) Value { return &StrV{} }
	intrinsics["os.LookupEnv"] = func(th *Thread, fn *ssa.Function, args []Value) Value {
		return TupleV{&StrV{}, th.ctx().False()}
	}
	intrinsics["os.Getpid"] = func(th *Thread, fn *ssa.Function, args []Value) Value { return th.ctx().Const(64, 4242) }
	intrinsics["os.Hostname"] = func(th *Thread, fn *ssa.Function, args []Value) Value {
		return TupleV{strConst(th.ctx(), "verifhost"), &IfaceV{}}
	}

	// bytealg
	intrinsics["internal/bytealg.IndexByte"] = func(th *Thread, fn *ssa.Function, args []Value) Value {
		return th.indexByte(sliceTerms(args[0].(*SliceV)), th.asTerm(nil, args[1]))
	}
	intrinsics["internal/bytealg.IndexByteString"] = func(th *Thread, fn *ssa.Function, args []Value) Value {
		return th.indexByte(args[0].(*StrV).B, th.asTerm(nil, args[1]))
	}
	intrinsics["internal/bytealg.LastIndexByte"] = func(th *Thread, fn *ssa.Function, args []Value) Value {
		return th.lastIndexByte(sliceTerms(args[0].(*SliceV)), th.asTerm(nil, args[1]))
	}
	intrinsics["internal/bytealg.LastIndexByteString"] = func(th *Thread, fn *ssa.Function, args []Value) Value {
		return th.lastIndexByte(args[0].(*StrV).B, th.asTerm(nil, args[1]))
	}
	intrinsics["internal/bytealg.Count"] = func(th *Thread, fn *ssa.Function, args []Value) Value {
		return th.countByte(sliceTerms(args[0].(*SliceV)), th.asTerm(nil, args[1]))
	}
	intrinsics["internal/bytealg.CountString"] = func(th *Thread, fn *ssa.Function, args []Value) Value {
		return th.countByte(args[0].(*StrV).B, th.asTerm(nil, args[1]))
	}
	intrinsics["internal/bytealg.Equal"] = func(th *Thread, fn *ssa.Function, args []Value) Value {
		a, b := sliceTerms(args[0].(*SliceV)), sliceTerms(args[1].(*SliceV))
		return th.strEq(&StrV{B: a}, &StrV{B: b})
	}
	intrinsics["bytes.Equal"] = intrinsics["internal/bytealg.Equal"]
	intrinsics["internal/bytealg.Compare"] = func(th *Thread, fn *ssa.Function, args []Value) Value {
		return th.compareBytes(sliceTerms(args[0].(*SliceV)), sliceTerms(args[1].(*SliceV)))
	}
	intrinsics["internal/bytealg.CompareString"] = func(th *Thread, fn *ssa.Function, args []Value) Value {
		return th.compareBytes(args[0].(*StrV).B, args[1].(*StrV).B)
	}
	intrinsics["bytes.Compare"] = intrinsics["internal/bytealg.Compare"]
	intrinsics["strings.Compare"] = intrinsics["internal/bytealg.CompareString"]
	intrinsics["internal/bytealg.Index"] = func(th *Thread, fn *ssa.Function, args []Value) Value {
		return th.indexSub(sliceTerms(args[0].(*SliceV)), sliceTerms(args[1].(*SliceV)))
	}
	intrinsics["internal/bytealg.IndexString"] = func(th *Thread, fn *ssa.Function, args []Value) Value {
		return th.indexSub(args[0].(*StrV).B, args[1].(*StrV).B)
	}
	intrinsics["strings.Index"] = intrinsics["internal/bytealg.IndexString"]
	intrinsics["bytes.Index"] = intrinsics["internal/bytealg.Index"]
	intrinsics["internal/bytealg.MakeNoZero"] = func(th *Thread, fn *ssa.Function, args []Value) Value {
		n := int(th.p.Concretize(th.asTerm(nil, args[0]), "MakeNoZero"))
		arr := th.ctx().zero(types.NewArray(types.Typ[types.Uint8], int64(n))).(*ArrV)
		return &SliceV{O: th.p.newObj(arr, "makenozero"), Len: n, Cap: n}
	}
	intrinsics["internal/stringslite.Index"] = intrinsics["internal/bytealg.IndexString"]
	intrinsics["internal/stringslite.IndexByte"] = intrinsics["internal/bytealg.IndexByteString"]

	// sort.Slice / SliceStable: insertion sort driven by the less closure
	sortSlice := func(th *Thread, fn *ssa.Function, args []Value) Value {
		iv := args[0].(*IfaceV)
		sl, ok := iv.V.(*SliceV)
		if !ok {
			panic(engineErr("sort.Slice on %T", iv.V))
		}
		less := args[1].(*FuncV)
		ctx := th.ctx()
		if sl.O == nil {
			return nil
		}
		arr := sl.O.V.(*ArrV)
		for i := 1; i < sl.Len; i++ {
			for j := i; j > 0; j-- {
				r := th.callFunction(less, []Value{ctx.Const(64, uint64(j)), ctx.Const(64, uint64(j-1))})
				if !th.branchAt(&Frame{id: -7, fn: fn}, fmt.Sprintf("sortless%d-%d", i, j), th.asTerm(nil, r)) {
					break
				}
				arr.E[sl.Off+j], arr.E[sl.Off+j-1] = arr.E[sl.Off+j-1], arr.E[sl.Off+j]
			}
		}
		return nil
	}
	intrinsics["sort.Slice"] = sortSlice
	intrinsics["sort.SliceStable"] = sortSlice

	// reflect.DeepEqual
	intrinsics["reflect.DeepEqual"] = func(th *Thread, fn *ssa.Function, args []Value) Value {
		return th.deepEqual(args[0], args[1], 0)
	}

	// crypto/sha256.Sum256 as an uninterpreted function of the input bytes
	intrinsics["crypto/sha256.Sum256"] = func(th *Thread, fn *ssa.Function, args []Value) Value {
		in := sliceTerms(args[0].(*SliceV))
		return &ArrV{E: th.ufBytes("sha256", 32, in)}
	}
}

func (th *Thread) argStrLoose(v Value) string {
	s, ok := v.(*StrV)
	if !ok {
		return "<fmt>"
	}
	cs, ok := s.Concrete()
	if !ok {
		return "<symbolic format>"
	}
	return cs
}

func (th *Thread) indexByte(b []*Term, c *Term) Value {
	ctx := th.ctx()
	res := ctx.Const(64, ^uint64(0))
	for i := len(b) - 1; i >= 0; i-- {
		res = ctx.Ite(ctx.Eq(b[i], c), ctx.Const(64, uint64(i)), res)
	}
	return res
}

func (th *Thread) lastIndexByte(b []*Term, c *Term) Value {
	ctx := th.ctx()
	res := ctx.Const(64, ^uint64(0))
	for i := 0; i < len(b); i++ {
		res = ctx.Ite(ctx.Eq(b[i], c), ctx.Const(64, uint64(i)), res)
	}
	return res
}

func (th *Thread) countByte(b []*Term, c *Term) Value {
	ctx := th.ctx()
	res := ctx.Const(64, 0)
	for i := range b {
		res = ctx.Add(res, ctx.Ite(ctx.Eq(b[i], c), ctx.Const(64, 1), ctx.Const(64, 0)))
	}
	return res
}

func (th *Thread) compareBytes(a, b []*Term) Value {
	ctx := th.ctx()
	lt := strLess(ctx, &StrV{B: a}, &StrV{B: b}, false)
	eq := th.strEq(&StrV{B: a}, &StrV{B: b})
	return ctx.Ite(lt, ctx.Const(64, ^uint64(0)), ctx.Ite(eq, ctx.Const(64, 0), ctx.Const(64, 1)))
}

func (th *Thread) indexSub(s, sub []*Term) Value {
	ctx := th.ctx()
	res := ctx.Const(64, ^uint64(0))
	for i := len(s) - len(sub); i >= 0; i-- {
		m := ctx.True()
		for j := range sub {
			m = ctx.And(m, ctx.Eq(s[i+j], sub[j]))
		}
		res = ctx.Ite(m, ctx.Const(64, uint64(i)), res)
	}
	return res
}

func (th *Thread) unwrapOne(err *IfaceV) (*IfaceV, []*IfaceV) {
	e := th.p.eng
	ms := e.prog.MethodSets.MethodSet(err.T)
	for i := 0; i < ms.Len(); i++ {
		sel := ms.At(i)
		if sel.Obj().Name() != "Unwrap" {
			continue
		}
		sig := sel.Type().(*types.Signature)
		if sig.Params().Len() != 0 || sig.Results().Len() != 1 {
			continue
		}
		m := e.prog.MethodValue(sel)
		if m == nil {
			continue
		}
		r := th.callFunction(&FuncV{Fn: m}, []Value{err.V})
		switch x := r.(type) {
		case *IfaceV:
			return x, nil
		case *SliceV:
			var out []*IfaceV
			for _, v := range th.variadic(x) {
				out = append(out, v.(*IfaceV))
			}
			return nil, out
		}
	}
	return nil, nil
}

func (th *Thread) errorsIs(err, target *IfaceV, depth int) bool {
	if err == nil || err.T == nil || target == nil {
		return err != nil && target != nil && err.T == nil && target.T == nil
	}
	if depth > 50 {
		panic(engineErr("errors.Is: chain too deep"))
	}
	comparable := target.T != nil && types.Comparable(target.T)
	if comparable && target.T != nil && types.Identical(err.T, target.T) {
		eq := th.valEq(&Frame{fn: nil, id: -3}, err.V, target.V)
		if eq.IsTrue() {
			return true
		}
		if !eq.IsFalse() {
			if th.p.Branch(eq) {
				return true
			}
		}
	}
	// Is method
	e := th.p.eng
	ms := e.prog.MethodSets.MethodSet(err.T)
	for i := 0; i < ms.Len(); i++ {
		sel := ms.At(i)
		if sel.Obj().Name() != "Is" {
			continue
		}
		sig := sel.Type().(*types.Signature)
		if sig.Params().Len() == 1 && isErrorType(sig.Params().At(0).Type()) && sig.Results().Len() == 1 {
			m := e.prog.MethodValue(sel)
			r := th.callFunction(&FuncV{Fn: m}, []Value{err.V, target})
			if th.p.Branch(th.asTerm(nil, r)) {
				return true
			}
		}
	}
	one, many := th.unwrapOne(err)
	if one != nil {
		return th.errorsIs(one, target, depth+1)
	}
	for _, m := range many {
		if th.errorsIs(m, target, depth+1) {
			return true
		}
	}
	return false
}

func (th *Thread) errorsAs(err, target *IfaceV, depth int) bool {
	if err == nil || err.T == nil {
		return false
	}
	if target.T == nil {
		th.goPanic("errors: target cannot be nil")
	}
	pt, ok := target.T.Underlying().(*types.Pointer)
	if !ok {
		th.goPanic("errors: target must be a non-nil pointer")
	}
	want := pt.Elem()
	tp := target.V.(*PtrV)
	for cur := err; cur != nil && cur.T != nil; {
		if depth > 50 {
			panic(engineErr("errors.As: chain too deep"))
		}
		depth++
		if it, isI := want.Underlying().(*types.Interface); isI {
			if th.p.eng.implements(cur.T, it) {
				th.store(&Frame{id: -4}, tp, cur)
				return true
			}
		} else if types.Identical(cur.T, want) {
			th.store(&Frame{id: -4}, tp, cur.V)
			return true
		}
		// As method
		e := th.p.eng
		if m := e.lookupMethodByName(cur.T, "As"); m != nil && m.Signature.Params().Len() == 1 {
			r := th.callFunction(&FuncV{Fn: m}, []Value{cur.V, target})
			if th.p.Branch(th.asTerm(nil, r)) {
				return true
			}
		}
		one, many := th.unwrapOne(cur)
		if one != nil {
			cur = one
			continue
		}
		for _, m := range many {
			if th.errorsAs(m, target, depth) {
				return true
			}
		}
		return false
	}
	return false
}

func (th *Thread) deepEqual(a, b Value, depth int) *Term {
	ctx := th.ctx()
	if depth > 40 {
		panic(engineErr("DeepEqual: too deep"))
	}
	switch x := a.(type) {
	case *IfaceV:
		y, ok := b.(*IfaceV)
		if !ok {
			return ctx.False()
		}
		if x.T == nil || y.T == nil {
			return ctx.Bool(x.T == nil && y.T == nil)
		}
		if !types.Identical(x.T, y.T) {
			return ctx.False()
		}
		return th.deepEqual(x.V, y.V, depth+1)
	case *PtrV:
		y := b.(*PtrV)
		if x.IsNil() || y.IsNil() {
			return ctx.Bool(x.IsNil() && y.IsNil())
		}
		if x.O == y.O && pathConcreteEq(x.Path, y.Path) {
			return ctx.True()
		}
		fr := &Frame{id: -5}
		return th.deepEqual(th.load(fr, x), th.load(fr, y), depth+1)
	case *SliceV:
		y := b.(*SliceV)
		if (x.O == nil) != (y.O == nil) {
			return ctx.False()
		}
		if x.Len != y.Len {
			return ctx.False()
		}
		r := ctx.True()
		for k := 0; k < x.Len; k++ {
			r = ctx.And(r, th.deepEqual(x.O.V.(*ArrV).E[x.Off+k], y.O.V.(*ArrV).E[y.Off+k], depth+1))
		}
		return r
	case *StructV:
		y := b.(*StructV)
		r := ctx.True()
		for k := range x.F {
			r = ctx.And(r, th.deepEqual(x.F[k], y.F[k], depth+1))
		}
		return r
	case *ArrV:
		y := b.(*ArrV)
		r := ctx.True()
		for k := range x.E {
			r = ctx.And(r, th.deepEqual(x.E[k], y.E[k], depth+1))
		}
		return r
	case *MapV:
		y := b.(*MapV)
		if (x.M == nil) != (y.M == nil) {
			return ctx.False()
		}
		if x.M == nil {
			return ctx.True()
		}
		if x.M.N != y.M.N {
			return ctx.False()
		}
		r := ctx.True()
		fr := &Frame{id: -6}
		for k := range x.M.Keys {
			if x.M.Dead[k] {
				continue
			}
			j := th.mapFind(fr, y.M, x.M.Keys[k])
			if j < 0 {
				return ctx.False()
			}
			r = ctx.And(r, th.deepEqual(x.M.Vals[k], y.M.Vals[j], depth+1))
		}
		return r
	case *FuncV:
		return ctx.Bool(isNilValue(a) && isNilValue(b))
	}
	return th.valEq(&Frame{id: -5}, a, b)
}

// ---- sync / atomic ----

func init() {
	lock := func(th *Thread, fn *ssa.Function, args []Value) Value {
		s := th.syncState(nil, args[0])
		th.opKeys = []interface{}{s}
		th.yield(func() bool { return !s.locked && s.readers == 0 })
		s.locked = true
		return nil
	}
	unlock := func(th *Thread, fn *ssa.Function, args []Value) Value {
		s := th.syncState(nil, args[0])
		if !s.locked {
			th.goPanic("sync: unlock of unlocked mutex")
		}
		s.locked = false
		// no scheduling point after a release: the next visible operation of this thread is one
		th.touch(s)
		return nil
	}
	intrinsics["(*sync.Mutex).Lock"] = lock
	intrinsics["(*sync.Mutex).Unlock"] = unlock
	intrinsics["(*sync.Mutex).TryLock"] = func(th *Thread, fn *ssa.Function, args []Value) Value {
		s := th.syncState(nil, args[0])
		th.opKeys = []interface{}{s}
		th.yield(nil)
		if s.locked || s.readers > 0 {
			return th.ctx().False()
		}
		s.locked = true
		return th.ctx().True()
	}
	intrinsics["(*sync.RWMutex).Lock"] = lock
	intrinsics["(*sync.RWMutex).Unlock"] = unlock
	intrinsics["(*sync.RWMutex).RLock"] = func(th *Thread, fn *ssa.Function, args []Value) Value {
		s := th.syncState(nil, args[0])
		th.opKeys = []interface{}{s}
		th.yield(func() bool { return !s.locked })
		s.readers++
		return nil
	}
	intrinsics["(*sync.RWMutex).RUnlock"] = func(th *Thread, fn *ssa.Function, args []Value) Value {
		s := th.syncState(nil, args[0])
		if s.readers <= 0 {
			th.goPanic("sync: RUnlock of unlocked RWMutex")
		}
		s.readers--
		th.touch(s)
		return nil
	}
	intrinsics["(*sync.WaitGroup).Add"] = func(th *Thread, fn *ssa.Function, args []Value) Value {
		s := th.syncState(nil, args[0])
		d := th.argInt(args[1], "WaitGroup.Add delta")
		th.touch(s)
		s.count += d
		if s.count < 0 {
			th.goPanic("sync: negative WaitGroup counter")
		}
		return nil
	}
	intrinsics["(*sync.WaitGroup).Done"] = func(th *Thread, fn *ssa.Function, args []Value) Value {
		s := th.syncState(nil, args[0])
		th.touch(s)
		s.count--
		if s.count < 0 {
			th.goPanic("sync: negative WaitGroup counter")
		}
		return nil
	}
	intrinsics["(*sync.WaitGroup).Wait"] = func(th *Thread, fn *ssa.Function, args []Value) Value {
		s := th.syncState(nil, args[0])
		th.opKeys = []interface{}{s}
		th.yield(func() bool { return s.count == 0 })
		return nil
	}
	intrinsics["(*sync.Once).Do"] = func(th *Thread, fn *ssa.Function, args []Value) Value {
		s := th.syncState(nil, args[0])
		th.opKeys = []interface{}{s}
		th.yield(func() bool { return !s.running })
		if s.done {
			return nil
		}
		s.running = true
		defer func() { s.running = false; s.done = true; th.touch(s) }()
		th.callFunction(args[1].(*FuncV), nil)
		return nil
	}
	intrinsics["(*sync.Pool).Get"] = func(th *Thread, fn *ssa.Function, args []Value) Value {
		s := th.syncState(nil, args[0])
		if n := len(s.poolVals); n > 0 {
			v := s.poolVals[n-1]
			s.poolVals = s.poolVals[:n-1]
			return v
		}
		pv := args[0].(*PtrV)
		st := th.load(&Frame{id: -8}, pv).(*StructV)
		// field New is the last field
		newf, _ := st.F[len(st.F)-1].(*FuncV)
		if newf == nil || isNilValue(newf) {
			return &IfaceV{}
		}
		return th.callFunction(newf, nil)
	}
	intrinsics["(*sync.Pool).Put"] = func(th *Thread, fn *ssa.Function, args []Value) Value {
		s := th.syncState(nil, args[0])
		s.poolVals = append(s.poolVals, args[1])
		return nil
	}

	// atomic functions on plain memory
	for _, w := range []struct {
		suffix string
	}{{"Int32"}, {"Int64"}, {"Uint32"}, {"Uint64"}, {"Uintptr"}, {"Pointer"}} {
		sfx := w.suffix
		for _, pk := range []string{"sync/atomic", "internal/runtime/atomic"} {
			intrinsics[pk+".Load"+sfx] = func(th *Thread, fn *ssa.Function, args []Value) Value {
				th.atomicYield()
				return copyVal(th.load(&Frame{id: -9, fn: fn}, th.ptr(&Frame{fn: fn}, args[0])))
			}
			intrinsics[pk+".Store"+sfx] = func(th *Thread, fn *ssa.Function, args []Value) Value {
				th.atomicYield()
				th.store(&Frame{id: -9, fn: fn}, args[0], args[1])
				return nil
			}
			intrinsics[pk+".Swap"+sfx] = func(th *Thread, fn *ssa.Function, args []Value) Value {
				th.atomicYield()
				fr := &Frame{id: -9, fn: fn}
				old := copyVal(th.load(fr, th.ptr(fr, args[0])))
				th.store(fr, args[0], args[1])
				return old
			}
			intrinsics[pk+".CompareAndSwap"+sfx] = func(th *Thread, fn *ssa.Function, args []Value) Value {
				th.atomicYield()
				fr := &Frame{id: -9, fn: fn}
				old := th.load(fr, th.ptr(fr, args[0]))
				eq := th.valEq(fr, old, args[1])
				if th.p.Branch(eq) {
					th.store(fr, args[0], args[2])
					return th.ctx().True()
				}
				return th.ctx().False()
			}
			if sfx != "Pointer" {
				intrinsics[pk+".Add"+sfx] = func(th *Thread, fn *ssa.Function, args []Value) Value {
					th.atomicYield()
					fr := &Frame{id: -9, fn: fn}
					old := th.load(fr, th.ptr(fr, args[0])).(*Term)
					nv := th.ctx().Add(old, th.asTerm(nil, args[1]))
					th.store(fr, args[0], nv)
					return nv
				}
			}
		}
	}
	intrinsics["(*sync/atomic.Value).Load"] = func(th *Thread, fn *ssa.Function, args []Value) Value {
		th.atomicYield()
		s := th.syncState(nil, args[0])
		if s.val == nil {
			return &IfaceV{}
		}
		return s.val
	}
	intrinsics["(*sync/atomic.Value).Store"] = func(th *Thread, fn *ssa.Function, args []Value) Value {
		th.atomicYield()
		s := th.syncState(nil, args[0])
		if iv := args[1].(*IfaceV); iv.T == nil {
			th.goPanic("sync/atomic: store of nil value into Value")
		}
		s.val = args[1]
		return nil
	}
	intrinsics["(*sync/atomic.Value).CompareAndSwap"] = func(th *Thread, fn *ssa.Function, args []Value) Value {
		th.atomicYield()
		s := th.syncState(nil, args[0])
		cur := s.val
		if cur == nil {
			cur = &IfaceV{}
		}
		eq := th.valEq(&Frame{id: -9, fn: fn}, cur, args[1])
		if th.p.Branch(eq) {
			s.val = args[2]
			return th.ctx().True()
		}
		return th.ctx().False()
	}
	intrinsics["(*sync/atomic.Value).Swap"] = func(th *Thread, fn *ssa.Function, args []Value) Value {
		th.atomicYield()
		s := th.syncState(nil, args[0])
		old := s.val
		if old == nil {
			old = &IfaceV{}
		}
		s.val = args[1]
		return old
	}
	intrinsics["time.Sleep"] = func(th *Thread, fn *ssa.Function, args []Value) Value {
		th.yield(nil)
		return nil
	}
}

func (th *Thread) atomicYield() {
	th.touchGlobal()
	if th.p.eng.cfg.Params["yield_at_atomics"] != 0 {
		th.yield(nil)
	}
}

var _ = sort.Strings
var _ = token.ADD

// ---- time ----

const unixToInternal = 62135596800

func init() {
	// time.Now: arbitrary non-decreasing instants between 2000-01-01 and 2100-01-01 (whole seconds,
	// no monotonic reading), so that After/Before/Sub/Since run from the real SSA.
	intrinsics["time.Now"] = func(th *Thread, fn *ssa.Function, args []Value) Value {
		p := th.p
		ctx := p.ctx
		sec := p.input("time.Now", 64)
		lo := ctx.Const(64, unixToInternal+946684800)
		hi := ctx.Const(64, unixToInternal+4102444800)
		c := ctx.And(ctx.Sle(lo, sec), ctx.Sle(sec, hi))
		if p.lastNow != nil {
			c = ctx.And(c, ctx.Sle(p.lastNow, sec))
		}
		p.Assume(c)
		p.lastNow = sec
		return &StructV{F: []Value{ctx.Const(64, 0), sec, nilPtr}}
	}
}

package main

import (
	"fmt"
	"sort"
	"strings"

	"golang.org/x/tools/go/ssa"
)

// EngineError: the machinery could not encode something. Never a success.
type EngineError struct{ Msg string }

func (e *EngineError) Error() string { return e.Msg }

func engineErr(f string, a ...interface{}) *EngineError {
	return &EngineError{Msg: fmt.Sprintf(f, a...)}
}

// pathAbort ends the current path without a verdict problem (infeasible assume, stop).
type pathAbort struct{ Reason string }

// boundExceeded: an unwinding assertion failed.
type boundExceeded struct{ Where string }

type Decision struct {
	C    int    // choice taken
	V    uint64 // payload (value for concretisation decisions)
	S    []int  `json:",omitempty"` // POR: sleep set (thread ids) to install at this decision
	HasS bool   `json:",omitempty"`
}

type Violation struct {
	Kind      string // assert | panic | deadlock
	Msg       string
	Model     map[string]uint64
	Decisions []Decision
	Stack     string
	Known     string // non-empty: matched known finding id
	Trace     []string
}

type knownCond struct {
	id   string
	cond *Term
}

// PathRun is the state of one explored path.
type PathRun struct {
	eng     *Engine
	w       *Worker
	ctx     *TermCtx
	solver  *Solver
	prefix  []Decision
	pos     int
	taken   []Decision
	steps   int64
	nFresh  map[string]int
	inputs  []*Term // nondet input variables in creation order
	known   []knownCond
	reached map[string]bool
	events  []string // human-readable notes for samples
	replay  bool     // concrete replay mode (L1): prefix ignored, model pre-asserted
	assumes int
	nobjs   int
	// per-path interpreter state
	globals   map[interface{}]*Obj
	initDone  map[string]bool
	initDepth int
	stubs     map[*ssa.Function]*FuncV
	stubUsed  map[string]bool
	havocAll  bool
	keepFn    map[*ssa.Function]bool
	havocHook func(th *Thread, fn *ssa.Function, args []Value) (Value, bool)
	havocLog  []string
	aliases   map[*ArrV]*Obj
	syncTab   map[string]*syncObj
	doneCh    chan pathOutcome
	initStored map[*Obj]bool
	unwind    int
	symBranch map[branchKey]int
	threads   []*Thread
	sched     *Scheduler
	violated  bool
	funcs     map[string]bool
	chanID    int
	nAsserts  int
	lastNow   *Term
	decided   map[int]bool
	por       bool
	sleep     map[int]bool
}

type branchKey struct {
	frame int
	instr interface{}
}

func (p *PathRun) fresh(name string, w int) *Term {
	k := p.nFresh[name]
	p.nFresh[name] = k + 1
	return p.ctx.Var(fmt.Sprintf("%s#%d", name, k), w)
}

func (p *PathRun) assertPC(t *Term) {
	p.solver.Assert(t)
}

// Assume adds t to the path condition; aborts the path if it becomes infeasible.
func (p *PathRun) Assume(t *Term) {
	if t.IsTrue() {
		return
	}
	if t.IsFalse() {
		panic(&pathAbort{"assume false"})
	}
	p.assertPC(t)
	p.assumes++
	if p.inPrefix() {
		return // feasibility of the prefix was established when it was created
	}
	switch p.solver.Check(nil) {
	case Unsat:
		panic(&pathAbort{"assumption infeasible"})
	}
}

func (p *PathRun) inPrefix() bool { return p.pos < len(p.prefix) }

func (p *PathRun) fork(alt Decision) {
	np := make([]Decision, len(p.taken)+1)
	copy(np, p.taken)
	np[len(p.taken)] = alt
	p.eng.push(np)
}

// Branch decides a symbolic condition, forking when both sides are feasible.
func (p *PathRun) Branch(cond *Term) bool {
	if cond.IsConst() {
		return cond.Val != 0
	}
	// a condition decided earlier on this path stays decided (the path condition only grows);
	// term identity is deterministic across re-executions, so prefix replay stays consistent.
	if v, ok := p.decided[cond.ID]; ok {
		return v
	}
	res := p.branchUncached(cond)
	if p.decided == nil {
		p.decided = map[int]bool{}
	}
	p.decided[cond.ID] = res
	p.decided[p.ctx.Not(cond).ID] = !res
	return res
}

func (p *PathRun) branchUncached(cond *Term) bool {
	if p.pos < len(p.prefix) {
		d := p.prefix[p.pos]
		p.pos++
		p.taken = append(p.taken, d)
		if d.C == 1 {
			p.assertPC(cond)
		} else {
			p.assertPC(p.ctx.Not(cond))
		}
		return d.C == 1
	}
	// every symbolic branch records a decision (also forced ones) so that prefix replay,
	// which does not consult the solver, consumes decisions consistently.
	rT := p.solver.Check(cond)
	if rT == Unsat {
		p.taken = append(p.taken, Decision{C: 0})
		p.pos = len(p.taken)
		p.prefix = p.taken
		return false
	}
	rF := p.solver.Check(p.ctx.Not(cond))
	if rF == Unsat {
		p.taken = append(p.taken, Decision{C: 1})
		p.pos = len(p.taken)
		p.prefix = p.taken
		return true
	}
	// both feasible (or unknown)
	p.fork(Decision{C: 0})
	p.taken = append(p.taken, Decision{C: 1})
	p.pos = len(p.taken)
	p.prefix = p.taken
	p.assertPC(cond)
	return true
}

// Choose picks one of n alternatives (conds[i] guards alternative i; they need not be exclusive
// but are expected to be exhaustive). Forks the other feasible ones.
func (p *PathRun) Choose(conds []*Term) int {
	if p.pos < len(p.prefix) {
		d := p.prefix[p.pos]
		p.pos++
		p.taken = append(p.taken, d)
		p.assertPC(conds[d.C])
		return d.C
	}
	first := -1
	for i, c := range conds {
		if c.IsFalse() {
			continue
		}
		if c.IsTrue() || p.solver.Check(c) != Unsat {
			if first < 0 {
				first = i
			} else {
				p.fork(Decision{C: i})
			}
		}
	}
	if first < 0 {
		panic(&pathAbort{"no feasible alternative"})
	}
	p.taken = append(p.taken, Decision{C: first})
	p.pos = len(p.taken)
	p.prefix = p.taken
	p.assertPC(conds[first])
	return first
}

const maxConcretize = 300

// Concretize returns a concrete value for t, forking over the other feasible values.
func (p *PathRun) Concretize(t *Term, why string) uint64 {
	if t.IsConst() {
		return t.Val
	}
	for n := 0; ; n++ {
		if n > maxConcretize {
			panic(&boundExceeded{"concretize " + why + ": more than " + fmt.Sprint(maxConcretize) + " feasible values"})
		}
		if p.pos < len(p.prefix) {
			d := p.prefix[p.pos]
			p.pos++
			p.taken = append(p.taken, d)
			eq := p.ctx.Eq(t, p.ctx.Const(t.W, d.V))
			if d.C == 1 {
				p.assertPC(eq)
				return d.V
			}
			p.assertPC(p.ctx.Not(eq))
			continue
		}
		r, m := p.solver.CheckModel(nil, []*Term{p.nameFor(t)})
		if r != Sat {
			if r == Unsat {
				panic(&pathAbort{"concretize: path infeasible"})
			}
			panic(engineErr("concretize %s: solver returned unknown", why))
		}
		v := m[p.nameFor(t).Name]
		eq := p.ctx.Eq(t, p.ctx.Const(t.W, v))
		// is any other value feasible?
		if p.solver.Check(p.ctx.Not(eq)) != Unsat {
			p.fork(Decision{C: 0, V: v})
		}
		p.taken = append(p.taken, Decision{C: 1, V: v})
		p.pos = len(p.taken)
		p.prefix = p.taken
		p.assertPC(eq)
		return v
	}
}

// nameFor returns a variable equal to t (so that get-value can be asked for it).
func (p *PathRun) nameFor(t *Term) *Term {
	if t.Op == OpVar {
		return t
	}
	key := fmt.Sprintf("cz!%d", t.ID)
	if v, ok := p.ctx.VarTerms[key]; ok {
		return v
	}
	v := p.ctx.Var(key, t.W)
	p.assertPC(p.ctx.Eq(v, t))
	return v
}

func (p *PathRun) inputVars() []*Term {
	return p.inputs
}

// Assert checks c on this path. On failure records a violation (or known finding).
func (p *PathRun) Assert(c *Term, msg string, th *Thread) {
	p.nAsserts++
	if c.IsTrue() {
		return
	}
	p.eng.noteObligation()
	neg := p.ctx.Not(c)
	// exclude known-finding predicates first
	q := neg
	for _, k := range p.known {
		q = p.ctx.And(q, p.ctx.Not(k.cond))
	}
	r, model := p.solver.CheckModel(q, p.inputVars())
	switch r {
	case Sat:
		p.eng.addViolation(&Violation{Kind: "assert", Msg: msg, Model: model, Decisions: append([]Decision(nil), p.taken...), Stack: th.stackString()})
		p.violated = true
	case Unknown:
		p.eng.addInconclusive(fmt.Sprintf("assertion %q: solver returned unknown (%s)", msg, strings.Join(p.solver.Errors, "; ")))
	case Unsat:
		for _, k := range p.known {
			r2, m2 := p.solver.CheckModel(p.ctx.And(neg, k.cond), p.inputVars())
			if r2 == Sat {
				p.eng.addViolation(&Violation{Kind: "assert", Msg: msg, Model: m2, Decisions: append([]Decision(nil), p.taken...), Stack: th.stackString(), Known: k.id})
			} else if r2 == Unknown {
				p.eng.addInconclusive(fmt.Sprintf("assertion %q under known finding %s: unknown", msg, k.id))
			}
		}
	}
	// continue under the assumption that the assertion holds
	p.Assume(c)
}

// failHere reports an unconditional failure on the current path (panic, deadlock).
func (p *PathRun) failHere(kind, msg string, stack string) {
	p.eng.noteObligation()
	q := p.ctx.True()
	for _, k := range p.known {
		q = p.ctx.And(q, p.ctx.Not(k.cond))
	}
	r, model := p.solver.CheckModel(q, p.inputVars())
	switch r {
	case Sat:
		p.eng.addViolation(&Violation{Kind: kind, Msg: msg, Model: model, Decisions: append([]Decision(nil), p.taken...), Stack: stack})
	case Unknown:
		p.eng.addInconclusive(fmt.Sprintf("%s %q: solver returned unknown", kind, msg))
	case Unsat:
		for _, k := range p.known {
			r2, m2 := p.solver.CheckModel(k.cond, p.inputVars())
			if r2 == Sat {
				p.eng.addViolation(&Violation{Kind: kind, Msg: msg, Model: m2, Decisions: append([]Decision(nil), p.taken...), Stack: stack, Known: k.id})
				break
			}
		}
	}
}

func modelString(m map[string]uint64) string {
	keys := make([]string, 0, len(m))
	for k := range m {
		keys = append(keys, k)
	}
	sort.Strings(keys)
	var sb strings.Builder
	for i, k := range keys {
		if i > 0 {
			sb.WriteString(" ")
		}
		if i > 40 {
			sb.WriteString("...")
			break
		}
		fmt.Fprintf(&sb, "%s=%d", k, m[k])
	}
	return sb.String()
}

package main

import (
	"fmt"
	"go/constant"
	"go/token"
	"go/types"
	"strings"
	"sync"

	"golang.org/x/tools/go/ssa"
)

type GoPanic struct {
	Val   Value
	Msg   string
	Stack string
	// runtime: true for runtime errors raised by the engine (index out of range, nil deref...)
	Runtime bool
}

type deferred struct {
	fn   *FuncV
	args []Value
	call *ssa.CallCommon // for builtins / invoke
}

type Frame struct {
	fn     *ssa.Function
	info   *fnInfo
	regs   []Value
	defers []*deferred
	id     int
	pos    token.Pos
	// results of a recovered function
	panicking *GoPanic
}

type fnInfo struct {
	idx map[ssa.Value]int
	n   int
}

var fnInfoCache sync.Map

func getFnInfo(fn *ssa.Function) *fnInfo {
	if v, ok := fnInfoCache.Load(fn); ok {
		return v.(*fnInfo)
	}
	inf := &fnInfo{idx: map[ssa.Value]int{}}
	for _, p := range fn.Params {
		inf.idx[p] = inf.n
		inf.n++
	}
	for _, p := range fn.FreeVars {
		inf.idx[p] = inf.n
		inf.n++
	}
	for _, b := range fn.Blocks {
		for _, ins := range b.Instrs {
			if v, ok := ins.(ssa.Value); ok {
				inf.idx[v] = inf.n
				inf.n++
			}
		}
	}
	if fn.Recover != nil {
		for _, ins := range fn.Recover.Instrs {
			if v, ok := ins.(ssa.Value); ok {
				if _, dup := inf.idx[v]; !dup {
					inf.idx[v] = inf.n
					inf.n++
				}
			}
		}
	}
	fnInfoCache.Store(fn, inf)
	return inf
}

type Thread struct {
	p           *PathRun
	id          int
	frames      []*Frame
	activePanic *GoPanic
	nframe      int
	// scheduling
	wake    chan struct{}
	done    bool
	blocked func() bool // non-nil: thread waits until it returns true
	name    string
	// partial-order reduction bookkeeping
	opKeys        []interface{} // set by the caller of yield: objects of the pending visible operation
	pendKeys      []interface{}
	pendGlobal    bool
	touched       []interface{}
	touchedGlobal bool
}

func (th *Thread) ctx() *TermCtx { return th.p.ctx }

func (th *Thread) stackString() string {
	var sb strings.Builder
	n := 0
	for i := len(th.frames) - 1; i >= 0 && n < 12; i-- {
		fr := th.frames[i]
		pos := ""
		if fr.pos.IsValid() {
			p := th.p.eng.fset.Position(fr.pos)
			pos = fmt.Sprintf(" %s:%d", shortPath(p.Filename), p.Line)
		}
		fmt.Fprintf(&sb, "%s%s\n", fr.fn.String(), pos)
		n++
	}
	return sb.String()
}

func shortPath(p string) string {
	if i := strings.Index(p, "/repo/"); i >= 0 {
		return p[i+6:]
	}
	if i := strings.LastIndex(p, "/src/"); i >= 0 {
		return p[i+5:]
	}
	return p
}

func (th *Thread) goPanic(msg string) {
	panic(&GoPanic{Val: &IfaceV{T: types.Typ[types.String], V: strConst(th.ctx(), msg)}, Msg: msg, Stack: th.stackString(), Runtime: true})
}

func (th *Thread) constVal(c *ssa.Const) Value {
	ctx := th.ctx()
	if c.Value == nil {
		return ctx.zero(c.Type())
	}
	t := c.Type().Underlying()
	if b, ok := t.(*types.Basic); ok {
		switch {
		case b.Info()&types.IsBoolean != 0:
			return ctx.Bool(constant.BoolVal(c.Value))
		case b.Info()&types.IsInteger != 0:
			w := bvWidth(t)
			v := constant.ToInt(c.Value)
			if i, ok := constant.Int64Val(v); ok {
				return ctx.Const(w, uint64(i))
			}
			if u, ok := constant.Uint64Val(v); ok {
				return ctx.Const(w, u)
			}
			panic(engineErr("const out of range: %s", c))
		case b.Info()&types.IsFloat != 0:
			f, _ := constant.Float64Val(constant.ToFloat(c.Value))
			return FloatV(f)
		case b.Info()&types.IsString != 0:
			if c.Value.Kind() == constant.String {
				return strConst(ctx, constant.StringVal(c.Value))
			}
			// rune/int constant converted to string
			if i, ok := constant.Int64Val(constant.ToInt(c.Value)); ok {
				return strConst(ctx, string(rune(i)))
			}
		}
	}
	// zero constant of aggregate type (e.g. generics)
	return ctx.zero(c.Type())
}

func (th *Thread) get(fr *Frame, v ssa.Value) Value {
	switch x := v.(type) {
	case *ssa.Const:
		return th.constVal(x)
	case *ssa.Function:
		return &FuncV{Fn: x}
	case *ssa.Global:
		return &PtrV{O: th.global(x)}
	case *ssa.Builtin:
		return &FuncV{Intr: "builtin:" + x.Name()}
	}
	idx, ok := fr.info.idx[v]
	if !ok {
		panic(engineErr("value %s not numbered in %s", v.Name(), fr.fn))
	}
	r := fr.regs[idx]
	if r == nil {
		// legitimately nil only for untyped nil... registers are always set before use
		return nil
	}
	return r
}

func (th *Thread) getTerm(fr *Frame, v ssa.Value) *Term {
	x := th.get(fr, v)
	t, ok := x.(*Term)
	if !ok {
		if p, isP := x.(*Poison); isP {
			panic(engineErr("use of poison value (%s) at %s", p.Why, th.posStr(fr)))
		}
		panic(engineErr("expected scalar, got %T for %s in %s", x, v.Name(), fr.fn))
	}
	return t
}

func (th *Thread) posStr(fr *Frame) string {
	if fr == nil || fr.fn == nil {
		return th.callerStr()
	}
	if fr.pos.IsValid() {
		p := th.p.eng.fset.Position(fr.pos)
		return fmt.Sprintf("%s:%d (%s)", shortPath(p.Filename), p.Line, fr.fn)
	}
	return fr.fn.String()
}

func (th *Thread) set(fr *Frame, v ssa.Value, x Value) {
	fr.regs[fr.info.idx[v]] = x
}

const maxDepth = 1500

// callFunction executes fn (SSA body) with args and returns its result (single value, TupleV, or nil).
func (th *Thread) callFunction(fv *FuncV, args []Value) (ret Value) {
	fn := fv.Fn
	if fn == nil {
		panic(engineErr("call of nil/builtin function value %q", fv.Intr))
	}
	p := th.p
	meta := metaOf(fn)
	name := meta.name
	if len(p.stubs) > 0 {
		st, ok := p.stubs[fn]
		if !ok {
			if o := fn.Origin(); o != nil {
				st, ok = p.stubs[o]
			}
		}
		if ok && st.Fn != fn {
			p.stubUsed[name] = true
			return th.callFunction(st, args)
		}
	}
	if meta.intr != nil {
		return meta.intr(th, fn, args)
	}
	if meta.isInit && p.initDepth > 0 && len(th.frames) > 0 {
		// other packages are initialised lazily on first access to one of their globals
		return nil
	}
	if fn.Blocks == nil {
		if fn.Pkg != nil {
			fn.Pkg.Build()
		}
		if fn.Blocks == nil {
			if r, ok := th.p.havocCall(th, fn, args); ok {
				return r
			}
			panic(engineErr("function %s has no Go body (assembly/external) and no intrinsic; called from %s", name, th.callerStr()))
		}
	}
	if r, ok := th.p.havocCall(th, fn, args); ok {
		return r
	}
	if len(th.frames) > maxDepth {
		panic(&boundExceeded{"call depth > " + fmt.Sprint(maxDepth) + " in " + name})
	}
	if meta.isRestic && p.initDepth == 0 && !p.funcs[name] {
		p.funcs[name] = true
	}
	info := getFnInfo(fn)
	fr := &Frame{fn: fn, info: info, regs: make([]Value, info.n), id: th.nframe}
	th.nframe++
	if len(args) != len(fn.Params) {
		panic(engineErr("call %s: %d args for %d params", name, len(args), len(fn.Params)))
	}
	for i := range fn.Params {
		fr.regs[i] = args[i]
	}
	for i := range fn.FreeVars {
		if i >= len(fv.Env) {
			panic(engineErr("closure %s: missing free var %d", name, i))
		}
		fr.regs[len(fn.Params)+i] = fv.Env[i]
	}
	th.frames = append(th.frames, fr)
	depth := len(th.frames)
	defer func() {
		if r := recover(); r != nil {
			gp, ok := r.(*GoPanic)
			if !ok {
				panic(r)
			}
			th.frames = th.frames[:depth]
			// run deferred calls while panicking
			cur := gp
			for len(fr.defers) > 0 {
				d := fr.defers[len(fr.defers)-1]
				fr.defers = fr.defers[:len(fr.defers)-1]
				th.activePanic = cur
				np := th.runDeferred(fr, d)
				if np != nil {
					cur = np
					continue
				}
				if th.activePanic == nil {
					// recovered
					cur = nil
					break
				}
			}
			th.activePanic = nil
			if cur != nil {
				th.frames = th.frames[:depth-1]
				panic(cur)
			}
			// recovered: run remaining defers normally, then the Recover block
			th.runDefers(fr)
			if fn.Recover != nil {
				ret = th.execBlocks(fr, fn.Recover)
			} else {
				ret = th.zeroResults(fn)
			}
			th.frames = th.frames[:depth-1]
		}
	}()
	ret = th.execBlocks(fr, fn.Blocks[0])
	th.frames = th.frames[:depth-1]
	return ret
}

func (th *Thread) callerStr() string {
	if len(th.frames) == 0 {
		return "<top>"
	}
	return th.posStr(th.frames[len(th.frames)-1])
}

func (th *Thread) zeroResults(fn *ssa.Function) Value {
	res := fn.Signature.Results()
	switch res.Len() {
	case 0:
		return nil
	case 1:
		return th.ctx().zero(res.At(0).Type())
	}
	return th.ctx().zero(res)
}

// runDeferred runs one deferred call, returning a new panic if it panicked.
func (th *Thread) runDeferred(fr *Frame, d *deferred) (np *GoPanic) {
	depth := len(th.frames)
	defer func() {
		if r := recover(); r != nil {
			gp, ok := r.(*GoPanic)
			if !ok {
				panic(r)
			}
			th.frames = th.frames[:depth]
			np = gp
		}
	}()
	th.invoke(fr, d.fn, d.args, d.call)
	return nil
}

func (th *Thread) runDefers(fr *Frame) {
	for len(fr.defers) > 0 {
		d := fr.defers[len(fr.defers)-1]
		fr.defers = fr.defers[:len(fr.defers)-1]
		th.invoke(fr, d.fn, d.args, d.call)
	}
}

// invoke calls a function value or builtin with evaluated args.
func (th *Thread) invoke(fr *Frame, fv *FuncV, args []Value, call *ssa.CallCommon) Value {
	if fv == nil || (fv.Fn == nil && fv.Intr == "") {
		th.goPanic("invalid memory address or nil pointer dereference (call of nil func)")
	}
	if fv.Fn == nil {
		return th.builtin(fr, fv.Intr, args, call)
	}
	return th.callFunction(fv, args)
}

// prepareCall evaluates a CallCommon into (function value, args).
func (th *Thread) prepareCall(fr *Frame, call *ssa.CallCommon) (*FuncV, []Value) {
	if call.IsInvoke() {
		recv := th.get(fr, call.Value)
		iv, ok := recv.(*IfaceV)
		if !ok {
			if p, isP := recv.(*Poison); isP {
				panic(engineErr("invoke on poison value (%s) at %s", p.Why, th.posStr(fr)))
			}
			panic(engineErr("invoke on non-interface %T at %s", recv, th.posStr(fr)))
		}
		if iv.T == nil {
			th.goPanic("invalid memory address or nil pointer dereference (method call on nil interface " + call.Method.Name() + ")")
		}
		fn := th.p.eng.lookupMethod(iv.T, call.Method)
		if fn == nil {
			panic(engineErr("no method %s on %s", call.Method.Name(), iv.T))
		}
		args := make([]Value, 0, len(call.Args)+1)
		args = append(args, iv.V)
		for _, a := range call.Args {
			args = append(args, th.get(fr, a))
		}
		return &FuncV{Fn: fn}, args
	}
	fvv := th.get(fr, call.Value)
	fv, ok := fvv.(*FuncV)
	if !ok {
		if p, isP := fvv.(*Poison); isP {
			panic(engineErr("call of poison func (%s) at %s", p.Why, th.posStr(fr)))
		}
		panic(engineErr("call of non-function %T at %s", fvv, th.posStr(fr)))
	}
	args := make([]Value, len(call.Args))
	for i, a := range call.Args {
		args[i] = th.get(fr, a)
	}
	return fv, args
}

func (th *Thread) doCall(fr *Frame, call *ssa.CallCommon) Value {
	fv, args := th.prepareCall(fr, call)
	return th.invoke(fr, fv, args, call)
}

const stepBudget = 400_000_000

func (th *Thread) execBlocks(fr *Frame, start *ssa.BasicBlock) Value {
	p := th.p
	ctx := p.ctx
	b := start
	var prev *ssa.BasicBlock
	for {
		// phis first (parallel assignment)
		nphi := 0
		for _, ins := range b.Instrs {
			if _, ok := ins.(*ssa.Phi); ok {
				nphi++
			} else {
				break
			}
		}
		if nphi > 0 {
			pi := -1
			for i, pb := range b.Preds {
				if pb == prev {
					pi = i
					break
				}
			}
			if pi < 0 {
				panic(engineErr("phi: predecessor not found in %s", fr.fn))
			}
			tmp := make([]Value, nphi)
			for i := 0; i < nphi; i++ {
				tmp[i] = th.get(fr, b.Instrs[i].(*ssa.Phi).Edges[pi])
			}
			for i := 0; i < nphi; i++ {
				th.set(fr, b.Instrs[i].(*ssa.Phi), tmp[i])
			}
		}
		var next *ssa.BasicBlock
		for _, ins := range b.Instrs[nphi:] {
			p.steps++
			if p.steps&0xfff == 0 {
				if p.steps > stepBudget {
					panic(&boundExceeded{"step budget exhausted"})
				}
				if p.eng.stopped() {
					panic(&pathAbort{"stopped"})
				}
			}
			if pos := ins.Pos(); pos.IsValid() {
				fr.pos = pos
			}
			switch i := ins.(type) {
			case *ssa.DebugRef:
			case *ssa.Alloc:
				o := p.newObj(ctx.zero(i.Type().Underlying().(*types.Pointer).Elem()), i.Comment)
				th.set(fr, i, &PtrV{O: o})
			case *ssa.BinOp:
				th.set(fr, i, th.binop(fr, i.Op, th.get(fr, i.X), th.get(fr, i.Y), i.X.Type(), i.Y.Type()))
			case *ssa.UnOp:
				th.set(fr, i, th.unop(fr, i))
			case *ssa.Call:
				r := th.doCall(fr, &i.Call)
				th.set(fr, i, r)
			case *ssa.ChangeInterface:
				th.set(fr, i, th.get(fr, i.X))
			case *ssa.ChangeType:
				th.set(fr, i, th.get(fr, i.X))
			case *ssa.Convert:
				th.set(fr, i, th.convert(fr, th.get(fr, i.X), i.X.Type(), i.Type()))
			case *ssa.MultiConvert:
				th.set(fr, i, th.convert(fr, th.get(fr, i.X), i.X.Type(), i.Type()))
			case *ssa.Extract:
				tv, ok := th.get(fr, i.Tuple).(TupleV)
				if !ok {
					if ps, isP := th.get(fr, i.Tuple).(*Poison); isP {
						th.set(fr, i, ps)
						break
					}
					panic(engineErr("extract from non-tuple %T at %s", th.get(fr, i.Tuple), th.posStr(fr)))
				}
				th.set(fr, i, tv[i.Index])
			case *ssa.Field:
				sv, ok := th.get(fr, i.X).(*StructV)
				if !ok {
					panic(engineErr("field of non-struct %T at %s", th.get(fr, i.X), th.posStr(fr)))
				}
				th.set(fr, i, sv.F[i.Field])
			case *ssa.FieldAddr:
				pv := th.ptr(fr, th.get(fr, i.X))
				if pv.IsNil() {
					th.goPanic("invalid memory address or nil pointer dereference")
				}
				np := &PtrV{O: pv.O, Path: append(append([]PathElem(nil), pv.Path...), PathElem{Field: i.Field})}
				th.set(fr, i, np)
			case *ssa.Index:
				th.set(fr, i, th.indexValue(fr, th.get(fr, i.X), th.getTerm(fr, i.Index), i.Index.Type()))
			case *ssa.IndexAddr:
				th.set(fr, i, th.indexAddr(fr, th.get(fr, i.X), th.getTerm(fr, i.Index), i.Index.Type()))
			case *ssa.Lookup:
				th.set(fr, i, th.lookup(fr, i))
			case *ssa.MakeChan:
				sz := int(p.Concretize(th.getTerm(fr, i.Size), "chan size"))
				th.set(fr, i, &ChanV{C: p.newChan(sz)})
			case *ssa.MakeClosure:
				env := make([]Value, len(i.Bindings))
				for k, bnd := range i.Bindings {
					env[k] = th.get(fr, bnd)
				}
				th.set(fr, i, &FuncV{Fn: i.Fn.(*ssa.Function), Env: env})
			case *ssa.MakeInterface:
				th.set(fr, i, &IfaceV{T: i.X.Type(), V: th.get(fr, i.X)})
			case *ssa.MakeMap:
				th.set(fr, i, &MapV{M: &MapObj{}})
			case *ssa.MakeSlice:
				th.set(fr, i, th.makeSlice(fr, i))
			case *ssa.MapUpdate:
				th.mapUpdate(fr, th.get(fr, i.Map), th.get(fr, i.Key), th.get(fr, i.Value))
			case *ssa.Next:
				th.set(fr, i, th.next(fr, i))
			case *ssa.Range:
				th.set(fr, i, th.rangeIter(fr, th.get(fr, i.X)))
			case *ssa.Slice:
				th.set(fr, i, th.sliceOp(fr, i))
			case *ssa.SliceToArrayPointer:
				sl := th.get(fr, i.X).(*SliceV)
				n := int(i.Type().Underlying().(*types.Pointer).Elem().Underlying().(*types.Array).Len())
				if sl.Len < n {
					th.goPanic(fmt.Sprintf("cannot convert slice with length %d to array or pointer to array with length %d", sl.Len, n))
				}
				if sl.O == nil {
					th.set(fr, i, nilPtr)
				} else {
					th.set(fr, i, &PtrV{O: sl.O, Path: []PathElem{{Field: -2, I: sl.Off}}})
				}
			case *ssa.Store:
				th.store(fr, th.get(fr, i.Addr), th.get(fr, i.Val))
			case *ssa.TypeAssert:
				th.set(fr, i, th.typeAssert(fr, i))
			case *ssa.Defer:
				fv, args := th.prepareCall(fr, &i.Call)
				fr.defers = append(fr.defers, &deferred{fn: fv, args: args, call: &i.Call})
			case *ssa.RunDefers:
				th.runDefers(fr)
			case *ssa.Go:
				fv, args := th.prepareCall(fr, &i.Call)
				th.spawn(fr, fv, args, &i.Call)
			case *ssa.Send:
				th.chanSend(fr, th.get(fr, i.Chan), th.get(fr, i.X))
			case *ssa.Select:
				th.set(fr, i, th.selectOp(fr, i))
			case *ssa.Panic:
				v := th.get(fr, i.X)
				panic(&GoPanic{Val: v, Msg: th.panicMsg(v), Stack: th.stackString()})
			case *ssa.Return:
				switch len(i.Results) {
				case 0:
					return nil
				case 1:
					return th.get(fr, i.Results[0])
				}
				tv := make(TupleV, len(i.Results))
				for k, r := range i.Results {
					tv[k] = th.get(fr, r)
				}
				return tv
			case *ssa.Jump:
				next = b.Succs[0]
			case *ssa.If:
				cond := th.getTerm(fr, i.Cond)
				if th.branchAt(fr, i, cond) {
					next = b.Succs[0]
				} else {
					next = b.Succs[1]
				}
			default:
				panic(engineErr("unsupported instruction %T (%s) in %s", ins, ins, fr.fn))
			}
		}
		if next == nil {
			panic(engineErr("block without terminator in %s", fr.fn))
		}
		prev = b
		b = next
	}
}

func (th *Thread) branchAt(fr *Frame, site interface{}, cond *Term) bool {
	if cond.IsConst() {
		return cond.Val != 0
	}
	p := th.p
	k := branchKey{fr.id, site}
	p.symBranch[k]++
	if p.symBranch[k] > p.unwind {
		panic(&boundExceeded{fmt.Sprintf("unwinding bound %d exceeded at %s", p.unwind, th.posStr(fr))})
	}
	return p.Branch(cond)
}

func (th *Thread) panicMsg(v Value) string {
	iv, ok := v.(*IfaceV)
	if !ok || iv.T == nil {
		return "panic(nil)"
	}
	if s, ok := iv.V.(*StrV); ok {
		if cs, ok := s.Concrete(); ok {
			return cs
		}
		return "<symbolic string>"
	}
	// error value: try calling Error()
	if m := th.p.eng.lookupMethodByName(iv.T, "Error"); m != nil {
		defer func() { recover() }()
		r := th.callFunction(&FuncV{Fn: m}, []Value{iv.V})
		if s, ok := r.(*StrV); ok {
			if cs, ok := s.Concrete(); ok {
				return cs
			}
		}
	}
	return "panic of type " + iv.T.String()
}

func (th *Thread) ptr(fr *Frame, v Value) *PtrV {
	switch x := v.(type) {
	case *PtrV:
		return x
	case *Poison:
		panic(engineErr("pointer is poison (%s) at %s", x.Why, th.posStr(fr)))
	case nil:
		return nilPtr
	}
	panic(engineErr("expected pointer, got %T at %s", v, th.posStr(fr)))
}

// ---- memory ----

func (p *PathRun) newObj(v Value, name string) *Obj {
	p.nobjs++
	return &Obj{V: v, ID: p.nobjs, Name: name}
}

func (th *Thread) load(fr *Frame, pv *PtrV) Value {
	if pv.IsNil() {
		th.goPanic("invalid memory address or nil pointer dereference")
	}
	v := pv.O.V
	for k, e := range pv.Path {
		switch {
		case e.Field >= 0:
			sv, ok := v.(*StructV)
			if !ok {
				if po, isP := v.(*Poison); isP {
					panic(engineErr("load from poisoned object (%s) at %s", po.Why, th.posStr(fr)))
				}
				panic(engineErr("load: field path on %T at %s", v, th.posStr(fr)))
			}
			v = sv.F[e.Field]
		case e.Field == -2:
			// array view of a slice's backing store starting at I; remaining path indexes relative to it
			av := v.(*ArrV)
			if k == len(pv.Path)-1 {
				// whole-array load: needs static length; handled by caller via loadArrayView
				return &arrView{A: av, Off: e.I}
			}
			nxt := pv.Path[k+1]
			if nxt.Field != -1 {
				panic(engineErr("array view followed by non-index"))
			}
			// fold the offset into the next index
			v = &arrView{A: av, Off: e.I}
		default:
			var av *ArrV
			off := 0
			switch a := v.(type) {
			case *ArrV:
				av = a
			case *arrView:
				av = a.A
				off = a.Off
			default:
				panic(engineErr("load: index path on %T at %s", v, th.posStr(fr)))
			}
			if e.Sym == nil {
				v = av.at(off + e.I)
			} else {
				v = th.symRead(fr, av, off, e.Sym)
			}
		}
	}
	return v
}

// arrView is an internal window into an ArrV (result of SliceToArrayPointer).
type arrView struct {
	A   *ArrV
	Off int
}

func (a *ArrV) at(i int) Value {
	if i < 0 || i >= len(a.E) {
		panic(engineErr("internal: array index %d out of %d", i, len(a.E)))
	}
	return a.E[i]
}

func (th *Thread) symRead(fr *Frame, av *ArrV, off int, idx *Term) Value {
	ctx := th.ctx()
	n := len(av.E) - off
	if n <= 0 {
		panic(engineErr("symbolic read from empty array"))
	}
	if n > 4096 {
		i := int(th.p.Concretize(idx, "index into large array"))
		return av.E[off+i]
	}
	// all scalar?
	res := av.E[off+n-1]
	for i := n - 2; i >= 0; i-- {
		c := ctx.Eq(idx, ctx.Const(idx.W, uint64(i)))
		m, ok := mergeVal(ctx, c, av.E[off+i], res)
		if !ok {
			k := int(th.p.Concretize(idx, "index (non-mergeable elements)"))
			if k >= n {
				panic(engineErr("concretized index out of range"))
			}
			return av.E[off+k]
		}
		res = m
	}
	return res
}

// mergeVal builds ite(c, a, b) for values; ok=false when not representable.
func mergeVal(ctx *TermCtx, c *Term, a, b Value) (Value, bool) {
	if a == b {
		return a, true
	}
	switch x := a.(type) {
	case *Term:
		y, ok := b.(*Term)
		if !ok || x.W != y.W {
			return nil, false
		}
		return ctx.Ite(c, x, y), true
	case *StructV:
		y, ok := b.(*StructV)
		if !ok || len(x.F) != len(y.F) {
			return nil, false
		}
		n := &StructV{F: make([]Value, len(x.F))}
		for i := range x.F {
			m, ok := mergeVal(ctx, c, x.F[i], y.F[i])
			if !ok {
				return nil, false
			}
			n.F[i] = m
		}
		return n, true
	case *ArrV:
		y, ok := b.(*ArrV)
		if !ok || len(x.E) != len(y.E) {
			return nil, false
		}
		n := &ArrV{E: make([]Value, len(x.E))}
		for i := range x.E {
			m, ok := mergeVal(ctx, c, x.E[i], y.E[i])
			if !ok {
				return nil, false
			}
			n.E[i] = m
		}
		return n, true
	case *StrV:
		y, ok := b.(*StrV)
		if !ok || len(x.B) != len(y.B) {
			return nil, false
		}
		n := &StrV{B: make([]*Term, len(x.B))}
		for i := range x.B {
			n.B[i] = ctx.Ite(c, x.B[i], y.B[i])
		}
		return n, true
	case *PtrV:
		y, ok := b.(*PtrV)
		if ok && x.IsNil() && y.IsNil() {
			return x, true
		}
		if ok && x.O == y.O && pathConcreteEq(x.Path, y.Path) {
			return x, true
		}
		return nil, false
	case *SliceV:
		y, ok := b.(*SliceV)
		if ok && x.O == y.O && x.Off == y.Off && x.Len == y.Len && x.Cap == y.Cap {
			return x, true
		}
		return nil, false
	case *IfaceV:
		y, ok := b.(*IfaceV)
		if ok && x.T == nil && y.T == nil {
			return x, true
		}
		if ok && x.T != nil && y.T != nil && types.Identical(x.T, y.T) {
			m, ok := mergeVal(ctx, c, x.V, y.V)
			if ok {
				return &IfaceV{T: x.T, V: m}, true
			}
		}
		return nil, false
	case FloatV:
		if y, ok := b.(FloatV); ok && x == y {
			return x, true
		}
		return nil, false
	}
	return nil, false
}

func pathConcreteEq(a, b []PathElem) bool {
	if len(a) != len(b) {
		return false
	}
	for i := range a {
		if a[i].Field != b[i].Field || a[i].I != b[i].I || a[i].Sym != b[i].Sym {
			return false
		}
	}
	return true
}

func (th *Thread) loadValue(fr *Frame, pv *PtrV, t types.Type) Value {
	v := th.load(fr, pv)
	if view, ok := v.(*arrView); ok {
		at := t.Underlying().(*types.Array)
		n := int(at.Len())
		out := &ArrV{E: make([]Value, n)}
		for i := 0; i < n; i++ {
			out.E[i] = copyVal(view.A.E[view.Off+i])
		}
		return out
	}
	return copyVal(v)
}

func (th *Thread) store(fr *Frame, addr Value, val Value) {
	pv := th.ptr(fr, addr)
	if pv.IsNil() {
		th.goPanic("invalid memory address or nil pointer dereference")
	}
	val = copyVal(val)
	if th.p.initDepth > 0 {
		if th.p.initStored == nil {
			th.p.initStored = map[*Obj]bool{}
		}
		th.p.initStored[pv.O] = true
	}
	if len(pv.Path) == 0 {
		pv.O.V = val
		return
	}
	th.storePath(fr, &pv.O.V, pv.Path, val, nil)
}

// storePath writes val at path below *slot. guard != nil makes the write conditional.
func (th *Thread) storePath(fr *Frame, slot *Value, path []PathElem, val Value, guard *Term) {
	ctx := th.ctx()
	if len(path) == 0 {
		if guard == nil {
			*slot = val
			return
		}
		m, ok := mergeVal(ctx, guard, val, *slot)
		if !ok {
			panic(engineErr("conditional store of non-mergeable value %T at %s", val, th.posStr(fr)))
		}
		*slot = m
		return
	}
	e := path[0]
	switch {
	case e.Field >= 0:
		sv, ok := (*slot).(*StructV)
		if !ok {
			panic(engineErr("store: field path on %T at %s", *slot, th.posStr(fr)))
		}
		th.storePath(fr, &sv.F[e.Field], path[1:], val, guard)
	case e.Field == -2:
		av := (*slot).(*ArrV)
		if len(path) == 1 {
			// whole-array store through an array view
			src := val.(*ArrV)
			for i := range src.E {
				th.storePath(fr, &av.E[e.I+i], nil, src.E[i], guard)
			}
			return
		}
		nxt := path[1]
		if nxt.Sym == nil {
			th.storePath(fr, &av.E[e.I+nxt.I], path[2:], val, guard)
		} else {
			th.symStore(fr, av, e.I, nxt.Sym, path[2:], val, guard)
		}
	default:
		av, ok := (*slot).(*ArrV)
		if !ok {
			panic(engineErr("store: index path on %T at %s", *slot, th.posStr(fr)))
		}
		if e.Sym == nil {
			if e.I < 0 || e.I >= len(av.E) {
				panic(engineErr("internal: store index %d out of %d", e.I, len(av.E)))
			}
			th.storePath(fr, &av.E[e.I], path[1:], val, guard)
		} else {
			th.symStore(fr, av, 0, e.Sym, path[1:], val, guard)
		}
	}
}

func (th *Thread) symStore(fr *Frame, av *ArrV, off int, idx *Term, rest []PathElem, val Value, guard *Term) {
	ctx := th.ctx()
	n := len(av.E) - off
	mergeable := n <= 4096
	if mergeable {
		// probe mergeability on the first element
		switch val.(type) {
		case *Term, *StructV, *ArrV:
		default:
			if len(rest) == 0 {
				mergeable = false
			}
		}
	}
	if !mergeable {
		i := int(th.p.Concretize(idx, "store index"))
		th.storePath(fr, &av.E[off+i], rest, val, guard)
		return
	}
	for i := 0; i < n; i++ {
		c := ctx.Eq(idx, ctx.Const(idx.W, uint64(i)))
		if guard != nil {
			c = ctx.And(guard, c)
		}
		if c.IsFalse() {
			continue
		}
		if c.IsTrue() {
			th.storePath(fr, &av.E[off+i], rest, val, nil)
		} else {
			th.storePath(fr, &av.E[off+i], rest, val, c)
		}
	}
}

package main

import (
	"fmt"
	"go/types"

	"golang.org/x/tools/go/ssa"
)

// Value is one of: *Term, FloatV, *StrV, *StructV, *ArrV, *PtrV, *SliceV, *MapV,
// *IfaceV, *FuncV, *ChanV, TupleV, *Poison, *IterV.
type Value interface{}

type FloatV float64

type StrV struct{ B []*Term } // bytes, W=8; concrete length

type StructV struct{ F []Value }
type ArrV struct{ E []Value }

type Obj struct {
	V    Value
	ID   int
	Name string
	// For objects backing cgo-free opaque host things (mutex, waitgroup) we keep ordinary struct values.
}

type PathElem struct {
	Field int   // >=0: struct field; -1: index
	I     int   // concrete index when Sym == nil
	Sym   *Term // symbolic index (64-bit) or nil
}

type PtrV struct {
	O    *Obj
	Path []PathElem
	// Fn non-nil: pointer produced from a function (unused)
}

func (p *PtrV) IsNil() bool { return p == nil || p.O == nil }

type SliceV struct {
	O             *Obj // O.V is *ArrV; nil => nil slice
	Off, Len, Cap int
}

type MapObj struct {
	Keys []Value
	Vals []Value
	Dead []bool
	N    int
}

type MapV struct{ M *MapObj } // M nil => nil map

type IfaceV struct {
	T types.Type // nil => nil interface
	V Value
}

type FuncV struct {
	Fn   *ssa.Function
	Env  []Value
	Intr string // builtin/intrinsic name when Fn == nil
}

type ChanObj struct {
	ID     int
	Cap    int
	Buf    []Value
	Closed bool
	recvq  []*waiter // blocked receivers (incl. select cases), FIFO
	sendq  []*waiter // blocked senders (incl. select cases), FIFO
}

type ChanV struct{ C *ChanObj }

type TupleV []Value

type Poison struct{ Why string }

// IterV: map / string range iterator
type IterV struct {
	IsStr bool
	Str   *StrV
	Pos   int
	Keys  []Value
	Vals  []Value
	M     *MapObj
	KIdx  []int
}

var nilPtr = &PtrV{}

func isNilValue(v Value) bool {
	switch x := v.(type) {
	case nil:
		return true
	case *PtrV:
		return x.IsNil()
	case *SliceV:
		return x == nil || x.O == nil
	case *MapV:
		return x == nil || x.M == nil
	case *IfaceV:
		return x == nil || x.T == nil
	case *FuncV:
		return x == nil || (x.Fn == nil && x.Intr == "")
	case *ChanV:
		return x == nil || x.C == nil
	}
	return false
}

func bvWidth(t types.Type) int {
	switch b := t.Underlying().(type) {
	case *types.Basic:
		switch b.Kind() {
		case types.Bool, types.UntypedBool:
			return 0
		case types.Int8, types.Uint8:
			return 8
		case types.Int16, types.Uint16:
			return 16
		case types.Int32, types.Uint32, types.UntypedRune:
			return 32
		case types.Int, types.Uint, types.Int64, types.Uint64, types.Uintptr, types.UntypedInt:
			return 64
		}
	}
	return -1
}

func isSigned(t types.Type) bool {
	if b, ok := t.Underlying().(*types.Basic); ok {
		return b.Info()&types.IsInteger != 0 && b.Info()&types.IsUnsigned == 0
	}
	return false
}

func isFloat(t types.Type) bool {
	if b, ok := t.Underlying().(*types.Basic); ok {
		return b.Info()&types.IsFloat != 0
	}
	return false
}

func isString(t types.Type) bool {
	if b, ok := t.Underlying().(*types.Basic); ok {
		return b.Info()&types.IsString != 0
	}
	return false
}

func isInteger(t types.Type) bool {
	if b, ok := t.Underlying().(*types.Basic); ok {
		return b.Info()&types.IsInteger != 0
	}
	return false
}

func (c *TermCtx) zero(t types.Type) Value {
	switch u := t.Underlying().(type) {
	case *types.Basic:
		switch {
		case u.Kind() == types.UnsafePointer:
			return nilPtr
		case u.Info()&types.IsBoolean != 0:
			return c.False()
		case u.Info()&types.IsInteger != 0:
			return c.Const(bvWidth(t), 0)
		case u.Info()&types.IsFloat != 0:
			return FloatV(0)
		case u.Info()&types.IsString != 0:
			return &StrV{}
		case u.Kind() == types.UntypedNil:
			return nil
		}
	case *types.Pointer:
		return nilPtr
	case *types.Slice:
		return &SliceV{}
	case *types.Map:
		return &MapV{}
	case *types.Interface:
		return &IfaceV{}
	case *types.Signature:
		return &FuncV{}
	case *types.Chan:
		return &ChanV{}
	case *types.Struct:
		s := &StructV{F: make([]Value, u.NumFields())}
		for i := range s.F {
			s.F[i] = c.zero(u.Field(i).Type())
		}
		return s
	case *types.Array:
		n := int(u.Len())
		a := &ArrV{E: make([]Value, n)}
		if n > 0 {
			z := c.zero(u.Elem())
			switch z.(type) {
			case *StructV, *ArrV:
				for i := range a.E {
					a.E[i] = c.zero(u.Elem())
				}
			default:
				for i := range a.E {
					a.E[i] = z
				}
			}
		}
		return a
	case *types.Tuple:
		tv := make(TupleV, u.Len())
		for i := range tv {
			tv[i] = c.zero(u.At(i).Type())
		}
		return tv
	}
	panic(engineErr("zero: unsupported type %s", t))
}

// copyVal deep-copies aggregates (struct/array); everything else is immutable or a reference.
func copyVal(v Value) Value {
	switch x := v.(type) {
	case *StructV:
		n := &StructV{F: make([]Value, len(x.F))}
		for i, f := range x.F {
			n.F[i] = copyVal(f)
		}
		return n
	case *ArrV:
		n := &ArrV{E: make([]Value, len(x.E))}
		for i, f := range x.E {
			n.E[i] = copyVal(f)
		}
		return n
	}
	return v
}

func strConst(c *TermCtx, s string) *StrV {
	r := &StrV{B: make([]*Term, len(s))}
	for i := 0; i < len(s); i++ {
		r.B[i] = c.Const(8, uint64(s[i]))
	}
	return r
}

// concreteString returns the Go string if all bytes are constants.
func (s *StrV) Concrete() (string, bool) {
	b := make([]byte, len(s.B))
	for i, t := range s.B {
		if !t.IsConst() {
			return "", false
		}
		b[i] = byte(t.Val)
	}
	return string(b), true
}

func describe(v Value) string {
	switch x := v.(type) {
	case nil:
		return "nil"
	case *Term:
		return x.String()
	case *StrV:
		if s, ok := x.Concrete(); ok {
			return fmt.Sprintf("%q", s)
		}
		return fmt.Sprintf("<string len=%d>", len(x.B))
	case *IfaceV:
		if x.T == nil {
			return "<nil iface>"
		}
		return fmt.Sprintf("iface(%s:%s)", x.T, describe(x.V))
	case *PtrV:
		if x.IsNil() {
			return "<nil ptr>"
		}
		return fmt.Sprintf("&obj%d%v", x.O.ID, x.Path)
	case *StructV:
		s := "{"
		for i, f := range x.F {
			if i > 0 {
				s += ", "
			}
			if i > 6 {
				s += "..."
				break
			}
			s += describe(f)
		}
		return s + "}"
	case *ArrV:
		return fmt.Sprintf("<array %d>", len(x.E))
	case *SliceV:
		return fmt.Sprintf("<slice len=%d cap=%d>", x.Len, x.Cap)
	case FloatV:
		return fmt.Sprintf("%g", float64(x))
	case *Poison:
		return "<poison: " + x.Why + ">"
	}
	return fmt.Sprintf("<%T>", v)
}

package main

// Engine threads: one host goroutine per Go goroutine of the program under test, exactly one
// running at a time (baton passing). Context switches happen only at visible operations and
// the choice of the next thread is a recorded decision, so schedules are explored like inputs.

import (
	"fmt"
	"runtime/debug"

	"golang.org/x/tools/go/ssa"
)

type Scheduler struct {
	cur         *Thread
	preemptions int
	dead        chan struct{}
	isDead      bool
	switches    int
}

type pathOutcome struct {
	err interface{} // recovered panic value or nil
}

func (p *PathRun) newThread(name string) *Thread {
	th := &Thread{p: p, id: len(p.threads), wake: make(chan struct{}, 1), name: name}
	p.threads = append(p.threads, th)
	return th
}

func (p *PathRun) newChan(cap int) *ChanObj {
	p.chanID++
	return &ChanObj{ID: p.chanID, Cap: cap}
}

func (th *Thread) spawn(fr *Frame, fv *FuncV, args []Value, call *ssa.CallCommon) {
	p := th.p
	nt := p.newThread(fmt.Sprintf("go#%d", len(p.threads)))
	go func() {
		select {
		case <-nt.wake:
		case <-p.sched.dead:
			return
		}
		if p.sched.isDead {
			return
		}
		defer p.threadExit(nt)
		nt.invoke(&Frame{fn: fr.fn, info: fr.info, pos: fr.pos}, fv, args, call)
	}()
	// no scheduling point here: the new goroutine becomes eligible at the creator's next
	// visible operation (every visible operation is preceded by a scheduling point)
}

// threadExit runs in the host goroutine of a finished (or crashed) engine thread.
func (p *PathRun) threadExit(th *Thread) {
	r := recover()
	th.done = true
	if r != nil {
		if _, ok := r.(*threadKilled); ok {
			return
		}
		switch r.(type) {
		case *EngineError, *pathAbort, *boundExceeded, *GoPanic:
		default:
			r = engineErr("ENGINE-CRASH: %v at %s\n%s", r, th.callerStr(), string(debug.Stack()))
		}
		p.finish(r)
		return
	}
	if th.id == 0 {
		p.finish(nil)
		return
	}
	// hand the baton to someone else
	func() {
		defer func() {
			if r := recover(); r != nil {
				if _, ok := r.(*threadKilled); ok {
					return
				}
				p.finish(r)
			}
		}()
		next := p.pickNext(th, true)
		if next == nil {
			return
		}
		p.sched.cur = next
		next.wake <- struct{}{}
	}()
}

type threadKilled struct{}

func (p *PathRun) finish(r interface{}) {
	if p.sched.isDead {
		return
	}
	p.sched.isDead = true
	close(p.sched.dead)
	p.doneCh <- pathOutcome{err: r}
}

func (th *Thread) enabled() bool {
	if th.done {
		return false
	}
	return th.blocked == nil || th.blocked()
}

// pickNext chooses the next thread to run. cur may be done/blocked.
func (p *PathRun) pickNext(cur *Thread, mustSwitch bool) *Thread {
	var en []*Thread
	for _, t := range p.threads {
		if t.enabled() {
			en = append(en, t)
		}
	}
	if len(en) == 0 {
		// deadlock (or all done)
		alive := 0
		for _, t := range p.threads {
			if !t.done {
				alive++
			}
		}
		if alive == 0 {
			return nil
		}
		if p.threads[0].done {
			return nil
		}
		desc := ""
		for _, t := range p.threads {
			if !t.done {
				desc += fmt.Sprintf("[%s blocked at %s] ", t.name, t.callerStr())
			}
		}
		p.failHere("deadlock", "all goroutines are asleep - deadlock: "+desc, desc)
		panic(&pathAbort{"deadlock"})
	}
	if p.por {
		return p.pickNextPOR(cur, en)
	}
	curEnabled := !mustSwitch && cur.enabled()
	if len(en) == 1 {
		return en[0]
	}
	if curEnabled && p.sched.preemptions >= p.eng.cfg.Preemptions {
		return cur
	}
	if p.eng.cfg.Params["sched_det"] != 0 {
		// one deterministic schedule (lowest runnable goroutine first): for harnesses whose property
		// does not depend on the interleaving; stated as a bound in the evidence.
		return en[0]
	}
	// decision
	k := p.ChooseFree(len(en))
	next := en[k]
	if curEnabled && next != cur {
		p.sched.preemptions++
	}
	return next
}

// ChooseFree: unconstrained n-way decision (schedules).
func (p *PathRun) ChooseFree(n int) int {
	if p.pos < len(p.prefix) {
		d := p.prefix[p.pos]
		p.pos++
		p.taken = append(p.taken, d)
		return d.C
	}
	for i := 1; i < n; i++ {
		p.fork(Decision{C: i})
	}
	p.taken = append(p.taken, Decision{C: 0})
	p.pos = len(p.taken)
	p.prefix = p.taken
	return 0
}

// yield is called at visible operations. blocked != nil: the thread cannot continue until it holds.
func (th *Thread) yield(blocked func() bool) {
	p := th.p
	th.pendKeys = th.opKeys
	th.pendGlobal = th.opKeys == nil
	th.opKeys = nil
	if len(p.threads) == 1 {
		if blocked != nil && !blocked() {
			th.blocked = blocked
			p.pickNext(th, true) // reports deadlock
		}
		return
	}
	th.blocked = blocked
	next := p.pickNext(th, false)
	if next == nil {
		panic(&pathAbort{"no runnable thread"})
	}
	if next == th {
		th.blocked = nil
		return
	}
	p.sched.cur = next
	p.sched.switches++
	next.wake <- struct{}{}
	select {
	case <-th.wake:
	case <-p.sched.dead:
		panic(&threadKilled{})
	}
	if p.sched.isDead {
		panic(&threadKilled{})
	}
	th.blocked = nil
}

// ---- sync side table ----

type syncObj struct {
	locked   bool
	readers  int
	count    int // waitgroup
	done     bool
	val      Value // atomic.Value
	m        *MapObj
	waiters  int
	signals  int
	running  bool
	poolVals []Value
	hbytes   []*Term
}

func (th *Thread) syncState(fr *Frame, v Value) *syncObj {
	pv, ok := v.(*PtrV)
	if !ok || pv.IsNil() {
		th.goPanic("invalid memory address or nil pointer dereference (sync object)")
	}
	key := fmt.Sprintf("%d", pv.O.ID)
	for _, e := range pv.Path {
		if e.Sym != nil {
			panic(engineErr("sync object behind symbolic index"))
		}
		key += fmt.Sprintf("/%d.%d", e.Field, e.I)
	}
	p := th.p
	if p.syncTab == nil {
		p.syncTab = map[string]*syncObj{}
	}
	s := p.syncTab[key]
	if s == nil {
		s = &syncObj{}
		p.syncTab[key] = s
	}
	return s
}

package main

// Engine threads: one host goroutine per Go goroutine of the program under test, exactly one
// running at a time (baton passing). Context switches happen only at visible operations and
// the choice of the next thread is a recorded decision, so schedules are explored like inputs.

import (
	"fmt"
	"go/types"
	"runtime/debug"

	"golang.org/x/tools/go/ssa"
)

type Scheduler struct {
	cur         *Thread
	preemptions int
	dead        chan struct{}
	isDead      bool
	switches    int
}

type pathOutcome struct {
	err interface{} // recovered panic value or nil
}

func (p *PathRun) newThread(name string) *Thread {
	th := &Thread{p: p, id: len(p.threads), wake: make(chan struct{}, 1), name: name}
	p.threads = append(p.threads, th)
	return th
}

func (p *PathRun) newChan(cap int) *ChanObj {
	p.chanID++
	return &ChanObj{ID: p.chanID, Cap: cap}
}

func (th *Thread) spawn(fr *Frame, fv *FuncV, args []Value, call *ssa.CallCommon) {
	p := th.p
	nt := p.newThread(fmt.Sprintf("go#%d", len(p.threads)))
	go func() {
		select {
		case <-nt.wake:
		case <-p.sched.dead:
			return
		}
		if p.sched.isDead {
			return
		}
		defer p.threadExit(nt)
		nt.invoke(&Frame{fn: fr.fn, info: fr.info, pos: fr.pos}, fv, args, call)
	}()
	// no scheduling point here: the new goroutine becomes eligible at the creator's next
	// visible operation (every visible operation is preceded by a scheduling point)
}

// threadExit runs in the host goroutine of a finished (or crashed) engine thread.
func (p *PathRun) threadExit(th *Thread) {
	r := recover()
	th.done = true
	if r != nil {
		if _, ok := r.(*threadKilled); ok {
			return
		}
		switch r.(type) {
		case *EngineError, *pathAbort, *boundExceeded, *GoPanic:
		default:
			r = engineErr("ENGINE-CRASH: %v at %s\n%s", r, th.callerStr(), string(debug.Stack()))
		}
		p.finish(r)
		return
	}
	if th.id == 0 {
		p.finish(nil)
		return
	}
	// hand the baton to someone else
	func() {
		defer func() {
			if r := recover(); r != nil {
				if _, ok := r.(*threadKilled); ok {
					return
				}
				p.finish(r)
			}
		}()
		next := p.pickNext(th, true)
		if next == nil {
			return
		}
		p.sched.cur = next
		next.wake <- struct{}{}
	}()
}

type threadKilled struct{}

func (p *PathRun) finish(r interface{}) {
	if p.sched.isDead {
		return
	}
	p.sched.isDead = true
	close(p.sched.dead)
	p.doneCh <- pathOutcome{err: r}
}

func (th *Thread) enabled() bool {
	if th.done {
		return false
	}
	return th.blocked == nil || th.blocked()
}

// pickNext chooses the next thread to run. cur may be done/blocked.
func (p *PathRun) pickNext(cur *Thread, mustSwitch bool) *Thread {
	var en []*Thread
	for _, t := range p.threads {
		if t.enabled() {
			en = append(en, t)
		}
	}
	if len(en) == 0 {
		// deadlock (or all done)
		alive := 0
		for _, t := range p.threads {
			if !t.done {
				alive++
			}
		}
		if alive == 0 {
			return nil
		}
		if p.threads[0].done {
			return nil
		}
		desc := ""
		for _, t := range p.threads {
			if !t.done {
				desc += fmt.Sprintf("[%s blocked at %s] ", t.name, t.callerStr())
			}
		}
		p.failHere("deadlock", "all goroutines are asleep - deadlock: "+desc, desc)
		panic(&pathAbort{"deadlock"})
	}
	if p.por {
		return p.pickNextPOR(cur, en)
	}
	curEnabled := !mustSwitch && cur.enabled()
	if len(en) == 1 {
		return en[0]
	}
	if curEnabled && p.sched.preemptions >= p.eng.cfg.Preemptions {
		return cur
	}
	// decision
	k := p.ChooseFree(len(en))
	next := en[k]
	if curEnabled && next != cur {
		p.sched.preemptions++
	}
	return next
}

// ChooseFree: unconstrained n-way decision (schedules).
func (p *PathRun) ChooseFree(n int) int {
	if p.pos < len(p.prefix) {
		d := p.prefix[p.pos]
		p.pos++
		p.taken = append(p.taken, d)
		return d.C
	}
	for i := 1; i < n; i++ {
		p.fork(Decision{C: i})
	}
	p.taken = append(p.taken, Decision{C: 0})
	p.pos = len(p.taken)
	p.prefix = p.taken
	return 0
}

// yield is called at visible operations. blocked != nil: the thread cannot continue until it holds.
func (th *Thread) yield(blocked func() bool) {
	p := th.p
	th.pendKeys = th.opKeys
	th.pendGlobal = th.opKeys == nil
	th.opKeys = nil
	if len(p.threads) == 1 {
		if blocked != nil && !blocked() {
			th.blocked = blocked
			p.pickNext(th, true) // reports deadlock
		}
		return
	}
	th.blocked = blocked
	next := p.pickNext(th, false)
	if next == nil {
		panic(&pathAbort{"no runnable thread"})
	}
	if next == th {
		th.blocked = nil
		return
	}
	p.sched.cur = next
	p.sched.switches++
	next.wake <- struct{}{}
	select {
	case <-th.wake:
	case <-p.sched.dead:
		panic(&threadKilled{})
	}
	if p.sched.isDead {
		panic(&threadKilled{})
	}
	th.blocked = nil
}

// ---- channels ----

func (th *Thread) chanOf(fr *Frame, v Value) *ChanObj {
	cv, ok := v.(*ChanV)
	if !ok {
		panic(engineErr("channel op on %T at %s", v, th.posStr(fr)))
	}
	return cv.C
}

func (c *ChanObj) canRecv() bool {
	return len(c.Buf) > 0 || c.Closed || c.pendingSend() != nil
}

func (c *ChanObj) pendingSend() *sendReq {
	for _, s := range c.SendQ {
		if !s.taken {
			return s
		}
	}
	return nil
}

func (c *ChanObj) canSend() bool {
	if c.Closed {
		return true // will panic
	}
	if c.Cap > 0 {
		return len(c.Buf) < c.Cap
	}
	return c.RecvWaiting > 0
}

func (th *Thread) chanSend(fr *Frame, chv Value, val Value) {
	c := th.chanOf(fr, chv)
	if c == nil {
		th.yield(func() bool { return false })
		return
	}
	if c.Cap > 0 {
		th.opKeys = []interface{}{c}
		th.yield(func() bool { return c.Closed || len(c.Buf) < c.Cap })
		if c.Closed {
			th.goPanic("send on closed channel")
		}
		c.Buf = append(c.Buf, val)
		return
	}
	// unbuffered: offer the value, wait until taken
	th.opKeys = []interface{}{c}
	th.yield(nil)
	if c.Closed {
		th.goPanic("send on closed channel")
	}
	req := &sendReq{val: val, th: th}
	c.SendQ = append(c.SendQ, req)
	th.opKeys = []interface{}{c}
	th.yield(func() bool { return req.taken || c.Closed })
	if !req.taken {
		// closed while sending
		th.goPanic("send on closed channel")
	}
}

func (th *Thread) doRecv(c *ChanObj, elemZero Value) (Value, bool) {
	if len(c.Buf) > 0 {
		v := c.Buf[0]
		c.Buf = c.Buf[1:]
		return v, true
	}
	if s := c.pendingSend(); s != nil {
		s.taken = true
		// drop taken prefix
		for len(c.SendQ) > 0 && c.SendQ[0].taken {
			c.SendQ = c.SendQ[1:]
		}
		return s.val, true
	}
	return elemZero, false // closed
}

func (th *Thread) chanRecv(fr *Frame, chv Value, commaOk bool, resT types.Type) Value {
	ctx := th.ctx()
	c := th.chanOf(fr, chv)
	if c == nil {
		th.yield(func() bool { return false })
		return nil
	}
	var et types.Type
	if commaOk {
		et = resT.(*types.Tuple).At(0).Type()
	} else {
		et = resT
	}
	c.RecvWaiting++
	th.opKeys = []interface{}{c}
	th.yield(func() bool { return c.canRecv() })
	c.RecvWaiting--
	v, ok := th.doRecv(c, ctx.zero(et))
	if commaOk {
		return TupleV{v, ctx.Bool(ok)}
	}
	return v
}

func (th *Thread) chanClose(fr *Frame, chv Value) {
	c := th.chanOf(fr, chv)
	if c == nil {
		th.goPanic("close of nil channel")
	}
	th.opKeys = []interface{}{c}
	th.yield(nil)
	if c.Closed {
		th.goPanic("close of closed channel")
	}
	c.Closed = true
}

func (th *Thread) selectOp(fr *Frame, i *ssa.Select) Value {
	ctx := th.ctx()
	p := th.p
	type st struct {
		c    *ChanObj
		send bool
		val  Value
	}
	states := make([]st, len(i.States))
	for k, s := range i.States {
		states[k] = st{c: th.chanOf(fr, th.get(fr, s.Chan)), send: s.Dir == types.SendOnly}
		if states[k].send {
			states[k].val = th.get(fr, s.Send)
		}
	}
	ready := func() []int {
		var r []int
		for k, s := range states {
			if s.c == nil {
				continue
			}
			if s.send && s.c.canSend() || !s.send && s.c.canRecv() {
				r = append(r, k)
			}
		}
		return r
	}
	for _, s := range states {
		if s.c != nil && !s.send {
			s.c.RecvWaiting++
		}
	}
	selKeys := make([]interface{}, 0, len(states))
	for _, s := range states {
		if s.c != nil {
			selKeys = append(selKeys, s.c)
		}
	}
	th.opKeys = selKeys
	if i.Blocking {
		th.yield(func() bool { return len(ready()) > 0 })
	} else {
		th.yield(nil)
	}
	for _, s := range states {
		if s.c != nil && !s.send {
			s.c.RecvWaiting--
		}
	}
	rd := ready()
	tup := i.Type().(*types.Tuple)
	res := make(TupleV, tup.Len())
	res[1] = ctx.False()
	// zero for recv slots
	ri := 2
	for _, s := range i.States {
		if s.Dir == types.RecvOnly {
			res[ri] = ctx.zero(tup.At(ri).Type())
			ri++
		}
	}
	if len(rd) == 0 {
		res[0] = ctx.Const(64, ^uint64(0)) // -1: default
		return res
	}
	k := rd[0]
	if len(rd) > 1 {
		k = rd[p.ChooseFree(len(rd))]
	}
	res[0] = ctx.Const(64, uint64(k))
	s := states[k]
	if s.send {
		if s.c.Closed {
			th.goPanic("send on closed channel")
		}
		if s.c.Cap > 0 {
			s.c.Buf = append(s.c.Buf, s.val)
		} else {
			s.c.SendQ = append(s.c.SendQ, &sendReq{val: s.val, th: th})
		}
		return res
	}
	// receive: find slot
	ri = 2
	for kk, ss := range i.States {
		if ss.Dir == types.RecvOnly {
			if kk == k {
				v, ok := th.doRecv(s.c, res[ri])
				res[ri] = v
				res[1] = ctx.Bool(ok)
				break
			}
			ri++
		}
	}
	return res
}

// ---- sync side table ----

type syncObj struct {
	locked   bool
	readers  int
	count    int // waitgroup
	done     bool
	val      Value // atomic.Value
	m        *MapObj
	waiters  int
	signals  int
	running  bool
	poolVals []Value
	hbytes   []*Term
}

func (th *Thread) syncState(fr *Frame, v Value) *syncObj {
	pv, ok := v.(*PtrV)
	if !ok || pv.IsNil() {
		th.goPanic("invalid memory address or nil pointer dereference (sync object)")
	}
	key := fmt.Sprintf("%d", pv.O.ID)
	for _, e := range pv.Path {
		if e.Sym != nil {
			panic(engineErr("sync object behind symbolic index"))
		}
		key += fmt.Sprintf("/%d.%d", e.Field, e.I)
	}
	p := th.p
	if p.syncTab == nil {
		p.syncTab = map[string]*syncObj{}
	}
	s := p.syncTab[key]
	if s == nil {
		s = &syncObj{}
		p.syncTab[key] = s
	}
	return s
}

package main

import (
	"fmt"
	"go/token"
	"go/types"
	"strings"
	"sync"

	"golang.org/x/tools/go/ssa"
)

type intrinsicFn func(th *Thread, fn *ssa.Function, args []Value) Value

var intrinsics = map[string]intrinsicFn{}

type fnMeta struct {
	name     string
	intr     intrinsicFn
	isRestic bool
	isInit   bool
}

var fnMetaCache sync.Map

func metaOf(fn *ssa.Function) *fnMeta {
	if v, ok := fnMetaCache.Load(fn); ok {
		return v.(*fnMeta)
	}
	m := &fnMeta{name: fn.String()}
	if in, ok := intrinsics[m.name]; ok {
		m.intr = in
	} else if o := fn.Origin(); o != nil {
		if in, ok := intrinsics[o.String()]; ok {
			m.intr = in
		}
	}
	if fn.Pkg != nil {
		m.isRestic = strings.HasPrefix(fn.Pkg.Pkg.Path(), modPath) && fn.Pkg.Pkg.Path() != rtPkg
	} else if o := fn.Origin(); o != nil && o.Pkg != nil {
		m.isRestic = strings.HasPrefix(o.Pkg.Pkg.Path(), modPath)
	} else if strings.Contains(m.name, modPath) && !strings.Contains(m.name, rtPkg) {
		m.isRestic = true
	}
	m.isInit = fn.Name() == "init" && fn.Synthetic == "package initializer"
	fnMetaCache.Store(fn, m)
	return m
}

func rt(name string) string { return rtPkg + "." + name }

func (th *Thread) argStr(v Value, what string) string {
	s, ok := v.(*StrV)
	if !ok {
		panic(engineErr("%s: expected string, got %T", what, v))
	}
	cs, ok := s.Concrete()
	if !ok {
		panic(engineErr("%s: string must be concrete", what))
	}
	return cs
}

func (th *Thread) argInt(v Value, what string) int {
	t, ok := v.(*Term)
	if !ok || !t.IsConst() {
		panic(engineErr("%s: expected concrete int, got %s", what, describe(v)))
	}
	return int(sx(t.Val, t.W))
}

func (p *PathRun) input(name string, w int) *Term {
	t := p.fresh(name, w)
	p.inputs = append(p.inputs, t)
	if p.eng.replayModel != nil {
		if v, ok := p.eng.replayModel[t.Name]; ok {
			p.assertPC(p.ctx.Eq(t, p.ctx.Const(w, v)))
		} else {
			p.assertPC(p.ctx.Eq(t, p.ctx.Const(w, 0)))
		}
	}
	return t
}

func (th *Thread) nondetBytes(name string, n int) []Value {
	out := make([]Value, n)
	for i := 0; i < n; i++ {
		out[i] = th.p.input(fmt.Sprintf("%s[%d]", name, i), 8)
	}
	return out
}

func (th *Thread) nondetLen(name string, max int) int {
	p := th.p
	ctx := p.ctx
	l := p.input(name+".len", 64)
	p.Assume(ctx.Ule(l, ctx.Const(64, uint64(max))))
	return int(p.Concretize(l, "length of "+name))
}

func init() {
	intrinsics[rt("Param")] = func(th *Thread, fn *ssa.Function, args []Value) Value {
		name := th.argStr(args[0], "Param name")
		def := th.argInt(args[1], "Param default")
		if v, ok := th.p.eng.cfg.Params[name]; ok {
			def = v
		}
		return th.ctx().Const(64, uint64(def))
	}
	intrinsics[rt("Symbolic")] = func(th *Thread, fn *ssa.Function, args []Value) Value {
		return th.ctx().True()
	}
	intrinsics[rt("Bool")] = func(th *Thread, fn *ssa.Function, args []Value) Value {
		return th.p.input(th.argStr(args[0], "name"), 0)
	}
	mkInt := func(w int) intrinsicFn {
		return func(th *Thread, fn *ssa.Function, args []Value) Value {
			return th.p.input(th.argStr(args[0], "name"), w)
		}
	}
	intrinsics[rt("Byte")] = mkInt(8)
	intrinsics[rt("Uint16")] = mkInt(16)
	intrinsics[rt("Uint32")] = mkInt(32)
	intrinsics[rt("Uint64")] = mkInt(64)
	intrinsics[rt("Int64")] = mkInt(64)
	intrinsics[rt("Int")] = func(th *Thread, fn *ssa.Function, args []Value) Value {
		ctx := th.ctx()
		t := th.p.input(th.argStr(args[0], "name"), 64)
		lo := th.asTerm(nil, args[1])
		hi := th.asTerm(nil, args[2])
		th.p.Assume(ctx.And(ctx.Sle(lo, t), ctx.Sle(t, hi)))
		return t
	}
	intrinsics[rt("Bytes")] = func(th *Thread, fn *ssa.Function, args []Value) Value {
		name := th.argStr(args[0], "name")
		max := th.argInt(args[1], "max")
		k := th.p.nFresh[name+".len"]
		n := th.nondetLen(name, max)
		_ = k
		arr := &ArrV{E: th.nondetBytes(name, n)}
		if n == 0 {
			return &SliceV{O: th.p.newObj(arr, name), Len: 0, Cap: 0}
		}
		return &SliceV{O: th.p.newObj(arr, name), Len: n, Cap: n}
	}
	intrinsics[rt("BytesN")] = func(th *Thread, fn *ssa.Function, args []Value) Value {
		name := th.argStr(args[0], "name")
		n := th.argInt(args[1], "n")
		arr := &ArrV{E: th.nondetBytes(name, n)}
		return &SliceV{O: th.p.newObj(arr, name), Len: n, Cap: n}
	}
	intrinsics[rt("String")] = func(th *Thread, fn *ssa.Function, args []Value) Value {
		name := th.argStr(args[0], "name")
		max := th.argInt(args[1], "max")
		n := th.nondetLen(name, max)
		s := &StrV{B: make([]*Term, n)}
		for i, v := range th.nondetBytes(name, n) {
			s.B[i] = v.(*Term)
		}
		return s
	}
	intrinsics[rt("StringN")] = func(th *Thread, fn *ssa.Function, args []Value) Value {
		name := th.argStr(args[0], "name")
		n := th.argInt(args[1], "n")
		s := &StrV{B: make([]*Term, n)}
		for i, v := range th.nondetBytes(name, n) {
			s.B[i] = v.(*Term)
		}
		return s
	}
	intrinsics[rt("Assume")] = func(th *Thread, fn *ssa.Function, args []Value) Value {
		th.p.Assume(th.asTerm(nil, args[0]))
		return nil
	}
	intrinsics[rt("Assert")] = func(th *Thread, fn *ssa.Function, args []Value) Value {
		msg := "assertion"
		if s, ok := args[1].(*StrV); ok {
			if cs, ok := s.Concrete(); ok {
				msg = cs
			}
		}
		th.p.Assert(th.asTerm(nil, args[0]), msg, th)
		return nil
	}
	intrinsics[rt("Reach")] = func(th *Thread, fn *ssa.Function, args []Value) Value {
		th.p.reached[th.argStr(args[0], "label")] = true
		return nil
	}
	intrinsics[rt("Known")] = func(th *Thread, fn *ssa.Function, args []Value) Value {
		id := th.argStr(args[0], "known id")
		if _, ok := th.p.eng.known[id]; ok {
			th.p.known = append(th.p.known, knownCond{id: id, cond: th.asTerm(nil, args[1])})
		}
		return nil
	}
	intrinsics[rt("Note")] = func(th *Thread, fn *ssa.Function, args []Value) Value {
		if s, ok := args[0].(*StrV); ok {
			if cs, ok := s.Concrete(); ok && len(th.p.events) < 40 {
				th.p.events = append(th.p.events, cs)
			}
		}
		return nil
	}
	intrinsics[rt("Unwind")] = func(th *Thread, fn *ssa.Function, args []Value) Value {
		th.p.unwind = th.argInt(args[0], "unwind")
		return nil
	}
	intrinsics[rt("Yield")] = func(th *Thread, fn *ssa.Function, args []Value) Value {
		th.yield(nil)
		return nil
	}
	intrinsics[rt("ExpectPanic")] = func(th *Thread, fn *ssa.Function, args []Value) Value {
		f := args[0].(*FuncV)
		depth := len(th.frames)
		panicked := false
		func() {
			defer func() {
				if r := recover(); r != nil {
					if _, ok := r.(*GoPanic); ok {
						panicked = true
						th.frames = th.frames[:depth]
						th.activePanic = nil
						return
					}
					panic(r)
				}
			}()
			th.callFunction(f, nil)
		}()
		return th.ctx().Bool(panicked)
	}
	intrinsics[rt("Stub")] = func(th *Thread, fn *ssa.Function, args []Value) Value {
		target := th.argStr(args[0], "stub target")
		iv := args[1].(*IfaceV)
		fv, ok := iv.V.(*FuncV)
		if !ok {
			panic(engineErr("Stub(%s): replacement is not a func", target))
		}
		tf := th.p.eng.resolveFunc(target)
		if tf == nil {
			panic(engineErr("Stub: cannot resolve target function %q in the current tree", target))
		}
		th.p.stubs[tf] = fv
		return nil
	}
	intrinsics[rt("UF64")] = func(th *Thread, fn *ssa.Function, args []Value) Value {
		name := th.argStr(args[0], "UF name")
		sl := args[1].(*SliceV)
		var ts []*Term
		for k := 0; k < sl.Len; k++ {
			ts = append(ts, sl.O.V.(*ArrV).E[sl.Off+k].(*Term))
		}
		return th.ctx().UF(fmt.Sprintf("uf_%s_%d", name, len(ts)), 64, ts...)
	}
	intrinsics[rt("UFBool")] = func(th *Thread, fn *ssa.Function, args []Value) Value {
		name := th.argStr(args[0], "UF name")
		sl := args[1].(*SliceV)
		var ts []*Term
		for k := 0; k < sl.Len; k++ {
			ts = append(ts, sl.O.V.(*ArrV).E[sl.Off+k].(*Term))
		}
		return th.ctx().UF(fmt.Sprintf("ufb_%s_%d", name, len(ts)), 0, ts...)
	}
	// UFBytes(name, outLen, in) []byte : out[j] = uf_name_n_j(in...) for j < 8, constant afterwards
	intrinsics[rt("UFBytes")] = func(th *Thread, fn *ssa.Function, args []Value) Value {
		name := th.argStr(args[0], "UF name")
		outLen := th.argInt(args[1], "UF out len")
		in := args[2].(*SliceV)
		arr := &ArrV{E: th.ufBytes(name, outLen, sliceTerms(in))}
		return &SliceV{O: th.p.newObj(arr, "uf:"+name), Len: outLen, Cap: outLen}
	}
	intrinsics[rt("HavocAllExcept")] = func(th *Thread, fn *ssa.Function, args []Value) Value {
		sl := args[0].(*SliceV)
		th.p.havocAll = true
		for k := 0; k < sl.Len; k++ {
			t := th.argStr(sl.O.V.(*ArrV).E[sl.Off+k], "keep target")
			f := th.p.eng.resolveFunc(t)
			if f == nil {
				panic(engineErr("HavocAllExcept: cannot resolve %q", t))
			}
			th.p.keepFn[f] = true
		}
		return nil
	}
}

func sliceTerms(s *SliceV) []*Term {
	var ts []*Term
	if s.O == nil {
		return nil
	}
	arr := s.O.V.(*ArrV)
	for k := 0; k < s.Len; k++ {
		ts = append(ts, arr.E[s.Off+k].(*Term))
	}
	return ts
}

const ufHashBytes = 6

func (th *Thread) ufBytes(name string, outLen int, in []*Term) []Value {
	ctx := th.ctx()
	out := make([]Value, outLen)
	for j := 0; j < outLen; j++ {
		if j < ufHashBytes {
			if len(in) == 0 {
				out[j] = ctx.Var(fmt.Sprintf("uf_%s_0_%d", name, j), 8)
			} else {
				out[j] = ctx.UF(fmt.Sprintf("uf_%s_%d_%d", name, len(in), j), 8, in...)
			}
		} else {
			out[j] = ctx.Const(8, 0xA5)
		}
	}
	return out
}

// resolveFunc parses "pkg.Func", "(*pkg.T).M", "(pkg.T).M" with optional module-relative package paths.
var resolveCache sync.Map

func (e *Engine) resolveFunc(target string) *ssa.Function {
	if v, ok := resolveCache.Load(target); ok {
		return v.(*ssa.Function)
	}
	f := e.resolveFuncSlow(target)
	if f != nil {
		resolveCache.Store(target, f)
	}
	return f
}

func (e *Engine) resolveFuncSlow(target string) *ssa.Function {
	expand := func(p string) string {
		if strings.HasPrefix(p, "internal/") || strings.HasPrefix(p, "cmd/") {
			return modPath + "/" + p
		}
		return p
	}
	findPkg := func(path string) *ssa.Package {
		for _, p := range e.prog.AllPackages() {
			if p.Pkg.Path() == path {
				return p
			}
		}
		return nil
	}
	if strings.HasPrefix(target, "(") {
		end := strings.Index(target, ").")
		if end < 0 {
			return nil
		}
		recv := target[1:end]
		meth := target[end+2:]
		ptr := strings.HasPrefix(recv, "*")
		recv = strings.TrimPrefix(recv, "*")
		dot := strings.LastIndex(recv, ".")
		if dot < 0 {
			return nil
		}
		pkg := findPkg(expand(recv[:dot]))
		if pkg == nil {
			return nil
		}
		tn := pkg.Type(recv[dot+1:])
		if tn == nil {
			return nil
		}
		var T types.Type = tn.Type()
		if ptr {
			T = types.NewPointer(T)
		}
		return e.lookupMethodByName(T, meth)
	}
	dot := strings.LastIndex(target, ".")
	if dot < 0 {
		return nil
	}
	pkg := findPkg(expand(target[:dot]))
	if pkg == nil {
		return nil
	}
	pkg.Build()
	return pkg.Func(target[dot+1:])
}

// ---- globals and package initialisation ----

func (th *Thread) global(g *ssa.Global) *Obj {
	p := th.p
	if o, ok := p.globals[g]; ok {
		return o
	}
	p.ensureInit(th, g.Pkg)
	if o, ok := p.globals[g]; ok {
		return o
	}
	o := p.newObj(p.ctx.zero(g.Type().(*types.Pointer).Elem()), g.String())
	p.globals[g] = o
	return o
}

var skipInitPkgs = map[string]bool{
	"runtime": true, "os": true, "syscall": true, "internal/poll": true, "internal/cpu": true,
	"internal/godebug": true, "internal/runtime/sys": true, "internal/runtime/atomic": true,
	"reflect": true, "internal/reflectlite": true, "os/signal": true, "net": true, "internal/syscall/unix": true,
}

func (p *PathRun) ensureInit(th *Thread, pkg *ssa.Package) {
	if pkg == nil {
		return
	}
	path := pkg.Pkg.Path()
	if p.initDone[path] {
		return
	}
	p.initDone[path] = true
	if skipInitPkgs[path] {
		p.poisonGlobals(pkg, "package "+path+" is not initialised by the engine", false)
		if h := skipInitHooks[path]; h != nil {
			h(p, th, pkg)
		}
		return
	}
	pkg.Build()
	initFn := pkg.Func("init")
	if initFn == nil {
		return
	}
	p.initDepth++
	savedFrames := th.frames
	th.frames = nil
	var failure interface{}
	func() {
		defer func() {
			if r := recover(); r != nil {
				switch r.(type) {
				case *EngineError, *GoPanic, *boundExceeded:
					failure = r
				default:
					panic(r)
				}
			}
		}()
		th.callFunction(&FuncV{Fn: initFn}, nil)
	}()
	th.frames = savedFrames
	p.initDepth--
	if failure != nil {
		why := ""
		switch f := failure.(type) {
		case *EngineError:
			why = f.Msg
		case *GoPanic:
			why = "panic: " + f.Msg
		case *boundExceeded:
			why = f.Where
		}
		p.poisonGlobals(pkg, "init of "+path+" failed: "+why, true)
	}
}

func (p *PathRun) poisonGlobals(pkg *ssa.Package, why string, onlyUnstored bool) {
	var touched map[*ssa.Global]bool
	if onlyUnstored {
		// a failed initialiser: globals it never references keep their zero value
		touched = initTouched(pkg)
	}
	for _, m := range pkg.Members {
		g, ok := m.(*ssa.Global)
		if !ok {
			continue
		}
		if touched != nil && !touched[g] {
			continue
		}
		if o, ok := p.globals[g]; ok {
			if onlyUnstored && p.initStored[o] {
				continue
			}
			o.V = &Poison{Why: g.String() + ": " + why}
			continue
		}
		p.globals[g] = p.newObj(&Poison{Why: g.String() + ": " + why}, g.String())
	}
}

// ---- havoc ----

func (p *PathRun) havocCall(th *Thread, fn *ssa.Function, args []Value) (Value, bool) {
	if !p.havocAll || p.initDepth > 0 {
		return nil, false
	}
	if p.keepFn[fn] {
		return nil, false
	}
	if o := fn.Origin(); o != nil && p.keepFn[o] {
		return nil, false
	}
	m := metaOf(fn)
	// only havoc at the boundary: functions called directly from a kept function
	if len(th.frames) > 0 {
		caller := th.frames[len(th.frames)-1].fn
		root := caller
		for root.Parent() != nil {
			root = root.Parent()
		}
		if !p.keepFn[root] && !p.keepFn[caller] {
			return nil, false
		}
	}
	if fn.Parent() != nil {
		// closures defined inside kept functions run for real
		root := fn
		for root.Parent() != nil {
			root = root.Parent()
		}
		if p.keepFn[root] {
			return nil, false
		}
	}
	if fn.Synthetic != "" && strings.Contains(fn.Synthetic, "wrapper") || strings.Contains(fn.Synthetic, "thunk") || strings.Contains(fn.Synthetic, "bound") {
		return nil, false
	}
	if p.havocHook != nil {
		if r, ok := p.havocHook(th, fn, args); ok {
			return r, true
		}
	}
	p.events = append(p.events, "havoc:"+m.name)
	p.havocLog = append(p.havocLog, m.name)
	res := fn.Signature.Results()
	switch res.Len() {
	case 0:
		return nil, true
	case 1:
		return th.havocValue(res.At(0).Type(), m.name), true
	}
	tv := make(TupleV, res.Len())
	for i := range tv {
		tv[i] = th.havocValue(res.At(i).Type(), fmt.Sprintf("%s.%d", m.name, i))
	}
	return tv, true
}

func (th *Thread) havocValue(t types.Type, label string) Value {
	p := th.p
	ctx := p.ctx
	if w := bvWidth(t); w >= 0 {
		return p.input("havoc:"+label, w)
	}
	if it, ok := t.Underlying().(*types.Interface); ok {
		if isErrorType(t) {
			isErr := p.input("havoc-err:"+label, 0)
			if p.Branch(isErr) {
				return th.newError("havoc error from " + label)
			}
			return &IfaceV{}
		}
		_ = it
		return &IfaceV{}
	}
	return ctx.zero(t)
}

func isErrorType(t types.Type) bool {
	return types.Identical(t, types.Universe.Lookup("error").Type())
}

// newError builds an *errors.errorString value.
func (th *Thread) newError(msg string) Value {
	return th.newErrorV(strConst(th.ctx(), msg))
}

func (th *Thread) newErrorV(msg *StrV) Value {
	e := th.p.eng
	var epkg *ssa.Package
	for _, p := range e.prog.AllPackages() {
		if p.Pkg.Path() == "errors" {
			epkg = p
			break
		}
	}
	if epkg == nil {
		panic(engineErr("package errors not loaded"))
	}
	tn := epkg.Type("errorString")
	sv := &StructV{F: []Value{msg}}
	o := th.p.newObj(sv, "error")
	return &IfaceV{T: types.NewPointer(tn.Type()), V: &PtrV{O: o}}
}

var _ = token.ADD

package main

// Sleep-set partial-order reduction for schedule exploration (Param "por": 1).
//
// A transition of a thread is its pending visible operation plus the invisible code up to its
// next visible operation. Its footprint is the set of synchronisation objects it touches: the
// objects of the visible operation (channel, mutex, wait group, once, select channels) plus the
// objects touched invisibly afterwards (Unlock, Done, Add ...). Two transitions are independent
// iff their footprints are disjoint and neither is "global" (Yield, Sleep, atomics, stubs'
// scheduling points). Plain shared-memory accesses are assumed to be ordered by these
// synchronisation operations (data-race freedom) - harness stubs that share plain variables must
// separate them with verifrt.Yield (global) or real synchronisation.
//
// In POR mode there is no preemption bound: at every visible operation every enabled thread that
// is not asleep is an alternative, so every Mazurkiewicz trace of the bounded program is covered.

func (th *Thread) touch(key interface{}) {
	if th.p.por {
		th.touched = append(th.touched, key)
	}
}

func (th *Thread) touchGlobal() {
	if th.p.por {
		th.touchedGlobal = true
	}
}

func keysIntersect(a, b []interface{}) bool {
	for _, x := range a {
		for _, y := range b {
			if x == y {
				return true
			}
		}
	}
	return false
}

// wakeDependent removes from the sleep set every thread whose pending operation depends on a
// transition with the given footprint.
func (p *PathRun) wakeDependent(keys []interface{}, global bool) {
	if len(p.sleep) == 0 {
		return
	}
	for id := range p.sleep {
		u := p.threads[id]
		if global || u.pendGlobal || keysIntersect(u.pendKeys, keys) {
			delete(p.sleep, id)
		}
	}
}

func (p *PathRun) pickNextPOR(cur *Thread, en []*Thread) *Thread {
	// the transition of cur that just ended: wake sleepers that depend on what it touched invisibly
	if cur != nil && (len(cur.touched) > 0 || cur.touchedGlobal) {
		p.wakeDependent(cur.touched, cur.touchedGlobal)
		cur.touched = nil
		cur.touchedGlobal = false
	}
	var cand []*Thread
	for _, t := range en {
		if !p.sleep[t.id] {
			cand = append(cand, t)
		}
	}
	if len(cand) == 0 {
		panic(&pathAbort{"sleep-set-pruned (schedule equivalent to one already explored)"})
	}
	chosen := cand[0]
	if len(cand) > 1 {
		if p.pos < len(p.prefix) {
			d := p.prefix[p.pos]
			p.pos++
			p.taken = append(p.taken, d)
			if d.HasS {
				p.sleep = map[int]bool{}
				for _, id := range d.S {
					p.sleep[id] = true
				}
			}
			chosen = nil
			for _, t := range cand {
				if t.id == d.C {
					chosen = t
				}
			}
			if chosen == nil {
				// the prefix names a thread that is asleep/disabled here: can only happen with HasS
				for _, t := range en {
					if t.id == d.C {
						chosen = t
					}
				}
			}
			if chosen == nil {
				panic(engineErr("POR replay: thread %d is not enabled at decision %d", d.C, p.pos-1))
			}
		} else {
			base := make([]int, 0, len(p.sleep)+len(cand))
			for id := range p.sleep {
				base = append(base, id)
			}
			for i := 1; i < len(cand); i++ {
				s := append(append([]int(nil), base...), idsOf(cand[:i])...)
				np := make([]Decision, len(p.taken)+1)
				copy(np, p.taken)
				np[len(p.taken)] = Decision{C: cand[i].id, S: s, HasS: true}
				p.eng.push(np)
			}
			p.taken = append(p.taken, Decision{C: cand[0].id})
			p.pos = len(p.taken)
			p.prefix = p.taken
		}
	}
	if p.sleep == nil {
		p.sleep = map[int]bool{}
	}
	delete(p.sleep, chosen.id)
	p.wakeDependent(chosen.pendKeys, chosen.pendGlobal)
	return chosen
}

func idsOf(ts []*Thread) []int {
	out := make([]int, len(ts))
	for i, t := range ts {
		out[i] = t.id
	}
	return out
}

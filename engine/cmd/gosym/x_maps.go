package main

import (
	"golang.org/x/tools/go/ssa"
)

func init() {
	// maps.clone(m any) any  (runtime linkname)
	intrinsics["maps.clone"] = func(th *Thread, fn *ssa.Function, args []Value) Value {
		iv := args[0].(*IfaceV)
		mv, ok := iv.V.(*MapV)
		if !ok || mv.M == nil {
			return iv
		}
		n := &MapObj{}
		for k := range mv.M.Keys {
			if mv.M.Dead[k] {
				continue
			}
			n.Keys = append(n.Keys, mv.M.Keys[k])
			n.Vals = append(n.Vals, copyVal(mv.M.Vals[k]))
			n.Dead = append(n.Dead, false)
			n.N++
		}
		return &IfaceV{T: iv.T, V: &MapV{M: n}}
	}
}

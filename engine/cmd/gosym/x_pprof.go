package main

import (
	"os"
	"runtime/pprof"
	"time"
)

// VERIF_PPROF=<file> [VERIF_PPROF_SECS=n]: CPU profile of the first n seconds (engine development aid).
func init() {
	if p := os.Getenv("VERIF_PPROF"); p != "" {
		f, err := os.Create(p)
		if err != nil {
			return
		}
		secs := 20
		if s := os.Getenv("VERIF_PPROF_SECS"); s != "" {
			if d, err := time.ParseDuration(s + "s"); err == nil {
				secs = int(d.Seconds())
			}
		}
		pprof.StartCPUProfile(f)
		go func() {
			time.Sleep(time.Duration(secs) * time.Second)
			pprof.StopCPUProfile()
			f.Close()
		}()
	}
}

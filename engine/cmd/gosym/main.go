package main

import (
	"encoding/json"
	"flag"
	"fmt"
	"go/token"
	"go/types"
	"os"
	"path/filepath"
	"runtime"
	"sort"
	"strings"
	"sync"
	"time"

	"golang.org/x/tools/go/packages"
	"golang.org/x/tools/go/ssa"
	"golang.org/x/tools/go/ssa/ssautil"
)

const modPath = "github.com/restic/restic"
const rtPkg = modPath + "/internal/verifrt"

// ---- configuration ----

type TierCfg struct {
	Unwind      int            `json:"unwind"`
	Preemptions int            `json:"preemptions"`
	Params      map[string]int `json:"params"`
	MaxPaths    int            `json:"max_paths"`
	TimeoutMs   int            `json:"query_timeout_ms"`
	BudgetS     int            `json:"budget_s"`
	Solver      string         `json:"solver"`
	CrossSolver string         `json:"cross_solver"`
}

type HarnessCfg struct {
	Func     string  `json:"func"`
	Package  string  `json:"package"` // import path (defaults to check package)
	Claim    string  `json:"claim"`
	Native   bool    `json:"native_replay"` // L2 replay possible
	Quick    TierCfg `json:"quick"`
	Thorough TierCfg `json:"thorough"`
	Solver   string  `json:"solver"`
}

type CheckCfg struct {
	Property    string            `json:"property"`
	Packages    []string          `json:"packages"` // import paths to load
	Files       map[string]string `json:"files"`    // /verif-relative harness file -> repo-relative destination
	Harnesses   []HarnessCfg      `json:"harnesses"`
	Assumptions []string          `json:"assumptions"`
	Stubs       []string          `json:"stubs"`
	Outside     []string          `json:"outside"`
}

type Config struct {
	Unwind      int
	Preemptions int
	Params      map[string]int
	MaxPaths    int
	TimeoutMs   int
	BudgetS     int
	Solver      string
	Workers     int
}

// ---- engine ----

type Worker struct {
	id     int
	solver *Solver
}

type Engine struct {
	cfg     Config
	prog    *ssa.Program
	fset    *token.FileSet
	harness *ssa.Function
	known   map[string]string // known finding id -> text

	mu       sync.Mutex
	cond     *sync.Cond
	queue    [][]Decision
	inflight int
	stop     bool
	deadline time.Time

	// statistics
	paths        int
	aborted      int
	abortReasons map[string]int
	steps        int64
	queries      int
	solverTime   time.Duration
	obligations  int
	assertsSeen  int
	violations   []*Violation
	inconclusive []string
	reached      map[string]bool
	funcs        map[string]bool
	stubsUsed    map[string]bool
	samples      []map[string]interface{}
	sampleRecs   []*sampleRec
	maxDecisions int
	switches     int
	solverErrs   []string

	implCache sync.Map
	replayModel map[string]uint64
}

func (e *Engine) push(prefix []Decision) {
	e.mu.Lock()
	e.queue = append(e.queue, prefix)
	e.mu.Unlock()
	e.cond.Signal()
}

func (e *Engine) stopped() bool {
	return e.stop
}

func (e *Engine) noteObligation() {
	e.mu.Lock()
	e.obligations++
	e.mu.Unlock()
}

func (e *Engine) addViolation(v *Violation) {
	e.mu.Lock()
	defer e.mu.Unlock()
	if v.Known != "" {
		if _, ok := e.known[v.Known]; !ok {
			// not listed: a real violation
			v.Known = ""
		}
	}
	e.violations = append(e.violations, v)
	if v.Known == "" {
		e.stop = true
		e.cond.Broadcast()
	}
}

func (e *Engine) addInconclusive(msg string) {
	e.mu.Lock()
	defer e.mu.Unlock()
	if len(e.inconclusive) < 50 {
		e.inconclusive = append(e.inconclusive, msg)
	} else if len(e.inconclusive) == 50 {
		e.inconclusive = append(e.inconclusive, "... more")
	}
}

func (e *Engine) lookupMethod(T types.Type, m *types.Func) (fn *ssa.Function) {
	defer func() {
		if r := recover(); r != nil {
			fn = nil
		}
	}()
	return e.prog.LookupMethod(T, m.Pkg(), m.Name())
}

func (e *Engine) lookupMethodByName(T types.Type, name string) (fn *ssa.Function) {
	defer func() {
		if r := recover(); r != nil {
			fn = nil
		}
	}()
	ms := e.prog.MethodSets.MethodSet(T)
	for i := 0; i < ms.Len(); i++ {
		sel := ms.At(i)
		if sel.Obj().Name() == name {
			return e.prog.MethodValue(sel)
		}
	}
	return nil
}

type implKey struct {
	t types.Type
	i *types.Interface
}

func (e *Engine) implements(T types.Type, it *types.Interface) bool {
	k := implKey{T, it}
	if v, ok := e.implCache.Load(k); ok {
		return v.(bool)
	}
	r := types.Implements(T, it)
	e.implCache.Store(k, r)
	return r
}

func (e *Engine) runAll() { e.runAllQueue([][]Decision{nil}) }

func (e *Engine) runAllQueue(q [][]Decision) {
	e.cond = sync.NewCond(&e.mu)
	e.queue = q
	var wg sync.WaitGroup
	for i := 0; i < e.cfg.Workers; i++ {
		wg.Add(1)
		go func(id int) {
			defer wg.Done()
			w := &Worker{id: id, solver: NewSolver(e.cfg.Solver, e.cfg.TimeoutMs)}
			defer w.solver.Close()
			for {
				e.mu.Lock()
				for len(e.queue) == 0 && e.inflight > 0 && !e.stop {
					e.cond.Wait()
				}
				if e.stop || len(e.queue) == 0 {
					e.mu.Unlock()
					e.cond.Broadcast()
					return
				}
				prefix := e.queue[len(e.queue)-1]
				e.queue = e.queue[:len(e.queue)-1]
				e.inflight++
				if e.cfg.MaxPaths > 0 && e.paths+e.aborted >= e.cfg.MaxPaths {
					e.stop = true
					e.inconclusive = append(e.inconclusive, fmt.Sprintf("path budget %d exhausted", e.cfg.MaxPaths))
				}
				if !e.deadline.IsZero() && time.Now().After(e.deadline) {
					e.stop = true
					e.inconclusive = append(e.inconclusive, fmt.Sprintf("wall-time budget %ds exhausted", e.cfg.BudgetS))
				}
				e.mu.Unlock()
				if !e.stop {
					e.runPath(w, prefix)
				}
				e.mu.Lock()
				e.inflight--
				e.queries += w.solver.Queries
				e.solverTime += w.solver.Time
				w.solver.Queries = 0
				w.solver.Time = 0
				if len(w.solver.Errors) > 0 {
					e.solverErrs = append(e.solverErrs, w.solver.Errors...)
					w.solver.Errors = nil
				}
				e.mu.Unlock()
				e.cond.Broadcast()
			}
		}(i)
	}
	wg.Wait()
}

func (e *Engine) runPath(w *Worker, prefix []Decision) {
	ctx := NewTermCtx()
	w.solver.Reset(ctx)
	p := &PathRun{
		eng: e, w: w, ctx: ctx, solver: w.solver, prefix: prefix,
		nFresh: map[string]int{}, reached: map[string]bool{},
		globals: map[interface{}]*Obj{}, initDone: map[string]bool{},
		stubs: map[*ssa.Function]*FuncV{}, stubUsed: map[string]bool{}, keepFn: map[*ssa.Function]bool{},
		unwind: e.cfg.Unwind, symBranch: map[branchKey]int{}, funcs: map[string]bool{},
	}
	p.por = e.cfg.Params["por"] != 0
	p.sched = &Scheduler{dead: make(chan struct{})}
	p.doneCh = make(chan pathOutcome, 1)
	if e.replayModel != nil {
		p.replay = true
	}
	th := p.newThread("main")
	go func() {
		defer p.threadExit(th)
		th.callFunction(&FuncV{Fn: e.harness}, nil)
	}()
	out := <-p.doneCh
	completed := false
	switch r := out.err.(type) {
	case nil:
		completed = true
	case *pathAbort:
		e.mu.Lock()
		if e.abortReasons == nil {
			e.abortReasons = map[string]int{}
		}
		e.abortReasons[r.Reason]++
		e.mu.Unlock()
	case *boundExceeded:
		e.addInconclusive("BOUND-EXCEEDED: " + r.Where)
	case *EngineError:
		e.addInconclusive("ENGINE: " + r.Msg)
	case *GoPanic:
		func() {
			defer func() {
				if rr := recover(); rr != nil {
					e.addInconclusive(fmt.Sprint("while reporting panic: ", rr))
				}
			}()
			p.failHere("panic", "panic: "+r.Msg, r.Stack)
		}()
		completed = true
	default:
		e.addInconclusive(fmt.Sprintf("ENGINE-CRASH: %v", r))
	}
	var sample map[string]interface{}
	var rawSample *sampleRec
	e.mu.Lock()
	needSample := completed && len(e.samples) < 3
	e.mu.Unlock()
	if needSample {
		func() {
			defer func() { recover() }()
			r, m := p.solver.CheckModel(nil, p.inputVars())
			if r == Sat {
				sample = map[string]interface{}{"path_decisions": len(p.taken), "inputs": modelString(m), "steps": p.steps, "events": p.events}
				rawSample = &sampleRec{model: m, decisions: append([]Decision(nil), p.taken...)}
			}
		}()
	}
	e.mu.Lock()
	defer e.mu.Unlock()
	if completed {
		e.paths++
	} else {
		e.aborted++
	}
	e.steps += p.steps
	e.assertsSeen += p.nAsserts
	if len(p.taken) > e.maxDecisions {
		e.maxDecisions = len(p.taken)
	}
	e.switches += p.sched.switches
	for k := range p.reached {
		e.reached[k] = true
	}
	for k := range p.funcs {
		e.funcs[k] = true
	}
	for k := range p.stubUsed {
		e.stubsUsed[k] = true
	}
	if sample != nil && len(e.samples) < 3 {
		e.samples = append(e.samples, sample)
		if rawSample != nil {
			e.sampleRecs = append(e.sampleRecs, rawSample)
		}
	}
}

// ---- loading ----

func loadProgram(repo, verifDir string, cc *CheckCfg) (*ssa.Program, []*packages.Package, error) {
	overlay := map[string][]byte{}
	rtSrc, err := os.ReadFile(filepath.Join(verifDir, "rt/verifrt/verifrt.go"))
	if err != nil {
		return nil, nil, err
	}
	overlay[filepath.Join(repo, "internal/verifrt/verifrt.go")] = rtSrc
	for src, dst := range cc.Files {
		b, err := os.ReadFile(filepath.Join(verifDir, src))
		if err != nil {
			return nil, nil, err
		}
		overlay[filepath.Join(repo, dst)] = b
	}
	cfg := &packages.Config{
		Mode:    packages.LoadAllSyntax,
		Dir:     repo,
		Env:     append(os.Environ(), "GOFLAGS=-mod=mod", "GOPROXY=off"),
		Overlay: overlay,
		Tests:   false,
	}
	pats := append([]string{}, cc.Packages...)
	pats = append(pats, rtPkg)
	pkgs, err := packages.Load(cfg, pats...)
	if err != nil {
		return nil, nil, err
	}
	nerr := 0
	packages.Visit(pkgs, nil, func(p *packages.Package) {
		for _, e := range p.Errors {
			if nerr < 20 {
				fmt.Fprintf(os.Stderr, "load error: %s: %v\n", p.PkgPath, e)
			}
			nerr++
		}
	})
	if nerr > 0 {
		return nil, nil, fmt.Errorf("%d package load errors (the tree does not type-check with the harness)", nerr)
	}
	prog, _ := ssautil.AllPackages(pkgs, ssa.InstantiateGenerics)
	// build every function body up front: lazy per-package building races between workers
	// (a generic instance can be visible before its body is built)
	prog.Build()
	return prog, pkgs, nil
}

func findHarness(prog *ssa.Program, pkgPath, fn string) *ssa.Function {
	for _, p := range prog.AllPackages() {
		if p.Pkg.Path() == pkgPath {
			p.Build()
			return p.Func(fn)
		}
	}
	return nil
}

// staticReachLabels finds verifrt.Reach("label") constants in the harness' package functions
// reachable from the harness function (same package only).
func staticReachLabels(h *ssa.Function) []string {
	seen := map[*ssa.Function]bool{}
	labels := map[string]bool{}
	var visit func(f *ssa.Function)
	visit = func(f *ssa.Function) {
		if f == nil || seen[f] || f.Blocks == nil {
			return
		}
		seen[f] = true
		for _, b := range f.Blocks {
			for _, ins := range b.Instrs {
				if mc, ok := ins.(*ssa.MakeClosure); ok {
					visit(mc.Fn.(*ssa.Function))
				}
				c, ok := ins.(ssa.CallInstruction)
				if !ok {
					continue
				}
				callee := c.Common().StaticCallee()
				if callee == nil {
					continue
				}
				if callee.Pkg != nil && callee.Pkg.Pkg.Path() == rtPkg && callee.Name() == "Reach" {
					if k, ok := c.Common().Args[0].(*ssa.Const); ok {
						labels[strings.Trim(k.Value.ExactString(), "\"")] = true
					}
				}
				if callee.Pkg == h.Pkg && strings.HasPrefix(callee.Name(), "verif") {
					visit(callee)
				}
			}
		}
		for _, af := range f.AnonFuncs {
			visit(af)
		}
	}
	visit(h)
	var out []string
	for l := range labels {
		out = append(out, l)
	}
	sort.Strings(out)
	return out
}

// ---- evidence ----

type HarnessResult struct {
	Func           string                   `json:"harness"`
	Claim          string                   `json:"claim,omitempty"`
	Paths          int                      `json:"paths_completed"`
	Aborted        int                      `json:"paths_infeasible_or_aborted"`
	AbortReasons   map[string]int           `json:"abort_reasons,omitempty"`
	Steps          int64                    `json:"ssa_instructions"`
	Queries        int                      `json:"queries"`
	SolverS        float64                  `json:"solver_time_s"`
	Obligations    int                      `json:"assertion_queries"`
	AssertsSeen    int                      `json:"assertions_evaluated"`
	Bounds         map[string]interface{}   `json:"bounds"`
	Reach          map[string]bool          `json:"reach_witnesses"`
	Funcs          []string                 `json:"functions_encoded"`
	Stubs          []string                 `json:"stubs_hit"`
	Samples        []map[string]interface{} `json:"samples"`
	Violations     int                      `json:"violations"`
	Known          []string                 `json:"known_findings_hit"`
	Inconclusive   []string                 `json:"inconclusive,omitempty"`
	Solver         string                   `json:"solver"`
	WallS          float64                  `json:"wall_s"`
	MaxDecisions   int                      `json:"max_decisions_on_a_path"`
	ThreadSwitches int                      `json:"thread_switches"`
	Validated      int                      `json:"sample_models_replayed_natively"`
	ReplayL1       string                   `json:"replay_l1,omitempty"`
	ReplayL2       string                   `json:"replay_l2,omitempty"`
}

func main() {
	if len(os.Args) < 2 {
		fmt.Fprintln(os.Stderr, "usage: gosym check <id> <quick|thorough> | replay <path>")
		os.Exit(2)
	}
	switch os.Args[1] {
	case "check":
		os.Exit(cmdCheck(os.Args[2:]))
	case "replay":
		os.Exit(cmdReplay(os.Args[2:]))
	default:
		fmt.Fprintln(os.Stderr, "unknown command")
		os.Exit(2)
	}
}

func envOr(k, d string) string {
	if v := os.Getenv(k); v != "" {
		return v
	}
	return d
}

func readKnown(verifDir string) map[string]string {
	known := map[string]string{}
	b, err := os.ReadFile(filepath.Join(verifDir, "KNOWN_FINDINGS.txt"))
	if err != nil {
		return known
	}
	for _, l := range strings.Split(string(b), "\n") {
		l = strings.TrimSpace(l)
		if !strings.HasPrefix(l, "known:") {
			continue
		}
		// known: property=C31 id=<id> what=<text>
		rest := strings.TrimSpace(strings.TrimPrefix(l, "known:"))
		var id, prop, what string
		if i := strings.Index(rest, " what="); i >= 0 {
			what = rest[i+6:]
			rest = rest[:i]
		}
		for _, f := range strings.Fields(rest) {
			if strings.HasPrefix(f, "id=") {
				id = f[3:]
			}
			if strings.HasPrefix(f, "property=") {
				prop = f[9:]
			}
		}
		if id != "" {
			known[id] = what
			_ = prop
		}
	}
	return known
}

func cmdCheck(args []string) int {
	fs := flag.NewFlagSet("check", flag.ExitOnError)
	only := fs.String("only", "", "run only this harness function")
	verbose := fs.Bool("v", false, "verbose")
	defWorkers := runtime.NumCPU()
	if v := os.Getenv("VERIF_WORKERS"); v != "" {
		fmt.Sscan(v, &defWorkers)
	}
	workers := fs.Int("workers", defWorkers, "workers")
	fs.Parse(args)
	if *only != "" {
		os.Setenv("VERIF_PARTIAL", "1")
	}
	if fs.NArg() < 2 {
		fmt.Fprintln(os.Stderr, "usage: gosym check [-only F] <id> <quick|thorough>")
		return 2
	}
	id, tier := fs.Arg(0), fs.Arg(1)
	verifDir := envOr("VERIF_DIR", "/verif")
	repo := envOr("VERIF_REPO", "/repo")
	start := time.Now()
	var cc CheckCfg
	b, err := os.ReadFile(filepath.Join(verifDir, "checks", id+".json"))
	if err != nil {
		fmt.Fprintln(os.Stderr, err)
		return 2
	}
	if err := json.Unmarshal(b, &cc); err != nil {
		fmt.Fprintln(os.Stderr, "bad check config:", err)
		return 2
	}
	seed := 0
	fmt.Sscan(os.Getenv("VERIF_SEED"), &seed)
	known := readKnown(verifDir)

	prog, _, err := loadProgram(repo, verifDir, &cc)
	if err != nil {
		fmt.Fprintln(os.Stderr, "LOAD-FAILED:", err)
		fmt.Printf("INCONCLUSIVE property=%s reason=load-failed\n", id)
		return 2
	}
	loadS := time.Since(start).Seconds()
	if *verbose {
		fmt.Fprintf(os.Stderr, "loaded in %.1fs\n", loadS)
	}

	var results []*HarnessResult
	validatedOnce := false
	exit := 0
	totalViol := 0
	var allAssumptions []string
	allAssumptions = append(allAssumptions, cc.Assumptions...)
	for _, hc := range cc.Harnesses {
		if *only != "" && hc.Func != *only {
			continue
		}
		tc := hc.Quick
		if tier == "thorough" {
			tc = mergeTier(hc.Quick, hc.Thorough)
		}
		pkgPath := hc.Package
		if pkgPath == "" {
			pkgPath = cc.Packages[0]
		}
		h := findHarness(prog, pkgPath, hc.Func)
		if h == nil {
			fmt.Fprintf(os.Stderr, "harness %s not found in %s\n", hc.Func, pkgPath)
			fmt.Printf("INCONCLUSIVE property=%s harness=%s reason=harness-not-found\n", id, hc.Func)
			exit = 2
			continue
		}
		cfg := Config{Unwind: tc.Unwind, Preemptions: tc.Preemptions, Params: tc.Params, MaxPaths: tc.MaxPaths,
			TimeoutMs: tc.TimeoutMs, BudgetS: tc.BudgetS, Solver: tc.Solver, Workers: *workers}
		if cfg.Solver == "" {
			cfg.Solver = hc.Solver
		}
		if cfg.Solver == "" {
			cfg.Solver = "z3"
		}
		if cfg.Unwind == 0 {
			cfg.Unwind = 32
		}
		if cfg.TimeoutMs == 0 {
			cfg.TimeoutMs = 60000
		}
		if cfg.MaxPaths == 0 {
			cfg.MaxPaths = 200000
		}
		if cfg.BudgetS == 0 {
			cfg.BudgetS = 600
		}
		if v := os.Getenv("VERIF_BUDGET_CAP"); v != "" {
			// bound finding: clamp every harness budget (a harness that does not finish is inconclusive)
			var capS int
			fmt.Sscan(v, &capS)
			if capS > 0 && cfg.BudgetS > capS {
				cfg.BudgetS = capS
			}
		}
		hs := time.Now()
		e := &Engine{cfg: cfg, prog: prog, fset: prog.Fset, harness: h, known: known,
			reached: map[string]bool{}, funcs: map[string]bool{}, stubsUsed: map[string]bool{}}
		e.deadline = time.Now().Add(time.Duration(cfg.BudgetS) * time.Second)
		e.runAll()
		res := &HarnessResult{Func: hc.Func, Claim: hc.Claim, Paths: e.paths, Aborted: e.aborted, AbortReasons: e.abortReasons, Steps: e.steps, Queries: e.queries,
			SolverS: e.solverTime.Seconds(), Obligations: e.obligations, AssertsSeen: e.assertsSeen, Reach: map[string]bool{}, Solver: cfg.Solver,
			Samples: e.samples, MaxDecisions: e.maxDecisions, ThreadSwitches: e.switches}
		res.Bounds = map[string]interface{}{"unwind": cfg.Unwind, "preemptions": cfg.Preemptions, "params": cfg.Params, "query_timeout_ms": cfg.TimeoutMs}
		for f := range e.funcs {
			res.Funcs = append(res.Funcs, f)
		}
		sort.Strings(res.Funcs)
		for f := range e.stubsUsed {
			res.Stubs = append(res.Stubs, f)
		}
		sort.Strings(res.Stubs)
		res.Inconclusive = append(res.Inconclusive, e.inconclusive...)
		for _, se := range e.solverErrs {
			if len(res.Inconclusive) < 60 {
				res.Inconclusive = append(res.Inconclusive, "SOLVER: "+se)
			}
		}
		// vacuity: every static Reach label must have been reached (unless a violation stopped exploration)
		realViol := 0
		knownHit := map[string]bool{}
		for _, v := range e.violations {
			if v.Known == "" {
				realViol++
			} else {
				knownHit[v.Known] = true
			}
		}
		for _, l := range staticReachLabels(h) {
			res.Reach[l] = e.reached[l]
			if !e.reached[l] && realViol == 0 && len(res.Inconclusive) == 0 {
				res.Inconclusive = append(res.Inconclusive, "VACUOUS: reach label "+l+" was never reached")
			}
		}
		for k := range knownHit {
			res.Known = append(res.Known, k)
			fmt.Printf("KNOWN-FINDING: property=%s %s [%s]\n", id, known[k], k)
		}
		sort.Strings(res.Known)
		if realViol > 0 {
			// report first violation after replay
			var v *Violation
			for _, vv := range e.violations {
				if vv.Known == "" {
					v = vv
					break
				}
			}
			rdir, l1, l2, confirmed := handleViolation(verifDir, repo, id, &cc, &hc, tier, e, v)
			res.ReplayL1, res.ReplayL2 = l1, l2
			if confirmed {
				res.Violations = 1
				totalViol++
				fmt.Printf("VIOLATION property=%s replay=%s\n", id, rdir)
				fmt.Printf("  harness=%s kind=%s msg=%q\n  model: %s\n  at:\n%s", hc.Func, v.Kind, v.Msg, modelString(v.Model), indent(v.Stack))
				exit = 1 // a confirmed violation outranks an earlier harness's inconclusive result
			} else {
				res.Inconclusive = append(res.Inconclusive, "ENCODING-MISMATCH: counterexample did not replay: "+l1+" / "+l2)
			}
		}
		if len(res.Inconclusive) > 0 {
			if exit != 1 {
				exit = 2
			}
			for _, m := range res.Inconclusive {
				fmt.Printf("INCONCLUSIVE property=%s harness=%s %s\n", id, hc.Func, m)
			}
		}
		// translator validation: completed paths' models are pushed through the natively compiled
		// harness; the real code must take them without any assertion failing
		// (quick tier: one sample of the first native harness of the check; thorough: up to three per harness)
		if hc.Native && realViol == 0 && (tier == "thorough" || os.Getenv("VERIF_VALIDATE") != "" || !validatedOnce) {
			if tier != "thorough" && os.Getenv("VERIF_VALIDATE") == "" && len(e.sampleRecs) > 1 {
				e.sampleRecs = e.sampleRecs[:1]
			}
			validatedOnce = true
			v, bad := validateSamples(verifDir, repo, id, &cc, &hc, tier, e)
			res.Validated = v
			for _, m := range bad {
				res.Inconclusive = append(res.Inconclusive, m)
				fmt.Printf("INCONCLUSIVE property=%s harness=%s %s\n", id, hc.Func, m)
				if exit != 1 {
					exit = 2
				}
			}
		}
		res.WallS = time.Since(hs).Seconds()
		results = append(results, res)
		fmt.Printf("%s %s: paths=%d aborted=%d instrs=%d queries=%d solver=%.1fs assertions=%d(solver:%d) violations=%d wall=%.1fs\n",
			id, hc.Func, res.Paths, res.Aborted, res.Steps, res.Queries, res.SolverS, res.AssertsSeen, res.Obligations, res.Violations, res.WallS)
	}
	writeEvidence(verifDir, id, tier, seed, &cc, results, totalViol, time.Since(start).Seconds(), loadS, exit)
	return exit
}

func indent(s string) string {
	var sb strings.Builder
	for _, l := range strings.Split(strings.TrimRight(s, "\n"), "\n") {
		sb.WriteString("    " + l + "\n")
	}
	return sb.String()
}

func mergeTier(q, t TierCfg) TierCfg {
	r := q
	if t.Unwind != 0 {
		r.Unwind = t.Unwind
	}
	if t.Preemptions != 0 {
		r.Preemptions = t.Preemptions
	}
	if t.MaxPaths != 0 {
		r.MaxPaths = t.MaxPaths
	}
	if t.TimeoutMs != 0 {
		r.TimeoutMs = t.TimeoutMs
	}
	if t.BudgetS != 0 {
		r.BudgetS = t.BudgetS
	}
	if t.Solver != "" {
		r.Solver = t.Solver
	}
	if t.CrossSolver != "" {
		r.CrossSolver = t.CrossSolver
	}
	if t.Params != nil {
		r.Params = map[string]int{}
		for k, v := range q.Params {
			r.Params[k] = v
		}
		for k, v := range t.Params {
			r.Params[k] = v
		}
	}
	return r
}

func writeEvidence(verifDir, id, tier string, seed int, cc *CheckCfg, results []*HarnessResult, viol int, wall, loadS float64, exit int) {
	states, trans, queries, oblig := 0, int64(0), 0, 0
	validated := 0
	solverS := 0.0
	var samples []interface{}
	funcs := map[string]bool{}
	for _, r := range results {
		states += r.Paths
		trans += r.Steps
		queries += r.Queries
		oblig += r.Obligations
		solverS += r.SolverS
		validated += r.Validated
		for _, s := range r.Samples {
			s["harness"] = r.Func
			samples = append(samples, s)
		}
		for _, f := range r.Funcs {
			funcs[f] = true
		}
	}
	if len(samples) == 0 {
		samples = append(samples, map[string]interface{}{"note": "no completed path produced a sample"})
	}
	var fl []string
	for f := range funcs {
		fl = append(fl, f)
	}
	sort.Strings(fl)
	verdict := "held-within-bounds"
	switch exit {
	case 1:
		verdict = "violation"
	case 2:
		verdict = "inconclusive"
	}
	ev := map[string]interface{}{
		"property_id": id,
		"tier":        tier,
		"seed":        seed,
		"level":       "model_checking",
		"coverage": map[string]interface{}{
			"states":                        states,
			"transitions":                   trans,
			"traces_validated_against_impl": validated,
			"samples":                       samples,
			"queries":                       queries,
			"assertion_queries":             oblig,
			"solver_time_s":                 solverS,
			"ssa_load_s":                    loadS,
			"functions_encoded":             fl,
			"harnesses":                     results,
			"stubs":                         cc.Stubs,
			"outside_the_claim":             cc.Outside,
			"verdict":                       verdict,
			"explanation":                   "bounded symbolic execution of the real Go SSA (go/ssa of /repo's working tree) with SMT queries per path; states = feasible paths completed, transitions = SSA instructions interpreted",
			"exhaustive":                    exit == 0,
		},
		"assumptions": append([]string{}, cc.Assumptions...),
		"wall_s":      wall,
		"violations":  viol,
	}
	if states == 0 {
		ev["coverage"].(map[string]interface{})["states"] = 0
	}
	// evidence/ only ever describes runs against /repo itself; runs against another tree
	// (VERIF_REPO=..., used to evaluate seeded changes) or partial runs (-only) go elsewhere
	dir := "evidence"
	if envOr("VERIF_REPO", "/repo") != "/repo" || os.Getenv("VERIF_PARTIAL") != "" {
		dir = "evidence-scratch"
	}
	os.MkdirAll(filepath.Join(verifDir, dir), 0o755)
	b, _ := json.MarshalIndent(ev, "", " ")
	os.WriteFile(filepath.Join(verifDir, dir, id+".json"), b, 0o644)
}

package main

import (
	"golang.org/x/tools/go/ssa"
)

// skipInitHooks run after the globals of a package whose init the engine does not execute
// (skipInitPkgs) have been poisoned; they may give selected globals their real initial value.
var skipInitHooks = map[string]func(p *PathRun, th *Thread, pkg *ssa.Package){}

func init() {
	// package os: the exported sentinel errors are plain copies of io/fs's (whose init runs normally):
	//   ErrInvalid = fs.ErrInvalid, ErrPermission = fs.ErrPermission, ErrExist = fs.ErrExist,
	//   ErrNotExist = fs.ErrNotExist, ErrClosed = fs.ErrClosed
	skipInitHooks["os"] = func(p *PathRun, th *Thread, pkg *ssa.Package) {
		var fsPkg *ssa.Package
		for _, q := range p.eng.prog.AllPackages() {
			if q.Pkg.Path() == "io/fs" {
				fsPkg = q
				break
			}
		}
		if fsPkg == nil {
			return
		}
		for _, name := range []string{"ErrInvalid", "ErrPermission", "ErrExist", "ErrNotExist", "ErrClosed"} {
			dst, ok1 := pkg.Members[name].(*ssa.Global)
			src, ok2 := fsPkg.Members[name].(*ssa.Global)
			if !ok1 || !ok2 {
				continue
			}
			so := th.global(src)
			if _, bad := so.V.(*Poison); bad {
				continue
			}
			p.globals[dst] = p.newObj(so.V, dst.String())
		}
	}
}

package main

import (
	"fmt"
	"go/token"
	"go/types"
	"math"
	"unicode/utf8"

	"golang.org/x/tools/go/ssa"
)

func (th *Thread) asTerm(fr *Frame, v Value) *Term {
	t, ok := v.(*Term)
	if !ok {
		if p, isP := v.(*Poison); isP {
			panic(engineErr("use of poison value (%s) at %s", p.Why, th.posStr(fr)))
		}
		panic(engineErr("expected scalar term, got %T at %s", v, th.posStr(fr)))
	}
	return t
}

func (th *Thread) binop(fr *Frame, op token.Token, x, y Value, xt, yt types.Type) Value {
	ctx := th.ctx()
	switch op {
	case token.EQL:
		return th.valEq(fr, x, y)
	case token.NEQ:
		return ctx.Not(th.valEq(fr, x, y))
	}
	// strings
	if sx, ok := x.(*StrV); ok {
		sy := y.(*StrV)
		switch op {
		case token.ADD:
			r := &StrV{B: make([]*Term, 0, len(sx.B)+len(sy.B))}
			r.B = append(append(r.B, sx.B...), sy.B...)
			return r
		case token.LSS:
			return strLess(ctx, sx, sy, false)
		case token.LEQ:
			return strLess(ctx, sx, sy, true)
		case token.GTR:
			return strLess(ctx, sy, sx, false)
		case token.GEQ:
			return strLess(ctx, sy, sx, true)
		}
		panic(engineErr("unsupported string op %s", op))
	}
	if fx, ok := x.(FloatV); ok {
		fy, ok := y.(FloatV)
		if !ok {
			panic(engineErr("float op with non-float %T", y))
		}
		a, b := float64(fx), float64(fy)
		f32 := false
		if bt, ok := xt.Underlying().(*types.Basic); ok && bt.Kind() == types.Float32 {
			f32 = true
		}
		rnd := func(v float64) Value {
			if f32 {
				return FloatV(float64(float32(v)))
			}
			return FloatV(v)
		}
		switch op {
		case token.ADD:
			return rnd(a + b)
		case token.SUB:
			return rnd(a - b)
		case token.MUL:
			return rnd(a * b)
		case token.QUO:
			return rnd(a / b)
		case token.LSS:
			return ctx.Bool(a < b)
		case token.LEQ:
			return ctx.Bool(a <= b)
		case token.GTR:
			return ctx.Bool(a > b)
		case token.GEQ:
			return ctx.Bool(a >= b)
		}
		panic(engineErr("unsupported float op %s", op))
	}
	a := th.asTerm(fr, x)
	b := th.asTerm(fr, y)
	if a.W == 0 {
		switch op {
		case token.AND, token.LAND:
			return ctx.And(a, b)
		case token.OR, token.LOR:
			return ctx.Or(a, b)
		}
		panic(engineErr("unsupported bool op %s", op))
	}
	signed := isSigned(xt)
	w := a.W
	switch op {
	case token.SHL, token.SHR:
		// shift count: any integer type
		if isSigned(yt) && !b.IsConst() {
			neg := ctx.Slt(b, ctx.Const(b.W, 0))
			if th.branchAt(fr, "shiftneg", neg) {
				th.goPanic("negative shift amount")
			}
		} else if isSigned(yt) && b.IsConst() && sx(b.Val, b.W) < 0 {
			th.goPanic("negative shift amount")
		}
		var big *Term // count >= w
		var cnt *Term
		if b.W > w {
			big = ctx.Ule(ctx.Const(b.W, uint64(w)), b)
			cnt = ctx.Extract(b, w-1, 0)
		} else {
			cnt = ctx.ZExt(b, w)
			big = ctx.Ule(ctx.Const(w, uint64(w)), cnt)
		}
		var sh, over *Term
		switch {
		case op == token.SHL:
			sh = ctx.Shl(a, cnt)
			over = ctx.Const(w, 0)
		case signed:
			sh = ctx.AShr(a, cnt)
			over = ctx.AShr(a, ctx.Const(w, uint64(w-1)))
		default:
			sh = ctx.LShr(a, cnt)
			over = ctx.Const(w, 0)
		}
		return ctx.Ite(big, over, sh)
	}
	if a.W != b.W {
		panic(engineErr("binop %s width mismatch %d/%d at %s", op, a.W, b.W, th.posStr(fr)))
	}
	switch op {
	case token.ADD:
		return ctx.Add(a, b)
	case token.SUB:
		return ctx.Sub(a, b)
	case token.MUL:
		return ctx.Mul(a, b)
	case token.QUO, token.REM:
		z := ctx.Eq(b, ctx.Const(w, 0))
		if th.branchAt(fr, "divzero", z) {
			th.goPanic("integer divide by zero")
		}
		if signed {
			if op == token.QUO {
				return ctx.SDiv(a, b)
			}
			return ctx.SRem(a, b)
		}
		if op == token.QUO {
			return ctx.UDiv(a, b)
		}
		return ctx.URem(a, b)
	case token.AND:
		return ctx.BVAnd(a, b)
	case token.OR:
		return ctx.BVOr(a, b)
	case token.XOR:
		return ctx.BVXor(a, b)
	case token.AND_NOT:
		return ctx.BVAnd(a, ctx.BVNot(b))
	case token.LSS:
		if signed {
			return ctx.Slt(a, b)
		}
		return ctx.Ult(a, b)
	case token.LEQ:
		if signed {
			return ctx.Sle(a, b)
		}
		return ctx.Ule(a, b)
	case token.GTR:
		if signed {
			return ctx.Slt(b, a)
		}
		return ctx.Ult(b, a)
	case token.GEQ:
		if signed {
			return ctx.Sle(b, a)
		}
		return ctx.Ule(b, a)
	}
	panic(engineErr("unsupported binop %s", op))
}

func strLess(ctx *TermCtx, a, b *StrV, orEq bool) *Term {
	// lexicographic; lengths concrete
	n := len(a.B)
	if len(b.B) < n {
		n = len(b.B)
	}
	// tail: all first n bytes equal
	var tail *Term
	if len(a.B) < len(b.B) {
		tail = ctx.True()
	} else if len(a.B) == len(b.B) {
		tail = ctx.Bool(orEq)
	} else {
		tail = ctx.False()
	}
	res := tail
	for i := n - 1; i >= 0; i-- {
		lt := ctx.Ult(a.B[i], b.B[i])
		eq := ctx.Eq(a.B[i], b.B[i])
		res = ctx.Or(lt, ctx.And(eq, res))
	}
	return res
}

func (th *Thread) strEq(a, b *StrV) *Term {
	ctx := th.ctx()
	if len(a.B) != len(b.B) {
		return ctx.False()
	}
	r := ctx.True()
	for i := range a.B {
		r = ctx.And(r, ctx.Eq(a.B[i], b.B[i]))
		if r.IsFalse() {
			return r
		}
	}
	return r
}

// valEq: Go == on two values of the same static type (or interface operands).
func (th *Thread) valEq(fr *Frame, x, y Value) *Term {
	ctx := th.ctx()
	switch a := x.(type) {
	case *Term:
		b, ok := y.(*Term)
		if !ok {
			panic(engineErr("== between %T and %T at %s", x, y, th.posStr(fr)))
		}
		return ctx.Eq(a, b)
	case FloatV:
		return ctx.Bool(a == y.(FloatV))
	case *StrV:
		return th.strEq(a, y.(*StrV))
	case *StructV:
		b := y.(*StructV)
		r := ctx.True()
		for i := range a.F {
			r = ctx.And(r, th.valEq(fr, a.F[i], b.F[i]))
			if r.IsFalse() {
				return r
			}
		}
		return r
	case *ArrV:
		b := y.(*ArrV)
		r := ctx.True()
		for i := range a.E {
			r = ctx.And(r, th.valEq(fr, a.E[i], b.E[i]))
			if r.IsFalse() {
				return r
			}
		}
		return r
	case *PtrV:
		b, ok := y.(*PtrV)
		if !ok {
			if y == nil {
				return ctx.Bool(a.IsNil())
			}
			panic(engineErr("== between pointer and %T", y))
		}
		if a.IsNil() || b.IsNil() {
			return ctx.Bool(a.IsNil() && b.IsNil())
		}
		if a.O != b.O || len(a.Path) != len(b.Path) {
			return ctx.False()
		}
		r := ctx.True()
		for i := range a.Path {
			pa, pb := a.Path[i], b.Path[i]
			if pa.Field != pb.Field {
				return ctx.False()
			}
			if pa.Field >= 0 {
				continue
			}
			ta := pa.Sym
			if ta == nil {
				ta = ctx.Const(64, uint64(pa.I))
			}
			tb := pb.Sym
			if tb == nil {
				tb = ctx.Const(64, uint64(pb.I))
			}
			r = ctx.And(r, ctx.Eq(ta, tb))
		}
		return r
	case *IfaceV:
		b, ok := y.(*IfaceV)
		if !ok {
			panic(engineErr("== between interface and %T", y))
		}
		if a.T == nil || b.T == nil {
			return ctx.Bool(a.T == nil && b.T == nil)
		}
		if !types.Identical(a.T, b.T) {
			return ctx.False()
		}
		switch a.T.Underlying().(type) {
		case *types.Slice, *types.Map, *types.Signature:
			th.goPanic("runtime error: comparing uncomparable type " + a.T.String())
		}
		return th.valEq(fr, a.V, b.V)
	case *SliceV:
		b := y.(*SliceV)
		if a.O == nil || b.O == nil {
			return ctx.Bool(a.O == nil && b.O == nil)
		}
		panic(engineErr("slice == non-nil slice"))
	case *MapV:
		b := y.(*MapV)
		if a.M == nil || b.M == nil {
			return ctx.Bool(a.M == nil && b.M == nil)
		}
		return ctx.Bool(a.M == b.M)
	case *FuncV:
		b := y.(*FuncV)
		an, bn := isNilValue(a), isNilValue(b)
		if an || bn {
			return ctx.Bool(an && bn)
		}
		panic(engineErr("func == non-nil func"))
	case *ChanV:
		b := y.(*ChanV)
		return ctx.Bool(a.C == b.C)
	case nil:
		return ctx.Bool(isNilValue(y))
	case *Poison:
		panic(engineErr("comparison of poison value (%s) at %s", a.Why, th.posStr(fr)))
	}
	panic(engineErr("valEq: unsupported %T at %s", x, th.posStr(fr)))
}

func (th *Thread) unop(fr *Frame, i *ssa.UnOp) Value {
	ctx := th.ctx()
	x := th.get(fr, i.X)
	switch i.Op {
	case token.MUL:
		pv := th.ptr(fr, x)
		return th.loadValue(fr, pv, i.Type())
	case token.NOT:
		return ctx.Not(th.asTerm(fr, x))
	case token.SUB:
		if f, ok := x.(FloatV); ok {
			return FloatV(-float64(f))
		}
		return ctx.Neg(th.asTerm(fr, x))
	case token.XOR:
		return ctx.BVNot(th.asTerm(fr, x))
	case token.ARROW:
		return th.chanRecv(fr, x, i.CommaOk, i.Type())
	}
	panic(engineErr("unsupported unop %s", i.Op))
}

func (th *Thread) convert(fr *Frame, x Value, from, to types.Type) Value {
	ctx := th.ctx()
	fu, tu := from.Underlying(), to.Underlying()
	// type parameters (MultiConvert) are instantiated away; treat by underlying
	switch t := tu.(type) {
	case *types.Basic:
		switch {
		case t.Kind() == types.UnsafePointer:
			return x
		case t.Info()&types.IsInteger != 0:
			w := bvWidth(to)
			switch v := x.(type) {
			case *Term:
				if v.W == 0 {
					panic(engineErr("bool to int conversion"))
				}
				if w <= v.W {
					return ctx.Extract(v, w-1, 0)
				}
				if isSigned(from) {
					return ctx.SExt(v, w)
				}
				return ctx.ZExt(v, w)
			case FloatV:
				f := float64(v)
				if isSigned(to) {
					return ctx.Const(w, uint64(int64(f)))
				}
				if f < 0 {
					return ctx.Const(w, uint64(int64(f)))
				}
				return ctx.Const(w, uint64(f))
			case *PtrV:
				// pointer -> uintptr: keep boxed; only round-trips are supported
				return &boxedPtr{v}
			}
		case t.Info()&types.IsFloat != 0:
			f32 := t.Kind() == types.Float32
			switch v := x.(type) {
			case FloatV:
				if f32 {
					return FloatV(float64(float32(v)))
				}
				return v
			case *Term:
				if !v.IsConst() {
					// symbolic int -> float: concretise
					v = ctx.Const(v.W, th.p.Concretize(v, "int->float conversion"))
				}
				var f float64
				if isSigned(from) {
					f = float64(sx(v.Val, v.W))
				} else {
					f = float64(v.Val)
				}
				if f32 {
					f = float64(float32(f))
				}
				return FloatV(f)
			}
		case t.Info()&types.IsString != 0:
			switch v := x.(type) {
			case *StrV:
				return v
			case *SliceV:
				// []byte or []rune
				et := fu.(*types.Slice).Elem()
				if bvWidth(et) == 8 {
					r := &StrV{B: make([]*Term, v.Len)}
					for k := 0; k < v.Len; k++ {
						r.B[k] = v.O.V.(*ArrV).E[v.Off+k].(*Term)
					}
					return r
				}
				var out []byte
				for k := 0; k < v.Len; k++ {
					rt := v.O.V.(*ArrV).E[v.Off+k].(*Term)
					rv := th.p.Concretize(rt, "rune->string")
					out = utf8.AppendRune(out, rune(int32(rv)))
				}
				return strConst(ctx, string(out))
			case *Term:
				if !v.IsConst() && v.W == 32 {
					if th.branchAt(fr, "runeascii", ctx.Ult(v, ctx.Const(32, 0x80))) {
						return &StrV{B: []*Term{ctx.Extract(v, 7, 0)}}
					}
					enc := th.p.eng.resolveFunc("unicode/utf8.AppendRune")
					r := th.callFunction(&FuncV{Fn: enc}, []Value{&SliceV{}, v}).(*SliceV)
					return &StrV{B: sliceTerms(r)}
				}
				rv := th.p.Concretize(v, "int->string")
				r := rune(sx(rv, v.W))
				if sx(rv, v.W) < 0 || sx(rv, v.W) > 0x10FFFF {
					r = utf8.RuneError
				}
				return strConst(ctx, string(r))
			}
		}
	case *types.Slice:
		if sv, ok := x.(*StrV); ok {
			if bvWidth(t.Elem()) == 8 {
				arr := &ArrV{E: make([]Value, len(sv.B))}
				for k, b := range sv.B {
					arr.E[k] = b
				}
				return &SliceV{O: th.p.newObj(arr, "[]byte(str)"), Len: len(sv.B), Cap: len(sv.B)}
			}
			// []rune(string)
			bs := th.concreteBytes(fr, sv, "[]rune(string)")
			rs := []rune(string(bs))
			arr := &ArrV{E: make([]Value, len(rs))}
			for k, r := range rs {
				arr.E[k] = ctx.Const(32, uint64(uint32(r)))
			}
			return &SliceV{O: th.p.newObj(arr, "[]rune(str)"), Len: len(rs), Cap: len(rs)}
		}
		return x
	case *types.Pointer:
		if bp, ok := x.(*boxedPtr); ok {
			return bp.P
		}
		return x
	}
	if bp, ok := x.(*boxedPtr); ok {
		_ = bp
		return x
	}
	switch x.(type) {
	case *StructV, *ArrV, *SliceV, *MapV, *FuncV, *ChanV, *IfaceV:
		return x
	}
	panic(engineErr("unsupported conversion %s -> %s (%T) at %s", from, to, x, th.posStr(fr)))
}

type boxedPtr struct{ P *PtrV }

func (th *Thread) concreteBytes(fr *Frame, s *StrV, why string) []byte {
	out := make([]byte, len(s.B))
	for i, b := range s.B {
		out[i] = byte(th.p.Concretize(b, why))
	}
	return out
}

// idx64 normalises an index term to 64 bits according to its static type.
func (th *Thread) idx64(t *Term, ty types.Type) *Term {
	if t.W == 64 {
		return t
	}
	if isSigned(ty) {
		return th.ctx().SExt(t, 64)
	}
	return th.ctx().ZExt(t, 64)
}

func (th *Thread) boundsCheck(fr *Frame, idx *Term, n int, what string) {
	ctx := th.ctx()
	ok := ctx.Ult(idx, ctx.Const(64, uint64(n)))
	if ok.IsTrue() {
		return
	}
	if !th.branchAt(fr, "bounds:"+what, ok) {
		msg := fmt.Sprintf("index out of range [%s] with length %d", idxStr(idx), n)
		th.goPanic(msg)
	}
}

func idxStr(t *Term) string {
	if t.IsConst() {
		return fmt.Sprint(int64(t.Val))
	}
	return "sym"
}

func (th *Thread) indexValue(fr *Frame, x Value, idx *Term, ity types.Type) Value {
	idx = th.idx64(idx, ity)
	switch a := x.(type) {
	case *ArrV:
		th.boundsCheck(fr, idx, len(a.E), "array")
		if idx.IsConst() {
			return a.E[idx.Val]
		}
		return th.symRead(fr, a, 0, idx)
	case *StrV:
		th.boundsCheck(fr, idx, len(a.B), "string")
		return th.strIndex(a, idx)
	}
	panic(engineErr("Index on %T", x))
}

func (th *Thread) strIndex(a *StrV, idx *Term) *Term {
	ctx := th.ctx()
	if idx.IsConst() {
		return a.B[idx.Val]
	}
	res := a.B[len(a.B)-1]
	for i := len(a.B) - 2; i >= 0; i-- {
		res = ctx.Ite(ctx.Eq(idx, ctx.Const(64, uint64(i))), a.B[i], res)
	}
	return res
}

func (th *Thread) indexAddr(fr *Frame, x Value, idx *Term, ity types.Type) Value {
	idx = th.idx64(idx, ity)
	ctx := th.ctx()
	switch a := x.(type) {
	case *SliceV:
		th.boundsCheck(fr, idx, a.Len, "slice")
		if idx.IsConst() {
			return &PtrV{O: a.O, Path: []PathElem{{Field: -1, I: a.Off + int(idx.Val)}}}
		}
		return &PtrV{O: a.O, Path: []PathElem{{Field: -1, Sym: ctx.Add(idx, ctx.Const(64, uint64(a.Off)))}}}
	case *PtrV:
		if a.IsNil() {
			th.goPanic("invalid memory address or nil pointer dereference")
		}
		// pointer to array: need length
		n := th.arrayLenAt(fr, a)
		th.boundsCheck(fr, idx, n, "array")
		np := append([]PathElem(nil), a.Path...)
		if idx.IsConst() {
			np = append(np, PathElem{Field: -1, I: int(idx.Val)})
		} else {
			np = append(np, PathElem{Field: -1, Sym: idx})
		}
		return &PtrV{O: a.O, Path: np}
	}
	panic(engineErr("IndexAddr on %T at %s", x, th.posStr(fr)))
}

func (th *Thread) arrayLenAt(fr *Frame, p *PtrV) int {
	v := th.load(fr, p)
	switch a := v.(type) {
	case *ArrV:
		return len(a.E)
	case *arrView:
		return len(a.A.E) - a.Off
	}
	panic(engineErr("pointer does not address an array (%T) at %s", v, th.posStr(fr)))
}

func (th *Thread) makeSlice(fr *Frame, i *ssa.MakeSlice) Value {
	p := th.p
	ctx := th.ctx()
	lt := th.idx64(th.getTerm(fr, i.Len), i.Len.Type())
	ct := th.idx64(th.getTerm(fr, i.Cap), i.Cap.Type())
	// negative or len > cap panics
	bad := ctx.Or(ctx.Slt(lt, ctx.Const(64, 0)), ctx.Slt(ct, lt))
	if th.branchAt(fr, "makeslice", bad) {
		th.goPanic("makeslice: len out of range")
	}
	n := int(p.Concretize(lt, "make len"))
	c := int(p.Concretize(ct, "make cap"))
	if c > 1<<24 {
		panic(&boundExceeded{fmt.Sprintf("make: capacity %d too large for the engine at %s", c, th.posStr(fr))})
	}
	et := i.Type().Underlying().(*types.Slice).Elem()
	arr := ctx.zero(types.NewArray(et, int64(c))).(*ArrV)
	return &SliceV{O: p.newObj(arr, "makeslice"), Len: n, Cap: c}
}

func (th *Thread) sliceOp(fr *Frame, i *ssa.Slice) Value {
	p := th.p
	ctx := th.ctx()
	x := th.get(fr, i.X)
	var length, capacity int
	var sv *SliceV
	var str *StrV
	switch a := x.(type) {
	case *SliceV:
		sv = a
		length, capacity = a.Len, a.Cap
	case *StrV:
		str = a
		length, capacity = len(a.B), len(a.B)
	case *PtrV:
		if a.IsNil() {
			th.goPanic("invalid memory address or nil pointer dereference")
		}
		v := th.load(fr, a)
		switch arr := v.(type) {
		case *ArrV:
			// need an Obj whose V is the ArrV: if path empty use a.O, else wrap by aliasing (arrays inside structs)
			if len(a.Path) == 0 {
				sv = &SliceV{O: a.O, Len: len(arr.E), Cap: len(arr.E)}
			} else {
				// aliasing sub-object: create an alias object sharing the same ArrV pointer
				sv = &SliceV{O: p.aliasObj(arr), Len: len(arr.E), Cap: len(arr.E)}
			}
		case *arrView:
			sv = &SliceV{O: p.aliasObj(arr.A), Off: arr.Off, Len: len(arr.A.E) - arr.Off, Cap: len(arr.A.E) - arr.Off}
		default:
			panic(engineErr("slice of pointer to %T", v))
		}
		length, capacity = sv.Len, sv.Cap
	default:
		panic(engineErr("Slice on %T at %s", x, th.posStr(fr)))
	}
	lo := ctx.Const(64, 0)
	if i.Low != nil {
		lo = th.idx64(th.getTerm(fr, i.Low), i.Low.Type())
	}
	hi := ctx.Const(64, uint64(length))
	if i.High != nil {
		hi = th.idx64(th.getTerm(fr, i.High), i.High.Type())
	}
	mx := ctx.Const(64, uint64(capacity))
	if i.Max != nil {
		mx = th.idx64(th.getTerm(fr, i.Max), i.Max.Type())
	}
	limit := capacity
	if str != nil {
		limit = length
	}
	ok := ctx.And(ctx.Ule(lo, hi), ctx.And(ctx.Ule(hi, mx), ctx.Ule(mx, ctx.Const(64, uint64(limit)))))
	if !ok.IsTrue() {
		if !th.branchAt(fr, "slicebounds", ok) {
			th.goPanic(fmt.Sprintf("slice bounds out of range [%s:%s] with capacity %d", idxStr(lo), idxStr(hi), limit))
		}
	}
	l := int(p.Concretize(lo, "slice low"))
	h := int(p.Concretize(hi, "slice high"))
	m := int(p.Concretize(mx, "slice max"))
	if str != nil {
		return &StrV{B: str.B[l:h]}
	}
	if sv.O == nil {
		return &SliceV{}
	}
	return &SliceV{O: sv.O, Off: sv.Off + l, Len: h - l, Cap: m - l}
}

// aliasObj returns an Obj wrapping an existing *ArrV (shared, mutable in place).
func (p *PathRun) aliasObj(a *ArrV) *Obj {
	if p.aliases == nil {
		p.aliases = map[*ArrV]*Obj{}
	}
	if o, ok := p.aliases[a]; ok {
		return o
	}
	o := p.newObj(a, "alias")
	p.aliases[a] = o
	return o
}

func (th *Thread) typeAssert(fr *Frame, i *ssa.TypeAssert) Value {
	ctx := th.ctx()
	xv := th.get(fr, i.X)
	x, okk := xv.(*IfaceV)
	if !okk {
		panic(engineErr("type assert on %T at %s", xv, th.posStr(fr)))
	}
	var ok bool
	var res Value
	if it, isI := i.AssertedType.Underlying().(*types.Interface); isI {
		ok = x.T != nil && th.p.eng.implements(x.T, it)
		res = x
	} else {
		ok = x.T != nil && types.Identical(x.T, i.AssertedType)
		res = x.V
	}
	if i.CommaOk {
		if !ok {
			res = ctx.zero(i.AssertedType)
		}
		return TupleV{res, ctx.Bool(ok)}
	}
	if !ok {
		dyn := "nil"
		if x.T != nil {
			dyn = x.T.String()
		}
		th.goPanic(fmt.Sprintf("interface conversion: interface is %s, not %s", dyn, i.AssertedType))
	}
	return res
}

// ---- maps ----

func (th *Thread) mapFind(fr *Frame, m *MapObj, key Value) int {
	// returns index of matching live entry or -1; forks on symbolic equality
	for k := range m.Keys {
		if m.Dead[k] {
			continue
		}
		eq := th.valEq(fr, m.Keys[k], key)
		if eq.IsFalse() {
			continue
		}
		if eq.IsTrue() || th.branchAt(fr, "mapkey", eq) {
			return k
		}
	}
	return -1
}

func (th *Thread) lookup(fr *Frame, i *ssa.Lookup) Value {
	ctx := th.ctx()
	x := th.get(fr, i.X)
	if s, ok := x.(*StrV); ok {
		idx := th.idx64(th.getTerm(fr, i.Index), i.Index.Type())
		th.boundsCheck(fr, idx, len(s.B), "string")
		return th.strIndex(s, idx)
	}
	mv, ok := x.(*MapV)
	if !ok {
		panic(engineErr("lookup on %T at %s", x, th.posStr(fr)))
	}
	vt := i.X.Type().Underlying().(*types.Map).Elem()
	var res Value
	found := false
	if mv.M != nil {
		k := th.mapFind(fr, mv.M, th.mapKey(th.get(fr, i.Index)))
		if k >= 0 {
			res = mv.M.Vals[k]
			found = true
		}
	}
	if !found {
		res = ctx.zero(vt)
	}
	if i.CommaOk {
		return TupleV{res, ctx.Bool(found)}
	}
	return res
}

func (th *Thread) mapKey(k Value) Value { return k }

func (th *Thread) mapUpdate(fr *Frame, mvv Value, key, val Value) {
	mv := mvv.(*MapV)
	if mv.M == nil {
		th.goPanic("assignment to entry in nil map")
	}
	m := mv.M
	k := th.mapFind(fr, m, key)
	if k >= 0 {
		m.Vals[k] = val
		return
	}
	m.Keys = append(m.Keys, key)
	m.Vals = append(m.Vals, val)
	m.Dead = append(m.Dead, false)
	m.N++
}

func (th *Thread) mapDelete(fr *Frame, mvv Value, key Value) {
	mv := mvv.(*MapV)
	if mv.M == nil {
		return
	}
	k := th.mapFind(fr, mv.M, key)
	if k >= 0 {
		mv.M.Dead[k] = true
		mv.M.N--
	}
}

func (th *Thread) rangeIter(fr *Frame, x Value) Value {
	switch a := x.(type) {
	case *StrV:
		return &IterV{IsStr: true, Str: a}
	case *MapV:
		it := &IterV{M: a.M}
		if a.M != nil {
			for k := range a.M.Keys {
				if !a.M.Dead[k] {
					it.KIdx = append(it.KIdx, k)
				}
			}
		}
		return it
	}
	panic(engineErr("range over %T", x))
}

func (th *Thread) next(fr *Frame, i *ssa.Next) Value {
	ctx := th.ctx()
	it := th.get(fr, i.Iter).(*IterV)
	if i.IsString {
		s := it.Str
		if it.Pos >= len(s.B) {
			return TupleV{ctx.False(), ctx.Const(64, 0), ctx.Const(32, 0)}
		}
		pos := it.Pos
		b0 := s.B[pos]
		if !b0.IsConst() {
			ascii := ctx.Ult(b0, ctx.Const(8, 0x80))
			if th.branchAt(fr, "utf8ascii", ascii) {
				it.Pos++
				return TupleV{ctx.True(), ctx.Const(64, uint64(pos)), ctx.ZExt(b0, 32)}
			}
		}
		// decode with concrete bytes when possible
		end := pos + 4
		if end > len(s.B) {
			end = len(s.B)
		}
		allConst := true
		for k := pos; k < end; k++ {
			if !s.B[k].IsConst() {
				allConst = false
			}
		}
		if allConst {
			buf := make([]byte, 0, 4)
			for k := pos; k < end; k++ {
				buf = append(buf, byte(s.B[k].Val))
			}
			r, sz := utf8.DecodeRune(buf)
			it.Pos += sz
			return TupleV{ctx.True(), ctx.Const(64, uint64(pos)), ctx.Const(32, uint64(uint32(r)))}
		}
		// symbolic multi-byte sequence: run the real decoder symbolically
		dec := th.p.eng.resolveFunc("unicode/utf8.DecodeRuneInString")
		res := th.callFunction(&FuncV{Fn: dec}, []Value{&StrV{B: s.B[pos:]}}).(TupleV)
		sz := int(th.p.Concretize(res[1].(*Term), "utf8 size"))
		it.Pos += sz
		return TupleV{ctx.True(), ctx.Const(64, uint64(pos)), res[0]}
	}
	tup := i.Type().(*types.Tuple)
	for it.Pos < len(it.KIdx) {
		k := it.KIdx[it.Pos]
		it.Pos++
		if it.M.Dead[k] {
			continue
		}
		return TupleV{ctx.True(), it.M.Keys[k], it.M.Vals[k]}
	}
	var zk, zv Value
	if tup.At(1).Type() != nil && !isInvalid(tup.At(1).Type()) {
		zk = ctx.zero(tup.At(1).Type())
	}
	if tup.At(2).Type() != nil && !isInvalid(tup.At(2).Type()) {
		zv = ctx.zero(tup.At(2).Type())
	}
	return TupleV{ctx.False(), zk, zv}
}

func isInvalid(t types.Type) bool {
	b, ok := t.(*types.Basic)
	return ok && b.Kind() == types.Invalid
}

// ---- builtins ----

func (th *Thread) builtin(fr *Frame, name string, args []Value, call *ssa.CallCommon) Value {
	ctx := th.ctx()
	p := th.p
	switch name {
	case "builtin:len":
		switch a := args[0].(type) {
		case *StrV:
			return ctx.Const(64, uint64(len(a.B)))
		case *SliceV:
			return ctx.Const(64, uint64(a.Len))
		case *MapV:
			if a.M == nil {
				return ctx.Const(64, 0)
			}
			return ctx.Const(64, uint64(a.M.N))
		case *ChanV:
			if a.C == nil {
				return ctx.Const(64, 0)
			}
			return ctx.Const(64, uint64(len(a.C.Buf)))
		case *ArrV:
			return ctx.Const(64, uint64(len(a.E)))
		case *PtrV:
			return ctx.Const(64, uint64(th.arrayLenAt(fr, a)))
		}
	case "builtin:cap":
		switch a := args[0].(type) {
		case *SliceV:
			return ctx.Const(64, uint64(a.Cap))
		case *ChanV:
			if a.C == nil {
				return ctx.Const(64, 0)
			}
			return ctx.Const(64, uint64(a.C.Cap))
		case *ArrV:
			return ctx.Const(64, uint64(len(a.E)))
		case *PtrV:
			return ctx.Const(64, uint64(th.arrayLenAt(fr, a)))
		}
	case "builtin:append":
		s := args[0].(*SliceV)
		var add []Value
		switch t := args[1].(type) {
		case *SliceV:
			if t.O != nil {
				arr := t.O.V.(*ArrV)
				for k := 0; k < t.Len; k++ {
					add = append(add, copyVal(arr.E[t.Off+k]))
				}
			}
		case *StrV:
			for _, b := range t.B {
				add = append(add, b)
			}
		default:
			panic(engineErr("append of %T", args[1]))
		}
		if len(add) == 0 {
			return s
		}
		if s.O != nil && s.Len+len(add) <= s.Cap {
			arr := s.O.V.(*ArrV)
			for k, v := range add {
				arr.E[s.Off+s.Len+k] = v
			}
			return &SliceV{O: s.O, Off: s.Off, Len: s.Len + len(add), Cap: s.Cap}
		}
		// grow: Go's growth formula is unspecified; model: double, at least needed
		nl := s.Len + len(add)
		nc := s.Cap * 2
		if nc < nl {
			nc = nl
		}
		et := call.Args[0].Type().Underlying().(*types.Slice).Elem()
		narr := &ArrV{E: make([]Value, nc)}
		var old *ArrV
		if s.O != nil {
			old = s.O.V.(*ArrV)
		}
		for k := 0; k < s.Len; k++ {
			narr.E[k] = copyVal(old.E[s.Off+k])
		}
		for k, v := range add {
			narr.E[s.Len+k] = v
		}
		if nc > nl {
			z := ctx.zero(et)
			for k := nl; k < nc; k++ {
				narr.E[k] = copyVal(z)
			}
		}
		return &SliceV{O: p.newObj(narr, "append"), Len: nl, Cap: nc}
	case "builtin:copy":
		d := args[0].(*SliceV)
		var src []Value
		switch t := args[1].(type) {
		case *SliceV:
			if t.O != nil {
				arr := t.O.V.(*ArrV)
				for k := 0; k < t.Len; k++ {
					src = append(src, copyVal(arr.E[t.Off+k]))
				}
			}
		case *StrV:
			for _, b := range t.B {
				src = append(src, b)
			}
		}
		n := len(src)
		if d.Len < n {
			n = d.Len
		}
		if n > 0 {
			arr := d.O.V.(*ArrV)
			for k := 0; k < n; k++ {
				arr.E[d.Off+k] = src[k]
			}
		}
		return ctx.Const(64, uint64(n))
	case "builtin:delete":
		th.mapDelete(fr, args[0], args[1])
		return nil
	case "builtin:clear":
		switch a := args[0].(type) {
		case *MapV:
			if a.M != nil {
				for k := range a.M.Dead {
					a.M.Dead[k] = true
				}
				a.M.N = 0
			}
		case *SliceV:
			if a.O != nil {
				et := call.Args[0].Type().Underlying().(*types.Slice).Elem()
				arr := a.O.V.(*ArrV)
				for k := 0; k < a.Len; k++ {
					arr.E[a.Off+k] = ctx.zero(et)
				}
			}
		}
		return nil
	case "builtin:close":
		th.chanClose(fr, args[0])
		return nil
	case "builtin:recover":
		if th.activePanic != nil {
			gp := th.activePanic
			th.activePanic = nil
			if gp.Val == nil {
				return &IfaceV{}
			}
			if iv, ok := gp.Val.(*IfaceV); ok {
				return iv
			}
			return &IfaceV{}
		}
		return &IfaceV{}
	case "builtin:print", "builtin:println":
		return nil
	case "builtin:min", "builtin:max":
		t0 := call.Args[0].Type()
		acc := args[0]
		for _, a := range args[1:] {
			var less *Term
			if name == "builtin:min" {
				less = th.binop(fr, token.LSS, a, acc, t0, t0).(*Term)
			} else {
				less = th.binop(fr, token.GTR, a, acc, t0, t0).(*Term)
			}
			m, ok := mergeVal(ctx, less, a, acc)
			if !ok {
				if th.branchAt(fr, "minmax", less) {
					m = a
				} else {
					m = acc
				}
			}
			acc = m
		}
		return acc
	case "builtin:ssa:wrapnilchk":
		if pv, ok := args[0].(*PtrV); ok && pv.IsNil() {
			th.goPanic("value method called using nil pointer")
		}
		return args[0]
	case "builtin:String": // unsafe.String(ptr, len)
		pv := args[0].(*PtrV)
		n := int(p.Concretize(th.asTerm(fr, args[1]), "unsafe.String len"))
		if n == 0 {
			return &StrV{}
		}
		arr, off := th.ptrToElems(fr, pv)
		r := &StrV{B: make([]*Term, n)}
		for k := 0; k < n; k++ {
			r.B[k] = arr.E[off+k].(*Term)
		}
		return r
	case "builtin:SliceData":
		s := args[0].(*SliceV)
		if s.O == nil {
			return nilPtr
		}
		return &PtrV{O: s.O, Path: []PathElem{{Field: -1, I: s.Off}}}
	case "builtin:StringData":
		s := args[0].(*StrV)
		arr := &ArrV{E: make([]Value, len(s.B))}
		for k, b := range s.B {
			arr.E[k] = b
		}
		if len(s.B) == 0 {
			return nilPtr
		}
		return &PtrV{O: p.newObj(arr, "StringData"), Path: []PathElem{{Field: -1, I: 0}}}
	case "builtin:Slice": // unsafe.Slice(ptr, len)
		pv := args[0].(*PtrV)
		n := int(p.Concretize(th.asTerm(fr, args[1]), "unsafe.Slice len"))
		if pv.IsNil() {
			return &SliceV{}
		}
		arr, off := th.ptrToElems(fr, pv)
		return &SliceV{O: p.aliasObj(arr), Off: off, Len: n, Cap: len(arr.E) - off}
	}
	panic(engineErr("unsupported builtin %s (%T) at %s", name, firstArg(args), th.posStr(fr)))
}

func firstArg(a []Value) Value {
	if len(a) > 0 {
		return a[0]
	}
	return nil
}

// ptrToElems resolves a pointer to an array element into (array, index).
func (th *Thread) ptrToElems(fr *Frame, pv *PtrV) (*ArrV, int) {
	if len(pv.Path) == 0 {
		if a, ok := pv.O.V.(*ArrV); ok {
			return a, 0
		}
		panic(engineErr("pointer is not into an array"))
	}
	last := pv.Path[len(pv.Path)-1]
	parent := &PtrV{O: pv.O, Path: pv.Path[:len(pv.Path)-1]}
	v := th.load(fr, parent)
	off := last.I
	if last.Sym != nil {
		off = int(th.p.Concretize(last.Sym, "pointer element index"))
	}
	switch a := v.(type) {
	case *ArrV:
		if last.Field == -2 {
			return a, off
		}
		return a, off
	case *arrView:
		return a.A, a.Off + off
	}
	panic(engineErr("pointer is not into an array (%T)", v))
}

var _ = math.MaxInt64

package main

import (
	"strings"
	"sync"

	"golang.org/x/tools/go/ssa"
)

// initTouched returns the globals of pkg that the package initialiser (including init#N functions
// and same-package functions it calls, to depth 4) references. Globals it never references keep
// their zero value even when the initialiser cannot be executed by the engine.
var initTouchedCache sync.Map

func initTouched(pkg *ssa.Package) map[*ssa.Global]bool {
	if v, ok := initTouchedCache.Load(pkg); ok {
		return v.(map[*ssa.Global]bool)
	}
	res := map[*ssa.Global]bool{}
	seen := map[*ssa.Function]bool{}
	var visit func(f *ssa.Function, depth int)
	visit = func(f *ssa.Function, depth int) {
		if f == nil || seen[f] || depth > 4 {
			return
		}
		seen[f] = true
		for _, b := range f.Blocks {
			for _, ins := range b.Instrs {
				for _, op := range ins.Operands(nil) {
					if op == nil || *op == nil {
						continue
					}
					switch x := (*op).(type) {
					case *ssa.Global:
						if x.Pkg == pkg {
							res[x] = true
						}
					case *ssa.Function:
						if x.Pkg == pkg || (x.Parent() != nil) {
							visit(x, depth+1)
						}
					}
				}
				if mc, ok := ins.(*ssa.MakeClosure); ok {
					if fn, ok := mc.Fn.(*ssa.Function); ok {
						visit(fn, depth+1)
					}
				}
			}
		}
		for _, af := range f.AnonFuncs {
			visit(af, depth+1)
		}
	}
	visit(pkg.Func("init"), 0)
	for name, m := range pkg.Members {
		if strings.HasPrefix(name, "init#") {
			if f, ok := m.(*ssa.Function); ok {
				visit(f, 0)
			}
		}
	}
	initTouchedCache.Store(pkg, res)
	return res
}

package main

// sync.Map as an association list in the sync side table (the runtime implementation is a hash trie
// built on internal/abi type descriptors and atomics, which the engine does not execute). Every
// method is one atomic step at a scheduling point, which is what sync.Map guarantees per call.

import (
	"go/types"

	"golang.org/x/tools/go/ssa"
)

func init() {
	mapOf := func(th *Thread, v Value) (*syncObj, *MapObj) {
		s := th.syncState(nil, v)
		if s.m == nil {
			s.m = &MapObj{}
		}
		th.opKeys = []interface{}{s}
		th.yield(nil)
		return s, s.m
	}
	curFrame := func(th *Thread) *Frame {
		if len(th.frames) == 0 {
			return nil
		}
		return th.frames[len(th.frames)-1]
	}
	nilIface := func() Value { return &IfaceV{} }
	find := func(th *Thread, m *MapObj, key Value) int { return th.mapFind(curFrame(th), m, key) }
	put := func(m *MapObj, key, val Value) {
		m.Keys = append(m.Keys, key)
		m.Vals = append(m.Vals, val)
		m.Dead = append(m.Dead, false)
		m.N++
	}
	intrinsics["(*sync.Map).Load"] = func(th *Thread, fn *ssa.Function, args []Value) Value {
		_, m := mapOf(th, args[0])
		if k := find(th, m, args[1]); k >= 0 {
			return TupleV{m.Vals[k], th.ctx().True()}
		}
		return TupleV{nilIface(), th.ctx().False()}
	}
	intrinsics["(*sync.Map).Store"] = func(th *Thread, fn *ssa.Function, args []Value) Value {
		_, m := mapOf(th, args[0])
		if k := find(th, m, args[1]); k >= 0 {
			m.Vals[k] = args[2]
			return nil
		}
		put(m, args[1], args[2])
		return nil
	}
	intrinsics["(*sync.Map).LoadOrStore"] = func(th *Thread, fn *ssa.Function, args []Value) Value {
		_, m := mapOf(th, args[0])
		if k := find(th, m, args[1]); k >= 0 {
			return TupleV{m.Vals[k], th.ctx().True()}
		}
		put(m, args[1], args[2])
		return TupleV{args[2], th.ctx().False()}
	}
	intrinsics["(*sync.Map).LoadAndDelete"] = func(th *Thread, fn *ssa.Function, args []Value) Value {
		_, m := mapOf(th, args[0])
		if k := find(th, m, args[1]); k >= 0 {
			v := m.Vals[k]
			m.Dead[k] = true
			m.N--
			return TupleV{v, th.ctx().True()}
		}
		return TupleV{nilIface(), th.ctx().False()}
	}
	intrinsics["(*sync.Map).Delete"] = func(th *Thread, fn *ssa.Function, args []Value) Value {
		_, m := mapOf(th, args[0])
		if k := find(th, m, args[1]); k >= 0 {
			m.Dead[k] = true
			m.N--
		}
		return nil
	}
	intrinsics["(*sync.Map).Swap"] = func(th *Thread, fn *ssa.Function, args []Value) Value {
		_, m := mapOf(th, args[0])
		if k := find(th, m, args[1]); k >= 0 {
			old := m.Vals[k]
			m.Vals[k] = args[2]
			return TupleV{old, th.ctx().True()}
		}
		put(m, args[1], args[2])
		return TupleV{nilIface(), th.ctx().False()}
	}
	intrinsics["(*sync.Map).Clear"] = func(th *Thread, fn *ssa.Function, args []Value) Value {
		s, _ := mapOf(th, args[0])
		s.m = &MapObj{}
		return nil
	}
	intrinsics["(*sync.Map).Range"] = func(th *Thread, fn *ssa.Function, args []Value) Value {
		_, m := mapOf(th, args[0])
		f := args[1].(*FuncV)
		// snapshot of the live entries (Range does not promise more)
		var ks, vs []Value
		for k := range m.Keys {
			if !m.Dead[k] {
				ks = append(ks, m.Keys[k])
				vs = append(vs, m.Vals[k])
			}
		}
		for i := range ks {
			r := th.callFunction(f, []Value{ks[i], vs[i]})
			b, ok := r.(*Term)
			if !ok {
				panic(engineErr("sync.Map.Range callback returned %T", r))
			}
			if b.IsFalse() {
				break
			}
			if !b.IsTrue() && !th.branchAt(curFrame(th), "syncmap-range", b) {
				break
			}
		}
		return nil
	}
	_ = types.Typ
}

package main

// Intrinsics added for the C05/C06/C07 harness batch.

import (
	"go/types"

	"golang.org/x/tools/go/ssa"
)

// binaryFixedSize mirrors encoding/binary.dataSize/sizeof for fixed-size types
// (the real implementation uses reflection). -1 = not a fixed-size type.
func binaryFixedSize(t types.Type) int {
	switch u := t.Underlying().(type) {
	case *types.Basic:
		switch u.Kind() {
		case types.Bool, types.Int8, types.Uint8:
			return 1
		case types.Int16, types.Uint16:
			return 2
		case types.Int32, types.Uint32, types.Float32:
			return 4
		case types.Int64, types.Uint64, types.Float64, types.Complex64:
			return 8
		case types.Complex128:
			return 16
		}
		return -1
	case *types.Array:
		e := binaryFixedSize(u.Elem())
		if e < 0 {
			return -1
		}
		return int(u.Len()) * e
	case *types.Struct:
		sum := 0
		for i := 0; i < u.NumFields(); i++ {
			s := binaryFixedSize(u.Field(i).Type())
			if s < 0 {
				return -1
			}
			sum += s
		}
		return sum
	}
	return -1
}

func init() {
	// encoding/binary.Size(v any) int
	intrinsics["encoding/binary.Size"] = func(th *Thread, fn *ssa.Function, args []Value) Value {
		iv, ok := args[0].(*IfaceV)
		if !ok || iv == nil || iv.T == nil {
			return th.ctx().Const(64, ^uint64(0))
		}
		t := iv.T
		if p, isPtr := t.Underlying().(*types.Pointer); isPtr {
			t = p.Elem()
		}
		if sl, isSl := t.Underlying().(*types.Slice); isSl {
			e := binaryFixedSize(sl.Elem())
			sv, isSV := iv.V.(*SliceV)
			if e < 0 || !isSV {
				return th.ctx().Const(64, ^uint64(0))
			}
			return th.ctx().Const(64, uint64(e*sv.Len))
		}
		n := binaryFixedSize(t)
		if n < 0 {
			return th.ctx().Const(64, ^uint64(0))
		}
		return th.ctx().Const(64, uint64(n))
	}
}

package main

// hash/maphash model. The real implementation calls the runtime's memhash (assembly).
// Sum64 is an uninterpreted function of the written bytes (so any collision pattern is
// possible), or — with Param "maphash_const" != 0 — the constant 0, which is one legal hash
// function (everything collides) and avoids forking on bucket indices where the hash table is
// not the subject of the check.

import (
	"fmt"

	"golang.org/x/tools/go/ssa"
)

func (th *Thread) maphashSum(bs []*Term) *Term {
	ctx := th.ctx()
	if th.p.eng.cfg.Params["maphash_const"] != 0 {
		return ctx.Const(64, 0)
	}
	if len(bs) == 0 {
		return ctx.Const(64, 0x9e3779b97f4a7c15)
	}
	return ctx.UF(fmt.Sprintf("maphash_%d", len(bs)), 64, bs...)
}

func init() {
	seed := func(th *Thread) Value { return &StructV{F: []Value{th.ctx().Const(64, 1)}} }
	intrinsics["hash/maphash.MakeSeed"] = func(th *Thread, fn *ssa.Function, args []Value) Value { return seed(th) }
	intrinsics["(*hash/maphash.Hash).Seed"] = func(th *Thread, fn *ssa.Function, args []Value) Value { return seed(th) }
	intrinsics["(*hash/maphash.Hash).SetSeed"] = func(th *Thread, fn *ssa.Function, args []Value) Value {
		th.syncState(nil, args[0]).hbytes = nil
		return nil
	}
	intrinsics["(*hash/maphash.Hash).Reset"] = func(th *Thread, fn *ssa.Function, args []Value) Value {
		th.syncState(nil, args[0]).hbytes = nil
		return nil
	}
	intrinsics["(*hash/maphash.Hash).Write"] = func(th *Thread, fn *ssa.Function, args []Value) Value {
		s := th.syncState(nil, args[0])
		b := sliceTerms(args[1].(*SliceV))
		s.hbytes = append(s.hbytes, b...)
		return TupleV{th.ctx().Const(64, uint64(len(b))), &IfaceV{}}
	}
	intrinsics["(*hash/maphash.Hash).WriteString"] = func(th *Thread, fn *ssa.Function, args []Value) Value {
		s := th.syncState(nil, args[0])
		b := args[1].(*StrV).B
		s.hbytes = append(s.hbytes, b...)
		return TupleV{th.ctx().Const(64, uint64(len(b))), &IfaceV{}}
	}
	intrinsics["(*hash/maphash.Hash).WriteByte"] = func(th *Thread, fn *ssa.Function, args []Value) Value {
		s := th.syncState(nil, args[0])
		s.hbytes = append(s.hbytes, th.asTerm(nil, args[1]))
		return &IfaceV{}
	}
	intrinsics["(*hash/maphash.Hash).Sum64"] = func(th *Thread, fn *ssa.Function, args []Value) Value {
		return th.maphashSum(th.syncState(nil, args[0]).hbytes)
	}
	intrinsics["hash/maphash.Bytes"] = func(th *Thread, fn *ssa.Function, args []Value) Value {
		return th.maphashSum(sliceTerms(args[1].(*SliceV)))
	}
	intrinsics["hash/maphash.String"] = func(th *Thread, fn *ssa.Function, args []Value) Value {
		return th.maphashSum(args[1].(*StrV).B)
	}
}

package main

// A small model of package reflect, enough for code that walks the fields of a struct behind a pointer,
// reads field names/tags/types and assigns to fields (restic's options.Apply). A reflect.Value is the
// real three-word struct whose first word points to an engine-side box holding the go/types type and
// whose second word is the engine pointer to the value; a reflect.Type is an interface holding
// *reflect.rtype pointing to the same kind of box. Anything else in reflect is still unmodelled and
// ends in an engine error (inconclusive), never in a wrong verdict.

import (
	"go/types"

	"golang.org/x/tools/go/ssa"
)

type typeBox struct{ T types.Type }

func init() {
	reflPkg := func(th *Thread) *ssa.Package {
		p := th.p.eng.prog.ImportedPackage("reflect")
		if p == nil {
			panic(engineErr("package reflect is not loaded"))
		}
		return p
	}
	boxOf := func(th *Thread, v Value, what string) *typeBox {
		pv, ok := v.(*PtrV)
		if !ok || pv.IsNil() {
			panic(engineErr("reflect: %s without type information (%T)", what, v))
		}
		b, ok := pv.O.V.(*typeBox)
		if !ok {
			panic(engineErr("reflect: %s is not an engine type box (%T)", what, pv.O.V))
		}
		return b
	}
	boxPtr := func(th *Thread, T types.Type) *PtrV {
		return &PtrV{O: th.p.newObj(&typeBox{T}, "reflect.type:"+T.String())}
	}
	mkType := func(th *Thread, T types.Type) Value {
		rt := reflPkg(th).Type("rtype")
		if rt == nil {
			panic(engineErr("reflect.rtype not found"))
		}
		return &IfaceV{T: types.NewPointer(rt.Type()), V: boxPtr(th, T)}
	}
	valueType := func(th *Thread) types.Type { return reflPkg(th).Type("Value").Type() }
	mkValue := func(th *Thread, T types.Type, ptr *PtrV) Value {
		sv := th.ctx().zero(valueType(th)).(*StructV)
		sv.F[0] = boxPtr(th, T)
		sv.F[1] = ptr
		return sv
	}
	parts := func(th *Thread, v Value) (types.Type, *PtrV) {
		sv, ok := v.(*StructV)
		if !ok || len(sv.F) < 2 {
			panic(engineErr("reflect.Value of unexpected shape %T", v))
		}
		if pv, ok := sv.F[0].(*PtrV); !ok || pv.IsNil() {
			panic(engineErr("reflect: zero Value used"))
		}
		p, _ := sv.F[1].(*PtrV)
		return boxOf(th, sv.F[0], "Value").T, p
	}
	structOf := func(T types.Type) *types.Struct {
		st, ok := T.Underlying().(*types.Struct)
		if !ok {
			panic(engineErr("reflect: %s is not a struct", T))
		}
		return st
	}
	typeName := func(T types.Type) string {
		switch t := T.(type) {
		case *types.Named:
			return t.Obj().Name()
		case *types.Basic:
			return t.Name()
		case *types.Alias:
			return t.Obj().Name()
		}
		return ""
	}

	intrinsics["reflect.ValueOf"] = func(th *Thread, fn *ssa.Function, args []Value) Value {
		iv, ok := args[0].(*IfaceV)
		if !ok || iv.T == nil {
			return th.ctx().zero(valueType(th))
		}
		holder := th.p.newObj(copyVal(iv.V), "reflect.ValueOf")
		return mkValue(th, iv.T, &PtrV{O: holder})
	}
	intrinsics["(reflect.Value).Elem"] = func(th *Thread, fn *ssa.Function, args []Value) Value {
		T, p := parts(th, args[0])
		pt, ok := T.Underlying().(*types.Pointer)
		if !ok {
			panic(engineErr("reflect.Value.Elem on %s (only pointers are modelled)", T))
		}
		target, ok := th.load(nil, p).(*PtrV)
		if !ok || target.IsNil() {
			th.goPanic("reflect: call of reflect.Value.Elem on nil pointer")
		}
		return mkValue(th, pt.Elem(), target)
	}
	intrinsics["(reflect.Value).NumField"] = func(th *Thread, fn *ssa.Function, args []Value) Value {
		T, _ := parts(th, args[0])
		return th.ctx().Const(64, uint64(structOf(T).NumFields()))
	}
	intrinsics["(reflect.Value).Type"] = func(th *Thread, fn *ssa.Function, args []Value) Value {
		T, _ := parts(th, args[0])
		return mkType(th, T)
	}
	intrinsics["(reflect.Value).Field"] = func(th *Thread, fn *ssa.Function, args []Value) Value {
		T, p := parts(th, args[0])
		i := th.argInt(args[1], "reflect field index")
		st := structOf(T)
		if i < 0 || i >= st.NumFields() {
			th.goPanic("reflect: Field index out of range")
		}
		path := append(append([]PathElem(nil), p.Path...), PathElem{Field: i})
		return mkValue(th, st.Field(i).Type(), &PtrV{O: p.O, Path: path})
	}
	set := func(kind string) func(th *Thread, fn *ssa.Function, args []Value) Value {
		return func(th *Thread, fn *ssa.Function, args []Value) Value {
			T, p := parts(th, args[0])
			switch kind {
			case "string":
				if !isString(T) {
					th.goPanic("reflect: call of reflect.Value.SetString on " + T.String() + " Value")
				}
			case "bool":
				if b, ok := T.Underlying().(*types.Basic); !ok || b.Info()&types.IsBoolean == 0 {
					th.goPanic("reflect: call of reflect.Value.SetBool on " + T.String() + " Value")
				}
			case "int":
				if !isInteger(T) || !isSigned(T) {
					th.goPanic("reflect: call of reflect.Value.SetInt on " + T.String() + " Value")
				}
			case "uint":
				if !isInteger(T) || isSigned(T) {
					th.goPanic("reflect: call of reflect.Value.SetUint on " + T.String() + " Value")
				}
			}
			val := args[1]
			if kind == "int" || kind == "uint" {
				w := bvWidth(T)
				t := val.(*Term)
				if w != 64 {
					val = th.ctx().Extract(t, w-1, 0) // like reflect: the value is truncated to the field's width
				}
			}
			th.store(nil, p, val)
			return nil
		}
	}
	intrinsics["(reflect.Value).SetString"] = set("string")
	intrinsics["(reflect.Value).SetBool"] = set("bool")
	intrinsics["(reflect.Value).SetInt"] = set("int")
	intrinsics["(reflect.Value).SetUint"] = set("uint")

	intrinsics["(*reflect.rtype).Name"] = func(th *Thread, fn *ssa.Function, args []Value) Value {
		return strConst(th.ctx(), typeName(boxOf(th, args[0], "Type").T))
	}
	intrinsics["(*reflect.rtype).String"] = func(th *Thread, fn *ssa.Function, args []Value) Value {
		return strConst(th.ctx(), boxOf(th, args[0], "Type").T.String())
	}
	intrinsics["(*reflect.rtype).NumField"] = func(th *Thread, fn *ssa.Function, args []Value) Value {
		return th.ctx().Const(64, uint64(structOf(boxOf(th, args[0], "Type").T).NumFields()))
	}
	intrinsics["(*reflect.rtype).Field"] = func(th *Thread, fn *ssa.Function, args []Value) Value {
		st := structOf(boxOf(th, args[0], "Type").T)
		i := th.argInt(args[1], "reflect field index")
		if i < 0 || i >= st.NumFields() {
			th.goPanic("reflect: Field index out of bounds")
		}
		sfT := reflPkg(th).Type("StructField").Type()
		sf := th.ctx().zero(sfT).(*StructV)
		sst := sfT.Underlying().(*types.Struct)
		f := st.Field(i)
		for k := 0; k < sst.NumFields(); k++ {
			switch sst.Field(k).Name() {
			case "Name":
				sf.F[k] = strConst(th.ctx(), f.Name())
			case "PkgPath":
				if !f.Exported() && f.Pkg() != nil {
					sf.F[k] = strConst(th.ctx(), f.Pkg().Path())
				}
			case "Type":
				sf.F[k] = mkType(th, f.Type())
			case "Tag":
				sf.F[k] = strConst(th.ctx(), st.Tag(i))
			case "Index":
				arr := &ArrV{E: []Value{th.ctx().Const(64, uint64(i))}}
				sf.F[k] = &SliceV{O: th.p.newObj(arr, "reflect.StructField.Index"), Off: 0, Len: 1, Cap: 1}
			case "Anonymous":
				sf.F[k] = th.ctx().Bool(f.Embedded())
			}
		}
		return sf
	}
}

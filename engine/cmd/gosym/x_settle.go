package main

import "golang.org/x/tools/go/ssa"

// verifrt.Settle: the calling thread blocks until no other thread is runnable.
func init() {
	intrinsics[rt("Settle")] = func(th *Thread, fn *ssa.Function, args []Value) Value {
		p := th.p
		th.yield(func() bool {
			for _, t := range p.threads {
				if t != th && t.enabled() {
					return false
				}
			}
			return true
		})
		return nil
	}
}

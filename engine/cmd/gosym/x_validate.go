package main

import (
	"encoding/json"
	"fmt"
	"os"
	"path/filepath"
	"strings"
)

type sampleRec struct {
	model     map[string]uint64
	decisions []Decision
}

// validateSamples replays the sample models of completed paths against the natively compiled
// harness (go test -overlay on the repository's working tree). A path the engine completed without a
// violation must also complete natively: an assertion failure, a panic or an Assume that does not
// hold for the model means that the encoding and the real code disagree.
func validateSamples(verifDir, repo, id string, cc *CheckCfg, hc *HarnessCfg, tier string, e *Engine) (int, []string) {
	pkgPath := hc.Package
	if pkgPath == "" {
		pkgPath = cc.Packages[0]
	}
	ok := 0
	var bad []string
	for i, sr := range e.sampleRecs {
		rdir, err := os.MkdirTemp("", "verif-validate")
		if err != nil {
			break
		}
		rf := &ReplayFile{Property: id, Harness: hc.Func, Package: pkgPath, Tier: tier, Kind: "none", Vars: sr.model,
			Params: e.cfg.Params, Decisions: sr.decisions, Native: true, Unwind: e.cfg.Unwind, Preempt: e.cfg.Preemptions, Solver: e.cfg.Solver}
		b, _ := json.MarshalIndent(rf, "", " ")
		os.WriteFile(filepath.Join(rdir, "model.json"), b, 0o644)
		_, l2 := replayL2(verifDir, repo, cc, rf, rdir)
		switch {
		case l2 == "native run completed without failure":
			ok++
		case strings.HasPrefix(l2, "native run inconclusive"):
			// the native harness could not run (build problem, timeout): not counted, not an alarm
			fmt.Fprintf(os.Stderr, "validate %s sample %d: %s\n", hc.Func, i, l2)
		default:
			bad = append(bad, fmt.Sprintf("ENCODING-MISMATCH: a completed path's model does not complete natively (sample %d: %s; inputs %s)", i, l2, modelString(sr.model)))
		}
		os.RemoveAll(rdir)
	}
	return ok, bad
}

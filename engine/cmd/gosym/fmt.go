package main

import (
	"fmt"
	"go/types"
	"strings"
)

// formatV implements fmt.Sprintf over engine values. Concrete operands are formatted by Go's
// fmt; symbolic integers (%d, %v) go through the real strconv.FormatInt/FormatUint SSA, symbolic
// strings (%s, %v) are spliced in, %q of a symbolic string goes through strconv.Quote.
// Anything else symbolic becomes the placeholder "<sym>" (messages are not the subject).
func (th *Thread) formatV(format string, argv []Value) (*StrV, []*IfaceV) {
	ctx := th.ctx()
	var wrapped []*IfaceV
	out := &StrV{}
	lit := func(s string) {
		out.B = append(out.B, strConst(ctx, s).B...)
	}
	ai := 0
	i := 0
	for i < len(format) {
		if format[i] != '%' {
			j := strings.IndexByte(format[i:], '%')
			if j < 0 {
				lit(format[i:])
				break
			}
			lit(format[i : i+j])
			i += j
			continue
		}
		j := i + 1
		for j < len(format) && strings.ContainsRune("+-# 0123456789.", rune(format[j])) {
			j++
		}
		if j >= len(format) {
			lit(format[i:])
			break
		}
		verb := format[j]
		spec := format[i : j+1]
		flags := format[i+1 : j]
		i = j + 1
		if verb == '%' {
			lit("%")
			continue
		}
		if verb == '[' || verb == '*' {
			lit("<fmt>")
			continue
		}
		if ai >= len(argv) {
			lit("%!" + string(verb) + "(MISSING)")
			continue
		}
		arg := argv[ai]
		ai++
		iv, _ := arg.(*IfaceV)
		if verb == 'w' {
			if iv != nil && iv.T != nil {
				wrapped = append(wrapped, iv)
			}
			verb = 'v'
			spec = "%" + flags + "v"
		}
		if iv == nil || iv.T == nil {
			lit(fmt.Sprintf(spec, nil))
			continue
		}
		// like fmt.handleMethods: Error()/String() are only consulted for verbs that are valid for strings
		var g interface{}
		var gok bool
		if strings.ContainsRune("vsxXq", rune(verb)) {
			g, gok = th.toGo(iv, nil, 0)
		} else {
			g, gok = th.toGo(iv.V, iv.T, 1)
		}
		if gok {
			lit(fmt.Sprintf(spec, g))
			continue
		}
		// symbolic operand
		switch v := iv.V.(type) {
		case *Term:
			if (verb == 'd' || verb == 'v') && flags == "" && v.W > 0 {
				var r Value
				if isSigned(iv.T) {
					f := th.p.eng.resolveFunc("strconv.FormatInt")
					r = th.callFunction(&FuncV{Fn: f}, []Value{ctx.SExt(v, 64), ctx.Const(64, 10)})
				} else {
					f := th.p.eng.resolveFunc("strconv.FormatUint")
					r = th.callFunction(&FuncV{Fn: f}, []Value{ctx.ZExt(v, 64), ctx.Const(64, 10)})
				}
				out.B = append(out.B, r.(*StrV).B...)
				continue
			}
			if verb == 'c' && v.W > 0 {
				// single byte characters only
				if th.p.Branch(ctx.Ult(ctx.ZExt(v, 64), ctx.Const(64, 0x80))) {
					out.B = append(out.B, ctx.Extract(ctx.ZExt(v, 64), 7, 0))
					continue
				}
			}
		case *StrV:
			if (verb == 's' || verb == 'v') && flags == "" {
				out.B = append(out.B, v.B...)
				continue
			}
			if verb == 'q' && flags == "" {
				f := th.p.eng.resolveFunc("strconv.Quote")
				r := th.callFunction(&FuncV{Fn: f}, []Value{v})
				out.B = append(out.B, r.(*StrV).B...)
				continue
			}
		}
		// error / Stringer with symbolic text
		if verb == 's' || verb == 'v' {
			done := false
			for _, mname := range []string{"Error", "String"} {
				if m := th.p.eng.lookupMethodByName(iv.T, mname); m != nil && m.Signature.Params().Len() == 0 && m.Signature.Results().Len() == 1 && isString(m.Signature.Results().At(0).Type()) {
					if s, ok := th.callFunction(&FuncV{Fn: m}, []Value{iv.V}).(*StrV); ok {
						out.B = append(out.B, s.B...)
						done = true
						break
					}
				}
			}
			if done {
				continue
			}
		}
		lit("<sym>")
	}
	return out, wrapped
}

var _ = types.Typ

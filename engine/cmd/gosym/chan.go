package main

// Channels with Go's rendezvous semantics. A thread that cannot complete a channel operation
// registers a waiter on the channel(s); the thread that later performs the matching operation
// completes both sides at once (it hands the value to / takes the value from the waiter and marks
// which case fired), exactly like the runtime's sudog queues. Select is a waiter with several cases.

import (
	"go/types"

	"golang.org/x/tools/go/ssa"
)

type waitCase struct {
	c    *ChanObj
	send bool
	val  Value
	idx  int
}

type waiter struct {
	th      *Thread
	cases   []waitCase
	fired   int // index into cases, -1 while waiting
	recvVal Value
	recvOK  bool
	closedP bool // fired because a channel it wanted to send on was closed
}

func (th *Thread) chanOf(fr *Frame, v Value) *ChanObj {
	cv, ok := v.(*ChanV)
	if !ok {
		panic(engineErr("channel op on %T at %s", v, th.posStr(fr)))
	}
	return cv.C
}

func removeWaiter(q []*waiter, w *waiter) []*waiter {
	for i, x := range q {
		if x == w {
			return append(append([]*waiter(nil), q[:i]...), q[i+1:]...)
		}
	}
	return q
}

func (w *waiter) dequeue() {
	for _, c := range w.cases {
		if c.c == nil {
			continue
		}
		if c.send {
			c.c.sendq = removeWaiter(c.c.sendq, w)
		} else {
			c.c.recvq = removeWaiter(c.c.recvq, w)
		}
	}
}

func (w *waiter) caseFor(c *ChanObj, send bool) int {
	for i, wc := range w.cases {
		if wc.c == c && wc.send == send {
			return i
		}
	}
	return -1
}

// tryRecv completes a receive on c if possible right now.
func tryRecv(c *ChanObj) (v Value, ok bool, done bool) {
	if len(c.Buf) > 0 {
		v = c.Buf[0]
		c.Buf = c.Buf[1:]
		// a sender blocked on the full buffer can now proceed
		if len(c.sendq) > 0 {
			w := c.sendq[0]
			i := w.caseFor(c, true)
			c.Buf = append(c.Buf, w.cases[i].val)
			w.fired = i
			w.dequeue()
		}
		return v, true, true
	}
	if len(c.sendq) > 0 {
		w := c.sendq[0]
		i := w.caseFor(c, true)
		v = w.cases[i].val
		w.fired = i
		w.dequeue()
		return v, true, true
	}
	if c.Closed {
		return nil, false, true
	}
	return nil, false, false
}

// trySend completes a send on c if possible right now (caller checked !Closed).
func trySend(c *ChanObj, val Value) bool {
	if len(c.recvq) > 0 {
		w := c.recvq[0]
		i := w.caseFor(c, false)
		w.recvVal, w.recvOK = val, true
		w.fired = i
		w.dequeue()
		return true
	}
	if len(c.Buf) < c.Cap {
		c.Buf = append(c.Buf, val)
		return true
	}
	return false
}

func (th *Thread) block(cases []waitCase) *waiter {
	w := &waiter{th: th, cases: cases, fired: -1}
	keys := make([]interface{}, 0, len(cases))
	for _, c := range cases {
		if c.c == nil {
			continue
		}
		keys = append(keys, c.c)
		if c.send {
			c.c.sendq = append(c.c.sendq, w)
		} else {
			c.c.recvq = append(c.c.recvq, w)
		}
	}
	th.opKeys = keys
	th.yield(func() bool { return w.fired >= 0 })
	return w
}

func (th *Thread) chanSend(fr *Frame, chv Value, val Value) {
	c := th.chanOf(fr, chv)
	if c == nil {
		th.yield(func() bool { return false })
		return
	}
	th.opKeys = []interface{}{c}
	th.yield(nil)
	if c.Closed {
		th.goPanic("send on closed channel")
	}
	if trySend(c, val) {
		return
	}
	w := th.block([]waitCase{{c: c, send: true, val: val}})
	if w.closedP {
		th.goPanic("send on closed channel")
	}
}

func (th *Thread) chanRecv(fr *Frame, chv Value, commaOk bool, resT types.Type) Value {
	ctx := th.ctx()
	c := th.chanOf(fr, chv)
	if c == nil {
		th.yield(func() bool { return false })
		return nil
	}
	var et types.Type
	if commaOk {
		et = resT.(*types.Tuple).At(0).Type()
	} else {
		et = resT
	}
	th.opKeys = []interface{}{c}
	th.yield(nil)
	v, ok, done := tryRecv(c)
	if !done {
		w := th.block([]waitCase{{c: c}})
		v, ok = w.recvVal, w.recvOK
	}
	if !ok {
		v = ctx.zero(et)
	}
	if commaOk {
		return TupleV{v, ctx.Bool(ok)}
	}
	return v
}

func (th *Thread) chanClose(fr *Frame, chv Value) {
	c := th.chanOf(fr, chv)
	if c == nil {
		th.goPanic("close of nil channel")
	}
	th.opKeys = []interface{}{c}
	th.yield(nil)
	if c.Closed {
		th.goPanic("close of closed channel")
	}
	c.Closed = true
	for len(c.recvq) > 0 {
		w := c.recvq[0]
		w.fired = w.caseFor(c, false)
		w.recvVal, w.recvOK = nil, false
		w.dequeue()
	}
	for len(c.sendq) > 0 {
		w := c.sendq[0]
		w.fired = w.caseFor(c, true)
		w.closedP = true
		w.dequeue()
	}
}

func (th *Thread) selectOp(fr *Frame, i *ssa.Select) Value {
	ctx := th.ctx()
	p := th.p
	cases := make([]waitCase, len(i.States))
	keys := make([]interface{}, 0, len(cases))
	for k, s := range i.States {
		cases[k] = waitCase{c: th.chanOf(fr, th.get(fr, s.Chan)), send: s.Dir == types.SendOnly, idx: k}
		if cases[k].send {
			cases[k].val = th.get(fr, s.Send)
		}
		if cases[k].c != nil {
			keys = append(keys, cases[k].c)
		}
	}
	th.opKeys = keys
	th.yield(nil)
	tup := i.Type().(*types.Tuple)
	res := make(TupleV, tup.Len())
	res[1] = ctx.False()
	ri := 2
	recvSlot := map[int]int{}
	for k, s := range i.States {
		if s.Dir == types.RecvOnly {
			res[ri] = ctx.zero(tup.At(ri).Type())
			recvSlot[k] = ri
			ri++
		}
	}
	// which cases can complete right now?
	var ready []int
	for k, c := range cases {
		if c.c == nil {
			continue
		}
		if c.send {
			if c.c.Closed || len(c.c.recvq) > 0 || len(c.c.Buf) < c.c.Cap {
				ready = append(ready, k)
			}
		} else if len(c.c.Buf) > 0 || len(c.c.sendq) > 0 || c.c.Closed {
			ready = append(ready, k)
		}
	}
	finishRecv := func(k int, v Value, ok bool) {
		if ok {
			res[recvSlot[k]] = v
		}
		res[1] = ctx.Bool(ok)
	}
	if len(ready) > 0 {
		k := ready[0]
		if len(ready) > 1 {
			k = ready[p.ChooseFree(len(ready))]
		}
		res[0] = ctx.Const(64, uint64(k))
		c := cases[k]
		if c.send {
			if c.c.Closed {
				th.goPanic("send on closed channel")
			}
			trySend(c.c, c.val)
			return res
		}
		v, ok, _ := tryRecv(c.c)
		finishRecv(k, v, ok)
		return res
	}
	if !i.Blocking {
		res[0] = ctx.Const(64, ^uint64(0)) // default
		return res
	}
	live := make([]waitCase, 0, len(cases))
	for _, c := range cases {
		if c.c != nil {
			live = append(live, c)
		}
	}
	if len(live) == 0 {
		th.yield(func() bool { return false }) // select {} or only nil channels: blocks forever
		return res
	}
	w := th.block(live)
	fc := w.cases[w.fired]
	res[0] = ctx.Const(64, uint64(fc.idx))
	if fc.send {
		if w.closedP {
			th.goPanic("send on closed channel")
		}
		return res
	}
	finishRecv(fc.idx, w.recvVal, w.recvOK)
	return res
}

package main

import (
	"golang.org/x/tools/go/ssa"
)

func init() {
	// os/user.Current: no user database in the model; callers treat an error as "unknown user"
	intrinsics["os/user.Current"] = func(th *Thread, fn *ssa.Function, args []Value) Value {
		return TupleV{nilPtr, th.newError("user: Current not available in the symbolic engine")}
	}
	intrinsics["os.Getuid"] = func(th *Thread, fn *ssa.Function, args []Value) Value { return th.ctx().Const(64, 1000) }
	intrinsics["os.Getgid"] = func(th *Thread, fn *ssa.Function, args []Value) Value { return th.ctx().Const(64, 1000) }
	intrinsics["os.Geteuid"] = func(th *Thread, fn *ssa.Function, args []Value) Value { return th.ctx().Const(64, 1000) }
}

func init() {
	nop := func(th *Thread, fn *ssa.Function, args []Value) Value { return nil }
	// signals are never delivered in the model
	intrinsics["os/signal.Notify"] = nop
	intrinsics["os/signal.Stop"] = nop
	intrinsics["os/signal.Ignore"] = nop
	intrinsics["os/signal.Reset"] = nop
}

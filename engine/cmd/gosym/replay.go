package main

import (
	"encoding/json"
	"fmt"
	"os"
	"os/exec"
	"path/filepath"
	"strings"
	"time"
)

type ReplayFile struct {
	Property  string            `json:"property"`
	Harness   string            `json:"harness"`
	Package   string            `json:"package"`
	Tier      string            `json:"tier"`
	Kind      string            `json:"kind"`
	Msg       string            `json:"msg"`
	Stack     string            `json:"stack"`
	Vars      map[string]uint64 `json:"vars"`
	Params    map[string]int    `json:"params"`
	Decisions []Decision        `json:"decisions"`
	Native    bool              `json:"native_replay"`
	Unwind    int               `json:"unwind"`
	Preempt   int               `json:"preemptions"`
	Solver    string            `json:"solver"`
}

func nextReplayDir(verifDir, id string) string {
	base := filepath.Join(verifDir, "replays", id)
	os.MkdirAll(base, 0o755)
	for n := 1; ; n++ {
		d := filepath.Join(base, fmt.Sprint(n))
		if _, err := os.Stat(d); os.IsNotExist(err) {
			os.MkdirAll(d, 0o755)
			return d
		}
	}
}

// replayL1 re-runs the engine on the real SSA with every input pinned to the model.
func replayL1(e0 *Engine, rf *ReplayFile) (bool, string) {
	e := &Engine{cfg: e0.cfg, prog: e0.prog, fset: e0.fset, harness: e0.harness, known: map[string]string{},
		reached: map[string]bool{}, funcs: map[string]bool{}, stubsUsed: map[string]bool{}}
	e.cfg.Workers = 1
	e.replayModel = rf.Vars
	if e.replayModel == nil {
		e.replayModel = map[string]uint64{}
	}
	e.deadline = time.Now().Add(120 * time.Second)
	e.runAllFrom(rf.Decisions)
	for _, v := range e.violations {
		if v.Kind == rf.Kind && v.Msg == rf.Msg {
			return true, "reproduced (engine, inputs pinned to the model)"
		}
	}
	if len(e.violations) > 0 {
		return true, fmt.Sprintf("reproduced with a different message: %q", e.violations[0].Msg)
	}
	return false, fmt.Sprintf("NOT reproduced in the engine (paths=%d inconclusive=%v)", e.paths, e.inconclusive)
}

func (e *Engine) runAllFrom(prefix []Decision) {
	e.runAllQueue([][]Decision{prefix})
}

func goToolEnv() []string {
	env := os.Environ()
	env = append(env, "GOFLAGS=-mod=mod", "GOPROXY=off", "GOTOOLCHAIN=local")
	return env
}

// replayL2 runs the harness natively (go test -overlay) with the model as inputs.
func replayL2(verifDir, repo string, cc *CheckCfg, rf *ReplayFile, rdir string) (bool, string) {
	pkgPath := rf.Package
	rel := strings.TrimPrefix(pkgPath, modPath+"/")
	pkgName := ""
	// find the package clause from a harness file in that package
	var harnessSrc string
	for src, dst := range cc.Files {
		if filepath.Dir(dst) == rel {
			harnessSrc = filepath.Join(verifDir, src)
		}
	}
	if harnessSrc == "" {
		return false, "no harness file for package " + pkgPath
	}
	b, err := os.ReadFile(harnessSrc)
	if err != nil {
		return false, err.Error()
	}
	for _, l := range strings.Split(string(b), "\n") {
		if strings.HasPrefix(l, "package ") {
			pkgName = strings.TrimSpace(strings.TrimPrefix(l, "package "))
			break
		}
	}
	testSrc := fmt.Sprintf(`package %s

import (
	"fmt"
	"testing"
)

func TestVerifReplay(t *testing.T) {
	defer func() {
		if r := recover(); r != nil {
			fmt.Printf("VERIF-REPLAY-PANIC: %%v\n", r)
			t.Fatalf("panic: %%v", r)
		}
	}()
	%s()
	fmt.Println("VERIF-REPLAY-COMPLETED-WITHOUT-FAILURE")
}
`, pkgName, rf.Harness)
	testFile := filepath.Join(rdir, "zz_verif_replay_test.go")
	os.WriteFile(testFile, []byte(testSrc), 0o644)
	ov := map[string]map[string]string{"Replace": {}}
	ov["Replace"][filepath.Join(repo, "internal/verifrt/verifrt.go")] = filepath.Join(verifDir, "rt/verifrt/verifrt.go")
	for src, dst := range cc.Files {
		ov["Replace"][filepath.Join(repo, dst)] = filepath.Join(verifDir, src)
	}
	ov["Replace"][filepath.Join(repo, rel, "zz_verif_replay_test.go")] = testFile
	ob, _ := json.MarshalIndent(ov, "", " ")
	ovFile := filepath.Join(rdir, "overlay.json")
	os.WriteFile(ovFile, ob, 0o644)
	cmd := exec.Command("go", "test", "-vet=off", "-count=1", "-overlay", ovFile, "-run", "^TestVerifReplay$", "-timeout", "300s", "-v", "./"+rel)
	cmd.Dir = repo
	cmd.Env = append(goToolEnv(), "VERIF_REPLAY="+filepath.Join(rdir, "model.json"))
	out, _ := cmd.CombinedOutput()
	os.WriteFile(filepath.Join(rdir, "native_output.txt"), out, 0o644)
	s := string(out)
	script := fmt.Sprintf("#!/bin/sh\n# native replay of the counterexample\ncd %s && VERIF_REPLAY=%s GOFLAGS=-mod=mod GOPROXY=off go test -vet=off -count=1 -overlay %s -run '^TestVerifReplay$' -v ./%s\n",
		repo, filepath.Join(rdir, "model.json"), ovFile, rel)
	os.WriteFile(filepath.Join(rdir, "replay_native.sh"), []byte(script), 0o755)
	switch {
	case strings.Contains(s, "VERIF-ASSUME-FAILED"):
		return false, "native run: an Assume did not hold for the model (encoding mismatch)"
	case rf.Kind == "assert" && strings.Contains(s, "VERIF-ASSERT-FAILED"):
		return true, "reproduced natively (assertion failed in go test)"
	case rf.Kind == "panic" && strings.Contains(s, "VERIF-REPLAY-PANIC") && !strings.Contains(s, "VERIF-ASSERT-FAILED"):
		return true, "reproduced natively (panic in go test)"
	case strings.Contains(s, "VERIF-REPLAY-COMPLETED-WITHOUT-FAILURE"):
		return false, "native run completed without failure"
	case strings.Contains(s, "VERIF-ASSERT-FAILED") || strings.Contains(s, "VERIF-REPLAY-PANIC"):
		return true, "reproduced natively (different failure kind)"
	}
	tail := s
	if len(tail) > 600 {
		tail = tail[len(tail)-600:]
	}
	return false, "native run inconclusive: " + strings.ReplaceAll(tail, "\n", " | ")
}

func handleViolation(verifDir, repo, id string, cc *CheckCfg, hc *HarnessCfg, tier string, e *Engine, v *Violation) (string, string, string, bool) {
	rdir := nextReplayDir(verifDir, id)
	pkgPath := hc.Package
	if pkgPath == "" {
		pkgPath = cc.Packages[0]
	}
	rf := &ReplayFile{Property: id, Harness: hc.Func, Package: pkgPath, Tier: tier, Kind: v.Kind, Msg: v.Msg, Stack: v.Stack,
		Vars: v.Model, Params: e.cfg.Params, Decisions: v.Decisions, Native: hc.Native, Unwind: e.cfg.Unwind, Preempt: e.cfg.Preemptions, Solver: e.cfg.Solver}
	b, _ := json.MarshalIndent(rf, "", " ")
	os.WriteFile(filepath.Join(rdir, "model.json"), b, 0o644)
	ok1, l1 := replayL1(e, rf)
	l2 := "not available for this harness (function-level stubs / UFs / schedules)"
	ok2 := true
	if hc.Native {
		ok2, l2 = replayL2(verifDir, repo, cc, rf, rdir)
	}
	os.WriteFile(filepath.Join(rdir, "README.txt"), []byte(fmt.Sprintf(
		"property %s harness %s\nkind: %s\nmessage: %s\nL1 (engine, pinned inputs): %s\nL2 (native go test): %s\nreplay: cd /verif && ./vcheck replay %s\nstack:\n%s\ninputs: %s\n",
		id, hc.Func, v.Kind, v.Msg, l1, l2, rdir, v.Stack, modelString(v.Model))), 0o644)
	return rdir, l1, l2, ok1 && ok2
}

func cmdReplay(args []string) int {
	if len(args) < 1 {
		fmt.Fprintln(os.Stderr, "usage: gosym replay <dir>")
		return 2
	}
	rdir := args[0]
	verifDir := envOr("VERIF_DIR", "/verif")
	repo := envOr("VERIF_REPO", "/repo")
	b, err := os.ReadFile(filepath.Join(rdir, "model.json"))
	if err != nil {
		fmt.Fprintln(os.Stderr, err)
		return 2
	}
	var rf ReplayFile
	if err := json.Unmarshal(b, &rf); err != nil {
		fmt.Fprintln(os.Stderr, err)
		return 2
	}
	var cc CheckCfg
	cb, err := os.ReadFile(filepath.Join(verifDir, "checks", rf.Property+".json"))
	if err != nil {
		fmt.Fprintln(os.Stderr, err)
		return 2
	}
	json.Unmarshal(cb, &cc)
	prog, _, err := loadProgram(repo, verifDir, &cc)
	if err != nil {
		fmt.Fprintln(os.Stderr, "LOAD-FAILED:", err)
		return 2
	}
	h := findHarness(prog, rf.Package, rf.Harness)
	if h == nil {
		fmt.Fprintln(os.Stderr, "harness not found")
		return 2
	}
	e := &Engine{cfg: Config{Unwind: rf.Unwind, Preemptions: rf.Preempt, Params: rf.Params, TimeoutMs: 60000, Solver: rf.Solver, Workers: 1, MaxPaths: 100000, BudgetS: 300},
		prog: prog, fset: prog.Fset, harness: h}
	ok1, l1 := replayL1(e, &rf)
	fmt.Println("L1:", l1)
	ok2 := true
	if rf.Native {
		var l2 string
		tmp, _ := os.MkdirTemp("", "verif-replay")
		defer os.RemoveAll(tmp)
		os.WriteFile(filepath.Join(tmp, "model.json"), b, 0o644)
		ok2, l2 = replayL2(verifDir, repo, &cc, &rf, tmp)
		fmt.Println("L2:", l2)
	}
	if ok1 && ok2 {
		fmt.Printf("VIOLATION property=%s replay=%s\n", rf.Property, rdir)
		return 1
	}
	fmt.Println("not reproduced")
	return 0
}

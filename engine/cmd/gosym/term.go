package main

// Hash-consed SMT terms (Bool and bit-vectors up to 64 bits) with an eager
// simplifier and an SMT-LIB2 printer. One TermCtx per explored path.

import (
	"fmt"
	"math/bits"
	"strings"
)

type Op uint8

const (
	OpConst Op = iota // bv const (val) or bool const (w==0)
	OpVar
	OpNot  // bool
	OpAnd  // bool n-ary (binary here)
	OpOr   // bool
	OpEq   // any sort -> bool
	OpIte  // cond, a, b
	OpBVNot
	OpBVNeg
	OpAdd
	OpSub
	OpMul
	OpUDiv
	OpURem
	OpSDiv
	OpSRem
	OpBVAnd
	OpBVOr
	OpBVXor
	OpShl
	OpLShr
	OpAShr
	OpUlt
	OpUle
	OpSlt
	OpSle
	OpExtract // hi, lo in val: hi<<8|lo
	OpZExt    // to width w
	OpSExt
	OpConcat
	OpUF // name + args
)

var opNames = map[Op]string{
	OpNot: "not", OpAnd: "and", OpOr: "or", OpEq: "=", OpIte: "ite",
	OpBVNot: "bvnot", OpBVNeg: "bvneg", OpAdd: "bvadd", OpSub: "bvsub", OpMul: "bvmul",
	OpUDiv: "bvudiv", OpURem: "bvurem", OpSDiv: "bvsdiv", OpSRem: "bvsrem",
	OpBVAnd: "bvand", OpBVOr: "bvor", OpBVXor: "bvxor", OpShl: "bvshl", OpLShr: "bvlshr", OpAShr: "bvashr",
	OpUlt: "bvult", OpUle: "bvule", OpSlt: "bvslt", OpSle: "bvsle", OpConcat: "concat",
}

// Term: W == 0 means Bool sort, otherwise bit-vector of width W (1..64).
type Term struct {
	Op   Op
	W    int
	Val  uint64
	Name string
	Args []*Term
	ID   int
}

func (t *Term) IsBool() bool  { return t.W == 0 }
func (t *Term) IsConst() bool { return t.Op == OpConst }
func (t *Term) IsTrue() bool  { return t.Op == OpConst && t.W == 0 && t.Val == 1 }
func (t *Term) IsFalse() bool { return t.Op == OpConst && t.W == 0 && t.Val == 0 }

type termKey struct {
	op         Op
	w          int
	val        uint64
	name       string
	a0, a1, a2 int
}

type TermCtx struct {
	tab    map[termKey]*Term
	nextID int
	tru    *Term
	fls    *Term
	// declared vars / UFs: name -> declaration line
	Decls     map[string]string
	DeclOrder []string
	VarTerms  map[string]*Term
}

func NewTermCtx() *TermCtx {
	c := &TermCtx{tab: map[termKey]*Term{}, Decls: map[string]string{}, VarTerms: map[string]*Term{}}
	c.tru = c.mk(OpConst, 0, 1, "", nil)
	c.fls = c.mk(OpConst, 0, 0, "", nil)
	return c
}

func mask(w int) uint64 {
	if w >= 64 {
		return ^uint64(0)
	}
	return (uint64(1) << uint(w)) - 1
}

func (c *TermCtx) mk(op Op, w int, val uint64, name string, args []*Term) *Term {
	k := termKey{op: op, w: w, val: val, name: name, a0: -1, a1: -1, a2: -1}
	if len(args) > 3 {
		var sb strings.Builder
		sb.WriteString(name)
		for _, a := range args {
			fmt.Fprintf(&sb, ",%d", a.ID)
		}
		k.name = sb.String()
	} else {
		if len(args) > 0 {
			k.a0 = args[0].ID
		}
		if len(args) > 1 {
			k.a1 = args[1].ID
		}
		if len(args) > 2 {
			k.a2 = args[2].ID
		}
	}
	if t, ok := c.tab[k]; ok {
		return t
	}
	t := &Term{Op: op, W: w, Val: val, Name: name, Args: args, ID: c.nextID}
	c.nextID++
	c.tab[k] = t
	return t
}

func (c *TermCtx) True() *Term  { return c.tru }
func (c *TermCtx) False() *Term { return c.fls }
func (c *TermCtx) Bool(b bool) *Term {
	if b {
		return c.tru
	}
	return c.fls
}
func (c *TermCtx) Const(w int, v uint64) *Term {
	if w == 0 {
		return c.Bool(v != 0)
	}
	return c.mk(OpConst, w, v&mask(w), "", nil)
}

func (c *TermCtx) Var(name string, w int) *Term {
	if t, ok := c.VarTerms[name]; ok {
		if t.W != w {
			panic(engineErr("variable %s redeclared with different width", name))
		}
		return t
	}
	t := c.mk(OpVar, w, 0, name, nil)
	c.VarTerms[name] = t
	var decl string
	if w == 0 {
		decl = fmt.Sprintf("(declare-fun %s () Bool)", smtName(name))
	} else {
		decl = fmt.Sprintf("(declare-fun %s () (_ BitVec %d))", smtName(name), w)
	}
	c.Decls[name] = decl
	c.DeclOrder = append(c.DeclOrder, name)
	return t
}

// UF application. retW 0 = Bool.
func (c *TermCtx) UF(name string, retW int, args ...*Term) *Term {
	allConst := false
	_ = allConst
	key := "uf!" + name
	if _, ok := c.Decls[key]; !ok {
		var sb strings.Builder
		fmt.Fprintf(&sb, "(declare-fun %s (", smtName(name))
		for i, a := range args {
			if i > 0 {
				sb.WriteString(" ")
			}
			sb.WriteString(sortStr(a.W))
		}
		fmt.Fprintf(&sb, ") %s)", sortStr(retW))
		c.Decls[key] = sb.String()
		c.DeclOrder = append(c.DeclOrder, key)
	}
	return c.mk(OpUF, retW, 0, name, args)
}

func sortStr(w int) string {
	if w == 0 {
		return "Bool"
	}
	return fmt.Sprintf("(_ BitVec %d)", w)
}

func smtName(n string) string {
	ok := true
	for _, r := range n {
		if !(r >= 'a' && r <= 'z' || r >= 'A' && r <= 'Z' || r >= '0' && r <= '9' || r == '_' || r == '.' || r == '!' || r == '$') {
			ok = false
			break
		}
	}
	if ok && n != "" && !(n[0] >= '0' && n[0] <= '9') {
		return n
	}
	return "|" + strings.ReplaceAll(strings.ReplaceAll(n, "|", "!"), "\\", "!") + "|"
}

func sx(v uint64, w int) int64 {
	if w >= 64 {
		return int64(v)
	}
	sh := uint(64 - w)
	return int64(v<<sh) >> sh
}

// ---- Boolean constructors ----

func (c *TermCtx) Not(a *Term) *Term {
	if a.IsConst() {
		return c.Bool(a.Val == 0)
	}
	if a.Op == OpNot {
		return a.Args[0]
	}
	return c.mk(OpNot, 0, 0, "", []*Term{a})
}

func (c *TermCtx) And(a, b *Term) *Term {
	if a.IsFalse() || b.IsFalse() {
		return c.fls
	}
	if a.IsTrue() {
		return b
	}
	if b.IsTrue() {
		return a
	}
	if a == b {
		return a
	}
	if a.Op == OpNot && a.Args[0] == b || b.Op == OpNot && b.Args[0] == a {
		return c.fls
	}
	if a.ID > b.ID {
		a, b = b, a
	}
	return c.mk(OpAnd, 0, 0, "", []*Term{a, b})
}

func (c *TermCtx) Or(a, b *Term) *Term {
	if a.IsTrue() || b.IsTrue() {
		return c.tru
	}
	if a.IsFalse() {
		return b
	}
	if b.IsFalse() {
		return a
	}
	if a == b {
		return a
	}
	if a.Op == OpNot && a.Args[0] == b || b.Op == OpNot && b.Args[0] == a {
		return c.tru
	}
	if a.ID > b.ID {
		a, b = b, a
	}
	return c.mk(OpOr, 0, 0, "", []*Term{a, b})
}

func (c *TermCtx) Implies(a, b *Term) *Term { return c.Or(c.Not(a), b) }

func (c *TermCtx) Eq(a, b *Term) *Term {
	if a.W != b.W {
		panic(engineErr("Eq sort mismatch %d vs %d", a.W, b.W))
	}
	if a == b {
		return c.tru
	}
	if a.IsConst() && b.IsConst() {
		return c.Bool(a.Val == b.Val)
	}
	if a.W == 0 {
		if a.IsConst() {
			a, b = b, a
		}
		if b.IsTrue() {
			return a
		}
		if b.IsFalse() {
			return c.Not(a)
		}
	}
	// eq(ite(c,x,y), k) with x,y,k constants
	if b.IsConst() && a.Op == OpIte {
		return c.eqIteConst(a, b)
	}
	if a.IsConst() && b.Op == OpIte {
		return c.eqIteConst(b, a)
	}
	// zext(x) == const
	if b.IsConst() && (a.Op == OpZExt) {
		x := a.Args[0]
		if b.Val>>uint(x.W) != 0 {
			return c.fls
		}
		return c.Eq(x, c.Const(x.W, b.Val))
	}
	if a.IsConst() && (b.Op == OpZExt) {
		return c.Eq(b, a)
	}
	if a.Op == OpZExt && b.Op == OpZExt && a.Args[0].W == b.Args[0].W {
		return c.Eq(a.Args[0], b.Args[0])
	}
	if a.ID > b.ID {
		a, b = b, a
	}
	return c.mk(OpEq, 0, 0, "", []*Term{a, b})
}

func (c *TermCtx) eqIteConst(it, k *Term) *Term {
	x, y := it.Args[1], it.Args[2]
	depth := 0
	var rec func(t *Term) *Term
	rec = func(t *Term) *Term {
		if t.IsConst() {
			return c.Bool(t.Val == k.Val)
		}
		if t.Op == OpIte && depth < 64 {
			depth++
			l := rec(t.Args[1])
			r := rec(t.Args[2])
			if l == nil || r == nil {
				return nil
			}
			return c.Ite(t.Args[0], l, r)
		}
		return nil
	}
	if x.IsConst() || y.IsConst() {
		l := rec(x)
		if l == nil {
			l = c.eqRaw(x, k)
		}
		r := rec(y)
		if r == nil {
			r = c.eqRaw(y, k)
		}
		return c.Ite(it.Args[0], l, r)
	}
	return c.eqRaw(it, k)
}

func (c *TermCtx) eqRaw(a, b *Term) *Term {
	if a == b {
		return c.tru
	}
	if a.IsConst() && b.IsConst() {
		return c.Bool(a.Val == b.Val)
	}
	if a.ID > b.ID {
		a, b = b, a
	}
	return c.mk(OpEq, 0, 0, "", []*Term{a, b})
}

func (c *TermCtx) Ite(cond, a, b *Term) *Term {
	if a.W != b.W {
		panic(engineErr("Ite sort mismatch %d vs %d", a.W, b.W))
	}
	if cond.IsTrue() {
		return a
	}
	if cond.IsFalse() {
		return b
	}
	if a == b {
		return a
	}
	if a.W == 0 {
		if a.IsTrue() && b.IsFalse() {
			return cond
		}
		if a.IsFalse() && b.IsTrue() {
			return c.Not(cond)
		}
		if a.IsTrue() {
			return c.Or(cond, b)
		}
		if a.IsFalse() {
			return c.And(c.Not(cond), b)
		}
		if b.IsTrue() {
			return c.Or(c.Not(cond), a)
		}
		if b.IsFalse() {
			return c.And(cond, a)
		}
	}
	if cond.Op == OpNot {
		return c.Ite(cond.Args[0], b, a)
	}
	return c.mk(OpIte, a.W, 0, "", []*Term{cond, a, b})
}

// ---- BV constructors ----

func (c *TermCtx) bin(op Op, a, b *Term) *Term {
	if a.W != b.W {
		panic(engineErr("bv op %s width mismatch %d vs %d", opNames[op], a.W, b.W))
	}
	w := a.W
	m := mask(w)
	if a.IsConst() && b.IsConst() {
		x, y := a.Val, b.Val
		var r uint64
		switch op {
		case OpAdd:
			r = x + y
		case OpSub:
			r = x - y
		case OpMul:
			r = x * y
		case OpUDiv:
			if y == 0 {
				r = m
			} else {
				r = x / y
			}
		case OpURem:
			if y == 0 {
				r = x
			} else {
				r = x % y
			}
		case OpSDiv:
			sx1, sy := sx(x, w), sx(y, w)
			if sy == 0 {
				if sx1 >= 0 {
					r = m
				} else {
					r = 1
				}
			} else if sy == -1 {
				r = uint64(-sx1)
			} else {
				r = uint64(sx1 / sy)
			}
		case OpSRem:
			sx1, sy := sx(x, w), sx(y, w)
			if sy == 0 {
				r = x
			} else if sy == -1 {
				r = 0
			} else {
				r = uint64(sx1 % sy)
			}
		case OpBVAnd:
			r = x & y
		case OpBVOr:
			r = x | y
		case OpBVXor:
			r = x ^ y
		case OpShl:
			if y >= uint64(w) {
				r = 0
			} else {
				r = x << y
			}
		case OpLShr:
			if y >= uint64(w) {
				r = 0
			} else {
				r = x >> y
			}
		case OpAShr:
			s := sx(x, w)
			if y >= uint64(w) {
				if s < 0 {
					r = m
				} else {
					r = 0
				}
			} else {
				r = uint64(s >> y)
			}
		}
		return c.Const(w, r)
	}
	switch op {
	case OpAdd:
		if a.IsConst() {
			a, b = b, a
		}
		if b.IsConst() && b.Val == 0 {
			return a
		}
		// (x + k1) + k2
		if b.IsConst() && a.Op == OpAdd && a.Args[1].IsConst() {
			return c.bin(OpAdd, a.Args[0], c.Const(w, a.Args[1].Val+b.Val))
		}
		if b.IsConst() && a.Op == OpSub && a.Args[1].IsConst() {
			return c.bin(OpAdd, a.Args[0], c.Const(w, b.Val-a.Args[1].Val))
		}
	case OpSub:
		if b.IsConst() && b.Val == 0 {
			return a
		}
		if a == b {
			return c.Const(w, 0)
		}
		if b.IsConst() {
			return c.bin(OpAdd, a, c.Const(w, -b.Val))
		}
		// (x + y) - x
		if a.Op == OpAdd {
			if a.Args[0] == b {
				return a.Args[1]
			}
			if a.Args[1] == b {
				return a.Args[0]
			}
		}
	case OpMul:
		if a.IsConst() {
			a, b = b, a
		}
		if b.IsConst() {
			if b.Val == 0 {
				return b
			}
			if b.Val == 1 {
				return a
			}
		}
	case OpBVAnd:
		if a.IsConst() {
			a, b = b, a
		}
		if b.IsConst() {
			if b.Val == 0 {
				return b
			}
			if b.Val == m {
				return a
			}
		}
		if a == b {
			return a
		}
	case OpBVOr:
		if a.IsConst() {
			a, b = b, a
		}
		if b.IsConst() {
			if b.Val == 0 {
				return a
			}
			if b.Val == m {
				return b
			}
		}
		if a == b {
			return a
		}
	case OpBVXor:
		if a.IsConst() {
			a, b = b, a
		}
		if b.IsConst() && b.Val == 0 {
			return a
		}
		if a == b {
			return c.Const(w, 0)
		}
	case OpShl, OpLShr, OpAShr:
		if b.IsConst() && b.Val == 0 {
			return a
		}
		if b.IsConst() && b.Val >= uint64(w) && op != OpAShr {
			return c.Const(w, 0)
		}
		if a.IsConst() && a.Val == 0 {
			return a
		}
		// (zext x) >> k with k >= width(x)
		if op == OpLShr && b.IsConst() && a.Op == OpZExt && b.Val >= uint64(a.Args[0].W) {
			return c.Const(w, 0)
		}
	case OpUDiv:
		if b.IsConst() && b.Val == 1 {
			return a
		}
	}
	return c.mk(op, w, 0, "", []*Term{a, b})
}

func (c *TermCtx) Add(a, b *Term) *Term  { return c.bin(OpAdd, a, b) }
func (c *TermCtx) Sub(a, b *Term) *Term  { return c.bin(OpSub, a, b) }
func (c *TermCtx) Mul(a, b *Term) *Term  { return c.bin(OpMul, a, b) }
func (c *TermCtx) UDiv(a, b *Term) *Term { return c.bin(OpUDiv, a, b) }
func (c *TermCtx) URem(a, b *Term) *Term { return c.bin(OpURem, a, b) }
func (c *TermCtx) SDiv(a, b *Term) *Term { return c.bin(OpSDiv, a, b) }
func (c *TermCtx) SRem(a, b *Term) *Term { return c.bin(OpSRem, a, b) }
func (c *TermCtx) BVAnd(a, b *Term) *Term {
	return c.bin(OpBVAnd, a, b)
}
func (c *TermCtx) BVOr(a, b *Term) *Term  { return c.bin(OpBVOr, a, b) }
func (c *TermCtx) BVXor(a, b *Term) *Term { return c.bin(OpBVXor, a, b) }
func (c *TermCtx) Shl(a, b *Term) *Term   { return c.bin(OpShl, a, b) }
func (c *TermCtx) LShr(a, b *Term) *Term  { return c.bin(OpLShr, a, b) }
func (c *TermCtx) AShr(a, b *Term) *Term  { return c.bin(OpAShr, a, b) }

func (c *TermCtx) BVNot(a *Term) *Term {
	if a.IsConst() {
		return c.Const(a.W, ^a.Val)
	}
	if a.Op == OpBVNot {
		return a.Args[0]
	}
	return c.mk(OpBVNot, a.W, 0, "", []*Term{a})
}

func (c *TermCtx) Neg(a *Term) *Term {
	if a.IsConst() {
		return c.Const(a.W, -a.Val)
	}
	return c.mk(OpBVNeg, a.W, 0, "", []*Term{a})
}

func (c *TermCtx) cmp(op Op, a, b *Term) *Term {
	if a.W != b.W {
		panic(engineErr("cmp width mismatch %d vs %d", a.W, b.W))
	}
	w := a.W
	if a.IsConst() && b.IsConst() {
		switch op {
		case OpUlt:
			return c.Bool(a.Val < b.Val)
		case OpUle:
			return c.Bool(a.Val <= b.Val)
		case OpSlt:
			return c.Bool(sx(a.Val, w) < sx(b.Val, w))
		case OpSle:
			return c.Bool(sx(a.Val, w) <= sx(b.Val, w))
		}
	}
	if a == b {
		return c.Bool(op == OpUle || op == OpSle)
	}
	switch op {
	case OpUlt:
		if b.IsConst() && b.Val == 0 {
			return c.fls
		}
		if a.IsConst() && a.Val == mask(w) {
			return c.fls
		}
	case OpUle:
		if a.IsConst() && a.Val == 0 {
			return c.tru
		}
		if b.IsConst() && b.Val == mask(w) {
			return c.tru
		}
	}
	// comparisons of zero-extended small values against constants
	if a.Op == OpZExt && b.IsConst() {
		xw := a.Args[0].W
		if xw < w {
			mx := mask(xw)
			sb := sx(b.Val, w)
			switch op {
			case OpUlt:
				if b.Val > mx {
					return c.tru
				}
			case OpUle:
				if b.Val >= mx {
					return c.tru
				}
			case OpSlt:
				if sb > int64(mx) {
					return c.tru
				}
				if sb <= 0 {
					return c.fls
				}
			case OpSle:
				if sb >= int64(mx) {
					return c.tru
				}
				if sb < 0 {
					return c.fls
				}
			}
		}
	}
	if b.Op == OpZExt && a.IsConst() {
		xw := b.Args[0].W
		if xw < w {
			mx := mask(xw)
			sa := sx(a.Val, w)
			switch op {
			case OpUlt:
				if a.Val >= mx {
					return c.fls
				}
			case OpUle:
				if a.Val > mx {
					return c.fls
				}
			case OpSlt:
				if sa < 0 {
					return c.tru
				}
				if sa >= int64(mx) {
					return c.fls
				}
			case OpSle:
				if sa <= 0 {
					return c.tru
				}
				if sa > int64(mx) {
					return c.fls
				}
			}
		}
	}
	return c.mk(op, 0, 0, "", []*Term{a, b})
}

func (c *TermCtx) Ult(a, b *Term) *Term { return c.cmp(OpUlt, a, b) }
func (c *TermCtx) Ule(a, b *Term) *Term { return c.cmp(OpUle, a, b) }
func (c *TermCtx) Slt(a, b *Term) *Term { return c.cmp(OpSlt, a, b) }
func (c *TermCtx) Sle(a, b *Term) *Term { return c.cmp(OpSle, a, b) }

func (c *TermCtx) Extract(a *Term, hi, lo int) *Term {
	w := hi - lo + 1
	if w == a.W {
		return a
	}
	if a.IsConst() {
		return c.Const(w, a.Val>>uint(lo))
	}
	if a.Op == OpZExt || a.Op == OpSExt {
		x := a.Args[0]
		if hi < x.W {
			return c.Extract(x, hi, lo)
		}
		if a.Op == OpZExt && lo >= x.W {
			return c.Const(w, 0)
		}
		if a.Op == OpZExt && lo == 0 {
			return c.ZExt(x, w)
		}
	}
	if a.Op == OpExtract {
		ilo := int(a.Val & 0xff)
		return c.Extract(a.Args[0], hi+ilo, lo+ilo)
	}
	if a.Op == OpConcat {
		l, r := a.Args[0], a.Args[1]
		if hi < r.W {
			return c.Extract(r, hi, lo)
		}
		if lo >= r.W {
			return c.Extract(l, hi-r.W, lo-r.W)
		}
	}
	if a.Op == OpIte && (a.Args[1].IsConst() || a.Args[2].IsConst()) {
		return c.Ite(a.Args[0], c.Extract(a.Args[1], hi, lo), c.Extract(a.Args[2], hi, lo))
	}
	if lo == 0 {
		// truncation distributes over +,-,*,and,or,xor: keep narrow
		switch a.Op {
		case OpBVAnd, OpBVOr, OpBVXor, OpAdd, OpSub, OpMul:
			return c.bin(a.Op, c.Extract(a.Args[0], hi, 0), c.Extract(a.Args[1], hi, 0))
		case OpShl:
			if a.Args[1].IsConst() {
				return c.bin(OpShl, c.Extract(a.Args[0], hi, 0), c.Const(w, minU(a.Args[1].Val, uint64(w))))
			}
		}
	}
	// (x >> k)[hi:lo] with const k
	if a.Op == OpLShr && a.Args[1].IsConst() {
		k := int(a.Args[1].Val)
		if hi+k < a.W {
			return c.Extract(a.Args[0], hi+k, lo+k)
		}
	}
	return c.mk(OpExtract, w, uint64(hi)<<8|uint64(lo), "", []*Term{a})
}

func minU(a, b uint64) uint64 {
	if a < b {
		return a
	}
	return b
}

func (c *TermCtx) ZExt(a *Term, w int) *Term {
	if w == a.W {
		return a
	}
	if w < a.W {
		return c.Extract(a, w-1, 0)
	}
	if a.IsConst() {
		return c.Const(w, a.Val)
	}
	if a.Op == OpZExt {
		return c.ZExt(a.Args[0], w)
	}
	if a.Op == OpIte && (a.Args[1].IsConst() || a.Args[2].IsConst()) {
		return c.Ite(a.Args[0], c.ZExt(a.Args[1], w), c.ZExt(a.Args[2], w))
	}
	return c.mk(OpZExt, w, 0, "", []*Term{a})
}

func (c *TermCtx) SExt(a *Term, w int) *Term {
	if w == a.W {
		return a
	}
	if w < a.W {
		return c.Extract(a, w-1, 0)
	}
	if a.IsConst() {
		return c.Const(w, uint64(sx(a.Val, a.W)))
	}
	if a.Op == OpZExt && a.Args[0].W < a.W {
		return c.ZExt(a.Args[0], w)
	}
	return c.mk(OpSExt, w, 0, "", []*Term{a})
}

func (c *TermCtx) Concat(hi, lo *Term) *Term {
	if hi.IsConst() && lo.IsConst() {
		return c.Const(hi.W+lo.W, hi.Val<<uint(lo.W)|lo.Val)
	}
	if hi.IsConst() && hi.Val == 0 {
		return c.ZExt(lo, hi.W+lo.W)
	}
	return c.mk(OpConcat, hi.W+lo.W, 0, "", []*Term{hi, lo})
}

var _ = bits.Len

// ---- printing ----

// Printer emits define-funs for shared nodes once per solver session.
type Printer struct {
	defined map[int]string // term id -> name
}

func NewPrinter() *Printer { return &Printer{defined: map[int]string{}} }

func constStr(t *Term) string {
	if t.W == 0 {
		if t.Val != 0 {
			return "true"
		}
		return "false"
	}
	if t.W%4 == 0 {
		return fmt.Sprintf("#x%0*x", t.W/4, t.Val)
	}
	return fmt.Sprintf("(_ bv%d %d)", t.Val, t.W)
}

// Define emits definitions (into out) for t's non-leaf subterms and returns the
// name/expression to use for t.
func (p *Printer) Define(t *Term, out *strings.Builder) string {
	if n, ok := p.defined[t.ID]; ok {
		return n
	}
	// iterative post-order
	type fr struct {
		t *Term
		i int
	}
	stack := []fr{{t, 0}}
	for len(stack) > 0 {
		f := &stack[len(stack)-1]
		if _, ok := p.defined[f.t.ID]; ok {
			stack = stack[:len(stack)-1]
			continue
		}
		if f.i < len(f.t.Args) {
			a := f.t.Args[f.i]
			f.i++
			if _, ok := p.defined[a.ID]; !ok {
				stack = append(stack, fr{a, 0})
			}
			continue
		}
		tt := f.t
		stack = stack[:len(stack)-1]
		switch tt.Op {
		case OpConst:
			p.defined[tt.ID] = constStr(tt)
			continue
		case OpVar:
			p.defined[tt.ID] = smtName(tt.Name)
			continue
		}
		var sb strings.Builder
		switch tt.Op {
		case OpExtract:
			fmt.Fprintf(&sb, "((_ extract %d %d) %s)", tt.Val>>8, tt.Val&0xff, p.defined[tt.Args[0].ID])
		case OpZExt:
			fmt.Fprintf(&sb, "((_ zero_extend %d) %s)", tt.W-tt.Args[0].W, p.defined[tt.Args[0].ID])
		case OpSExt:
			fmt.Fprintf(&sb, "((_ sign_extend %d) %s)", tt.W-tt.Args[0].W, p.defined[tt.Args[0].ID])
		case OpUF:
			if len(tt.Args) == 0 {
				sb.WriteString(smtName(tt.Name))
			} else {
				sb.WriteString("(" + smtName(tt.Name))
				for _, a := range tt.Args {
					sb.WriteString(" " + p.defined[a.ID])
				}
				sb.WriteString(")")
			}
		default:
			sb.WriteString("(" + opNames[tt.Op])
			for _, a := range tt.Args {
				sb.WriteString(" " + p.defined[a.ID])
			}
			sb.WriteString(")")
		}
		name := fmt.Sprintf("t!%d", tt.ID)
		fmt.Fprintf(out, "(define-fun %s () %s %s)\n", name, sortStr(tt.W), sb.String())
		p.defined[tt.ID] = name
	}
	return p.defined[t.ID]
}

// String renders a term (for diagnostics), bounded depth.
func (t *Term) String() string {
	var rec func(t *Term, d int) string
	rec = func(t *Term, d int) string {
		switch t.Op {
		case OpConst:
			if t.W == 0 {
				return constStr(t)
			}
			return fmt.Sprintf("%d", t.Val)
		case OpVar:
			return t.Name
		}
		if d > 6 {
			return "..."
		}
		var sb strings.Builder
		switch t.Op {
		case OpExtract:
			fmt.Fprintf(&sb, "(extract[%d:%d]", t.Val>>8, t.Val&0xff)
		case OpZExt:
			fmt.Fprintf(&sb, "(zext%d", t.W)
		case OpSExt:
			fmt.Fprintf(&sb, "(sext%d", t.W)
		case OpUF:
			sb.WriteString("(" + t.Name)
		default:
			sb.WriteString("(" + opNames[t.Op])
		}
		for _, a := range t.Args {
			sb.WriteString(" " + rec(a, d+1))
		}
		sb.WriteString(")")
		return sb.String()
	}
	return rec(t, 0)
}

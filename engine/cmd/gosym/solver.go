package main

// One incremental SMT solver process per worker, driven over a pipe.

import (
	"bufio"
	"fmt"
	"io"
	"os/exec"
	"strconv"
	"strings"
	"syscall"
	"time"
)

type SatResult int

const (
	Unsat SatResult = iota
	Sat
	Unknown
)

func (r SatResult) String() string { return [...]string{"unsat", "sat", "unknown"}[r] }

type Solver struct {
	kind    string // z3 | z3-new | cvc5 | cvc5-int
	cmd     *exec.Cmd
	in      io.WriteCloser
	out     *bufio.Reader
	printer *Printer
	ctx     *TermCtx
	nDecl   int // number of ctx.DeclOrder entries already sent
	timeout int // ms
	Queries int
	Time    time.Duration
	Errors  []string
	log     io.Writer
}

func solverArgv(kind string, timeoutMs int) []string {
	switch kind {
	case "z3":
		return []string{"z3", "-in", fmt.Sprintf("-t:%d", timeoutMs)}
	case "z3-new":
		return []string{"z3-new", "-in", fmt.Sprintf("-t:%d", timeoutMs)}
	case "cvc5":
		return []string{"cvc5", "--incremental", "--lang=smt2", "--produce-models", fmt.Sprintf("--tlimit-per=%d", timeoutMs)}
	case "cvc5-int":
		return []string{"cvc5", "--incremental", "--lang=smt2", "--produce-models", "--solve-bv-as-int=sum", fmt.Sprintf("--tlimit-per=%d", timeoutMs)}
	}
	panic("unknown solver kind " + kind)
}

func NewSolver(kind string, timeoutMs int) *Solver {
	s := &Solver{kind: kind, timeout: timeoutMs}
	s.start()
	return s
}

func (s *Solver) start() {
	argv := solverArgv(s.kind, s.timeout)
	s.cmd = exec.Command(argv[0], argv[1:]...)
	// solver processes must not outlive the engine (e.g. when a run is killed)
	s.cmd.SysProcAttr = &syscall.SysProcAttr{Pdeathsig: syscall.SIGKILL}
	in, err := s.cmd.StdinPipe()
	if err != nil {
		panic(err)
	}
	out, err := s.cmd.StdoutPipe()
	if err != nil {
		panic(err)
	}
	s.cmd.Stderr = s.cmd.Stdout
	if err := s.cmd.Start(); err != nil {
		panic(fmt.Sprintf("cannot start solver %v: %v", argv, err))
	}
	s.in = in
	s.out = bufio.NewReaderSize(out, 1<<16)
	s.preamble()
}

func (s *Solver) preamble() {
	if strings.HasPrefix(s.kind, "cvc5") {
		s.send("(set-logic ALL)\n")
	} else {
		s.send("(set-option :produce-models true)\n")
	}
}

func (s *Solver) Close() {
	if s.cmd != nil {
		s.in.Close()
		s.cmd.Process.Kill()
		s.cmd.Wait()
		s.cmd = nil
	}
}

func (s *Solver) send(str string) {
	if s.log != nil {
		io.WriteString(s.log, str)
	}
	if _, err := io.WriteString(s.in, str); err != nil {
		panic(engineErr("solver pipe write failed: %v", err))
	}
}

// Reset begins a new path with a fresh term context.
func (s *Solver) Reset(ctx *TermCtx) {
	if strings.HasPrefix(s.kind, "cvc5") {
		// cvc5 reset is slow-ish but fine; restart is more robust
		s.Close()
		s.start()
	} else {
		s.send("(reset)\n")
		s.preamble()
	}
	s.ctx = ctx
	s.nDecl = 0
	s.printer = NewPrinter()
}

func (s *Solver) flushDecls(sb *strings.Builder) {
	for s.nDecl < len(s.ctx.DeclOrder) {
		sb.WriteString(s.ctx.Decls[s.ctx.DeclOrder[s.nDecl]])
		sb.WriteString("\n")
		s.nDecl++
	}
}

// Assert adds t permanently to the current path's assertion stack.
func (s *Solver) Assert(t *Term) {
	if t.IsTrue() {
		return
	}
	var sb strings.Builder
	s.flushDecls(&sb)
	n := s.printer.Define(t, &sb)
	fmt.Fprintf(&sb, "(assert %s)\n", n)
	s.send(sb.String())
}

func (s *Solver) readLine() string {
	line, err := s.out.ReadString('\n')
	if err != nil {
		panic(engineErr("solver died: %v (partial %q)", err, line))
	}
	return strings.TrimSpace(line)
}

func (s *Solver) readResult() SatResult {
	for {
		l := s.readLine()
		switch {
		case l == "sat":
			return Sat
		case l == "unsat":
			return Unsat
		case l == "unknown" || l == "timeout":
			return Unknown
		case l == "":
			continue
		case strings.HasPrefix(l, "(error"):
			s.Errors = append(s.Errors, l)
			// an error means the query is inconclusive; keep reading for the verdict
			continue
		default:
			// cvc5 prints e.g. "cvc5 interrupted by timeout." on stderr
			if strings.Contains(l, "interrupted") || strings.Contains(l, "timeout") {
				return Unknown
			}
			s.Errors = append(s.Errors, "unexpected solver output: "+l)
		}
	}
}

// Check asks whether the path condition plus extra is satisfiable.
func (s *Solver) Check(extra *Term) SatResult {
	if extra != nil && extra.IsFalse() {
		return Unsat
	}
	start := time.Now()
	nerr := len(s.Errors)
	var sb strings.Builder
	s.flushDecls(&sb)
	if extra != nil && !extra.IsTrue() {
		n := s.printer.Define(extra, &sb)
		fmt.Fprintf(&sb, "(push 1)\n(assert %s)\n(check-sat)\n(pop 1)\n", n)
	} else {
		sb.WriteString("(check-sat)\n")
	}
	s.send(sb.String())
	r := s.readResult()
	s.Queries++
	s.Time += time.Since(start)
	if len(s.Errors) > nerr {
		return Unknown
	}
	return r
}

// CheckModel: like Check, but on Sat returns values for the given variables.
func (s *Solver) CheckModel(extra *Term, vars []*Term) (SatResult, map[string]uint64) {
	start := time.Now()
	nerr := len(s.Errors)
	var sb strings.Builder
	// definitions must precede the push to survive the pop
	s.flushDecls(&sb)
	name := ""
	if extra != nil && !extra.IsTrue() {
		name = s.printer.Define(extra, &sb)
	}
	varNames := make([]string, len(vars))
	for i, v := range vars {
		varNames[i] = s.printer.Define(v, &sb)
	}
	sb.WriteString("(push 1)\n")
	if name != "" {
		fmt.Fprintf(&sb, "(assert %s)\n", name)
	}
	sb.WriteString("(check-sat)\n")
	s.send(sb.String())
	r := s.readResult()
	s.Queries++
	var model map[string]uint64
	if r == Sat && len(s.Errors) == nerr {
		model = map[string]uint64{}
		// query values in chunks
		const chunk = 64
		for i := 0; i < len(vars); i += chunk {
			j := i + chunk
			if j > len(vars) {
				j = len(vars)
			}
			var q strings.Builder
			q.WriteString("(get-value (")
			for k := i; k < j; k++ {
				q.WriteString(varNames[k] + " ")
			}
			q.WriteString("))\n")
			s.send(q.String())
			txt := s.readSexp()
			vals := parseGetValue(txt)
			if len(vals) != j-i {
				s.Errors = append(s.Errors, "get-value parse mismatch: "+txt)
				r = Unknown
				break
			}
			for k := i; k < j; k++ {
				model[vars[k].Name] = vals[k-i]
			}
		}
	}
	s.send("(pop 1)\n")
	s.Time += time.Since(start)
	if len(s.Errors) > nerr {
		return Unknown, nil
	}
	return r, model
}

// readSexp reads one balanced s-expression from the solver.
func (s *Solver) readSexp() string {
	var sb strings.Builder
	depth := 0
	started := false
	for {
		l, err := s.out.ReadString('\n')
		if err != nil {
			panic(engineErr("solver died while reading model: %v", err))
		}
		inBar := false
		for _, ch := range l {
			if ch == '|' {
				inBar = !inBar
			}
			if inBar {
				continue
			}
			if ch == '(' {
				depth++
				started = true
			} else if ch == ')' {
				depth--
			}
		}
		sb.WriteString(l)
		if started && depth <= 0 {
			return sb.String()
		}
		if !started && strings.TrimSpace(l) != "" {
			return sb.String()
		}
	}
}

// parseGetValue extracts the values from "((name val) (name val) ...)" in order.
func parseGetValue(txt string) []uint64 {
	var vals []uint64
	// tokenise
	toks := tokenize(txt)
	// expect ( ( name val ) ... ) where val is #x.., #b.., true/false, or ( _ bvN W )
	i := 0
	next := func() string {
		if i < len(toks) {
			t := toks[i]
			i++
			return t
		}
		return ""
	}
	if next() != "(" {
		return nil
	}
	for i < len(toks) {
		t := next()
		if t == ")" {
			break
		}
		if t != "(" {
			return nil
		}
		// name: may itself be an s-expr? we only query constants/defined names
		nm := next()
		if nm == "(" {
			// skip balanced
			d := 1
			for d > 0 && i < len(toks) {
				x := next()
				if x == "(" {
					d++
				} else if x == ")" {
					d--
				}
			}
		}
		v := next()
		var val uint64
		switch {
		case v == "true":
			val = 1
		case v == "false":
			val = 0
		case strings.HasPrefix(v, "#x"):
			val, _ = strconv.ParseUint(v[2:], 16, 64)
		case strings.HasPrefix(v, "#b"):
			val, _ = strconv.ParseUint(v[2:], 2, 64)
		case v == "(":
			// ( _ bvN W )
			next() // _
			bv := next()
			next() // W
			next() // )
			val, _ = strconv.ParseUint(strings.TrimPrefix(bv, "bv"), 10, 64)
		default:
			return nil
		}
		vals = append(vals, val)
		if next() != ")" {
			return nil
		}
	}
	return vals
}

func tokenize(s string) []string {
	var toks []string
	i := 0
	for i < len(s) {
		ch := s[i]
		switch {
		case ch == '(' || ch == ')':
			toks = append(toks, string(ch))
			i++
		case ch == ' ' || ch == '\n' || ch == '\t' || ch == '\r':
			i++
		case ch == '|':
			j := i + 1
			for j < len(s) && s[j] != '|' {
				j++
			}
			toks = append(toks, s[i:j+1])
			i = j + 1
		default:
			j := i
			for j < len(s) && !strings.ContainsRune("() \n\t\r", rune(s[j])) {
				j++
			}
			toks = append(toks, s[i:j])
			i = j
		}
	}
	return toks
}

package main

import (
	"go/types"

	"golang.org/x/tools/go/ssa"
)

// Intrinsics added for batch C (C22/C24/C41/C40).
func init() {
	// time.runtimeNano (linkname to runtime.nanotime) is read once by package time's init
	// (startNano = runtimeNano() - 1). Without it the package-level variables of package time
	// (time.UTC, time.Local, ...) are poison and time.Date / Time.AddDate cannot run.
	// The monotonic clock origin is an arbitrary constant; wall-clock readings come from the
	// time.Now intrinsic, which produces no monotonic reading.
	if _, ok := intrinsics["time.runtimeNano"]; !ok {
		intrinsics["time.runtimeNano"] = func(th *Thread, fn *ssa.Function, args []Value) Value {
			return th.ctx().Const(64, 1000)
		}
	}
}

// retypeIntrinsic implements harness helpers of the form
//
//	func verifXxRetype(dst any, src any) bool
//
// dst is a pointer *D, src a value S or pointer *S. If D and S have identical underlying types the
// value is copied into *dst and true is returned, else false. It gives a json.Marshal/Unmarshal stub
// access to values of function-local types such as (Node).MarshalJSON's nodeJSON, which a harness
// cannot name in a type assertion. Natively the helper does the same with package reflect.
func retypeIntrinsic(th *Thread, fn *ssa.Function, args []Value) Value {
	ctx := th.ctx()
	fr := &Frame{id: -9, fn: fn}
	dst, ok1 := args[0].(*IfaceV)
	src, ok2 := args[1].(*IfaceV)
	if !ok1 || !ok2 || dst == nil || src == nil || dst.T == nil || src.T == nil {
		return ctx.False()
	}
	pt, ok := dst.T.Underlying().(*types.Pointer)
	if !ok {
		return ctx.False()
	}
	sv, st := src.V, src.T
	if sp, ok := st.Underlying().(*types.Pointer); ok {
		pv, ok := sv.(*PtrV)
		if !ok || pv.IsNil() {
			return ctx.False()
		}
		sv, st = th.load(fr, pv), sp.Elem()
	}
	if !types.Identical(pt.Elem().Underlying(), st.Underlying()) {
		return ctx.False()
	}
	th.store(fr, dst.V, copyVal(sv))
	return ctx.True()
}

func init() {
	intrinsics[modPath+"/internal/data.verifC41Retype"] = retypeIntrinsic
}

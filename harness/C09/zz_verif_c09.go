package repository

// C09: prune never loses data that is still referenced.
//   plan part    : real PlanPrune on the symbolic state of zz_verif_c10_state.go, all options symbolic
//   execute part : real PrunePlan.Execute with CopyBlobs / rewriteIndexFiles / deleteFiles /
//                  SaveFallback replaced by event-logging stubs with symbolic failures

import (
	"context"
	"errors"

	"github.com/restic/restic/internal/repository/index"
	"github.com/restic/restic/internal/repository/pack"
	"github.com/restic/restic/internal/restic"
	"github.com/restic/restic/internal/verifrt"
)

// ---------------------------------------------------------------- plan part

func verifC09Opts(s *verifC10State) PruneOptions {
	small := uint64(0)
	if verifC10Bool("smallSet") {
		small = uint64(verifrt.Uint32("smallPack"))
		verifrt.Assume(small <= uint64(s.repo.PackSize()))
	}
	maxUnused := verifrt.Uint64("maxUnused")
	return PruneOptions{
		UnsafeRecovery:      verifC10Bool("unsafeRecovery"),
		MaxUnusedBytes:      func(_ uint64) uint64 { return maxUnused },
		MaxRepackBytes:      verifrt.Uint64("maxRepack"),
		SmallPackBytes:      small,
		RepackCacheableOnly: verifC10Bool("cacheableOnly"),
		RepackUncompressed:  s.repo.Config().Version >= 2 && verifC10Bool("repackUncompressed"),
	}
}

// verifC09CheckPlan: safety of a plan w.r.t. the state it was computed from.
func verifC09CheckPlan(s *verifC10State, plan *PrunePlan, err error) {
	// what the specification says about errors
	for k := range s.handles {
		if !s.used[k] {
			continue
		}
		copies, present := 0, 0
		for _, e := range s.entries {
			if e.hidx == k {
				copies++
				if s.listed[e.pack] {
					present++
				}
			}
		}
		if copies == 0 {
			verifrt.Assert(err != nil, "a used blob is missing from the index but prune does not abort")
			verifrt.Assert(errors.Is(err, ErrIndexIncomplete), "a used blob is missing from the index: wrong error")
		} else if present == 0 {
			verifrt.Assert(err != nil, "every pack holding a used blob is missing but prune does not abort")
		}
	}
	if err != nil {
		verifrt.Assert(plan == nil, "error and plan returned")
		return
	}
	verifrt.Reach("plan-ok")

	for p, id := range s.packIDs {
		indexed := s.nidx[p] > 0
		if plan.removePacksFirst.Has(id) {
			verifrt.Assert(!indexed, "removePacksFirst contains an indexed pack")
			verifrt.Assert(s.listed[p], "removePacksFirst contains a pack that does not exist")
		}
		if plan.removePacks.Has(id) || plan.repackPacks.Has(id) {
			verifrt.Assert(indexed && s.listed[p], "removePacks/repackPacks contain an unindexed or missing pack")
		}
		if plan.ignorePacks.Has(id) {
			verifrt.Assert(!s.listed[p], "ignorePacks contains a pack that exists")
		}
	}
	if plan.opts.UnsafeRecovery {
		verifrt.Assert(len(plan.repackPacks) == 0, "unsafe recovery must not repack")
	}

	// every used blob survives: a copy in a pack that stays (present, right size, neither removed nor
	// repacked nor forgotten), or the blob is kept while one of its packs is repacked
	for k, h := range s.handles {
		if !s.used[k] {
			continue
		}
		safe := false
		for _, e := range s.entries {
			if e.hidx != k || !s.listed[e.pack] {
				continue
			}
			id := s.packIDs[e.pack]
			if plan.removePacks.Has(id) || plan.ignorePacks.Has(id) || plan.removePacksFirst.Has(id) {
				continue
			}
			sizeOK := uint64(s.size[e.pack]) == s.blobBytes(e.pack)+s.headerSize(e.pack)
			if plan.repackPacks.Has(id) {
				if plan.keepBlobs != nil && plan.keepBlobs.Has(h) {
					verifrt.Assert(sizeOK, "a used blob is to be salvaged from a pack of unexpected size")
					safe = true
				}
				continue
			}
			verifrt.Assert(sizeOK, "a used blob is left in a pack of unexpected size without complaint")
			safe = true
		}
		verifrt.Assert(safe, "a used blob is lost by the plan")
	}
	if len(plan.repackPacks) > 0 {
		verifrt.Reach("repack")
	}
}

// VerifC09_PlanStructure: symbolic index structure, used set and options; concrete lengths,
// faithful listing.
func VerifC09_PlanStructure() {
	s := verifC10Build(verifC10Cfg{})
	plan, err := PlanPrune(context.Background(), verifC09Opts(s), s.repo, s.getUsed, restic.NewNoopPrinter())
	verifC09CheckPlan(s, plan, err)
	if errors.Is(err, ErrIndexIncomplete) {
		verifrt.Reach("missing-blob")
	}
}

// VerifC09_PlanListing: fixed index {pack0: blob0, blob1(tree); pack1: blob0; pack2: -}, symbolic
// used set, listing (present?, size), repository version and options.
func VerifC09_PlanListing() {
	s := verifC10Build(verifC10Cfg{fixed: [][]int{{0, 1}, {0}, {}}, symListing: true, symRepo: true})
	plan, err := PlanPrune(context.Background(), verifC09Opts(s), s.repo, s.getUsed, restic.NewNoopPrinter())
	verifC09CheckPlan(s, plan, err)
	if errors.Is(err, ErrPacksMissing) {
		verifrt.Reach("missing-pack")
	}
	if errors.Is(err, ErrSizeNotMatching) {
		verifrt.Reach("size-mismatch")
	}
}

// VerifC09_PlanListing2: fixed index {pack0: blob0, blob2; pack1: blob2, blob0; pack2: blob0} (data
// blobs), otherwise as VerifC09_PlanListing.
func VerifC09_PlanListing2() {
	s := verifC10Build(verifC10Cfg{fixed: [][]int{{0, 2}, {2, 0}, {0}}, symListing: true})
	plan, err := PlanPrune(context.Background(), verifC09Opts(s), s.repo, s.getUsed, restic.NewNoopPrinter())
	verifC09CheckPlan(s, plan, err)
}

// ---------------------------------------------------------------- execute part

type verifC09Event struct {
	kind  string // "del-pack", "del-index", "copy", "rewrite", "fallback"
	packs restic.IDSet
	ok    bool
}

type verifC09Trace struct {
	ev        []verifC09Event
	keepEmpty bool // keepBlobs was empty when CopyBlobs returned successfully
}

var verifC09T *verifC09Trace

func verifC09Fail(name string) error {
	if verifC10Bool(name) {
		return errors.New(name)
	}
	return nil
}

func verifC09StubDeleteFiles(_ context.Context, ignoreError bool, _ restic.RemoverUnpacked[restic.FileType], fileList restic.IDSet, fileType restic.FileType, _ restic.Printer) error {
	kind := "del-index"
	if fileType == restic.PackFile {
		kind = "del-pack"
	}
	// model of ParallelRemove: removes are attempted; a failure is reported unless ignored
	err := verifC09Fail("deleteFails")
	verifC09T.ev = append(verifC09T.ev, verifC09Event{kind: kind, packs: fileList.Clone(), ok: err == nil})
	if ignoreError {
		return nil
	}
	return err
}

func verifC09StubCopyBlobs(_ context.Context, _ *Repository, _ restic.Repository, _ restic.BlobSaverWithAsync, packs restic.IDSet, keepBlobs repackBlobSet, _ restic.Counter, _ LogFunc) error {
	err := verifC09Fail("copyFails")
	if err == nil && !verifC10Bool("copyIncomplete") {
		// a complete copy processes (deletes) every blob of keepBlobs
		for _, h := range verifC09Handles {
			keepBlobs.Delete(h)
		}
	}
	verifC09T.ev = append(verifC09T.ev, verifC09Event{kind: "copy", packs: packs.Clone(), ok: err == nil})
	if err == nil {
		verifC09T.keepEmpty = keepBlobs.Len() == 0
	}
	return err
}

func verifC09StubUploader(r *Repository, ctx context.Context, fn func(ctx context.Context, uploader restic.BlobSaverWithAsync) error) error {
	if err := fn(ctx, nil); err != nil {
		return err
	}
	if err := verifC09Fail("flushFails"); err != nil {
		// the copy is not durable: downgrade the recorded event
		for i := range verifC09T.ev {
			if verifC09T.ev[i].kind == "copy" {
				verifC09T.ev[i].ok = false
			}
		}
		return err
	}
	return nil
}

func verifC09StubRewrite(_ context.Context, _ *Repository, removePacks restic.IDSet, oldIndexes restic.IDSet, extraObsolete restic.IDs, _ restic.Printer) error {
	verifrt.Assert(oldIndexes == nil && extraObsolete == nil, "prune must rewrite all index files")
	err := verifC09Fail("rewriteFails")
	verifC09T.ev = append(verifC09T.ev, verifC09Event{kind: "rewrite", packs: removePacks.Clone(), ok: err == nil})
	return err
}

func verifC09StubFallback(_ *index.MasterIndex, _ context.Context, _ restic.SaverRemoverUnpacked[restic.FileType], excludePacks restic.IDSet, _ restic.Counter) error {
	err := verifC09Fail("fallbackFails")
	verifC09T.ev = append(verifC09T.ev, verifC09Event{kind: "fallback", packs: excludePacks.Clone(), ok: err == nil})
	return err
}

var verifC09Handles []restic.BlobHandle

// VerifC09_Execute: any plan over 4 packs (symbolic membership in removePacksFirst / repackPacks /
// removePacks / ignorePacks), symbolic keepBlobs, symbolic failures of every step.
func VerifC09_Execute() {
	verifC09T = &verifC09Trace{}
	verifrt.Stub("internal/repository.deleteFiles", verifC09StubDeleteFiles)
	verifrt.Stub("internal/repository.CopyBlobs", verifC09StubCopyBlobs)
	verifrt.Stub("(*internal/repository.Repository).WithBlobUploader", verifC09StubUploader)
	verifrt.Stub("internal/repository.rewriteIndexFiles", verifC09StubRewrite)
	verifrt.Stub("(*internal/repository/index.MasterIndex).SaveFallback", verifC09StubFallback)

	np := verifrt.Param("packs", 4)
	first, repack, remove, ignore := restic.NewIDSet(), restic.NewIDSet(), restic.NewIDSet(), restic.NewIDSet()
	var ids []restic.ID
	class := make([]int, np)
	for p := 0; p < np; p++ {
		var id restic.ID
		id[0] = byte(0x21 + p)
		ids = append(ids, id)
		c := verifrt.Int("class", 0, 4) // 0 kept, 1 unindexed, 2 repack, 3 remove, 4 missing
		switch {
		case c == 1:
			first.Insert(id)
			class[p] = 1
		case c == 2:
			repack.Insert(id)
			class[p] = 2
		case c == 3:
			remove.Insert(id)
			class[p] = 3
		case c == 4:
			ignore.Insert(id)
			class[p] = 4
		}
	}

	// a real index with one blob per pack, so that keepBlobs is a real AssociatedSet
	idx := index.NewIndex()
	verifC09Handles = nil
	for p := 0; p < np; p++ {
		var bid restic.ID
		bid[0] = byte(1 + p)
		h := restic.BlobHandle{ID: bid, Type: restic.DataBlob}
		verifC09Handles = append(verifC09Handles, h)
		if class[p] != 1 {
			idx.StorePack(ids[p], pack.Blobs{{BlobHandle: h, Offset: 0, Length: 100}})
		}
	}
	idx.Finalize()
	var iid restic.ID
	iid[0] = 0xee
	_ = idx.SetID(iid)
	mi := index.NewMasterIndex()
	mi.Insert(idx)
	_ = mi.MergeFinalIndexes()
	repo := &Repository{be: &verifC10Backend{conns: 2}, idx: mi, cfg: restic.Config{Version: 2}, opts: Options{PackSize: DefaultPackSize}}

	var keep *index.AssociatedSet[uint8]
	if len(repack) > 0 {
		// PlanPrune's contract: keepBlobs is non-nil iff something is repacked
		keep = index.NewAssociatedSet[uint8](mi)
		for p := 0; p < np; p++ {
			if class[p] == 2 && verifC10Bool("keep") {
				keep.Insert(verifC09Handles[p])
			}
		}
	}
	opts := PruneOptions{DryRun: verifC10Bool("dryRun"), UnsafeRecovery: verifC10Bool("unsafeRecovery")}
	if opts.UnsafeRecovery {
		verifrt.Assume(len(repack) == 0) // PlanPrune never repacks with --unsafe-recover-no-free-space
	}
	plan := &PrunePlan{removePacksFirst: first, repackPacks: repack, keepBlobs: keep, removePacks: remove, ignorePacks: ignore, repo: repo, opts: opts}

	err := plan.Execute(context.Background(), restic.NewNoopPrinter())

	tr := verifC09T
	if opts.DryRun {
		verifrt.Assert(len(tr.ev) == 0 && err == nil, "dry run touched the repository")
		verifrt.Reach("dry-run")
		return
	}
	// every prefix of the trace must be safe; the conditions below only look backwards, so checking
	// each removal against the events before it covers a crash after every event.
	copied := false       // CopyBlobs succeeded, flushed, and left keepBlobs empty
	indexDropped := restic.NewIDSet()
	allIndexDeleted := false
	aborted := false
	for _, e := range tr.ev {
		verifrt.Assert(!aborted, "Execute continued after a failed step")
		switch e.kind {
		case "copy":
			copied = e.ok && tr.keepEmpty
			if !copied {
				aborted = true
			}
		case "rewrite":
			if e.ok {
				indexDropped.Merge(e.packs)
			} else {
				aborted = true
			}
		case "del-index":
			if e.ok {
				allIndexDeleted = true
			} else {
				aborted = true
			}
		case "fallback":
			if !e.ok {
				aborted = true
			}
			for p := 0; p < np; p++ {
				if class[p] == 0 {
					verifrt.Assert(!e.packs.Has(ids[p]), "the fallback index omits a pack that is kept")
				}
			}
		case "del-pack":
			for p := 0; p < np; p++ {
				if !e.packs.Has(ids[p]) {
					continue
				}
				switch class[p] {
				case 0:
					verifrt.Assert(false, "a pack that the plan keeps is deleted")
				case 1:
					// unindexed: may go at any time
				case 2:
					verifrt.Assert(copied, "a repacked pack is deleted although its blobs were not (completely) copied")
					verifrt.Assert(indexDropped.Has(ids[p]) || allIndexDeleted, "a pack is deleted before the index stopped referencing it")
				case 3:
					verifrt.Assert(indexDropped.Has(ids[p]) || allIndexDeleted, "a pack is deleted before the index stopped referencing it")
				case 4:
					verifrt.Assert(false, "a missing pack is deleted")
				}
			}
		}
	}
	for _, e := range tr.ev {
		if e.kind == "rewrite" {
			for p := 0; p < np; p++ {
				if class[p] == 0 || class[p] == 1 {
					verifrt.Assert(!e.packs.Has(ids[p]), "the index rewrite drops a pack that is kept")
				}
				if class[p] == 2 {
					verifrt.Assert(!e.packs.Has(ids[p]) || copied, "the index rewrite drops a repacked pack whose blobs were not copied")
				}
			}
		}
	}
	if err == nil {
		verifrt.Assert(!aborted, "Execute reports success although a step failed")
		// a successful run did all the work
		for p := 0; p < np; p++ {
			if class[p] >= 2 {
				verifrt.Assert(indexDropped.Has(ids[p]) || allIndexDeleted, "success, but the index still references a removed/missing pack")
			}
		}
		verifrt.Reach("execute-ok")
	} else {
		verifrt.Reach("execute-error")
	}
}

package index

// C09 (index part): the real (*MasterIndex).Rewrite - the function prune and repair index use to drop the
// entries of removed packs from the index files - runs with its real goroutines (feeder, loader, rewriter,
// EachByPack producers, savers, ParallelRemove workers), channels and errgroups over a small symbolic set of
// saved index files. Stubbed is only the environment: reading/decoding an index file (JSON), writing an index
// file (JSON + backend), removing a file (backend), sha256 (ideal hash), and the "is this index full"
// predicates (package variables, symbolic answers instead of 50000 blobs / 10 minutes).
//
// Property: nothing that is listed in an index file before Rewrite and does not belong to an excluded pack
// is ever missing from the set of existing index files - at no point in time (checked after every removal,
// so it also holds for a crash after every event), and on success the surviving processed + new files list
// exactly the non-excluded packs, each exactly once.

import (
	"bytes"
	"context"
	"errors"
	"hash"

	"github.com/restic/restic/internal/repository/pack"
	"github.com/restic/restic/internal/restic"
	"github.com/restic/restic/internal/verifrt"
)

type verifC09RwEntry struct {
	packID restic.ID
	blob   pack.Blob
}

type verifC09RwFile struct {
	id      restic.ID
	old     bool // existed before Rewrite
	proc    bool // old, and one of the index files Rewrite has to process
	extra   bool // handed to Rewrite as extraObsolete
	exists  bool
	entries []verifC09RwEntry // what the file lists
}

// verifC09RwState is the repository as seen by Rewrite (restic.Unpacked) and the event recorder.
type verifC09RwState struct {
	restic.Unpacked[restic.FileType]
	poolIDs  []restic.ID
	pool     []pack.Blobs // the blobs of pool pack p (what every index file listing p says)
	excluded []bool
	content  [][]int // per old index file: the pool packs it lists, in order
	files    []*verifC09RwFile

	loadFailure  bool // param: LoadUnpacked may fail
	nsaved       int
	saveFailed   bool
	removeFailed bool
	loadFailed   bool
	removals     int // attempts
}

var verifC09RwS *verifC09RwState

func verifC09RwBool(name string) bool {
	if verifrt.Bool(name) {
		return true
	}
	return false
}

// verifC09RwPick: an arbitrary value in [lo,hi] as a per-path constant.
func verifC09RwPick(name string, lo, hi int) int {
	x := verifrt.Int(name, lo, hi)
	for v := lo; v < hi; v++ {
		if x == v {
			return v
		}
	}
	return hi
}

func (s *verifC09RwState) find(id restic.ID) *verifC09RwFile {
	for _, f := range s.files {
		if f.id == id {
			return f
		}
	}
	return nil
}

// entriesOf: how many entries file f has for pool pack p, and whether every blob of p is among them.
func (s *verifC09RwState) entriesOf(f *verifC09RwFile, p int) (n int, complete bool) {
	found := make([]bool, len(s.pool[p]))
	for _, e := range f.entries {
		if e.packID != s.poolIDs[p] {
			continue
		}
		n++
		for j, b := range s.pool[p] {
			if e.blob == b {
				found[j] = true
			}
		}
	}
	complete = true
	for _, ok := range found {
		if !ok {
			complete = false
		}
	}
	return n, complete
}

// lost: some pack that is not excluded was listed (with all its blobs) in an index file before Rewrite
// and no existing index file lists it completely any more.
func (s *verifC09RwState) lost() bool {
	for p := range s.pool {
		if s.excluded[p] {
			continue
		}
		was, is := false, false
		for k, f := range s.files {
			if f.old && !f.extra {
				for _, q := range s.content[k] {
					if q == p {
						was = true
					}
				}
			}
			if f.exists {
				if _, complete := s.entriesOf(f, p); complete {
					is = true
				}
			}
		}
		if was && !is {
			return true
		}
	}
	return false
}

func (s *verifC09RwState) Connections() uint { return 1 }

func (s *verifC09RwState) LoadUnpacked(_ context.Context, t restic.FileType, id restic.ID) ([]byte, error) {
	verifrt.Assert(t == restic.IndexFile, "Rewrite loads a file that is not an index file")
	f := s.find(id)
	verifrt.Assert(f != nil && f.exists && f.old && !f.extra, "Rewrite loads an index file that does not exist")
	if s.loadFailure && verifC09RwBool("loadFails") {
		s.loadFailed = true
		return nil, errors.New("load failed")
	}
	return []byte{id[1]}, nil
}

// stub of DecodeIndex: the file decodes to the index the harness prepared for this ID
func verifC09RwDecodeIndex(_ []byte, id restic.ID) (*Index, error) {
	s := verifC09RwS
	for k, f := range s.files {
		if f.id == id && f.old && !f.extra {
			return s.build(k), nil
		}
	}
	verifrt.Assert(false, "unknown index file decoded")
	return nil, errors.New("unknown index file")
}

// stub of (*Index).SaveIndex: the file content is what the real generatePackList (the encoder's input)
// yields; a fresh ID; symbolic failure (then the file does not exist).
func verifC09RwSaveIndex(idx *Index, _ context.Context, _ restic.SaverUnpacked[restic.FileType]) (restic.ID, error) {
	s := verifC09RwS
	verifrt.Assert(s.removals == 0, "a new index file is saved after the removal of old index files has begun")
	id := restic.ID{0xd0, byte(s.nsaved)}
	s.nsaved++
	if err := idx.SetID(id); err != nil {
		panic(err) // as the real SaveIndex
	}
	if verifC09RwBool("saveFails") {
		s.saveFailed = true
		return id, errors.New("save failed")
	}
	f := &verifC09RwFile{id: id, exists: true}
	list, _ := idx.generatePackList()
	for _, pj := range list {
		known := false
		for _, pid := range s.poolIDs {
			if pid == pj.ID {
				known = true
			}
		}
		verifrt.Assert(known, "a new index file lists a pack that no old index file listed")
		for _, b := range pj.Blobs {
			f.entries = append(f.entries, verifC09RwEntry{packID: pj.ID, blob: pack.Blob{
				BlobHandle: restic.BlobHandle{ID: b.ID, Type: b.Type}, Offset: b.Offset, Length: b.Length, UncompressedLength: b.UncompressedLength}})
		}
	}
	s.files = append(s.files, f)
	return id, nil
}

func (s *verifC09RwState) RemoveUnpacked(_ context.Context, t restic.FileType, id restic.ID) error {
	verifrt.Assert(t == restic.IndexFile, "Rewrite removes a file that is not an index file")
	verifrt.Assert(!s.saveFailed, "an old index file is removed although saving a new index file failed")
	verifrt.Assert(!s.loadFailed, "an old index file is removed although loading an index file failed")
	f := s.find(id)
	verifrt.Assert(f != nil && (f.proc || f.extra), "Rewrite removes an index file that is neither one of the processed old ones nor extraObsolete")
	if f == nil {
		return nil
	}
	verifrt.Assert(f.exists, "an index file is removed twice")
	s.removals++
	if verifC09RwBool("removeFails") {
		s.removeFailed = true
		return errors.New("remove failed")
	}
	f.exists = false
	verifrt.Assert(!s.lost(), "index entries of a pack that is not excluded are lost: an index file was removed and no existing index file lists the pack")
	return nil
}

// ideal collision-free streaming hash for crypto/sha256.New (PackBlobsHash): k-th distinct input -> {k+1,0,...}
type verifC09RwTable struct{ seen [][]byte }

type verifC09RwHash struct {
	t   *verifC09RwTable
	buf []byte
}

func (h *verifC09RwHash) Write(p []byte) (int, error) {
	h.buf = append(h.buf, p...)
	return len(p), nil
}
func (h *verifC09RwHash) Sum(b []byte) []byte {
	k := -1
	for i, c := range h.t.seen {
		if bytes.Equal(c, h.buf) {
			k = i
		}
	}
	if k < 0 {
		h.t.seen = append(h.t.seen, append([]byte(nil), h.buf...))
		k = len(h.t.seen) - 1
	}
	id := restic.ID{byte(k + 1), 0x5a}
	return append(b, id[:]...)
}
func (h *verifC09RwHash) Reset()         { h.buf = nil }
func (h *verifC09RwHash) Size() int      { return 32 }
func (h *verifC09RwHash) BlockSize() int { return 64 }

// build: the index that old index file k decodes to
func (s *verifC09RwState) build(k int) *Index {
	idx := NewIndex()
	for _, p := range s.content[k] {
		idx.StorePack(s.poolIDs[p], s.pool[p])
	}
	idx.Finalize()
	_ = idx.SetID(s.files[k].id)
	return idx
}

// VerifC09_Rewrite: N saved index files, each listing 1..M packs (in any order) out of a pool of P packs
// with 1-2 blobs each - so the same pack entry can be listed in several index files, as an interrupted
// earlier prune leaves behind; symbolic excludePacks; oldIndexes nil or any subset; optionally an extra
// obsolete file; symbolic answers of index.Full/Oversized; symbolic failure of every save and removal.
func VerifC09_Rewrite() { verifC09RwRun() }

// VerifC09_Rewrite3: the same harness with three index files (see the bounds in checks/C09.json); here
// index.Full / index.Oversized are restic's formulas with a symbolic blob limit instead of free answers.
func VerifC09_Rewrite3() { verifC09RwRun() }

func verifC09RwRun() {
	nf := verifrt.Param("files", 2)
	np := verifrt.Param("pool", 3)
	maxPer := verifrt.Param("packs_per_file", 2)
	s := &verifC09RwState{loadFailure: verifrt.Param("load_failure", 0) != 0}
	verifC09RwS = s

	// pool of packs; odd packs have two blobs (a data and a tree blob, the latter compressed)
	for p := 0; p < np; p++ {
		s.poolIDs = append(s.poolIDs, restic.ID{byte(0x30 + p), 0xcc})
		l := uint(10 + p)
		blobs := pack.Blobs{{BlobHandle: restic.BlobHandle{ID: restic.ID{byte(1 + 2*p), 0xb1}, Type: restic.DataBlob}, Offset: 0, Length: l}}
		if p%2 == 1 {
			blobs = append(blobs, pack.Blob{BlobHandle: restic.BlobHandle{ID: restic.ID{byte(2 + 2*p), 0xb1}, Type: restic.TreeBlob}, Offset: l, Length: 20, UncompressedLength: 50})
		}
		s.pool = append(s.pool, blobs)
	}
	excludePacks := restic.NewIDSet()
	if verifrt.Param("exclude_nil", 0) != 0 && verifC09RwBool("excludeNil") {
		excludePacks = nil
	}
	for p := 0; p < np; p++ {
		ex := excludePacks != nil && verifC09RwBool("excluded")
		s.excluded = append(s.excluded, ex)
		if ex {
			excludePacks.Insert(s.poolIDs[p])
		}
	}

	// old index files; oldIndexes: nil (prune) or a subset of the index files (repair index: the files it
	// wrote itself are not to be processed). Param old_indexes: 0 = nil only, 1 = nil or the first m < N
	// files (every proper subset up to renaming the files: the files differ only in their ID, the contents of
	// all files are chosen from the same alphabet, and Rewrite never looks at a file outside oldIndexes),
	// 2 = nil or any subset (oldIndexes == all files behaves like nil)
	oldMode := verifrt.Param("old_indexes", 1)
	anyOrder := verifrt.Param("any_order", 1) != 0
	subset := oldMode != 0 && verifC09RwBool("oldIndexesGiven")
	var oldIndexes restic.IDSet
	nproc := nf
	if subset {
		oldIndexes = restic.NewIDSet()
		if oldMode == 1 {
			nproc = verifC09RwPick("processedFiles", 0, nf-1)
		}
	}
	for k := 0; k < nf; k++ {
		f := &verifC09RwFile{id: restic.ID{0x1d, byte(k)}, old: true, exists: true, proc: true}
		var c []int
		a := verifC09RwPick("pack", 0, np-1)
		c = append(c, a)
		for j := 1; j < maxPer; j++ {
			b := verifC09RwPick("morePack", -1, np-1)
			if b < 0 {
				break
			}
			for _, q := range c {
				verifrt.Assume(q != b) // an index file lists a pack once
				if !anyOrder {
					verifrt.Assume(q < b)
				}
			}
			c = append(c, b)
		}
		s.content = append(s.content, c)
		for _, p := range c {
			for _, b := range s.pool[p] {
				f.entries = append(f.entries, verifC09RwEntry{packID: s.poolIDs[p], blob: b})
			}
		}
		if subset {
			if oldMode == 1 {
				f.proc = k < nproc
			} else {
				f.proc = verifC09RwBool("inOldIndexes")
			}
			if f.proc {
				oldIndexes.Insert(f.id)
			}
		}
		s.files = append(s.files, f)
	}
	var extraObsolete restic.IDs
	if verifrt.Param("extra_obsolete", 0) != 0 {
		// e.g. an index file that repair index could not decode: exists, is not part of the master index
		f := &verifC09RwFile{id: restic.ID{0x1e, 0xee}, old: true, extra: true, exists: true}
		s.content = append(s.content, nil)
		s.files = append(s.files, f)
		extraObsolete = restic.IDs{f.id}
	}

	verifrt.Stub("internal/repository/index.DecodeIndex", verifC09RwDecodeIndex)
	verifrt.Stub("(*internal/repository/index.Index).SaveIndex", verifC09RwSaveIndex)
	tbl := &verifC09RwTable{}
	verifrt.Stub("crypto/sha256.New", func() hash.Hash { return &verifC09RwHash{t: tbl} })
	// Full and Oversized are package variables (restic's tests replace them as well). Oversized is only
	// asked for an index that is full.
	if verifrt.Param("full_model", 0) == 0 {
		// free answer for every call (a superset of what the blob count and the age of an index can yield)
		Full = func(*Index) bool { return verifC09RwBool("indexFull") }
		oversized := verifrt.Param("oversized", 1) != 0 // 0: no index file is oversized
		Oversized = func(*Index) bool { return oversized && verifC09RwBool("indexOversized") }
	} else {
		// restic's formulas with a symbolic limit: full iff #blobs >= limit, oversized iff #blobs >= limit + 2
		// (limit = indexMaxBlobs, 2 = pack.MaxHeaderEntries; limit > all blobs: never full); no index gets
		// full by age
		most := 0
		for p := 0; p < np; p++ {
			most += len(s.pool[p])
		}
		limit := uint(verifC09RwPick("fullLimit", 1, most+1))
		count := func(idx *Index) uint {
			var n uint
			for typ := range restic.NumBlobTypes {
				n += idx.Len(typ)
			}
			return n
		}
		Full = func(idx *Index) bool { return count(idx) >= limit }
		Oversized = func(idx *Index) bool { return count(idx) >= limit+2 }
	}

	// the master index as after LoadIndex
	mi := NewMasterIndex()
	for k := 0; k < nf; k++ {
		mi.Insert(s.build(k))
	}
	verifrt.Assert(mi.MergeFinalIndexes() == nil, "MergeFinalIndexes failed")

	err := mi.Rewrite(context.Background(), s, excludePacks, oldIndexes, extraObsolete, MasterIndexRewriteOpts{})

	// at no time anything is lost (removals checked this at their time; saves only add)
	verifrt.Assert(!s.lost(), "index entries of a pack that is not excluded are lost")
	for _, f := range s.files {
		if f.old && !f.proc && !f.extra {
			verifrt.Assert(f.exists, "an index file that is not to be processed was removed")
		}
	}
	failed := s.saveFailed || s.removeFailed || s.loadFailed
	if err != nil {
		verifrt.Assert(failed, "Rewrite fails without a failing step")
		if s.saveFailed || s.loadFailed {
			verifrt.Assert(s.removals == 0, "old index files removed although the rewrite failed")
			verifrt.Reach("rewrite-failed")
		} else {
			verifrt.Reach("remove-failed")
		}
		return
	}
	verifrt.Assert(!failed, "Rewrite reports success although a step failed")

	// success: the processed old files that are left + the new files list exactly the packs of the processed
	// old files that are not excluded, each exactly once
	dup, fast := false, false
	for p := 0; p < np; p++ {
		want := false
		total, exact, nold := 0, 0, 0
		for k, f := range s.files {
			if f.extra {
				continue
			}
			if f.old && f.proc {
				for _, q := range s.content[k] {
					if q == p {
						want = true
						nold++
					}
				}
			}
			if !f.exists || (f.old && !f.proc) {
				continue
			}
			if f.old {
				fast = true
			}
			n, complete := s.entriesOf(f, p)
			total += n
			if complete {
				exact++
			}
		}
		if nold > 1 {
			dup = true
		}
		if s.excluded[p] {
			verifrt.Assert(total == 0, "an excluded pack is still listed in an index file after Rewrite")
		} else if want {
			// some file lists every blob of the pack, and there are no entries beyond these
			verifrt.Assert(exact >= 1, "a pack that is not excluded is no longer (completely) listed after Rewrite")
			verifrt.Assert(total == len(s.pool[p]) && exact == 1, "a pack is listed more than once after Rewrite")
		} else {
			verifrt.Assert(total == 0, "Rewrite lists a pack that no processed index file listed")
		}
	}
	for _, f := range s.files {
		if f.extra {
			verifrt.Assert(!f.exists, "extraObsolete index file not removed")
		}
	}
	verifrt.Reach("rewritten")
	if dup {
		verifrt.Reach("duplicate-entries")
	}
	if fast {
		verifrt.Reach("index-kept")
	}
	if s.nsaved > 0 {
		verifrt.Reach("new-index-saved")
	}
}

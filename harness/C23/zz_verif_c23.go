package main

import (
	"context"
	"errors"
	"io"

	"github.com/restic/restic/internal/data"
	"github.com/restic/restic/internal/global"
	"github.com/restic/restic/internal/repository"
	"github.com/restic/restic/internal/restic"
	"github.com/restic/restic/internal/ui"
	"github.com/restic/restic/internal/verifrt"
)

type verifC23Counter struct{}

func (verifC23Counter) Add(uint64)            {}
func (verifC23Counter) SetMax(uint64)         {}
func (verifC23Counter) Get() (uint64, uint64) { return 0, 0 }
func (verifC23Counter) Done()                 {}

type verifC23Printer struct{ restic.Printer }

func (verifC23Printer) NewCounter(string) restic.Counter             { return verifC23Counter{} }
func (verifC23Printer) NewCounterTerminalOnly(string) restic.Counter { return verifC23Counter{} }
func (verifC23Printer) E(string, ...any)                             {}
func (verifC23Printer) S(string, ...any)                             {}
func (verifC23Printer) PT(string, ...any)                            {}
func (verifC23Printer) P(string, ...any)                             {}
func (verifC23Printer) V(string, ...any)                             {}
func (verifC23Printer) VV(string, ...any)                            {}

type verifC23Term struct{ ui.Terminal }

func (verifC23Term) OutputWriter() io.Writer { return io.Discard }

func verifC23ID(i int) restic.ID {
	var id restic.ID
	id[0] = byte(0x40 + i)
	return id
}

// VerifC23_Forget: runForget (whole function) with the snapshot lookup, grouping and policy
// evaluation replaced by ARBITRARY results: whatever they return, the files handed to the remover are
// exactly the snapshots reported as "remove" (or exactly the named snapshots), nothing is removed in a
// dry run, and nothing at all is removed when some group would lose all its snapshots under a
// non-empty policy or when the policy is empty without --unsafe-allow-remove-all + filter.
func VerifC23_Forget() {
	nsn := verifrt.Param("snapshots", 3)
	n := verifrt.Int("n", 0, nsn)
	sns := make(data.Snapshots, n)
	group := make([]int, n)  // group of each snapshot: 0 or 1
	remove := make([]bool, n) // verdict of the (arbitrary) policy evaluation
	for i := 0; i < n; i++ {
		sn := &data.Snapshot{Hostname: "h"}
		data.TestSetSnapshotID(nil, sn, verifC23ID(i))
		sns[i] = sn
		if verifrt.Bool("group1") {
			group[i] = 1
		}
		remove[i] = verifrt.Bool("remove")
	}
	explicit := verifrt.Bool("explicitIDs")
	var args []string
	if explicit {
		args = []string{"40"}
	}

	opts := ForgetOptions{DryRun: verifrt.Bool("dryRun"), UnsafeAllowRemoveAll: verifrt.Bool("unsafeAll")}
	if verifrt.Bool("keepLast") {
		opts.Last = 1
	}
	if verifrt.Bool("hostFilter") {
		opts.SnapshotFilter.Hosts = []string{"h"}
	}
	gopts := global.Options{Quiet: verifrt.Bool("quiet"), JSON: verifrt.Bool("json"), NoLock: verifrt.Bool("noLock")}
	gopts.Term = verifC23Term{}
	pruneOpts := PruneOptions{MaxUnused: "unlimited"}

	locked, unlocked := 0, 0
	verifrt.Stub("internal/ui/progress.NewTerminalPrinter", func(bool, uint, ui.Terminal) restic.Printer { return verifC23Printer{} })
	verifrt.Stub("cmd/restic.openWithExclusiveLock", func(ctx context.Context, _ global.Options, _ bool, _ restic.Printer) (context.Context, *repository.Repository, func(), error) {
		locked++
		return ctx, nil, func() { unlocked++ }, nil
	})
	verifrt.Stub("(*internal/data.SnapshotFilter).FindAll", func(_ *data.SnapshotFilter, ctx context.Context, _ restic.Lister, _ restic.LoaderUnpacked, _ []string, fn data.SnapshotFindCb) error {
		for _, sn := range sns {
			if err := fn(sn.ID().String(), sn, nil); err != nil {
				return err
			}
		}
		return nil
	})
	verifrt.Stub("internal/data.GroupSnapshots", func(list data.Snapshots, _ data.SnapshotGroupByOptions) (map[string]data.Snapshots, bool, error) {
		m := map[string]data.Snapshots{}
		for i, sn := range list {
			k := "{\"hostname\":\"g0\"}"
			if group[i] == 1 {
				k = "{\"hostname\":\"g1\"}"
			}
			m[k] = append(m[k], sn)
		}
		return m, false, nil
	})
	verifrt.Stub("encoding/json.Unmarshal", func([]byte, any) error { return nil })
	verifrt.Stub("internal/data.ApplyPolicy", func(list data.Snapshots, _ data.ExpirePolicy) (keep, rem data.Snapshots, reasons []data.KeepReason) {
		for _, sn := range list {
			idx := int(sn.ID()[0]) - 0x40
			if remove[idx] {
				rem = append(rem, sn)
			} else {
				keep = append(keep, sn)
			}
		}
		return keep, rem, nil
	})
	verifrt.Stub("cmd/restic.PrintSnapshots", func(io.Writer, data.Snapshots, []data.KeepReason, bool) error { return nil })
	verifrt.Stub("cmd/restic.PrintSnapshotGroupHeader", func(io.Writer, string) error { return nil })
	verifrt.Stub("cmd/restic.printJSONForget", func(io.Writer, []*ForgetGroup) error { return nil })
	var removedFiles []restic.ID
	removeFails := verifrt.Bool("removeFails")
	verifrt.Stub("internal/restic.ParallelRemove", func(_ context.Context, _ restic.RemoverUnpacked[restic.WriteableFileType], list restic.IDSet, ft restic.WriteableFileType, report func(restic.ID, error) error, _ restic.Counter) error {
		verifrt.Assert(ft == restic.WriteableSnapshotFile, "forget removes files that are not snapshots")
		for id := range list {
			removedFiles = append(removedFiles, id)
			var err error
			if removeFails {
				err = errors.New("remove failed")
			}
			if e := report(id, err); e != nil {
				return e
			}
		}
		return nil
	})

	err := runForget(context.Background(), opts, pruneOpts, gopts, gopts.Term, args)

	wasRemoved := func(i int) bool {
		for _, id := range removedFiles {
			if id == verifC23ID(i) {
				return true
			}
		}
		return false
	}
	verifrt.Assert(locked == unlocked, "repository lock not released")
	for _, id := range removedFiles {
		idx := int(id[0]) - 0x40
		verifrt.Assert(idx >= 0 && idx < n, "a file that is not one of the listed snapshots was removed")
	}
	if opts.DryRun || (gopts.NoLock && !opts.DryRun) {
		verifrt.Assert(len(removedFiles) == 0, "dry run (or rejected option combination) removed snapshots")
	}
	policyEmpty := opts.Last == 0
	if explicit {
		verifrt.Reach("explicit-ids")
		if !opts.DryRun && !gopts.NoLock {
			for i := 0; i < n; i++ {
				verifrt.Assert(wasRemoved(i), "a named snapshot was not removed")
			}
		}
		return
	}
	// policy mode
	groupKept := [2]int{}
	groupSize := [2]int{}
	for i := 0; i < n; i++ {
		groupSize[group[i]]++
		if !remove[i] {
			groupKept[group[i]]++
		}
	}
	wholeGroupLost := (groupSize[0] > 0 && groupKept[0] == 0) || (groupSize[1] > 0 && groupKept[1] == 0)
	switch {
	case policyEmpty && !(opts.UnsafeAllowRemoveAll && !opts.SnapshotFilter.Empty()):
		verifrt.Reach("empty-policy-refused")
		verifrt.Assert(err != nil || (gopts.NoLock && !opts.DryRun), "an empty policy must be refused")
		verifrt.Assert(len(removedFiles) == 0, "an empty policy removed snapshots")
	case !policyEmpty && wholeGroupLost:
		verifrt.Reach("whole-group-refused")
		verifrt.Assert(err != nil, "removing every snapshot of a group must be refused")
		verifrt.Assert(len(removedFiles) == 0, "snapshots were removed although a group would lose all its snapshots")
	default:
		verifrt.Reach("policy-applied")
		for i := 0; i < n; i++ {
			if wasRemoved(i) {
				verifrt.Assert(remove[i], "a snapshot that was reported as kept was removed")
			}
			if remove[i] && !opts.DryRun && !gopts.NoLock {
				verifrt.Assert(wasRemoved(i), "a snapshot reported as removed was not removed")
			}
		}
		if removeFails && len(removedFiles) > 0 {
			verifrt.Assert(err != nil, "failed removals must be reported")
		}
	}
}

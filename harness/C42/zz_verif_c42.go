package data

import (
	"context"
	"errors"

	"github.com/restic/restic/internal/restic"
	"github.com/restic/restic/internal/verifrt"
)

type verifC42Repo struct{ conns uint }

func (verifC42Repo) LoadBlob(context.Context, restic.BlobHandle, []byte) ([]byte, error) {
	return nil, errors.New("not used: LoadTree is stubbed")
}
func (verifC42Repo) LookupBlobSize(restic.BlobHandle) (uint, bool) { return 100, true }
func (r verifC42Repo) Connections() uint                           { return r.conns }

type verifC42Counter struct{ n uint64 }

func (c *verifC42Counter) Add(v uint64)          { c.n += v }
func (c *verifC42Counter) SetMax(uint64)         {}
func (c *verifC42Counter) Get() (uint64, uint64) { return c.n, 0 }
func (c *verifC42Counter) Done()                 {}

func verifC42TreeID(k int) restic.ID {
	var id restic.ID
	id[0] = 0x10 + byte(k)
	return id
}

func verifC42DataID(k int) restic.ID {
	var id restic.ID
	id[0] = 0x80 + byte(k)
	return id
}

// verifC42Pick returns an arbitrary value in [lo,hi] as a per-path constant (forks once per value),
// so that the schedule exploration below does not re-ask the solver about the shape.
func verifC42Pick(name string, lo, hi int) int {
	x := verifrt.Int(name, lo, hi)
	for v := lo; v < hi; v++ {
		if x == v {
			return v
		}
	}
	return hi
}

// VerifC42_FindUsedBlobs: FindUsedBlobs/StreamTrees over a symbolic DAG of trees (shared subtrees,
// optionally a missing tree) yields exactly the reachable trees and data blobs, loads every tree once,
// counts every root, and terminates on every schedule.
func VerifC42_FindUsedBlobs() {
	K := verifrt.Param("trees", 3)
	// tree k has two child slots: 0 = empty, 1 = a file with data blob k, 2+j = subtree j (j > k)
	child := make([][2]int, K)
	for k := 0; k < K; k++ {
		for s := 0; s < 2; s++ {
			c := verifC42Pick("child", 0, 1+K)
			verifrt.Assume(c < 2 || c-2 > k) // acyclic: content-addressed trees cannot contain themselves
			if c == 0 && k == 0 && s == 1 && verifrt.Param("allow_null", 1) != 0 && verifrt.Bool("nullSubtree") {
				c = -1 // a directory node whose subtree ID is all zeros (damaged or hand-made tree): ignored
			}
			child[k][s] = c
		}
	}
	missing := -1 // index of a tree that cannot be loaded, or -1
	if verifrt.Param("allow_missing", 1) != 0 {
		missing = verifC42Pick("missing", -1, K-1)
	}
	nroots := 1
	second := -1
	if verifrt.Param("allow_root2", 1) != 0 {
		second = verifC42Pick("root2", -1, K-1)
	}
	roots := restic.IDs{verifC42TreeID(0)}
	if second >= 0 {
		roots = append(roots, verifC42TreeID(second))
		nroots = 2
	}

	loads := make([]int, K)
	errMissing := errors.New("tree missing")
	verifrt.Stub("internal/data.LoadTree", func(_ context.Context, _ restic.BlobLoader, id restic.ID) (TreeNodeIterator, error) {
		k := int(id[0]) - 0x10
		verifrt.Assert(k >= 0 && k < K, "LoadTree called for an ID that is not a tree of the repository")
		loads[k]++
		if k == missing {
			return nil, errMissing
		}
		return func(yield func(NodeOrError) bool) {
			for s := 0; s < 2; s++ {
				c := child[k][s]
				var n *Node
				switch {
				case c == 0:
					continue
				case c == -1:
					var null restic.ID
					n = &Node{Name: "n", Type: NodeTypeDir, Subtree: &null}
				case c == 1:
					n = &Node{Name: "f", Type: NodeTypeFile, Content: restic.IDs{verifC42DataID(k)}}
				default:
					sub := verifC42TreeID(c - 2)
					n = &Node{Name: "d", Type: NodeTypeDir, Subtree: &sub}
				}
				if !yield(NodeOrError{Node: n}) {
					return
				}
			}
		}, nil
	})

	// reference reachability
	reach := make([]bool, K)
	var walk func(k int)
	walk = func(k int) {
		if reach[k] {
			return
		}
		reach[k] = true
		if k == missing {
			return
		}
		for s := 0; s < 2; s++ {
			if child[k][s] >= 2 {
				walk(child[k][s] - 2)
			}
		}
	}
	walk(0)
	if second >= 0 {
		walk(second)
	}
	missingReached := missing >= 0 && reach[missing]

	blobs := restic.NewBlobSet()
	p := &verifC42Counter{}
	err := FindUsedBlobs(context.Background(), verifC42Repo{conns: uint(verifrt.Param("conns", 1))}, roots, blobs, p)

	if missingReached {
		verifrt.Reach("missing-tree")
		verifrt.Assert(err != nil, "an unloadable reachable tree must make the traversal fail")
		return
	}
	verifrt.Assert(err == nil, "traversal failed although every reachable tree loads")
	for k := 0; k < K; k++ {
		has := blobs.Has(restic.BlobHandle{ID: verifC42TreeID(k), Type: restic.TreeBlob})
		verifrt.Assert(has == reach[k], "tree set differs from the reachable trees")
		if reach[k] {
			verifrt.Assert(loads[k] == 1, "a reachable tree was not processed exactly once")
		} else {
			verifrt.Assert(loads[k] == 0, "an unreachable tree was loaded")
		}
		wantData := reach[k] && (child[k][0] == 1 || child[k][1] == 1)
		hasData := blobs.Has(restic.BlobHandle{ID: verifC42DataID(k), Type: restic.DataBlob})
		verifrt.Assert(hasData == wantData, "data blob set differs from the blobs of reachable files")
	}
	verifrt.Assert(p.n == uint64(nroots), "progress counter differs from the number of roots")
	verifrt.Reach("traversal-done")
}

package data

import (
	"reflect"
	"strconv"
	"time"
	"unicode/utf8"

	"github.com/restic/restic/internal/verifrt"
)

// verifC41Retype copies src (a value S or pointer *S) into *dst if S and the pointee of dst have
// identical underlying types. Under the engine it is an intrinsic (engine/cmd/gosym/x_batchC.go).
func verifC41Retype(dst any, src any) bool {
	d := reflect.ValueOf(dst)
	if d.Kind() != reflect.Pointer {
		return false
	}
	s := reflect.ValueOf(src)
	if s.Kind() == reflect.Pointer {
		s = s.Elem()
	}
	if !s.Type().ConvertibleTo(d.Elem().Type()) {
		return false
	}
	d.Elem().Set(s.Convert(d.Elem().Type()))
	return true
}

// ---- model of encoding/json for the part of a node that restic encodes itself ----
// Contract of encoding/json used here: a string survives Marshal+Unmarshal unchanged iff it is valid
// UTF-8 (invalid bytes are replaced by U+FFFD); a []byte survives unchanged (base64), except that
// with omitempty an empty slice comes back as nil; other fields are passed through.

var verifC41Wire Node    // the object "on the wire"
var verifC41WireSet bool // Marshal was called
var verifC41NameHanded string

// verifC41Lossy: what a string looks like after Marshal+Unmarshal. For an invalid string the exact
// replacement does not matter here, only that the original is lost.
func verifC41Lossy(s string) string {
	if utf8.ValidString(s) {
		return s
	}
	return "\uFFFD"
}

func verifC41Marshal(v any) ([]byte, error) {
	if n, ok := v.(*Node); ok {
		// TreeJSONBuilder.AddNode: the encoding of a node is opaque here, only its position matters
		return []byte("<" + n.Name + ">"), nil
	}
	var n Node
	verifrt.Assert(verifC41Retype(&n, v), "json.Marshal stub: value is not a node")
	verifC41NameHanded = n.Name
	n.Name = verifC41Lossy(n.Name)
	n.LinkTarget = verifC41Lossy(n.LinkTarget)
	if len(n.LinkTargetRaw) == 0 {
		n.LinkTargetRaw = nil // omitempty
	} else {
		n.LinkTargetRaw = append([]byte(nil), n.LinkTargetRaw...)
	}
	verifC41Wire, verifC41WireSet = n, true
	return []byte("{node}"), nil
}

func verifC41Unmarshal(data []byte, v any) error {
	verifrt.Assert(verifC41WireSet && string(data) == "{node}", "json.Unmarshal stub: not the bytes produced by Marshal")
	verifrt.Assert(verifC41Retype(v, verifC41Wire), "json.Unmarshal stub: target is not a node")
	return nil
}

// verifC41IsPrint replaces strconv.IsPrint (binary searches over large tables): exact for ASCII,
// an uninterpreted predicate for all other runes. strconv.Quote escapes more or fewer non-ASCII runes
// depending on it; the properties below must hold whichever way it answers there. (It may not be
// left open for ASCII: a raw newline inside the quotes is rejected by strconv.Unquote.)
func verifC41IsPrint(r rune) bool {
	if r < 0x80 {
		return r >= 0x20 && r < 0x7f
	}
	return verifrt.UFBool("strconv.IsPrint", uint64(r))
}

// VerifC41_NameRoundTrip: Node.MarshalJSON hands encoding/json a valid UTF-8 name and
// Node.UnmarshalJSON recovers exactly the original bytes of name and link target.
func VerifC41_NameRoundTrip() {
	verifrt.Stub("encoding/json.Marshal", verifC41Marshal)
	verifrt.Stub("encoding/json.Unmarshal", verifC41Unmarshal)
	verifrt.Stub("strconv.IsPrint", verifC41IsPrint)
	name := verifrt.String("name", verifrt.Param("namelen", 2))
	target := verifrt.String("target", verifrt.Param("targetlen", 2))
	node := Node{Name: name, Type: NodeTypeSymlink, LinkTarget: target, Size: 7}

	data, err := node.MarshalJSON()
	verifrt.Assert(err == nil, "MarshalJSON failed")
	verifrt.Assert(utf8.ValidString(verifC41NameHanded), "the name handed to encoding/json is not valid UTF-8")
	// what restic hands over must also be what its own decoder expects
	back, uerr := strconv.Unquote(`"` + verifC41NameHanded + `"`)
	verifrt.Assert(uerr == nil && back == name, "unquoting the stored name does not give the original bytes")

	var out Node
	err = out.UnmarshalJSON(data)
	verifrt.Assert(err == nil, "UnmarshalJSON failed on MarshalJSON's output")
	verifrt.Assert(out.Name == name, "name changed in the round trip")
	verifrt.Assert(out.LinkTarget == target, "link target changed in the round trip")
	verifrt.Assert(out.LinkTargetRaw == nil, "LinkTargetRaw must not be visible after decoding")
	verifrt.Assert(out.Type == NodeTypeSymlink && out.Size == 7, "another field changed")
	if utf8.ValidString(target) {
		verifrt.Reach("valid-target")
	} else {
		verifrt.Reach("raw-target")
	}
	if utf8.ValidString(name) {
		verifrt.Reach("valid-name")
	} else {
		verifrt.Reach("invalid-name")
	}
}

// VerifC41_FixTime: fixTime leaves years 0..9999 alone and moves other years to 0 / 9999 without
// changing anything but the year, so that time.Time.MarshalJSON accepts the result.
func VerifC41_FixTime() {
	years := [...]int{-20000, -401, -4, -1, 0, 1, 1970, 9999, 10000, 10001, 12000, 20000}
	y := years[len(make([]struct{}, verifrt.Int("year", 0, len(years)-1)))]
	type md struct {
		m time.Month
		d int
	}
	days := [...]md{{1, 1}, {2, 28}, {3, 1}, {12, 31}, {2, 29}}
	dd := days[len(make([]struct{}, verifrt.Int("day", 0, len(days)-1)))]
	t := time.Date(y, dd.m, dd.d, 23, 59, 58, 999999999, time.UTC)
	in := t.Year() >= 0 && t.Year() <= 9999

	f := fixTime(t)

	if in {
		verifrt.Reach("in-range")
		verifrt.Assert(f.Equal(t), "a representable time was changed")
	} else {
		verifrt.Reach("out-of-range")
		want := 0
		if t.Year() > 9999 {
			want = 9999
		}
		verifrt.Assert(f.Year() == want, "year not clamped to 0 / 9999")
		if !(t.Month() == 2 && t.Day() == 29) {
			verifrt.Assert(f.Month() == t.Month() && f.Day() == t.Day(), "month or day changed")
		}
		verifrt.Assert(f.Hour() == 23 && f.Minute() == 59 && f.Second() == 58 && f.Nanosecond() == 999999999, "time of day changed")
	}
	_, err := f.MarshalJSON()
	verifrt.Assert(err == nil, "time.Time.MarshalJSON rejects the fixed time")
}

// VerifC41_AddNodeOrder: TreeJSONBuilder.AddNode accepts a node iff its name is strictly greater
// (bytewise) than the last accepted name; the output lists exactly the accepted nodes in order.
func VerifC41_AddNodeOrder() {
	verifrt.Stub("encoding/json.Marshal", verifC41Marshal)
	verifrt.Stub("strconv.IsPrint", verifC41IsPrint) // only used for the %q in AddNode's error text
	n := verifrt.Param("nodes", 3)
	l := verifrt.Param("namelen", 2)
	b := NewTreeJSONBuilder()
	last := ""
	want := `{"nodes":[`
	cnt := 0
	for i := 0; i < n; i++ {
		name := verifrt.String("name", l)
		for k := 0; k < len(name); k++ {
			// names are only compared bytewise here: a small alphabet with bytes on both sides of
			// 0x80 covers every order pattern of up to 5 distinct bytes
			c := name[k]
			verifrt.Assume(c == 0 || c == 'a' || c == 'b' || c == 0x80 || c == 0xff)
		}
		err := b.AddNode(&Node{Name: name})
		if name > last {
			verifrt.Reach("accepted")
			verifrt.Assert(err == nil, "a strictly greater name was rejected")
			if cnt > 0 {
				want += ","
			}
			want += "<" + name + ">"
			last = name
			cnt++
		} else {
			verifrt.Reach("rejected")
			verifrt.Assert(err != nil, "a name that is not strictly greater than the previous one was accepted")
		}
	}
	verifrt.Assert(b.Count() == cnt, "Count differs from the number of accepted nodes")
	out, err := b.Finalize()
	verifrt.Assert(err == nil, "Finalize failed")
	verifrt.Assert(string(out) == want+"]}\n", "tree bytes differ from the accepted nodes in order")
}

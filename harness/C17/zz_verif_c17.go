package archiver

// C17 (restic's side of chunking): the real fileChunkState.readNextChunk/reset and fileSaver.saveFile
// run against
//   * a reader stub that returns an arbitrary number of bytes (1..len(p)) per Read call, may deliver
//     io.EOF together with the last bytes or separately, and may fail,
//   * an abstract content-defined chunker: its decision to cut after a byte is an uninterpreted
//     function of all bytes fed to it since Reset (chained UF), clamped to MinSize/MaxSize like the
//     real one. It logs every byte it is fed.
// The reference chunking is computed directly from the file content with the same uninterpreted
// function, so equality of the boundaries means: restic fed every byte exactly once, in order, reset
// the chunker and its own buffer per file, and cut where the chunker said.

import (
	"context"
	"errors"
	"io"

	"github.com/restic/restic/internal/data"
	"github.com/restic/restic/internal/fs"
	"github.com/restic/restic/internal/restic"
	"github.com/restic/restic/internal/verifrt"
)

func verifC17Pick(name string, lo, hi int) int {
	x := verifrt.Int(name, lo, hi)
	for v := lo; v < hi; v++ {
		if x == v {
			return v
		}
	}
	return hi
}

type verifC17Chunker struct {
	min, max int
	h        uint64 // abstract digest of everything fed since Reset
	cur      int    // bytes in the current chunk
	fed      []byte // bytes fed since Reset
	resets   int
	misuse   bool
}

func (c *verifC17Chunker) Reset() {
	c.h = 0
	c.cur = 0
	c.fed = nil
	c.resets++
}

// verifC17Step is the abstract chunker's transition: digest of the prefix, and whether it wants to cut.
func verifC17Step(h uint64, b byte) (uint64, bool) {
	h = verifrt.UF64("c17digest", h, uint64(b))
	return h, verifrt.UFBool("c17cut", h)
}

func (c *verifC17Chunker) NextSplitPoint(buf []byte) int {
	if c.resets == 0 {
		c.misuse = true
	}
	for i, b := range buf {
		var cut bool
		c.h, cut = verifC17Step(c.h, b)
		c.fed = append(c.fed, b)
		c.cur++
		if (cut || c.cur >= c.max) && c.cur >= c.min {
			c.cur = 0
			return i + 1
		}
	}
	return -1
}

// reference: chunk lengths of file, straight from the definition
func verifC17Reference(file []byte, min, max int) []int {
	var lens []int
	var h uint64
	cur := 0
	for _, b := range file {
		var cut bool
		h, cut = verifC17Step(h, b)
		cur++
		if (cut || cur >= max) && cur >= min {
			lens = append(lens, cur)
			cur = 0
		}
	}
	if cur > 0 {
		lens = append(lens, cur)
	}
	return lens
}

var errVerifC17Read = errors.New("read failed")

type verifC17File struct {
	fs.File
	content  []byte
	pos      int
	failAt   int // Read fails once pos reaches failAt (-1: never)
	closed   int
	afterEOF int
	full     bool // no short reads (keeps the first file of the two-file harness cheap)
}

func (f *verifC17File) Read(p []byte) (int, error) {
	verifrt.Assert(f.closed == 0, "file read after Close")
	verifrt.Assert(len(p) > 0, "Read called with an empty buffer")
	if f.failAt >= 0 && f.pos >= f.failAt {
		return 0, errVerifC17Read
	}
	rest := len(f.content) - f.pos
	if f.failAt >= 0 && f.failAt-f.pos < rest {
		rest = f.failAt - f.pos
	}
	if rest == 0 {
		f.afterEOF++
		return 0, io.EOF
	}
	m := rest
	if len(p) < m {
		m = len(p)
	}
	n := m
	if !f.full {
		n = verifC17Pick("readlen", 1, m) // arbitrary short read
	}
	copy(p, f.content[f.pos:f.pos+n])
	f.pos += n
	if f.pos == len(f.content) && f.failAt < 0 && !f.full && verifrt.Bool("eofWithData") {
		return n, io.EOF
	}
	return n, nil
}

func (f *verifC17File) Close() error {
	f.closed++
	return nil
}

func verifC17CheckChunks(chunks [][]byte, file []byte, min, max int) {
	want := verifC17Reference(file, min, max)
	total := 0
	for _, c := range chunks {
		total += len(c)
	}
	verifrt.Assert(total == len(file), "the chunks do not add up to the file size")
	off := 0
	for _, c := range chunks {
		for j := range c {
			if off+j < len(file) {
				verifrt.Assert(c[j] == file[off+j], "concatenation of the chunks differs from the file")
			}
		}
		off += len(c)
	}
	verifrt.Assert(len(chunks) == len(want), "number of chunks differs from the content-defined reference")
	for i := 0; i < len(chunks) && i < len(want); i++ {
		verifrt.Assert(len(chunks[i]) == want[i], "chunk boundary differs from the content-defined reference")
		if i < len(chunks)-1 {
			verifrt.Assert(len(chunks[i]) >= min && len(chunks[i]) <= max, "a non-final chunk violates the size limits")
		}
		verifrt.Assert(len(chunks[i]) > 0 && len(chunks[i]) <= max, "empty or oversized chunk")
	}
}

// VerifC17_ReadNextChunk: one file through reset + readNextChunk until io.EOF.
func VerifC17_ReadNextChunk() {
	N := verifrt.Param("filelen", 6)
	B := verifrt.Param("readbuf", 3)
	min, max := verifrt.Param("min", 2), verifrt.Param("max", 4)
	file := verifrt.Bytes("file", N)
	f := &verifC17File{content: file, failAt: -1}
	ch := &verifC17Chunker{min: min, max: max}
	st := &fileChunkState{readBuf: make([]byte, B)}
	// state left behind by a previous file
	st.bpos, st.bmax, st.closed = 1, uint(B), true
	ch.Reset()
	st.reset()

	var chunks [][]byte
	buf := make([]byte, 0, max)
	for i := 0; ; i++ {
		verifrt.Assert(i <= len(file), "readNextChunk does not terminate")
		chunk, err := st.readNextChunk(f, ch, buf)
		if err == io.EOF {
			break
		}
		verifrt.Assert(err == nil, "readNextChunk failed although the reader does not fail")
		chunks = append(chunks, append([]byte{}, chunk...))
	}
	verifrt.Assert(len(ch.fed) == len(file), "the chunker was not fed every byte exactly once")
	for i := 0; i < len(ch.fed) && i < len(file); i++ {
		verifrt.Assert(ch.fed[i] == file[i], "the chunker was fed bytes out of order")
	}
	verifC17CheckChunks(chunks, file, min, max)
	if len(chunks) >= 2 {
		verifrt.Reach("several-chunks")
	}
	if len(file) == 0 {
		verifrt.Reach("empty-file")
	}
}

type verifC17Saver struct {
	chunks [][]byte
	ids    []restic.ID
}

func (s *verifC17Saver) SaveBlobAsync(_ context.Context, t restic.BlobType, buf []byte, _ restic.ID, _ bool, cb func(newID restic.ID, known bool, sizeInRepo int, err error)) {
	verifrt.Assert(t == restic.DataBlob, "file chunk saved with a non-data blob type")
	var id restic.ID
	id[0] = byte(len(s.chunks) + 1)
	id[1] = 0xc1
	s.chunks = append(s.chunks, append([]byte{}, buf...))
	s.ids = append(s.ids, id)
	cb(id, false, len(buf), nil)
}

// VerifC17_SaveFile: two consecutive files through the real saveFile with the worker's shared chunker
// and fileChunkState; the first may fail in the middle of a read buffer. The second file's chunks,
// Content and Size are those of the second file alone.
func VerifC17_SaveFile() {
	N := verifrt.Param("filelen", 5)
	B := verifrt.Param("readbuf", 3)
	min, max := verifrt.Param("min", 2), verifrt.Param("max", 4)
	ch := &verifC17Chunker{min: min, max: max}
	st := &fileChunkState{readBuf: make([]byte, B)}
	saver := &verifC17Saver{}
	s := &fileSaver{
		uploader:     saver,
		saveFilePool: newBufferPool(max),
		CompleteBlob: func(uint64) {},
		NodeFromFileInfo: func(snPath, filename string, meta toNoder, ignoreXattrListError bool) (*data.Node, error) {
			return &data.Node{Name: filename, Type: data.NodeTypeFile}, nil
		},
	}

	files := []*verifC17File{
		{content: verifrt.Bytes("file1", verifrt.Param("file1len", 4)), failAt: -1, full: verifrt.Param("file1_short_reads", 0) == 0},
		{content: verifrt.Bytes("file2", N), failAt: -1},
	}
	if verifrt.Bool("file1Fails") {
		files[0].failAt = verifC17Pick("failAt", 0, len(files[0].content))
	}
	results := make([]*futureNodeResult, 2)
	firstChunk := make([]int, 2)
	for i, f := range files {
		firstChunk[i] = len(saver.chunks)
		finished := 0
		s.saveFile(context.Background(), ch, st, "/"+"f", "f", f, func() {}, func() {}, func(res futureNodeResult) {
			finished++
			r := res
			results[i] = &r
		})
		verifrt.Assert(finished == 1, "saveFile did not complete the file exactly once")
		verifrt.Assert(f.closed == 1, "saveFile did not close the file exactly once")
	}
	verifrt.Assert(!ch.misuse, "chunker used before its first Reset")

	if files[0].failAt >= 0 {
		verifrt.Reach("first-file-failed")
		verifrt.Assert(results[0].err != nil && results[0].node == nil, "a read error did not fail the file")
	} else {
		verifrt.Assert(results[0].err == nil, "first file failed without a read error")
		verifC17CheckChunks(saver.chunks[firstChunk[0]:firstChunk[1]], files[0].content, min, max)
	}

	r := results[1]
	verifrt.Assert(r.err == nil && r.node != nil, "second file failed although its reader does not fail")
	got := saver.chunks[firstChunk[1]:]
	verifC17CheckChunks(got, files[1].content, min, max)
	verifrt.Assert(r.node.Size == uint64(len(files[1].content)), "node size differs from the number of bytes read")
	verifrt.Assert(len(r.node.Content) == len(got), "node content does not list one ID per chunk")
	for i := 0; i < len(r.node.Content) && i < len(got); i++ {
		verifrt.Assert(r.node.Content[i] == saver.ids[firstChunk[1]+i], "node content lists the chunk IDs in a different order than the chunks were cut")
	}
	verifrt.Assert(len(ch.fed) == len(files[1].content), "the chunker state after the second file includes bytes of the first")
	if len(got) >= 2 {
		verifrt.Reach("second-file-several-chunks")
	}
}

package repository

import (
	"github.com/restic/chunker"

	"github.com/restic/restic/internal/verifrt"
)

// VerifC17_RealChunkerReset: restic's wrapper around the real github.com/restic/chunker BaseChunker
// (real constants, real polynomial tables): after feeding part of a file - more than MinSize-window
// bytes, so that the rolling window, digest, count and pre fields all changed - Reset() restores
// exactly the state of a freshly created chunker for the repository polynomial, i.e. the boundaries
// of the next file cannot depend on the previous one.
func VerifC17_RealChunkerReset() {
	pol := chunker.Pol(0x3DA3358B4DC173)
	f := &chunkerFactory{pol: pol}
	c := f.NewChunker().(*baseChunker)
	fresh := *chunker.NewBase(pol)
	verifrt.Assert(*c.bc == fresh, "a new chunker differs from chunker.NewBase(pol)")

	k := verifrt.Param("tail", 3)
	buf := make([]byte, chunker.MinSize-64+k)
	tail := verifrt.BytesN("tail", k)
	copy(buf[len(buf)-k:], tail)
	split := c.NextSplitPoint(buf[:100])
	verifrt.Assert(split == -1, "split before MinSize")
	split = c.NextSplitPoint(buf[100:])
	verifrt.Assert(split == -1, "split before MinSize")
	verifrt.Assert(*c.bc != fresh, "feeding bytes did not change the chunker state (harness vacuous)")

	c.Reset()
	verifrt.Assert(*c.bc == fresh, "Reset does not restore the fresh chunker state")
	verifrt.Assert(c.pol == pol, "Reset changed the polynomial")
	verifrt.Assert(f.MaxChunkSize() == chunker.MaxSize, "MaxChunkSize differs from the chunker's maximum")
	verifrt.Reach("reset-checked")
}

package main

import (
	"context"
	"iter"

	"github.com/restic/restic/internal/data"
	"github.com/restic/restic/internal/restic"
	"github.com/restic/restic/internal/verifrt"
)

// ---- environment: an in-memory tree store -----------------------------------------------------

const (
	verifC53Root1 = 1 // tree ID (first byte) of snapshot 1's root
	verifC53Root2 = 2
	verifC53Sub   = 10 // first sub-tree ID; sub-trees are generated on first use
)

// verifC53Repo stands for the repository: tree ID -> sorted node list. Sub-trees are created
// lazily (and memoised) so that only trees that somebody looks at cost symbolic choices.
type verifC53Repo struct {
	trees  [16][]*data.Node
	have   [16]bool
	subMax int // max entries in a sub-tree
	loads  int
}

func verifC53ID(k int) restic.ID {
	var id restic.ID
	id[0] = byte(k)
	id[31] = 0x53
	return id
}

func verifC53File(name string) *data.Node {
	n := &data.Node{Name: name, Type: data.NodeTypeFile}
	// content: one of the blob lists [1], [2], [1,2], [2,1], [1,1] - lists that differ only in the
	// order or the multiplicity of their blobs are different file contents
	mk := func(k byte) restic.ID { var id restic.ID; id[0] = k; return id }
	switch c := verifrt.Int("content", 1, 1+verifrt.Param("contents", 2)); {
	case c == 1:
		n.Content = restic.IDs{mk(1)}
	case c == 2:
		n.Content = restic.IDs{mk(2)}
	case c == 3:
		n.Content = restic.IDs{mk(1), mk(2)}
	case c == 4:
		n.Content = restic.IDs{mk(2), mk(1)}
	default:
		n.Content = restic.IDs{mk(1), mk(1)}
	}
	// one metadata field may differ: decides between "M" and "M?" (possible bitrot)
	n.Inode = uint64(verifrt.Int("inode", 0, 1))
	return n
}

// verifC53Kind picks a node type with a branch so that the type string is concrete.
func verifC53Kind(name string, allowDir bool) int {
	hi := 2
	if !allowDir {
		hi = verifrt.Param("subtypes", 2) - 1 // second level: files (and symlinks)
	}
	k := verifrt.Int(name, 0, hi)
	if k == 0 {
		return 0
	}
	if k == 1 {
		return 1
	}
	return 2
}

func (r *verifC53Repo) genLevel(names []string, max int, allowDir bool) []*data.Node {
	var out []*data.Node
	for _, nm := range names {
		if len(out) >= max {
			break
		}
		if !verifrt.Bool("present") {
			continue
		}
		switch verifC53Kind("type", allowDir) {
		case 0:
			out = append(out, verifC53File(nm))
		case 1:
			out = append(out, &data.Node{Name: nm, Type: data.NodeTypeSymlink, LinkTarget: "t"})
		case 2:
			sub := verifC53Sub
			if verifrt.Bool("subtree") {
				sub = verifC53Sub + 1
			}
			id := verifC53ID(sub)
			out = append(out, &data.Node{Name: nm, Type: data.NodeTypeDir, Subtree: &id})
		}
	}
	return out
}

func (r *verifC53Repo) get(id restic.ID) []*data.Node {
	k := int(id[0])
	if !r.have[k] {
		verifrt.Assert(k >= verifC53Sub, "tree store: unknown tree requested")
		// second level: files and symlinks only (depth <= 2)
		r.trees[k] = r.genLevel([]string{"a", "b"}, r.subMax, false)
		r.have[k] = true
	}
	return r.trees[k]
}

// LoadBlob is only used natively (under the engine data.LoadTree is stubbed, see below): it
// serialises the same node list with restic's own tree builder.
func (r *verifC53Repo) LoadBlob(_ context.Context, h restic.BlobHandle, _ []byte) ([]byte, error) {
	r.loads++
	b := data.NewTreeJSONBuilder()
	for _, n := range r.get(h.ID) {
		if err := b.AddNode(n); err != nil {
			return nil, err
		}
	}
	return b.Finalize()
}

// verifC53LoadTree replaces data.LoadTree under the engine (JSON decoding needs reflection).
func verifC53LoadTree(_ context.Context, loader restic.BlobLoader, id restic.ID) (data.TreeNodeIterator, error) {
	r := loader.(*verifC53Repo)
	r.loads++
	nodes := r.get(id)
	return func(yield func(data.NodeOrError) bool) {
		for _, n := range nodes {
			if !yield(data.NodeOrError{Node: n}) {
				return
			}
		}
	}, nil
}

// verifC53Pull replaces iter.Pull (runtime coroutines) by eager evaluation of the finite sequence.
func verifC53Pull(seq iter.Seq[data.NodeOrError]) (func() (data.NodeOrError, bool), func()) {
	var items []data.NodeOrError
	seq(func(v data.NodeOrError) bool {
		items = append(items, v)
		return true
	})
	i := 0
	next := func() (data.NodeOrError, bool) {
		if i < len(items) {
			v := items[i]
			i++
			return v, true
		}
		return data.NodeOrError{}, false
	}
	return next, func() { i = len(items) }
}

// verifC53Set: blob bookkeeping of the statistics (not part of the property).
type verifC53Set struct {
	restic.AssociatedBlobSet
	n int
}

func (s *verifC53Set) Insert(restic.BlobHandle) { s.n++ }

// ---- the expected output, from the property statement ------------------------------------------

type verifC53Line struct{ path, mod string }

type verifC53Expect struct {
	lines                              []verifC53Line
	changed                            int
	addF, addD, addO, remF, remD, remO int
	typeChangeWithChildren             bool
}

func verifC53Find(nodes []*data.Node, name string) *data.Node {
	for _, n := range nodes {
		if n.Name == name {
			return n
		}
	}
	return nil
}

func verifC53Path(prefix string, n *data.Node) string {
	p := prefix + n.Name
	if n.Type == data.NodeTypeDir {
		p += "/"
	}
	return p
}

// everything below and including n exists on one side only
func (e *verifC53Expect) oneSide(r *verifC53Repo, prefix string, n *data.Node, mod string, countSelf bool) {
	p := verifC53Path(prefix, n)
	if countSelf {
		e.lines = append(e.lines, verifC53Line{p, mod})
		f, d, o := 0, 0, 0
		switch n.Type {
		case data.NodeTypeFile:
			f = 1
		case data.NodeTypeDir:
			d = 1
		default:
			o = 1
		}
		if mod == "+" {
			e.addF, e.addD, e.addO = e.addF+f, e.addD+d, e.addO+o
		} else {
			e.remF, e.remD, e.remO = e.remF+f, e.remD+d, e.remO+o
		}
	}
	if n.Type == data.NodeTypeDir {
		if !countSelf {
			p = prefix + n.Name + "/"
		}
		for _, c := range r.get(*n.Subtree) {
			e.oneSide(r, p, c, mod, true)
		}
	}
}

func (e *verifC53Expect) diff(r *verifC53Repo, prefix string, t1, t2 []*data.Node) {
	for _, name := range []string{"a", "b", "c"} {
		n1, n2 := verifC53Find(t1, name), verifC53Find(t2, name)
		switch {
		case n1 != nil && n2 == nil:
			e.oneSide(r, prefix, n1, "-", true)
		case n1 == nil && n2 != nil:
			e.oneSide(r, prefix, n2, "+", true)
		case n1 != nil && n2 != nil:
			mod := ""
			if n1.Type != n2.Type {
				mod = "T"
			}
			if n1.Type == data.NodeTypeFile && n2.Type == data.NodeTypeFile && !verifC53SameContent(n1.Content, n2.Content) {
				mod += "M"
				e.changed++
				if n1.Inode == n2.Inode {
					mod += "?" // only the content differs: flagged as possible bitrot
				}
			}
			if mod != "" {
				e.lines = append(e.lines, verifC53Line{verifC53Path(prefix, n2), mod})
			}
			d1, d2 := n1.Type == data.NodeTypeDir, n2.Type == data.NodeTypeDir
			switch {
			case d1 && d2:
				if *n1.Subtree != *n2.Subtree {
					e.diff(r, prefix+name+"/", r.get(*n1.Subtree), r.get(*n2.Subtree))
				}
			case d1 && !d2:
				// the paths below the former directory exist in snapshot 1 only
				if len(r.get(*n1.Subtree)) > 0 {
					e.typeChangeWithChildren = true
				}
				e.oneSide(r, prefix, n1, "-", false)
			case !d1 && d2:
				if len(r.get(*n2.Subtree)) > 0 {
					e.typeChangeWithChildren = true
				}
				e.oneSide(r, prefix, n2, "+", false)
			}
		}
	}
}

// ---- harness -------------------------------------------------------------------------------------

func verifC53Run(showMeta bool) (*verifC53Repo, []verifC53Line, *DiffStatsContainer) {
	verifrt.Stub("internal/data.LoadTree", verifC53LoadTree)
	verifrt.Stub("iter.Pull", verifC53Pull)

	r := &verifC53Repo{subMax: verifrt.Param("subentries", 1)}
	names := []string{"a", "b", "c"}[:verifrt.Param("names", 2)]
	max := verifrt.Param("entries", 2)
	r.trees[verifC53Root1], r.have[verifC53Root1] = r.genLevel(names, max, true), true
	r.trees[verifC53Root2], r.have[verifC53Root2] = r.genLevel(names, max, true), true

	var got []verifC53Line
	errs := 0
	c := &Comparer{
		repo:        r,
		opts:        DiffOptions{ShowMetadata: showMeta},
		printChange: func(ch *Change) { got = append(got, verifC53Line{ch.Path, ch.Modifier}) },
		printError:  func(string, ...any) { errs++ },
	}
	stats := &DiffStatsContainer{BlobsBefore: &verifC53Set{}, BlobsAfter: &verifC53Set{}, BlobsCommon: &verifC53Set{}}
	err := c.diffTree(context.Background(), stats, "/", verifC53ID(verifC53Root1), verifC53ID(verifC53Root2))
	verifrt.Assert(err == nil && errs == 0, "diffTree reported an error on well-formed trees")
	return r, got, stats
}

func verifC53Count(lines []verifC53Line, l verifC53Line) int {
	n := 0
	for _, x := range lines {
		if x == l {
			n++
		}
	}
	return n
}

// VerifC53_Diff: the lines printed by Comparer.diffTree are exactly the ones the property demands.
func VerifC53_Diff() {
	r, got, stats := verifC53Run(false)

	want := &verifC53Expect{}
	want.diff(r, "/", r.trees[verifC53Root1], r.trees[verifC53Root2])

	// candidate finding (DESIGN.md section 7): on a directory <-> non-directory change only "T" is
	// printed, the directory's children are not listed as removed/added.
	verifrt.Known("C53-typechange-children", want.typeChangeWithChildren)
	if want.typeChangeWithChildren {
		verifrt.Reach("dir-type-change")
	}

	for _, l := range want.lines {
		verifrt.Assert(verifC53Count(got, l) == 1, "missing or duplicated diff line: "+l.mod+" "+l.path)
	}
	for _, l := range got {
		verifrt.Assert(verifC53Count(want.lines, l) == 1, "unexpected diff line: "+l.mod+" "+l.path)
	}
	verifrt.Assert(len(got) == len(want.lines), "number of diff lines differs from the expectation")
	verifrt.Assert(stats.ChangedFiles == want.changed, "changed-files statistic is wrong")
	verifrt.Assert(stats.Added.Files == want.addF && stats.Added.Dirs == want.addD && stats.Added.Others == want.addO, "added statistics differ from the added paths")
	verifrt.Assert(stats.Removed.Files == want.remF && stats.Removed.Dirs == want.remD && stats.Removed.Others == want.remO, "removed statistics differ from the removed paths")
	if len(want.lines) == 0 {
		verifrt.Reach("identical")
	} else {
		verifrt.Reach("different")
	}
	if want.changed > 0 {
		verifrt.Reach("modified")
	}
}

// VerifC53_Identical: two snapshots with the same root tree produce no output and load nothing
// below the root twice.
func VerifC53_Identical() {
	verifrt.Stub("internal/data.LoadTree", verifC53LoadTree)
	verifrt.Stub("iter.Pull", verifC53Pull)
	r := &verifC53Repo{subMax: verifrt.Param("subentries", 1)}
	names := []string{"a", "b", "c"}[:verifrt.Param("names", 2)]
	r.trees[verifC53Root1], r.have[verifC53Root1] = r.genLevel(names, verifrt.Param("entries", 2), true), true
	lines := 0
	c := &Comparer{repo: r, printChange: func(*Change) { lines++ }, printError: func(string, ...any) { lines++ }}
	stats := &DiffStatsContainer{BlobsBefore: &verifC53Set{}, BlobsAfter: &verifC53Set{}, BlobsCommon: &verifC53Set{}}
	err := c.diffTree(context.Background(), stats, "/", verifC53ID(verifC53Root1), verifC53ID(verifC53Root1))
	verifrt.Assert(err == nil, "diffTree failed")
	verifrt.Assert(lines == 0, "identical trees produced diff output")
	verifrt.Assert(stats.ChangedFiles == 0 && stats.Added == DiffStat{} && stats.Removed == DiffStat{}, "identical trees produced statistics")
	verifrt.Reach("done")
}

func verifC53SameContent(a, b restic.IDs) bool {
	if len(a) != len(b) {
		return false
	}
	for i := range a {
		if a[i] != b[i] {
			return false
		}
	}
	return true
}

// VerifC53_ContentLists: one file /a in both snapshots whose content is any of the blob lists [1], [2],
// [1,2], [2,1], [1,1] on either side (lists that differ only in order or multiplicity are different
// contents), metadata equal or not: exactly one line "M" / "M?" for /a iff the lists differ, "U" or
// nothing otherwise; ChangedFiles counts it.
func VerifC53_ContentLists() {
	verifrt.Stub("internal/data.LoadTree", verifC53LoadTree)
	verifrt.Stub("iter.Pull", verifC53Pull)
	r := &verifC53Repo{}
	f1, f2 := verifC53File("a"), verifC53File("a")
	r.trees[verifC53Root1], r.have[verifC53Root1] = []*data.Node{f1}, true
	r.trees[verifC53Root2], r.have[verifC53Root2] = []*data.Node{f2}, true
	var mods []string
	c := &Comparer{repo: r, printChange: func(ch *Change) {
		verifrt.Assert(ch.Path == "/a", "a line for another path")
		mods = append(mods, ch.Modifier)
	}, printError: func(string, ...any) { verifrt.Assert(false, "diff reported an error") }}
	stats := &DiffStatsContainer{BlobsBefore: &verifC53Set{}, BlobsAfter: &verifC53Set{}, BlobsCommon: &verifC53Set{}}
	err := c.diffTree(context.Background(), stats, "/", verifC53ID(verifC53Root1), verifC53ID(verifC53Root2))
	verifrt.Assert(err == nil, "diffTree failed")
	if verifC53SameContent(f1.Content, f2.Content) {
		verifrt.Reach("same-content")
		for _, m := range mods {
			verifrt.Assert(m != "M" && m != "M?", "a file with unchanged content is reported as modified")
		}
		verifrt.Assert(stats.ChangedFiles == 0, "ChangedFiles counts a file with unchanged content")
		return
	}
	verifrt.Reach("different-content")
	verifrt.Assert(len(mods) == 1 && (mods[0] == "M" || mods[0] == "M?"), "a file whose blob list changed (possibly only in order or multiplicity) is not reported as modified exactly once")
	verifrt.Assert(stats.ChangedFiles == 1, "ChangedFiles does not count the modified file")
}

package dump

// C45: the real Dumper.WriteNode/writeNode (goroutines, errgroup, bloblru cache), DumpTree,
// sendTrees/sendNodes, walker.Walk, dumpTar/dumpNodeTar, dumpZip/dumpNodeZip run.
// Stubbed environment: blob loader (yields, so loads complete in any order), data.LoadTree (table of
// trees), archive/tar and archive/zip writers (record the header / data / close events).

import (
	"archive/tar"
	"archive/zip"
	"context"
	"errors"
	"io"
	"os"

	"github.com/restic/restic/internal/data"
	"github.com/restic/restic/internal/restic"
	"github.com/restic/restic/internal/verifrt"
)

func verifC45Pick(name string, lo, hi int) int {
	x := verifrt.Int(name, lo, hi)
	for v := lo; v < hi; v++ {
		if x == v {
			return v
		}
	}
	return hi
}

func verifC45BlobID(k int) restic.ID {
	var id restic.ID
	id[0] = 0x80 + byte(k)
	id[5] = 1
	return id
}

func verifC45TreeID(k int) restic.ID {
	var id restic.ID
	id[0] = 0x10 + byte(k)
	id[5] = 2
	return id
}

type verifC45Repo struct {
	blobs    [][]byte // content of blob k
	fail     int      // index of the blob whose load fails, or -1
	conns    uint
	async    bool
	loads    []int
	inflight int
	maxfly   int
}

var errVerifC45Load = errors.New("blob load failed")

func (r *verifC45Repo) LoadBlob(_ context.Context, h restic.BlobHandle, buf []byte) ([]byte, error) {
	verifrt.Assert(h.Type == restic.DataBlob, "file content loaded with a non-data blob type")
	k := int(h.ID[0]) - 0x80
	verifrt.Assert(k >= 0 && k < len(r.blobs) && h.ID == verifC45BlobID(k), "LoadBlob called for an ID that is not in the file's content")
	r.loads[k]++
	r.inflight++
	if r.inflight > r.maxfly {
		r.maxfly = r.inflight
	}
	// the download takes time: the caller blocks until an independent "network" goroutine completes
	// this request, so concurrent loads finish in every order (a blocking switch is a free scheduling
	// choice, independent of the preemption bound)
	if r.async {
		done := make(chan struct{})
		go func() { close(done) }()
		<-done
	}
	r.inflight--
	if k == r.fail {
		return nil, errVerifC45Load
	}
	// like Repository.LoadBlob: the caller's buffer is reused when it is large enough, otherwise a new
	// one is allocated; the result never aliases the repository's own data
	if cap(buf) >= len(r.blobs[k]) {
		buf = buf[:len(r.blobs[k])]
		copy(buf, r.blobs[k])
		return buf, nil
	}
	return append([]byte(nil), r.blobs[k]...), nil
}
func (r *verifC45Repo) LookupBlobSize(restic.BlobHandle) (uint, bool) { return 0, false }
func (r *verifC45Repo) Connections() uint                             { return r.conns }

type verifC45Sink struct {
	buf    []byte
	writes int
}

func (s *verifC45Sink) Write(p []byte) (int, error) {
	s.buf = append(s.buf, p...)
	s.writes++
	return len(p), nil
}

// VerifC45_WriteNode: WriteNode on a file whose Content is an arbitrary sequence (repetitions allowed)
// over D distinct blobs of 0..L symbolic bytes writes exactly the concatenation in Content order for
// every completion order of the concurrent loads; a failing load makes WriteNode fail and what was
// written is a prefix of the content.
func VerifC45_WriteNode() {
	verifC45WriteNode(verifrt.Param("distinct", 2), verifrt.Param("content", 3), verifrt.Param("bloblen", 2), verifrt.Param("connections", 2), verifrt.Param("allow_fail", 1))
}

// VerifC45_WriteNodeSerial: the same with one backend connection (loads strictly one after the other,
// so an earlier blob is completely written before the next load starts) and one more content entry:
// the shape in which a buffer handed back to a loader could still be referenced by the blob cache.
func VerifC45_WriteNodeSerial() {
	verifC45WriteNode(verifrt.Param("distinct", 2), verifrt.Param("content", 3), verifrt.Param("bloblen", 2), 1, 1)
}

func verifC45WriteNode(D, N, L, conns, allowFail int) {
	repo := &verifC45Repo{fail: -1, conns: uint(conns), loads: make([]int, D), async: true}
	for k := 0; k < D; k++ {
		repo.blobs = append(repo.blobs, verifrt.BytesN("blob", 1+k%L))
	}
	n := verifC45Pick("ncontent", 0, N)
	idx := make([]int, n)
	content := make(restic.IDs, n)
	var want []byte
	for i := 0; i < n; i++ {
		idx[i] = verifC45Pick("which", 0, D-1)
		content[i] = verifC45BlobID(idx[i])
		want = append(want, repo.blobs[idx[i]]...)
	}
	if allowFail != 0 {
		repo.fail = verifC45Pick("fail", -1, D-1)
	}
	failing := false
	for i := 0; i < n; i++ {
		if idx[i] == repo.fail {
			failing = true
		}
	}
	node := &data.Node{Name: "f", Type: data.NodeTypeFile, Content: content, Size: uint64(len(want))}
	sink := &verifC45Sink{}
	d := New("tar", repo, sink)

	err := d.WriteNode(context.Background(), node)

	verifrt.Assert(repo.inflight == 0, "a blob loader is still running after WriteNode returned")
	if !failing {
		// (after a failed load the writer quits and its slot may be taken by one more loader whose
		// context is already cancelled; the connection limit is C37's subject, not part of C45)
		verifrt.Assert(repo.maxfly <= int(repo.conns), "more concurrent blob loads than backend connections")
	}
	if failing {
		verifrt.Reach("load-fails")
		verifrt.Assert(err != nil, "WriteNode reports success although a blob could not be loaded")
		verifrt.Assert(len(sink.buf) <= len(want), "more bytes written than the file has")
		for i := 0; i < len(sink.buf) && i < len(want); i++ {
			verifrt.Assert(sink.buf[i] == want[i], "bytes written before the failure are not a prefix of the content")
		}
		return
	}
	verifrt.Assert(err == nil, "WriteNode failed although every blob loads")
	verifrt.Assert(len(sink.buf) == len(want), "WriteNode wrote a wrong number of bytes")
	for i := 0; i < len(sink.buf) && i < len(want); i++ {
		verifrt.Assert(sink.buf[i] == want[i], "WriteNode output differs from the concatenation of the blobs in Content order")
	}
	for k := 0; k < D; k++ {
		verifrt.Assert(repo.loads[k] <= 1, "a blob was downloaded more than once although it fits the cache")
	}
	if n >= 2 {
		verifrt.Reach("multi-blob")
	}
	verifrt.Reach("written")
}

// ---------------------------------------------------------------------------------------------
// tar / zip

type verifC45Entry struct {
	format   string
	name     string
	typeflag byte        // tar
	mode     int64       // tar
	fmode    os.FileMode // zip
	method   uint16      // zip
	linkname string
	size     int64
	uid, gid int
	data     []byte
}

type verifC45Arch struct {
	entries []*verifC45Entry
	closed  int
	late    bool // header or data after Close
}

var verifC45A *verifC45Arch

func verifC45TarWriteHeader(_ *tar.Writer, h *tar.Header) error {
	a := verifC45A
	if a.closed > 0 {
		a.late = true
	}
	a.entries = append(a.entries, &verifC45Entry{format: "tar", name: h.Name, typeflag: h.Typeflag, mode: h.Mode,
		linkname: h.Linkname, size: h.Size, uid: h.Uid, gid: h.Gid})
	return nil
}

func verifC45TarWrite(_ *tar.Writer, p []byte) (int, error) {
	a := verifC45A
	if a.closed > 0 {
		a.late = true
	}
	verifrt.Assert(len(a.entries) > 0, "tar data written before any header")
	e := a.entries[len(a.entries)-1]
	e.data = append(e.data, p...)
	return len(p), nil
}

func verifC45TarClose(_ *tar.Writer) error {
	verifC45A.closed++
	return nil
}

type verifC45ZipEntryWriter struct{ e *verifC45Entry }

func (w verifC45ZipEntryWriter) Write(p []byte) (int, error) {
	a := verifC45A
	if a.closed > 0 {
		a.late = true
	}
	// archive/zip: a write to an entry after the next CreateHeader is an error; model: must be the last
	verifrt.Assert(a.entries[len(a.entries)-1] == w.e, "zip data written to an entry that is no longer the current one")
	w.e.data = append(w.e.data, p...)
	return len(p), nil
}

func verifC45ZipCreateHeader(_ *zip.Writer, h *zip.FileHeader) (io.Writer, error) {
	a := verifC45A
	if a.closed > 0 {
		a.late = true
	}
	e := &verifC45Entry{format: "zip", name: h.Name, fmode: h.Mode(), method: h.Method, size: int64(h.UncompressedSize64)}
	a.entries = append(a.entries, e)
	return verifC45ZipEntryWriter{e}, nil
}

func verifC45ZipClose(_ *zip.Writer) error {
	verifC45A.closed++
	return nil
}

var verifC45Types = []data.NodeType{data.NodeTypeFile, data.NodeTypeDir, data.NodeTypeSymlink,
	data.NodeTypeDev, data.NodeTypeCharDev, data.NodeTypeFifo, data.NodeTypeSocket}

var verifC45TypeBits = []os.FileMode{0, os.ModeDir, os.ModeSymlink, os.ModeDevice, os.ModeDevice | os.ModeCharDevice,
	os.ModeNamedPipe, os.ModeSocket}

type verifC45Want struct {
	path string
	node *data.Node
}

// verifC45Tree runs DumpTree (format tar or zip) over a symbolic tree of trees.
// Tree 0 is the dumped directory, tree k (k>=1) can be the subtree of a dir node of a tree j<k.
// Every tree has S slots: absent, or a node with a symbolic type.
func verifC45Tree(format string) {
	K := verifrt.Param("trees", 2)
	S := verifrt.Param("slots", 2)
	names := []string{"a", "b", "c"}
	a := &verifC45Arch{}
	verifC45A = a
	verifrt.Stub("(*archive/tar.Writer).WriteHeader", verifC45TarWriteHeader)
	verifrt.Stub("(*archive/tar.Writer).Write", verifC45TarWrite)
	verifrt.Stub("(*archive/tar.Writer).Close", verifC45TarClose)
	verifrt.Stub("(*archive/zip.Writer).CreateHeader", verifC45ZipCreateHeader)
	verifrt.Stub("(*archive/zip.Writer).Close", verifC45ZipClose)

	repo := &verifC45Repo{fail: -1, conns: 2, loads: make([]int, 2)}
	repo.blobs = [][]byte{verifrt.BytesN("blob", 1), verifrt.BytesN("blob", 2)}

	// shape: every slot is absent / file / dir / symlink / a special node (the special type and the
	// file's blob list depend on the slot so that all four special types and empty, single, multi and
	// repeated-blob files occur)
	contents := [][]int{{0, 1}, {1}, {}, {0, 0}}
	specials := []int{5, 3, 4, 6} // fifo, dev, chardev, socket
	trees := make([][]*data.Node, K)
	used := 1                            // next unused subtree index
	for k := 0; k < K && k < used; k++ { // trees that no directory refers to do not exist
		for s := 0; s < S; s++ {
			slot := (k*S + s) % 4
			t := verifC45Pick("type", -1, 3)
			if t < 0 {
				continue
			}
			if t == 3 {
				if k == 0 && verifrt.Param("top_special", 1) == 0 {
					verifrt.Assume(false)
				}
				t = specials[slot]
			}
			n := &data.Node{Name: names[s], Type: verifC45Types[t]}
			// mode as recorded by the archiver: type bits of the node type + permission/setuid/setgid/sticky bits
			n.Mode = verifC45TypeBits[t] | os.FileMode(verifrt.Uint32("mode"))&os.ModePerm
			if verifrt.Param("sym_owner_write", 1) == 0 {
				// archive/zip's SetMode branches on the owner-write bit: fix it per slot to halve the paths per entry
				n.Mode = n.Mode&^0o200 | []os.FileMode{0o200, 0, 0o200, 0}[slot]
			}
			if verifrt.Param("sym_special_bits", 0) != 0 {
				n.Mode |= os.FileMode(verifrt.Uint32("modeSpecial")) & (os.ModeSetuid | os.ModeSetgid | os.ModeSticky)
			} else {
				n.Mode |= []os.FileMode{os.ModeSetuid, os.ModeSetgid | os.ModeSticky, 0, os.ModeSticky}[slot]
			}
			n.UID = verifrt.Uint32("uid")
			n.GID = verifrt.Uint32("gid")
			switch n.Type {
			case data.NodeTypeFile:
				for _, b := range contents[slot] {
					n.Content = append(n.Content, verifC45BlobID(b))
					n.Size += uint64(len(repo.blobs[b]))
				}
			case data.NodeTypeDir:
				if used >= K {
					verifrt.Assume(false) // no tree left for this directory
				}
				id := verifC45TreeID(used)
				used++
				n.Subtree = &id
			case data.NodeTypeSymlink:
				n.LinkTarget = verifrt.StringN("target", 2)
				n.Size = 2
			}
			trees[k] = append(trees[k], n)
		}
	}

	verifrt.Stub("internal/data.LoadTree", func(_ context.Context, _ restic.BlobLoader, id restic.ID) (data.TreeNodeIterator, error) {
		k := int(id[0]) - 0x10
		verifrt.Assert(k >= 1 && k < K && id == verifC45TreeID(k), "LoadTree called for an ID that is not a subtree of the dumped directory")
		return verifC45Iter(trees[k]), nil
	})

	// reference: depth-first in tree order; files, dirs, symlinks only
	var want []verifC45Want
	var walk func(k int, prefix string)
	walk = func(k int, prefix string) {
		for _, n := range trees[k] {
			switch n.Type {
			case data.NodeTypeFile, data.NodeTypeSymlink:
				want = append(want, verifC45Want{prefix + n.Name, n})
			case data.NodeTypeDir:
				want = append(want, verifC45Want{prefix + n.Name + "/", n})
				walk(int(n.Subtree[0])-0x10, prefix+n.Name+"/")
			}
		}
	}
	walk(0, "r/")

	sink := &verifC45Sink{}
	d := New(format, repo, sink)
	err := d.DumpTree(context.Background(), verifC45Iter(trees[0]), "/r")

	verifrt.Assert(err == nil, "DumpTree failed although every tree and blob loads")
	verifrt.Assert(a.closed == 1, "archive writer not closed exactly once")
	verifrt.Assert(!a.late, "entry written after the archive was closed")
	verifrt.Assert(sink.writes == 0, "DumpTree wrote to the output bypassing the archive writer")
	verifrt.Assert(len(a.entries) == len(want), "number of archive entries differs from the number of files, dirs and symlinks")
	for i := 0; i < len(a.entries) && i < len(want); i++ {
		e, w := a.entries[i], want[i]
		n := w.node
		verifrt.Assert(e.name == w.path, "entry name / order differs from the tree order")
		verifrt.Assert(e.size == int64(n.Size), "entry size differs from the node size")
		var content []byte
		for _, id := range n.Content {
			content = append(content, repo.blobs[int(id[0])-0x80]...)
		}
		if format == "tar" {
			wantMode := int64(n.Mode & 0o777)
			if n.Mode&os.ModeSetuid != 0 {
				wantMode |= 0o4000
			}
			if n.Mode&os.ModeSetgid != 0 {
				wantMode |= 0o2000
			}
			if n.Mode&os.ModeSticky != 0 {
				wantMode |= 0o1000
			}
			verifrt.Assert(e.mode == wantMode, "tar mode differs from the node's permission/setuid/setgid/sticky bits")
			wantUID, wantGID := int(n.UID), int(n.GID)
			verifrt.Assert(e.uid == wantUID && e.gid == wantGID, "tar uid/gid differ from the node")
			switch n.Type {
			case data.NodeTypeFile:
				verifrt.Assert(e.typeflag == tar.TypeReg, "file node is not a regular tar entry")
				verifrt.Assert(e.linkname == "", "file entry has a link name")
			case data.NodeTypeDir:
				verifrt.Assert(e.typeflag == tar.TypeDir, "dir node is not a directory tar entry")
				verifrt.Assert(e.linkname == "", "dir entry has a link name")
			case data.NodeTypeSymlink:
				verifrt.Assert(e.typeflag == tar.TypeSymlink, "symlink node is not a symlink tar entry")
				verifrt.Assert(e.linkname == n.LinkTarget, "symlink target differs")
			}
		} else {
			verifrt.Assert(e.fmode == n.Mode, "zip entry mode differs from the node mode")
			if n.Type == data.NodeTypeSymlink {
				content = []byte(n.LinkTarget)
			}
			if n.Type == data.NodeTypeFile {
				verifrt.Assert(e.method == zip.Deflate, "file entry is not deflated")
			} else {
				verifrt.Assert(e.method == zip.Store, "non-file entry is not stored")
			}
		}
		verifrt.Assert(len(e.data) == len(content), "entry data length differs from the content")
		for j := 0; j < len(e.data) && j < len(content); j++ {
			verifrt.Assert(e.data[j] == content[j], "entry data differs from the content")
		}
	}
}

func verifC45Iter(nodes []*data.Node) data.TreeNodeIterator {
	return func(yield func(data.NodeOrError) bool) {
		for _, n := range nodes {
			if !yield(data.NodeOrError{Node: n}) {
				return
			}
		}
	}
}

// VerifC45_Tar: DumpTree("tar") emits exactly one entry per file/dir/symlink in depth-first tree order.
func VerifC45_Tar() {
	verifC45Tree("tar")
	verifrt.Reach("tar-done")
}

// VerifC45_Zip: same for zip.
func VerifC45_Zip() {
	verifC45Tree("zip")
	verifrt.Reach("zip-done")
}

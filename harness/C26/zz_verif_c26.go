package main

import (
	"context"
	"errors"
	"time"

	"github.com/restic/restic/internal/data"
	"github.com/restic/restic/internal/repository"
	"github.com/restic/restic/internal/restic"
	"github.com/restic/restic/internal/verifrt"
)

// ---- environment: the snapshot directory as two slots (old file, new file) + an event trace ----

const (
	verifC26Save = iota
	verifC26Remove
)

type verifC26Ev struct {
	op int
	ok bool
	id restic.ID // Remove: the file removed
	// Save: the snapshot as handed to SaveSnapshot
	original *restic.ID
	tree     *restic.ID
	tags     []string
	hostname string
	time     time.Time
}

type verifC26State struct{ old, new bool }

type verifC26Env struct {
	trace  []verifC26Ev
	st     verifC26State
	states []verifC26State // states[i]: which snapshot files exist after the first i events
	oldID  restic.ID
	newID  restic.ID
	saved  *verifC26Ev
}

var verifC26E *verifC26Env

var verifC26Err = errors.New("verifC26 backend error")

func (e *verifC26Env) record(ev verifC26Ev) {
	e.trace = append(e.trace, ev)
	switch ev.op {
	case verifC26Save:
		// a Save that reports an error may nevertheless have created the file
		if ev.ok || verifrt.Bool("failed-save-landed") {
			e.st.new = true
		}
	case verifC26Remove:
		// a Remove that reports an error may nevertheless have deleted the file
		if ev.ok || verifrt.Bool("failed-remove-landed") {
			if ev.id == e.oldID {
				e.st.old = false
			}
			if ev.id == e.newID {
				e.st.new = false
			}
		}
	}
	e.states = append(e.states, e.st)
}

func (e *verifC26Env) save(sn *data.Snapshot) (restic.ID, error) {
	ok := !verifrt.Bool("save-fails")
	ev := verifC26Ev{op: verifC26Save, ok: ok, original: sn.Original, tree: sn.Tree, tags: append([]string(nil), sn.Tags...),
		hostname: sn.Hostname, time: sn.Time}
	if sn.Original != nil {
		o := *sn.Original
		ev.original = &o
	}
	if sn.Tree != nil {
		t := *sn.Tree
		ev.tree = &t
	}
	e.record(ev)
	if e.saved == nil {
		e.saved = &e.trace[len(e.trace)-1]
	}
	if !ok {
		return restic.ID{}, verifC26Err
	}
	return e.newID, nil
}

func (e *verifC26Env) remove(id restic.ID) error {
	ok := !verifrt.Bool("remove-fails")
	e.record(verifC26Ev{op: verifC26Remove, ok: ok, id: id})
	if !ok {
		return verifC26Err
	}
	return nil
}

// replacement of data.SaveSnapshot (JSON encoding + SaveUnpacked)
func verifC26SaveSnapshot(_ context.Context, _ restic.SaverUnpacked[restic.WriteableFileType], sn *data.Snapshot) (restic.ID, error) {
	return verifC26E.save(sn)
}

// replacement of (*repository.Repository).RemoveUnpacked
func verifC26RemoveUnpacked(_ *repository.Repository, _ context.Context, t restic.WriteableFileType, id restic.ID) error {
	verifrt.Assert(t == restic.WriteableSnapshotFile, "file of another type removed")
	return verifC26E.remove(id)
}

// repository stub for filterAndReplaceSnapshot
type verifC26Repo struct {
	restic.Repository
	env      *verifC26Env
	uploads  int
	flushErr bool
}

func (r *verifC26Repo) WithBlobUploader(ctx context.Context, fn func(ctx context.Context, uploader restic.BlobSaverWithAsync) error) error {
	r.uploads++
	if err := fn(ctx, nil); err != nil {
		return err
	}
	if r.flushErr {
		return verifC26Err // flushing the uploaded blobs failed
	}
	return nil
}

func (r *verifC26Repo) RemoveUnpacked(_ context.Context, t restic.WriteableFileType, id restic.ID) error {
	verifrt.Assert(t == restic.WriteableSnapshotFile, "file of another type removed")
	return r.env.remove(id)
}

type verifC26Printer struct{ restic.Printer }

func (verifC26Printer) P(_ string, _ ...any) {}
func (verifC26Printer) V(_ string, _ ...any) {}
func (verifC26Printer) E(_ string, _ ...any) {}

func verifC26ID(b byte) restic.ID {
	var id restic.ID
	id[0], id[31] = b, 1
	return id
}

func verifC26Tags(name string, max int) []string {
	n := verifrt.Int(name+".n", 0, max)
	out := make([]string, n)
	for i := range out {
		c := verifrt.Byte(name)
		verifrt.Assume(c >= 'a' && c <= 'b')
		out[i] = string([]byte{c})
	}
	return out
}

func verifC26Setup() (*verifC26Env, *data.Snapshot, *restic.ID, restic.ID) {
	env := &verifC26Env{oldID: verifC26ID(1), newID: verifC26ID(2)}
	env.st = verifC26State{old: true}
	env.states = []verifC26State{env.st}
	verifC26E = env
	verifrt.Stub("internal/data.SaveSnapshot", verifC26SaveSnapshot)
	verifrt.Stub("(*internal/repository.Repository).RemoveUnpacked", verifC26RemoveUnpacked)

	tree := verifC26ID(10)
	sn := &data.Snapshot{Time: time.Unix(1700000000, 0), Tree: &tree, Paths: []string{"/p"}, Hostname: "h", Username: "u"}
	var oldOrig *restic.ID
	if verifrt.Bool("has-original") {
		o := verifC26ID(3)
		oldOrig = &o
		oc := o
		sn.Original = &oc
	}
	data.TestSetSnapshotID(nil, sn, env.oldID)
	return env, sn, oldOrig, tree
}

// properties common to every replace operation
func verifC26Common(env *verifC26Env, oldOrig *restic.ID, mayRemoveWithoutSave bool) {
	// crash after any prefix: at least one of the two snapshot files exists
	k := verifrt.Int("crash", 0, len(env.trace))
	st := env.states[k]
	if !mayRemoveWithoutSave {
		verifrt.Assert(st.old || st.new, "crash point at which neither the old nor the new snapshot exists")
	}
	savedOK := false
	for _, ev := range env.trace {
		switch ev.op {
		case verifC26Save:
			verifrt.Assert(!savedOK, "snapshot saved twice")
			savedOK = ev.ok
			verifrt.Assert(ev.original != nil, "new snapshot saved without Original")
			verifrt.Assert(*ev.original == env.oldID || (oldOrig != nil && *ev.original == *oldOrig),
				"Original of the new snapshot is neither the old snapshot's ID nor its Original")
		case verifC26Remove:
			verifrt.Assert(ev.id == env.oldID, "a file other than the old snapshot was removed")
			if !mayRemoveWithoutSave {
				verifrt.Assert(savedOK, "old snapshot removed although the new one was not saved successfully")
			}
		}
	}
}

// VerifC26_ChangeTags: `restic tag` on one snapshot.
func VerifC26_ChangeTags() {
	env, sn, oldOrig, tree := verifC26Setup()
	sn.Tags = verifC26Tags("old", 2)
	oldTags := append([]string(nil), sn.Tags...)
	var set, add, rem []string
	if verifrt.Bool("use-set") {
		if verifrt.Bool("set-empty") {
			set = []string{""}
		} else {
			set = verifC26Tags("set", 1)
		}
	} else {
		add = verifC26Tags("add", 1)
		rem = verifC26Tags("rem", 1)
	}
	prints := 0
	var printed changedSnapshot
	changed, err := changeTags(context.Background(), &repository.Repository{}, sn, set, add, rem, func(c changedSnapshot) {
		prints++
		printed = c
	})

	verifC26Common(env, oldOrig, false)
	if !changed && err == nil {
		verifrt.Assert(len(env.trace) == 0, "repository modified although the tags did not change")
		verifrt.Assert(len(sn.Tags) == len(oldTags), "tags changed but reported unchanged")
		verifrt.Reach("tag-unchanged")
		return
	}
	verifrt.Assert(len(env.trace) >= 1 && env.trace[0].op == verifC26Save, "first operation is not saving the new snapshot")
	s := env.trace[0]
	verifrt.Assert(s.tree != nil && *s.tree == tree, "tag changed the tree")
	verifrt.Assert(s.hostname == "h" && s.time.Equal(time.Unix(1700000000, 0)), "tag changed other metadata")
	if oldOrig != nil {
		verifrt.Assert(*s.original == *oldOrig, "tag must keep an existing Original")
	}
	if err != nil {
		verifrt.Assert(!changed, "error together with changed=true")
		verifrt.Assert(prints == 0, "change reported although it failed")
		last := env.trace[len(env.trace)-1]
		verifrt.Assert(!last.ok, "error returned although every operation succeeded")
		verifrt.Reach("tag-error")
		return
	}
	verifrt.Assert(len(env.trace) == 2 && env.trace[0].ok && env.trace[1].op == verifC26Remove && env.trace[1].ok,
		"successful tag change must be exactly: save new, remove old")
	verifrt.Assert(prints == 1 && printed.OldSnapshotID == env.oldID && printed.NewSnapshotID == env.newID, "wrong change report")
	verifrt.Assert(!env.st.old && env.st.new, "final state after a successful tag change")
	verifrt.Reach("tag-changed")
}

// VerifC26_FilterAndReplace: `restic rewrite` / `restic repair snapshots` on one snapshot.
func VerifC26_FilterAndReplace() {
	env, sn, oldOrig, tree := verifC26Setup()
	sn.Tags = verifC26Tags("old", 1)
	repo := &verifC26Repo{env: env, flushErr: verifrt.Bool("flush-fails")}
	oldSummary := &data.SnapshotSummary{FilesNew: 1}
	hadSummary := verifrt.Bool("has-summary")
	if hadSummary {
		sn.Summary = oldSummary
	}

	// what the filter returns
	var newTree restic.ID
	switch verifrt.Int("filter-tree", 0, 2) {
	case 0: // unchanged
		newTree = tree
	case 1: // changed
		newTree = verifC26ID(11)
	case 2: // nothing left
	}
	var newSummary *data.SnapshotSummary
	switch verifrt.Int("filter-summary", 0, 2) {
	case 1:
		newSummary = &data.SnapshotSummary{FilesNew: 1}
	case 2:
		newSummary = &data.SnapshotSummary{FilesNew: 2}
	}
	filterFails := verifrt.Bool("filter-fails")
	filterCalls := 0
	filter := func(_ context.Context, fsn *data.Snapshot, _ restic.BlobSaver) (restic.ID, *data.SnapshotSummary, error) {
		filterCalls++
		verifrt.Assert(fsn == sn, "filter called for another snapshot")
		if filterFails {
			return restic.ID{}, nil, verifC26Err
		}
		return newTree, newSummary, nil
	}
	dryRun := verifrt.Bool("dry-run")
	forget := verifrt.Bool("forget")
	keepEmpty := verifrt.Bool("keep-empty")
	var meta *snapshotMetadata
	newTime := time.Unix(1800000000, 0)
	switch verifrt.Int("metadata", 0, 2) {
	case 1:
		meta = &snapshotMetadata{Hostname: "h2"}
	case 2:
		meta = &snapshotMetadata{Time: &newTime}
	}
	addTag := "rewrite"
	if verifrt.Bool("repair") {
		// the call made by repair snapshots
		addTag = "repaired"
		verifrt.Assume(meta == nil && !keepEmpty && newSummary == nil)
	}

	changed, err := filterAndReplaceSnapshot(context.Background(), repo, sn, filter, dryRun, forget, meta, addTag, verifC26Printer{}, keepEmpty)

	verifrt.Assert(filterCalls == 1 && repo.uploads == 1, "filter must run exactly once inside one uploader")
	emptied := !filterFails && !repo.flushErr && newTree.IsNull() && !keepEmpty
	verifC26Common(env, oldOrig, emptied)

	if dryRun {
		verifrt.Assert(len(env.trace) == 0, "dry run modified the repository")
		verifrt.Assert(sn.Tree != nil && *sn.Tree == tree, "dry run changed the snapshot in memory")
		verifrt.Reach("dry-run")
		return
	}
	if filterFails || repo.flushErr {
		verifrt.Assert(err != nil && !changed && len(env.trace) == 0, "failed filter/upload must abort without touching the snapshots")
		verifrt.Reach("filter-failed")
		return
	}
	if newTree.IsNull() {
		if keepEmpty {
			verifrt.Assert(len(env.trace) == 0 && !changed && err == nil, "kept empty snapshot must stay untouched")
			verifrt.Reach("empty-kept")
		} else {
			// by design: a snapshot with nothing left is deleted without a successor
			verifrt.Assert(len(env.trace) == 1 && env.trace[0].op == verifC26Remove, "empty snapshot: exactly one removal expected")
			verifrt.Reach("empty-removed")
		}
		return
	}
	// independent reading of "not modified": same tree, no new metadata, and no recomputed summary that differs
	wantUnchanged := newTree == tree && meta == nil && (newSummary == nil || (hadSummary && newSummary.FilesNew == 1))
	if wantUnchanged {
		verifrt.Assert(len(env.trace) == 0 && !changed && err == nil, "unmodified snapshot must stay untouched")
		verifrt.Reach("unmodified")
		return
	}
	verifrt.Assert(len(env.trace) >= 1 && env.trace[0].op == verifC26Save, "first operation is not saving the new snapshot")
	s := env.trace[0]
	verifrt.Assert(s.tree != nil && *s.tree == newTree, "saved snapshot does not carry the filtered tree")
	verifrt.Assert(*s.original == env.oldID, "rewrite must set Original to the replaced snapshot")
	hasTag := false
	for _, t := range s.tags {
		if t == addTag {
			hasTag = true
		}
	}
	verifrt.Assert(hasTag == !forget, "marker tag must be added iff the old snapshot is kept")
	if meta != nil && meta.Hostname != "" {
		verifrt.Assert(s.hostname == "h2", "hostname not applied")
	} else {
		verifrt.Assert(s.hostname == "h", "hostname changed")
	}
	if meta != nil && meta.Time != nil {
		verifrt.Assert(s.time.Equal(newTime), "time not applied")
	} else {
		verifrt.Assert(s.time.Equal(time.Unix(1700000000, 0)), "time changed")
	}
	if !forget {
		verifrt.Assert(len(env.trace) == 1, "old snapshot must be kept without --forget")
		verifrt.Assert(env.st.old, "old snapshot lost without --forget")
	}
	if err != nil {
		verifrt.Assert(!changed && !env.trace[len(env.trace)-1].ok, "error returned although every operation succeeded")
		verifrt.Reach("replace-error")
		return
	}
	verifrt.Assert(changed && env.trace[0].ok, "success without a saved snapshot")
	if forget {
		verifrt.Assert(len(env.trace) == 2 && env.trace[1].op == verifC26Remove && env.trace[1].ok, "--forget must remove the old snapshot after the save")
		verifrt.Assert(!env.st.old && env.st.new, "final state after replace")
		verifrt.Reach("replaced-forget")
	} else {
		verifrt.Reach("replaced-kept")
	}
}

package repository

// C38 (part 2): Repository.LoadRaw / LoadBlob / listPack on top of the real cache backend: a damaged cache
// entry is never returned as valid data and is replaced from a healthy repository.

import (
	"bytes"
	"context"

	"github.com/klauspost/compress/zstd"

	"github.com/restic/restic/internal/backend"
	"github.com/restic/restic/internal/backend/cache"
	"github.com/restic/restic/internal/errors"
	"github.com/restic/restic/internal/repository/crypto"
	"github.com/restic/restic/internal/repository/index"
	"github.com/restic/restic/internal/repository/pack"
	"github.com/restic/restic/internal/restic"
	"github.com/restic/restic/internal/verifrt"
)

// ideal collision-free hash with concrete values: the k-th distinct content gets the ID {k,0,...}
type verifC38Hash struct{ seen [][]byte }

func (t *verifC38Hash) hash(data []byte) restic.ID {
	for i, c := range t.seen {
		if bytes.Equal(c, data) {
			return restic.ID{byte(i + 1)}
		}
	}
	t.seen = append(t.seen, append([]byte(nil), data...))
	return restic.ID{byte(len(t.seen))}
}

func verifC38Loads(e *cache.VerifC38Env) int {
	n := 0
	for _, ev := range e.Events {
		if ev.Op == "be-load" {
			n++
		}
	}
	return n
}

func verifC38RawEnv() (*cache.VerifC38Env, *Repository, restic.FileType, restic.ID) {
	size := verifrt.Param("size", 2)
	t := restic.IndexFile
	if verifrt.Bool("snapshot") {
		t = restic.SnapshotFile
	}
	content := verifrt.BytesN("true", size)
	ht := &verifC38Hash{}
	verifrt.Stub("internal/restic.Hash", ht.hash)
	id := restic.Hash(content)
	e := cache.VerifC38NewEnvData(backend.Handle{Type: backend.FileType(t), Name: id.String()}, content)
	r := &Repository{be: e.VerifC38Wrap(), cache: e.Cache}
	return e, r, t, id
}

// VerifC38_LoadRaw: any cache state, backend and cache-directory faults, one interference by another process.
func VerifC38_LoadRaw() {
	e, r, t, id := verifC38RawEnv()
	kind := verifrt.Int("slot", 0, 3)
	e.VerifC38SlotKind(kind)
	e.BackendFaults, e.CacheFaults = true, true
	e.Interference = verifrt.Param("interference", 1)
	e.InBackend = verifrt.Bool("inBackend")

	buf, err := r.LoadRaw(context.Background(), t, id)

	if err == nil {
		verifrt.Assert(bytes.Equal(buf, e.True), "LoadRaw returned without error bytes that differ from the repository file")
		verifrt.Reach("loaded")
	} else {
		verifrt.Reach("failed")
	}
	for _, ev := range e.Events {
		if ev.Op == "cache-write" {
			verifrt.Assert(bytes.Equal(ev.Data, e.True), "the cache was filled with other bytes than the repository file")
		}
		if ev.Op == "be-load" {
			verifrt.Assert(ev.H == e.H && ev.Length == 0 && ev.Offset == 0, "handle/range not forwarded unchanged")
		}
	}
	verifrt.Assert(e.AllClosed() && e.NoTempLeft(), "open or temporary cache files left behind")
}

// VerifC38_LoadRawHealthy: healthy repository and cache directory, nobody interferes: LoadRaw succeeds for
// every state of the cache entry; a damaged entry is forgotten once and replaced by the true bytes.
func VerifC38_LoadRawHealthy() {
	e, r, t, id := verifC38RawEnv()
	kind := verifrt.Int("slot", 0, 3)
	e.VerifC38SlotKind(kind)

	buf, err := r.LoadRaw(context.Background(), t, id)

	verifrt.Assert(err == nil, "LoadRaw failed although the repository is healthy")
	verifrt.Assert(bytes.Equal(buf, e.True), "LoadRaw returned wrong bytes")
	present, now := e.Slot()
	verifrt.Assert(present && bytes.Equal(now, e.True), "the cache entry was not (re)placed by the repository's bytes")
	if kind == 1 {
		verifrt.Assert(verifC38Loads(e) == 0, "a correctly cached file was downloaded")
		verifrt.Reach("hit")
	} else {
		verifrt.Assert(verifC38Loads(e) == 1, "a missing or damaged cache entry costs exactly one download")
		if kind >= 2 {
			verifrt.Reach("damaged-entry-replaced")
		}
	}
	// the circuit breaker: a second Forget of the same file in this run is refused
	if kind >= 2 {
		verifrt.Assert(e.Cache.Forget(e.H) != nil, "the cache entry can be forgotten twice in one run")
	}
}

// ---- LoadBlob ----------------------------------------------------------------------------------------

const (
	verifC38BlobOff = 1
	verifC38BlobLen = 16 + 2 + 16 // nonce, 2 plaintext bytes, tag
)

type verifC38BlobEnv struct {
	e     *cache.VerifC38Env
	r     *Repository
	bh    restic.BlobHandle
	plain []byte
}

func verifC38OpenStub(_ *crypto.Key, dst, _ /*nonce*/, ciphertext, _ []byte) ([]byte, error) {
	if len(ciphertext) < 16 {
		return nil, errors.New("ciphertext too short")
	}
	l := len(ciphertext) - 16
	for _, c := range ciphertext[l:] {
		if c != 0xAA {
			return nil, crypto.ErrUnauthenticated
		}
	}
	return append(dst, ciphertext[:l]...), nil
}

// one pack (tree pack or data pack) holding one uncompressed blob at offset 1
func verifC38BlobSetup() *verifC38BlobEnv {
	ht := &verifC38Hash{}
	verifrt.Stub("internal/restic.Hash", ht.hash)
	verifrt.Stub("(*internal/repository/crypto.Key).Open", verifC38OpenStub)
	verifrt.Stub("(*internal/repository.Repository).getZstdDecoder", func(_ *Repository) *zstd.Decoder { return &zstd.Decoder{} })

	plain := verifrt.BytesN("plain", 2)
	file := []byte{verifrt.Byte("before")}
	file = append(file, make([]byte, 16)...)
	file = append(file, plain...)
	for i := 0; i < 16; i++ {
		file = append(file, 0xAA)
	}
	file = append(file, verifrt.Byte("after"))

	bt := restic.TreeBlob
	if verifrt.Bool("dataBlob") {
		bt = restic.DataBlob
	}
	bh := restic.BlobHandle{ID: restic.Hash(plain), Type: bt}
	packID := restic.ID{0xbb}
	e := cache.VerifC38NewEnvData(backend.Handle{Type: backend.PackFile, Name: packID.String(), IsMetadata: bt == restic.TreeBlob}, file)

	idx := index.NewIndex()
	idx.StorePack(packID, pack.Blobs{{BlobHandle: bh, Offset: verifC38BlobOff, Length: verifC38BlobLen}})
	idx.Finalize()
	mi := index.NewMasterIndex()
	mi.Insert(idx)
	r := &Repository{be: e.VerifC38Wrap(), cache: e.Cache, idx: mi, key: &crypto.Key{}}
	return &verifC38BlobEnv{e: e, r: r, bh: bh, plain: plain}
}

// the cache entry of the pack: 0 absent, 1 correct, 2 one byte of the blob's plaintext flipped, 3 one tag
// byte flipped, 4 a byte outside the blob flipped, 5 truncated inside the blob
func (s *verifC38BlobEnv) slot(kind int) {
	e := s.e
	bad := append([]byte(nil), e.True...)
	x := verifrt.Byte("flip")
	verifrt.Assume(x != 0)
	switch kind {
	case 0:
		e.SetSlot(false, nil)
	case 1:
		e.SetSlot(true, e.True)
	case 2:
		bad[verifC38BlobOff+16] ^= x
		e.SetSlot(true, bad)
	case 3:
		bad[verifC38BlobOff+16+2+3] ^= x
		e.SetSlot(true, bad)
	case 4:
		bad[0] ^= x
		e.SetSlot(true, bad)
	case 5:
		e.SetSlot(true, bad[:verifC38BlobOff+20])
	}
}

// VerifC38_LoadBlob: safety under faults and interference.
func VerifC38_LoadBlob() {
	s := verifC38BlobSetup()
	e := s.e
	s.slot(verifrt.Int("slot", 0, 5))
	e.BackendFaults, e.CacheFaults = true, true
	e.Interference = verifrt.Param("interference", 1)

	buf, err := s.r.LoadBlob(context.Background(), s.bh, nil)

	if err == nil {
		verifrt.Assert(bytes.Equal(buf, s.plain), "LoadBlob returned without error bytes that are not the blob")
		verifrt.Reach("loaded")
	} else {
		verifrt.Reach("failed")
	}
	for _, ev := range e.Events {
		if ev.Op == "cache-write" {
			verifrt.Assert(e.H.IsMetadata, "a data pack was written to the cache")
			verifrt.Assert(bytes.Equal(ev.Data, e.True), "the cache was filled with other bytes than the pack file")
		}
		if ev.Op == "be-load" {
			verifrt.Assert(ev.H == e.H, "handle not forwarded unchanged")
			verifrt.Assert((ev.Length == 0 && ev.Offset == 0) || (ev.Length == verifC38BlobLen && ev.Offset == verifC38BlobOff), "range not forwarded unchanged")
		}
	}
	verifrt.Assert(e.AllClosed() && e.NoTempLeft(), "open or temporary cache files left behind")
}

// VerifC38_LoadBlobHealthy: healthy repository and cache directory: LoadBlob succeeds whatever the cache
// holds; an entry damaged inside the blob is replaced.
func VerifC38_LoadBlobHealthy() {
	s := verifC38BlobSetup()
	e := s.e
	kind := verifrt.Int("slot", 0, 5)
	s.slot(kind)

	buf, err := s.r.LoadBlob(context.Background(), s.bh, nil)

	verifrt.Assert(err == nil, "LoadBlob failed although the repository is healthy")
	verifrt.Assert(bytes.Equal(buf, s.plain), "LoadBlob returned wrong bytes")
	present, now := e.Slot()
	damaged := kind == 2 || kind == 3 || kind == 5
	if damaged {
		if e.H.IsMetadata {
			verifrt.Assert(present && bytes.Equal(now, e.True), "a damaged tree-pack entry was not replaced by the repository's bytes")
		} else {
			verifrt.Assert(!present, "a damaged data-pack entry must be dropped")
		}
		verifrt.Assert(verifC38Loads(e) == 1, "a damaged cache entry costs exactly one download")
		verifrt.Reach("damaged-entry-replaced")
	} else if kind == 1 || kind == 4 {
		verifrt.Assert(verifC38Loads(e) == 0, "an entry whose blob range is intact is used without download")
		verifrt.Reach("hit")
	}
}

// VerifC38_LoadRawHistory: two loads of the same index/snapshot file in one run. During the first
// the backend may fail transiently (LoadRaw's own retry, Forget of a not yet cached file); between
// the two loads the cache entry may get corrupted, truncated or removed; during the second load
// repository and cache directory are healthy. The second load must return the repository's bytes and
// leave the true bytes in the cache: a corrupted entry is detected and replaced even if this run has
// already had trouble with the file.
func VerifC38_LoadRawHistory() {
	e, r, t, id := verifC38RawEnv()
	e.VerifC38SlotKind(verifrt.Int("slot", 0, 3)) // first load: entry absent, correct, corrupted or truncated
	e.BackendFaults = true
	_, err1 := r.LoadRaw(context.Background(), t, id)
	forgotBefore := e.SlotRemovals > 0 // a cache entry really was deleted in this run: the circuit breaker may be armed
	if err1 != nil {
		verifrt.Reach("first-load-failed")
	}

	e.BackendFaults = false
	kind := verifrt.Int("slot2", 0, 4) // 0 removed, 1 correct, 2 corrupted, 3 truncated, 4 left as it is
	if kind < 4 {
		e.VerifC38SlotKind(kind)
	}
	n0 := len(e.Events)
	buf, err := r.LoadRaw(context.Background(), t, id)
	if forgotBefore {
		// documented limit: a cached file is deleted at most once per run
		verifrt.Reach("breaker-armed")
		if err == nil {
			verifrt.Assert(bytes.Equal(buf, e.True), "LoadRaw returned wrong bytes")
		}
		return
	}
	verifrt.Assert(err == nil, "LoadRaw fails on a healthy repository because of the state of the cache, although no cached file was deleted before in this run")
	verifrt.Assert(bytes.Equal(buf, e.True), "LoadRaw returned wrong bytes")
	present, now := e.Slot()
	verifrt.Assert(present && bytes.Equal(now, e.True), "the cache entry was not (re)placed by the repository's bytes")
	if kind == 2 || kind == 3 {
		verifrt.Reach("damaged-entry-replaced-on-second-load")
	}
	_ = n0
}

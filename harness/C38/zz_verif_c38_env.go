package cache

// C38 environment: the cache directory is a small file-system model behind stubs of the os functions
// that Cache.load/save/Has/remove use (so those run for real); the repository is an inner backend
// holding one file whose true bytes it returns (or an error). Every operation is logged.
// Exported names: the environment is shared with the harness in internal/repository.

import (
	"bytes"
	"context"
	"hash"
	"io"
	"io/fs"
	"os"
	"sync"
	"time"

	"github.com/restic/restic/internal/backend"
	"github.com/restic/restic/internal/errors"
	"github.com/restic/restic/internal/verifrt"
)

// VerifC38Event: one operation on the inner backend ("be-load", "be-save", "be-remove", "be-stat") or a
// completed write into the cache ("cache-write": a file renamed to its final name).
type VerifC38Event struct {
	Op     string
	H      backend.Handle
	Length int
	Offset int64
	OK     bool
	Data   []byte
	Path   string
}

type verifC38File struct {
	path   string
	data   []byte
	exists bool
}

type verifC38Open struct {
	f      *os.File
	path   string
	data   []byte // reading: the bytes of the file when it was opened (an open file survives unlinking)
	pos    int64
	write  bool
	closed bool
}

type verifC38MapEntry struct {
	m    *sync.Map
	k, v any
}

// VerifC38Env is the model state.
type VerifC38Env struct {
	Cache *Cache
	Inner *VerifC38Inner

	H    backend.Handle // the one file of the repository
	True []byte         // its bytes

	files []verifC38File
	open  []*verifC38Open
	temps int
	smap  []verifC38MapEntry

	Events       []VerifC38Event
	SlotRemovals int // how often the cache entry was really deleted

	BackendFaults bool // inner backend operations may fail
	CacheFaults   bool // creating/writing/renaming/removing cache files may fail
	Interference  int  // number of times another process may still clear or (correctly) fill the cache slot
	InBackend     bool // the file exists in the repository
}

func (e *VerifC38Env) fail(on bool, name string) bool { return on && verifrt.Bool(name) }

// SlotPath is the cache file name of the repository file.
func (e *VerifC38Env) SlotPath() string { return e.Cache.filename(e.H) }

func (e *VerifC38Env) lookup(path string) int {
	for i := range e.files {
		if e.files[i].path == path {
			return i
		}
	}
	e.files = append(e.files, verifC38File{path: path})
	return len(e.files) - 1
}

// SetSlot puts the cache slot into a given state.
func (e *VerifC38Env) SetSlot(present bool, data []byte) {
	i := e.lookup(e.SlotPath())
	e.files[i].exists = present
	e.files[i].data = data
}

// Slot returns the state of the cache slot.
func (e *VerifC38Env) Slot() (bool, []byte) {
	i := e.lookup(e.SlotPath())
	return e.files[i].exists, e.files[i].data
}

// another restic process sharing the cache directory: may delete the slot (cache cleanup) or fill it with
// the true bytes, before any file-system operation of this process
func (e *VerifC38Env) interfere() {
	if e.Interference <= 0 {
		return
	}
	switch verifrt.Int("other", 0, 2) {
	case 1:
		e.Interference--
		e.SetSlot(false, nil)
	case 2:
		e.Interference--
		e.SetSlot(true, e.True)
	}
}

func verifC38NotExist(op, path string) error {
	return &fs.PathError{Op: op, Path: path, Err: fs.ErrNotExist}
}

type verifC38FI struct{ size int64 }

func (fi verifC38FI) Name() string       { return "f" }
func (fi verifC38FI) Size() int64        { return fi.size }
func (fi verifC38FI) Mode() fs.FileMode  { return 0600 }
func (fi verifC38FI) ModTime() time.Time { return time.Time{} }
func (fi verifC38FI) IsDir() bool        { return false }
func (fi verifC38FI) Sys() any           { return nil }

func (e *VerifC38Env) handle(f *os.File) *verifC38Open {
	for _, o := range e.open {
		if o.f == f {
			return o
		}
	}
	verifrt.Assert(false, "os.File method called on a file the model did not open")
	return nil
}

func (e *VerifC38Env) osOpen(name string) (*os.File, error) {
	e.interfere()
	i := e.lookup(name)
	if !e.files[i].exists {
		return nil, verifC38NotExist("open", name)
	}
	o := &verifC38Open{f: new(os.File), path: name, data: e.files[i].data}
	e.open = append(e.open, o)
	return o.f, nil
}

func (e *VerifC38Env) osStat(name string) (os.FileInfo, error) {
	e.interfere()
	i := e.lookup(name)
	if !e.files[i].exists {
		return nil, verifC38NotExist("stat", name)
	}
	return verifC38FI{size: int64(len(e.files[i].data))}, nil
}

func (e *VerifC38Env) osCreateTemp(dir, pattern string) (*os.File, error) {
	if e.fail(e.CacheFaults, "createTempFails") {
		return nil, errors.New("createtemp: no space left on device")
	}
	e.temps++
	name := dir + "/" + pattern + string(rune('0'+e.temps))
	i := e.lookup(name)
	e.files[i].exists = true
	e.files[i].data = nil
	o := &verifC38Open{f: new(os.File), path: name, write: true}
	e.open = append(e.open, o)
	return o.f, nil
}

func (e *VerifC38Env) osRename(oldpath, newpath string) error {
	e.interfere()
	i := e.lookup(oldpath)
	if !e.files[i].exists {
		return verifC38NotExist("rename", oldpath)
	}
	if e.fail(e.CacheFaults, "renameFails") {
		return errors.New("rename failed")
	}
	data := e.files[i].data
	e.files[i].exists = false
	j := e.lookup(newpath)
	e.files[j].exists = true
	e.files[j].data = data
	e.Events = append(e.Events, VerifC38Event{Op: "cache-write", Path: newpath, Data: data, OK: true})
	return nil
}

func (e *VerifC38Env) osRemove(name string) error {
	e.interfere()
	i := e.lookup(name)
	if !e.files[i].exists {
		return verifC38NotExist("remove", name)
	}
	// removing the cache entry may fail (permissions); cleaning up a temporary file just created does not
	if name == e.SlotPath() && e.fail(e.CacheFaults, "removeFails") {
		return &fs.PathError{Op: "remove", Path: name, Err: fs.ErrPermission}
	}
	e.files[i].exists = false
	if name == e.SlotPath() {
		e.SlotRemovals++
	}
	return nil
}

func (e *VerifC38Env) fileStat(f *os.File) (os.FileInfo, error) {
	o := e.handle(f)
	return verifC38FI{size: int64(len(o.data))}, nil
}

func (e *VerifC38Env) fileSeek(f *os.File, offset int64, whence int) (int64, error) {
	o := e.handle(f)
	verifrt.Assert(whence == io.SeekStart && !o.write, "unexpected Seek")
	o.pos = offset
	return offset, nil
}

func (e *VerifC38Env) fileRead(f *os.File, p []byte) (int, error) {
	o := e.handle(f)
	verifrt.Assert(!o.closed && !o.write, "read from a closed file")
	if o.pos >= int64(len(o.data)) {
		return 0, io.EOF
	}
	n := copy(p, o.data[o.pos:])
	o.pos += int64(n)
	return n, nil
}

// (*os.File).ReadFrom is what io.Copy(f, rd) uses
func (e *VerifC38Env) fileReadFrom(f *os.File, r io.Reader) (int64, error) {
	o := e.handle(f)
	verifrt.Assert(o.write && !o.closed, "write to a file not open for writing")
	data, err := io.ReadAll(r)
	i := e.lookup(o.path)
	if err != nil {
		// the source failed: some prefix was written
		e.files[i].data = append(e.files[i].data, data...)
		return int64(len(data)), err
	}
	if e.fail(e.CacheFaults, "writeFails") {
		// disk full: a proper prefix was written
		return 0, errors.New("write: no space left on device")
	}
	e.files[i].data = append(e.files[i].data, data...)
	return int64(len(data)), nil
}

func (e *VerifC38Env) fileWrite(f *os.File, p []byte) (int, error) {
	o := e.handle(f)
	verifrt.Assert(o.write && !o.closed, "write to a file not open for writing")
	i := e.lookup(o.path)
	e.files[i].data = append(e.files[i].data, p...)
	return len(p), nil
}

func (e *VerifC38Env) fileClose(f *os.File) error {
	o := e.handle(f)
	verifrt.Assert(!o.closed, "file closed twice")
	o.closed = true
	return nil
}

func (e *VerifC38Env) fileName(f *os.File) string { return e.handle(f).path }

// AllClosed: every file the cache opened was closed again.
func (e *VerifC38Env) AllClosed() bool {
	for _, o := range e.open {
		if !o.closed {
			return false
		}
	}
	return true
}

// NoTempLeft: no temporary file is left in the cache directory.
func (e *VerifC38Env) NoTempLeft() bool {
	slot := e.SlotPath()
	for _, f := range e.files {
		if f.exists && f.path != slot {
			return false
		}
	}
	return true
}

// ---- sync.Map (Cache.forgotten) -------------------------------------------------------------------

func (e *VerifC38Env) mapLoad(m *sync.Map, k any) (any, bool) {
	for _, en := range e.smap {
		if en.m == m && en.k == k {
			return en.v, true
		}
	}
	return nil, false
}

func (e *VerifC38Env) mapStore(m *sync.Map, k, v any) {
	e.smap = append(e.smap, verifC38MapEntry{m: m, k: k, v: v})
}

// ---- inner backend ---------------------------------------------------------------------------------

// VerifC38Window is the part of data that Load(length, offset) must deliver.
func VerifC38Window(data []byte, length int, offset int64) []byte {
	if length <= 0 {
		return data[offset:]
	}
	return data[offset : offset+int64(length)]
}

type verifC38Reader struct {
	data []byte
	pos  int
}

func (r *verifC38Reader) Read(p []byte) (int, error) {
	if r.pos >= len(r.data) {
		return 0, io.EOF
	}
	n := copy(p, r.data[r.pos:])
	r.pos += n
	return n, nil
}

var verifC38ErrNotExist = errors.New("file does not exist in the repository")

// VerifC38Inner is the repository: it holds the one file (if InBackend) and logs what it is asked.
type VerifC38Inner struct {
	backend.Backend
	e *VerifC38Env
}

func (b *VerifC38Inner) Hasher() hash.Hash         { return nil }
func (b *VerifC38Inner) Connections() uint         { return 2 }
func (b *VerifC38Inner) IsNotExist(err error) bool { return err == verifC38ErrNotExist }

func (b *VerifC38Inner) Load(_ context.Context, h backend.Handle, length int, offset int64, fn func(rd io.Reader) error) error {
	e := b.e
	ev := VerifC38Event{Op: "be-load", H: h, Length: length, Offset: offset}
	verifrt.Yield()
	if !e.InBackend || h.Type != e.H.Type || h.Name != e.H.Name {
		e.Events = append(e.Events, ev)
		return verifC38ErrNotExist
	}
	if e.fail(e.BackendFaults, "backendLoadFails") {
		e.Events = append(e.Events, ev)
		return errors.New("backend load failed")
	}
	verifrt.Assert(offset >= 0 && offset+int64(length) <= int64(len(e.True)), "backend asked for a range outside the file")
	ev.OK = true
	e.Events = append(e.Events, ev)
	return fn(&verifC38Reader{data: VerifC38Window(e.True, length, offset)})
}

func (b *VerifC38Inner) Save(_ context.Context, h backend.Handle, rd backend.RewindReader) error {
	e := b.e
	data, err := io.ReadAll(rd)
	if err != nil {
		return err
	}
	if e.fail(e.BackendFaults, "backendSaveFails") {
		e.Events = append(e.Events, VerifC38Event{Op: "be-save", H: h, Data: data})
		return errors.New("backend save failed")
	}
	e.Events = append(e.Events, VerifC38Event{Op: "be-save", H: h, Data: data, OK: true})
	e.InBackend = true
	return nil
}

func (b *VerifC38Inner) Remove(_ context.Context, h backend.Handle) error {
	e := b.e
	if e.fail(e.BackendFaults, "backendRemoveFails") {
		e.Events = append(e.Events, VerifC38Event{Op: "be-remove", H: h})
		return errors.New("backend remove failed")
	}
	e.Events = append(e.Events, VerifC38Event{Op: "be-remove", H: h, OK: true})
	e.InBackend = false
	return nil
}

func (b *VerifC38Inner) Stat(_ context.Context, h backend.Handle) (backend.FileInfo, error) {
	e := b.e
	if !e.InBackend {
		e.Events = append(e.Events, VerifC38Event{Op: "be-stat", H: h})
		return backend.FileInfo{}, verifC38ErrNotExist
	}
	if e.fail(e.BackendFaults, "backendStatFails") {
		e.Events = append(e.Events, VerifC38Event{Op: "be-stat", H: h})
		return backend.FileInfo{}, errors.New("backend stat failed")
	}
	e.Events = append(e.Events, VerifC38Event{Op: "be-stat", H: h, OK: true})
	return backend.FileInfo{Name: h.Name, Size: int64(len(e.True))}, nil
}

// VerifC38NewEnv installs the stubs and returns a cache (directory /c) in front of a repository holding
// the file h with n symbolic bytes.
func VerifC38NewEnv(h backend.Handle, n int) *VerifC38Env {
	return VerifC38NewEnvData(h, verifrt.BytesN("true", n))
}

// VerifC38NewEnvData: same with given file content.
func VerifC38NewEnvData(h backend.Handle, data []byte) *VerifC38Env {
	e := &VerifC38Env{Cache: &Cache{path: "/c"}, H: h, True: data, InBackend: true}
	e.Inner = &VerifC38Inner{e: e}
	// package os is not initialised by the engine; give its error variables their real values
	os.ErrNotExist, os.ErrExist, os.ErrPermission = fs.ErrNotExist, fs.ErrExist, fs.ErrPermission
	verifrt.Stub("os.Open", e.osOpen)
	verifrt.Stub("os.Stat", e.osStat)
	verifrt.Stub("os.Mkdir", func(string, os.FileMode) error { return nil })
	verifrt.Stub("os.CreateTemp", e.osCreateTemp)
	verifrt.Stub("os.Rename", e.osRename)
	verifrt.Stub("os.Remove", e.osRemove)
	verifrt.Stub("(*os.File).Stat", e.fileStat)
	verifrt.Stub("(*os.File).Seek", e.fileSeek)
	verifrt.Stub("(*os.File).Read", e.fileRead)
	verifrt.Stub("(*os.File).ReadFrom", e.fileReadFrom)
	verifrt.Stub("(*os.File).Write", e.fileWrite)
	verifrt.Stub("(*os.File).Close", e.fileClose)
	verifrt.Stub("(*os.File).Name", e.fileName)
	return e
}

// VerifC38Wrap returns the real cache backend in front of the repository.
func (e *VerifC38Env) VerifC38Wrap() backend.Backend {
	return e.Cache.Wrap(e.Inner, func(string, ...any) {})
}

// VerifC38SlotKind sets up the cache slot: 0 absent, 1 correct, 2 corrupted (same length, other bytes),
// 3 truncated (a proper prefix of the true bytes). Returns the slot content.
func (e *VerifC38Env) VerifC38SlotKind(kind int) []byte {
	switch kind {
	case 1:
		e.SetSlot(true, e.True)
		return e.True
	case 2:
		bad := verifrt.BytesN("corrupt", len(e.True))
		verifrt.Assume(!bytes.Equal(bad, e.True))
		e.SetSlot(true, bad)
		return bad
	case 3:
		cut := verifrt.Int("cut", 0, len(e.True)-1)
		e.SetSlot(true, e.True[:cut])
		return e.True[:cut]
	}
	e.SetSlot(false, nil)
	return nil
}

package cache

// C38 (part 1): the cache backend in front of a repository file, for every state of the cache slot.

import (
	"bytes"
	"context"
	"io"
	"sync"

	"github.com/restic/restic/internal/backend"
	"github.com/restic/restic/internal/errors"
	"github.com/restic/restic/internal/verifrt"
)

const verifC38Name = "ab0123"

// verifC38Handle picks the file type: index, snapshot, tree pack (all cached automatically), data pack
// (cacheable but never cached automatically), key (never cached).
func verifC38Handle() backend.Handle {
	switch verifrt.Int("type", 0, 4) {
	case 0:
		return backend.Handle{Type: backend.IndexFile, Name: verifC38Name}
	case 1:
		return backend.Handle{Type: backend.SnapshotFile, Name: verifC38Name}
	case 2:
		return backend.Handle{Type: backend.PackFile, Name: verifC38Name, IsMetadata: true}
	case 3:
		return backend.Handle{Type: backend.PackFile, Name: verifC38Name}
	}
	return backend.Handle{Type: backend.KeyFile, Name: verifC38Name}
}

func verifC38Auto(h backend.Handle) bool {
	return h.Type == backend.IndexFile || h.Type == backend.SnapshotFile || (h.Type == backend.PackFile && h.IsMetadata)
}

func verifC38Cacheable(h backend.Handle) bool {
	return h.Type == backend.IndexFile || h.Type == backend.SnapshotFile || h.Type == backend.PackFile
}

// VerifC38_Load: one cacheBackend.Load(h, length, offset) for every slot state, window and fault.
func VerifC38_Load() {
	h := verifC38Handle()
	size := verifrt.Param("size", 3)
	e := VerifC38NewEnv(h, size)
	kind := 0
	var slot []byte
	if verifC38Cacheable(h) {
		kind = verifrt.Int("slot", 0, 3)
		slot = e.VerifC38SlotKind(kind)
	}
	e.BackendFaults, e.CacheFaults = true, true
	e.Interference = verifrt.Param("interference", 1)
	e.InBackend = verifrt.Bool("inBackend") // false: the file was deleted from the repository (stale cache)
	be := e.VerifC38Wrap()

	offset := int64(verifrt.Int("offset", 0, size))
	length := verifrt.Int("length", 0, size)
	verifrt.Assume(offset+int64(length) <= int64(size))
	want := VerifC38Window(e.True, length, offset)

	calls := 0
	var got []byte
	consumerFails := verifrt.Bool("consumerFails")
	err := be.Load(context.Background(), h, length, offset, func(rd io.Reader) error {
		calls++
		data, rerr := io.ReadAll(rd)
		verifrt.Assert(rerr == nil, "reader handed to the consumer failed")
		got = data
		if consumerFails {
			return errors.New("consumer failed")
		}
		return nil
	})

	verifrt.Assert(calls <= 1, "consumer called more than once by one Load")
	verifrt.Assert(e.AllClosed(), "a cache file was left open")
	verifrt.Assert(e.NoTempLeft(), "a temporary file was left in the cache directory")
	if err == nil {
		verifrt.Assert(calls == 1 && !consumerFails, "Load reports success without the consumer having succeeded")
		fromSlot := false
		if kind >= 2 && int64(len(slot)) >= offset+int64(length) {
			fromSlot = bytes.Equal(got, VerifC38Window(slot, length, offset))
		}
		if kind <= 1 {
			// absent or correct cache entry (other processes add only correct entries): exactly the repository's bytes
			verifrt.Assert(bytes.Equal(got, want), "Load delivered other bytes than the repository holds")
		} else {
			// a damaged cache entry may be delivered as it is (LoadRaw/LoadBlob verify and Forget), nothing else
			verifrt.Assert(bytes.Equal(got, want) || fromSlot, "Load delivered bytes that are neither the repository's nor the cache entry's")
		}
	}
	// what reaches the repository: the same handle, and either the caller's window or the whole file
	loads := 0
	for _, ev := range e.Events {
		switch ev.Op {
		case "be-load":
			loads++
			verifrt.Assert(ev.H == h, "handle not forwarded unchanged")
			whole := ev.Length == 0 && ev.Offset == 0
			verifrt.Assert(whole || (ev.Length == length && ev.Offset == offset), "length/offset not forwarded unchanged")
			if !verifC38Auto(h) {
				verifrt.Assert(ev.Length == length && ev.Offset == offset, "a file that is not cached automatically was requested with another range")
			}
		case "cache-write":
			verifrt.Assert(verifC38Auto(h), "a file type that must not be cached automatically was written to the cache")
			verifrt.Assert(ev.Path == e.SlotPath(), "cache entry written under a wrong name")
			verifrt.Assert(bytes.Equal(ev.Data, e.True), "the cache was filled with other bytes than the whole repository file")
		default:
			verifrt.Assert(false, "Load issued another backend operation than Load")
		}
	}
	verifrt.Assert(loads <= 2, "more than two backend requests for one Load")
	present, now := e.Slot()
	if present && kind <= 1 {
		verifrt.Assert(bytes.Equal(now, e.True), "the cache entry differs from the repository file")
	}
	if !e.InBackend {
		verifrt.Assert(err != nil || kind != 0 || e.Interference < verifrt.Param("interference", 1), "a file that is in neither repository nor cache was loaded")
	}

	switch {
	case err == nil && loads == 0:
		verifrt.Reach("served-from-cache")
	case err == nil && loads == 1 && !verifC38Auto(h):
		verifrt.Reach("served-from-backend-uncached-type")
	case err == nil && loads == 1:
		verifrt.Reach("downloaded-then-served-from-cache")
	case err == nil && loads == 2:
		verifrt.Reach("cache-cleared-meanwhile-fallback-to-backend")
	case err != nil && kind == 3 && loads == 0:
		verifrt.Reach("truncated-entry-reported")
	case err != nil:
		verifrt.Reach("failed")
	}
}

// VerifC38_LoadHealthy: no faults, no interference, file in the repository: Load succeeds unless the cache
// entry is too short for the window, downloads at most once and leaves a correct entry behind.
func VerifC38_LoadHealthy() {
	h := verifC38Handle()
	size := verifrt.Param("size", 3)
	e := VerifC38NewEnv(h, size)
	kind := 0
	var slot []byte
	if verifC38Cacheable(h) {
		kind = verifrt.Int("slot", 0, 3)
		slot = e.VerifC38SlotKind(kind)
	}
	be := e.VerifC38Wrap()
	offset := int64(verifrt.Int("offset", 0, size))
	length := verifrt.Int("length", 0, size)
	verifrt.Assume(offset+int64(length) <= int64(size))
	var got []byte
	err := be.Load(context.Background(), h, length, offset, func(rd io.Reader) error {
		data, rerr := io.ReadAll(rd)
		got = data
		return rerr
	})
	loads := 0
	for _, ev := range e.Events {
		if ev.Op == "be-load" {
			loads++
		}
	}
	tooShort := kind == 3 && int64(len(slot)) < offset+int64(length)
	if tooShort {
		verifrt.Assert(err != nil && loads == 0, "a cache entry shorter than the requested range must be reported")
		verifrt.Reach("too-short")
		return
	}
	verifrt.Assert(err == nil, "Load failed although repository and cache directory are healthy")
	if kind == 0 {
		verifrt.Assert(loads == 1, "an uncached file is downloaded exactly once")
		verifrt.Assert(bytes.Equal(got, VerifC38Window(e.True, length, offset)), "wrong bytes")
		present, now := e.Slot()
		verifrt.Assert(present == verifC38Auto(h), "exactly the automatically cached types are in the cache after a Load")
		if present {
			verifrt.Assert(bytes.Equal(now, e.True), "wrong cache content")
		}
		verifrt.Reach("miss")
	} else {
		verifrt.Assert(loads == 0, "a cached file was downloaded")
		verifrt.Reach("hit")
	}
}

// VerifC38_Save: Save writes to the repository first and caches exactly the same bytes afterwards.
func VerifC38_Save() {
	h := verifC38Handle()
	size := verifrt.Param("size", 3)
	e := VerifC38NewEnv(h, size)
	e.InBackend = false
	e.BackendFaults, e.CacheFaults = true, true
	be := e.VerifC38Wrap()
	err := be.Save(context.Background(), h, backend.NewByteReader(e.True, nil))
	var saved, cached *VerifC38Event
	for i := range e.Events {
		ev := &e.Events[i]
		switch ev.Op {
		case "be-save":
			verifrt.Assert(saved == nil && cached == nil, "Save must write to the repository once and before caching")
			saved = ev
		case "cache-write":
			verifrt.Assert(cached == nil && saved != nil && saved.OK, "cache entry written without a successful repository save before")
			cached = ev
		default:
			verifrt.Assert(false, "unexpected backend operation in Save")
		}
	}
	verifrt.Assert(saved != nil && saved.H == h && bytes.Equal(saved.Data, e.True), "handle or bytes not forwarded unchanged to the repository")
	if cached != nil {
		verifrt.Assert(verifC38Auto(h), "a type that is not cached automatically was cached by Save")
		verifrt.Assert(cached.Path == e.SlotPath() && bytes.Equal(cached.Data, e.True), "Save cached other bytes than it stored")
	}
	verifrt.Assert(e.NoTempLeft() && e.AllClosed(), "temporary or open files left behind")
	if err == nil {
		verifrt.Assert(saved.OK, "Save reports success although the repository save failed")
		verifrt.Assert((cached != nil) == verifC38Auto(h), "after a successful Save exactly the automatically cached types are cached")
		verifrt.Reach("saved")
	} else {
		verifrt.Reach("save-failed")
	}
}

// VerifC38_RemoveStat: Remove deletes from the repository, then from the cache; Stat drops a stale entry.
func VerifC38_RemoveStat() {
	h := verifC38Handle()
	e := VerifC38NewEnv(h, 2)
	if verifC38Cacheable(h) {
		e.VerifC38SlotKind(verifrt.Int("slot", 0, 1))
	}
	e.BackendFaults = true
	be := e.VerifC38Wrap()
	if verifrt.Bool("stat") {
		e.InBackend = verifrt.Bool("inBackend")
		was := e.InBackend
		fi, err := be.Stat(context.Background(), h)
		verifrt.Assert(len(e.Events) == 1 && e.Events[0].Op == "be-stat" && e.Events[0].H == h, "Stat not forwarded unchanged")
		verifrt.Assert((err == nil) == e.Events[0].OK, "Stat does not report the repository's answer")
		present, _ := e.Slot()
		if !was {
			verifrt.Assert(!present, "Stat left a cache entry for a file that is not in the repository")
			verifrt.Reach("stale-entry-dropped")
		} else if err == nil {
			verifrt.Assert(fi.Size == 2, "Stat returned another size than the repository")
			verifrt.Reach("stat-ok")
		}
		return
	}
	before, _ := e.Slot()
	err := be.Remove(context.Background(), h)
	verifrt.Assert(len(e.Events) == 1 && e.Events[0].Op == "be-remove" && e.Events[0].H == h, "Remove not forwarded unchanged")
	present, _ := e.Slot()
	if e.Events[0].OK {
		verifrt.Assert(err == nil && !present, "file removed from the repository but still cached")
		verifrt.Reach("removed")
	} else {
		verifrt.Assert(err != nil && present == before, "failed repository Remove must leave the cache alone")
		verifrt.Reach("remove-failed")
	}
}

// VerifC38_ConcurrentLoads: two goroutines load the same uncached file: one download, both get the bytes.
func VerifC38_ConcurrentLoads() {
	h := backend.Handle{Type: backend.IndexFile, Name: verifC38Name}
	size := verifrt.Param("size", 2)
	e := VerifC38NewEnv(h, size)
	e.VerifC38SlotKind(0)
	be := e.VerifC38Wrap()
	var wg sync.WaitGroup
	var got [2][]byte
	var errs [2]error
	for t := 0; t < 2; t++ {
		t := t
		wg.Add(1)
		go func() {
			defer wg.Done()
			errs[t] = be.Load(context.Background(), h, 0, 0, func(rd io.Reader) error {
				data, rerr := io.ReadAll(rd)
				got[t] = data
				return rerr
			})
		}()
	}
	wg.Wait()
	loads := 0
	for _, ev := range e.Events {
		if ev.Op == "be-load" {
			loads++
		}
	}
	for t := 0; t < 2; t++ {
		verifrt.Assert(errs[t] == nil, "a concurrent Load failed")
		verifrt.Assert(bytes.Equal(got[t], e.True), "a concurrent Load delivered wrong bytes")
	}
	verifrt.Assert(loads == 1, "two concurrent loads of one uncached file must download it exactly once")
	verifrt.Reach("one-download")
	present, now := e.Slot()
	verifrt.Assert(present && bytes.Equal(now, e.True), "cache entry missing or wrong after concurrent loads")
	verifrt.Assert(e.NoTempLeft() && e.AllClosed(), "temporary or open files left behind")
}

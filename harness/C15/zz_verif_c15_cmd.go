package main

// C15 (reader part, command level): the real runCheck (error accounting) on the symbolic repository state
// of internal/repository/zz_verif_c15.go, without snapshots.

import (
	"context"

	"github.com/restic/restic/internal/checker"
	"github.com/restic/restic/internal/global"
	"github.com/restic/restic/internal/repository"
	"github.com/restic/restic/internal/restic"
	"github.com/restic/restic/internal/ui"
	"github.com/restic/restic/internal/verifrt"
)

// VerifC15_RunCheck: check succeeds and sets exactly the prune / repair-index suggestions.
func VerifC15_RunCheck() {
	s := repository.VerifC15Build()
	verifrt.Stub("cmd/restic.openWithExclusiveLock", func(ctx context.Context, _ global.Options, _ bool, _ restic.Printer) (context.Context, *repository.Repository, func(), error) {
		return ctx, s.Repo, func() {}, nil
	})
	verifrt.Stub("cmd/restic.prepareCheckCache", func(CheckOptions, *global.Options, restic.Printer) func() { return func() {} })
	verifrt.Stub("internal/ui/progress.NewTerminalPrinter", func(bool, uint, ui.Terminal) restic.Printer { return restic.NewNoopPrinter() })

	// no snapshots: the structure pass has nothing to report (its worker pools only multiply the schedules)
	verifrt.Stub("(*internal/checker.Checker).Structure", func(_ *checker.Checker, _ context.Context, _ restic.Counter, errChan chan<- error) {
		close(errChan)
	})

	summary, err := runCheck(context.Background(), CheckOptions{}, global.Options{NoLock: true}, nil, nil)

	anyDup, anyMixed, anyOrphan := false, false, false
	for p := range s.PackIDs {
		n := s.NumIndexes(p)
		if n >= 2 {
			anyDup = true
		}
		if n >= 1 && s.Mixed[p] {
			anyMixed = true
		}
		if n == 0 && s.Listed[p] {
			anyOrphan = true
		}
	}
	verifrt.Assert(err == nil, "check reports errors on a repository restic produced")
	verifrt.Assert(summary.NumErrors == 0, "check counts errors on a repository restic produced")
	verifrt.Assert(len(summary.BrokenPacks) == 0, "check lists packs to salvage on a repository restic produced")
	verifrt.Assert(summary.HintRepairIndex == anyDup, "repair-index suggestion iff a pack is listed in two index files")
	verifrt.Assert(summary.HintPrune == (anyMixed || anyOrphan), "prune suggestion iff there is an orphaned or a mixed pack")
	if anyDup {
		verifrt.Reach("suggest-repair-index")
	}
	if anyMixed || anyOrphan {
		verifrt.Reach("suggest-prune")
	}
	if !anyDup && !anyMixed && !anyOrphan {
		verifrt.Reach("clean")
	}
}

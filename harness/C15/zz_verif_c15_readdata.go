package repository

// C15 (check --read-data): the real checkPack/checkPackInner on an intact pack written by the real
// Packer, in a repository that restic itself can produce: the pack's blobs may additionally be stored
// in another indexed pack (interrupted backup + repair index, two hosts backing up the same data),
// at the same or another offset, and the other pack may have been indexed before or after this one.
// No error may be reported. (Environment of C03: keyed-MAC stand-in for AES/Poly1305, abstract SHA-256.)

import (
	"bufio"
	"context"

	"github.com/klauspost/compress/zstd"
	"github.com/restic/restic/internal/backend"
	"github.com/restic/restic/internal/repository/pack"
	"github.com/restic/restic/internal/restic"
	"github.com/restic/restic/internal/verifrt"
)

func VerifC15_ReadDataDuplicates() {
	r, be := verifC03Env()
	ctx := context.Background()

	g0, g1 := verifrt.BytesN("good", 1), verifrt.BytesN("good", 1)
	goods := [][]byte{g0, g1}
	blobs := pack.Blobs{
		{BlobHandle: restic.BlobHandle{Type: restic.DataBlob, ID: restic.Hash(g0)}, Offset: 0, Length: 33},
		{BlobHandle: restic.BlobHandle{Type: restic.TreeBlob, ID: restic.Hash(g1)}, Offset: 33, Length: 35, UncompressedLength: 1},
	}
	verifrt.Stub("internal/repository/crypto.NewRandomNonce", func() []byte { return []byte{0xb2, 1, 2, 3, 4, 5, 6, 7, 8, 9, 10, 11, 12, 13, 14, 15} })
	orig := verifC03BuildPack(r, blobs, goods)
	size := verifC03IndexSize(blobs)
	id := restic.Hash(orig)

	// the other pack: holds a copy of blob 0 and/or blob 1, at the same position as in this pack or
	// shifted; it is indexed before or after this pack
	other := restic.ID{0xcc, 0x15}
	var otherBlobs pack.Blobs
	shift := uint(0)
	if verifrt.Bool("otherShifted") {
		shift = 7
	}
	if verifrt.Bool("otherHas0") {
		b := blobs[0]
		b.Offset += shift
		otherBlobs = append(otherBlobs, b)
	}
	if verifrt.Bool("otherHas1") {
		b := blobs[1]
		b.Offset += shift
		otherBlobs = append(otherBlobs, b)
	}
	otherFirst := verifrt.Bool("otherIndexedFirst")
	store := func(pid restic.ID, bl pack.Blobs) {
		if len(bl) == 0 {
			return
		}
		if err := r.idx.StorePack(ctx, pid, bl, verifC03NoSaver{}); err != nil {
			verifrt.Assert(false, "setup: StorePack failed")
		}
	}
	if otherFirst {
		store(other, otherBlobs)
		store(id, blobs)
	} else {
		store(id, blobs)
		store(other, otherBlobs)
	}
	if len(otherBlobs) > 0 && shift == 0 && otherFirst {
		verifrt.Reach("duplicate-at-same-position-indexed-first")
	}

	loads := 0
	be.answer = func(h backend.Handle, length int, offset int64) verifC03Answer {
		verifrt.Assert(h.Type == backend.PackFile && h.Name == id.String(), "wrong file requested")
		loads++
		return verifC03Answer{data: append([]byte(nil), orig...), chunk: verifrt.Param("chunk", 7)}
	}
	bufRd := bufio.NewReaderSize(nil, verifrt.Param("bufsize", 32))
	err := checkPack(ctx, r, id, append(pack.Blobs(nil), blobs...), size, bufRd, &zstd.Decoder{})
	verifrt.Assert(err == nil, "check --read-data reports an error for an intact pack whose blobs are also stored in another pack")
	verifrt.Assert(loads == 1, "an intact pack is read once")
	verifrt.Reach("intact-accepted")
}

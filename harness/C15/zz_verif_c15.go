package repository

// C15 (reader part): on a small symbolic repository state that restic itself can produce (invariant I of
// DESIGN.md section 3, with every indexed pack present at the size the index implies), the checker's index
// and pack passes report hints only.

import (
	"bytes"
	"context"
	"hash"

	"github.com/restic/restic/internal/backend"
	"github.com/restic/restic/internal/errors"
	"github.com/restic/restic/internal/repository/index"
	"github.com/restic/restic/internal/repository/pack"
	"github.com/restic/restic/internal/restic"
	"github.com/restic/restic/internal/verifrt"
)

// VerifC15State is the symbolic repository: packs, index files, the backend listing.
type VerifC15State struct {
	backend.Backend
	Repo     *Repository
	PackIDs  []restic.ID
	Blobs    []pack.Blobs // per pack: its header entries (what every index file listing the pack says)
	InIndex  [][]bool     // [pack][index file]
	Listed   []bool       // per pack: the file exists
	Size     []int64      // per pack: size in the listing
	Mixed    []bool       // per pack: tree and data blobs mixed
	IndexIDs []restic.ID
	indexes  []*index.Index
}

func (s *VerifC15State) Properties() backend.Properties { return backend.Properties{Connections: 2} }

func (s *VerifC15State) List(_ context.Context, t backend.FileType, fn func(backend.FileInfo) error) error {
	switch t {
	case backend.PackFile:
		for p, id := range s.PackIDs {
			if s.Listed[p] {
				if err := fn(backend.FileInfo{Name: id.String(), Size: s.Size[p]}); err != nil {
					return err
				}
			}
		}
	case backend.IndexFile:
		for _, id := range s.IndexIDs {
			if err := fn(backend.FileInfo{Name: id.String(), Size: 100}); err != nil {
				return err
			}
		}
	}
	// no snapshots, locks, keys
	return nil
}

// sequential model of index.ForAllIndexes: every index file decodes to the index built below
func (s *VerifC15State) forAllIndexes(ctx context.Context, lister restic.Lister, _ restic.LoaderUnpacked, fn func(id restic.ID, idx *index.Index, err error) error) error {
	return lister.List(ctx, restic.IndexFile, func(id restic.ID, _ int64) error {
		for i, iid := range s.IndexIDs {
			if iid == id {
				return fn(id, s.indexes[i], nil)
			}
		}
		return fn(id, nil, errors.New("unknown index file"))
	})
}

// crypto/sha256.New (used by index.PackBlobsHash): ideal collision-free streaming hash with concrete
// values: the k-th distinct input gets the digest {k,0,...}
type verifC15Table struct{ seen [][]byte }

type verifC15Hash struct {
	t   *verifC15Table
	buf []byte
}

func (h *verifC15Hash) Write(p []byte) (int, error) { h.buf = append(h.buf, p...); return len(p), nil }
func (h *verifC15Hash) Sum(b []byte) []byte {
	k := -1
	for i, c := range h.t.seen {
		if bytes.Equal(c, h.buf) {
			k = i
		}
	}
	if k < 0 {
		h.t.seen = append(h.t.seen, append([]byte(nil), h.buf...))
		k = len(h.t.seen) - 1
	}
	id := restic.ID{byte(k + 1)}
	return append(b, id[:]...)
}
func (h *verifC15Hash) Reset()         { h.buf = nil }
func (h *verifC15Hash) Size() int      { return 32 }
func (h *verifC15Hash) BlockSize() int { return 64 }

func verifC15Bool(name string) bool {
	if verifrt.Bool(name) {
		return true
	}
	return false
}

// VerifC15Build: P packs with 1..2 blobs each out of an alphabet of H handles (handle 1 is a tree blob;
// the same blob may sit in several packs; compressed and uncompressed entries), N index files; each pack is
// listed as a whole in any subset of the index files (none = orphan candidate). Constraint (restic-produced
// state): every pack named by an index exists with exactly the size the index implies; a pack in no index
// may exist with any size.
func VerifC15Build() *VerifC15State {
	np := verifrt.Param("packs", 3)
	ni := verifrt.Param("indexes", 2)
	nh := 3
	s := &VerifC15State{}
	var handles []restic.BlobHandle
	for k := 0; k < nh; k++ {
		t := restic.DataBlob
		if k == 1 {
			t = restic.TreeBlob
		}
		handles = append(handles, restic.BlobHandle{ID: restic.ID{byte(k + 1), 0x15}, Type: t})
	}
	for i := 0; i < ni; i++ {
		s.IndexIDs = append(s.IndexIDs, restic.ID{0x1d, byte(i + 1)})
		s.indexes = append(s.indexes, index.NewIndex())
	}
	for p := 0; p < np; p++ {
		s.PackIDs = append(s.PackIDs, restic.ID{byte(0x10*(p+1) + p), 0xcc})
		// content: 0 = [A], 1 = [T], 2 = [A, B], 3 = [A, T] (mixed); A, B data blobs, T a tree blob. Packs that
		// share A give duplicate blobs. Entries of odd packs are compressed.
		var content []int
		switch verifrt.Int("content", 0, 3) {
		case 0:
			content = []int{0}
		case 1:
			content = []int{1}
		case 2:
			content = []int{0, 2}
		default:
			content = []int{0, 1}
		}
		var blobs pack.Blobs
		off := uint(0)
		size := int64(4 + 32) // header length field + encrypted header overhead
		hasTree, hasData := false, false
		for j, hi := range content {
			l := uint(40 + 7*p + j)
			b := pack.Blob{BlobHandle: handles[hi], Offset: off, Length: l}
			if p%2 == 1 {
				b.UncompressedLength = 2 * l
				size += 1 + 4 + 4 + 32
			} else {
				size += 1 + 4 + 32
			}
			size += int64(l)
			off += l
			blobs = append(blobs, b)
			if handles[hi].Type == restic.TreeBlob {
				hasTree = true
			} else {
				hasData = true
			}
		}
		s.Blobs = append(s.Blobs, blobs)
		s.Mixed = append(s.Mixed, hasTree && hasData)
		indexed := false
		var in []bool
		for i := 0; i < ni; i++ {
			b := verifC15Bool("inIndex")
			in = append(in, b)
			if b {
				indexed = true
				s.indexes[i].StorePack(s.PackIDs[p], blobs)
			}
		}
		s.InIndex = append(s.InIndex, in)
		if indexed {
			s.Listed = append(s.Listed, true)
			s.Size = append(s.Size, size)
		} else {
			s.Listed = append(s.Listed, verifC15Bool("orphanExists"))
			sz := verifrt.Int64("orphanSize")
			verifrt.Assume(sz >= 0 && sz <= 1<<40)
			s.Size = append(s.Size, sz)
		}
	}
	for i := 0; i < ni; i++ {
		s.indexes[i].Finalize()
		_ = s.indexes[i].SetID(s.IndexIDs[i])
	}
	verifrt.Stub("internal/repository/index.ForAllIndexes", s.forAllIndexes)
	tbl := &verifC15Table{}
	verifrt.Stub("crypto/sha256.New", func() hash.Hash { return &verifC15Hash{t: tbl} })
	s.Repo = &Repository{be: s, idx: index.NewMasterIndex(), cfg: restic.Config{Version: 2}, opts: Options{PackSize: DefaultPackSize}}
	return s
}

// NumIndexes: in how many index files pack p is listed.
func (s *VerifC15State) NumIndexes(p int) int {
	n := 0
	for _, b := range s.InIndex[p] {
		if b {
			n++
		}
	}
	return n
}

// PackIndex returns the position of id in PackIDs or -1.
func (s *VerifC15State) PackIndex(id restic.ID) int {
	for p, pid := range s.PackIDs {
		if pid == id {
			return p
		}
	}
	return -1
}

// VerifC15_IndexAndPacks: Checker.LoadIndex and Checker.Packs on every such state.
func VerifC15_IndexAndPacks() {
	s := VerifC15Build()
	c := s.Repo.Checker()
	ctx := context.Background()

	hints, errs := c.LoadIndex(ctx, restic.NewNoopPrinter())

	verifrt.Assert(len(errs) == 0, "LoadIndex reports an error on a repository restic produced")
	dup := make([]int, len(s.PackIDs))
	mixed := make([]int, len(s.PackIDs))
	for _, h := range hints {
		switch e := h.(type) {
		case *ErrDuplicatePacks:
			p := s.PackIndex(e.PackID)
			verifrt.Assert(p >= 0 && s.NumIndexes(p) >= 2, "duplicate-pack hint for a pack that is not in two indexes")
			if p >= 0 {
				dup[p]++
				verifrt.Assert(len(e.Indexes) == s.NumIndexes(p), "duplicate-pack hint names the wrong index files")
			}
		case *ErrMixedPack:
			p := s.PackIndex(e.PackID)
			verifrt.Assert(p >= 0 && s.Mixed[p] && s.NumIndexes(p) >= 1, "mixed-pack hint for a pack that is not mixed")
			if p >= 0 {
				mixed[p]++
			}
		case *ErrIncompletePackEntry:
			verifrt.Assert(false, "a pack listed identically in two indexes is reported as having different data in the indexes (counted as an error by check)")
		default:
			verifrt.Assert(false, "LoadIndex returned an unknown hint (counted as an error by check)")
		}
	}
	anyDup, anyMixed := false, false
	for p := range s.PackIDs {
		wantDup, wantMixed := 0, 0
		if s.NumIndexes(p) >= 2 {
			wantDup = 1
			anyDup = true
		}
		if s.Mixed[p] && s.NumIndexes(p) >= 1 {
			wantMixed = 1
			anyMixed = true
		}
		verifrt.Assert(dup[p] == wantDup, "a pack in two indexes must give exactly one duplicate-pack hint")
		verifrt.Assert(mixed[p] == wantMixed, "a mixed pack must give exactly one mixed-pack hint")
	}

	errChan := make(chan error)
	go c.Packs(ctx, errChan)
	orphans := make([]int, len(s.PackIDs))
	for err := range errChan {
		var pe *ErrPackMetadata
		if !errors.As(err, &pe) {
			verifrt.Assert(false, "Packs reports a non-pack error")
			continue
		}
		p := s.PackIndex(pe.ID)
		verifrt.Assert(pe.Orphaned && !pe.Missing && !pe.Truncated, "Packs reports a missing or truncated pack although every indexed pack exists with the indexed size")
		verifrt.Assert(p >= 0 && s.NumIndexes(p) == 0 && s.Listed[p], "orphan report for a pack that is indexed or does not exist")
		if p >= 0 {
			orphans[p]++
		}
	}
	anyOrphan := false
	for p := range s.PackIDs {
		want := 0
		if s.NumIndexes(p) == 0 && s.Listed[p] {
			want = 1
			anyOrphan = true
		}
		verifrt.Assert(orphans[p] == want, "every unindexed pack file must be reported as orphaned exactly once")
	}

	types, err := computePackTypes(ctx, s.Repo)
	verifrt.Assert(err == nil, "computePackTypes failed")
	for p, id := range s.PackIDs {
		t, ok := types[id]
		verifrt.Assert(ok == (s.NumIndexes(p) >= 1), "computePackTypes knows exactly the indexed packs")
		if ok {
			verifrt.Assert((t == restic.InvalidBlob) == s.Mixed[p], "pack type wrong")
		}
	}
	if anyDup {
		verifrt.Reach("duplicate-pack")
	}
	if anyMixed {
		verifrt.Reach("mixed-pack")
	}
	if anyOrphan {
		verifrt.Reach("orphan")
	}
	if !anyDup && !anyMixed && !anyOrphan {
		verifrt.Reach("clean")
	}
}

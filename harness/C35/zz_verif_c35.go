package retry

import (
	"context"
	"errors"
	"io"
	"sync"
	"time"

	"github.com/cenkalti/backoff/v4"

	"github.com/restic/restic/internal/backend"
	"github.com/restic/restic/internal/feature"
	"github.com/restic/restic/internal/verifrt"
)

// ---- environment -------------------------------------------------------------------------

// error kinds drawn by the inner backend
const (
	verifC35Transient = iota // retried
	verifC35Perm             // IsPermanentError
	verifC35NotExist         // IsNotExist and IsPermanentError
	verifC35Wrapped          // returned as backoff.Permanent(transient error)
	verifC35Kinds
)

type verifC35Err struct {
	n    int // number of the inner call that produced it
	kind int
}

func (e *verifC35Err) Error() string { return "verifC35 inner error" }

// operations in the trace
const (
	verifC35OpSave = iota
	verifC35OpRemove
	verifC35OpLoad
	verifC35OpStat
	verifC35OpList
	verifC35OpRewind
)

// state of the file under its final name
const (
	verifC35Absent = iota
	verifC35Partial
	verifC35Complete
)

type verifC35Ev struct {
	op        int
	err       error // result of the inner call
	cancelled bool  // the caller's context was already cancelled when the inner call was made
}

type verifC35Env struct {
	ctx    context.Context
	cancel context.CancelFunc
	flag   bool // feature flag backend-error-redesign
	max    int  // bound on attempts
	nb     int  // NextBackOff calls
	// notifications
	reports   int
	finalRep  int
	successes int
	succRetr  int
}

var verifC35E *verifC35Env

type verifC35Inner struct {
	backend.Backend
	env     *verifC35Env
	atomic  bool
	flaky   bool
	trace   []verifC35Ev
	file    int
	rd      *verifC35Reader
	saving  bool // Save harness
	loading bool // Load harness
	healthy bool // no more faults
	// listing
	names   []string
	consume int // Load: number of times the consumer ran
}

func (b *verifC35Inner) Properties() backend.Properties {
	return backend.Properties{Connections: 2, HasAtomicReplace: b.atomic, HasFlakyErrors: b.flaky}
}

func (b *verifC35Inner) IsNotExist(err error) bool {
	var e *verifC35Err
	return errors.As(err, &e) && e.kind == verifC35NotExist
}

func (b *verifC35Inner) IsPermanentError(err error) bool {
	var e *verifC35Err
	return errors.As(err, &e) && (e.kind == verifC35Perm || e.kind == verifC35NotExist)
}

// fail draws the outcome of one inner call: nil or a fresh error of a symbolic kind.
func (b *verifC35Inner) outcome(op int) error {
	var err error
	if !b.healthy && verifrt.Bool("fail") {
		kind := verifC35Transient
		if !(b.saving && op == verifC35OpRemove) {
			// (the error of the clean-up Remove inside Save is only logged: one kind suffices there)
			kind = verifrt.Int("kind", 0, verifC35Kinds-1)
		}
		if b.saving || b.loading {
			verifrt.Assume(kind != verifC35NotExist) // for Save and Load the same as verifC35Perm
		}
		e := &verifC35Err{n: len(b.trace), kind: kind}
		err = e
		if kind == verifC35Wrapped {
			err = backoff.Permanent(e)
		}
	}
	b.trace = append(b.trace, verifC35Ev{op: op, err: err, cancelled: b.env.ctx.Err() != nil})
	return err
}

func (b *verifC35Inner) Save(_ context.Context, _ backend.Handle, rd backend.RewindReader) error {
	verifrt.Assert(rd == backend.RewindReader(b.rd), "Save forwarded a different reader")
	verifrt.Assert(b.rd.rewound, "inner Save attempt without a preceding Rewind")
	b.rd.rewound = false
	err := b.outcome(verifC35OpSave)
	if err == nil {
		b.file = verifC35Complete
		return nil
	}
	// a failing Save may leave nothing, (non-atomic backends only) a partial file, or the complete file
	left := verifrt.Int("left", 0, 2)
	if b.atomic {
		verifrt.Assume(left != verifC35Partial)
	}
	after := [3]int{b.file, verifC35Partial, verifC35Complete}
	b.file = after[left] // (table lookup: no path fork)
	return err
}

func (b *verifC35Inner) Remove(_ context.Context, _ backend.Handle) error {
	err := b.outcome(verifC35OpRemove)
	if err == nil {
		b.file = verifC35Absent
	}
	return err
}

func (b *verifC35Inner) Load(_ context.Context, _ backend.Handle, _ int, _ int64, fn func(rd io.Reader) error) error {
	// the consumer may run (even several times) before the backend reports a failure
	if !b.healthy && verifrt.Bool("consume") {
		b.consume++
		if cerr := fn(nil); cerr != nil {
			b.trace = append(b.trace, verifC35Ev{op: verifC35OpLoad, err: cerr, cancelled: b.env.ctx.Err() != nil})
			return cerr
		}
	}
	return b.outcome(verifC35OpLoad)
}

func (b *verifC35Inner) Stat(_ context.Context, h backend.Handle) (backend.FileInfo, error) {
	err := b.outcome(verifC35OpStat)
	if err != nil {
		return backend.FileInfo{}, err
	}
	return backend.FileInfo{Name: h.Name, Size: 42}, nil
}

// List reports a symbolic prefix of the files and then fails, or all files and then succeeds or fails.
func (b *verifC35Inner) List(_ context.Context, _ backend.FileType, fn func(backend.FileInfo) error) error {
	for _, n := range b.names {
		if verifrt.Bool("listbreak") {
			e := &verifC35Err{n: len(b.trace), kind: verifC35Transient}
			b.trace = append(b.trace, verifC35Ev{op: verifC35OpList, err: e, cancelled: b.env.ctx.Err() != nil})
			return e
		}
		// the reported size of a file may differ between listing attempts (upload in progress,
		// file being replaced): 1 or 2
		size := int64(1)
		if verifrt.Bool("sizeChanged") {
			size = 2
		}
		if err := fn(backend.FileInfo{Name: n, Size: size}); err != nil {
			b.trace = append(b.trace, verifC35Ev{op: verifC35OpList, err: err, cancelled: b.env.ctx.Err() != nil})
			return err
		}
	}
	return b.outcome(verifC35OpList)
}

type verifC35Reader struct {
	backend.RewindReader
	inner   *verifC35Inner
	rewound bool
}

func (r *verifC35Reader) Rewind() error {
	b := r.inner
	var err error
	if verifrt.Bool("rewindfail") {
		err = &verifC35Err{n: len(b.trace), kind: verifC35Transient}
	} else {
		r.rewound = true
	}
	b.trace = append(b.trace, verifC35Ev{op: verifC35OpRewind, err: err, cancelled: b.env.ctx.Err() != nil})
	return err
}

// sync.Map (circuit breaker state) is replaced by an association list
type verifC35KV struct{ k, v any }

var verifC35Map []verifC35KV

func verifC35MapLoad(_ *sync.Map, key any) (any, bool) {
	for _, kv := range verifC35Map {
		if kv.k == key {
			return kv.v, true
		}
	}
	return nil, false
}

func verifC35MapLoadOrStore(m *sync.Map, key, value any) (any, bool) {
	if v, ok := verifC35MapLoad(m, key); ok {
		return v, true
	}
	verifC35Map = append(verifC35Map, verifC35KV{key, value})
	return value, false
}

func verifC35MapDelete(_ *sync.Map, key any) {
	var out []verifC35KV
	for _, kv := range verifC35Map {
		if kv.k != key {
			out = append(out, kv)
		}
	}
	verifC35Map = out
}

// ---- model of the retry loop's clock -------------------------------------------------------

// verifC35Timer replaces backoff's real timer: it fires immediately; while "sleeping" the caller's
// context may be cancelled.
type verifC35Timer struct{ ch chan time.Time }

func (t *verifC35Timer) Start(_ time.Duration) {
	t.ch = make(chan time.Time, 1)
	if verifrt.Bool("cancel-in-sleep") {
		// cancelled strictly before the timer fires (the tie "both ready" is a scheduling coincidence
		// in which Go's select may legitimately run one more attempt)
		verifC35E.cancel()
		return
	}
	t.ch <- time.Time{}
}
func (t *verifC35Timer) Stop()               {}
func (t *verifC35Timer) C() <-chan time.Time { return t.ch }

// replacement of backoff.RetryNotify: the real retry loop (backoff.RetryNotifyWithTimer -> doRetryNotify)
// with the timer above instead of time.Timer.
func verifC35RetryNotify(op backoff.Operation, b backoff.BackOff, notify backoff.Notify) error {
	return backoff.RetryNotifyWithTimer(op, b, notify, &verifC35Timer{})
}

// replacement of (*backoff.ExponentialBackOff).NextBackOff (wall clock + float arithmetic): the time
// budget is exhausted at a symbolic attempt, at the latest after env.max attempts.
func verifC35NextBackOff(_ *backoff.ExponentialBackOff) time.Duration {
	verifC35E.nb++
	if verifC35E.nb >= verifC35E.max || verifrt.Bool("budget-exhausted") {
		return backoff.Stop
	}
	return time.Second
}

func verifC35FlagEnabled(_ *feature.FlagSet, name feature.FlagName) bool {
	verifrt.Assert(name == feature.BackendErrorRedesign, "unexpected feature flag queried")
	return verifC35E.flag
}

func verifC35Setup() (*Backend, *verifC35Inner) {
	env := &verifC35Env{flag: verifrt.Bool("flag"), max: verifrt.Param("attempts", 3)}
	env.ctx, env.cancel = context.WithCancel(context.Background())
	verifC35E = env
	verifrt.Stub("github.com/cenkalti/backoff/v4.RetryNotify", verifC35RetryNotify)
	verifrt.Stub("(*github.com/cenkalti/backoff/v4.ExponentialBackOff).NextBackOff", verifC35NextBackOff)
	verifrt.Stub("(*internal/feature.FlagSet).Enabled", verifC35FlagEnabled)
	verifC35Map = nil
	verifrt.Stub("(*sync.Map).Load", verifC35MapLoad)
	verifrt.Stub("(*sync.Map).LoadOrStore", verifC35MapLoadOrStore)
	verifrt.Stub("(*sync.Map).Delete", verifC35MapDelete)
	inner := &verifC35Inner{env: env, atomic: verifrt.Bool("atomic"), flaky: verifrt.Bool("flaky")}
	be := New(inner, 15*time.Minute,
		func(_ string, _ error, d time.Duration) {
			if d < 0 {
				env.finalRep++
			} else {
				env.reports++
			}
		},
		func(_ string, retries int) {
			env.successes++
			env.succRetr = retries
		})
	return be, inner
}

func verifC35Unwrap(err error) *verifC35Err {
	var e *verifC35Err
	if errors.As(err, &e) {
		return e
	}
	return nil
}

// common oracle for the attempts of one retried operation made through be.retry.
// evs: the inner calls of kind op, in order. res: what the retry backend returned.
func verifC35CheckAttempts(inner *verifC35Inner, evs []verifC35Ev, res error, preCancelled bool) {
	env := inner.env
	if preCancelled {
		verifrt.Assert(len(inner.trace) == 0, "inner backend called although the context was already cancelled")
		verifrt.Assert(res == context.Canceled, "cancelled context must be reported as such")
		verifrt.Reach("pre-cancelled")
		return
	}
	verifrt.Assert(len(evs) >= 1, "operation never reached the inner backend")
	verifrt.Assert(len(evs) <= env.max, "more attempts than the budget model allows")
	last := evs[len(evs)-1]
	// 1. the result is the result of the last attempt (or the context error after a cancellation)
	if res == nil {
		verifrt.Assert(last.err == nil, "success reported but the last attempt failed")
	} else {
		verifrt.Assert(last.err != nil, "error reported although the last attempt succeeded")
		if env.ctx.Err() != nil && res == context.Canceled {
			verifrt.Reach("cancelled-midway")
		} else {
			verifrt.Assert(verifC35Unwrap(res) != nil && verifC35Unwrap(res) == verifC35Unwrap(last.err),
				"reported error is not the error of the last attempt")
		}
	}
	// 2. every attempt but the last failed, and none was made after a success, after a cancellation,
	//    or after an error that must not be retried
	permLeft := 1
	if inner.flaky {
		permLeft = 5
	}
	for i, ev := range evs {
		if i > 0 {
			verifrt.Assert(!ev.cancelled, "attempt made after the context was cancelled")
		}
		if i == len(evs)-1 {
			break
		}
		verifrt.Assert(ev.err != nil, "attempt made after a successful one")
		_, wrapped := ev.err.(*backoff.PermanentError)
		verifrt.Assert(!wrapped, "retried although the backend returned a backoff.PermanentError")
		if env.flag && inner.IsPermanentError(ev.err) {
			permLeft--
			verifrt.Assert(permLeft > 0, "permanent error was retried")
		}
	}
	// 3. a transient first failure is retried at least once (retryAtLeastOnce), whatever the time budget says
	if len(evs) == 1 && last.err != nil && env.ctx.Err() == nil {
		_, wrapped := last.err.(*backoff.PermanentError)
		perm := env.flag && inner.IsPermanentError(last.err) && !inner.flaky
		verifrt.Assert(wrapped || perm, "transient first failure was not retried")
		verifrt.Reach("not-retried")
	}
	// 4. notifications
	if res == nil && len(evs) > 1 {
		verifrt.Assert(env.successes == 1 && env.succRetr == len(evs)-1, "success callback wrong")
	} else {
		verifrt.Assert(env.successes == 0, "success callback without a retried success")
	}
	verifrt.Assert(env.reports == len(evs)-1 || (env.ctx.Err() != nil && env.reports == len(evs)), "one report per failed, retried attempt expected")
	if res != nil && env.ctx.Err() == nil {
		verifrt.Assert(env.finalRep == 1, "final error not reported")
	}
	if len(evs) > 1 {
		verifrt.Reach("retried")
	}
}

func verifC35Select(tr []verifC35Ev, op int) []verifC35Ev {
	var out []verifC35Ev
	for _, e := range tr {
		if e.op == op {
			out = append(out, e)
		}
	}
	return out
}

// ---- harnesses ---------------------------------------------------------------------------------

// VerifC35_Save: Backend.Save under every sequence of Rewind/Save/Remove outcomes.
func VerifC35_Save() {
	be, inner := verifC35Setup()
	env := inner.env
	inner.rd = &verifC35Reader{inner: inner}
	inner.saving = true
	pre := verifrt.Bool("pre-cancelled")
	if pre {
		env.cancel()
	}
	h := backend.Handle{Type: backend.PackFile, Name: "0123456789abcdef"}
	res := be.Save(env.ctx, h, inner.rd)

	// one attempt = Rewind [Save [Remove]]; its result is the Rewind error or else the Save result
	var attempts []verifC35Ev
	for i, ev := range inner.trace {
		switch ev.op {
		case verifC35OpRewind:
			attempts = append(attempts, ev)
			if ev.err != nil {
				verifrt.Assert(i == len(inner.trace)-1 || inner.trace[i+1].op == verifC35OpRewind, "inner call after a failed Rewind")
			}
		case verifC35OpSave:
			verifrt.Assert(i > 0 && inner.trace[i-1].op == verifC35OpRewind && inner.trace[i-1].err == nil,
				"inner Save not directly preceded by a successful Rewind")
			attempts[len(attempts)-1].err = ev.err
		}
	}
	verifC35CheckAttempts(inner, attempts, res, pre)
	if pre {
		return
	}
	// Save / Remove interplay
	for i, ev := range inner.trace {
		switch ev.op {
		case verifC35OpSave:
			if ev.err != nil && !inner.atomic {
				verifrt.Assert(i+1 < len(inner.trace) && inner.trace[i+1].op == verifC35OpRemove,
					"failed Save on a backend without atomic replace is not followed by Remove")
			}
			if ev.err == nil {
				verifrt.Assert(i == len(inner.trace)-1, "inner backend called after a successful Save")
			}
		case verifC35OpRemove:
			verifrt.Assert(!inner.atomic, "Remove on a backend with atomic replace")
			verifrt.Assert(i > 0 && inner.trace[i-1].op == verifC35OpSave && inner.trace[i-1].err != nil,
				"Remove without a directly preceding failed Save")
		case verifC35OpRewind:
		default:
			verifrt.Assert(false, "unexpected inner operation")
		}
	}
	if res == nil {
		verifrt.Assert(inner.file == verifC35Complete, "Save reported success without a complete file")
		verifrt.Reach("save-ok")
	} else if inner.file == verifC35Partial {
		// only possible when the clean-up after the last Save attempt itself failed
		ls := -1
		for i, ev := range inner.trace {
			if ev.op == verifC35OpSave {
				ls = i
			}
		}
		verifrt.Assert(ls >= 0 && ls+1 < len(inner.trace) && inner.trace[ls+1].op == verifC35OpRemove && inner.trace[ls+1].err != nil,
			"failed Save left a partial file under the final name although Remove did not fail")
		verifrt.Reach("partial-remove-failed")
	} else {
		verifrt.Reach("save-failed-clean")
	}
}

// VerifC35_Simple: Stat / Remove through the retry loop.
func VerifC35_Simple() {
	be, inner := verifC35Setup()
	verifrt.Assume(!inner.atomic) // (not consulted by these operations)
	env := inner.env
	pre := verifrt.Bool("pre-cancelled")
	if pre {
		env.cancel()
	}
	h := backend.Handle{Type: backend.PackFile, Name: "0123456789abcdef"}
	switch verifrt.Int("op", 0, 1) {
	case 0:
		res := be.Remove(env.ctx, h)
		verifC35CheckAttempts(inner, verifC35Select(inner.trace, verifC35OpRemove), res, pre)
		verifrt.Assert(len(verifC35Select(inner.trace, verifC35OpRemove)) == len(inner.trace), "foreign inner call")
		verifrt.Reach("remove")
	case 1:
		fi, res := be.Stat(env.ctx, h)
		evs := verifC35Select(inner.trace, verifC35OpStat)
		verifrt.Assert(len(evs) == len(inner.trace), "foreign inner call")
		if pre {
			verifrt.Assert(len(evs) == 0 && res != nil, "Stat with a cancelled context must fail without an inner call")
			return
		}
		// Stat cancels its private context on not-exist; the caller's context is untouched
		verifrt.Assert(len(evs) >= 1, "Stat never reached the inner backend")
		last := evs[len(evs)-1]
		if res == nil {
			verifrt.Assert(last.err == nil && fi.Name == h.Name && fi.Size == 42, "Stat result is not the inner result")
			verifrt.Reach("stat-ok")
		} else if !(env.ctx.Err() != nil && res == context.Canceled) {
			verifrt.Assert(verifC35Unwrap(res) != nil && verifC35Unwrap(res) == verifC35Unwrap(last.err), "Stat error is not the last inner error")
		}
		for i, ev := range evs {
			if i < len(evs)-1 {
				verifrt.Assert(ev.err != nil, "Stat retried after success")
				verifrt.Assert(!inner.IsNotExist(ev.err), "Stat retried a not-exist answer")
			}
		}
		if inner.IsNotExist(last.err) {
			verifrt.Assert(be.IsNotExist(res), "not-exist answer must be reported as not-exist")
			verifrt.Assert(env.finalRep == 0, "not-exist must not be logged as final error")
			verifrt.Reach("stat-notexist")
		}
	}
}

// VerifC35_Load: Load through the retry loop and the circuit breaker.
func VerifC35_Load() {
	be, inner := verifC35Setup()
	verifrt.Assume(!inner.atomic) // (not consulted by Load)
	inner.loading = true
	env := inner.env
	pre := verifrt.Bool("pre-cancelled")
	if pre {
		env.cancel()
	}
	h := backend.Handle{Type: backend.PackFile, Name: "0123456789abcdef"}
	{
		consumed := 0
		first := be.Load(env.ctx, h, 0, 0, func(_ io.Reader) error { consumed++; return nil })
		evs := verifC35Select(inner.trace, verifC35OpLoad)
		verifrt.Assert(len(evs) == len(inner.trace), "foreign inner call")
		verifC35CheckAttempts(inner, evs, first, pre)
		verifrt.Assert(consumed == inner.consume, "consumer calls")
		if pre {
			return
		}
		// circuit breaker: a second Load of the same file
		n1 := len(inner.trace)
		cancelled1 := env.ctx.Err() != nil
		inner.healthy = true // (the backend has recovered: one inner call iff the breaker lets the Load through)
		// age of the breaker entry when the second Load arrives (replaces wall-clock arithmetic)
		age := time.Duration(verifrt.Int64("age"))
		verifrt.Assume(age >= 0)
		verifrt.Stub("time.Since", func(_ time.Time) time.Duration { return age })
		second := be.Load(env.ctx, h, 0, 0, func(_ io.Reader) error { return nil })
		if !cancelled1 && env.flag && first != nil && !inner.IsPermanentError(first) && age <= time.Hour {
			verifrt.Assert(len(inner.trace) == n1 && second != nil, "Load retried a file that exhausted its retries less than an hour ago")
		}
		if !cancelled1 && age > time.Hour {
			verifrt.Assert(len(inner.trace) == n1+1 && second == nil, "expired circuit breaker entry still blocks the Load")
			verifrt.Reach("breaker-expired-or-unset")
		}
		if len(inner.trace) == n1 && !cancelled1 {
			verifrt.Assert(second != nil, "Load without inner call reported success")
			verifrt.Assert(env.flag && first != nil && !inner.IsPermanentError(first),
				"circuit breaker open although the previous Load did not exhaust its retries on a transient error")
			verifrt.Reach("breaker-open")
		}
		if first == nil && !cancelled1 {
			verifrt.Assert(len(inner.trace) > n1, "Load after a successful Load never reached the backend")
			verifrt.Reach("breaker-closed")
		}
	}
}

// VerifC35_List: Backend.List with failures in the middle of a listing and a failing callback.
func VerifC35_List() {
	be, inner := verifC35Setup()
	env := inner.env
	all := []string{"a", "b", "c"}
	inner.names = all[:verifrt.Int("nfiles", 0, verifrt.Param("files", 3))]
	pre := verifrt.Bool("pre-cancelled")
	if pre {
		env.cancel()
	}
	seen := map[string]int{}
	var fnErr error
	calls := 0
	res := be.List(env.ctx, backend.SnapshotFile, func(fi backend.FileInfo) error {
		verifrt.Assert(fnErr == nil, "callback invoked again after it returned an error")
		calls++
		seen[fi.Name]++
		verifrt.Assert(fi.Size == 1 || fi.Size == 2, "file info altered")
		if verifrt.Bool("fnfail") {
			fnErr = &verifC35Err{n: -1, kind: verifC35Transient}
			return fnErr
		}
		return nil
	})
	if pre {
		verifrt.Assert(len(inner.trace) == 0 && calls == 0 && res != nil, "List with a cancelled context must do nothing")
		verifrt.Reach("list-pre-cancelled")
		return
	}
	for _, n := range inner.names {
		verifrt.Assert(seen[n] <= 1, "a file was reported twice")
	}
	verifrt.Assert(len(seen) <= len(inner.names), "unknown file reported")
	evs := verifC35Select(inner.trace, verifC35OpList)
	verifrt.Assert(len(evs) == len(inner.trace), "foreign inner call")
	if fnErr != nil {
		verifrt.Assert(res == fnErr, "the callback's error must be returned")
		verifrt.Assert(len(evs) >= 1 && evs[len(evs)-1].err == fnErr, "listing continued after the callback failed")
		verifrt.Reach("list-fn-error")
		return
	}
	if res == nil {
		verifrt.Assert(evs[len(evs)-1].err == nil, "List reported success but the last listing failed")
		for _, n := range inner.names {
			verifrt.Assert(seen[n] == 1, "successful List missed a file")
		}
		if len(evs) > 1 {
			verifrt.Reach("list-retried-ok")
		}
		verifrt.Reach("list-ok")
	} else {
		verifrt.Assert(evs[len(evs)-1].err != nil, "List reported an error although the last listing succeeded")
		verifrt.Reach("list-failed")
	}
}

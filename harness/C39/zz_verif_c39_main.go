package main

import (
	"context"
	"errors"
	"time"

	"github.com/restic/restic/internal/global"
	"github.com/restic/restic/internal/repository"
	"github.com/restic/restic/internal/restic"
	"github.com/restic/restic/internal/verifrt"
)

type verifC39Env struct {
	repo       *repository.Repository
	openFails  bool
	lockFails  bool
	opens      int
	locks      int
	exclusive  bool
	retry      time.Duration
	dryRunSet  int
	dryRunRepo *repository.Repository
	unlocks    int
	lockedRepo *repository.Repository
}

var verifC39E *verifC39Env

var verifC39Err = errors.New("verifC39 error")

type verifC39Printer struct{ restic.Printer }

func (verifC39Printer) P(_ string, _ ...any) {}
func (verifC39Printer) E(_ string, _ ...any) {}

func verifC39OpenRepository(_ context.Context, _ global.Options, _ restic.Printer) (*repository.Repository, error) {
	e := verifC39E
	e.opens++
	if e.openFails {
		return nil, verifC39Err
	}
	return e.repo, nil
}

// repository.LockRepo creates a lock file in the repository (and refreshes/removes it later)
func verifC39LockRepo(ctx context.Context, repo *repository.Repository, exclusive bool, retryLock time.Duration, _ func(string), _ func(string, ...any)) (func(), context.Context, error) {
	e := verifC39E
	e.locks++
	e.exclusive = exclusive
	e.retry = retryLock
	e.lockedRepo = repo
	verifrt.Assert(e.dryRunSet == 0, "lock taken on a repository that is in dry-run mode (the lock file would silently not be written)")
	if e.lockFails {
		return nil, ctx, verifC39Err
	}
	return func() { e.unlocks++ }, ctx, nil
}

func verifC39SetDryRun(r *repository.Repository) {
	verifC39E.dryRunSet++
	verifC39E.dryRunRepo = r
}

// VerifC39_OpenLocked: internalOpenWithLocked and its three wrappers.
func VerifC39_OpenLocked() {
	e := &verifC39Env{repo: &repository.Repository{}, openFails: verifrt.Bool("open-fails"), lockFails: verifrt.Bool("lock-fails")}
	verifC39E = e
	verifrt.Stub("internal/global.OpenRepository", verifC39OpenRepository)
	verifrt.Stub("internal/repository.LockRepo", verifC39LockRepo)
	verifrt.Stub("(*internal/repository.Repository).SetDryRun", verifC39SetDryRun)

	flag := verifrt.Bool("dry-run-or-no-lock")
	gopts := global.Options{RetryLock: 3 * time.Second, JSON: verifrt.Bool("json")}
	wantExclusive := false
	var (
		repo   *repository.Repository
		unlock func()
		err    error
		ctx    context.Context
	)
	switch verifrt.Int("wrapper", 0, 3) {
	case 0:
		wantExclusive = verifrt.Bool("exclusive")
		ctx, repo, unlock, err = internalOpenWithLocked(context.Background(), gopts, flag, wantExclusive, verifC39Printer{})
	case 1:
		ctx, repo, unlock, err = openWithReadLock(context.Background(), gopts, flag, verifC39Printer{})
	case 2:
		ctx, repo, unlock, err = openWithAppendLock(context.Background(), gopts, flag, verifC39Printer{})
	case 3:
		wantExclusive = true
		ctx, repo, unlock, err = openWithExclusiveLock(context.Background(), gopts, flag, verifC39Printer{})
	}

	verifrt.Assert(e.opens == 1, "repository opened more or less than once")
	if e.openFails {
		verifrt.Assert(err != nil && repo == nil && e.locks == 0 && e.dryRunSet == 0, "failed open must return the error and do nothing else")
		verifrt.Reach("open-failed")
		return
	}
	if flag {
		// --dry-run / --no-lock: no lock file is written, and the repository is put into dry-run mode
		verifrt.Assert(e.locks == 0, "lock taken although dry-run/no-lock was requested")
		verifrt.Assert(e.dryRunSet == 1 && e.dryRunRepo == e.repo, "repository not put into dry-run mode")
		verifrt.Assert(err == nil && repo == e.repo && ctx != nil && unlock != nil, "dry-run open must succeed and return the repository")
		unlock()
		verifrt.Assert(e.unlocks == 0, "unlock of a repository that was never locked")
		verifrt.Reach("dry-open")
		return
	}
	verifrt.Assert(e.dryRunSet == 0, "repository put into dry-run mode without being asked to")
	verifrt.Assert(e.locks == 1 && e.lockedRepo == e.repo && e.exclusive == wantExclusive && e.retry == 3*time.Second, "lock not requested as specified")
	if e.lockFails {
		verifrt.Assert(err != nil && repo == nil && unlock == nil, "failed lock must not hand out the repository")
		verifrt.Reach("lock-failed")
		return
	}
	verifrt.Assert(err == nil && repo == e.repo && unlock != nil, "locked open must return the repository")
	unlock()
	verifrt.Assert(e.unlocks == 1, "unlock function does not release the lock")
	verifrt.Reach("locked-open")
}

package dryrun

import (
	"context"
	"errors"
	"io"

	"github.com/restic/restic/internal/backend"
	"github.com/restic/restic/internal/verifrt"
)

const (
	verifC39Save = iota
	verifC39Remove
	verifC39Delete
	verifC39Load
	verifC39Stat
	verifC39List
	verifC39Close
	verifC39Warmup
	verifC39Ops
)

type verifC39Ev struct {
	op     int
	h      backend.Handle
	length int
	offset int64
}

var verifC39Err = errors.New("verifC39 inner error")

// inner backend: records every call that reaches it
type verifC39Inner struct {
	backend.Backend
	trace []verifC39Ev
	fail  bool
}

func (b *verifC39Inner) Save(_ context.Context, h backend.Handle, _ backend.RewindReader) error {
	b.trace = append(b.trace, verifC39Ev{op: verifC39Save, h: h})
	return nil
}
func (b *verifC39Inner) Remove(_ context.Context, h backend.Handle) error {
	b.trace = append(b.trace, verifC39Ev{op: verifC39Remove, h: h})
	return nil
}
func (b *verifC39Inner) Delete(_ context.Context) error {
	b.trace = append(b.trace, verifC39Ev{op: verifC39Delete})
	return nil
}
func (b *verifC39Inner) Load(_ context.Context, h backend.Handle, length int, offset int64, fn func(io.Reader) error) error {
	b.trace = append(b.trace, verifC39Ev{op: verifC39Load, h: h, length: length, offset: offset})
	if b.fail {
		return verifC39Err
	}
	return fn(nil)
}
func (b *verifC39Inner) Stat(_ context.Context, h backend.Handle) (backend.FileInfo, error) {
	b.trace = append(b.trace, verifC39Ev{op: verifC39Stat, h: h})
	if b.fail {
		return backend.FileInfo{}, verifC39Err
	}
	return backend.FileInfo{Name: h.Name, Size: 7}, nil
}
func (b *verifC39Inner) List(_ context.Context, t backend.FileType, fn func(backend.FileInfo) error) error {
	b.trace = append(b.trace, verifC39Ev{op: verifC39List, h: backend.Handle{Type: t}})
	if b.fail {
		return verifC39Err
	}
	return fn(backend.FileInfo{Name: "x", Size: 1})
}
func (b *verifC39Inner) Close() error {
	b.trace = append(b.trace, verifC39Ev{op: verifC39Close})
	return nil
}
func (b *verifC39Inner) Warmup(_ context.Context, hs []backend.Handle) ([]backend.Handle, error) {
	b.trace = append(b.trace, verifC39Ev{op: verifC39Warmup})
	return hs, nil
}
func (b *verifC39Inner) WarmupWait(_ context.Context, _ []backend.Handle) error {
	b.trace = append(b.trace, verifC39Ev{op: verifC39Warmup})
	return nil
}

// VerifC39_DryBackend: no call sequence on the dry-run backend makes a mutating call reach the inner backend;
// reads are forwarded unchanged.
func VerifC39_DryBackend() {
	inner := &verifC39Inner{}
	be := New(inner)
	n := verifrt.Param("calls", 3)
	ctx := context.Background()
	reads := 0
	for i := 0; i < n; i++ {
		// arbitrary handle: every valid file type plus invalid ones (0, 7, 8), empty or non-empty name
		h := backend.Handle{Type: backend.FileType(verifrt.Int("type", 0, 8)), IsMetadata: verifrt.Bool("meta")}
		if verifrt.Bool("named") {
			h.Name = "0123"
		}
		inner.fail = verifrt.Bool("inner-fails")
		before := len(inner.trace)
		switch verifrt.Int("op", 0, verifC39Ops-1) {
		case verifC39Save:
			err := be.Save(ctx, h, nil)
			verifrt.Assert((err == nil) == (h.Valid() == nil), "dry Save must accept exactly the valid handles")
			verifrt.Assert(len(inner.trace) == before, "Save reached the inner backend")
		case verifC39Remove:
			verifrt.Assert(be.Remove(ctx, h) == nil, "dry Remove failed")
			verifrt.Assert(len(inner.trace) == before, "Remove reached the inner backend")
		case verifC39Delete:
			verifrt.Assert(be.Delete(ctx) == nil, "dry Delete failed")
			verifrt.Assert(len(inner.trace) == before, "Delete reached the inner backend")
		case verifC39Load:
			length, offset := verifrt.Int("length", 0, 9), int64(verifrt.Int("offset", 0, 9))
			called := 0
			err := be.Load(ctx, h, length, offset, func(io.Reader) error { called++; return nil })
			verifrt.Assert(len(inner.trace) == before+1 && inner.trace[before] == verifC39Ev{op: verifC39Load, h: h, length: length, offset: offset},
				"Load not forwarded unchanged")
			verifrt.Assert((err != nil) == inner.fail && (called == 1) == !inner.fail, "Load result not forwarded")
			reads++
		case verifC39Stat:
			fi, err := be.Stat(ctx, h)
			verifrt.Assert(len(inner.trace) == before+1 && inner.trace[before] == verifC39Ev{op: verifC39Stat, h: h}, "Stat not forwarded unchanged")
			verifrt.Assert((err != nil) == inner.fail && (inner.fail || (fi.Name == h.Name && fi.Size == 7)), "Stat result not forwarded")
			reads++
		case verifC39List:
			called := 0
			err := be.List(ctx, h.Type, func(backend.FileInfo) error { called++; return nil })
			verifrt.Assert(len(inner.trace) == before+1 && inner.trace[before].op == verifC39List && inner.trace[before].h.Type == h.Type, "List not forwarded unchanged")
			verifrt.Assert((err != nil) == inner.fail && (called == 1) == !inner.fail, "List result not forwarded")
			reads++
		case verifC39Close:
			_ = be.Close()
		case verifC39Warmup:
			// warming up cold storage changes the storage state: must not happen in a dry run
			hs, err := be.Warmup(ctx, []backend.Handle{h})
			verifrt.Assert(err == nil && len(hs) == 0 && be.WarmupWait(ctx, []backend.Handle{h}) == nil, "dry Warmup result")
			verifrt.Assert(len(inner.trace) == before, "Warmup reached the inner backend")
		}
	}
	for _, ev := range inner.trace {
		verifrt.Assert(ev.op != verifC39Save && ev.op != verifC39Remove && ev.op != verifC39Delete && ev.op != verifC39Warmup,
			"a modifying call reached the inner backend")
	}
	if reads > 0 {
		verifrt.Reach("reads-forwarded")
	}
	verifrt.Reach("dry-sequence-done")
}

package repository

import (
	"context"
	"io"

	"github.com/restic/restic/internal/backend"
	"github.com/restic/restic/internal/restic"
	"github.com/restic/restic/internal/verifrt"
)

type verifC39RepoBe struct {
	backend.Backend
	mutations int
	reads     int
}

func (b *verifC39RepoBe) Save(_ context.Context, _ backend.Handle, _ backend.RewindReader) error {
	b.mutations++
	return nil
}
func (b *verifC39RepoBe) Remove(_ context.Context, _ backend.Handle) error { b.mutations++; return nil }
func (b *verifC39RepoBe) Delete(_ context.Context) error                   { b.mutations++; return nil }
func (b *verifC39RepoBe) Stat(_ context.Context, h backend.Handle) (backend.FileInfo, error) {
	b.reads++
	return backend.FileInfo{Name: h.Name}, nil
}
func (b *verifC39RepoBe) Load(_ context.Context, _ backend.Handle, _ int, _ int64, fn func(io.Reader) error) error {
	b.reads++
	return nil
}

// VerifC39_SetDryRun: after Repository.SetDryRun nothing the repository sends to its backend modifies the
// real backend; reads still arrive.
func VerifC39_SetDryRun() {
	inner := &verifC39RepoBe{}
	repo := &Repository{be: inner}
	dry := verifrt.Bool("dry-run")
	if dry {
		repo.SetDryRun()
	}
	ctx := context.Background()
	id := restic.ID{1, 31: 1}
	n := verifrt.Param("calls", 3)
	sent := 0
	for i := 0; i < n; i++ {
		switch verifrt.Int("op", 0, 5) {
		case 0:
			// Repository.RemoveUnpacked -> removeUnpacked -> be.Remove (real code)
			verifrt.Assert(repo.RemoveUnpacked(ctx, restic.WriteableSnapshotFile, id) == nil, "RemoveUnpacked failed")
			sent++
		case 1:
			verifrt.Assert((&internalRepository{repo}).RemoveUnpacked(ctx, restic.FileType(verifrt.Int("type", 1, 6)), id) == nil, "RemoveUnpacked failed")
			sent++
		case 2:
			h := backend.Handle{Type: backend.FileType(verifrt.Int("type", 1, 6)), Name: id.String()}
			verifrt.Assert(repo.be.Save(ctx, h, backend.NewByteReader([]byte("x"), nil)) == nil, "Save failed")
			sent++
		case 3:
			verifrt.Assert(repo.be.Delete(ctx) == nil, "Delete failed")
			sent++
		case 4:
			_, _ = repo.be.Stat(ctx, backend.Handle{Type: backend.ConfigFile})
		case 5:
			_ = repo.be.Load(ctx, backend.Handle{Type: backend.ConfigFile}, 0, 0, func(io.Reader) error { return nil })
		}
	}
	if dry {
		verifrt.Assert(inner.mutations == 0, "modification reached the backend of a repository in dry-run mode")
		verifrt.Reach("dry")
	} else {
		verifrt.Assert(inner.mutations == sent, "harness: modifications must arrive without dry-run")
		verifrt.Reach("not-dry")
	}
}

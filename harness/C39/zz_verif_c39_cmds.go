package main

// C39: the commands whose --dry-run still runs the code that uploads blobs (rewrite, repair snapshots)
// rely on opening the repository in dry-run mode. The real command entry is run up to the open call
// with --dry-run set and every other relevant option symbolic; the open helper must be asked for
// dry-run mode (VerifC39_OpenLocked shows that it then installs the dry-run backend and takes no lock).

import (
	"context"
	"errors"
	"io"

	"github.com/restic/restic/internal/global"
	"github.com/restic/restic/internal/repository"
	"github.com/restic/restic/internal/restic"
	"github.com/restic/restic/internal/ui"
	"github.com/restic/restic/internal/verifrt"
)

var verifC39CmdStop = errors.New("verif: stop at open")

type verifC39Term struct{ ui.Terminal }

func (verifC39Term) OutputWriter() io.Writer { return io.Discard }
func (verifC39Term) Print(string)            {}
func (verifC39Term) Error(string)            {}
func (verifC39Term) CanUpdateStatus() bool   { return false }
func (verifC39Term) SetStatus([]string)      {}

func VerifC39_DryRunCommands() {
	opens := 0
	var flags []bool
	rec := func(ctx context.Context, _ global.Options, dryRun bool, _ restic.Printer) (context.Context, *repository.Repository, func(), error) {
		opens++
		flags = append(flags, dryRun)
		return ctx, nil, nil, verifC39CmdStop
	}
	verifrt.Stub("cmd/restic.openWithReadLock", rec)
	verifrt.Stub("cmd/restic.openWithAppendLock", rec)
	verifrt.Stub("cmd/restic.openWithExclusiveLock", rec)
	verifrt.Stub("internal/ui/progress.NewTerminalPrinter", func(bool, uint, ui.Terminal) restic.Printer { return verifC39Printer{} })

	gopts := global.Options{NoLock: verifrt.Bool("no-lock"), JSON: verifrt.Bool("json")}
	dry := verifrt.Bool("dry-run")
	forget := verifrt.Bool("forget")
	var err error
	switch verifrt.Int("cmd", 0, 1) {
	case 0:
		o := RewriteOptions{DryRun: dry, Forget: forget, SnapshotSummary: true}
		err = runRewrite(context.Background(), o, gopts, nil, verifC39Term{})
	case 1:
		err = runRepairSnapshots(context.Background(), gopts, RepairOptions{DryRun: dry, Forget: forget}, nil, verifC39Term{})
	}
	verifrt.Assert(err == verifC39CmdStop && opens == 1, "the command did not reach the open call exactly once")
	verifrt.Assert(flags[0] == dry, "the repository is not opened in dry-run mode exactly when --dry-run is given: a dry run would write the rewritten trees")
	if dry {
		verifrt.Reach("dry-run")
	}
}

package main

// C32: the real copyTreeBatched / copyTree / copyStats / copySaveSnapshot and collectAllSnapshots /
// similarSnapshots run. Environment (stubbed): the source repository's index (LookupBlob,
// NewAssociatedBlobSet), data.StreamTrees (sequential model of its documented contract over a small
// tree store; the real one is C42's subject), repository.CopyBlobs (event with the set it was given,
// symbolic failure), the destination repository (LookupBlobSize, PackSize, WithBlobUploader with a
// symbolic flush failure), data.SaveSnapshot (event, symbolic failure), iter.Pull2, SnapshotFilter.FindAll.

import (
	"context"
	"errors"
	"iter"
	"time"

	"github.com/restic/restic/internal/data"
	"github.com/restic/restic/internal/repository"
	"github.com/restic/restic/internal/restic"
	"github.com/restic/restic/internal/verifrt"
)

func verifC32Pick(name string, lo, hi int) int {
	x := verifrt.Int(name, lo, hi)
	for v := lo; v < hi; v++ {
		if x == v {
			return v
		}
	}
	return hi
}

func verifC32Bool(name string) bool {
	if verifrt.Bool(name) {
		return true
	}
	return false
}

func verifC32TreeID(k int) restic.ID {
	var id restic.ID
	id[0], id[1] = 0x10+byte(k), 0x32
	return id
}

func verifC32DataID(k int) restic.ID {
	var id restic.ID
	id[0], id[1] = 0x80+byte(k), 0x32
	return id
}

// blob numbering: 0..K-1 trees, K..2K-1 the data blob of the file in tree k
func verifC32Handle(b, K int) restic.BlobHandle {
	if b < K {
		return restic.BlobHandle{ID: verifC32TreeID(b), Type: restic.TreeBlob}
	}
	return restic.BlobHandle{ID: verifC32DataID(b - K), Type: restic.DataBlob}
}

type verifC32Set struct {
	restic.AssociatedBlobSet
	m    map[restic.BlobHandle]bool
	keys []restic.BlobHandle
}

func (s *verifC32Set) Has(h restic.BlobHandle) bool { return s.m[h] }
func (s *verifC32Set) Insert(h restic.BlobHandle) {
	if !s.m[h] {
		s.m[h] = true
		s.keys = append(s.keys, h)
	}
}
func (s *verifC32Set) Delete(h restic.BlobHandle) {
	if s.m[h] {
		delete(s.m, h)
		for i := range s.keys {
			if s.keys[i] == h {
				s.keys = append(s.keys[:i:i], s.keys[i+1:]...)
				break
			}
		}
	}
}
func (s *verifC32Set) Len() int { return len(s.keys) }
func (s *verifC32Set) Keys() iter.Seq[restic.BlobHandle] {
	return func(yield func(restic.BlobHandle) bool) {
		for _, k := range s.keys {
			if !yield(k) {
				return
			}
		}
	}
}

type verifC32PackBlob struct {
	restic.PackBlob
	pack restic.ID
	h    restic.BlobHandle
}

func (p verifC32PackBlob) PackID() restic.ID                  { return p.pack }
func (p verifC32PackBlob) Handle() restic.BlobHandle          { return p.h }
func (p verifC32PackBlob) CiphertextLength() uint             { return 200 }
func (p verifC32PackBlob) PlaintextLength() uint              { return 168 }
func (p verifC32PackBlob) IsCompressed() bool                 { return false }
func (p verifC32PackBlob) UncompressedCiphertextLength() uint { return 200 }

type verifC32Event struct {
	kind    string // "begin", "copy", "flush", "save"
	ok      bool
	blobs   []restic.BlobHandle
	packs   restic.IDSet
	sn      data.Snapshot
	srcID   restic.ID
	durable map[restic.BlobHandle]bool // snapshot of the durable set at a save
}

type verifC32World struct {
	K       int
	child   [][2]int // per tree: slot 0/1: 0 none, 1 file with data blob k, 2+j subtree j
	missing int      // tree that cannot be loaded from src, or -1

	dstDurable map[restic.BlobHandle]bool // flushed
	dstPending map[restic.BlobHandle]bool // saved in the open uploader session
	inSession  bool
	ev         []verifC32Event
	nextSnapID byte
	failAt     int // the failAt-th fallible operation (copy, flush, save) fails; -1: none
	ops        int
}

func (w *verifC32World) fails() bool {
	w.ops++
	return w.ops-1 == w.failAt
}

var verifC32W *verifC32World

type verifC32Dst struct {
	restic.Repository
}

func (d *verifC32Dst) LookupBlobSize(h restic.BlobHandle) (uint, bool) {
	w := verifC32W
	if w.dstDurable[h] || w.dstPending[h] {
		return 168, true
	}
	return 0, false
}
func (d *verifC32Dst) PackSize() uint { return 1 }
func (d *verifC32Dst) WithBlobUploader(ctx context.Context, fn func(ctx context.Context, uploader restic.BlobSaverWithAsync) error) error {
	w := verifC32W
	verifrt.Assert(!w.inSession, "nested uploader sessions")
	w.inSession = true
	w.ev = append(w.ev, verifC32Event{kind: "begin"})
	err := fn(ctx, nil)
	w.inSession = false
	if err != nil {
		w.dstPending = map[restic.BlobHandle]bool{} // nothing of this session is guaranteed to be durable
		return err
	}
	if w.fails() {
		w.dstPending = map[restic.BlobHandle]bool{}
		w.ev = append(w.ev, verifC32Event{kind: "flush", ok: false})
		return errors.New("flush failed")
	}
	for h := range w.dstPending {
		w.dstDurable[h] = true
	}
	w.dstPending = map[restic.BlobHandle]bool{}
	w.ev = append(w.ev, verifC32Event{kind: "flush", ok: true})
	return nil
}

func verifC32CopyBlobs(_ context.Context, _ *repository.Repository, _ restic.Repository, _ restic.BlobSaverWithAsync,
	packs restic.IDSet, keep restic.AssociatedBlobSet, _ restic.Counter, _ repository.LogFunc) error {
	w := verifC32W
	verifrt.Assert(w.inSession, "CopyBlobs called outside an uploader session")
	set := keep.(*verifC32Set)
	e := verifC32Event{kind: "copy", blobs: append([]restic.BlobHandle{}, set.keys...), packs: packs, ok: true}
	if w.fails() {
		e.ok = false
		w.ev = append(w.ev, e)
		return errors.New("copy failed")
	}
	for _, h := range set.keys {
		w.dstPending[h] = true
	}
	w.ev = append(w.ev, e)
	return nil
}

func verifC32SaveSnapshot(_ context.Context, _ restic.SaverUnpacked[restic.WriteableFileType], sn *data.Snapshot) (restic.ID, error) {
	w := verifC32W
	verifrt.Assert(!w.inSession, "snapshot saved while the uploader session is still open (data not flushed)")
	e := verifC32Event{kind: "save", sn: *sn, ok: true, durable: map[restic.BlobHandle]bool{}}
	if sn.ID() != nil {
		e.srcID = *sn.ID()
	}
	for h := range w.dstDurable {
		e.durable[h] = true
	}
	if w.fails() {
		e.ok = false
		w.ev = append(w.ev, e)
		return restic.ID{}, errors.New("save failed")
	}
	w.ev = append(w.ev, e)
	w.nextSnapID++
	var id restic.ID
	id[0], id[1] = 0xd0+w.nextSnapID, 0x32
	return id, nil
}

var errVerifC32Missing = errors.New("tree not found")

// sequential model of data.StreamTrees' contract: depth-first, skip() consulted once per reference
// before loading, process() called once per loaded tree (with the load error if it cannot be loaded),
// subtrees in node order.
func verifC32StreamTrees(_ context.Context, _ restic.Loader, trees restic.IDs, _ restic.Counter,
	skip func(tree restic.ID) bool, process func(id restic.ID, err error, nodes data.TreeNodeIterator) error) error {
	w := verifC32W
	var visit func(id restic.ID) error
	visit = func(id restic.ID) error {
		if skip(id) {
			return nil
		}
		k := int(id[0]) - 0x10
		verifrt.Assert(k >= 0 && k < w.K, "StreamTrees asked for an unknown tree")
		if k == w.missing {
			return process(id, errVerifC32Missing, nil)
		}
		err := process(id, nil, func(yield func(data.NodeOrError) bool) {
			for s := 0; s < 2; s++ {
				c := w.child[k][s]
				var n *data.Node
				switch {
				case c == 0:
					continue
				case c == 1:
					n = &data.Node{Name: "f", Type: data.NodeTypeFile, Content: restic.IDs{verifC32DataID(k)}}
				default:
					sub := verifC32TreeID(c - 2)
					n = &data.Node{Name: "d", Type: data.NodeTypeDir, Subtree: &sub}
				}
				if !yield(data.NodeOrError{Node: n}) {
					return
				}
			}
		})
		if err != nil {
			return err
		}
		for s := 0; s < 2; s++ {
			if c := w.child[k][s]; c >= 2 {
				if err := visit(verifC32TreeID(c - 2)); err != nil {
					return err
				}
			}
		}
		return nil
	}
	for _, id := range trees {
		if err := visit(id); err != nil {
			return err
		}
	}
	return nil
}

// eager model of iter.Pull2 (the sequence handed to copyTreeBatched is the harness' own slice iterator)
func verifC32Pull2(seq iter.Seq2[*data.Snapshot, error]) (func() (*data.Snapshot, error, bool), func()) {
	type item struct {
		sn  *data.Snapshot
		err error
	}
	var items []item
	started := false
	pos := 0
	next := func() (*data.Snapshot, error, bool) {
		if !started {
			started = true
			seq(func(sn *data.Snapshot, err error) bool {
				items = append(items, item{sn, err})
				return true
			})
		}
		if pos >= len(items) {
			return nil, nil, false
		}
		it := items[pos]
		pos++
		return it.sn, it.err, true
	}
	return next, func() { pos = len(items); started = true }
}

func verifC32Stubs() {
	verifrt.Stub("(*internal/repository.Repository).NewAssociatedBlobSet", func(_ *repository.Repository) restic.AssociatedBlobSet {
		return &verifC32Set{m: map[restic.BlobHandle]bool{}}
	})
	verifrt.Stub("(*internal/repository.Repository).LookupBlob", func(_ *repository.Repository, h restic.BlobHandle) []restic.PackBlob {
		// every blob of the source lives in one pack; pack number = blob's first ID byte
		var p restic.ID
		p[0], p[1] = h.ID[0], 0x99
		return []restic.PackBlob{verifC32PackBlob{pack: p, h: h}}
	})
	verifrt.Stub("internal/data.StreamTrees", verifC32StreamTrees)
	verifrt.Stub("internal/repository.CopyBlobs", verifC32CopyBlobs)
	verifrt.Stub("internal/data.SaveSnapshot", verifC32SaveSnapshot)
	verifrt.Stub("iter.Pull2", verifC32Pull2)
	// the batch loop asks the clock whether a minute has passed: arbitrary answer per call
	verifrt.Stub("time.Since", func(time.Time) time.Duration {
		if verifC32Bool("minuteElapsed") {
			return 2 * time.Minute
		}
		return 0
	})
}

func (w *verifC32World) reachable(root int) []bool {
	reach := make([]bool, 2*w.K) // blob numbering
	var walk func(k int)
	walk = func(k int) {
		if reach[k] {
			return
		}
		reach[k] = true
		if k == w.missing {
			return
		}
		for s := 0; s < 2; s++ {
			c := w.child[k][s]
			if c == 1 {
				reach[w.K+k] = true
			} else if c >= 2 {
				walk(c - 2)
			}
		}
	}
	walk(root)
	return reach
}

// VerifC32_CopyBatched: copyTreeBatched over 1..S snapshots whose trees live in a symbolic DAG of K trees.
func VerifC32_CopyBatched() {
	K := verifrt.Param("trees", 3)
	S := verifrt.Param("snapshots", 2)
	w := &verifC32World{K: K, missing: -1, dstDurable: map[restic.BlobHandle]bool{}, dstPending: map[restic.BlobHandle]bool{}}
	verifC32W = w
	verifC32Stubs()
	w.child = make([][2]int, K)
	full := verifrt.Param("all_shapes", 0) != 0
	for k := 0; k < K; k++ {
		for s := 0; s < 2; s++ {
			var c int
			if full {
				c = verifC32Pick("child", 0, 1+K)
			} else if s == 0 { // quick: slot 0 = file or nothing, slot 1 = next tree or nothing
				c = verifC32Pick("child", 0, 1)
			} else if k+1 < K {
				c = verifC32Pick("child", 0, 1) * (k + 3)
			}
			verifrt.Assume(c < 2 || c-2 > k) // content-addressed trees are acyclic
			w.child[k][s] = c
		}
	}
	if verifrt.Param("allow_missing", 1) != 0 {
		if full {
			w.missing = verifC32Pick("missing", -1, K-1)
		} else if verifC32Bool("lastTreeMissing") {
			w.missing = K - 1
		}
	}
	// blobs the destination already has (arbitrary subset)
	initial := make([]bool, 2*K)
	if verifrt.Param("dst_subsets", 0) != 0 {
		for b := 0; b < 2*K; b++ {
			if verifC32Bool("dstHas") {
				initial[b] = true
			}
		}
	} else if b := verifC32Pick("dstHasOne", 0, 3); b > 0 { // nothing, or one of: last tree, last tree's data, first tree's data
		initial[[]int{0, K - 1, 2*K - 1, K}[b]] = true
	}
	for b := 0; b < 2*K; b++ {
		if initial[b] {
			w.dstDurable[verifC32Handle(b, K)] = true
		}
	}
	w.failAt = verifC32Pick("failAt", -1, verifrt.Param("failpoints", 4))
	ns := verifC32Pick("nsnapshots", 1, S)
	roots := make([]int, ns)
	sns := make([]*data.Snapshot, ns)
	origSet := make([]bool, ns)
	for i := 0; i < ns; i++ {
		if i > 0 || full {
			roots[i] = verifC32Pick("root", 0, K-1)
		}
		tree := verifC32TreeID(roots[i])
		parent := restic.ID{7}
		sn := &data.Snapshot{Time: time.Unix(1000+int64(i), 0), Tree: &tree, Parent: &parent, Hostname: "h", Paths: []string{"/p"}}
		var id restic.ID
		id[0], id[1] = 0xa0+byte(i), 0x32
		data.TestSetSnapshotID(nil, sn, id)
		if (full && verifC32Bool("hasOriginal")) || (!full && i == 0) {
			var o restic.ID
			o[0], o[1] = 0xb0+byte(i), 0x32
			sn.Original = &o
			origSet[i] = true
		}
		sns[i] = sn
	}
	selected := func(yield func(*data.Snapshot, error) bool) {
		for _, sn := range sns {
			if !yield(sn, nil) {
				return
			}
		}
	}

	err := copyTreeBatched(context.Background(), &repository.Repository{}, &verifC32Dst{}, selected, restic.NewNoopPrinter())

	// ---- checks over the event log
	nsaved := 0
	failed := false
	copied := map[restic.BlobHandle]bool{}
	for _, e := range w.ev {
		verifrt.Assert(!failed, "copy continues after a failed step")
		switch e.kind {
		case "copy":
			for _, h := range e.blobs {
				b := -1
				for x := 0; x < 2*K; x++ {
					if verifC32Handle(x, K) == h {
						b = x
					}
				}
				verifrt.Assert(b >= 0, "a blob that is not in the source is copied")
				verifrt.Assert(!initial[b], "a blob the destination already has is copied again")
				verifrt.Assert(!copied[h], "a blob is handed to CopyBlobs twice")
				copied[h] = true
				var p restic.ID
				p[0], p[1] = h.ID[0], 0x99
				verifrt.Assert(e.packs.Has(p), "the pack of a blob to copy is missing from the pack list")
			}
			if !e.ok {
				failed = true
			}
		case "flush":
			if !e.ok {
				failed = true
			}
		case "save":
			verifrt.Assert(nsaved < ns, "more snapshots saved than selected")
			i := nsaved
			nsaved++
			verifrt.Assert(e.srcID == *sns[i].ID(), "snapshots are saved in a different order than selected")
			verifrt.Assert(e.sn.Tree != nil && *e.sn.Tree == verifC32TreeID(roots[i]), "the copied snapshot's tree ID differs from the source")
			verifrt.Assert(e.sn.Parent == nil, "the copied snapshot keeps the source's parent")
			want := *sns[i].ID()
			if origSet[i] {
				want[0] = 0xb0 + byte(i)
			}
			verifrt.Assert(e.sn.Original != nil && *e.sn.Original == want, "Original is not the persistent ID of the source snapshot")
			verifrt.Assert(e.sn.Time.Equal(time.Unix(1000+int64(i), 0)) && e.sn.Hostname == "h", "snapshot metadata changed")
			// the essential safety property: when the snapshot file is written, everything it references is durable
			reach := w.reachable(roots[i])
			verifrt.Assert(w.missing < 0 || !reach[w.missing], "a snapshot whose tree cannot be read completely was saved")
			for b := 0; b < 2*K; b++ {
				if reach[b] {
					verifrt.Assert(e.durable[verifC32Handle(b, K)], "a snapshot is saved although a blob it references is not durably stored in the destination")
				}
			}
			if !e.ok {
				failed = true
			}
		}
	}
	verifrt.Assert((err != nil) == failed || w.missing >= 0, "copyTreeBatched's result does not reflect the failure of a step")
	if err == nil {
		verifrt.Assert(nsaved == ns, "success reported but not every selected snapshot was saved")
		verifrt.Reach("all-saved")
		if len(copied) > 0 {
			verifrt.Reach("copied-something")
		}
	} else {
		verifrt.Reach("failed")
	}
}

// VerifC32_SkipCopied: a snapshot saved by copySaveSnapshot is recognised by collectAllSnapshots /
// similarSnapshots in the next run (so a second run selects nothing), also via Original chains;
// a destination snapshot that differs in tree, time, host, paths or tags does not cause a skip.
func VerifC32_SkipCopied() {
	w := &verifC32World{K: 1, missing: -1, failAt: -1, dstDurable: map[restic.BlobHandle]bool{}, dstPending: map[restic.BlobHandle]bool{}}
	verifC32W = w
	verifC32Stubs()

	tree := verifC32TreeID(0)
	mk := func(i int) *data.Snapshot {
		t := tree
		sn := &data.Snapshot{Time: time.Unix(1000, 500), Tree: &t, Hostname: "h", Username: "u", UID: 3, GID: 4,
			Paths: []string{"/a", "/b"}, Tags: []string{"x", "y"}, Excludes: []string{"e"}}
		var id restic.ID
		id[0], id[1] = 0xa0+byte(i), 0x32
		data.TestSetSnapshotID(nil, sn, id)
		return sn
	}
	src := mk(0)
	if verifC32Bool("srcIsItselfACopy") {
		o := restic.ID{0xb7}
		src.Original = &o
	}
	// first run: what copySaveSnapshot stores in the destination
	srcCopy := *src
	err := copySaveSnapshot(context.Background(), &srcCopy, &verifC32Dst{}, restic.NewNoopPrinter())
	verifrt.Assume(err == nil)
	saved := w.ev[len(w.ev)-1].sn
	dst := &saved
	var dstID restic.ID
	dstID[0], dstID[1] = 0xd1, 0x32
	data.TestSetSnapshotID(nil, dst, dstID)
	// the JSON round trip normalises times to the same instant; paths/tags may be reordered by later `tag` runs
	mut := verifC32Pick("mutation", 0, 7)
	switch mut {
	case 1:
		other := verifC32TreeID(5)
		dst.Tree = &other
	case 2:
		dst.Time = dst.Time.Add(time.Second)
	case 3:
		dst.Hostname = "other"
	case 4:
		dst.Paths = []string{"/a", "/c"}
	case 5:
		dst.Tags = []string{"x"}
	case 6:
		dst.Paths = []string{"/b", "/a"} // same set, other order: still the same snapshot
		dst.Tags = []string{"y", "x"}
	case 7:
		// decoded from JSON with a UTC offset that is not the local zone: the same instant, but each
		// decoded time carries its own *time.Location
		dst.Time = dst.Time.In(time.FixedZone("", 5*3600+45*60))
	}

	// destination map as built by runCopy
	byOriginal := map[restic.ID][]*data.Snapshot{}
	if dst.Original != nil && !dst.Original.IsNull() {
		byOriginal[*dst.Original] = append(byOriginal[*dst.Original], dst)
	}
	byOriginal[*dst.ID()] = append(byOriginal[*dst.ID()], dst)

	// second run: source snapshot again (fresh copy as loaded from the source repository)
	src2 := mk(0)
	src2.Original = src.Original
	verifrt.Stub("(*internal/data.SnapshotFilter).FindAll", func(_ *data.SnapshotFilter, _ context.Context, _ restic.Lister, _ restic.LoaderUnpacked, _ []string, fn data.SnapshotFindCb) error {
		return fn("x", src2, nil)
	})
	n := 0
	for sn, err := range collectAllSnapshots(context.Background(), CopyOptions{}, nil, nil, byOriginal, nil, restic.NewNoopPrinter()) {
		verifrt.Assert(err == nil && sn == src2, "unexpected item selected")
		n++
	}
	if mut == 0 || mut == 6 || mut == 7 {
		verifrt.Reach("second-run")
		verifrt.Assert(n == 0, "a snapshot that was already copied is selected again (copy is not idempotent)")
	} else {
		verifrt.Reach("different-snapshot")
		verifrt.Assert(n == 1, "a snapshot is skipped although the destination snapshot with the same Original differs")
	}
}

package repository

import (
	"bytes"
	"context"
	"hash"
	"io"

	"github.com/klauspost/compress/zstd"

	"github.com/restic/restic/internal/backend"
	"github.com/restic/restic/internal/errors"
	"github.com/restic/restic/internal/repository/crypto"
	"github.com/restic/restic/internal/restic"
	"github.com/restic/restic/internal/verifrt"
)

// ---- environment -------------------------------------------------------------------------------

// backend that returns exactly what was saved
type verifC07File struct {
	h    backend.Handle
	data []byte
}

type verifC07Backend struct {
	backend.Backend
	files []verifC07File
	loads int
}

func (b *verifC07Backend) Hasher() hash.Hash { return nil }

func (b *verifC07Backend) Save(_ context.Context, h backend.Handle, rd backend.RewindReader) error {
	data, err := io.ReadAll(rd)
	if err != nil {
		return err
	}
	verifrt.Assert(int64(len(data)) == rd.Length(), "RewindReader.Length differs from the bytes delivered")
	b.files = append(b.files, verifC07File{h: h, data: data})
	return nil
}

func (b *verifC07Backend) Load(_ context.Context, h backend.Handle, length int, offset int64, fn func(rd io.Reader) error) error {
	b.loads++
	verifrt.Assert(length == 0 && offset == 0, "unpacked files are loaded as a whole")
	for _, f := range b.files {
		if f.h.Type == h.Type && f.h.Name == h.Name {
			return fn(bytes.NewReader(append([]byte(nil), f.data...)))
		}
	}
	return errors.New("file does not exist")
}

// AEAD: identity with an uninterpreted tag (the real Seal/Open are the subject of C05)
func verifC07Tag(nonce, p []byte) []byte {
	in := append(append([]byte(nil), nonce...), p...)
	return verifrt.UFBytes("c07tag", 16, in)
}

func verifC07Seal(_ *crypto.Key, dst, nonce, plaintext, _ []byte) []byte {
	tag := verifC07Tag(nonce, plaintext)
	dst = append(dst, plaintext...)
	return append(dst, tag...)
}

func verifC07Open(_ *crypto.Key, dst, nonce, ciphertext, _ []byte) ([]byte, error) {
	if len(ciphertext) < 16 {
		return nil, errors.New("ciphertext too short")
	}
	l := len(ciphertext) - 16
	if !bytes.Equal(verifC07Tag(nonce, ciphertext[:l]), ciphertext[l:]) {
		return nil, crypto.ErrUnauthenticated
	}
	return append(dst, ciphertext[:l]...), nil
}

// zstd contract: DecodeAll(EncodeAll(p)) == p; anything that is not a frame is an error.
// Model frame: 0xFD, len(p), p[i] XOR 0x5a ...  (an injective framing that is never the identity)
const verifC07Magic = 0xFD

type verifC07Zstd struct {
	corruptDecode bool // fault injection: the decoder returns wrong data
	encodes       int
	decodes       int
}

func (z *verifC07Zstd) encodeAll(_ *zstd.Encoder, src, dst []byte) []byte {
	z.encodes++
	dst = append(dst, verifC07Magic, byte(len(src)))
	for _, c := range src {
		dst = append(dst, c^0x5a)
	}
	return dst
}

func (z *verifC07Zstd) decodeAll(_ *zstd.Decoder, input, dst []byte) ([]byte, error) {
	z.decodes++
	if len(input) < 2 || input[0] != verifC07Magic || int(input[1]) != len(input)-2 {
		return dst, errors.New("zstd: invalid input")
	}
	for _, c := range input[2:] {
		dst = append(dst, c^0x5a)
	}
	if z.corruptDecode {
		dst = append(dst, 0)
	}
	return dst, nil
}

func verifC07Env(version uint) (*Repository, *verifC07Backend, *verifC07Zstd) {
	z := &verifC07Zstd{}
	verifrt.Stub("(*internal/repository/crypto.Key).Seal", verifC07Seal)
	verifrt.Stub("(*internal/repository/crypto.Key).Open", verifC07Open)
	verifrt.Stub("internal/repository/crypto.NewRandomNonce", func() []byte { return verifrt.BytesN("nonce", 16) })
	verifrt.Stub("(*internal/repository.Repository).getZstdEncoder", func(_ *Repository) *zstd.Encoder { return &zstd.Encoder{} })
	verifrt.Stub("(*internal/repository.Repository).getZstdDecoder", func(_ *Repository) *zstd.Decoder { return &zstd.Decoder{} })
	verifrt.Stub("(*github.com/klauspost/compress/zstd.Encoder).EncodeAll", z.encodeAll)
	verifrt.Stub("(*github.com/klauspost/compress/zstd.Decoder).DecodeAll", z.decodeAll)
	be := &verifC07Backend{}
	r := &Repository{be: be, key: &crypto.Key{}, cfg: restic.Config{Version: version}}
	// --compression auto|off|max|fastest: unpacked files are encoded the same way in every mode
	r.opts.Compression = CompressionMode(verifrt.Int("compression", 0, 3))
	return r, be, z
}

func verifC07Version() uint {
	if verifrt.Bool("v2") {
		return 2
	}
	return 1
}

func verifC07Type() restic.FileType {
	switch verifrt.Int("type", 0, 3) {
	case 0:
		return restic.IndexFile
	case 1:
		return restic.SnapshotFile
	case 2:
		return restic.LockFile
	}
	return restic.KeyFile
}

// reference encoding of a stored file
func verifC07Stored(version uint, t restic.FileType, p []byte) []byte {
	if t == restic.ConfigFile || version < 2 {
		return p
	}
	out := []byte{2, verifC07Magic, byte(len(p))}
	for _, c := range p {
		out = append(out, c^0x5a)
	}
	return out
}

// VerifC07_RoundTrip: LoadUnpacked(saveUnpacked(p)) == p for index/snapshot/lock/key files.
func VerifC07_RoundTrip() {
	version := verifC07Version()
	r, be, _ := verifC07Env(version)
	t := verifC07Type()
	p := verifrt.Bytes("p", verifrt.Param("payload", 4))
	orig := append([]byte(nil), p...)
	ctx := context.Background()

	id, err := r.saveUnpacked(ctx, t, p)
	verifrt.Assert(err == nil, "saveUnpacked failed on an intact backend")
	verifrt.Assert(bytes.Equal(p, orig), "saveUnpacked modified the caller's buffer")
	verifrt.Assert(len(be.files) == 1, "saveUnpacked must save exactly one file")
	f := be.files[0]
	verifrt.Assert(f.h.Type == backend.FileType(t), "saved under a wrong file type")
	verifrt.Assert(id == restic.Hash(f.data), "returned ID is not the hash of the stored bytes")
	verifrt.Assert(f.h.Name == id.String(), "file name is not the returned ID")
	want := verifC07Stored(version, t, orig)
	verifrt.Assert(len(f.data) == 16+len(want)+16, "stored file has wrong length")
	if len(f.data) == 16+len(want)+16 {
		verifrt.Assert(bytes.Equal(f.data[16:16+len(want)], want), "stored plaintext is not [version byte 2 || zstd](p) resp. p")
	}

	got, err := r.LoadUnpacked(ctx, t, id)
	verifrt.Assert(err == nil, "LoadUnpacked failed for a file just saved")
	verifrt.Assert(bytes.Equal(got, orig), "LoadUnpacked returned other bytes than were saved")
	verifrt.Assert(be.loads == 1, "an intact file is loaded once")
	if version == 2 {
		verifrt.Reach("v2")
		if len(orig) > 0 && (orig[0] == '[' || orig[0] == '{' || orig[0] == 2) {
			verifrt.Reach("v2-payload-looks-like-json-or-version-byte")
		}
	} else {
		verifrt.Reach("v1")
	}
}

// VerifC07_Config: the config file is stored uncompressed under the null ID in both versions.
func VerifC07_Config() {
	version := verifC07Version()
	r, be, z := verifC07Env(version)
	p := verifrt.Bytes("p", verifrt.Param("payload", 4))
	orig := append([]byte(nil), p...)
	ctx := context.Background()

	id, err := r.saveUnpacked(ctx, restic.ConfigFile, p)
	verifrt.Assert(err == nil, "saving the config failed")
	verifrt.Assert(id.IsNull(), "config must be saved under the null ID")
	verifrt.Assert(len(be.files) == 1 && be.files[0].h.Type == backend.ConfigFile, "config saved under a wrong handle")
	d := be.files[0].data
	verifrt.Assert(len(d) == 32+len(orig) && bytes.Equal(d[16:16+len(orig)], orig), "config is not stored as the plain bytes")
	verifrt.Assert(z.encodes == 0 && z.decodes == 0, "config must never pass through zstd")

	var any restic.ID
	copy(any[:], verifrt.BytesN("anyid", 2))
	got, err := r.LoadUnpacked(ctx, restic.ConfigFile, any)
	verifrt.Assert(err == nil && bytes.Equal(got, orig), "config does not round-trip")
	verifrt.Assert(z.decodes == 0, "config must never pass through zstd")
	verifrt.Reach("config")
}

// VerifC07_LoadStored: decoding of an arbitrary authentic stored plaintext q.
func VerifC07_LoadStored() {
	version := verifC07Version()
	r, be, _ := verifC07Env(version)
	t := verifC07Type()
	nonce := verifrt.BytesN("fnonce", 16)
	short := verifrt.Bool("truncated")
	var q []byte
	if !short {
		q = verifrt.Bytes("q", verifrt.Param("stored", 4))
	}
	file := append(append([]byte(nil), nonce...), verifC07Seal(nil, nil, nonce, q, nil)...)
	if short {
		// a file shorter than nonce+tag (0, 1, 15..17, 31 bytes)
		cut := verifrt.Int("cut", 0, 31)
		verifrt.Assume(cut <= 1 || (cut >= 15 && cut <= 17) || cut == 31)
		file = file[:cut]
	}
	id := restic.Hash(file)
	be.files = append(be.files, verifC07File{h: backend.Handle{Type: backend.FileType(t), Name: id.String()}, data: file})

	got, err := r.LoadUnpacked(context.Background(), t, id)

	switch {
	case short:
		verifrt.Reach("too-short")
		verifrt.Assert(err != nil && got == nil, "a file shorter than the crypto overhead was accepted")
	case version < 2 || len(q) == 0 || q[0] == '[' || q[0] == '{':
		verifrt.Reach("raw")
		verifrt.Assert(err == nil && bytes.Equal(got, q), "raw (version 1 / JSON) content must be returned unchanged")
	case q[0] != 2:
		verifrt.Reach("unknown-encoding-version")
		verifrt.Assert(err != nil && got == nil, "unknown encoding version byte was accepted in a version 2 repository")
	default:
		fr := q[1:]
		if len(fr) >= 2 && fr[0] == verifC07Magic && int(fr[1]) == len(fr)-2 {
			verifrt.Reach("compressed")
			verifrt.Assert(err == nil && len(got) == len(fr)-2, "valid compressed content rejected")
			for i := 0; i < len(got) && i < len(fr)-2; i++ {
				verifrt.Assert(got[i] == fr[2+i]^0x5a, "wrong decompressed byte")
			}
		} else {
			verifrt.Reach("bad-frame")
			verifrt.Assert(err != nil, "invalid zstd frame accepted")
		}
	}
}

// VerifC07_VerifyAborts: when the written data would not decode to the input, nothing is saved.
func VerifC07_VerifyAborts() {
	r, be, z := verifC07Env(2)
	z.corruptDecode = true
	r.opts.NoExtraVerify = verifrt.Bool("noExtraVerify")
	t := verifC07Type()
	p := verifrt.Bytes("p", verifrt.Param("payload", 2))
	_, err := r.saveUnpacked(context.Background(), t, p)
	if r.opts.NoExtraVerify {
		verifrt.Reach("verification-off")
		verifrt.Assert(err == nil && len(be.files) == 1, "without extra verification the file is saved")
		return
	}
	verifrt.Reach("verification-on")
	verifrt.Assert(err != nil, "saveUnpacked did not notice that the file does not decode to the input")
	verifrt.Assert(len(be.files) == 0, "a file that failed verification was handed to the backend")
}

package repository

import (
	"context"
	"errors"
	"sync"
	"time"

	"github.com/restic/restic/internal/restic"
	"github.com/restic/restic/internal/verifrt"
)

// verifC12Store: the lock directory of one repository, shared by all "processes". Every operation
// is a scheduling point, so processes interleave at backend-operation granularity.
type verifC12Store struct {
	ids   []restic.ID
	locks []Lock
	live  []bool
	next  byte
}

func (s *verifC12Store) Connections() uint { return 1 }

func (s *verifC12Store) List(_ context.Context, t restic.FileType, fn func(restic.ID, int64) error) error {
	verifrt.Yield()
	// a listing is a snapshot of the directory at some moment
	n := len(s.ids)
	snapshot := make([]bool, n)
	copy(snapshot, s.live)
	for i := 0; i < n; i++ {
		if snapshot[i] {
			if err := fn(s.ids[i], 100); err != nil {
				return err
			}
		}
	}
	return nil
}

func (s *verifC12Store) LoadUnpacked(context.Context, restic.FileType, restic.ID) ([]byte, error) {
	return nil, errors.New("not used: LoadLock is stubbed")
}

func (s *verifC12Store) SaveUnpacked(context.Context, restic.FileType, []byte) (restic.ID, error) {
	return restic.ID{}, errors.New("not used: SaveJSONUnpacked is stubbed")
}

func (s *verifC12Store) RemoveUnpacked(_ context.Context, _ restic.FileType, id restic.ID) error {
	verifrt.Yield()
	for i := range s.ids {
		if s.ids[i] == id {
			s.live[i] = false
		}
	}
	return nil
}

func (s *verifC12Store) save(l Lock) restic.ID {
	verifrt.Yield()
	s.next++
	var id restic.ID
	id[0] = s.next
	s.ids = append(s.ids, id)
	s.locks = append(s.locks, l)
	s.live = append(s.live, true)
	return id
}

func (s *verifC12Store) load(id restic.ID) (Lock, error) {
	verifrt.Yield()
	for i := range s.ids {
		if s.ids[i] == id {
			if !s.live[i] {
				return Lock{}, errors.New("lock file does not exist")
			}
			return s.locks[i], nil
		}
	}
	return Lock{}, errors.New("lock file does not exist")
}

func verifC12Stubs(s *verifC12Store) {
	// JSON (reflection) replaced by identity on the Lock struct
	verifrt.Stub("internal/restic.SaveJSONUnpacked", func(_ context.Context, _ restic.SaverUnpacked[restic.FileType], _ restic.FileType, item any) (restic.ID, error) {
		return s.save(*item.(*Lock)), nil
	})
	verifrt.Stub("internal/repository.LoadLock", func(_ context.Context, _ restic.LoaderUnpacked, id restic.ID) (Lock, error) {
		return s.load(id)
	})
	// sequential model of the parallel lister
	verifrt.Stub("internal/restic.ParallelList", func(ctx context.Context, r restic.Lister, t restic.FileType, _ uint, fn func(context.Context, restic.ID, int64) error) error {
		return r.List(ctx, t, func(id restic.ID, size int64) error { return fn(ctx, id, size) })
	})
	// timers: a delay is a scheduling point
	verifrt.Stub("internal/repository.cancelableDelay", func(ctx context.Context, _ time.Duration) error {
		verifrt.Yield()
		return ctx.Err()
	})
	verifrt.Stub("internal/repository.delayedCancelContext", func(_ context.Context, _ time.Duration) (context.Context, context.CancelFunc) {
		return context.WithCancel(context.Background())
	})
}

// VerifC12_Exclusive: N processes acquire (and optionally release / refresh) locks on the same repository
// with arbitrary interleaving of their backend operations: an exclusive lock is never held together
// with any other lock.
func VerifC12_Exclusive() {
	nproc := verifrt.Param("procs", 2)
	s := &verifC12Store{}
	verifC12Stubs(s)
	holding := make([]bool, nproc)
	excl := make([]bool, nproc)
	var wg sync.WaitGroup
	for p := 0; p < nproc; p++ {
		p := p
		excl[p] = verifrt.Bool("exclusive")
		doRefresh := verifrt.Bool("refresh")
		wg.Add(1)
		go func() {
			defer wg.Done()
			ctx := context.Background()
			l, err := newLock(ctx, s, excl[p])
			if err != nil {
				verifrt.Assert(IsAlreadyLocked(err), "newLock failed with an unexpected error")
				return
			}
			holding[p] = true
			for q := 0; q < nproc; q++ {
				if q != p && holding[q] {
					verifrt.Assert(!excl[p] && !excl[q], "two processes hold conflicting locks at the same time")
				}
			}
			verifrt.Yield()
			if doRefresh {
				verifrt.Assert(l.refresh(ctx) == nil, "refresh failed")
				for q := 0; q < nproc; q++ {
					if q != p && holding[q] {
						verifrt.Assert(!excl[p] && !excl[q], "conflicting locks after refresh")
					}
				}
				verifrt.Yield()
			}
			holding[p] = false
			verifrt.Assert(l.unlock(ctx) == nil, "unlock failed")
		}()
	}
	wg.Wait()
	for i := range s.live {
		verifrt.Assert(!s.live[i], "a lock file was left behind after every process finished")
	}
	verifrt.Reach("locks-done")
}

package restic

import (
	"context"

	"github.com/restic/restic/internal/verifrt"
)

type verifC57Lister struct{ ids []ID }

func (l verifC57Lister) List(_ context.Context, _ FileType, fn func(ID, int64) error) error {
	for _, id := range l.ids {
		if err := fn(id, 0); err != nil {
			return err
		}
	}
	return nil
}

func verifC57HexVal(c byte) (byte, bool) {
	switch {
	case c >= '0' && c <= '9':
		return c - '0', true
	case c >= 'a' && c <= 'f':
		return c - 'a' + 10, true
	}
	return 0, false
}

// reference: does the lowercase-hex name of id start with prefix?
func verifC57HasPrefix(id ID, prefix string) bool {
	if len(prefix) > 2*len(id) {
		return false
	}
	for k := 0; k < len(prefix); k++ {
		v, ok := verifC57HexVal(prefix[k])
		if !ok {
			return false
		}
		b := id[k/2]
		var nib byte
		if k%2 == 0 {
			nib = b >> 4
		} else {
			nib = b & 0xf
		}
		if nib != v {
			return false
		}
	}
	return true
}

// VerifC57_Find: restic.Find returns the unique listed ID with the prefix, or the respective error.
func VerifC57_Find() {
	nmax := verifrt.Param("ids", 3)
	n := verifrt.Int("n", 0, nmax)
	ids := make([]ID, n)
	for i := range ids {
		b := verifrt.BytesN("id", 2)
		ids[i][0], ids[i][1] = b[0], b[1]
		ids[i][31] = 1 // listed IDs are hashes, never the null ID
		for j := 0; j < i; j++ {
			verifrt.Assume(ids[i] != ids[j]) // a listing names each file once
		}
	}
	prefix := verifrt.String("prefix", verifrt.Param("prefixlen", 4))

	got, err := Find(context.Background(), verifC57Lister{ids}, SnapshotFile, prefix)

	cnt := 0
	var want ID
	for _, id := range ids {
		if verifC57HasPrefix(id, prefix) {
			cnt++
			want = id
		}
	}
	switch {
	case cnt == 1:
		verifrt.Reach("unique")
		verifrt.Assert(err == nil, "unique match must not return an error")
		verifrt.Assert(got == want, "unique match must return the matching ID")
	case cnt == 0:
		verifrt.Reach("none")
		_, isNo := err.(*NoIDByPrefixError)
		verifrt.Assert(isNo, "no match must return NoIDByPrefixError")
		verifrt.Assert(got.IsNull(), "no match must return the null ID")
	default:
		verifrt.Reach("ambiguous")
		_, isMulti := err.(*MultipleIDMatchesError)
		verifrt.Assert(isMulti, "several matches must return MultipleIDMatchesError")
		verifrt.Assert(got.IsNull(), "ambiguous prefix must return the null ID")
	}
}

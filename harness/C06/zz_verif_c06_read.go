package pack

import (
	"bytes"

	"github.com/restic/restic/internal/restic"
	"github.com/restic/restic/internal/verifrt"
)

// verifC06Tail is an io.ReaderAt over a file of (symbolic) length size of which only the last
// len(tail) bytes are modelled: file[size-k] == tail[len(tail)-k]. A file shorter than the
// model simply ignores the front of tail.
type verifC06Tail struct {
	size  int64
	tail  []byte
	reads int
}

func (r *verifC06Tail) ReadAt(p []byte, off int64) (int, error) {
	r.reads++
	verifrt.Assert(off >= 0, "ReadAt with a negative offset")
	d := r.size - off // distance of the first byte from EOF
	verifrt.Assert(d >= int64(len(p)), "ReadAt beyond the end of the file")
	verifrt.Assert(d <= int64(len(r.tail)) && d <= r.size, "harness: read reaches before the modelled tail")
	src := r.tail[len(r.tail)-int(d):]
	copy(p, src)
	return len(p), nil
}

func verifC06LE32(b []byte) uint32 {
	return uint32(b[0]) | uint32(b[1])<<8 | uint32(b[2])<<16 | uint32(b[3])<<24
}

const (
	verifC06MinFile   = 37 + 32 + 4      // one uncompressed entry + nonce + tag + length field
	verifC06Eager     = 15*41 + 32 + 4   // bytes fetched by the first read
	verifC06MaxHeader = 16 * 1024 * 1024 // max header length (without the length field)
)

// VerifC06_ReadRecords: readRecords for every file size, every length field and small buffer sizes.
func VerifC06_ReadRecords() {
	bmax := verifrt.Param("bufmax", 48)
	tail := verifrt.BytesN("tail", bmax)
	size := verifrt.Int64("size")
	bufsize := verifrt.Int("bufsize", 4, bmax)
	verifrt.Assume(size >= 4) // readHeader guarantees size >= minFileSize, bufsize >= headerLengthSize
	rd := &verifC06Tail{size: size, tail: tail}

	b, total, err := readRecords(rd, size, bufsize)

	hlen := verifC06LE32(tail[bmax-4:])
	bad := hlen < 32 || int64(hlen) > size-4 || hlen > verifC06MaxHeader
	if bad {
		verifrt.Reach("records-rejected")
		verifrt.Assert(err != nil, "readRecords accepted an impossible header length")
		verifrt.Assert(b == nil && total == 0, "readRecords returned data together with an error")
		return
	}
	verifrt.Reach("records-accepted")
	verifrt.Assert(err == nil, "readRecords rejected a plausible header length")
	verifrt.Assert(total == int(hlen)+4, "readRecords: total != hlen+4")
	eff := int64(bufsize)
	if eff > size {
		eff = size
	}
	want := int64(hlen)
	if want > eff-4 {
		want = eff - 4
		verifrt.Reach("records-partial")
	}
	verifrt.Assert(int64(len(b)) == want, "readRecords returned a wrong number of header bytes")
	if int64(len(b)) == want {
		verifrt.Assert(bytes.Equal(b, tail[bmax-4-int(want):bmax-4]), "readRecords returned wrong header bytes")
	}
	verifrt.Assert(rd.reads == 1, "readRecords must read exactly once")
}

// VerifC06_ReadHeader: readHeader for (almost) every file size and every value of the length field.
func VerifC06_ReadHeader() {
	K := verifrt.Param("tail", 700)    // modelled tail; headers up to K-4 bytes
	small := verifrt.Param("small", 8) // file sizes minFileSize..minFileSize+small-1 and >= eagerSize
	near := verifrt.Param("near", 40)  // header lengths 0..32+near and eagerSize-4-near..K-4 and impossible ones
	tail := verifrt.BytesN("tail", K)
	size := verifrt.Int64("size")
	verifrt.Assume(size < int64(verifC06MinFile+small) || size >= verifC06Eager)
	hlen := verifC06LE32(tail[K-4:])
	verifrt.Assume(hlen <= uint32(32+near) || (hlen >= uint32(verifC06Eager-4-near) && hlen <= uint32(K-4)) ||
		int64(hlen) > size-4 || hlen > verifC06MaxHeader)
	rd := &verifC06Tail{size: size, tail: tail}

	b, err := readHeader(rd, size)

	bad := size < verifC06MinFile || hlen < 32 || int64(hlen) > size-4 || hlen > verifC06MaxHeader
	if bad {
		verifrt.Reach("header-rejected")
		verifrt.Assert(err != nil, "readHeader accepted a malformed file")
		verifrt.Assert(b == nil, "readHeader returned data together with an error")
		_, isInvalid := errorsCause(err).(InvalidFileError)
		verifrt.Assert(isInvalid, "malformed file must be reported as InvalidFileError")
		return
	}
	verifrt.Assert(err == nil, "readHeader rejected a well-formed length field")
	verifrt.Assert(len(b) == int(hlen), "readHeader returned a wrong number of bytes")
	if len(b) == int(hlen) {
		verifrt.Assert(bytes.Equal(b, tail[K-4-int(hlen):K-4]), "readHeader returned wrong bytes")
	}
	if int(hlen)+4 <= verifC06Eager {
		verifrt.Reach("header-eager")
		verifrt.Assert(rd.reads == 1, "a header that fits the eager read needs exactly one read")
	} else {
		verifrt.Reach("header-second-read")
		verifrt.Assert(rd.reads == 2, "a long header needs exactly two reads")
	}
}

func errorsCause(err error) error {
	type causer interface{ Cause() error }
	for err != nil {
		c, ok := err.(causer)
		if !ok {
			break
		}
		err = c.Cause()
	}
	return err
}

// reference parser for a decrypted header, from doc/design.rst
func verifC06RefParse(h []byte) (out []Blob, ok bool) {
	pos := uint(0)
	for len(h) > 0 {
		if len(h) < 37 {
			return nil, false
		}
		var b Blob
		n := 37
		switch h[0] {
		case 0:
			b.Type = restic.DataBlob
		case 1:
			b.Type = restic.TreeBlob
		case 2:
			b.Type, n = restic.DataBlob, 41
		case 3:
			b.Type, n = restic.TreeBlob, 41
		default:
			return nil, false
		}
		if len(h) < n {
			return nil, false
		}
		b.Length = uint(verifC06LE32(h[1:5]))
		if n == 41 {
			b.UncompressedLength = uint(verifC06LE32(h[5:9]))
		}
		copy(b.ID[:], h[n-32:n])
		b.Offset = pos
		pos += b.Length
		out = append(out, b)
		h = h[n:]
	}
	return out, true
}

// VerifC06_ListArbitrary: List on a file whose (authentic or forged) header body is arbitrary.
func VerifC06_ListArbitrary() {
	k := verifC06Env()
	mmax := verifrt.Param("body", 83)
	m := verifrt.Int("m", 0, mmax)
	if verifrt.Param("sparse", 1) == 1 {
		// only lengths around 0, one and two entries
		verifrt.Assume(m <= 2 || (m >= 36 && m <= 42) || m >= 73)
	}
	d := verifrt.Int("d", 0, 1)
	file := make([]byte, d)
	for i := range file {
		file[i] = verifrt.Byte("data")
	}
	nonce := verifrt.BytesN("nonce", 16)
	body := make([]byte, m)
	for i := range body {
		body[i] = verifrt.Byte("body")
	}
	m, d = len(body), len(file)
	tag := verifrt.BytesN("tag", 16)
	for i := 0; i < m; i += 37 {
		// keep error messages concrete: entry type bytes 0..5 (4, 5 invalid); other positions are free
		verifrt.Assume(body[i] <= 5)
	}
	for i := 41; i < m; i += 41 {
		verifrt.Assume(body[i] <= 5)
	}
	if m > 78 {
		verifrt.Assume(body[78] <= 5)
	}
	file = append(file, nonce...)
	file = append(file, body...)
	file = append(file, tag...)
	hl := uint32(32 + m)
	file = append(file, byte(hl), byte(hl>>8), byte(hl>>16), byte(hl>>24))

	entries, hdrSize, err := List(k, bytes.NewReader(file), int64(len(file)))

	authentic := bytes.Equal(tag, verifC06Tag(nonce, body))
	ref, wellFormed := verifC06RefParse(body)
	if len(file) < verifC06MinFile || !authentic || !wellFormed {
		verifrt.Reach("list-rejected")
		verifrt.Assert(err != nil, "List accepted a malformed or forged header")
		verifrt.Assert(entries == nil && hdrSize == 0, "List returned entries together with an error")
		return
	}
	verifrt.Reach("list-accepted")
	verifrt.Assert(err == nil, "List rejected a well-formed header")
	verifrt.Assert(hdrSize == hl+4, "List reported a wrong header size")
	verifrt.Assert(len(entries) == len(ref), "List returned a wrong number of entries")
	for i := 0; i < len(ref) && i < len(entries); i++ {
		verifrt.Assert(entries[i] == ref[i], "List returned a wrong entry")
	}
	if len(ref) == 2 {
		verifrt.Reach("list-two-entries")
	}
}

// VerifC06_ParseHeaderEntry: parseHeaderEntry on arbitrary bytes.
func VerifC06_ParseHeaderEntry() {
	p := verifrt.Bytes("p", verifrt.Param("len", 43))
	if verifrt.Param("sparse", 1) == 1 {
		verifrt.Assume(len(p) <= 1 || (len(p) >= 36 && len(p) <= 43))
	}
	orig := append([]byte(nil), p...)
	b, size, err := parseHeaderEntry(p)
	verifrt.Assert(bytes.Equal(p, orig), "parseHeaderEntry modified its input")
	var want []Blob
	ok := false
	if len(p) >= 37 {
		n := 37
		if p[0] == 2 || p[0] == 3 {
			n = 41
		}
		if len(p) >= n {
			want, ok = verifC06RefParse(p[:n])
		}
	}
	if !ok {
		verifrt.Reach("entry-rejected")
		verifrt.Assert(err != nil, "parseHeaderEntry accepted a malformed entry")
		return
	}
	verifrt.Reach("entry-accepted")
	verifrt.Assert(err == nil, "parseHeaderEntry rejected a well-formed entry")
	verifrt.Assert(b == want[0], "parseHeaderEntry decoded a wrong blob")
	if p[0] >= 2 {
		verifrt.Assert(size == 41, "compressed entry must consume 41 bytes")
	} else {
		verifrt.Assert(size == 37, "plain entry must consume 37 bytes")
	}
}

// VerifC06_HeaderArithmetic: constants, CalculateEntrySize/CalculateHeaderSize, HeaderFull at the boundary.
func VerifC06_HeaderArithmetic() {
	verifrt.Assert(entrySize == 41 && plainEntrySize == 37, "entry sizes differ from the documented format")
	verifrt.Assert(CalculateEntrySize(false) == 37 && CalculateEntrySize(true) == 41, "CalculateEntrySize")
	verifrt.Assert(headerSize == 36 && minFileSize == verifC06MinFile, "headerSize/minFileSize")
	verifrt.Assert(MaxHeaderSize == verifC06MaxHeader+4, "MaxHeaderSize")
	// MaxHeaderEntries is the largest count of (worst case, compressed) entries that fits MaxHeaderSize
	verifrt.Assert(36+MaxHeaderEntries*41 <= MaxHeaderSize, "MaxHeaderEntries entries do not fit")
	verifrt.Assert(36+(MaxHeaderEntries+1)*41 > MaxHeaderSize, "MaxHeaderEntries is not maximal")
	verifrt.Assert(eagerEntries == 15, "eagerEntries")

	// CalculateHeaderSize over symbolic blobs
	n := verifrt.Int("n", 0, verifrt.Param("blobs", 3))
	blobs := make(Blobs, n)
	want := 36
	for i := range blobs {
		blobs[i].UncompressedLength = uint(verifrt.Uint64("ulen"))
		blobs[i].Length = uint(verifrt.Uint64("len"))
		if blobs[i].UncompressedLength != 0 {
			want += 41
		} else {
			want += 37
		}
		verifrt.Assert(blobs[i].IsCompressed() == (blobs[i].UncompressedLength != 0), "IsCompressed")
	}
	verifrt.Assert(CalculateHeaderSize(blobs) == want, "CalculateHeaderSize")

}

// VerifC06_HeaderFull: HeaderFull at the boundary: false => one more (compressed) entry still
// fits MaxHeaderSize; true => it would not.
func VerifC06_HeaderFull() {
	cnt := int(MaxHeaderEntries) - 2 + verifrt.Int("k", 0, 3)
	p := &Packer{blobs: make([]Blob, cnt)}
	full := p.HeaderFull()
	fits := 36+(cnt+1)*41 <= MaxHeaderSize
	verifrt.Assert(full == !fits, "HeaderFull disagrees with MaxHeaderSize")
	verifrt.Assert(full == (cnt+1 > int(MaxHeaderEntries)), "HeaderFull disagrees with MaxHeaderEntries")
	if full {
		verifrt.Reach("full")
	} else {
		verifrt.Reach("not-full")
	}
}

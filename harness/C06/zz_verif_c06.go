package pack

import (
	"bytes"
	"io"

	"github.com/restic/restic/internal/errors"
	"github.com/restic/restic/internal/repository/crypto"
	"github.com/restic/restic/internal/restic"
	"github.com/restic/restic/internal/verifrt"
)

// ---- environment model: AEAD as identity-with-tag -------------------------------------------
//
// Seal(dst, nonce, p) = dst || p || T(nonce, p)      (T: uninterpreted 16-byte tag)
// Open(dst, nonce, c) = dst || c[:l]  if c[l:] == T(nonce, c[:l]), else ErrUnauthenticated
// so Open(Seal(x)) == x, and for arbitrary input the solver may choose "authentic" (then the
// plaintext is the arbitrary input) or "forged" (error).

const verifC06TagSize = 16

func verifC06Tag(nonce, p []byte) []byte {
	in := make([]byte, 0, len(nonce)+len(p))
	in = append(in, nonce...)
	in = append(in, p...)
	return verifrt.UFBytes("c06tag", verifC06TagSize, in)
}

func verifC06Seal(_ *crypto.Key, dst, nonce, plaintext, _ []byte) []byte {
	tag := verifC06Tag(nonce, plaintext)
	dst = append(dst, plaintext...)
	return append(dst, tag...)
}

func verifC06Open(_ *crypto.Key, dst, nonce, ciphertext, _ []byte) ([]byte, error) {
	if len(ciphertext) < verifC06TagSize {
		return nil, errors.New("ciphertext too short")
	}
	l := len(ciphertext) - verifC06TagSize
	tag := verifC06Tag(nonce, ciphertext[:l])
	if !bytes.Equal(tag, ciphertext[l:]) {
		return nil, crypto.ErrUnauthenticated
	}
	return append(dst, ciphertext[:l]...), nil
}

func verifC06Nonce() []byte { return verifrt.BytesN("nonce", 16) }

func verifC06Env() *crypto.Key {
	verifrt.Stub("(*internal/repository/crypto.Key).Seal", verifC06Seal)
	verifrt.Stub("(*internal/repository/crypto.Key).Open", verifC06Open)
	verifrt.Stub("internal/repository/crypto.NewRandomNonce", verifC06Nonce)
	return &crypto.Key{}
}

// ---- reference encoding of one header entry, written from doc/design.rst ---------------------
//
//	Type_Blob(1) || Length(4, LE) || [Length_uncompressed(4, LE) if type in {2,3}] || ID(32)
//	type: 0 data, 1 tree, 2 compressed data, 3 compressed tree
func verifC06RefEntry(t restic.BlobType, id restic.ID, length, ulen uint32) []byte {
	var tb byte
	if t == restic.TreeBlob {
		tb = 1
	}
	if ulen != 0 {
		tb += 2
	}
	out := []byte{tb, byte(length), byte(length >> 8), byte(length >> 16), byte(length >> 24)}
	if ulen != 0 {
		out = append(out, byte(ulen), byte(ulen>>8), byte(ulen>>16), byte(ulen>>24))
	}
	return append(out, id[:]...)
}

func verifC06ID(name string) restic.ID {
	var id restic.ID
	copy(id[:], verifrt.BytesN(name, len(id)))
	return id
}

// VerifC06_RoundTrip: Packer.Add* + Finalize, then pack.List of the bytes written.
func VerifC06_RoundTrip() {
	k := verifC06Env()
	nmax := verifrt.Param("blobs", 3)
	dmax := verifrt.Param("datalen", 2)
	n := verifrt.Int("n", 0, nmax)

	var file bytes.Buffer
	p := NewPacker(k, &file)

	type want struct {
		t      restic.BlobType
		id     restic.ID
		data   []byte
		ulen   int
		offset uint
	}
	var ws []want
	var refHeader, refData []byte
	valid := true
	off := uint(0)
	for i := 0; i < n; i++ {
		w := want{id: verifC06ID("id"), data: verifrt.Bytes("data", dmax), ulen: int(verifrt.Int64("ulen")), offset: off}
		w.t = restic.BlobType(verifrt.Byte("type"))
		verifrt.Assume(w.t <= restic.NumBlobTypes) // 0 = InvalidBlob, 1 data, 2 tree, 3 = NumBlobTypes (invalid)
		// Add's contract: uncompressedLength is a length, stored in 32 bits
		verifrt.Assume(w.ulen >= 0 && w.ulen <= 0xffffffff)
		if w.t != restic.DataBlob && w.t != restic.TreeBlob {
			valid = false
		}
		got, err := p.Add(w.t, w.id, w.data, w.ulen)
		verifrt.Assert(err == nil, "Add to an intact writer failed")
		es := 37
		if w.ulen != 0 {
			es = 41
		}
		verifrt.Assert(got == len(w.data)+es, "Add returned a wrong size")
		off += uint(len(w.data))
		verifrt.Assert(p.Size() == off, "Packer.Size is not the sum of blob lengths")
		verifrt.Assert(p.Count() == i+1, "Packer.Count wrong")
		ws = append(ws, w)
		refData = append(refData, w.data...)
		if !valid {
			break // the packer is finalized right after the first blob of invalid type
		}
		refHeader = append(refHeader, verifC06RefEntry(w.t, w.id, uint32(len(w.data)), uint32(w.ulen))...)
	}

	err := p.Finalize()
	if !valid {
		verifrt.Reach("invalid-type")
		verifrt.Assert(err != nil, "Finalize accepted a blob of invalid type")
		verifrt.Assert(file.Len() == len(refData), "Finalize wrote a header although it failed")
		return
	}
	if err != nil {
		// a pack needs at least one entry (minFileSize); the empty packer is refused by verifyHeader
		verifrt.Reach("empty-refused")
		verifrt.Assert(n == 0, "Finalize failed for valid blobs")
		verifrt.Assert(file.Len() == 0, "Finalize wrote a header although it failed")
		return
	}

	b := file.Bytes()
	// file layout: blobs || nonce(16) || header || tag(16) || len(4)
	wantLen := len(refData) + 16 + len(refHeader) + 16 + 4
	verifrt.Assert(len(b) == wantLen, "pack file has wrong length")
	verifrt.Assert(p.Size() == uint(wantLen), "Packer.Size after Finalize != bytes written")
	verifrt.Assert(bytes.Equal(b[:len(refData)], refData), "blob area differs from the data added")
	hs := len(refData) + 16
	verifrt.Assert(bytes.Equal(b[hs:hs+len(refHeader)], refHeader), "header bytes differ from the documented encoding")
	hl := uint32(16 + len(refHeader) + 16)
	lf := b[len(b)-4:]
	verifrt.Assert(uint32(lf[0])|uint32(lf[1])<<8|uint32(lf[2])<<16|uint32(lf[3])<<24 == hl, "header length field wrong")

	entries, hdrSize, err := List(k, bytes.NewReader(b), int64(len(b)))
	verifrt.Assert(err == nil, "List failed on a freshly written pack")
	verifrt.Assert(int(hdrSize) == len(b)-len(refData), "hdrSize != bytes appended by Finalize")
	verifrt.Assert(int(hdrSize) == CalculateHeaderSize(p.Blobs()), "hdrSize != CalculateHeaderSize")
	verifrt.Assert(len(entries) == n, "List returned a wrong number of entries")
	for i := 0; i < n && i < len(entries); i++ {
		e, w := entries[i], ws[i]
		verifrt.Assert(e.Type == w.t, "entry type differs")
		verifrt.Assert(e.ID == w.id, "entry ID differs")
		verifrt.Assert(e.Length == uint(len(w.data)), "entry length differs")
		verifrt.Assert(e.UncompressedLength == uint(w.ulen), "entry uncompressed length differs")
		verifrt.Assert(e.Offset == w.offset, "entry offset is not the prefix sum")
		verifrt.Assert(e.IsCompressed() == (w.ulen != 0), "IsCompressed wrong")
	}
	if n == nmax {
		verifrt.Reach("roundtrip-max")
	}
}

// verifC06HeaderTrip: a Packer whose blob list is given directly (so that Length is a free 32-bit
// value, not the length of a concrete slice) is finalized with the real Finalize (makeHeader, Seal,
// verifyHeader, Write) and read back with the real List.
func verifC06HeaderTrip(fixed, symMax int) (refused bool, size int) {
	k := verifC06Env()
	n := fixed + verifrt.Int("nsym", 0, symMax)
	blobs := make([]Blob, n)
	var refHeader []byte
	off := uint(0)
	for i := range blobs {
		b := &blobs[i]
		b.ID = verifC06ID("id")
		b.Length = uint(verifrt.Uint32("len"))
		b.Offset = off
		off += b.Length
		if i < fixed {
			// leading entries: compressed data blobs (41 bytes each) with free lengths
			b.Type = restic.DataBlob
			b.UncompressedLength = uint(verifrt.Uint32("ulen"))
			verifrt.Assume(b.UncompressedLength != 0)
		} else {
			b.Type = restic.DataBlob
			if verifrt.Bool("tree") {
				b.Type = restic.TreeBlob
			}
			b.UncompressedLength = uint(verifrt.Uint32("ulen"))
		}
		refHeader = append(refHeader, verifC06RefEntry(b.Type, b.ID, uint32(b.Length), uint32(b.UncompressedLength))...)
	}
	want := append([]Blob(nil), blobs...)

	var file bytes.Buffer
	p := &Packer{k: k, wr: &file, blobs: blobs, bytes: off}
	err := p.Finalize()
	if n == 0 {
		verifrt.Assert(err != nil || file.Len() > 0, "Finalize wrote nothing and reported success")
		if err != nil {
			return true, 0
		}
	}
	verifrt.Assert(err == nil, "Finalize failed for valid blobs")
	b := file.Bytes()
	verifrt.Assert(len(b) == 16+len(refHeader)+16+4, "header has wrong size")
	verifrt.Assert(bytes.Equal(b[16:16+len(refHeader)], refHeader), "header bytes differ from the documented encoding")
	verifrt.Assert(p.Size() == off+uint(len(b)), "Packer.Size after Finalize wrong")

	entries, hdrSize, err := List(k, bytes.NewReader(b), int64(len(b)))
	verifrt.Assert(err == nil, "List failed on a freshly written header")
	verifrt.Assert(int(hdrSize) == len(b), "hdrSize != bytes appended by Finalize")
	verifrt.Assert(int(hdrSize) == CalculateHeaderSize(want), "hdrSize != CalculateHeaderSize")
	verifrt.Assert(len(entries) == n, "List returned a wrong number of entries")
	for i := 0; i < n && i < len(entries); i++ {
		verifrt.Assert(entries[i] == want[i], "listed entry differs from the blob written")
	}
	return false, len(b)
}

// VerifC06_HeaderRoundTrip: 0..N entries, all fields symbolic.
func VerifC06_HeaderRoundTrip() {
	refused, _ := verifC06HeaderTrip(0, verifrt.Param("blobs", 3))
	if refused {
		verifrt.Reach("empty-header-refused")
	} else {
		verifrt.Reach("listed")
	}
}

// VerifC06_HeaderRoundTripEager: headers around the eagerEntries boundary (14 compressed entries
// + 0..2 free ones: sizes 610, 647, 651 (== eagerSize), 684, 688, 692).
func VerifC06_HeaderRoundTripEager() {
	_, size := verifC06HeaderTrip(verifrt.Param("fixed", 14), verifrt.Param("free", 2))
	switch {
	case size > 15*41+36:
		verifrt.Reach("second-read") // header larger than the eager read
	case size == 15*41+36:
		verifrt.Reach("exactly-eager")
	default:
		verifrt.Reach("eager-read")
	}
}

var _ io.ReaderAt = (*bytes.Reader)(nil)

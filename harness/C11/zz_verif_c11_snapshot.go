package archiver

// C11 (part 2): the outer part of Archiver.Snapshot: the snapshot file is written only after
// WithBlobUploader (packs + index flushed) returned nil.

import (
	"context"
	"time"

	"github.com/restic/restic/internal/data"
	"github.com/restic/restic/internal/errors"
	"github.com/restic/restic/internal/fs"
	"github.com/restic/restic/internal/restic"
	"github.com/restic/restic/internal/verifrt"
)

type verifC11Repo struct {
	archiverRepo
	ev        []string
	cancel    context.CancelFunc
	cancelled bool
	faulted   bool
}

func (r *verifC11Repo) mayCancel() {
	if !r.cancelled && verifrt.Bool("cancelNow") {
		r.cancelled = true
		r.cancel()
	}
}

// model of Repository.WithBlobUploader (its real body is part 1): runs the callback, then flushes packs and
// index; either step may fail; a cancelled context makes it fail.
func (r *verifC11Repo) WithBlobUploader(ctx context.Context, fn func(ctx context.Context, uploader restic.BlobSaverWithAsync) error) error {
	r.ev = append(r.ev, "upload-begin")
	r.mayCancel()
	err := fn(ctx, nil)
	r.mayCancel()
	if err == nil && ctx.Err() != nil {
		err = ctx.Err()
	}
	if err == nil && verifrt.Bool("flushFails") {
		err = errors.New("error flushing repository")
	}
	if err != nil {
		r.faulted = true
		r.ev = append(r.ev, "upload-failed")
		return err
	}
	r.ev = append(r.ev, "upload-ok")
	return nil
}

// VerifC11_SnapshotOrder: real Archiver.Snapshot with the tree walk replaced by a stub result.
func VerifC11_SnapshotOrder() {
	parent, cancel := context.WithCancel(context.Background())
	repo := &verifC11Repo{cancel: cancel}
	root := restic.ID{0x77}
	var saved *data.Snapshot

	verifrt.Stub("time.Now", func() time.Time { return time.Time{} })
	verifrt.Stub("internal/archiver.resolveRelativeTargets", func(fs.FS, []string) ([]backupTarget, error) {
		return []backupTarget{{Path: "/t", Explicit: true}}, nil
	})
	verifrt.Stub("internal/archiver.newTree", func(fs.FS, []backupTarget) (*tree, error) { return &tree{}, nil })
	verifrt.Stub("(*internal/archiver.Archiver).runWorkers", func(*Archiver, context.Context, any, restic.BlobSaverAsync) {})
	verifrt.Stub("(*internal/archiver.Archiver).stopWorkers", func(*Archiver) {})
	verifrt.Stub("(*internal/archiver.Archiver).loadParentTree", func(*Archiver, context.Context, *data.Snapshot) data.TreeNodeIterator { return nil })
	verifrt.Stub("(*internal/archiver.Archiver).saveTree", func(_ *Archiver, ctx context.Context, _ string, _ *tree, _ data.TreeNodeIterator, _ fileCompleteFunc) (futureNode, int, error) {
		repo.ev = append(repo.ev, "tree")
		repo.mayCancel()
		switch verifrt.Int("walk", 0, 3) {
		case 1:
			repo.faulted = true
			return futureNode{}, 0, errors.New("walk failed")
		case 2:
			repo.faulted = true
			return futureNode{res: &futureNodeResult{err: errors.New("saving the root tree failed")}}, 1, nil
		case 3:
			repo.faulted = true
			return futureNode{res: &futureNodeResult{node: &data.Node{Subtree: &root}}}, 0, nil // empty snapshot
		}
		return futureNode{res: &futureNodeResult{node: &data.Node{Subtree: &root}}}, 1, nil
	})
	verifrt.Stub("internal/data.NewSnapshot", func([]string, []string, string, time.Time) (*data.Snapshot, error) {
		return &data.Snapshot{}, nil
	})
	verifrt.Stub("internal/data.SaveSnapshot", func(ctx context.Context, _ restic.SaverUnpacked[restic.WriteableFileType], sn *data.Snapshot) (restic.ID, error) {
		repo.ev = append(repo.ev, "snapshot")
		saved = sn
		if verifrt.Bool("snapshotSaveFails") {
			repo.faulted = true
			return restic.ID{}, errors.New("snapshot save failed")
		}
		return restic.ID{0x55}, nil
	})

	arch := &Archiver{Repo: repo}
	opts := SnapshotOptions{}
	skipCase := verifrt.Bool("skipIfUnchanged")
	if skipCase {
		opts.SkipIfUnchanged = true
		pt := restic.ID{0x77}
		if verifrt.Bool("parentDiffers") {
			pt = restic.ID{0x78}
		}
		opts.ParentSnapshot = &data.Snapshot{Tree: &pt}
	}
	unchanged := skipCase && *opts.ParentSnapshot.Tree == root

	sn, id, _, err := arch.Snapshot(parent, []string{"/t"}, opts)

	nsnap := 0
	for i, e := range repo.ev {
		if e == "snapshot" {
			nsnap++
			verifrt.Assert(i == len(repo.ev)-1, "something happens after the snapshot was saved")
			verifrt.Assert(i >= 1 && repo.ev[i-1] == "upload-ok", "the snapshot is saved before WithBlobUploader returned nil")
		}
	}
	verifrt.Assert(nsnap <= 1, "more than one snapshot saved")
	uploadOK := false
	for _, e := range repo.ev {
		if e == "upload-ok" {
			uploadOK = true
		}
	}
	if !uploadOK {
		verifrt.Assert(nsnap == 0 && err != nil, "upload failed or was cancelled but a snapshot was saved / success reported")
	}
	if err == nil {
		verifrt.Assert(!repo.faulted, "Snapshot reports success although a step failed")
		if unchanged {
			verifrt.Assert(nsnap == 0 && sn == nil, "unchanged snapshot must be skipped")
			verifrt.Reach("skipped-unchanged")
		} else {
			verifrt.Assert(nsnap == 1 && sn != nil && sn == saved && id == (restic.ID{0x55}), "success without exactly one saved snapshot")
			verifrt.Assert(sn.Tree != nil && *sn.Tree == root, "the snapshot does not point to the root tree that was uploaded")
			verifrt.Reach("snapshot-saved")
		}
	} else if repo.cancelled {
		verifrt.Reach("cancelled")
	} else {
		verifrt.Reach("failed")
	}
}

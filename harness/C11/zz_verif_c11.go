package repository

// C11 (part 1): the upload side of a backup. Real WithBlobUploader / saveBlob / saveAndEncrypt /
// packerManager.SaveBlob+Flush / packerUploader / savePacker / MasterIndex.StorePack, saveFullIndex, Flush,
// saveIndex against a backend whose pack saves and index saves are events with symbolic failures, and a
// context that may be cancelled at any of these points.

import (
	"bufio"
	"bytes"
	"context"
	"hash"
	"io"
	"os"

	"github.com/restic/restic/internal/backend"
	"github.com/restic/restic/internal/errors"
	"github.com/restic/restic/internal/repository/crypto"
	"github.com/restic/restic/internal/repository/index"
	"github.com/restic/restic/internal/repository/pack"
	"github.com/restic/restic/internal/restic"
	"github.com/restic/restic/internal/verifrt"
)

type verifC11Event struct {
	kind  string // "pack": backend Save of a pack file; "index": an index file is written
	id    restic.ID
	packs restic.IDs  // index: the packs the index file names
	blobs []restic.ID // pack: IDs of the blobs in the pack (from the packer handed to savePacker)
	ok    bool
}

type verifC11Env struct {
	backend.Backend
	ev      []verifC11Event
	files   map[*os.File]*bytes.Buffer
	readers map[*os.File]*bytes.Reader
	npack   int
	nidx    int
	faulted bool // some operation reported a failure
	faults  bool // pack save / Finalize / index save may fail

	mayCancel bool
	cancel    context.CancelFunc
	cancelled bool
	noticed   int // 0 undecided, 1 the backend notices a cancelled context, 2 it completes the operation anyway
}

// after the cancellation the backend either refuses further operations or still completes them (one choice per run)
func (e *verifC11Env) noticesCancel(ctx context.Context) bool {
	if ctx.Err() == nil {
		return false
	}
	if e.noticed == 0 {
		e.noticed = 2
		if verifrt.Bool("backendNoticesCancel") {
			e.noticed = 1
		}
	}
	return e.noticed == 1
}

func (e *verifC11Env) fail(name string) bool {
	if e.faults && verifrt.Bool(name) {
		e.faulted = true
		return true
	}
	return false
}

// the user (or a signal) may cancel the backup at any backend operation
func (e *verifC11Env) cancelPoint() {
	if e.mayCancel && !e.cancelled && verifrt.Bool("cancelNow") {
		e.cancelled = true
		e.cancel()
	}
}

func (e *verifC11Env) Properties() backend.Properties { return backend.Properties{Connections: 1} }
func (e *verifC11Env) Hasher() hash.Hash              { return nil }

func (e *verifC11Env) Save(ctx context.Context, h backend.Handle, rd backend.RewindReader) error {
	verifrt.Assert(h.Type == backend.PackFile, "only pack files reach the backend directly (index files are saved through Index.SaveIndex)")
	e.cancelPoint()
	id, err := restic.ParseID(h.Name)
	verifrt.Assert(err == nil, "pack file name is not an ID")
	ev := verifC11Event{kind: "pack", id: id}
	if e.noticesCancel(ctx) {
		e.faulted = true
		e.ev = append(e.ev, ev)
		return ctx.Err()
	}
	if e.fail("packSaveFails") {
		e.ev = append(e.ev, ev)
		return errors.New("pack save failed")
	}
	ev.ok = true
	e.ev = append(e.ev, ev)
	return nil
}

// Index.SaveIndex: the index file naming idx.Packs() is written (or not)
func (e *verifC11Env) saveIndex(idx *index.Index, ctx context.Context, _ restic.SaverUnpacked[restic.FileType]) (restic.ID, error) {
	e.cancelPoint()
	e.nidx++
	id := restic.ID{0x1d, byte(e.nidx)}
	_ = idx.SetID(id)
	ev := verifC11Event{kind: "index", id: id}
	for p := range idx.Packs() {
		ev.packs = append(ev.packs, p)
	}
	if e.noticesCancel(ctx) {
		e.faulted = true
		e.ev = append(e.ev, ev)
		return id, ctx.Err()
	}
	if e.fail("indexSaveFails") {
		e.ev = append(e.ev, ev)
		return id, errors.New("index save failed")
	}
	ev.ok = true
	e.ev = append(e.ev, ev)
	return id, nil
}

// packers write to memory; the temp file is a dummy whose Seek/Read/Close are redirected
func (e *verifC11Env) newPacker(r *packerManager) (*packer, error) {
	buf := &bytes.Buffer{}
	f := new(os.File)
	bw := bufio.NewWriter(buf)
	e.files[f] = buf
	return &packer{Packer: pack.NewPacker(r.key, bw), tmpfile: f, bufWr: bw}, nil
}

// sha256.New: the k-th pack gets the fresh ID {0xA0, k}
type verifC11Hash struct{ e *verifC11Env }

func (h *verifC11Hash) Write(p []byte) (int, error) { return len(p), nil }
func (h *verifC11Hash) Sum(b []byte) []byte {
	h.e.npack++
	id := restic.ID{0xa0, byte(h.e.npack)}
	return append(b, id[:]...)
}
func (h *verifC11Hash) Reset()         {}
func (h *verifC11Hash) Size() int      { return 32 }
func (h *verifC11Hash) BlockSize() int { return 64 }

func verifC11Setup() (*verifC11Env, *Repository) {
	e := &verifC11Env{files: map[*os.File]*bytes.Buffer{}, readers: map[*os.File]*bytes.Reader{}}
	verifrt.Stub("(*internal/repository.packerManager).newPacker", e.newPacker)
	verifrt.Stub("internal/repository.randomInt", func(max int) (int, error) { return 0, nil })
	verifrt.Stub("(*os.File).Seek", func(f *os.File, off int64, whence int) (int64, error) {
		verifrt.Assert(off == 0, "unexpected Seek")
		if whence == io.SeekEnd {
			return int64(e.files[f].Len()), nil
		}
		e.readers[f] = bytes.NewReader(e.files[f].Bytes())
		return 0, nil
	})
	verifrt.Stub("(*os.File).Read", func(f *os.File, b []byte) (int, error) {
		rd := e.readers[f]
		verifrt.Assert(rd != nil, "temp file read without Seek")
		return rd.Read(b)
	})
	verifrt.Stub("(*os.File).Close", func(f *os.File) error { return nil })
	verifrt.Stub("crypto/sha256.New", func() hash.Hash { return &verifC11Hash{e: e} })
	verifrt.Stub("(*internal/repository/pack.Packer).Finalize", func(p *pack.Packer) error {
		if e.fail("finalizeFails") {
			return errors.New("finalize failed")
		}
		return nil
	})
	verifrt.Stub("(*internal/repository/crypto.Key).Seal", func(_ *crypto.Key, dst, _, plaintext, _ []byte) []byte {
		dst = append(dst, plaintext...)
		return append(dst, make([]byte, 16)...)
	})
	verifrt.Stub("internal/repository/crypto.NewRandomNonce", func() []byte { return make([]byte, 16) })
	verifrt.Stub("(*internal/repository/index.Index).SaveIndex", e.saveIndex)
	// whether a preliminary index is written after a pack upload is a symbolic decision (restic: size/age)
	index.Full = func(*index.Index) bool { return verifrt.Bool("indexFull") }

	r := &Repository{be: e, key: &crypto.Key{}, idx: index.NewMasterIndex(), cfg: restic.Config{Version: 1}, packerCount: 1}
	r.opts.NoExtraVerify = true
	// small packs: every blob fills its pack and is uploaded at once; large: everything waits for the flush
	if verifrt.Bool("smallPacks") {
		r.opts.PackSize = 16
	} else {
		r.opts.PackSize = 4096
	}
	return e, r
}

// verifC11CheckTrace: conditions that only look backwards in the trace (so they hold for a crash after
// every event). Returns for each pack whether it was saved and whether a saved index names it.
func verifC11CheckTrace(e *verifC11Env) (saved restic.IDSet, indexed restic.IDSet) {
	saved, indexed = restic.NewIDSet(), restic.NewIDSet()
	for _, ev := range e.ev {
		switch ev.kind {
		case "pack":
			verifrt.Assert(!saved.Has(ev.id), "a pack is uploaded twice")
			if ev.ok {
				saved.Insert(ev.id)
			}
		case "index":
			// even a failed index save may have written the file
			for _, p := range ev.packs {
				verifrt.Assert(saved.Has(p), "an index file names a pack before that pack was saved successfully")
				if ev.ok {
					indexed.Insert(p)
				}
			}
		}
	}
	return saved, indexed
}

// VerifC11_Upload: B blobs (tree or data, distinct), pack size small or large, symbolic failure of every pack
// save, Finalize, index save and of the callback.
func VerifC11_Upload() {
	verifC11Upload(true, false)
	o := verifC11Result
	switch {
	case o.ok && o.packs >= 2:
		verifrt.Reach("ok-several-packs")
	case o.ok:
		verifrt.Reach("ok-one-pack")
	case o.fnFails && !o.faulted:
		verifrt.Reach("callback-error")
	default:
		verifrt.Reach("backend-fault")
	}
	if o.indexes >= 2 {
		verifrt.Reach("preliminary-and-final-index")
	}
}

// VerifC11_UploadCancel: same without backend failures but with a context that is cancelled at a symbolic
// backend operation / SaveBlob call (operations after the cancellation may or may not notice it).
func VerifC11_UploadCancel() {
	verifC11Upload(false, true)
	o := verifC11Result
	switch {
	case o.ok && !o.cancelled:
		verifrt.Reach("ok")
	case o.ok:
		verifrt.Reach("cancelled-too-late-to-matter")
	default:
		verifrt.Assert(o.cancelled, "upload failed although nothing failed and nobody cancelled")
		verifrt.Reach("cancelled")
	}
}

func verifC11Upload(faults, mayCancel bool) {
	e, r := verifC11Setup()
	nb := verifrt.Param("blobs", 3)
	e.faults, e.mayCancel = faults, mayCancel
	symTypes := verifrt.Param("symtypes", 1) == 1
	parent, cancel := context.WithCancel(context.Background())
	e.cancel = cancel

	var accepted []restic.BlobHandle
	fnFails := false
	fnErr := errors.New("callback failed")
	err := r.WithBlobUploader(parent, func(ctx context.Context, up restic.BlobSaverWithAsync) error {
		for i := 0; i < nb; i++ {
			t := restic.DataBlob
			if symTypes {
				if verifrt.Bool("tree") {
					t = restic.TreeBlob
				}
			} else if i%2 == 1 {
				t = restic.TreeBlob
			}
			e.cancelPoint()
			id := restic.ID{byte(i + 1)}
			_, known, _, serr := up.SaveBlob(ctx, t, []byte{byte(i)}, id, false)
			if serr != nil {
				return serr
			}
			verifrt.Assert(!known, "a new blob is reported as known")
			accepted = append(accepted, restic.BlobHandle{ID: id, Type: t})
		}
		if faults && verifrt.Bool("callbackFails") {
			fnFails = true
			return fnErr
		}
		return nil
	})

	saved, indexed := verifC11CheckTrace(e)
	// which pack holds which blob (from the real index)
	if err == nil {
		verifrt.Assert(!fnFails, "WithBlobUploader swallowed the callback's error")
		verifrt.Assert(!e.faulted, "WithBlobUploader returned nil although a pack save, Finalize or index save failed")
		verifrt.Assert(len(accepted) == nb, "WithBlobUploader returned nil before all blobs were accepted")
		for _, bh := range accepted {
			pbs := r.idx.Lookup(bh)
			verifrt.Assert(len(pbs) == 1, "a saved blob is not exactly once in the index")
			if len(pbs) == 1 {
				p := pbs[0].PackID()
				verifrt.Assert(saved.Has(p), "WithBlobUploader returned nil but a blob's pack was not saved")
				verifrt.Assert(indexed.Has(p), "WithBlobUploader returned nil but no saved index file names a blob's pack")
			}
		}
		verifrt.Assert(len(saved) <= nb && len(saved) >= 1, "unexpected number of packs")
		verifrt.Assert(r.treePM == nil && r.dataPM == nil && r.uploader == nil && r.packerWg == nil, "uploader state not reset")
	}
	verifC11Result = verifC11Outcome{ok: err == nil, packs: len(saved), cancelled: e.cancelled, fnFails: fnFails, faulted: e.faulted}
	for _, ev := range e.ev {
		if ev.kind == "index" && ev.ok {
			verifC11Result.indexes++
		}
	}
}

type verifC11Outcome struct {
	ok, cancelled, fnFails, faulted bool
	packs, indexes                  int
}

var verifC11Result verifC11Outcome

package sema

import (
	"context"
	"io"
	"sync"

	"github.com/restic/restic/internal/backend"
	"github.com/restic/restic/internal/verifrt"
)

type verifC37Inner struct {
	backend.Backend
	conns    uint
	inflight int
	frozen   bool
	// per calling thread: was the call issued while the backend was frozen?
	issuedFrozen map[string]bool
	hold         chan struct{} // non-nil: non-lock operations park here (they keep their token)
	lockOps      int
}

func (b *verifC37Inner) Properties() backend.Properties {
	return backend.Properties{Connections: b.conns}
}

func (b *verifC37Inner) op(h backend.Handle) {
	if h.Type == backend.LockFile {
		b.lockOps++
		return
	}
	b.inflight++
	verifrt.Assert(b.inflight <= int(b.conns), "more non-lock operations in flight than configured connections")
	verifrt.Assert(!(b.frozen && b.issuedFrozen[h.Name]), "an operation issued while the backend was frozen reached the backend before Unfreeze")
	if b.hold != nil {
		<-b.hold
	} else {
		verifrt.Yield()
	}
	b.inflight--
}

func (b *verifC37Inner) Save(_ context.Context, h backend.Handle, _ backend.RewindReader) error {
	b.op(h)
	return nil
}
func (b *verifC37Inner) Load(_ context.Context, h backend.Handle, _ int, _ int64, _ func(rd io.Reader) error) error {
	b.op(h)
	return nil
}
func (b *verifC37Inner) Stat(_ context.Context, h backend.Handle) (backend.FileInfo, error) {
	b.op(h)
	return backend.FileInfo{}, nil
}
func (b *verifC37Inner) Remove(_ context.Context, h backend.Handle) error {
	b.op(h)
	return nil
}

func verifC37Do(be backend.Backend, kind int, h backend.Handle) {
	ctx := context.Background()
	switch kind {
	case 0:
		_ = be.Save(ctx, h, nil)
	case 1:
		_ = be.Load(ctx, h, 0, 0, func(io.Reader) error { return nil })
	case 2:
		_, _ = be.Stat(ctx, h)
	default:
		_ = be.Remove(ctx, h)
	}
}

// verifC37Conns picks the connection count as a per-path constant (forks once).
func verifC37Conns() uint {
	n := verifrt.Int("conns", 1, 2)
	if n == 1 {
		return 1
	}
	return 2
}

var verifC37Names = []string{"t0", "t1", "t2", "t3"}

// VerifC37_Limit: T concurrent operations of arbitrary kind/type plus a Freeze/Unfreeze thread.
func VerifC37_Limit() {
	nth := verifrt.Param("threads", 3)
	conns := verifC37Conns()
	inner := &verifC37Inner{conns: conns, issuedFrozen: map[string]bool{}}
	be := NewBackend(inner)
	fr := be.(backend.FreezeBackend)
	var wg sync.WaitGroup
	kind := verifrt.Int("kind", 0, 3) // Save/Load/Stat/Remove share the gate; one symbolic kind for all callers
	for t := 0; t < nth; t++ {
		isLock := verifrt.Bool("isLock")
		ft := backend.PackFile
		if isLock {
			ft = backend.LockFile
		}
		h := backend.Handle{Type: ft, Name: verifC37Names[t]}
		wg.Add(1)
		go func() {
			defer wg.Done()
			inner.issuedFrozen[h.Name] = inner.frozen
			verifC37Do(be, kind, h)
		}()
	}
	wg.Add(1)
	go func() {
		defer wg.Done()
		fr.Freeze()
		inner.frozen = true
		verifrt.Yield()
		inner.frozen = false
		fr.Unfreeze()
	}()
	wg.Wait()
	verifrt.Assert(inner.inflight == 0, "operation count did not return to zero")
	verifrt.Reach("limit-done")
}

// VerifC37_LockNeverBlocked: with every token taken by parked operations and the backend frozen,
// a lock-file operation still completes (otherwise the engine reports a deadlock).
func VerifC37_LockNeverBlocked() {
	conns := verifC37Conns()
	inner := &verifC37Inner{conns: conns, issuedFrozen: map[string]bool{}, hold: make(chan struct{})}
	be := NewBackend(inner)
	fr := be.(backend.FreezeBackend)
	var wg sync.WaitGroup
	lockDone := make(chan struct{})
	kind := verifrt.Int("kind", 0, 3)
	for t := 0; t < int(conns)+1; t++ {
		h := backend.Handle{Type: backend.PackFile, Name: verifC37Names[t]}
		wg.Add(1)
		go func() {
			defer wg.Done()
			verifC37Do(be, kind, h)
		}()
	}
	wg.Add(1)
	go func() {
		defer wg.Done()
		fr.Freeze()
		<-lockDone
		fr.Unfreeze()
	}()
	// the lock operation runs in the main goroutine at an arbitrary point
	verifrt.Yield()
	verifC37Do(be, verifrt.Int("lockkind", 0, 3), backend.Handle{Type: backend.LockFile, Name: "lock"})
	verifrt.Assert(inner.lockOps == 1, "lock operation did not reach the backend")
	close(lockDone)
	close(inner.hold)
	wg.Wait()
	verifrt.Reach("lock-done")
}

package sema

// C37, "while frozen no new non-lock operation starts", also for operations that were issued before
// the freeze and are still waiting for a connection slot. All nondeterminism is at blocking points
// (no preemption): operations park inside the inner backend until the driver lets one finish, the
// freezer holds the backend frozen until the driver thaws it, and the driver (main goroutine) picks
// its next step whenever every other goroutine is blocked. Without preemption nothing can happen
// between an operation's pass through the freeze gate and its arrival at the inner backend, so any
// non-lock operation that arrives while the backend is frozen was let through during the freeze.

import (
	"sync"

	"github.com/restic/restic/internal/backend"
	"github.com/restic/restic/internal/verifrt"
)

type verifC37Parking struct {
	verifC37Inner
	step   chan struct{}
	parked int
	strict bool
}

func (b *verifC37Parking) enter(h backend.Handle) {
	if h.Type == backend.LockFile {
		b.lockOps++
		return
	}
	b.inflight++
	verifrt.Assert(b.inflight <= int(b.conns), "more non-lock operations in flight than configured connections")
	verifrt.Assert(!b.frozen, "a non-lock operation started on the backend while it was frozen")
	b.parked++
	<-b.step
	b.parked--
	b.inflight--
}

type verifC37ParkingBackend struct{ *verifC37Parking }

func VerifC37_FrozenNoStart() {
	nth := verifrt.Param("threads", 2)
	conns := verifC37Conns()
	p := &verifC37Parking{step: make(chan struct{})}
	p.conns = conns
	p.issuedFrozen = map[string]bool{}
	verifrt.Stub("(*internal/backend/sema.verifC37Inner).op", func(_ *verifC37Inner, h backend.Handle) { p.enter(h) })
	be := NewBackend(&p.verifC37Inner)
	fr := be.(backend.FreezeBackend)
	var wg sync.WaitGroup
	kind := verifrt.Int("kind", 0, 3)
	for t := 0; t < nth; t++ {
		h := backend.Handle{Type: backend.PackFile, Name: verifC37Names[t]}
		wg.Add(1)
		go func() {
			defer wg.Done()
			verifC37Do(be, kind, h)
		}()
	}
	thaw := make(chan struct{})
	frozenOnce := false
	wg.Add(1)
	go func() {
		defer wg.Done()
		fr.Freeze()
		p.frozen = true
		frozenOnce = true
		<-thaw
		p.frozen = false
		fr.Unfreeze()
	}()
	// driver
	thawed := false
	for i := 0; i < 2*nth+2; i++ {
		verifrt.Settle()
		canStep, canThaw := p.parked > 0, p.frozen && !thawed
		switch {
		case canStep && canThaw:
			if verifrt.Bool("thawFirst") {
				thawed = true
				close(thaw)
			} else {
				verifrt.Reach("operation-finished-while-frozen")
				p.step <- struct{}{}
			}
		case canStep:
			p.step <- struct{}{}
		case canThaw:
			thawed = true
			close(thaw)
		}
	}
	wg.Wait()
	verifrt.Assert(frozenOnce && p.inflight == 0, "not every operation completed")
	verifrt.Reach("frozen-done")
}

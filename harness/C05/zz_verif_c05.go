package crypto

import (
	"bytes"
	"crypto/cipher"

	"github.com/restic/restic/internal/verifrt"
)

// ---- environment model: the primitives as uninterpreted functions -----------------------------
//
//	AES_k(block)          = aes(k || block)                         (16 bytes)
//	CTR keystream(k, iv)  = ctr(k || iv)[0:n]                       (prefix-consistent)
//	Poly1305(key32, msg)  = poly(key32 || msg)                      (16 bytes)
//
// restic's own Seal/Open/poly1305MAC/poly1305Verify/poly1305PrepareKey/validNonce/
// sliceForAppend/Valid run for real, as do x/crypto/poly1305.Sum/Verify (thin wrappers) and
// crypto/subtle.ConstantTimeCompare.

type verifC05Block struct{ key []byte }

func (b verifC05Block) BlockSize() int { return 16 }
func (b verifC05Block) Encrypt(dst, src []byte) {
	copy(dst[:16], verifC05AES(b.key, src[:16]))
}
func (b verifC05Block) Decrypt(dst, src []byte) {
	panic("harness: AES decrypt is never used by restic")
}

func verifC05AES(key, block []byte) []byte {
	in := append(append([]byte(nil), key...), block...)
	return verifrt.UFBytes("aes", 16, in)
}

type verifC05Stream struct{ key, iv []byte }

func verifC05Keystream(key, iv []byte, n int) []byte {
	in := append(append([]byte(nil), key...), iv...)
	return verifrt.UFBytes("ctr", n, in)
}

func (s verifC05Stream) XORKeyStream(dst, src []byte) {
	ks := verifC05Keystream(s.key, s.iv, len(src))
	_ = dst[:len(src)]
	for i := range src {
		dst[i] = src[i] ^ ks[i]
	}
}

func verifC05NewCipher(key []byte) (cipher.Block, error) {
	verifrt.Assert(len(key) == 16 || len(key) == 24 || len(key) == 32, "aes.NewCipher called with an invalid key size")
	return verifC05Block{key: append([]byte(nil), key...)}, nil
}

func verifC05NewCTR(b cipher.Block, iv []byte) cipher.Stream {
	verifrt.Assert(len(iv) == 16, "cipher.NewCTR called with an IV of wrong length (would panic)")
	return verifC05Stream{key: b.(verifC05Block).key, iv: append([]byte(nil), iv...)}
}

func verifC05Poly(key *[32]byte, m []byte) []byte {
	in := append(append([]byte(nil), key[:]...), m...)
	return verifrt.UFBytes("poly", 16, in)
}

func verifC05PolySum(out *[16]byte, m []byte, key *[32]byte) {
	copy(out[:], verifC05Poly(key, m))
}

func verifC05Env() {
	verifrt.Stub("crypto/aes.NewCipher", verifC05NewCipher)
	verifrt.Stub("crypto/cipher.NewCTR", verifC05NewCTR)
	verifrt.Stub("golang.org/x/crypto/internal/poly1305.Sum", verifC05PolySum)
}

// reference MAC from the specification (doc/design.rst: Poly1305-AES, key = r || AES_k(nonce))
func verifC05RefMAC(k *Key, nonce, ct []byte) []byte {
	var pk [32]byte
	copy(pk[:16], k.MACKey.R[:])
	copy(pk[16:], verifC05AES(k.MACKey.K[:], nonce))
	return verifC05Poly(&pk, ct)
}

// verifC05Key: a key with one free byte per component at a free position class; the remaining
// bytes are the constant `fill` (0 makes all-zero components reachable).
func verifC05Key(fillNonZero bool) *Key {
	k := &Key{}
	fill := byte(0)
	if fillNonZero {
		fill = 0x5c
	}
	for i := range k.EncryptionKey {
		k.EncryptionKey[i] = fill
	}
	for i := range k.MACKey.K {
		k.MACKey.K[i] = fill
		k.MACKey.R[i] = fill
	}
	k.EncryptionKey[0] = verifrt.Byte("ek0")
	k.EncryptionKey[31] = verifrt.Byte("ek31")
	k.MACKey.K[0] = verifrt.Byte("mk0")
	k.MACKey.K[15] = verifrt.Byte("mk15")
	k.MACKey.R[0] = verifrt.Byte("mr0")
	k.MACKey.R[15] = verifrt.Byte("mr15")
	return k
}

func verifC05AllZero(b []byte) bool {
	var s byte
	for _, x := range b {
		s |= x
	}
	return s == 0
}

func verifC05KeyOK(k *Key) bool {
	return !verifC05AllZero(k.EncryptionKey[:]) && !verifC05AllZero(k.MACKey.K[:]) && !verifC05AllZero(k.MACKey.R[:])
}

// VerifC05_KeyValid: Key.Valid is exactly "no component is all-zero".
func VerifC05_KeyValid() {
	k := verifC05Key(false)
	want := verifC05KeyOK(k)
	verifrt.Assert(k.Valid() == want, "Key.Valid differs from 'every component non-zero'")
	verifrt.Assert(k.EncryptionKey.Valid() == !verifC05AllZero(k.EncryptionKey[:]), "EncryptionKey.Valid")
	verifrt.Assert(k.MACKey.Valid() == (!verifC05AllZero(k.MACKey.K[:]) && !verifC05AllZero(k.MACKey.R[:])), "MACKey.Valid")
	if want {
		verifrt.Reach("valid-key")
	} else {
		verifrt.Reach("invalid-key")
	}
}

// VerifC05_RoundTrip: Seal then Open, all dst modes; Seal refuses invalid keys and zero nonces.
func VerifC05_RoundTrip() {
	verifC05Env()
	k := verifC05Key(verifrt.Bool("fill"))
	nonce := verifrt.BytesN("nonce", 16)
	p := verifrt.Bytes("p", verifrt.Param("plain", 4))
	orig := append([]byte(nil), p...)
	nonce0 := append([]byte(nil), nonce...)

	// dst: nil, prefix without spare capacity, prefix with enough spare capacity
	var dst []byte
	pre := verifrt.Int("dstmode", 0, 2)
	switch pre {
	case 1:
		dst = []byte{0xd1, 0xd2}
	case 2:
		dst = make([]byte, 2, 2+len(p)+16)
		dst[0], dst[1] = 0xd1, 0xd2
	}

	var ct []byte
	panicked := verifrt.ExpectPanic(func() { ct = k.Seal(dst, nonce, p, nil) })
	if !verifC05KeyOK(k) || verifC05AllZero(nonce) {
		verifrt.Reach("seal-refused")
		verifrt.Assert(panicked, "Seal accepted an invalid key or an all-zero nonce")
		return
	}
	verifrt.Assert(!panicked, "Seal panicked on valid input")
	verifrt.Assert(bytes.Equal(p, orig) && bytes.Equal(nonce, nonce0), "Seal modified plaintext or nonce")
	verifrt.Assert(len(ct) == len(dst)+len(p)+Extension-ivSize, "Seal output has wrong length")
	verifrt.Assert(len(ct) == len(dst)+len(p)+k.Overhead(), "Overhead() wrong")
	verifrt.Assert(bytes.Equal(ct[:len(dst)], dst), "Seal did not preserve dst")
	body := ct[len(dst):]
	ks := verifC05Keystream(k.EncryptionKey[:], nonce, len(p))
	for i := range p {
		verifrt.Assert(body[i] == p[i]^ks[i], "ciphertext is not plaintext XOR keystream(encryption key, nonce)")
	}
	verifrt.Assert(bytes.Equal(body[len(p):], verifC05RefMAC(k, nonce, body[:len(p)])), "tag is not Poly1305-AES(r, AES_k(nonce)) over the ciphertext")
	if pre == 2 {
		verifrt.Assert(&ct[0] == &dst[0], "Seal allocated although dst had capacity")
	}

	sealed := append([]byte(nil), body...)
	var got []byte
	var err error
	switch verifrt.Int("openmode", 0, 2) {
	case 0:
		got, err = k.Open(nil, nonce, body, nil)
		verifrt.Assert(bytes.Equal(body, sealed), "Open modified the ciphertext")
	case 1:
		got, err = k.Open(body[:0], nonce, body, nil) // in place, as the repository does
	case 2:
		got, err = k.Open([]byte{0xaa}, nonce, body, nil)
		verifrt.Assert(err != nil || (len(got) == 1+len(p) && got[0] == 0xaa), "Open did not preserve dst")
		if err == nil {
			got = got[1:]
		}
	}
	verifrt.Assert(err == nil, "Open rejected what Seal produced")
	verifrt.Assert(bytes.Equal(got, orig), "Open(Seal(p)) != p")
	verifrt.Reach("roundtrip")
}

// VerifC05_OpenSpec: Open on arbitrary input is exactly: invalid key / zero nonce / short input =>
// error; otherwise accepted iff the trailing 16 bytes are the MAC of the rest, result = rest XOR keystream.
func VerifC05_OpenSpec() {
	verifC05Env()
	k := verifC05Key(verifrt.Bool("fill"))
	nonce := verifrt.BytesN("nonce", 16)
	ct := verifrt.Bytes("ct", 16+verifrt.Param("plain", 3))
	in := append([]byte(nil), ct...)

	got, err := k.Open(nil, nonce, ct, nil)

	switch {
	case !verifC05KeyOK(k):
		verifrt.Reach("open-invalid-key")
		verifrt.Assert(err != nil && got == nil, "Open accepted an invalid key")
	case verifC05AllZero(nonce):
		verifrt.Reach("open-zero-nonce")
		verifrt.Assert(err != nil && got == nil, "Open accepted an all-zero nonce")
	case len(ct) < 16:
		verifrt.Reach("open-short")
		verifrt.Assert(err != nil && got == nil, "Open accepted input shorter than the tag")
	default:
		l := len(ct) - 16
		if bytes.Equal(in[l:], verifC05RefMAC(k, nonce, in[:l])) {
			verifrt.Reach("open-authentic")
			verifrt.Assert(err == nil, "Open rejected an authentic ciphertext")
			verifrt.Assert(len(got) == l, "plaintext has wrong length")
			ks := verifC05Keystream(k.EncryptionKey[:], nonce, l)
			for i := 0; i < l && i < len(got); i++ {
				verifrt.Assert(got[i] == in[i]^ks[i], "plaintext is not ciphertext XOR keystream")
			}
		} else {
			verifrt.Reach("open-forged")
			verifrt.Assert(err == ErrUnauthenticated, "Open did not report ErrUnauthenticated for a wrong tag")
			verifrt.Assert(got == nil, "Open returned data for a forged ciphertext")
		}
	}
}

// VerifC05_Tamper: any single-bit change of nonce, ciphertext or tag, and any key swap, is rejected
// (for nonce/ciphertext/key: provided the MAC of the changed message differs from the old tag).
func VerifC05_Tamper() {
	verifC05Env()
	k := verifC05Key(true)
	verifrt.Assume(verifC05KeyOK(k))
	nonce := verifrt.BytesN("nonce", 16)
	verifrt.Assume(!verifC05AllZero(nonce))
	p := verifrt.Bytes("p", verifrt.Param("plain", 3))
	ct := k.Seal(nil, nonce, p, nil)
	l := len(p)
	oldTag := append([]byte(nil), ct[l:]...)

	// message as stored: nonce || ciphertext || tag
	msg := append(append([]byte(nil), nonce...), ct...)
	k2 := k
	what := verifrt.Int("what", 0, 1)
	if what == 0 {
		pos := verifrt.Int("pos", 0, len(msg)-1)
		bit := verifrt.Int("bit", 0, 7)
		msg[pos] ^= byte(1) << uint(bit)
		if pos >= 16+l {
			verifrt.Reach("tag-flipped") // unconditional: the MAC function is deterministic
		} else {
			verifrt.Reach("nonce-or-ciphertext-flipped")
			verifrt.Assume(!verifC05AllZero(msg[:16])) // a zero nonce is rejected anyway (OpenSpec)
			verifrt.Assume(!bytes.Equal(verifC05RefMAC(k, msg[:16], msg[16:16+l]), oldTag))
		}
	} else {
		verifrt.Reach("key-swapped")
		k2 = verifC05Key(true)
		verifrt.Assume(verifC05KeyOK(k2))
		verifrt.Assume(k2.MACKey != k.MACKey)
		verifrt.Assume(!bytes.Equal(verifC05RefMAC(k2, nonce, ct[:l]), oldTag))
	}
	got, err := k2.Open(nil, msg[:16], msg[16:], nil)
	verifrt.Assert(err == ErrUnauthenticated, "a modified message or a different key was not rejected")
	verifrt.Assert(got == nil, "Open returned data for a modified message")
}

// VerifC05_Misuse: wrong nonce length and additional data are refused loudly.
func VerifC05_Misuse() {
	verifC05Env()
	k := verifC05Key(true)
	verifrt.Assume(verifC05KeyOK(k))
	nl := verifrt.Int("noncelen", 0, 17)
	verifrt.Assume(nl <= 1 || nl >= 15)
	nonce := make([]byte, nl)
	for i := range nonce {
		nonce[i] = verifrt.Byte("n") | 1
	}
	ad := verifrt.Bytes("ad", 1)
	p := verifrt.Bytes("p", 1)
	sealPanics := verifrt.ExpectPanic(func() { k.Seal(nil, nonce, p, ad) })
	verifrt.Assert(sealPanics == (nl != 16 || len(ad) > 0), "Seal must panic exactly for a wrong nonce length or additional data")
	ct := verifrt.BytesN("ct", 17)
	openPanics := verifrt.ExpectPanic(func() { _, _ = k.Open(nil, nonce, ct, nil) })
	verifrt.Assert(openPanics == (nl != 16), "Open must panic exactly for a wrong nonce length")
	if nl == 16 {
		verifrt.Reach("good-nonce-length")
	} else {
		verifrt.Reach("bad-nonce-length")
	}
	verifrt.Assert(k.NonceSize() == 16 && k.Overhead() == 16 && Extension == 32, "sizes")
	verifrt.Assert(CiphertextLength(len(p)) == len(p)+32 && PlaintextLength(CiphertextLength(len(p))) == len(p), "CiphertextLength/PlaintextLength")
}

package crypto

import (
	"github.com/restic/restic/internal/errors"
	"github.com/restic/restic/internal/verifrt"
)

type verifC05Scrypt struct {
	calls           int
	salt, password  []byte
	n, r, p, keyLen int
	fail            bool
	outLen          int
	out             []byte
}

// VerifC05_KDF: salt length and parameter validation happen before scrypt is invoked; the derived
// bytes are split as encryption key (32) || MAC k (16) || MAC r (16).
func VerifC05_KDF() {
	st := &verifC05Scrypt{fail: verifrt.Bool("scryptFails"), outLen: 64}
	if verifrt.Bool("scryptShort") {
		st.outLen = 63
	}
	verifrt.Stub("golang.org/x/crypto/scrypt.Key", func(password, salt []byte, N, r, p, keyLen int) ([]byte, error) {
		st.calls++
		st.salt, st.password = append([]byte(nil), salt...), append([]byte(nil), password...)
		st.n, st.r, st.p, st.keyLen = N, r, p, keyLen
		if st.fail {
			return nil, errors.New("scrypt failed")
		}
		in := append(append([]byte(nil), password...), salt...)
		st.out = verifrt.UFBytes("scrypt", st.outLen, in)
		return st.out, nil
	})

	sl := verifrt.Int("saltlen", 0, 65)
	verifrt.Assume(sl <= 1 || sl >= 63)
	salt := make([]byte, sl)
	for i := 0; i < sl && i < 3; i++ {
		salt[i] = verifrt.Byte("salt")
	}
	password := verifrt.String("password", 2)
	params := Params{N: 32768, R: 8, P: 1}
	badParams := verifrt.Bool("badParams")
	if badParams {
		switch verifrt.Int("which", 0, 3) {
		case 0:
			params.N = 3 // not a power of two
		case 1:
			params.N = 0
		case 2:
			params.R = 0
		case 3:
			params.P = -1
		}
	}

	k, err := KDF(params, salt, password)

	switch {
	case sl != 64:
		verifrt.Reach("kdf-bad-salt")
		verifrt.Assert(err != nil && k == nil, "KDF accepted a salt of wrong length")
		verifrt.Assert(st.calls == 0, "scrypt was run with a salt of wrong length")
	case badParams:
		verifrt.Reach("kdf-bad-params")
		verifrt.Assert(err != nil && k == nil, "KDF accepted invalid scrypt parameters")
		verifrt.Assert(st.calls == 0, "scrypt was run with invalid parameters")
	case st.fail || st.outLen != 64:
		verifrt.Reach("kdf-scrypt-error")
		verifrt.Assert(err != nil && k == nil, "KDF ignored a scrypt failure or a short result")
	default:
		verifrt.Reach("kdf-ok")
		verifrt.Assert(err == nil && k != nil, "KDF failed on valid input")
		verifrt.Assert(st.calls == 1, "scrypt must run exactly once")
		verifrt.Assert(st.keyLen == 64 && st.n == params.N && st.r == params.R && st.p == params.P, "scrypt called with other parameters than given")
		verifrt.Assert(string(st.password) == password && len(st.salt) == 64, "scrypt called with another password/salt")
		for i := 0; i < 3; i++ {
			verifrt.Assert(st.salt[i] == salt[i], "scrypt called with another salt")
		}
		for i := 0; i < 32; i++ {
			verifrt.Assert(k.EncryptionKey[i] == st.out[i], "encryption key is not the first 32 derived bytes")
		}
		for i := 0; i < 16; i++ {
			verifrt.Assert(k.MACKey.K[i] == st.out[32+i], "MAC k is not derived bytes 32..47")
			verifrt.Assert(k.MACKey.R[i] == st.out[48+i], "MAC r is not derived bytes 48..63")
		}
	}
}

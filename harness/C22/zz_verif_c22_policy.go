package data

import (
	"time"

	"github.com/restic/restic/internal/restic"
	"github.com/restic/restic/internal/verifrt"
)

// Instants (unix seconds, UTC) for the policy harnesses. Every instant before 2000 is in the past
// for every value of time.Now (engine: 2000..2100, native replay: today), every instant after 2100
// is in the future; "future" snapshots are therefore selected by the choice of the instant.
// Order: most important first (the tier parameter "instants" takes a prefix).
var verifC22PolicyInstants = [...]int64{
	914799600,  // 0: 1998-12-27 23:00:00 Sun 1998-W52
	914803200,  // 1: 1998-12-28 00:00:00 Mon 1998-W53  (new day and week, same month; exactly 1h after 0)
	914806200,  // 2: 1998-12-28 00:50:00 Mon           (same hour as 1)
	915148799,  // 3: 1998-12-31 23:59:59 Thu 1998-W53
	915148800,  // 4: 1999-01-01 00:00:00 Fri 1998-W53  (new month and year, same ISO week as 3; exactly 4d after 1)
	4273257600, // 5: 2105-06-01 00:00:00               (future)
	914821200,  // 6: 1998-12-28 05:00:00 Mon           (same day as 1, other hour; exactly 5h after 1)
	917827200,  // 7: 1999-02-01 00:00:00 Mon 1999-W05  (same year as 4, other month; exactly 1m after 4)
	915408000,  // 8: 1999-01-04 00:00:00 Mon 1999-W01  (same month as 4, other week; exactly 7d after 1)
	915364800,  // 9: 1999-01-03 12:00:00 Sun 1998-W53
	4273259400, // 10: 2105-06-01 00:30:00              (future, same hour as 5)
	883353600,  // 11: 1997-12-29 00:00:00 Mon 1998-W01 (ISO year differs from calendar year)
}

// verifC22Durations: the tier parameter "durations" takes a prefix.
var verifC22Durations = [...]Duration{
	{Hours: 1},
	{Days: 4},
	{Months: 1},
	{Years: 1},
	{Hours: 5},
	{Days: 7},
	{Years: 1, Months: 1, Days: 1, Hours: 1},
}

// verifC22DurOrder: indices of verifC22Durations in ascending order of length.
var verifC22DurOrder = [...]int{0, 4, 1, 5, 2, 3, 6}

// verifC22Conc concretises a bounded symbolic int: make() with a symbolic length forks once per
// feasible value, afterwards the length is a constant on each path.
func verifC22Conc(name string, lo, hi int) int {
	return lo + len(make([]struct{}, verifrt.Int(name, lo, hi)-lo))
}

// verifC22Snapshots returns 0..nmax snapshots whose instants are an arbitrary multiset of the first
// tmax table entries, listed in table order rotated left by 0..rots-1 positions.
func verifC22Snapshots(nmax, tmax, rots int) []*Snapshot {
	n := verifC22Conc("n", 0, nmax)
	out := make([]*Snapshot, n)
	prev := 0
	for i := 0; i < n; i++ {
		k := verifC22Conc("t", prev, tmax-1)
		prev = k
		id := restic.ID{byte(i + 1)}
		out[i] = &Snapshot{Time: time.Unix(verifC22PolicyInstants[k], 0).UTC(), id: &id, Hostname: "h"}
	}
	if n > 1 && rots > 1 {
		if rots > n {
			rots = n
		}
		r := verifC22Conc("rot", 0, rots-1)
		rot := make([]*Snapshot, 0, n)
		rot = append(rot, out[r:]...)
		rot = append(rot, out[:r]...)
		out = rot
	}
	return out
}

// ---- reference model, written from doc/060_forget.rst ----

func verifC22FloorDiv(a, b int64) int64 {
	q := a / b
	if a%b < 0 {
		q--
	}
	return q
}

// verifC22Same: do two (UTC) instants lie in the same period? kind 0: every snapshot is its own
// period (keep-last); 1 hour, 2 day, 3 week (Monday 00:00 .. Sunday 23:59), 4 month, 5 year.
func verifC22Same(kind int, a, b time.Time) bool {
	ua, ub := a.Unix(), b.Unix()
	switch kind {
	case 1:
		return verifC22FloorDiv(ua, 3600) == verifC22FloorDiv(ub, 3600)
	case 2:
		return verifC22FloorDiv(ua, 86400) == verifC22FloorDiv(ub, 86400)
	case 3:
		// 1970-01-01 was a Thursday: day number + 3 counts from a Monday
		return verifC22FloorDiv(verifC22FloorDiv(ua, 86400)+3, 7) == verifC22FloorDiv(verifC22FloorDiv(ub, 86400)+3, 7)
	case 4:
		return a.Year() == b.Year() && a.Month() == b.Month()
	case 5:
		return a.Year() == b.Year()
	}
	return false
}

// verifC22Order: positions of sns, newest first; equal instants stay in listing order.
func verifC22Order(sns []*Snapshot) []int {
	idx := make([]int, 0, len(sns))
	for i := range sns {
		pos := len(idx)
		for pos > 0 && sns[idx[pos-1]].Time.Before(sns[i].Time) {
			pos--
		}
		idx = append(idx, 0)
		copy(idx[pos+1:], idx[pos:])
		idx[pos] = i
	}
	return idx
}

// verifC22Head: is ts[i] the newest snapshot of its period (ts newest first)?
func verifC22Head(kind int, ts []time.Time, i int) bool {
	for j := 0; j < i; j++ {
		if verifC22Same(kind, ts[j], ts[i]) {
			return false
		}
	}
	return true
}

// verifC22RefCount: "--keep-<period> c": for the last c periods which have one or more snapshots keep
// the most recent one of each; unlimited (-1) keeps one per period; the oldest snapshot is kept
// additionally while a count remains. left[i] = remaining count after snapshot i.
func verifC22RefCount(kind int, ts []time.Time, c int, keep []bool, left []int) {
	heads := 0
	for i := range ts {
		if c != 0 {
			if verifC22Head(kind, ts, i) {
				heads++
				if c == -1 || heads <= c {
					keep[i] = true
				}
			} else if i == len(ts)-1 && (c == -1 || heads < c) {
				heads++ // the additional oldest snapshot uses up one count
				keep[i] = true
			}
		}
		switch {
		case c == -1:
			left[i] = -1
		case heads >= c:
			left[i] = 0
		default:
			left[i] = c - heads
		}
	}
}

// verifC22InWindow: snapshots with a timestamp within d of the latest non-future snapshot
// (future snapshots are ignored when determining the latest one, and are never removed).
func verifC22InWindow(ts []time.Time, d Duration, now time.Time) []bool {
	in := make([]bool, len(ts))
	have := false
	var latest time.Time
	for _, t := range ts {
		if t.Before(now) && (!have || t.After(latest)) {
			latest, have = t, true
		}
	}
	for i, t := range ts {
		if !have {
			in[i] = true // all snapshots are in the future
			continue
		}
		limit := latest.AddDate(-d.Years, -d.Months, -d.Days).Add(-time.Duration(d.Hours) * time.Hour)
		in[i] = t.After(limit)
	}
	return in
}

// verifC22RefWithin: rule 0 = keep-within (all snapshots in the window), 1..5 = keep-within-hourly..
// yearly (the newest snapshot of each period in the window, plus the oldest snapshot of the list if
// it lies in the window).
func verifC22RefWithin(rule int, ts []time.Time, d Duration, now time.Time, keep []bool) {
	if d.Zero() {
		return
	}
	in := verifC22InWindow(ts, d, now)
	for i := range ts {
		if !in[i] {
			continue
		}
		if rule == 0 || verifC22Head(rule, ts, i) || i == len(ts)-1 {
			keep[i] = true
		}
	}
}

func verifC22Counts(p ExpirePolicy) [6]int {
	return [6]int{p.Last, p.Hourly, p.Daily, p.Weekly, p.Monthly, p.Yearly}
}

func verifC22SetCount(p *ExpirePolicy, kind, c int) {
	switch kind {
	case 0:
		p.Last = c
	case 1:
		p.Hourly = c
	case 2:
		p.Daily = c
	case 3:
		p.Weekly = c
	case 4:
		p.Monthly = c
	case 5:
		p.Yearly = c
	}
}

func verifC22SetWithin(p *ExpirePolicy, rule int, d Duration) {
	switch rule {
	case 0:
		p.Within = d
	case 1:
		p.WithinHourly = d
	case 2:
		p.WithinDaily = d
	case 3:
		p.WithinWeekly = d
	case 4:
		p.WithinMonthly = d
	case 5:
		p.WithinYearly = d
	}
}

func verifC22Index(l []*Snapshot, sn *Snapshot) int {
	for i, x := range l {
		if x == sn {
			return i
		}
	}
	return -1
}

// verifC22Check runs the real ApplyPolicy on a copy of sns and compares it with the reference.
// tagKeep[i] (may be nil): snapshot sns[i] is kept by the tag rule.
func verifC22Check(sns []*Snapshot, p ExpirePolicy, tagKeep []bool) {
	n := len(sns)
	list := make(Snapshots, n)
	copy(list, sns)

	keep, remove, reasons := ApplyPolicy(list, p)
	// an instant between the past and the future table entries; ApplyPolicy's own clock reading is
	// (engine) any instant in 2000..2100 or (natively) today: all agree on which snapshots are future
	now := time.Unix(1600000000, 0)

	order := verifC22Order(sns)
	ts := make([]time.Time, n)
	for i, o := range order {
		ts[i] = sns[o].Time
	}
	want := make([]bool, n)
	var left [6][]int
	for kind, c := range verifC22Counts(p) {
		left[kind] = make([]int, n)
		verifC22RefCount(kind, ts, c, want, left[kind])
	}
	for rule, d := range [6]Duration{p.Within, p.WithinHourly, p.WithinDaily, p.WithinWeekly, p.WithinMonthly, p.WithinYearly} {
		verifC22RefWithin(rule, ts, d, now, want)
	}
	for i, o := range order {
		if tagKeep != nil && tagKeep[o] {
			want[i] = true
		}
	}

	// partition
	verifrt.Assert(len(keep)+len(remove) == n, "keep and remove together do not have as many entries as the input")
	for _, sn := range sns {
		k, r := verifC22Index(keep, sn), verifC22Index(remove, sn)
		verifrt.Assert((k >= 0) != (r >= 0), "a snapshot is in both or in neither of keep and remove")
	}
	// agreement with the documented policy
	nk := 0
	for i, o := range order {
		k := verifC22Index(keep, sns[o])
		if want[i] {
			verifrt.Assert(k >= 0, "a snapshot that the policy keeps was removed")
			verifrt.Assert(k == nk, "keep is not ordered newest first")
			nk++
		} else {
			verifrt.Assert(k < 0, "a snapshot that the policy does not keep was kept")
		}
	}
	// reasons
	verifrt.Assert(len(reasons) == len(keep), "reasons and keep differ in length")
	pos := 0
	for i, o := range order {
		if !want[i] || pos >= len(reasons) || pos >= len(keep) {
			continue
		}
		r := reasons[pos]
		verifrt.Assert(r.Snapshot == sns[o] && keep[pos] == sns[o], "reason is attached to another snapshot")
		verifrt.Assert(len(r.Matches) > 0, "kept snapshot without a reason")
		got := [6]int{r.Counters.Last, r.Counters.Hourly, r.Counters.Daily, r.Counters.Weekly, r.Counters.Monthly, r.Counters.Yearly}
		for kind := range got {
			verifrt.Assert(got[kind] == left[kind][i], "remaining counter in the keep reason is wrong")
		}
		pos++
	}
	if len(keep) > 0 {
		verifrt.Reach("kept")
	}
	if len(remove) > 0 {
		verifrt.Reach("removed")
	}
}

// VerifC22_OneCount: one of keep-last/hourly/daily/weekly/monthly/yearly with a symbolic count.
func VerifC22_OneCount() {
	sns := verifC22Snapshots(verifrt.Param("snapshots", 3), verifrt.Param("instants", 8), verifrt.Param("rotations", 1))
	var p ExpirePolicy
	kind := verifC22Conc("kind", 0, 5)
	verifC22SetCount(&p, kind, verifrt.Int("count", -1, verifrt.Param("maxcount", 2)))
	verifC22Check(sns, p, nil)
}

// VerifC22_TwoCounts: two different count rules together (results are ORed, counters are independent).
func VerifC22_TwoCounts() {
	sns := verifC22Snapshots(verifrt.Param("snapshots", 2), verifrt.Param("instants", 6), verifrt.Param("rotations", 1))
	var p ExpirePolicy
	k1 := verifC22Conc("kind", 0, verifrt.Param("firstkinds", 5)-1)
	k2 := verifC22Conc("kind", k1+1, 5)
	verifC22SetCount(&p, k1, verifrt.Int("count", -1, verifrt.Param("maxcount", 2)))
	verifC22SetCount(&p, k2, verifrt.Int("count", -1, verifrt.Param("maxcount", 2)))
	verifC22Check(sns, p, nil)
}

// VerifC22_AllCounts: all six counts symbolic at once on up to two snapshots.
func VerifC22_AllCounts() {
	sns := verifC22Snapshots(verifrt.Param("snapshots", 2), verifrt.Param("instants", 3), 1)
	var p ExpirePolicy
	for kind := 0; kind < 6; kind++ {
		verifC22SetCount(&p, kind, verifrt.Int("count", verifrt.Param("mincount", 0), verifrt.Param("maxcount", 1)))
	}
	verifC22Check(sns, p, nil)
}

// VerifC22_Within: one of keep-within / keep-within-hourly..yearly with a duration from the table,
// optionally together with keep-last c.
func VerifC22_Within() {
	sns := verifC22Snapshots(verifrt.Param("snapshots", 3), verifrt.Param("instants", 8), verifrt.Param("rotations", 1))
	var p ExpirePolicy
	rule := verifC22Conc("rule", 0, 5)
	d := verifC22Durations[verifC22Conc("duration", 0, verifrt.Param("durations", 4)-1)]
	verifC22SetWithin(&p, rule, d)
	if verifrt.Param("withlast", 0) != 0 {
		p.Last = verifrt.Int("count", 0, 1)
	}
	verifC22Check(sns, p, nil)
}

func verifC22Rank(c int) int {
	if c == -1 {
		return 1 << 30
	}
	return c
}

// VerifC22_Monotone: raising one count (unlimited being the largest) or one duration never removes
// a snapshot that was kept before.
func VerifC22_Monotone() {
	sns := verifC22Snapshots(verifrt.Param("snapshots", 3), verifrt.Param("instants", 6), 1)
	var p, q ExpirePolicy
	// a fixed background rule so that the raised rule is not the only one
	bg := verifC22Conc("bgkind", 0, verifrt.Param("bgkinds", 1)-1)
	verifC22SetCount(&p, bg, 1)
	verifC22SetCount(&q, bg, 1)
	if verifrt.Bool("raiseDuration") {
		rule := verifC22Conc("rule", 0, 5)
		nd := verifrt.Param("durations", 3)
		d1 := verifC22Conc("duration", 0, nd-2)
		d2 := verifC22Conc("duration", d1+1, nd-1)
		verifC22SetWithin(&p, rule, verifC22Durations[verifC22DurOrder[d1]])
		verifC22SetWithin(&q, rule, verifC22Durations[verifC22DurOrder[d2]])
		verifrt.Reach("duration-raised")
	} else {
		kind := verifC22Conc("kind", 0, 5)
		verifrt.Assume(kind != bg)
		c1 := verifrt.Int("count", -1, verifrt.Param("maxcount", 2))
		c2 := verifrt.Int("count", -1, verifrt.Param("maxcount", 2))
		verifrt.Assume(verifC22Rank(c1) < verifC22Rank(c2))
		verifC22SetCount(&p, kind, c1)
		verifC22SetCount(&q, kind, c2)
		verifrt.Reach("count-raised")
	}
	l1 := make(Snapshots, len(sns))
	copy(l1, sns)
	l2 := make(Snapshots, len(sns))
	copy(l2, sns)
	keep1, _, _ := ApplyPolicy(l1, p)
	keep2, _, _ := ApplyPolicy(l2, q)
	for _, sn := range keep1 {
		verifrt.Assert(verifC22Index(keep2, sn) >= 0, "raising a count or duration removed a snapshot that was kept before")
	}
}

func verifC22Tag(name string) string {
	// "", "a" or "b": tags are only compared for equality and tested for emptiness
	c := verifrt.Int(name, 0, 2)
	switch c {
	case 1:
		return "a"
	case 2:
		return "b"
	}
	return ""
}

func verifC22Has(l []string, s string) bool {
	for _, x := range l {
		if x == s {
			return true
		}
	}
	return false
}

// verifC22RefTagList: the snapshot has all tags of the list; the list [""] matches untagged snapshots only.
func verifC22RefTagList(snTags []string, l TagList) bool {
	if len(l) == 1 && l[0] == "" {
		return len(snTags) == 0
	}
	for _, t := range l {
		if !verifC22Has(snTags, t) {
			return false
		}
	}
	return true
}

// VerifC22_Tags: keep-tag keeps exactly the snapshots that match at least one tag list, ORed with
// keep-last c; adding a tag list never removes a kept snapshot.
func VerifC22_Tags() {
	nmax := verifrt.Param("snapshots", 2)
	n := verifC22Conc("n", 0, nmax)
	sns := make([]*Snapshot, n)
	for i := range sns {
		id := restic.ID{byte(i + 1)}
		// distinct instants in listing order (oldest first)
		sns[i] = &Snapshot{Time: time.Unix(verifC22PolicyInstants[i], 0).UTC(), id: &id}
		nt := 0
		if i < verifrt.Param("tagged", 1) {
			nt = verifC22Conc("ntags", 0, verifrt.Param("tags", 2))
		}
		for j := 0; j < nt; j++ {
			t := verifC22Tag("tag")
			verifrt.Assume(t != "") // snapshots do not carry empty tags
			sns[i].Tags = append(sns[i].Tags, t)
		}
	}
	var p ExpirePolicy
	nl := verifC22Conc("nlists", 0, verifrt.Param("lists", 2))
	for i := 0; i < nl; i++ {
		ll := verifC22Conc("listlen", 1, verifrt.Param("listlen", 2))
		var l TagList
		for j := 0; j < ll; j++ {
			t := verifC22Tag("ltag")
			if ll > 1 {
				verifrt.Assume(t != "") // '' is documented only as a list of its own
			}
			l = append(l, t)
		}
		p.Tags = append(p.Tags, l)
	}
	p.Last = verifrt.Int("count", 0, 1)

	tagKeep := make([]bool, n)
	for i, sn := range sns {
		for _, l := range p.Tags {
			if verifC22RefTagList(sn.Tags, l) {
				tagKeep[i] = true
			}
		}
	}
	verifC22Check(sns, p, tagKeep)

	if nl > 0 {
		// the same policy without its last tag list keeps a subset
		q := p
		q.Tags = p.Tags[:nl-1]
		l1 := make(Snapshots, n)
		copy(l1, sns)
		l2 := make(Snapshots, n)
		copy(l2, sns)
		keepQ, _, _ := ApplyPolicy(l1, q)
		keepP, _, _ := ApplyPolicy(l2, p)
		for _, sn := range keepQ {
			verifrt.Assert(verifC22Index(keepP, sn) >= 0, "adding a tag list removed a snapshot that was kept before")
		}
		verifrt.Reach("tag-list-added")
	}
}

package data

import (
	"time"

	"github.com/restic/restic/internal/verifrt"
)

// verifC22BucketPair: the bucket numbers of two instants are equal iff the instants lie in the same
// hour / day / ISO week / month / year, and are ordered like the instants.
func verifC22BucketPair(a, b time.Time) {
	ay, am, ad := a.Date()
	by, bm, bd := b.Date()
	awy, aw := a.ISOWeek()
	bwy, bw := b.ISOWeek()
	fns := [5]func(time.Time, int) int{ymdh, ymd, yw, ym, y}
	msgs := [5]string{"ymdh does not identify the hour", "ymd does not identify the day", "yw does not identify the ISO week",
		"ym does not identify the month", "y does not identify the year"}
	// calendar fields as reported by package time
	same := [5]bool{
		ay == by && am == bm && ad == bd && a.Hour() == b.Hour(),
		ay == by && am == bm && ad == bd,
		awy == bwy && aw == bw,
		ay == by && am == bm,
		ay == by,
	}
	for i, f := range fns {
		va, vb := f(a, 0), f(b, 1)
		verifrt.Assert((va == vb) == same[i], msgs[i])
		// independent of package time for hour/day/week: arithmetic on unix seconds
		verifrt.Assert((va == vb) == verifC22Same(i+1, a, b), msgs[i])
		if a.Before(b) {
			verifrt.Assert(va <= vb, "bucket numbers are not ordered like the instants")
		}
	}
	verifrt.Assert(always(a, 0) != always(b, 1), "always must give every snapshot its own bucket")
}

// VerifC22_Buckets: all pairs of the table instants.
func VerifC22_Buckets() {
	n := verifrt.Param("instants", len(verifC22PolicyInstants))
	a := time.Unix(verifC22PolicyInstants[verifC22Conc("a", 0, n-1)], 0).UTC()
	b := time.Unix(verifC22PolicyInstants[verifC22Conc("b", 0, n-1)], 0).UTC()
	verifC22BucketPair(a, b)
	verifrt.Reach("buckets")
}

var verifC22Deltas = [...]int64{1, 3600, 86400, 7 * 86400, 31 * 86400, 365 * 86400, 366 * 86400, 3599, 6 * 86400, 28 * 86400}

// VerifC22_BucketsGrid: a = first and last second of the first/last hour of each day of a window
// around a year boundary with 53 ISO weeks, or around a leap day; b = a + a typical period length.
func VerifC22_BucketsGrid() {
	starts := [...]int64{
		1608768000,           // 2020-12-24 00:00:00 (2020 has 53 ISO weeks)
		1582502400,           // 2020-02-24 00:00:00 (leap day)
		4102444800 - 5*86400, // 2099-12-27 (2100 is not a leap year)
	}
	s := starts[verifC22Conc("start", 0, verifrt.Param("starts", 1)-1)]
	d := verifC22Conc("day", 0, verifrt.Param("days", 13)-1)
	h := [...]int64{0, 23}[verifC22Conc("hour", 0, 1)]
	off := [...]int64{0, 3599}[verifC22Conc("second", 0, 1)]
	a := s + int64(d)*86400 + h*3600 + off
	delta := verifC22Deltas[verifC22Conc("delta", 0, verifrt.Param("deltas", 7)-1)]
	verifC22BucketPair(time.Unix(a, 0).UTC(), time.Unix(a+delta, 0).UTC())
	verifrt.Reach("grid")
}

// Package verifself: engine self-tests (translator validation on ordinary Go code).
package verifself

import (
	"bytes"
	"context"
	"encoding/binary"
	"errors"
	"fmt"
	"sort"
	"strconv"
	"strings"
	"sync"

	"golang.org/x/sync/errgroup"

	rerrors "github.com/restic/restic/internal/errors"
	"github.com/restic/restic/internal/verifrt"
)

var errSentinel = errors.New("sentinel")

type myErr struct{ code int }

func (e *myErr) Error() string { return "myErr " + strconv.Itoa(e.code) }

func SelfBasics() {
	// maps, closures, defer/recover
	m := map[string]int{}
	x := verifrt.Int("x", 0, 5)
	m["a"] = x
	m["b"] = x + 1
	sum := 0
	for _, v := range m {
		sum += v
	}
	verifrt.Assert(sum == 2*x+1, "map sum")
	delete(m, "a")
	_, ok := m["a"]
	verifrt.Assert(!ok && len(m) == 1, "map delete")

	r := func() (res int) {
		defer func() {
			if rec := recover(); rec != nil {
				res = 42
			}
		}()
		var arr []int
		_ = arr[x] // panics: index out of range
		return 1
	}()
	verifrt.Assert(r == 42, "recover")

	// strings.Builder, bytes.Buffer, strconv
	var sb strings.Builder
	sb.WriteString("n=")
	sb.WriteString(strconv.Itoa(x))
	s := sb.String()
	verifrt.Assert(len(s) == 3 && s[2] == byte('0'+x), "builder/itoa")
	n, err := strconv.Atoi(s[2:])
	verifrt.Assert(err == nil && n == x, "atoi")
	var buf bytes.Buffer
	buf.WriteByte(byte(x))
	buf.Write([]byte{1, 2})
	verifrt.Assert(buf.Len() == 3 && buf.Bytes()[0] == byte(x), "bytes.Buffer")
	rd := bytes.NewReader(buf.Bytes())
	p := make([]byte, 2)
	k, _ := rd.Read(p)
	verifrt.Assert(k == 2 && p[1] == 1, "bytes.Reader")

	// binary
	b4 := make([]byte, 4)
	u := verifrt.Uint32("u")
	binary.LittleEndian.PutUint32(b4, u)
	verifrt.Assert(binary.LittleEndian.Uint32(b4) == u, "binary round trip")
	verifrt.Assert(binary.BigEndian.Uint32(b4) == (u>>24|(u>>8)&0xff00|(u<<8)&0xff0000|u<<24), "bswap")

	// sort
	xs := []int{verifrt.Int("s0", 0, 3), verifrt.Int("s1", 0, 3), verifrt.Int("s2", 0, 3)}
	sort.Slice(xs, func(i, j int) bool { return xs[i] < xs[j] })
	verifrt.Assert(xs[0] <= xs[1] && xs[1] <= xs[2], "sort.Slice")
	ys := []int{verifrt.Int("t0", 0, 3), verifrt.Int("t1", 0, 3), verifrt.Int("t2", 0, 3)}
	sort.Ints(ys)
	verifrt.Assert(ys[0] <= ys[1] && ys[1] <= ys[2], "sort.Ints")

	// errors
	e1 := fmt.Errorf("wrap: %w", errSentinel)
	verifrt.Assert(errors.Is(e1, errSentinel), "errors.Is through %w")
	e2 := rerrors.Wrap(&myErr{x}, "ctx")
	var me *myErr
	verifrt.Assert(errors.As(e2, &me) && me.code == x, "errors.As through pkg/errors")
	verifrt.Assert(!errors.Is(e2, errSentinel), "errors.Is negative")
	e3 := rerrors.Fatalf("bad %d", x)
	verifrt.Assert(rerrors.IsFatal(e3), "fatal")
	verifrt.Reach("basics-done")
}

func SelfThreads() {
	// mutex-protected counter, waitgroup, channels, select, errgroup, context
	var mu sync.Mutex
	var wg sync.WaitGroup
	cnt := 0
	for i := 0; i < 2; i++ {
		wg.Add(1)
		go func() {
			defer wg.Done()
			mu.Lock()
			cnt++
			mu.Unlock()
		}()
	}
	wg.Wait()
	verifrt.Assert(cnt == 2, "counter")

	ch := make(chan int)
	done := make(chan struct{})
	go func() {
		for v := range ch {
			cnt += v
		}
		close(done)
	}()
	ch <- 3
	ch <- 4
	close(ch)
	<-done
	verifrt.Assert(cnt == 9, "channel sum")

	ctx, cancel := context.WithCancel(context.Background())
	g, gctx := errgroup.WithContext(ctx)
	res := make(chan int, 2)
	g.Go(func() error { res <- 1; return nil })
	g.Go(func() error {
		select {
		case <-gctx.Done():
			return gctx.Err()
		case res <- 2:
			return nil
		}
	})
	err := g.Wait()
	verifrt.Assert(err == nil, "errgroup ok")
	verifrt.Assert(len(res) == 2, "both sent")
	cancel()
	verifrt.Assert(ctx.Err() == context.Canceled, "ctx cancelled")
	verifrt.Reach("threads-done")
}

// SelfRace: unprotected check-then-act must be found as a violation by schedule exploration.
func SelfRace() {
	var wg sync.WaitGroup
	var mu sync.Mutex
	have := false
	stored := 0
	for i := 0; i < 2; i++ {
		wg.Add(1)
		go func() {
			defer wg.Done()
			mu.Lock()
			h := have
			mu.Unlock()
			if !h {
				mu.Lock()
				have = true
				stored++
				mu.Unlock()
			}
		}()
	}
	wg.Wait()
	verifrt.Assert(stored == 1, "stored twice (expected to be violated)")
}

package repository

import (
	"bytes"
	"context"
	"errors"
	"io"
	"os"

	"github.com/restic/chunker"

	"github.com/restic/restic/internal/backend"
	"github.com/restic/restic/internal/restic"
	"github.com/restic/restic/internal/verifrt"
)

// ---- backend stub: one config slot, every operation is an event with a symbolic outcome ----

// content of the config slot
const (
	verifC31Absent  = iota
	verifC31Old     // the version-1 config
	verifC31New     // the version-2 config
	verifC31Partial // truncated / garbage
)

const (
	verifC31Load = iota
	verifC31Remove
	verifC31Save
)

type verifC31Ev struct {
	op      int
	ok      bool
	content int // Save: what was uploaded
}

// verifC31State is the externally visible state at one possible crash point.
type verifC31State struct {
	slot int
	// a Remove(config) call has been issued and no Save(config) has completed successfully since
	window bool
}

var (
	verifC31OldRaw = []byte("OLD-CONFIG")
	verifC31NewRaw = []byte("NEW-CONFIG")
	verifC31Err    = errors.New("verifC31 backend error")
)

type verifC31Be struct {
	backend.Backend
	atomic  bool
	trace   []verifC31Ev
	st      verifC31State
	states  []verifC31State // every state a crash can leave behind, in order (incl. in-flight states of non-atomic Saves)
	foreign bool            // a file other than the config was touched
}

func (b *verifC31Be) Properties() backend.Properties {
	return backend.Properties{Connections: 2, HasAtomicReplace: b.atomic}
}

func (b *verifC31Be) snap() { b.states = append(b.states, b.st) }

func (b *verifC31Be) Load(_ context.Context, h backend.Handle, _ int, _ int64, fn func(rd io.Reader) error) error {
	if h.Type != backend.ConfigFile {
		b.foreign = true
	}
	if verifrt.Bool("load-fails") {
		b.trace = append(b.trace, verifC31Ev{op: verifC31Load})
		return verifC31Err
	}
	b.trace = append(b.trace, verifC31Ev{op: verifC31Load, ok: true})
	switch b.st.slot {
	case verifC31Old:
		return fn(bytes.NewReader(verifC31OldRaw))
	case verifC31New:
		return fn(bytes.NewReader(verifC31NewRaw))
	}
	return verifC31Err
}

func (b *verifC31Be) Remove(_ context.Context, h backend.Handle) error {
	if h.Type != backend.ConfigFile {
		b.foreign = true
	}
	ok := !verifrt.Bool("remove-fails")
	b.trace = append(b.trace, verifC31Ev{op: verifC31Remove, ok: ok})
	b.st.window = true
	// a Remove that reports an error may nevertheless have deleted the file
	if ok || verifrt.Bool("failed-remove-landed") {
		b.st.slot = verifC31Absent
	}
	b.snap()
	if !ok {
		return verifC31Err
	}
	return nil
}

func (b *verifC31Be) Save(_ context.Context, h backend.Handle, rd backend.RewindReader) error {
	if h.Type != backend.ConfigFile {
		b.foreign = true
	}
	buf, err := io.ReadAll(rd)
	verifrt.Assert(err == nil, "harness: reading the upload")
	content := verifC31Partial
	switch {
	case bytes.Equal(buf, verifC31OldRaw):
		content = verifC31Old
	case bytes.Equal(buf, verifC31NewRaw):
		content = verifC31New
	}
	verifrt.Assert(content != verifC31Partial, "something that is neither the old nor the new config was uploaded")
	ok := !verifrt.Bool("save-fails")
	b.trace = append(b.trace, verifC31Ev{op: verifC31Save, ok: ok, content: content})
	if !b.atomic {
		// in flight: a backend without atomic replace exposes the partially written file
		b.st.slot = verifC31Partial
		b.snap()
	}
	switch {
	case ok:
		b.st.slot = content
		b.st.window = false
	case b.atomic:
		// failed: nothing happened, or the new file is in place although an error was reported
		if verifrt.Bool("failed-save-landed") {
			b.st.slot = content
		}
	default:
		// failed on a non-atomic backend: partial file left, nothing left, or complete although an error was reported
		left := [3]int{verifC31Partial, verifC31Absent, content}
		b.st.slot = left[verifrt.Int("failed-save-left", 0, 2)]
	}
	b.snap()
	if !ok {
		return verifC31Err
	}
	return nil
}

// ---- replaced functions ----

type verifC31Local struct {
	mkdirFails, writeFails bool
	events                 int
}

var verifC31L *verifC31Local

// restic.SaveConfig = JSON encoding + encryption + Save(config): here the Save(config) with a recognisable body
func verifC31SaveConfig(ctx context.Context, r restic.SaverUnpacked[restic.FileType], cfg restic.Config) error {
	ir, isInternal := r.(*internalRepository)
	verifrt.Assert(isInternal, "SaveConfig on an unexpected repository wrapper")
	verifrt.Assert(cfg.Version == 2, "new config does not have version 2")
	verifrt.Assert(cfg.ID == "repo-id" && cfg.ChunkerPolynomial == chunker.Pol(0x3DA3358B4DC173), "upgrade changed the repository ID or the chunker polynomial")
	return ir.be.Save(ctx, backend.Handle{Type: backend.ConfigFile}, backend.NewByteReader(verifC31NewRaw, nil))
}

func verifC31MkdirTemp(_, _ string) (string, error) {
	if verifC31L.mkdirFails {
		return "", verifC31Err
	}
	return "/tmp/verif-c31", nil
}

func verifC31WriteFile(name string, data []byte, _ os.FileMode) error {
	verifrt.Assert(name == "/tmp/verif-c31/config" && bytes.Equal(data, verifC31OldRaw), "backup copy is not the raw old config")
	if verifC31L.writeFails {
		return verifC31Err
	}
	return nil
}

func verifC31OsRemove(_ string) error { return nil }

func verifC31Run(atomic bool) {
	verifC31L = &verifC31Local{mkdirFails: verifrt.Bool("mkdirtemp-fails"), writeFails: verifrt.Bool("writefile-fails")}
	verifrt.Stub("internal/restic.SaveConfig", verifC31SaveConfig)
	verifrt.Stub("os.MkdirTemp", verifC31MkdirTemp)
	verifrt.Stub("os.WriteFile", verifC31WriteFile)
	verifrt.Stub("os.Remove", verifC31OsRemove)

	be := &verifC31Be{atomic: atomic}
	be.st.slot = verifC31Old
	be.snap()
	version := uint(verifrt.Int("version", 0, 3))
	repo := &Repository{be: be, cfg: restic.Config{Version: version, ID: "repo-id", ChunkerPolynomial: chunker.Pol(0x3DA3358B4DC173)}}

	err := UpgradeRepo(context.Background(), repo)

	verifrt.Assert(!be.foreign, "upgrade touched a file other than the config")
	mutations := 0
	newSaveFailed, reuploadTried, reuploadFailed, upgradeStepFailed := false, false, false, false
	for _, ev := range be.trace {
		if ev.op != verifC31Load {
			mutations++
		}
		if ev.op == verifC31Save && ev.content == verifC31New && !ev.ok {
			newSaveFailed = true
		}
		if ev.op == verifC31Save && ev.content == verifC31Old {
			reuploadTried = true
			reuploadFailed = !ev.ok
		}
	}
	// upgradeRepository failed: its Remove or its Save(new) reported an error
	for _, ev := range be.trace {
		if ev.op == verifC31Save && ev.content == verifC31Old {
			break
		}
		if ev.op != verifC31Load && !ev.ok {
			upgradeStepFailed = true
		}
	}
	if version != 1 {
		verifrt.Assert(err != nil && len(be.trace) == 0, "only version 1 may be upgraded, and nothing may be touched otherwise")
		verifrt.Reach("wrong-version")
		return
	}
	if verifC31L.mkdirFails || verifC31L.writeFails || (len(be.trace) > 0 && !be.trace[0].ok) {
		verifrt.Assert(err != nil && mutations == 0, "no local backup of the config => the repository must not be touched")
		verifrt.Reach("no-backup")
		return
	}

	// crash at any point (k < last) or completed run (k == last): the config slot holds the old or the new config
	last := len(be.states) - 1
	k := verifrt.Int("crash", 0, last)
	st := be.states[k]
	lost := st.slot != verifC31Old && st.slot != verifC31New
	// Known finding (inherent to backends without atomic replace, DESIGN.md section 7), exactly:
	//  (a) crash after a Remove(config) call was issued and before a Save(config) completed successfully;
	//  (b) run completed, upgradeRepository failed and the re-upload of the old config was tried and failed too.
	verifrt.Known("C31-nonatomic-config-window", !atomic && lost &&
		((k < last && st.window) || (k == last && upgradeStepFailed && reuploadTried && reuploadFailed)))
	verifrt.Assert(!lost, "config lost: the config slot holds neither the old nor the new config")
	_ = newSaveFailed

	if err == nil {
		verifrt.Assert(be.st.slot == verifC31New, "upgrade reported success but the new config is not in place")
		verifrt.Reach("upgraded")
	} else {
		var ue *upgradeRepoV2Error
		verifrt.Assert(errors.As(err, &ue), "unexpected error type")
		verifrt.Assert(ue.BackupFilePath == "/tmp/verif-c31/config", "error does not name the backup copy")
		verifrt.Assert((ue.ReuploadOldConfigError != nil) == reuploadFailed, "error does not tell whether the re-upload worked")
		verifrt.Assert(reuploadTried, "upgrade failed without trying to restore the old config")
		verifrt.Reach("upgrade-failed")
	}
}

// VerifC31_Atomic: UpgradeRepo on a backend with atomic replace.
func VerifC31_Atomic() { verifC31Run(true) }

// VerifC31_NonAtomic: UpgradeRepo on a backend without atomic replace.
func VerifC31_NonAtomic() { verifC31Run(false) }

package restorer

import (
	"bytes"
	"context"
	"io"
	"os"
	"time"

	"github.com/restic/restic/internal/data"
	"github.com/restic/restic/internal/errors"
	"github.com/restic/restic/internal/restic"
	"github.com/restic/restic/internal/verifrt"
)

// ---- environment model: one file on disk, seen through fs.OpenFile / (*os.File).{Stat,ReadAt,Close}

type verifC21FileInfo struct {
	size    int64
	regular bool
	mtime   time.Time
}

func (fi verifC21FileInfo) Name() string { return "f" }
func (fi verifC21FileInfo) Size() int64  { return fi.size }
func (fi verifC21FileInfo) Mode() os.FileMode {
	if fi.regular {
		return 0600
	}
	return os.ModeNamedPipe | 0600
}
func (fi verifC21FileInfo) ModTime() time.Time { return fi.mtime }
func (fi verifC21FileInfo) IsDir() bool        { return false }
func (fi verifC21FileInfo) Sys() any           { return nil }

type verifC21Read struct{ off, n int64 }

type verifC21Env struct {
	path    string
	content []byte // the bytes on disk
	regular bool
	mtime   time.Time
	handle  *os.File

	opens, closes int
	envFailed     bool // an environment call returned an error (open/stat/read I/O error)
	reads         []verifC21Read
	wrongPath     bool
}

var verifC21ErrIO = errors.New("verif: injected I/O error")

func (e *verifC21Env) install() {
	verifrt.Stub("internal/fs.OpenFile", func(name string, flag int, _ os.FileMode) (*os.File, error) {
		if name != e.path {
			e.wrongPath = true
		}
		verifrt.Assert(flag&(os.O_WRONLY|os.O_RDWR|os.O_CREATE|os.O_TRUNC|os.O_APPEND) == 0, "verification opened the file for writing")
		if verifrt.Bool("openFails") {
			e.envFailed = true
			return nil, &os.PathError{Op: "open", Path: name, Err: verifC21ErrIO}
		}
		e.opens++
		return e.handle, nil
	})
	verifrt.Stub("(*os.File).Stat", func(f *os.File) (os.FileInfo, error) {
		verifrt.Assert(f == e.handle, "Stat on a foreign handle")
		if verifrt.Bool("statFails") {
			e.envFailed = true
			return nil, verifC21ErrIO
		}
		return verifC21FileInfo{size: int64(len(e.content)), regular: e.regular, mtime: e.mtime}, nil
	})
	// pread(2) semantics as exposed by os.File.ReadAt: fills b from off, io.EOF iff fewer than len(b) bytes were available
	verifrt.Stub("(*os.File).ReadAt", func(f *os.File, b []byte, off int64) (int, error) {
		verifrt.Assert(f == e.handle, "ReadAt on a foreign handle")
		verifrt.Assert(off >= 0, "ReadAt with a negative offset")
		e.reads = append(e.reads, verifC21Read{off, int64(len(b))})
		if verifrt.Bool("readFails") {
			e.envFailed = true
			return 0, verifC21ErrIO
		}
		n := 0
		for n < len(b) && off+int64(n) < int64(len(e.content)) {
			b[n] = e.content[off+int64(n)]
			n++
		}
		if n < len(b) {
			return n, io.EOF
		}
		return n, nil
	})
	verifrt.Stub("(*os.File).Close", func(f *os.File) error {
		e.closes++
		return nil
	})
}

type verifC21Repo struct {
	restic.Repository
	ids   []restic.ID
	sizes []uint
}

func (r *verifC21Repo) LookupBlobSize(h restic.BlobHandle) (uint, bool) {
	if h.Type != restic.DataBlob {
		return 0, false
	}
	for i := range r.ids {
		if r.ids[i] == h.ID {
			return r.sizes[i], true
		}
	}
	return 0, false
}

// verifC21Snapshot builds a well-formed file node: n blobs of minLen..bmax symbolic bytes, ID = Hash(bytes),
// node.Size = sum of the blob lengths. Returns the node, the blobs and the whole content.
func verifC21Snapshot(repo *verifC21Repo) (*data.Node, [][]byte, []byte) {
	nmax := verifrt.Param("blobs", 3)
	bmax := verifrt.Param("bloblen", 2)
	bmin := verifrt.Param("minbloblen", 0)
	n := verifrt.Int("nblobs", 0, nmax)
	var blobs [][]byte
	var whole []byte
	content := make(restic.IDs, n)
	for i := 0; i < n; i++ {
		b := verifrt.Bytes("blob", bmax)
		verifrt.Assume(len(b) >= bmin)
		l := len(b)
		id := restic.Hash(b)
		content[i] = id
		repo.ids = append(repo.ids, id)
		repo.sizes = append(repo.sizes, uint(l))
		blobs = append(blobs, b)
		whole = append(whole, b...)
	}
	// Two blobs of one file with the same ID have the same length (an ID names one plaintext).
	for i := 0; i < n; i++ {
		for j := 0; j < i; j++ {
			if len(blobs[i]) != len(blobs[j]) {
				verifrt.Assume(content[i] != content[j])
			}
		}
	}
	node := &data.Node{Name: "f", Type: data.NodeTypeFile, Content: content, Size: uint64(len(whole)),
		ModTime: time.Unix(1700000000, 0)}
	return node, blobs, whole
}

func verifC21Equal(a, b []byte) bool { return bytes.Equal(a, b) }

// VerifC21_VerifyFileFailFast: verifyFile(failFast) returns nil iff the file on disk is a regular file with the
// snapshot's size and bytes (and no I/O error happened); its reads are contiguous from 0 and cover the file.
func VerifC21_VerifyFileFailFast() {
	repo := &verifC21Repo{}
	node, blobs, whole := verifC21Snapshot(repo)

	extra := verifrt.Param("extra", 1)
	env := &verifC21Env{path: "/t/f", handle: &os.File{}, mtime: time.Unix(1700000000, 0)}
	env.content = verifrt.Bytes("disk", len(whole)+extra)
	env.regular = verifrt.Bool("regular")
	env.install()

	// SHA-256 is modelled as an uninterpreted function of the bytes. Collision-freeness is assumed exactly
	// between the argument pairs that verification compares: the disk range of blob i and blob i itself.
	off := 0
	for i := range blobs {
		if off+len(blobs[i]) <= len(env.content) {
			rng := env.content[off : off+len(blobs[i])]
			if restic.Hash(rng) == node.Content[i] {
				verifrt.Assume(verifC21Equal(rng, blobs[i]))
			}
		}
		off += len(blobs[i])
	}

	var buf []byte
	if verifrt.Bool("reuseBuf") {
		buf = make([]byte, 1, 1)
	}
	res := &Restorer{repo: repo}
	_, _, err := res.verifyFile(context.Background(), env.path, node, true, false, buf)

	same := env.regular && verifC21Equal(env.content, whole)
	verifrt.Assert(!env.wrongPath, "verification opened another path")
	if err == nil {
		verifrt.Reach("verified")
		verifrt.Assert(!env.envFailed, "verification succeeded although an I/O call failed")
		verifrt.Assert(env.regular, "verification accepted a non-regular file")
		verifrt.Assert(len(env.content) == len(whole), "verification accepted a file of the wrong size")
		verifrt.Assert(same, "verification accepted a file with different content")
		// reads are contiguous from offset 0 and cover the file
		pos := int64(0)
		for _, r := range env.reads {
			verifrt.Assert(r.off == pos, "reads are not contiguous from offset 0")
			pos += r.n
		}
		verifrt.Assert(pos == int64(len(env.content)), "reads do not cover the whole file")
		verifrt.Assert(len(env.reads) == len(blobs), "not exactly one read per blob")
	} else {
		verifrt.Reach("rejected")
		verifrt.Assert(env.envFailed || !same, "verification rejected an identical file without any I/O error")
	}
	verifrt.Assert(env.opens == env.closes, "file handle leaked")
}

// VerifC21_SingleChange: start from the exact snapshot content and apply one change (flip one byte to a different
// value, truncate, or extend): verification must fail. Without a change it must succeed.
func VerifC21_SingleChange() {
	repo := &verifC21Repo{}
	node, blobs, whole := verifC21Snapshot(repo)

	env := &verifC21Env{path: "/t/f", handle: &os.File{}, regular: true, mtime: time.Unix(1700000000, 0)}
	kind := verifrt.Int("change", 0, 3) // 0 none, 1 flip, 2 truncate, 3 extend
	disk := append([]byte(nil), whole...)
	switch kind {
	case 1:
		verifrt.Assume(len(whole) > 0)
		pos := verifrt.Int("pos", 0, len(whole)-1)
		nb := verifrt.Byte("newbyte")
		verifrt.Assume(nb != disk[pos])
		disk[pos] = nb
	case 2:
		verifrt.Assume(len(whole) > 0)
		nl := verifrt.Int("newlen", 0, len(whole)-1)
		disk = disk[:nl]
	case 3:
		disk = append(disk, verifrt.Byte("tail"))
	}
	env.content = disk
	env.install()
	verifrt.Stub("(*os.File).ReadAt", func(f *os.File, b []byte, off int64) (int, error) {
		n := 0
		for n < len(b) && off+int64(n) < int64(len(env.content)) {
			b[n] = env.content[off+int64(n)]
			n++
		}
		if n < len(b) {
			return n, io.EOF
		}
		return n, nil
	})

	// collision-freeness between each compared pair (disk range of blob i, blob i)
	off := 0
	for i := range blobs {
		if off+len(blobs[i]) <= len(disk) {
			rng := disk[off : off+len(blobs[i])]
			if restic.Hash(rng) == node.Content[i] {
				verifrt.Assume(verifC21Equal(rng, blobs[i]))
			}
		}
		off += len(blobs[i])
	}

	res := &Restorer{repo: repo}
	_, _, err := res.verifyFile(context.Background(), env.path, node, true, false, nil)
	if env.envFailed {
		verifrt.Assert(err != nil, "I/O error swallowed")
		return
	}
	if kind == 0 {
		verifrt.Reach("unchanged-accepted")
		verifrt.Assert(err == nil, "an unchanged file was rejected")
	} else {
		verifrt.Reach("changed-rejected")
		verifrt.Assert(err != nil, "a changed file was accepted")
	}
}

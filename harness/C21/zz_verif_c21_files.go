package restorer

// C21 (the --verify pass as a whole): the real Restorer.VerifyFiles -- tree traversal, selection of the
// files this restore wrote (fileList), the worker pool, the real verifyFile, error sanitising and the
// returned count -- with every restore option that could influence it symbolic. The snapshot is
// {f (file), d/{g (file)}, s (symlink)}; only /f may have been restored with content. The file on disk
// has exactly the snapshot's size and mtime and either the snapshot's content or one changed byte.

import (
	"context"
	"os"
	"time"

	"github.com/restic/restic/internal/data"
	"github.com/restic/restic/internal/restic"
	"github.com/restic/restic/internal/verifrt"
)

type verifC21Counter struct{ n, max uint64 }

func (c *verifC21Counter) Add(v uint64)          { c.n += v }
func (c *verifC21Counter) SetMax(m uint64)       { c.max = m }
func (c *verifC21Counter) Get() (uint64, uint64) { return c.n, c.max }
func (c *verifC21Counter) Done()                 {}

func VerifC21_VerifyFiles() {
	repo := &verifC21Repo{}
	node, blobs, whole := verifC21Snapshot(repo)
	verifrt.Assume(len(whole) > 0)

	env := &verifC21Env{path: "/t/f", handle: &os.File{}, regular: true, mtime: node.ModTime}
	disk := append([]byte(nil), whole...)
	changedByte := verifrt.Bool("changed")
	if changedByte {
		pos := verifrt.Int("pos", 0, len(whole)-1)
		nb := verifrt.Byte("newbyte")
		verifrt.Assume(nb != disk[pos])
		disk[pos] = nb
	}
	env.content = disk
	env.install()
	// no injected I/O errors here (VerifC21_VerifyFileFailFast covers them)
	verifrt.Stub("internal/fs.OpenFile", func(name string, flag int, _ os.FileMode) (*os.File, error) {
		if name != env.path {
			env.wrongPath = true
		}
		env.opens++
		return env.handle, nil
	})
	verifrt.Stub("(*os.File).Stat", func(f *os.File) (os.FileInfo, error) {
		return verifC21FileInfo{size: int64(len(env.content)), regular: true, mtime: env.mtime}, nil
	})
	verifrt.Stub("(*os.File).ReadAt", func(f *os.File, b []byte, off int64) (int, error) {
		n := 0
		for n < len(b) && off+int64(n) < int64(len(env.content)) {
			b[n] = env.content[off+int64(n)]
			n++
		}
		return n, nil
	})
	off := 0
	for i := range blobs {
		rng := disk[off : off+len(blobs[i])]
		if restic.Hash(rng) == node.Content[i] {
			verifrt.Assume(verifC21Equal(rng, blobs[i]))
		}
		off += len(blobs[i])
	}

	trees := &verifC20Repo{}
	trees.install()
	sub := trees.put([]*data.Node{{Name: "g", Type: data.NodeTypeFile, Size: 1, ModTime: time.Unix(1700000000, 0)}})
	root := trees.put([]*data.Node{
		{Name: "d", Type: data.NodeTypeDir, Subtree: &sub},
		node,
		{Name: "s", Type: data.NodeTypeSymlink, LinkTarget: "f"},
	})

	res := &Restorer{repo: repo, sn: &data.Snapshot{Tree: &root}, fileList: map[string]bool{}}
	res.opts.Overwrite = OverwriteBehavior(verifrt.Int("overwrite", 0, 3))
	res.opts.Sparse = verifrt.Bool("sparse")
	res.opts.Delete = verifrt.Bool("delete")
	res.SelectFilter = func(string, bool) (bool, bool) { return true, true }
	var reported []string
	res.Error = func(location string, err error) error {
		reported = append(reported, location)
		return err
	}
	// what RestoreTo recorded: /f restored with content, metadata only, or not at all; /d/g at most
	// metadata only; the symlink and the directory are never in the list with content
	fState := verifrt.Int("fState", 0, 2)
	switch fState {
	case 1:
		res.fileList["/f"] = true
	case 2:
		res.fileList["/f"] = false
	}
	if verifrt.Bool("gMetadataOnly") {
		res.fileList["/d/g"] = true
	}

	cnt := &verifC21Counter{}
	n, err := res.VerifyFiles(context.Background(), "/t", 1, cnt)

	verifrt.Assert(!env.wrongPath, "the verify pass opened a file that this restore did not write")
	if fState != 2 {
		verifrt.Reach("file-not-restored")
		verifrt.Assert(env.opens == 0, "a file that was not restored with content was verified")
		verifrt.Assert(err == nil && n == 0, "the verify pass reports something although nothing was to verify")
		return
	}
	verifrt.Assert(env.opens == 1, "the restored file was not verified exactly once")
	if changedByte {
		verifrt.Reach("changed-file")
		verifrt.Assert(err != nil, "restore --verify accepts a restored file whose content differs from the snapshot")
		verifrt.Assert(n == 0, "a differing file is counted as verified")
		verifrt.Assert(len(reported) == 1 && reported[0] == "/t/f", "the differing file is not the one reported")
	} else {
		verifrt.Reach("identical-file")
		verifrt.Assert(err == nil, "restore --verify reports a file that is identical to the snapshot")
		// `return int(nchecked), g.Wait()`: the Go spec leaves the order of the variable read and the
		// call open; go/ssa reads first (n == 0), the gc compiler reads after Wait (n == 1). The
		// progress counter is updated at the same place as nchecked and is checked instead.
		verifrt.Assert(cnt.n == 1 && n <= 1, "the verified file is not counted")
		verifrt.Assert(len(reported) == 0, "an error was reported for an identical file")
	}
}

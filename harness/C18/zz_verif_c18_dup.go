package restorer

import (
	"context"
	iofs "io/fs"
	"os"

	"github.com/restic/restic/internal/data"
	"github.com/restic/restic/internal/restic"
	"github.com/restic/restic/internal/verifrt"
)

// VerifC18_DuplicateNames: a (crafted) tree may list the same name more than once, in any order and
// with any node types. Two nodes must never be restored onto the same path: the second one would be
// applied on top of the first (e.g. metadata of a file written through a symlink that the first node
// just created, which points outside the target). Duplicates are reported and skipped, and they
// switch --delete off; trees without duplicates are visited completely and without errors.
func VerifC18_DuplicateNames() {
	os.ErrNotExist, os.ErrExist, os.ErrPermission = iofs.ErrNotExist, iofs.ErrExist, iofs.ErrPermission
	nmax := verifrt.Param("dupnodes", 3)
	n := verifC18Pick("n", 2, nmax)
	rootID, emptyID := restic.ID{1}, restic.ID{9}
	names := []string{"a", "b", "c"}
	var root []*data.Node
	for i := 0; i < n; i++ {
		node := &data.Node{Name: names[verifC18Pick("name", 0, 2)]}
		switch verifC18Pick("type", 0, 2) {
		case 0:
			node.Type = data.NodeTypeFile
		case 1:
			node.Type = data.NodeTypeSymlink
			node.LinkTarget = "/outside"
		default:
			node.Type = data.NodeTypeDir
			node.Subtree = &emptyID
		}
		root = append(root, node)
	}
	rec := &verifC18Rec{}
	rec.trees = []verifC18Tree{{rootID, root}, {emptyID, nil}}
	rec.installLoadTree()
	res := NewRestorer(nil, &data.Snapshot{Tree: &rootID}, Options{Delete: true})
	res.Error = func(_ string, _ error) error {
		rec.errors++
		return nil
	}
	err := res.traverseTree(context.Background(), "/t", rootID, rec.visitor())
	verifrt.Assert(err == nil, "traverseTree failed although errors are only reported")

	dups := 0
	for i := range root {
		for j := 0; j < i; j++ {
			if root[j].Name == root[i].Name {
				dups++
				break
			}
		}
	}
	// no path is handed to the restore visitors for two different nodes
	for i, v := range rec.visits {
		if v.node == nil || v.kind == "leave" {
			continue
		}
		for j := 0; j < i; j++ {
			w := rec.visits[j]
			if w.node == nil || w.kind == "leave" {
				continue
			}
			verifrt.Assert(!(w.target == v.target && w.node != v.node), "two different nodes are restored onto the same path")
		}
	}
	if dups > 0 {
		verifrt.Reach("duplicates")
		verifrt.Assert(rec.errors >= dups, "a duplicate node name was not reported")
		verifrt.Assert(!res.opts.Delete, "a duplicate node name did not disable --delete")
	} else {
		verifrt.Reach("no-duplicates")
		verifrt.Assert(rec.errors == 0 && res.opts.Delete, "a tree without duplicate names was not accepted")
		for _, nd := range root {
			seen := false
			for _, v := range rec.visits {
				if v.node == nd {
					seen = true
				}
			}
			verifrt.Assert(seen, "a node of a well-formed tree was skipped")
		}
	}
}

package restorer

import (
	"context"
	"io"
	iofs "io/fs"
	"os"
	"path/filepath"
	"strings"
	"syscall"
	"time"

	"github.com/restic/restic/internal/data"
	"github.com/restic/restic/internal/fs"
	"github.com/restic/restic/internal/restic"
	"github.com/restic/restic/internal/verifrt"
)

// ---- lexical part ------------------------------------------------------------------------------------

// a name that denotes exactly one directory entry: non-empty, not "." or "..", no separator
func verifC18ValidName(s string) bool {
	if s == "" || s == "." || s == ".." {
		return false
	}
	for i := 0; i < len(s); i++ {
		if s[i] == '/' {
			return false
		}
	}
	return true
}

type verifC18Visit struct {
	kind     string // enter, visit, leave
	node     *data.Node
	target   string
	location string
	entries  []string
}

type verifC18Tree struct {
	id    restic.ID
	nodes []*data.Node
}

type verifC18Rec struct {
	trees  []verifC18Tree
	visits []verifC18Visit
	errors int
}

func (r *verifC18Rec) installLoadTree() {
	verifrt.Stub("internal/data.LoadTree", func(_ context.Context, _ restic.BlobLoader, id restic.ID) (data.TreeNodeIterator, error) {
		for _, t := range r.trees {
			if t.id == id {
				nodes := t.nodes
				return func(yield func(data.NodeOrError) bool) {
					for _, n := range nodes {
						if !yield(data.NodeOrError{Node: n}) {
							return
						}
					}
				}, nil
			}
		}
		verifrt.Assert(false, "unknown tree requested")
		return nil, nil
	})
}

func (r *verifC18Rec) visitor() treeVisitor {
	return treeVisitor{
		enterDir: func(n *data.Node, target, location string) error {
			r.visits = append(r.visits, verifC18Visit{kind: "enter", node: n, target: target, location: location})
			return nil
		},
		visitNode: func(n *data.Node, target, location string) error {
			r.visits = append(r.visits, verifC18Visit{kind: "visit", node: n, target: target, location: location})
			return nil
		},
		leaveDir: func(n *data.Node, target, location string, entries []string) error {
			r.visits = append(r.visits, verifC18Visit{kind: "leave", node: n, target: target, location: location, entries: entries})
			return nil
		},
	}
}

// VerifC18_TraverseNames: a tree whose node names are arbitrary byte strings: every (target, location) handed to a
// visitor is target/location of the parent plus "/" plus the node's own name, and that name is a single valid
// component; nodes with any other name are reported, never visited, and switch --delete off.
func VerifC18_TraverseNames() {
	os.ErrNotExist, os.ErrExist, os.ErrPermission = iofs.ErrNotExist, iofs.ErrExist, iofs.ErrPermission
	maxlen := verifrt.Param("namelen", 3)
	maxlen2 := verifrt.Param("namelen2", 2) // bound for the second root node and for the child
	nroot := verifrt.Param("rootnodes", 2)
	rec := &verifC18Rec{}
	rootID, subID := restic.ID{1}, restic.ID{2}

	// root: up to nroot nodes; the first may be a directory holding one child with an arbitrary name
	var root []*data.Node
	n := verifC18Pick("nnodes", 1, nroot)
	var dirNode, child *data.Node
	for i := 0; i < n; i++ {
		l := maxlen
		if i > 0 {
			l = maxlen2
		}
		node := &data.Node{Name: verifrt.String("name", l), Type: data.NodeTypeFile}
		if i == 0 && verifrt.Bool("firstIsDir") {
			node.Type = data.NodeTypeDir
			node.Subtree = &subID
			dirNode = node
			child = &data.Node{Name: verifrt.String("childname", maxlen2), Type: data.NodeTypeFile}
		}
		root = append(root, node)
	}
	rec.trees = append(rec.trees, verifC18Tree{rootID, root})
	if child != nil {
		rec.trees = append(rec.trees, verifC18Tree{subID, []*data.Node{child}})
	}
	rec.installLoadTree()

	res := NewRestorer(nil, &data.Snapshot{Tree: &rootID}, Options{Delete: true})
	res.Error = func(_ string, _ error) error { // like cmd/restic: report and go on
		rec.errors++
		return nil
	}
	const target = "/t"
	err := res.traverseTree(context.Background(), target, rootID, rec.visitor())
	verifrt.Assert(err == nil, "traverseTree failed although errors are only reported")

	// a node is ill-formed if its name is invalid or repeats the name of an earlier node of the tree
	// (duplicate names are reported and skipped, see VerifC18_DuplicateNames)
	illFormed := func(i int) bool {
		if !verifC18ValidName(root[i].Name) {
			return true
		}
		for j := 0; j < i; j++ {
			if verifC18ValidName(root[j].Name) && root[j].Name == root[i].Name {
				return true
			}
		}
		return false
	}
	anyInvalid := false
	for i := range root {
		if illFormed(i) {
			anyInvalid = true
		}
	}
	if dirNode != nil && verifC18ValidName(dirNode.Name) && !verifC18ValidName(child.Name) {
		anyInvalid = true
	}
	if anyInvalid {
		verifrt.Reach("invalid-name")
		verifrt.Assert(!res.opts.Delete, "a node with an invalid name did not disable --delete")
		verifrt.Assert(rec.errors > 0, "a node with an invalid name was not reported")
	} else {
		verifrt.Reach("all-valid")
		verifrt.Assert(res.opts.Delete, "--delete was switched off without reason")
		verifrt.Assert(rec.errors == 0, "an error was reported for a well-formed tree")
	}

	for _, v := range rec.visits {
		if v.node == nil { // the root itself
			verifrt.Assert(v.target == target && v.location == "/", "root visited with a wrong path")
			continue
		}
		verifrt.Assert(verifC18ValidName(v.node.Name), "a node with an invalid name reached a visitor")
		parentT, parentL := target, ""
		if v.node == child {
			verifrt.Assert(verifC18ValidName(dirNode.Name), "child of an invalid directory visited")
			parentT, parentL = target+"/"+dirNode.Name, "/"+dirNode.Name
		}
		verifrt.Assert(v.target == parentT+"/"+v.node.Name, "visitor target is not parent + separator + node name")
		verifrt.Assert(v.location == parentL+"/"+v.node.Name, "visitor location is not parent + separator + node name")
		verifrt.Assert(strings.HasPrefix(v.target, target+"/"), "visitor target outside the restore target")
	}
	// every well-named node was handed to a visitor (the default filter selects everything)
	for i, nd := range root {
		seen := false
		for _, v := range rec.visits {
			if v.node == nd {
				seen = true
			}
		}
		verifrt.Assert(seen == !illFormed(i), "a well-named node was skipped or an ill-named one visited")
	}
	// --delete works on the list of names of the tree: the names handed to leaveDir are the tree's names
	for _, v := range rec.visits {
		if v.kind == "leave" && v.node == nil && !anyInvalid {
			verifrt.Assert(len(v.entries) == len(root), "leaveDir did not get every name of the tree")
		}
	}
}

func verifC18Pick(name string, lo, hi int) int {
	x := verifrt.Int(name, lo, hi)
	for v := lo; v < hi; v++ {
		if x == v {
			return v
		}
	}
	return hi
}

// VerifC18_HasPathPrefix: for an absolute base, fs.HasPathPrefix(base, p) holds exactly when the cleaned p is the
// cleaned base or lies below it.
func VerifC18_HasPathPrefix() {
	base := "/" + verifrt.String("base", verifrt.Param("baselen", 2))
	p := verifrt.String("p", verifrt.Param("plen", 4))
	got := fs.HasPathPrefix(base, p)

	want := false
	if len(p) > 0 && p[0] == '/' {
		cb, cp := filepath.Clean(base), filepath.Clean(p)
		switch {
		case cp == cb:
			want = true
		case cb == "/":
			want = true
		default:
			want = len(cp) > len(cb) && cp[:len(cb)] == cb && cp[len(cb)] == '/'
		}
	}
	if want {
		verifrt.Reach("inside")
	} else {
		verifrt.Reach("outside")
	}
	verifrt.Assert(got == want, "HasPathPrefix disagrees with the lexical definition")
}

// VerifC18_DeleteNames: removeUnexpectedFiles only removes entries directly below the directory it was called for:
// directory listings are arbitrary byte strings here (a hostile file system or a FUSE mount could return anything).
func VerifC18_DeleteNames() {
	os.ErrNotExist, os.ErrExist, os.ErrPermission = iofs.ErrNotExist, iofs.ErrExist, iofs.ErrPermission
	entry := verifrt.String("entry", verifrt.Param("namelen", 3))
	const target = "/t/d"
	var removed []string
	verifrt.Stub("internal/fs.Readdirnames", func(_ fs.FS, dir string, flags int) ([]string, error) {
		verifrt.Assert(dir == target, "listing another directory")
		verifrt.Assert(flags&fs.O_NOFOLLOW != 0, "directory listed without O_NOFOLLOW")
		return []string{entry}, nil
	})
	verifrt.Stub("internal/fs.RemoveAll", func(p string) error {
		removed = append(removed, p)
		return nil
	})
	verifrt.Stub("path/filepath.Walk", func(root string, fn filepath.WalkFunc) error { return fn(root, nil, nil) })
	res := NewRestorer(nil, &data.Snapshot{}, Options{Delete: true})
	expected := []string{"keep"}
	err := res.removeUnexpectedFiles(context.Background(), target, "/d", expected)
	for _, p := range removed {
		verifrt.Reach("removed")
		// whatever the listing claims, the removed path is a clean path strictly below the directory
		verifrt.Assert(p == filepath.Clean(p) && len(p) > len(target)+1 && p[:len(target)+1] == target+"/", "removed path is not below the directory")
		if verifC18ValidName(entry) {
			verifrt.Assert(p == target+"/"+entry, "removed path is not directory + separator + entry")
		}
		verifrt.Assert(entry != "keep", "an expected file was removed")
	}
	if len(removed) == 0 && entry != "keep" {
		verifrt.Reach("refused")
		verifrt.Assert(err != nil, "an unexpected entry was neither removed nor reported")
		verifrt.Assert(!verifC18ValidName(entry), "a well-named unexpected entry was not removed")
	}
}

// ---- semantic part: an abstract file system with symlinks ------------------------------------------------
//
// Snapshot: /a/b/f (a, b directories, f an empty regular file). Target /t. Before the restore each of /t/a, /t/a/b,
// /t/a/b/f is absent, a directory, a regular file, or a symlink that points OUTSIDE the target. The fs functions
// resolve paths like the kernel: symlinks in ancestor components are followed by every call, the last component
// is not followed by Lstat, Remove and O_NOFOLLOW opens. Any call that may modify something and whose resolution
// passes through such a symlink is an ESCAPE.

const (
	verifC18Absent = iota
	verifC18IsDir
	verifC18IsFile
	verifC18LinkOut
)

type verifC18FI struct{ kind int }

func (fi verifC18FI) Name() string { return "x" }
func (fi verifC18FI) Size() int64  { return 0 }
func (fi verifC18FI) Mode() os.FileMode {
	switch fi.kind {
	case verifC18IsDir:
		return os.ModeDir | 0700
	case verifC18LinkOut:
		return os.ModeSymlink | 0777
	}
	return 0600
}
func (fi verifC18FI) ModTime() (t time.Time) { return }
func (fi verifC18FI) IsDir() bool            { return fi.kind == verifC18IsDir }
func (fi verifC18FI) Sys() any               { return nil }

type verifC18FS struct {
	chain   []string       // /t/a, /t/a/b, /t/a/b/f
	kind    map[string]int // current kind of each path of the chain
	handles map[*os.File]string
	escape  string // first escaping call
	foreign bool
}

func (m *verifC18FS) idx(p string) int {
	for i, q := range m.chain {
		if q == p {
			return i
		}
	}
	return -1
}

// through reports whether resolving p passes through a symlink to the outside in an ancestor component; err is
// the error of the path walk when an ancestor is missing or not a directory.
func (m *verifC18FS) through(p string) (bool, syscall.Errno) {
	i := m.idx(p)
	for k := 0; k < i; k++ {
		switch m.kind[m.chain[k]] {
		case verifC18LinkOut:
			return true, 0
		case verifC18Absent:
			return false, syscall.ENOENT
		case verifC18IsFile:
			return false, syscall.ENOTDIR
		}
	}
	return false, 0
}

func (m *verifC18FS) esc(what, p string) {
	if m.escape == "" {
		m.escape = what + " " + p
	}
}

func verifC18Err(op, p string, e syscall.Errno) error { return &os.PathError{Op: op, Path: p, Err: e} }

func (m *verifC18FS) install() {
	const root = "/t"
	// error texts come from a table that package syscall's init fills; the engine does not run that init
	verifrt.Stub("(syscall.Errno).Error", func(e syscall.Errno) string { return "errno" })
	verifrt.Stub("internal/fs.MkdirAll", func(p string, _ os.FileMode) error {
		if p == root {
			return nil
		}
		i := m.idx(p)
		if i < 0 {
			m.foreign = true
			return nil
		}
		outside := false
		for k := 0; k <= i; k++ {
			q := m.chain[k]
			if outside {
				m.esc("mkdir", q) // directories below a symlink are created outside
				return nil
			}
			switch m.kind[q] {
			case verifC18Absent:
				m.kind[q] = verifC18IsDir
			case verifC18IsFile:
				return verifC18Err("mkdir", q, syscall.ENOTDIR)
			case verifC18LinkOut:
				outside = true // stat follows the link: it is a directory, somewhere else
			}
		}
		return nil
	})
	verifrt.Stub("internal/fs.Lstat", func(p string) (os.FileInfo, error) {
		if p == root {
			return verifC18FI{verifC18IsDir}, nil
		}
		if m.idx(p) < 0 {
			m.foreign = true
			return nil, verifC18Err("lstat", p, syscall.ENOENT)
		}
		thr, e := m.through(p)
		if thr {
			return nil, verifC18Err("lstat", p, syscall.ENOENT) // nothing there yet on the other side
		}
		if e != 0 {
			return nil, verifC18Err("lstat", p, e)
		}
		if m.kind[p] == verifC18Absent {
			return nil, verifC18Err("lstat", p, syscall.ENOENT)
		}
		return verifC18FI{m.kind[p]}, nil
	})
	remove := func(p string, all bool) error {
		i := m.idx(p)
		if i < 0 {
			m.foreign = true
			return nil
		}
		thr, e := m.through(p)
		if thr {
			m.esc("remove", p)
			return nil
		}
		if e != 0 {
			return verifC18Err("remove", p, e)
		}
		switch m.kind[p] {
		case verifC18Absent:
			if all {
				return nil
			}
			return verifC18Err("remove", p, syscall.ENOENT)
		case verifC18IsDir:
			if i+1 < len(m.chain) && m.kind[m.chain[i+1]] != verifC18Absent {
				if !all {
					return verifC18Err("remove", p, syscall.ENOTEMPTY)
				}
				for k := i + 1; k < len(m.chain); k++ {
					m.kind[m.chain[k]] = verifC18Absent
				}
			}
		}
		m.kind[p] = verifC18Absent
		return nil
	}
	verifrt.Stub("internal/fs.Remove", func(p string) error { return remove(p, false) })
	verifrt.Stub("internal/fs.RemoveAll", func(p string) error { return remove(p, true) })
	verifrt.Stub("internal/fs.OpenFile", func(p string, flag int, _ os.FileMode) (*os.File, error) {
		if m.idx(p) < 0 {
			m.foreign = true
			return nil, verifC18Err("open", p, syscall.ENOENT)
		}
		wr := flag&(os.O_WRONLY|os.O_RDWR|os.O_CREATE) != 0
		thr, e := m.through(p)
		if thr {
			if wr {
				m.esc("open-for-writing", p)
			}
			return nil, verifC18Err("open", p, syscall.ENOENT)
		}
		if e != 0 {
			return nil, verifC18Err("open", p, e)
		}
		switch m.kind[p] {
		case verifC18LinkOut:
			if flag&fs.O_NOFOLLOW != 0 {
				return nil, verifC18Err("open", p, syscall.ELOOP)
			}
			if wr {
				m.esc("open-through-link", p)
			}
			return nil, verifC18Err("open", p, syscall.ENOENT)
		case verifC18IsDir:
			if wr {
				return nil, verifC18Err("open", p, syscall.EISDIR)
			}
		case verifC18Absent:
			if flag&os.O_CREATE == 0 {
				return nil, verifC18Err("open", p, syscall.ENOENT)
			}
			m.kind[p] = verifC18IsFile
		case verifC18IsFile:
			if flag&os.O_CREATE != 0 && flag&os.O_EXCL != 0 {
				return nil, verifC18Err("open", p, syscall.EEXIST)
			}
		}
		f := &os.File{}
		m.handles[f] = p
		return f, nil
	})
	verifrt.Stub("internal/fs.ResetPermissions", func(p string) error {
		if thr, _ := m.through(p); thr {
			m.esc("chmod", p)
		}
		return nil
	})
	verifrt.Stub("internal/fs.ExtendedStat", func(fi os.FileInfo) *fs.ExtendedFileInfo {
		return &fs.ExtendedFileInfo{Mode: fi.Mode(), Links: 1}
	})
	verifrt.Stub("internal/fs.NodeRestoreMetadata", func(n *data.Node, p string, _ func(string), _ func(string) bool, _ bool) error {
		if p == root {
			return nil
		}
		if m.idx(p) < 0 {
			m.foreign = true
			return nil
		}
		if thr, _ := m.through(p); thr {
			m.esc("metadata", p)
		} else if m.kind[p] == verifC18LinkOut && n.Type != data.NodeTypeSymlink {
			m.esc("metadata-through-link", p) // chmod of a non-symlink node follows the link
		}
		return nil
	})
	verifrt.Stub("(*os.File).Name", func(f *os.File) string { return m.handles[f] })
	verifrt.Stub("(*os.File).Close", func(f *os.File) error { return nil })
	verifrt.Stub("(*os.File).Stat", func(f *os.File) (os.FileInfo, error) {
		return verifC18FI{m.kind[m.handles[f]]}, nil
	})
	verifrt.Stub("(*os.File).ReadAt", func(f *os.File, b []byte, off int64) (int, error) { return 0, io.EOF })
	verifrt.Stub("(*os.File).WriteAt", func(f *os.File, b []byte, off int64) (int, error) { return len(b), nil })
	verifrt.Stub("(*os.File).Truncate", func(f *os.File, size int64) error { return nil })
	verifrt.Stub("internal/fileio.PreallocateFile", func(f *os.File, size int64) error { return nil })
}

type verifC18Chunker struct{ restic.ChunkerFactory }

func (verifC18Chunker) ZeroChunk() restic.ID { return restic.ID{0xee} }

type verifC18Repo struct{ restic.Repository }

func (verifC18Repo) Connections() uint                               { return 1 }
func (verifC18Repo) ChunkerFactory() restic.ChunkerFactory           { return verifC18Chunker{} }
func (verifC18Repo) LookupBlobSize(restic.BlobHandle) (uint, bool)   { return 0, false }
func (verifC18Repo) LookupBlob(restic.BlobHandle) []restic.PackBlob  { return nil }
func (verifC18Repo) LoadBlobsFromPack(context.Context, restic.ID, []restic.BlobHandle, func(restic.BlobHandle, []byte, error) error) error {
	return nil
}

// VerifC18_SymlinkAncestors: the complete RestoreTo of /a/b/f with an arbitrary (sound) include/exclude filter over
// every combination of pre-existing directories, files and outside-pointing symlinks at /t/a, /t/a/b, /t/a/b/f:
// no fs call that can modify anything resolves through a symlink.
func VerifC18_SymlinkAncestors() {
	os.ErrNotExist, os.ErrExist, os.ErrPermission = iofs.ErrNotExist, iofs.ErrExist, iofs.ErrPermission
	m := &verifC18FS{chain: []string{"/t/a", "/t/a/b", "/t/a/b/f"}, kind: map[string]int{}, handles: map[*os.File]string{}}
	pre := make([]int, 3)
	for i, p := range m.chain {
		if i == 0 || pre[i-1] == verifC18IsDir { // something can only exist below a real directory
			pre[i] = verifC18Pick("preKind", verifC18Absent, verifC18LinkOut)
		}
		m.kind[p] = pre[i]
	}
	m.install()

	// include/exclude filter: arbitrary answers, sound in the sense that a selected item implies
	// "child may be selected" for all its ancestors
	selA, childA := verifrt.Bool("selA"), verifrt.Bool("childA")
	selB, childB := verifrt.Bool("selB"), verifrt.Bool("childB")
	selF := verifrt.Bool("selF")
	verifrt.Assume(!(selF || childB || selB) || childA)
	verifrt.Assume(!selF || childB)

	rootID, aID, bID := restic.ID{1}, restic.ID{2}, restic.ID{3}
	rec := &verifC18Rec{}
	rec.trees = []verifC18Tree{
		{rootID, []*data.Node{{Name: "a", Type: data.NodeTypeDir, Subtree: &aID}}},
		{aID, []*data.Node{{Name: "b", Type: data.NodeTypeDir, Subtree: &bID}}},
		{bID, []*data.Node{{Name: "f", Type: data.NodeTypeFile, Links: 1}}},
	}
	rec.installLoadTree()

	res := NewRestorer(verifC18Repo{}, &data.Snapshot{Tree: &rootID}, Options{Overwrite: OverwriteAlways})
	res.Error = func(_ string, _ error) error {
		rec.errors++
		return nil
	}
	res.SelectFilter = func(item string, isDir bool) (bool, bool) {
		switch item {
		case "/a":
			return selA, childA
		case "/a/b":
			return selB, childB
		case "/a/b/f":
			return selF, false
		}
		verifrt.Assert(false, "filter asked about an unknown item")
		return false, false
	}
	_, err := res.RestoreTo(context.Background(), "/t")
	_ = err

	// known restic defect (DESIGN.md section 7): directories that are only "child may be selected" are never
	// checked by ensureDir; a pre-existing symlink there is followed by MkdirAll/OpenFile for the deeper items.
	verifrt.Known("C18-unselected-ancestor-symlink", pre[0] == verifC18LinkOut && !selA)

	verifrt.Assert(!m.foreign, "restore touched a path that is not in the snapshot")
	if m.escape != "" {
		verifrt.Note("escape: " + m.escape)
	}
	verifrt.Assert(m.escape == "", "a modifying file system call went through a symlink that points outside the target")
	if selF && rec.errors == 0 && err == nil {
		verifrt.Reach("file-restored")
		verifrt.Assert(m.kind["/t/a/b/f"] == verifC18IsFile && m.kind["/t/a/b"] == verifC18IsDir && m.kind["/t/a"] == verifC18IsDir,
			"selected file not restored as a regular file below real directories")
	} else {
		verifrt.Reach("file-not-restored")
	}
}

package repository

// Shared machinery of the prune-plan checks (C10 and the plan part of C09): a small symbolic
// repository state behind the REAL index.MasterIndex and a stub backend that only lists packs.

import (
	"context"

	"github.com/restic/restic/internal/backend"
	"github.com/restic/restic/internal/repository/index"
	"github.com/restic/restic/internal/repository/pack"
	"github.com/restic/restic/internal/restic"
	"github.com/restic/restic/internal/verifrt"
)

// verifC10Backend is the environment: it knows the connection limit and the pack listing.
type verifC10Backend struct {
	backend.Backend
	conns uint
	packs []backend.FileInfo
}

func (b *verifC10Backend) Properties() backend.Properties {
	return backend.Properties{Connections: b.conns}
}

func (b *verifC10Backend) List(_ context.Context, t backend.FileType, fn func(backend.FileInfo) error) error {
	if t != backend.PackFile {
		return nil
	}
	for _, fi := range b.packs {
		if err := fn(fi); err != nil {
			return err
		}
	}
	return nil
}

type verifC10Entry struct {
	hidx   int // index into the handle alphabet
	h      restic.BlobHandle
	pack   int // index into packIDs
	length uint
	ulen   uint
}

type verifC10State struct {
	repo    *Repository
	be      *verifC10Backend
	handles []restic.BlobHandle // alphabet of blob handles
	used    []bool              // per alphabet handle: referenced by a snapshot
	packIDs []restic.ID         // candidate pack IDs (the last one never has index entries)
	nidx    []int               // per pack: number of index entries
	listed  []bool              // per pack: present in the backend listing
	size    []int64             // per pack: size reported by the listing
	entries []verifC10Entry
}

// verifC10Cfg selects which dimensions of the state are symbolic. Exploring all of them at once
// multiplies the path count, so each harness frees one group and fixes the others.
type verifC10Cfg struct {
	fixed      [][]int // if non-nil: per pack the alphabet handles of its entries (structure fixed)
	symLens    bool    // symbolic blob lengths (else distinct concrete lengths)
	symListing bool    // symbolic pack listing (else exactly the indexed packs with their true size)
	symRepo    bool    // symbolic repository version and pack size (else v2, 16 MiB)
}

// verifC10Build creates the state. Bounds: "handles" blob handles (handle 1 is a tree blob, the
// others data blobs), "packs" pack IDs (a pack without entries is an unindexed pack if it is
// listed), "entries" index entries in total.
func verifC10Build(cfg verifC10Cfg) *verifC10State {
	nh := verifrt.Param("handles", 3)
	np := verifrt.Param("packs", 3)
	nmax := verifrt.Param("entries", 4)
	maxlen := verifrt.Param("maxlen", 1<<29)
	if cfg.fixed != nil {
		np = len(cfg.fixed)
	}

	s := &verifC10State{}
	for k := 0; k < nh; k++ {
		var id restic.ID
		id[0] = byte(k + 1)
		id[5] = 0x77
		t := restic.DataBlob
		if k == 1 {
			t = restic.TreeBlob
		}
		s.handles = append(s.handles, restic.BlobHandle{ID: id, Type: t})
		occurs := cfg.fixed == nil
		for _, pk := range cfg.fixed {
			for _, hk := range pk {
				if hk == k {
					occurs = true
				}
			}
		}
		// with a fixed structure only the handles that occur can be used (the "used blob missing
		// from the index" case belongs to the harnesses with symbolic structure)
		s.used = append(s.used, occurs && verifC10Bool("used"))
	}
	for p := 0; p < np; p++ {
		var id restic.ID
		// different low nibbles in the first byte: MasterIndex.ListPacks buckets by it
		id[0] = byte(0x10*(p+1) + (p*5)%16)
		id[31] = byte(p)
		s.packIDs = append(s.packIDs, id)
	}

	idx := index.NewIndex()
	total := 0
	for p := 0; p < np; p++ {
		cnt := 0
		if cfg.fixed != nil {
			cnt = len(cfg.fixed[p])
		} else {
			c := verifrt.Int("cnt", 0, nmax-total)
			for cnt < c { // forks: cnt is concrete afterwards
				cnt++
			}
		}
		s.nidx = append(s.nidx, cnt)
		var blobs pack.Blobs
		off := uint(0)
		for j := 0; j < cnt; j++ {
			hi := 0
			if cfg.fixed != nil {
				hi = cfg.fixed[p][j]
			} else {
				// which blob: forks, so that IDs and types are concrete on every path
				hsym := verifrt.Int("blob", 0, nh-1)
				for k := 1; k < nh; k++ {
					if hsym == k {
						hi = k
					}
				}
			}
			h := s.handles[hi]
			var l, ul uint
			if cfg.symLens {
				l = uint(verifrt.Uint32("len"))
				verifrt.Assume(l >= 1 && l <= uint(maxlen))
			} else {
				l = uint(1000 + 37*len(s.entries))
			}
			if p != 0 {
				ul = 2 * l // entries of pack 0 are uncompressed, the others compressed
			}
			blobs = append(blobs, pack.Blob{BlobHandle: h, Offset: off, Length: l, UncompressedLength: ul})
			s.entries = append(s.entries, verifC10Entry{hidx: hi, h: h, pack: p, length: l, ulen: ul})
			off += l
		}
		total += cnt
		if cnt > 0 {
			idx.StorePack(s.packIDs[p], blobs)
		}
	}
	// as after LoadIndex: every index is final, has an ID and is merged into the first one
	idx.Finalize()
	var iid restic.ID
	iid[0] = 0xee
	_ = idx.SetID(iid)
	mi := index.NewMasterIndex()
	mi.Insert(idx)
	err := mi.MergeFinalIndexes()
	verifrt.Assert(err == nil, "MergeFinalIndexes failed")

	s.be = &verifC10Backend{conns: 2}
	for p := 0; p < np; p++ {
		l := s.nidx[p] > 0
		sz := int64(s.blobBytes(p) + s.headerSize(p))
		if cfg.symListing {
			l = verifC10Bool("listed")
			sz = verifrt.Int64("packsize")
			verifrt.Assume(sz >= 0 && sz <= 1<<40)
		}
		s.listed = append(s.listed, l)
		s.size = append(s.size, sz)
		if l {
			s.be.packs = append(s.be.packs, backend.FileInfo{Name: s.packIDs[p].String(), Size: sz})
		}
	}

	ver := uint(2)
	ps := uint(DefaultPackSize)
	if cfg.symRepo {
		if verifC10Bool("repoV1") {
			ver = 1
		}
		ps = uint(verifrt.Uint32("repoPackSize"))
		verifrt.Assume(ps >= MinPackSize && ps <= MaxPackSize)
	}
	s.repo = &Repository{be: s.be, idx: mi, cfg: restic.Config{Version: ver}, opts: Options{PackSize: ps}}
	return s
}

// verifC10Bool returns a symbolic bool and forks on it at once, so that the value is concrete on
// each path (saves solver queries when it is tested repeatedly).
func verifC10Bool(name string) bool {
	if verifrt.Bool(name) {
		return true
	}
	return false
}

// getUsed is the callback handed to PlanPrune in place of cmd/restic's getUsedBlobs.
func (s *verifC10State) getUsed(_ context.Context, _ restic.Repository, set restic.FindBlobSet) error {
	for k := range s.handles {
		if s.used[k] {
			set.Insert(s.handles[k])
		}
	}
	return nil
}

// copies returns the number of index entries for alphabet handle k.
func (s *verifC10State) copies(k int) int {
	c := 0
	for _, e := range s.entries {
		if e.hidx == k {
			c++
		}
	}
	return c
}

// Pack header size according to the repository format: 4 bytes length + 32 bytes crypto overhead
// + 37 bytes per uncompressed / 41 bytes per compressed entry.
func (s *verifC10State) headerSize(p int) uint64 {
	sz := uint64(4 + 32)
	for _, e := range s.entries {
		if e.pack == p {
			if e.ulen != 0 {
				sz += 41
			} else {
				sz += 37
			}
		}
	}
	return sz
}

func (s *verifC10State) blobBytes(p int) uint64 {
	sz := uint64(0)
	for _, e := range s.entries {
		if e.pack == p {
			sz += uint64(e.length)
		}
	}
	return sz
}

func (s *verifC10State) packIndex(id restic.ID) int {
	for p := range s.packIDs {
		if s.packIDs[p] == id {
			return p
		}
	}
	return -1
}

package repository

// C10 (execution side): the real repack() — producer goroutine filtering by keepBlobs, the real
// MasterIndex.ListPacks, two concurrent workers — over two packs that both hold a copy of the same
// blob. The pack reader is a stub that delivers every requested blob; the uploader records saves.
// Every schedule of producer and workers (within the preemption bound) must write each kept blob
// exactly once into the new packs, so that no blob is stored twice after a full prune, and must leave
// keepBlobs empty (Execute's precondition for deleting the old packs).

import (
	"context"

	"github.com/restic/restic/internal/repository/index"
	"github.com/restic/restic/internal/repository/pack"
	"github.com/restic/restic/internal/restic"
	"github.com/restic/restic/internal/verifrt"
)

type verifC10RepackSaver struct {
	restic.BlobSaverWithAsync
	saved map[restic.BlobHandle]int
}

func (s *verifC10RepackSaver) SaveBlob(_ context.Context, t restic.BlobType, _ []byte, id restic.ID, storeDuplicate bool) (restic.ID, bool, int, error) {
	verifrt.Assert(storeDuplicate, "repack saves a blob without storeDuplicate: it would be skipped as already known")
	s.saved[restic.BlobHandle{ID: id, Type: t}]++
	return id, false, 1, nil
}

var verifC10RepackLoads int

func verifC10StubLoadBlobs(_ *Repository, _ context.Context, _ restic.ID, blobs pack.Blobs, fn func(blob restic.BlobHandle, buf []byte, err error) error) error {
	verifC10RepackLoads++
	for _, b := range blobs {
		if err := fn(b.BlobHandle, []byte{1}, nil); err != nil {
			return err
		}
	}
	return nil
}

// verifC10StubListPacks: the index listing as an already filled, closed channel. The listing itself
// is produced by the real MasterIndex.ListPacks before the goroutines start (its goroutine would only
// add schedules; its content is checked by C08/C33).
var verifC10PackList []index.PackBlobs

func verifC10StubListPacks(_ *Repository, _ context.Context, _ restic.IDSet) <-chan index.PackBlobs {
	ch := make(chan index.PackBlobs, len(verifC10PackList))
	for _, pbs := range verifC10PackList {
		ch <- pbs
	}
	close(ch)
	return ch
}

type verifC10Counter struct{ n uint64 }

func (c *verifC10Counter) Add(v uint64)            { c.n += v }
func (c *verifC10Counter) SetMax(uint64)           {}
func (c *verifC10Counter) Get() (uint64, uint64)   { return c.n, 0 }
func (c *verifC10Counter) Done()                   {}

// VerifC10_Repack: index {pack0: blob0, blob2; pack1: blob3, blob2}; both packs are repacked;
// symbolic keepBlobs.
func VerifC10_Repack() {
	verifrt.Stub("(*internal/repository.Repository).loadBlobsFromPack", verifC10StubLoadBlobs)
	verifrt.Stub("(*internal/repository.Repository).listPacksFromIndex", verifC10StubListPacks)
	verifC10RepackLoads = 0
	s := verifC10Build(verifC10Cfg{fixed: [][]int{{0, 2}, {3, 2}}})
	s.be.conns = uint(verifrt.Param("conns", 2)) // conns-1 repack workers
	packs := restic.NewIDSet(s.packIDs[0], s.packIDs[1])
	keep := index.NewAssociatedSet[uint8](s.repo.idx)
	var want []bool
	for k, h := range s.handles {
		w := (k == 0 || k == 2 || k == 3) && verifC10Bool("keep")
		want = append(want, w)
		if w {
			keep.Insert(h)
		}
	}
	verifC10PackList = nil
	for pbs := range s.repo.idx.ListPacks(context.Background(), packs) {
		verifC10PackList = append(verifC10PackList, pbs)
	}
	verifrt.Assert(len(verifC10PackList) == 2, "ListPacks does not list both packs")
	saver := &verifC10RepackSaver{saved: map[restic.BlobHandle]int{}}
	cnt := &verifC10Counter{}

	err := repack(context.Background(), s.repo, s.repo, saver, packs, keep, cnt, func(string, ...any) {})

	verifrt.Assert(err == nil, "repack fails although every blob can be read and saved")
	for k, h := range s.handles {
		n := saver.saved[h]
		if want[k] {
			verifrt.Assert(n >= 1, "a blob in keepBlobs was not written to a new pack")
			verifrt.Assert(n == 1, "a blob with copies in two repacked packs is written twice")
			verifrt.Assert(!keep.Has(h), "a repacked blob is left in keepBlobs")
		} else {
			verifrt.Assert(n == 0, "a blob outside keepBlobs is written to a new pack")
		}
	}
	verifrt.Assert(cnt.n == 2, "the progress counter does not count every repacked pack once")
	if want[2] {
		verifrt.Reach("shared-blob-kept")
	}
	verifrt.Reach("repack-done")
}

package repository

import (
	"context"
	"math"

	"github.com/restic/restic/internal/restic"
	"github.com/restic/restic/internal/verifrt"
)

// verifC10Opts: "full prune": no unused-space tolerance, no repack limit, every pack type may be
// repacked. The remaining options stay symbolic.
func verifC10Opts(s *verifC10State, symSmall bool) PruneOptions {
	small := uint64(0)
	if symSmall {
		small = uint64(verifrt.Uint32("smallPack"))
		verifrt.Assume(small <= uint64(s.repo.PackSize()))
	}
	return PruneOptions{
		MaxUnusedBytes:      func(_ uint64) uint64 { return 0 },
		MaxRepackBytes:      math.MaxUint64,
		SmallPackBytes:      small,
		RepackCacheableOnly: false,
		RepackUncompressed:  verifC10Bool("repackUncompressed"),
	}
}

// verifC10Run runs the real PlanPrune on the state.
func verifC10Run(s *verifC10State, opts PruneOptions, mayFail bool) *PrunePlan {
	if opts.RepackUncompressed {
		verifrt.Assume(s.repo.Config().Version >= 2)
	}
	plan, err := PlanPrune(context.Background(), opts, s.repo, s.getUsed, restic.NewNoopPrinter())
	if err != nil {
		verifrt.Assert(mayFail, "PlanPrune fails on a consistent repository")
		return nil
	}
	verifrt.Reach("plan-ok")
	verifC10NoWaste(s, plan)
	verifC10Stats(s, plan)
	return plan
}

// VerifC10_Structure: symbolic index structure (which blob in which pack, duplicates) and used set;
// concrete lengths, faithful pack listing.
func VerifC10_Structure() {
	s := verifC10Build(verifC10Cfg{})
	if verifC10Run(s, verifC10Opts(s, false), true) == nil {
		verifrt.Reach("plan-error") // e.g. a used blob without index entry
	}
}

// VerifC10_Listing: fixed index {pack0: blob0, blob1(tree); pack1: blob0; pack2: -}, symbolic used
// set and symbolic pack listing (present?, size).
func VerifC10_Listing() {
	s := verifC10Build(verifC10Cfg{fixed: [][]int{{0, 1}, {0}, {}}, symListing: true, symRepo: true})
	if verifC10Run(s, verifC10Opts(s, false), true) == nil {
		verifrt.Reach("plan-error") // needed pack missing or of unexpected size
	}
}

// VerifC10_Sizes: fixed index {pack0: blob0, blob2; pack1: blob3, blob2; pack2: blob0} (data blobs;
// pack0 uncompressed), blob0 used, blob2/blob3 symbolic; symbolic lengths and
// --repack-smaller-than: the size statistics and the size heuristics (target pack size,
// sorting of two repack candidates by unused/used ratio) are exercised.
func VerifC10_Sizes() {
	s := verifC10Build(verifC10Cfg{fixed: [][]int{{0, 2}, {3, 2}, {0}}, symLens: true})
	verifrt.Assume(s.used[0])
	verifC10Run(s, verifC10Opts(s, true), false)
}

// verifC10NoWaste: applying the plan leaves no unused blob, no blob twice, no unindexed pack and no
// index entry for a missing pack.
func verifC10NoWaste(s *verifC10State, plan *PrunePlan) {
	// classification of every pack by the plan
	for p, id := range s.packIDs {
		inFirst := plan.removePacksFirst.Has(id)
		inRemove := plan.removePacks.Has(id)
		inRepack := plan.repackPacks.Has(id)
		inIgnore := plan.ignorePacks.Has(id)
		indexed := s.nidx[p] > 0
		switch {
		case s.listed[p] && !indexed:
			verifrt.Assert(inFirst, "an unindexed pack is not in removePacksFirst")
			verifrt.Assert(!inRemove && !inRepack && !inIgnore, "an unindexed pack is classified twice")
		case !s.listed[p] && indexed:
			verifrt.Assert(inIgnore, "an indexed but missing pack is not in ignorePacks")
			verifrt.Assert(!inFirst && !inRemove && !inRepack, "a missing pack is scheduled for removal/repacking")
		case !s.listed[p] && !indexed:
			verifrt.Assert(!inFirst && !inRemove && !inRepack && !inIgnore, "a non-existing pack is part of the plan")
		default:
			verifrt.Assert(!inFirst && !inIgnore, "a present indexed pack is in removePacksFirst/ignorePacks")
			verifrt.Assert(!(inRemove && inRepack), "a pack is both removed and repacked")
		}
	}

	// after the plan: kept packs contain only used blobs; every used blob is stored exactly once
	// in (kept packs + keepBlobs); keepBlobs are available in a repacked pack
	for k, h := range s.handles {
		keptCopies := 0
		inRepacked := false
		for _, e := range s.entries {
			if e.hidx != k {
				continue
			}
			id := s.packIDs[e.pack]
			if plan.repackPacks.Has(id) {
				inRepacked = true
			}
			if s.listed[e.pack] && !plan.removePacks.Has(id) && !plan.repackPacks.Has(id) {
				keptCopies++
			}
		}
		keep := plan.keepBlobs != nil && plan.keepBlobs.Has(h)
		if keep {
			verifrt.Assert(inRepacked, "keepBlobs names a blob that is in no repacked pack")
			verifrt.Assert(s.used[k], "an unused blob is in keepBlobs")
			keptCopies++
		}
		if s.used[k] {
			verifrt.Assert(keptCopies >= 1, "a used blob is lost by the plan")
			verifrt.Assert(keptCopies == 1, "a used blob is still stored twice after a full prune")
		} else {
			verifrt.Assert(keptCopies == 0, "an unused blob survives a full prune")
		}
	}
	if len(plan.repackPacks) > 0 {
		verifrt.Reach("repack")
	}
	if len(plan.removePacks) > 0 {
		verifrt.Reach("remove")
	}
}

// verifC10Stats: the statistics agree with an independent recount.
func verifC10Stats(s *verifC10State, plan *PrunePlan) {
	st := plan.Stats()

	// --- blobs: recount from the entries and the used set
	var used, dup, unused uint
	var usedDupBytes, unusedBytes uint64
	for k := range s.handles {
		c := uint(s.copies(k))
		if s.used[k] {
			if c > 0 {
				used++
				dup += c - 1
			}
		} else {
			unused += c
		}
	}
	for _, e := range s.entries {
		if s.used[e.hidx] {
			usedDupBytes += uint64(e.length)
		} else {
			unusedBytes += uint64(e.length)
		}
	}
	verifrt.Assert(st.Blobs.Used == used, "Blobs.Used differs from the number of distinct used blobs")
	verifrt.Assert(st.Blobs.Duplicate == dup, "Blobs.Duplicate differs from the number of surplus copies")
	verifrt.Assert(st.Blobs.Unused == unused, "Blobs.Unused differs from the number of unused entries")
	verifrt.Assert(st.Blobs.Total == uint(len(s.entries)), "Blobs.Total differs from the number of index entries")
	verifrt.Assert(st.Blobs.Used+st.Blobs.Unused+st.Blobs.Duplicate == st.Blobs.Total, "Used+Unused+Duplicate != Total")
	verifrt.Assert(st.Size.Used+st.Size.Duplicate == usedDupBytes, "Size.Used+Size.Duplicate differs from the bytes of used blobs")
	verifrt.Assert(st.Size.Unused == unusedBytes, "Size.Unused differs from the bytes of unused blobs")

	// --- what the plan deletes
	var rmBlobs, rprmBlobs, repackBlobs uint
	var rmBytes, repackBytes uint64
	var keepLen uint
	if plan.keepBlobs != nil {
		// not keepBlobs.Len(): AssociatedSet.Len counts a handle once per index entry (C48)
		for _, h := range s.handles {
			if plan.keepBlobs.Has(h) {
				keepLen++
			}
		}
	}
	for _, e := range s.entries {
		id := s.packIDs[e.pack]
		switch {
		case plan.removePacks.Has(id) || plan.ignorePacks.Has(id):
			rmBlobs++
			rmBytes += uint64(e.length)
		case plan.repackPacks.Has(id):
			repackBlobs++
		}
	}
	for p, id := range s.packIDs {
		if plan.repackPacks.Has(id) {
			repackBytes += s.blobBytes(p) + s.headerSize(p)
		}
	}
	rprmBlobs = repackBlobs - keepLen
	verifrt.Assert(st.Blobs.Remove == rmBlobs, "Blobs.Remove differs from the entries of removed/forgotten packs")
	verifrt.Assert(st.Size.Remove == rmBytes, "Size.Remove differs from the blob bytes of removed/forgotten packs")
	verifrt.Assert(st.Blobs.Repack == repackBlobs, "Blobs.Repack differs from the entries of repacked packs")
	verifrt.Assert(st.Size.Repack == repackBytes, "Size.Repack differs from the size of repacked packs")
	verifrt.Assert(st.Blobs.Repackrm == rprmBlobs, "Blobs.Repackrm differs from repacked entries minus kept blobs")
	verifrt.Assert(st.Blobs.RemoveTotal == st.Blobs.Remove+st.Blobs.Repackrm, "Blobs.RemoveTotal")
	verifrt.Assert(st.Blobs.Remain == st.Blobs.Total-st.Blobs.RemoveTotal, "Blobs.Remain")
	// full prune: exactly one copy of every used blob remains
	verifrt.Assert(st.Blobs.Remain == used, "Blobs.Remain differs from the number of distinct used blobs")
	verifrt.Assert(st.Size.Remain == st.Size.Used, "Size.Remain differs from Size.Used after a full prune")
	verifrt.Assert(st.Size.RemainUnused == 0, "Size.RemainUnused != 0 after a full prune")

	// --- unreferenced packs and byte totals
	var unrefBytes uint64
	var listedPacks, unrefPacks, listedIndexed uint
	for p := range s.packIDs {
		if !s.listed[p] {
			continue
		}
		listedPacks++
		if s.nidx[p] == 0 {
			unrefPacks++
			unrefBytes += uint64(s.size[p])
		} else {
			listedIndexed++
		}
	}
	verifrt.Assert(st.Size.Unref == unrefBytes, "Size.Unref differs from the size of unindexed packs")
	verifrt.Assert(st.Size.Total == st.Size.Used+st.Size.Duplicate+st.Size.Unused+st.Size.Unref, "Size.Total")
	verifrt.Assert(st.Size.RemoveTotal == st.Size.Remove+st.Size.Repackrm+st.Size.Unref, "Size.RemoveTotal")
	verifrt.Assert(st.Size.Remain == st.Size.Total-st.Size.RemoveTotal, "Size.Remain")

	// --- packs
	verifrt.Assert(st.Packs.Unref == unrefPacks, "Packs.Unref differs from the number of unindexed packs")
	verifrt.Assert(st.Packs.Used+st.Packs.PartlyUsed+st.Packs.Unused == listedIndexed, "Used+PartlyUsed+Unused packs != listed indexed packs")
	verifrt.Assert(st.Packs.Total == listedPacks, "Packs.Total differs from the number of listed packs")
	verifrt.Assert(st.Packs.Keep+st.Packs.Repack+st.Packs.Remove == listedIndexed, "Keep+Repack+Remove packs != listed indexed packs")
	verifrt.Assert(st.Packs.Repack == uint(len(plan.repackPacks)), "Packs.Repack")
	verifrt.Assert(st.Packs.Remove == uint(len(plan.removePacks)), "Packs.Remove")
	verifrt.Assert(st.Packs.RemoveTotal == st.Packs.Unref+st.Packs.Remove, "Packs.RemoveTotal")
	var unusedPacks uint
	for p := range s.packIDs {
		if !s.listed[p] || s.nidx[p] == 0 {
			continue
		}
		// a pack none of whose blobs is referenced is certainly unused
		all := true
		for _, e := range s.entries {
			if e.pack == p && s.used[e.hidx] {
				all = false
			}
		}
		if all {
			unusedPacks++
		}
	}
	verifrt.Assert(st.Packs.Unused >= unusedPacks, "Packs.Unused smaller than the number of packs without any referenced blob")
	if dup > 0 {
		verifrt.Reach("duplicates")
	}
}

package main

import (
	"context"
	"errors"
	"io"

	"github.com/restic/restic/internal/checker"
	"github.com/restic/restic/internal/data"
	"github.com/restic/restic/internal/global"
	"github.com/restic/restic/internal/repository"
	"github.com/restic/restic/internal/restic"
	"github.com/restic/restic/internal/ui"
	"github.com/restic/restic/internal/verifrt"
)

type verifC14Counter struct{}

func (verifC14Counter) Add(uint64)            {}
func (verifC14Counter) SetMax(uint64)         {}
func (verifC14Counter) Get() (uint64, uint64) { return 0, 0 }
func (verifC14Counter) Done()                 {}

type verifC14Printer struct{ restic.Printer }

func (verifC14Printer) NewCounter(string) restic.Counter             { return verifC14Counter{} }
func (verifC14Printer) NewCounterTerminalOnly(string) restic.Counter { return verifC14Counter{} }
func (verifC14Printer) E(string, ...any)                             {}
func (verifC14Printer) S(string, ...any)                             {}
func (verifC14Printer) PT(string, ...any)                            {}
func (verifC14Printer) P(string, ...any)                             {}
func (verifC14Printer) V(string, ...any)                             {}
func (verifC14Printer) VV(string, ...any)                            {}

type verifC14Term struct{ ui.Terminal }

func (verifC14Term) OutputWriter() io.Writer { return io.Discard }
func (verifC14Term) Print(string)            {}
func (verifC14Term) Error(string)            {}
func (verifC14Term) CanUpdateStatus() bool   { return false }
func (verifC14Term) SetStatus([]string)      {}

// a memorised listing remembers which repository it was taken from
type verifC14Memo struct {
	restic.Lister
	of *repository.Repository
}

var verifC14Stop = errors.New("verif: stop after the index load")

func verifC14Pick(name string, lo, hi int) int {
	x := verifrt.Int(name, lo, hi)
	for v := lo; v < hi; v++ {
		if x == v {
			return v
		}
	}
	return hi
}

// VerifC14_ReaderOrder: every reading command lists (or looks up) the snapshots of a repository
// BEFORE it loads that repository's index, so that - together with the writers' order packs -> index ->
// snapshot (C11) - every snapshot a reader knows about has its blobs in the index the reader loaded.
func VerifC14_ReaderOrder() {
	repos := []*repository.Repository{{}, {}}
	opened := 0
	listed := map[*repository.Repository]bool{}
	indexLoads := 0
	ctx0, cancel := context.WithCancel(context.Background())
	defer cancel()

	open := func(ctx context.Context, _ global.Options, _ bool, _ restic.Printer) (context.Context, *repository.Repository, func(), error) {
		r := repos[opened]
		opened++
		return ctx, r, func() {}, nil
	}
	verifrt.Stub("cmd/restic.openWithReadLock", open)
	verifrt.Stub("cmd/restic.openWithAppendLock", open)
	verifrt.Stub("cmd/restic.openWithExclusiveLock", open)
	verifrt.Stub("internal/ui/progress.NewTerminalPrinter", func(bool, uint, ui.Terminal) restic.Printer { return verifC14Printer{} })
	verifrt.Stub("(*internal/global.SecondaryRepoOptions).FillGlobalOpts", func(_ *global.SecondaryRepoOptions, _ context.Context, g global.Options, _ string) (global.Options, bool, error) {
		return g, verifrt.Bool("fromRepo"), nil
	})
	verifrt.Stub("cmd/restic.prepareCheckCache", func(CheckOptions, *global.Options, restic.Printer) func() { return func() {} })
	verifrt.Stub("internal/checker.New", func(restic.Repository, bool) *checker.Checker { return &checker.Checker{} })
	verifrt.Stub("internal/repository.RepairIndex", func(context.Context, *repository.Repository, repository.RepairIndexOptions, restic.Printer) error { return nil })

	noteLister := func(be restic.Lister) {
		if r, ok := be.(*repository.Repository); ok {
			listed[r] = true // a lookup through the repository itself lists the backend now
		}
	}
	verifrt.Stub("internal/restic.MemorizeList", func(_ context.Context, be restic.Lister, t restic.FileType) (restic.Lister, error) {
		r, ok := be.(*repository.Repository)
		verifrt.Assert(ok, "MemorizeList called on something that is not the repository")
		if t == restic.SnapshotFile {
			listed[r] = true
		}
		return &verifC14Memo{of: r}, nil
	})
	dummy := &data.Snapshot{Hostname: "h", Tree: &restic.ID{1}}
	data.TestSetSnapshotID(nil, dummy, restic.ID{2})
	verifrt.Stub("(*internal/data.SnapshotFilter).FindLatest", func(_ *data.SnapshotFilter, _ context.Context, be restic.Lister, _ restic.LoaderUnpacked, _ string) (*data.Snapshot, string, error) {
		noteLister(be)
		return dummy, "", nil
	})
	verifrt.Stub("internal/data.FindSnapshot", func(_ context.Context, be restic.Lister, _ restic.LoaderUnpacked, _ string) (*data.Snapshot, string, error) {
		noteLister(be)
		return dummy, "", nil
	})
	verifrt.Stub("(*internal/data.SnapshotFilter).FindAll", func(_ *data.SnapshotFilter, _ context.Context, be restic.Lister, _ restic.LoaderUnpacked, _ []string, _ data.SnapshotFindCb) error {
		noteLister(be)
		return nil
	})
	verifrt.Stub("(*internal/checker.Checker).LoadSnapshots", func(c *checker.Checker, _ context.Context, _ *data.SnapshotFilter, _ []string) error {
		listed[repos[0]] = true
		return nil
	})
	loadIndex := func(r *repository.Repository) {
		indexLoads++
		verifrt.Assert(listed[r], "a command loads the index of a repository before it has listed that repository's snapshots")
	}
	verifrt.Stub("(*internal/repository.Repository).LoadIndex", func(r *repository.Repository, _ context.Context, _ restic.TerminalCounterFactory) error {
		loadIndex(r)
		if r == repos[0] && opened == 2 {
			return nil // copy: let the destination index load happen too
		}
		return verifC14Stop
	})
	verifrt.Stub("(*internal/repository.Checker).LoadIndex", func(_ *repository.Checker, _ context.Context, _ restic.TerminalCounterFactory) ([]error, []error) {
		loadIndex(repos[0])
		cancel()
		return nil, nil
	})

	gopts := global.Options{}
	gopts.Term = verifC14Term{}
	term := verifC14Term{}
	var err error
	cmd := verifC14Pick("cmd", 0, 10)
	switch cmd {
	case 0:
		err = runRestore(ctx0, RestoreOptions{Target: "/t"}, gopts, term, []string{"latest"})
	case 1:
		err = runDump(ctx0, DumpOptions{Archive: "tar"}, gopts, []string{"latest", "/f"}, term)
	case 2:
		err = runLs(ctx0, LsOptions{}, gopts, []string{"latest"}, term)
	case 3:
		err = runFind(ctx0, FindOptions{}, gopts, []string{"pat"}, term)
	case 4:
		err = runDiff(ctx0, DiffOptions{}, gopts, []string{"a", "b"}, term)
	case 5:
		err = runCopy(ctx0, CopyOptions{}, gopts, nil, term)
	case 6:
		err = runStats(ctx0, StatsOptions{countMode: countModeRestoreSize}, gopts, nil, term)
	case 7:
		err = runRewrite(ctx0, RewriteOptions{SnapshotSummary: true, Forget: verifrt.Bool("forget")}, gopts, nil, term)
	case 8:
		err = runRepairSnapshots(ctx0, gopts, RepairOptions{}, nil, term)
	case 9:
		err = runRecover(ctx0, gopts, term)
	case 10:
		_, err = runCheck(ctx0, CheckOptions{}, gopts, nil, term)
	}
	verifrt.Assert(err != nil, "the command did not stop at the index load")
	verifrt.Assert(indexLoads >= 1, "the command ended before loading an index: the harness does not drive it far enough")
	if cmd == 5 {
		verifrt.Assert(indexLoads == 2, "copy must load both indexes")
	}
	verifrt.Reach("order-checked")
}

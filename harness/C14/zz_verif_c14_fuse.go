//go:build darwin || freebsd || linux

package fuse

import (
	"context"
	"crypto/sha256"
	"errors"
	"hash"
	"time"

	"github.com/restic/restic/internal/data"
	"github.com/restic/restic/internal/restic"
	"github.com/restic/restic/internal/verifrt"
)

type verifC14Hasher struct{ data []byte }

func (h *verifC14Hasher) Write(p []byte) (int, error) { h.data = append(h.data, p...); return len(p), nil }
func (h *verifC14Hasher) Sum(b []byte) []byte {
	s := sha256.Sum256(h.data)
	return append(b, s[:]...)
}
func (h *verifC14Hasher) Reset()         { h.data = nil }
func (h *verifC14Hasher) Size() int      { return sha256.Size }
func (h *verifC14Hasher) BlockSize() int { return sha256.BlockSize }

type verifC14FuseRepo struct {
	restic.Repository
	events    *[]string
	loadFails bool
}

func (r *verifC14FuseRepo) LoadIndex(context.Context, restic.TerminalCounterFactory) error {
	if r.loadFails {
		*r.events = append(*r.events, "loadindex-failed")
		return errors.New("index load failed")
	}
	*r.events = append(*r.events, "loadindex")
	return nil
}

// VerifC14_MountUpdate: the mounted directory structure exposes a newly listed snapshot set only
// after the index was reloaded successfully, and retries after a failed reload.
func VerifC14_MountUpdate() {
	var events []string
	repo := &verifC14FuseRepo{events: &events}
	root := &Root{repo: repo}
	d := NewSnapshotsDirStructure(root, []string{"ids/%i"}, time.RFC3339)

	verifrt.Stub("crypto/sha256.New", func() hash.Hash { return &verifC14Hasher{} })
	now := time.Unix(1700000000, 0)
	verifrt.Stub("time.Now", func() time.Time { return now })
	verifrt.Stub("time.Since", func(t time.Time) time.Duration { return now.Sub(t) })
	listing := 0
	var sets [2]data.Snapshots
	verifrt.Stub("(*internal/data.SnapshotFilter).FindAll", func(_ *data.SnapshotFilter, _ context.Context, _ restic.Lister, _ restic.LoaderUnpacked, _ []string, fn data.SnapshotFindCb) error {
		events = append(events, "list")
		for _, sn := range sets[listing] {
			if err := fn("", sn, nil); err != nil {
				return err
			}
		}
		return nil
	})
	var exposed data.Snapshots
	verifrt.Stub("(*internal/fuse.SnapshotsDirStructure).makeDirs", func(_ *SnapshotsDirStructure, sns data.Snapshots) {
		events = append(events, "expose")
		exposed = sns
	})

	mk := func(i byte) *data.Snapshot {
		sn := &data.Snapshot{Time: time.Unix(1600000000+int64(i), 0)}
		data.TestSetSnapshotID(nil, sn, restic.ID{i})
		return sn
	}
	// two consecutive updates: before the second one, other processes may have removed the first
	// snapshot (forget) and added up to two new ones (backup), in any combination
	sets[0] = data.Snapshots{mk(1)}
	var ids0, ids1 []byte
	first := restic.ID{1}
	ids0 = append(ids0, first[:]...)
	for i := byte(1); i <= 3; i++ {
		present := verifrt.Bool("inSecondListing")
		if present {
			sets[1] = append(sets[1], mk(i))
			id := restic.ID{i}
			ids1 = append(ids1, id[:]...)
		}
	}
	changed := !(len(sets[1]) == 1 && sets[1][0].ID().Equal(restic.ID{1}))
	added := false
	for _, sn := range sets[1] {
		if !sn.ID().Equal(restic.ID{1}) {
			added = true
		}
	}
	// collision-freeness between the two listings' ID hashes only
	if changed {
		verifrt.Assume(sha256.Sum256(ids0) != sha256.Sum256(ids1))
	}
	if added && len(sets[1]) <= 1 {
		verifrt.Reach("snapshot-replaced")
	}

	covered := map[restic.ID]bool{}
	for round := 0; round < 2; round++ {
		listing = round
		repo.loadFails = verifrt.Bool("loadFails")
		before := len(events)
		now = now.Add(2 * minSnapshotsReloadTime)
		err := d.updateSnapshots(context.Background())
		ev := events[before:]
		// order within one update: list, then loadindex, then expose. A snapshot may be exposed once a
		// successful index load has followed a listing that contained it.
		sawLoad, loadFailed := false, false
		for i, e := range ev {
			switch e {
			case "list":
				verifrt.Assert(i == 0, "snapshots were listed after the index was loaded")
			case "loadindex":
				sawLoad = true
				for _, sn := range sets[round] {
					covered[*sn.ID()] = true
				}
			case "loadindex-failed":
				loadFailed = true
			case "expose":
				for _, sn := range exposed {
					verifrt.Assert(covered[*sn.ID()], "new snapshots were exposed without a successful index reload after listing them")
				}
				verifrt.Assert(len(exposed) == len(sets[round]), "the exposed snapshots are not the ones just listed")
			}
		}
		_ = sawLoad
		if loadFailed {
			verifrt.Assert(err != nil, "a failed index reload must be reported")
			for _, e := range ev {
				verifrt.Assert(e != "expose", "snapshots were exposed although the index reload failed")
			}
		}
	}
	if added && !repo.loadFails {
		verifrt.Assert(len(exposed) == len(sets[1]), "a new snapshot was not exposed after a successful reload")
		verifrt.Reach("new-snapshot-exposed")
	}
	verifrt.Reach("mount-update-done")
}

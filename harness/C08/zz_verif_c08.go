package index

import (
	"bytes"
	"encoding/json"

	"github.com/restic/restic/internal/repository/crypto"
	"github.com/restic/restic/internal/repository/pack"
	"github.com/restic/restic/internal/restic"
	"github.com/restic/restic/internal/verifrt"
)

// one fixed, valid hash function instead of hash/maphash (the hash table is checked under C56)
func verifC08Hash(m *indexMap, id restic.ID) uint {
	return uint(id[0]) & uint(len(m.buckets)-1)
}

func verifC08Pack(n byte) restic.ID {
	var id restic.ID
	id[0] = n
	id[30] = 0x08
	return id
}

// a recorded location of a blob: what an index file says
type verifC08Loc struct {
	pack restic.ID
	blob pack.Blob
}

func verifC08Handle(name string) restic.BlobHandle {
	var id restic.ID
	id[0] = verifrt.Byte(name + ".id")
	verifrt.Assume(id[0] >= 1 && id[0] <= 2)
	id[31] = 0x08
	t := restic.DataBlob
	if verifrt.Bool(name + ".tree") {
		t = restic.TreeBlob
	}
	return restic.BlobHandle{ID: id, Type: t}
}

// an arbitrary index entry: handle as above, offset/length/uncompressed length any 32-bit value
func verifC08Blob() pack.Blob {
	return pack.Blob{BlobHandle: verifC08Handle("entry"), Offset: uint(verifrt.Uint32("offset")),
		Length: uint(verifrt.Uint32("length")), UncompressedLength: uint(verifrt.Uint32("ulen"))}
}

// builds one index "file": up to maxPacks packs (IDs firstPack, firstPack+1, ...) with together at most
// *budget entries; returns the index (not finalized) and appends the recorded locations to locs
func verifC08File(firstPack byte, maxPacks int, budget *int, locs *[]verifC08Loc) *Index {
	idx := NewIndex()
	np := verifrt.Int("packs", 0, maxPacks)
	for p := 0; p < np; p++ {
		pid := verifC08Pack(firstPack + byte(p))
		nb := verifrt.Int("blobs", 0, *budget)
		*budget -= nb
		var blobs pack.Blobs
		for b := 0; b < nb; b++ {
			bl := verifC08Blob()
			blobs = append(blobs, bl)
			*locs = append(*locs, verifC08Loc{pid, bl})
		}
		idx.StorePack(pid, blobs)
	}
	return idx
}

func verifC08Same(pb *pack.PackedBlob, l verifC08Loc) bool {
	return verifC08Loc{pb.Pack, pb.Blob} == l // a single comparison term
}

// got (result of a Lookup for h) must be exactly the locations recorded for h: every returned entry is
// recorded, every recorded location is returned; if noDup, no location is returned twice.
func verifC08Check(got []*pack.PackedBlob, locs []verifC08Loc, h restic.BlobHandle, noDup bool, what string) {
	for i, pb := range got {
		verifrt.Assert(pb.Blob.BlobHandle == h, what+": Lookup returned an entry of another blob")
		found := false
		for _, l := range locs {
			if verifC08Same(pb, l) {
				found = true
				break
			}
		}
		verifrt.Assert(found, what+": Lookup returned a location that no index file records")
		if noDup {
			for j := 0; j < i; j++ {
				verifrt.Assert(*got[j] != *pb, what+": Lookup returned an exact duplicate")
			}
		}
	}
	for _, l := range locs {
		if l.blob.BlobHandle != h {
			continue
		}
		found := false
		for _, pb := range got {
			if verifC08Same(pb, l) {
				found = true
				break
			}
		}
		verifrt.Assert(found, what+": a recorded location is missing from Lookup")
	}
}

// VerifC08_IndexLookup: one Index: StorePack, then Lookup/Has/LookupSize/Values/Len against the record.
func VerifC08_IndexLookup() {
	verifrt.Stub("(*internal/repository/index.indexMap).hash", verifC08Hash)
	budget := verifrt.Param("entries", 3)
	var locs []verifC08Loc
	idx := verifC08File(1, verifrt.Param("packs", 2), &budget, &locs)

	q := verifC08Handle("q")
	got := idx.Lookup(q, nil)
	verifC08Check(got, locs, q, false, "Index")
	n := 0
	for _, l := range locs {
		if l.blob.BlobHandle == q {
			n++
		}
	}
	verifrt.Assert(len(got) == n, "Index.Lookup returned a wrong number of entries")
	verifrt.Assert(idx.Has(q) == (n > 0), "Index.Has differs from the record")
	size, ok := idx.LookupSize(q)
	verifrt.Assert(ok == (n > 0), "Index.LookupSize found-flag differs from the record")
	if ok {
		verifrt.Reach("found")
		// the size of one of the recorded copies
		match := false
		for _, l := range locs {
			if l.blob.BlobHandle == q {
				want := l.blob.UncompressedLength
				if want == 0 {
					want = uint(crypto.PlaintextLength(int(l.blob.Length)))
				}
				if want == size {
					match = true
				}
			}
		}
		verifrt.Assert(match, "Index.LookupSize returned a size that no recorded copy has")
	} else {
		verifrt.Reach("not-found")
	}

	// Values: every recorded entry once
	cnt := 0
	for pb := range idx.Values() {
		cnt++
		found := false
		for _, l := range locs {
			if verifC08Same(pb, l) {
				found = true
				break
			}
		}
		verifrt.Assert(found, "Values yielded an entry that was not stored")
	}
	verifrt.Assert(cnt == len(locs), "Values yielded a wrong number of entries")
	verifrt.Assert(int(idx.Len(restic.DataBlob)+idx.Len(restic.TreeBlob)) == len(locs), "Len differs from the number of stored entries")
}

// VerifC08_MasterLookup: two index files loaded into a MasterIndex; Lookup before and after
// MergeFinalIndexes returns exactly the recorded locations; after the merge without exact duplicates.
func VerifC08_MasterLookup() {
	verifrt.Stub("(*internal/repository/index.indexMap).hash", verifC08Hash)
	budget := verifrt.Param("entries", 3)
	var locs []verifC08Loc
	mi := NewMasterIndex()
	// both files may list pack 1 (pack IDs overlap), so exact duplicates across files are possible
	for f := 0; f < verifrt.Param("files", 2); f++ {
		idx := verifC08File(1, verifrt.Param("packs", 2), &budget, &locs)
		idx.Finalize()
		verifrt.Assert(idx.SetID(verifC08Pack(byte(100+f))) == nil, "SetID failed")
		mi.Insert(idx)
	}
	q := verifC08Handle("q")
	verifC08Check(mi.Lookup(q), locs, q, false, "before merge")
	verifrt.Assert(mi.MergeFinalIndexes() == nil, "MergeFinalIndexes failed")
	verifrt.Assert(len(mi.idx) == 1, "final indexes were not merged into one")
	after := mi.Lookup(q)
	verifC08Check(after, locs, q, true, "after merge")
	ids := mi.IDs()
	verifrt.Assert(len(ids) == verifrt.Param("files", 2), "merged index lost an index file ID")
	if len(after) > 1 {
		verifrt.Reach("several-locations")
	}
	verifrt.Reach("merged")
}

// VerifC08_EncodeDecode: Index.Encode (generatePackList) followed by DecodeIndex preserves every entry.
// encoding/json is modelled as the identity on the jsonIndex struct.
func VerifC08_EncodeDecode() {
	verifrt.Stub("(*internal/repository/index.indexMap).hash", verifC08Hash)
	var wire *jsonIndex
	verifrt.Stub("(*encoding/json.Encoder).Encode", func(_ *json.Encoder, v any) error {
		j := v.(jsonIndex)
		wire = &j
		return nil
	})
	verifrt.Stub("encoding/json.Unmarshal", func(_ []byte, v any) error {
		*(v.(*jsonIndex)) = *wire
		return nil
	})
	budget := verifrt.Param("entries", 3)
	var locs []verifC08Loc
	idx := verifC08File(1, verifrt.Param("packs", 2), &budget, &locs)
	idx.Finalize()

	var buf bytes.Buffer
	verifrt.Assert(idx.Encode(&buf) == nil, "Encode failed")
	verifrt.Assert(wire != nil, "nothing was encoded")
	fileID := verifC08Pack(200)
	dec, err := DecodeIndex(nil, fileID)
	verifrt.Assert(err == nil, "DecodeIndex failed")
	verifrt.Assert(dec.Final(), "a decoded index must be final")
	ids, err := dec.IDs()
	verifrt.Assert(err == nil && len(ids) == 1 && ids[0] == fileID, "decoded index has a wrong ID")

	q := verifC08Handle("q")
	got := dec.Lookup(q, nil)
	verifC08Check(got, locs, q, false, "decoded")
	n := 0
	for _, l := range locs {
		if l.blob.BlobHandle == q {
			n++
		}
	}
	verifrt.Assert(len(got) == n, "encode/decode changed the number of entries of a blob")
	verifrt.Assert(int(dec.Len(restic.DataBlob)+dec.Len(restic.TreeBlob)) == len(locs), "encode/decode changed the number of entries")
	verifrt.Reach("roundtrip")
}

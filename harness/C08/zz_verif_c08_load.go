package index

// C08 (loading): the real MasterIndex.Load (MemorizeList, prepareIncrementalLoad, skip of already
// loaded files, Insert, MergeFinalIndexes) over a repository whose set of index files changes
// between loads. After every Load the in-memory index must equal what a fresh MasterIndex loads
// from the same repository state: same index file IDs, same locations for every blob.
// ForAllIndexes (parallel LoadUnpacked+DecodeIndex) is replaced by a sequential loop handing out the
// decoded index of each listed file; decoding is VerifC08_EncodeDecode's subject.

import (
	"context"

	"github.com/restic/restic/internal/repository/pack"
	"github.com/restic/restic/internal/restic"
	"github.com/restic/restic/internal/verifrt"
)

type verifC08Repo struct {
	restic.ListerLoaderUnpacked
	present []bool
}

func verifC08FileID(f int) restic.ID { return verifC08Pack(byte(100 + f)) }

func (r *verifC08Repo) List(_ context.Context, t restic.FileType, fn func(restic.ID, int64) error) error {
	if t != restic.IndexFile {
		return nil
	}
	for f, p := range r.present {
		if p {
			if err := fn(verifC08FileID(f), 100); err != nil {
				return err
			}
		}
	}
	return nil
}

func (r *verifC08Repo) Connections() uint { return 2 }

// what index file f says: pack f+1 holds blob (f mod 2)+1 -- files 0 and 2 record the same blob in
// different packs -- and file 1 additionally lists pack 1 again (a pack listed by two files).
func verifC08FileLocs(f int) []verifC08Loc {
	h := func(n byte) restic.BlobHandle {
		var id restic.ID
		id[0], id[31] = n, 0x08
		return restic.BlobHandle{ID: id, Type: restic.DataBlob}
	}
	locs := []verifC08Loc{{verifC08Pack(byte(f + 1)), pack.Blob{BlobHandle: h(byte(f%2 + 1)), Offset: 0, Length: uint(40 + f)}}}
	if f == 1 {
		locs = append(locs, verifC08Loc{verifC08Pack(1), pack.Blob{BlobHandle: h(1), Offset: 0, Length: 40}})
	}
	return locs
}

func verifC08DecodedFile(f int) *Index {
	idx := NewIndex()
	for _, l := range verifC08FileLocs(f) {
		idx.StorePack(l.pack, pack.Blobs{l.blob})
	}
	idx.Finalize()
	verifrt.Assert(idx.SetID(verifC08FileID(f)) == nil, "SetID failed")
	return idx
}

var verifC08LoadCount []int

func verifC08StubForAll(ctx context.Context, lister restic.Lister, _ restic.LoaderUnpacked, fn func(id restic.ID, index *Index, err error) error) error {
	return lister.List(ctx, restic.IndexFile, func(id restic.ID, _ int64) error {
		for f := range verifC08LoadCount {
			if id == verifC08FileID(f) {
				verifC08LoadCount[f]++
				return fn(id, verifC08DecodedFile(f), nil)
			}
		}
		verifrt.Assert(false, "Load asks for an index file that was not listed")
		return nil
	})
}

func verifC08CompareToRepo(mi *MasterIndex, repo *verifC08Repo, what string) {
	var locs []verifC08Loc
	n := 0
	for f, p := range repo.present {
		if p {
			n++
			locs = append(locs, verifC08FileLocs(f)...)
		}
	}
	ids := mi.IDs()
	verifrt.Assert(len(ids) == n, what+": the loaded index names a different number of index files than the repository holds")
	for f, p := range repo.present {
		verifrt.Assert(ids.Has(verifC08FileID(f)) == p, what+": set of loaded index file IDs differs from the repository")
	}
	for b := byte(1); b <= 2; b++ {
		var id restic.ID
		id[0], id[31] = b, 0x08
		h := restic.BlobHandle{ID: id, Type: restic.DataBlob}
		verifC08Check(mi.Lookup(h), locs, h, true, what)
		_, has := mi.LookupSize(h)
		want := false
		for _, l := range locs {
			if l.blob.BlobHandle == h {
				want = true
			}
		}
		verifrt.Assert(has == want, what+": LookupSize disagrees with the index files")
	}
	packs := mi.Packs(restic.NewIDSet())
	for p := byte(1); p <= 4; p++ {
		want := false
		for _, l := range locs {
			if l.pack == verifC08Pack(p) {
				want = true
			}
		}
		verifrt.Assert(packs.Has(verifC08Pack(p)) == want, what+": set of indexed packs differs from the index files")
	}
}

// VerifC08_Load: L successive loads into the same MasterIndex; before each, every index file may
// appear or disappear (prune / repair index / another process rewriting the index).
func VerifC08_Load() {
	verifrt.Stub("(*internal/repository/index.indexMap).hash", verifC08Hash)
	verifrt.Stub("internal/repository/index.ForAllIndexes", verifC08StubForAll)
	nf := verifrt.Param("files", 3)
	repo := &verifC08Repo{present: make([]bool, nf)}
	verifC08LoadCount = make([]int, nf)
	mi := NewMasterIndex()
	changed := false
	for l := 0; l < verifrt.Param("loads", 2); l++ {
		before := append([]bool(nil), repo.present...)
		for f := range repo.present {
			repo.present[f] = verifrt.Bool("present")
		}
		if l > 0 {
			added, removed := false, false
			for f := range before {
				added = added || (!before[f] && repo.present[f])
				removed = removed || (before[f] && !repo.present[f])
			}
			if added && removed {
				verifrt.Reach("file-replaced-between-loads")
				changed = true
			}
		}
		for f := range verifC08LoadCount {
			verifC08LoadCount[f] = 0
		}
		err := mi.Load(context.Background(), repo, restic.NoopCounter, nil)
		verifrt.Assert(err == nil, "Load failed although every index file is readable")
		verifC08CompareToRepo(mi, repo, "after load")
		for f, c := range verifC08LoadCount {
			verifrt.Assert(c <= 1, "an index file was loaded twice in one Load")
			if !repo.present[f] {
				verifrt.Assert(c == 0, "an index file that is not listed was loaded")
			}
		}
	}
	_ = changed
	verifrt.Reach("loaded")
}

package repository

// C33: repair index. The real RepairIndex and the real createIndexFromPacks (worker goroutines,
// MasterIndex.StorePack / Flush) run; stubbed are the environment pieces: loading the old index
// files (JSON), reading a pack header (listPack), writing an index file (Index.SaveIndex, JSON)
// and the final index rewrite (rewriteIndexFiles -> MasterIndex.Rewrite, covered by C09).

import (
	"context"
	"errors"

	"github.com/restic/restic/internal/backend"
	"github.com/restic/restic/internal/repository/index"
	"github.com/restic/restic/internal/repository/pack"
	"github.com/restic/restic/internal/restic"
	"github.com/restic/restic/internal/verifrt"
)

type verifC33Backend struct {
	backend.Backend
	packs   []backend.FileInfo
	indexes []backend.FileInfo
}

func (b *verifC33Backend) Properties() backend.Properties {
	return backend.Properties{Connections: 1}
}

func (b *verifC33Backend) List(_ context.Context, t backend.FileType, fn func(backend.FileInfo) error) error {
	var l []backend.FileInfo
	switch t {
	case backend.PackFile:
		l = b.packs
	case backend.IndexFile:
		l = b.indexes
	}
	for _, fi := range l {
		if err := fn(fi); err != nil {
			return err
		}
	}
	return nil
}

func (b *verifC33Backend) Remove(_ context.Context, h backend.Handle) error {
	verifrt.Assert(h.Type != backend.PackFile, "repair index removes a pack file")
	return nil
}

type verifC33State struct {
	np       int
	ids      []restic.ID
	indexed  []bool
	listed   []bool
	sameSize []bool
	readable []bool
	oldBlob  []pack.Blob // entry of the old index
	newBlob  []pack.Blob // what the pack header really says
	oldMI    *index.MasterIndex
	oldIdxID restic.ID
	badIdxID restic.ID
	hasBad   bool

	reread      map[restic.ID]int
	saved       map[restic.ID]pack.Blobs // contents of newly written index files
	nsaved      int
	rewrites    int
	rwRemove    restic.IDSet
	rwOld       restic.IDSet
	rwObsolete  restic.IDs
	saveFailure bool
}

var verifC33S *verifC33State

func verifC33StubLoadIndex(r *Repository, _ context.Context, _ restic.TerminalCounterFactory, cb func(id restic.ID, idx *index.Index, err error) error) error {
	s := verifC33S
	r.idx = s.oldMI
	if s.hasBad {
		// an index file that cannot be decoded
		err := cb(s.badIdxID, nil, errors.New("invalid index"))
		verifrt.Assert(err == nil, "an undecodable index file aborts repair index")
	}
	return nil
}

func verifC33StubListPack(_ *Repository, _ context.Context, id restic.ID, size int64) (pack.Blobs, error) {
	s := verifC33S
	s.reread[id]++
	for p := 0; p < s.np; p++ {
		if s.ids[p] == id {
			verifrt.Assert(s.listed[p], "a pack that is not listed is read")
			if !s.readable[p] {
				return nil, errors.New("unreadable pack")
			}
			return pack.Blobs{s.newBlob[p]}, nil
		}
	}
	verifrt.Assert(false, "unknown pack read")
	return nil, nil
}

func verifC33StubSaveIndex(idx *index.Index, _ context.Context, _ restic.SaverUnpacked[restic.FileType]) (restic.ID, error) {
	s := verifC33S
	var id restic.ID
	id[0] = 0xd0
	id[1] = byte(s.nsaved)
	s.nsaved++
	_ = idx.SetID(id)
	if verifC33Bool("saveIndexFails") {
		s.saveFailure = true
		return id, errors.New("save failed")
	}
	for pb := range idx.Values() {
		s.saved[pb.PackID()] = append(s.saved[pb.PackID()], pb.Blob)
	}
	return id, nil
}

func verifC33StubRewrite(_ context.Context, repo *Repository, removePacks restic.IDSet, oldIndexes restic.IDSet, extraObsolete restic.IDs, _ restic.Printer) error {
	s := verifC33S
	s.rewrites++
	s.rwRemove = removePacks.Clone()
	s.rwOld = oldIndexes.Clone()
	s.rwObsolete = extraObsolete
	return nil
}

func verifC33Bool(name string) bool {
	if verifrt.Bool(name) {
		return true
	}
	return false
}

// VerifC33_RepairIndex: <=N packs, each symbolically (indexed?, listed?, listing size equal to the
// size the index implies?, header readable?); with and without --read-all-packs; optionally an
// undecodable index file; optional failure when writing a new index file.
func VerifC33_RepairIndex() {
	np := verifrt.Param("packs", 3)
	s := &verifC33State{np: np, reread: map[restic.ID]int{}, saved: map[restic.ID]pack.Blobs{}}
	verifC33S = s
	verifrt.Stub("(*internal/repository.Repository).loadIndexWithCallback", verifC33StubLoadIndex)
	verifrt.Stub("(*internal/repository.Repository).listPack", verifC33StubListPack)
	verifrt.Stub("(*internal/repository/index.Index).SaveIndex", verifC33StubSaveIndex)
	verifrt.Stub("internal/repository.rewriteIndexFiles", verifC33StubRewrite)

	// index.Full is a variable (restic's tests replace it as well): whether a preliminary index is
	// written after a pack is symbolic instead of depending on the wall clock
	index.Full = func(*index.Index) bool { return verifC33Bool("indexFull") }

	readAll := verifC33Bool("readAllPacks")
	be := &verifC33Backend{}
	old := index.NewIndex()
	for p := 0; p < np; p++ {
		var id restic.ID
		id[0] = byte(0x31 + p)
		s.ids = append(s.ids, id)
		var bid restic.ID
		bid[0] = byte(1 + p)
		ob := pack.Blob{BlobHandle: restic.BlobHandle{ID: bid, Type: restic.DataBlob}, Offset: 0, Length: uint(100 + p)}
		nb := ob
		s.indexed = append(s.indexed, verifC33Bool("indexed"))
		s.listed = append(s.listed, verifC33Bool("listed"))
		same := s.indexed[p] && s.listed[p] && verifC33Bool("sameSize")
		s.sameSize = append(s.sameSize, same)
		s.readable = append(s.readable, s.listed[p] && verifC33Bool("readable"))
		if !same {
			nb.Length = ob.Length + 7 // the real pack differs from what the old index says
		}
		s.oldBlob = append(s.oldBlob, ob)
		s.newBlob = append(s.newBlob, nb)
		if s.indexed[p] {
			old.StorePack(id, pack.Blobs{ob})
		}
		if s.listed[p] {
			// file size = blob + header (4+32) + one uncompressed entry (37)
			be.packs = append(be.packs, backend.FileInfo{Name: id.String(), Size: int64(nb.Length) + 36 + 37})
		}
	}
	old.Finalize()
	s.oldIdxID[0] = 0xe1
	_ = old.SetID(s.oldIdxID)
	s.oldMI = index.NewMasterIndex()
	s.oldMI.Insert(old)
	_ = s.oldMI.MergeFinalIndexes()
	be.indexes = append(be.indexes, backend.FileInfo{Name: s.oldIdxID.String(), Size: 1})
	s.hasBad = verifC33Bool("badIndexFile")
	if s.hasBad {
		s.badIdxID[0] = 0xe2
		be.indexes = append(be.indexes, backend.FileInfo{Name: s.badIdxID.String(), Size: 1})
	}
	// the repository starts with whatever index is in memory (RepairIndex must not depend on it)
	repo := &Repository{be: be, idx: index.NewMasterIndex(), cfg: restic.Config{Version: 2}, opts: Options{PackSize: DefaultPackSize}}

	err := RepairIndex(context.Background(), repo, RepairIndexOptions{ReadAllPacks: readAll}, restic.NewNoopPrinter())

	if s.saveFailure {
		verifrt.Assert(err != nil, "writing the new index failed but repair index reports success")
		verifrt.Assert(s.rewrites == 0, "old index files are rewritten/removed although the new index was not written")
		verifrt.Reach("save-failed")
		return
	}
	verifrt.Assert(err == nil, "repair index failed without a failing step")
	verifrt.Assert(s.rewrites == 1, "the index must be rewritten exactly once")
	for p := 0; p < np; p++ {
		id := s.ids[p]
		// specification
		wantRead := s.listed[p] && (readAll || !s.indexed[p] || !s.sameSize[p])
		wantDrop := wantRead || (s.indexed[p] && !s.listed[p] && !readAll)
		if wantRead {
			verifrt.Assert(s.reread[id] >= 1, "a pack that is unindexed or has an unexpected size is not re-read")
			verifrt.Assert(s.reread[id] == 1, "a pack is read twice")
		} else {
			verifrt.Assert(s.reread[id] == 0, "a correctly indexed pack is re-read without --read-all-packs")
		}
		if readAll {
			// old indexes are dropped wholesale (extraObsolete); removePacks only needs the re-read packs
			verifrt.Assert(s.rwRemove.Has(id) == wantRead, "wrong pack set handed to the index rewrite (read-all-packs)")
		} else {
			verifrt.Assert(s.rwRemove.Has(id) == wantDrop, "old entries of a pack are dropped/kept wrongly by the index rewrite")
		}
		// new entries: exactly the readable re-read packs, with what the header says
		nb, ok := s.saved[id]
		if wantRead && s.readable[p] {
			verifrt.Assert(ok && len(nb) == 1, "a re-read pack got no (or too many) new index entries")
			if ok && len(nb) == 1 {
				verifrt.Assert(nb[0] == s.newBlob[p], "the new index entry differs from the pack header")
			}
		} else {
			verifrt.Assert(!ok, "new index entries for a pack that was not (successfully) read")
		}
	}
	// which old index files go away
	if readAll {
		verifrt.Assert(len(s.rwObsolete) == len(be.indexes), "read-all-packs must make every old index file obsolete")
		for _, fi := range be.indexes {
			found := false
			for _, o := range s.rwObsolete {
				if o.String() == fi.Name {
					found = true
				}
			}
			verifrt.Assert(found, "read-all-packs leaves an old index file")
		}
	} else {
		verifrt.Assert(s.rwOld.Has(s.oldIdxID), "the loaded index is not among the indexes to rewrite")
		verifrt.Assert(len(s.rwOld) == 1, "only the previously loaded index files may be rewritten (the new ones hold the re-read packs)")
		if s.hasBad {
			verifrt.Assert(len(s.rwObsolete) == 1 && s.rwObsolete[0] == s.badIdxID, "the undecodable index file is not removed")
		} else {
			verifrt.Assert(len(s.rwObsolete) == 0, "an index file is made obsolete without reason")
		}
	}
	verifrt.Reach("repaired")
}

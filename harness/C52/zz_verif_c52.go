package main

import (
	"math/rand"
	"strconv"

	"github.com/restic/restic/internal/restic"
	"github.com/restic/restic/internal/verifrt"
)

// verifC52Packs builds a pack list of n packs: the first byte of every ID (the only byte the
// bucket rule looks at) is symbolic, the second byte numbers the packs so that IDs are distinct.
func verifC52Packs(n int) (map[restic.ID]int64, []restic.ID) {
	packs := make(map[restic.ID]int64, n)
	ids := make([]restic.ID, n)
	for i := 0; i < n; i++ {
		var id restic.ID
		id[0] = verifrt.Byte("first")
		id[1] = byte(i + 1)
		ids[i] = id
		packs[id] = int64(100 + i)
	}
	return packs, ids
}

// VerifC52_BucketPartition: for every first byte b, every t in [1,256] and every pair n1 != n2 in
// [1,t]: a pack is never selected by both n1/t and n2/t (disjoint), and it is selected by
// n*/t for n* = (b mod t)+1 (cover) -- hence by exactly one n. The selected map is a sub-map of
// the pack list (sizes unchanged, nothing foreign).
func VerifC52_BucketPartition() {
	npacks := verifrt.Param("packs", 2)
	packs, ids := verifC52Packs(npacks)
	t := uint(verifrt.Int("t", 1, totalBucketsMax))
	n1 := uint(verifrt.Int("n1", 1, totalBucketsMax))
	n2 := uint(verifrt.Int("n2", 1, totalBucketsMax))
	verifrt.Assume(n1 <= t && n2 <= t && n1 != n2)

	r1 := selectPacksByBucket(packs, n1, t)
	r2 := selectPacksByBucket(packs, n2, t)
	verifrt.Assert(len(r1) <= npacks && len(r2) <= npacks, "more packs selected than exist")
	for i, id := range ids {
		s1, in1 := r1[id]
		s2, in2 := r2[id]
		verifrt.Assert(!(in1 && in2), "a pack is read by two different subsets n1/t and n2/t")
		verifrt.Assert(!in1 || s1 == int64(100+i), "selected pack has a different size")
		verifrt.Assert(!in2 || s2 == int64(100+i), "selected pack has a different size")
	}
	for id, sz := range r1 {
		orig, ok := packs[id]
		verifrt.Assert(ok && orig == sz, "selection contains a pack that is not in the pack list")
	}
	// cover: the bucket that must read pack 0
	nstar := uint(ids[0][0])%t + 1
	verifrt.Assert(nstar >= 1 && nstar <= t, "covering bucket out of range")
	r := selectPacksByBucket(packs, nstar, t)
	_, in := r[ids[0]]
	verifrt.Assert(in, "a pack is read by none of the subsets 1/t .. t/t")
	verifrt.Reach("partition")
}

// VerifC52_BucketFlags: the path from the flag to the selection: for a flag value "n/t" that
// checkFlags accepts, the numbers handed to selectPacksByBucket satisfy 1 <= n <= t <= 256, and
// the union over the complementary flag values covers: the pack with first byte b is read for
// exactly the flag value (b mod t)+1 "/" t.
func VerifC52_BucketFlags() {
	var b []byte
	var parts [2]uint
	for p := 0; p < 2; p++ {
		n := verifrt.Int("ndigits", 1, 3)
		for i := 0; i < n; i++ {
			d := verifrt.Byte("digit")
			verifrt.Assume(d-'0' <= 9)
			b = append(b, d)
			parts[p] = parts[p]*10 + uint(d-'0')
		}
		if p == 0 {
			b = append(b, '/')
		}
	}
	s := string(b)
	if checkFlags(CheckOptions{ReadDataSubset: s}) != nil {
		verifrt.Reach("flags-rejected")
		return
	}
	sl, err := stringToIntSlice(s)
	verifrt.Assert(err == nil && len(sl) == 2, "accepted n/t does not parse")
	bucket, total := sl[0], sl[1]
	verifrt.Assert(bucket >= 1 && bucket <= total && total <= totalBucketsMax, "accepted n/t outside 1 <= n <= t <= 256")
	packs, ids := verifC52Packs(1)
	r := selectPacksByBucket(packs, bucket, total)
	_, in := r[ids[0]]
	want := uint(ids[0][0])%parts[1]+1 == parts[0]
	verifrt.Assert(in == want, "flag n/t selects a pack of another bucket or misses one of its own")
	verifrt.Reach("flags-accepted")
}

// verifC52Source replaces the time-seeded generator (never consulted: Perm is stubbed too).
type verifC52Source struct{}

func (verifC52Source) Int63() int64 { return 0 }
func (verifC52Source) Seed(int64)   {}

func verifC52NewSource(int64) rand.Source { return verifC52Source{} }

// verifC52Perm returns an arbitrary permutation of [0,n): Fisher-Yates with unconstrained choices.
func verifC52Perm(_ *rand.Rand, n int) []int {
	m := make([]int, n)
	for i := 0; i < n; i++ {
		m[i] = i
	}
	for i := n - 1; i > 0; i-- {
		j := verifrt.Int("swap", 0, i)
		m[i], m[j] = m[j], m[i]
	}
	return m
}

func verifC52StubRand() {
	verifrt.Stub("math/rand.NewSource", verifC52NewSource)
	verifrt.Stub("(*math/rand.Rand).Perm", verifC52Perm)
}

// verifC52Check: the random selections return a sub-map of the pack list with the expected
// number of distinct packs: at least one when packs exist, never more than exist.
func verifC52Check(packs, r map[restic.ID]int64, n int, want int) {
	verifrt.Assert(len(r) <= n, "more packs selected than exist")
	if n > 0 {
		verifrt.Assert(len(r) >= 1, "no pack selected although the repository has packs")
	} else {
		verifrt.Assert(len(r) == 0, "pack selected from an empty repository")
	}
	if want >= 0 {
		verifrt.Assert(len(r) == want, "number of selected packs differs from max(1, floor(count*percentage/100))")
	}
	for id, sz := range r {
		orig, ok := packs[id]
		verifrt.Assert(ok && orig == sz, "selection contains a pack that is not in the pack list")
	}
}

// VerifC52_PercentageSubset: selectRandomPacksByPercentage for 0..N packs, every percentage
// num/den with num in 1..100 and den in {1, 8} (all accepted by checkFlags: in (0,100]) and an
// arbitrary permutation from the random source: no index out of range, >= 1 pack when packs
// exist, exactly max(1, floor(count*p/100)) distinct packs of the list.
func VerifC52_PercentageSubset() {
	verifC52StubRand()
	n := verifrt.Int("packs", 0, verifrt.Param("packs", 4))
	cnt := 0
	for k := 0; k <= 8; k++ { // concretise the pack count
		if n == k {
			cnt = k
		}
	}
	packs, _ := verifC52Packs(cnt)
	num := verifrt.Int("num", 1, verifrt.Param("nums", 100))
	den := 1
	if verifrt.Bool("eighths") {
		den = 8
	}
	percentage := float64(num) / float64(den) // int->float conversion: one path per value
	r := selectRandomPacksByPercentage(packs, percentage)
	// integer reference: floor(cnt * num / (den*100)); cnt*num/den/100 is exact enough in float64
	// only if no rounding step crosses an integer, so compare against the rational value
	want := cnt * num / (den * 100)
	if want < 1 && cnt > 0 {
		want = 1
	}
	if (cnt*num)%(den*100) == 0 {
		want = -1 // exact multiple: floating point may land on either side; only the range is checked
	}
	verifC52Check(packs, r, cnt, want)
	verifrt.Reach("percentage")
}

// VerifC52_FileSizeSubset: the size form as doReadData drives it: subsetSize is clipped to
// repoSize, the selection is made only if repoSize > 0.
func VerifC52_FileSizeSubset() {
	verifC52StubRand()
	n := verifrt.Int("packs", 1, verifrt.Param("packs", 3))
	cnt := 0
	for k := 0; k <= 8; k++ {
		if n == k {
			cnt = k
		}
	}
	packs, _ := verifC52Packs(cnt)
	repoSize := int64(0)
	for _, sz := range packs {
		repoSize += sz
	}
	subset := int64(verifrt.Int("subset", 1, verifrt.Param("sizes", 60))) * int64(verifrt.Param("sizestep", 7))
	if subset > repoSize {
		subset = repoSize
	}
	r := selectRandomPacksByFileSize(packs, subset, repoSize)
	// expected count: max(1, floor(cnt * subset/repoSize)); exact multiples are left to the range
	// check because the floating-point result may land on either side of the integer
	want := int(int64(cnt) * subset / repoSize)
	if want < 1 {
		want = 1
	}
	if (int64(cnt)*subset)%repoSize == 0 {
		want = -1
	}
	verifC52Check(packs, r, cnt, want)
	verifrt.Reach("filesize")
}

// VerifC52_FilterExactlyOne: the pack filter that check --read-data-subset=n/t really applies (the
// closure built by buildPacksFilter), for concrete t out of {1,2,3,7,255,256} and every n in 1..t,
// on a pack whose first ID byte is arbitrary (plus a second pack): the pack is read by exactly one of
// the t subsets - also when some subsets are empty.
func VerifC52_FilterExactlyOne() {
	verifrt.Stub("math/rand.NewSource", verifC52NewSource)
	verifrt.Stub("(*math/rand.Rand).Perm", verifC52Perm)
	packs, ids := verifC52Packs(verifrt.Param("packs", 2))
	ts := []int{1, 2, 3, 256, 7, 255}[:verifrt.Param("tvalues", 4)]
	k := verifrt.Int("t", 0, len(ts)-1)
	t := ts[0]
	for i := range ts { // fork: concrete t
		if k == i {
			t = ts[i]
		}
	}
	count := make([]int, len(ids))
	for n := 1; n <= t; n++ {
		opts := CheckOptions{ReadDataSubset: strconv.Itoa(n) + "/" + strconv.Itoa(t)}
		filter, err := buildPacksFilter(opts, verifC52Printer{}, false)
		verifrt.Assert(err == nil && filter != nil, "no pack filter for a valid n/t")
		sel := filter(packs)
		verifrt.Assert(len(sel) <= len(packs), "more packs selected than exist")
		for i, id := range ids {
			if _, in := sel[id]; in {
				count[i]++
			}
		}
	}
	for i := range ids {
		verifrt.Assert(count[i] >= 1, "a pack is read by none of the subsets 1/t .. t/t")
		verifrt.Assert(count[i] == 1, "a pack is read by more than one of the subsets 1/t .. t/t")
	}
	verifrt.Reach("exactly-one")
}

type verifC52Printer struct{ restic.Printer }

func (verifC52Printer) P(string, ...any) {}
func (verifC52Printer) V(string, ...any) {}
func (verifC52Printer) E(string, ...any) {}

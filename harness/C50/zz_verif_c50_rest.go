package rest

import (
	"net/url"
	"strings"

	"github.com/restic/restic/internal/backend/location"
	"github.com/restic/restic/internal/verifrt"
)

// the characters that matter to the URL grammar around the user info
const verifC50Alpha = "a:@/%25?#"

func verifC50Field(name string, max int) string {
	n := verifrt.Int(name+".len", 1, max)
	b := make([]byte, n)
	for i := range b {
		b[i] = verifC50Alpha[verifrt.Int(name, 0, len(verifC50Alpha)-1)] // symbolic index: no fork
	}
	return string(b)
}

// verifC50Authority: the text between the scheme prefix and the first '/', '?' or '#'
func verifC50Authority(out, prefix string) string {
	rest := strings.TrimPrefix(out, prefix)
	if i := strings.IndexAny(rest, "/?#"); i >= 0 {
		rest = rest[:i]
	}
	return rest
}

// verifC50Check: s is accepted by ParseConfig with a non-empty password: the displayed form must
// carry the mask and must not carry the password in decoded, re-escaped or raw form.
func verifC50Check(s, rawP string, u *url.URL, out string) {
	pw, _ := u.User.Password()
	verifrt.Assert(strings.HasPrefix(out, "rest:http://"), "displayed location lost its scheme")
	verifrt.Assert(strings.Contains(out, ":***@"), "password set but no mask in the displayed location")
	// the password may only be looked for in the authority part: path, query and fragment are
	// displayed as they are and may happen to contain the same characters
	auth := verifC50Authority(out, "rest:http://")
	verifrt.Assert(!strings.Contains(auth, ":"+pw+"@"), "displayed location contains the decoded password")
	esc := url.UserPassword("", pw).String() // ":" + escaped password
	verifrt.Assert(!strings.Contains(auth, esc+"@"), "displayed location contains the escaped password")
	// the raw password of the input is the text between the first ':' and the last '@' of the
	// authority; in the template it always ends with rawP when the template's '@' is the last one
	if u.Host == "h" {
		verifrt.Reach("template-host")
		verifrt.Assert(strings.HasSuffix(out, ":***@h/"), "masked user info is not directly in front of the host")
		verifrt.Assert(!strings.Contains(out, rawP+"@h/"), "displayed location contains the raw password")
		// nothing but the user name stands between the scheme and the mask
		mid := out[len("rest:http://") : len(out)-len(":***@h/")]
		verifrt.Assert(mid == u.User.Username() || mid == url.User(u.User.Username()).String(),
			"text other than the (plain or escaped) user name in front of the mask")
	}
}

// VerifC50_RestStrip: rest:http://U:P@h/ with U, P of 1..N bytes over {a : @ / % 2 5 ? #}: if
// rest.ParseConfig accepts the location and it carries a non-empty password, StripPassword's
// output contains the mask ":***@" and not the password (decoded, escaped or raw); StripPassword
// never panics, also on rejected locations.
func VerifC50_RestStrip() {
	user := verifC50Field("U", verifrt.Param("ulen", 2))
	pass := verifC50Field("P", verifrt.Param("plen", 2))
	s := "rest:http://" + user + ":" + pass + "@h/"
	cfg, err := ParseConfig(s)
	out := StripPassword(s)
	if err != nil {
		verifrt.Reach("rejected")
		return
	}
	pw, set := cfg.URL.User.Password()
	if !set {
		verifrt.Reach("no-password")
		// the location has no user info as far as restic and the server are concerned
		return
	}
	if pw == "" {
		verifrt.Reach("empty-password")
		return
	}
	verifrt.Reach("password")
	verifC50Check(s, pass, cfg.URL, out)
}

// VerifC50_RestNonInterference: two locations rest:http://U:P1@h/ and rest:http://U:P2@h/ that
// are both accepted, both carry a password and agree in everything except the password are
// displayed identically: the output is not a function of the password.
func VerifC50_RestNonInterference() {
	user := verifC50Field("U", verifrt.Param("ulen", 1))
	p1 := verifC50Field("P1", verifrt.Param("p1len", 1))
	p2 := verifC50Field("P2", verifrt.Param("p2len", 1))
	s1 := "rest:http://" + user + ":" + p1 + "@h/"
	s2 := "rest:http://" + user + ":" + p2 + "@h/"
	c1, err1 := ParseConfig(s1)
	c2, err2 := ParseConfig(s2)
	if err1 != nil || err2 != nil {
		verifrt.Reach("ni-rejected")
		return
	}
	_, set1 := c1.URL.User.Password()
	_, set2 := c2.URL.User.Password()
	if !set1 || !set2 {
		verifrt.Reach("ni-no-password")
		return
	}
	u1, u2 := c1.URL, c2.URL
	same := u1.User.Username() == u2.User.Username() && u1.Host == u2.Host && u1.Path == u2.Path &&
		u1.RawPath == u2.RawPath && u1.RawQuery == u2.RawQuery && u1.Fragment == u2.Fragment &&
		u1.ForceQuery == u2.ForceQuery && u1.Opaque == u2.Opaque
	if !same {
		return
	}
	verifrt.Reach("ni-compared")
	verifrt.Assert(StripPassword(s1) == StripPassword(s2), "the displayed location depends on the password")
}

// VerifC50_RestViaRegistry: location.StripPassword with the real rest factory registered
// dispatches rest: locations to rest.StripPassword, and leaves other schemes alone.
func VerifC50_RestViaRegistry() {
	reg := location.NewRegistry()
	reg.Register(NewFactory())
	user := verifC50Field("U", 1)
	pass := verifC50Field("P", 1)
	s := "rest:http://" + user + ":" + pass + "@h/"
	verifrt.Assert(location.StripPassword(reg, s) == StripPassword(s), "location.StripPassword does not use the rest stripper for a rest: location")
	other := "rext:http://" + user + ":" + pass + "@h/"
	verifrt.Assert(location.StripPassword(reg, other) == other, "a location of an unregistered scheme was changed")
	verifrt.Reach("registry")
}

package s3

// C50, other schemes: s3:http://U:P@h/b is accepted by s3.ParseConfig (the user info is ignored, keys come from
// the environment). What the registered factory displays for the location must not contain P.

import (
	"net/url"
	"strings"

	"github.com/restic/restic/internal/verifrt"
)

const verifC50S3Alpha = "a:@/%25?#"

func verifC50S3Field(name string, max int) string {
	n := verifrt.Int(name+".len", 1, max)
	b := make([]byte, n)
	for i := range b {
		b[i] = verifC50S3Alpha[verifrt.Int(name, 0, len(verifC50S3Alpha)-1)]
	}
	return string(b)
}

func VerifC50_S3URL() {
	user := verifC50S3Field("U", verifrt.Param("ulen", 2))
	pass := verifC50S3Field("P", verifrt.Param("plen", 2))
	s := "s3:http://" + user + ":" + pass + "@h/b"
	_, err := ParseConfig(s)
	out := NewFactory().StripPassword(s)
	if err != nil {
		verifrt.Reach("rejected")
		return
	}
	u, uerr := url.Parse(s[3:])
	verifrt.Assert(uerr == nil, "ParseConfig accepted a location that is not a URL")
	pw, set := u.User.Password()
	if !set || pw == "" {
		verifrt.Reach("no-password")
		return
	}
	verifrt.Reach("password")
	verifrt.Assert(strings.HasPrefix(out, "s3:http://"), "displayed location lost its scheme")
	auth := strings.TrimPrefix(out, "s3:http://")
	if i := strings.IndexAny(auth, "/?#"); i >= 0 {
		auth = auth[:i] // only the authority part can hold the password; path, query and fragment are displayed as they are
	}
	verifrt.Assert(!strings.Contains(auth, ":"+pw+"@"), "displayed s3 location contains the decoded password")
	verifrt.Assert(!strings.Contains(auth, url.UserPassword("", pw).String()+"@"), "displayed s3 location contains the escaped password")
	if u.Host == "h" {
		verifrt.Assert(!strings.Contains(out, pass+"@h/"), "displayed s3 location contains the raw password")
	}
}

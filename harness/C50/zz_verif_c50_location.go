package location

import (
	"github.com/restic/restic/internal/verifrt"
)

type verifC50Factory struct {
	Factory
	scheme string
	calls  int
	arg    string
}

func (f *verifC50Factory) Scheme() string { return f.scheme }
func (f *verifC50Factory) StripPassword(s string) string {
	f.calls++
	f.arg = s
	return "<" + f.scheme + ">"
}

// VerifC50_Dispatch: location.StripPassword over a registry with the schemes "a" and "ab": a
// location whose text before the first ':' is a registered scheme is displayed through exactly
// that backend's stripper (called once, with the unmodified location); every other location
// (no colon, unknown scheme, empty scheme) is returned unchanged without consulting a stripper.
func VerifC50_Dispatch() {
	fa := &verifC50Factory{scheme: "a"}
	fab := &verifC50Factory{scheme: "ab"}
	reg := NewRegistry()
	reg.Register(fa)
	reg.Register(fab)
	const alpha = "ab:/@"
	n := verifrt.Int("len", 0, verifrt.Param("len", 5))
	b := make([]byte, n)
	for i := range b {
		b[i] = alpha[verifrt.Int("ch", 0, len(alpha)-1)]
	}
	s := string(b)
	out := StripPassword(reg, s)
	// reference: the scheme is the text before the first ':' (the whole string if there is none)
	colon := len(s)
	for i := len(s) - 1; i >= 0; i-- {
		if s[i] == ':' {
			colon = i
		}
	}
	scheme := s[:colon]
	switch scheme {
	case "a":
		verifrt.Reach("scheme-a")
		verifrt.Assert(fa.calls == 1 && fab.calls == 0 && fa.arg == s && out == "<a>", "location of scheme a not displayed through a's stripper")
	case "ab":
		verifrt.Reach("scheme-ab")
		verifrt.Assert(fab.calls == 1 && fa.calls == 0 && fab.arg == s && out == "<ab>", "location of scheme ab not displayed through ab's stripper")
	default:
		verifrt.Reach("scheme-other")
		verifrt.Assert(fa.calls == 0 && fab.calls == 0 && out == s, "location of an unregistered scheme was changed")
	}
}

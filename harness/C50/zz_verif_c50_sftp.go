package sftp

// C50, other schemes: sftp://U:P@h/d is accepted by sftp.ParseConfig (the password is ignored, ssh asks
// for it). What the registered factory displays for the location must not contain P.

import (
	"net/url"
	"strings"

	"github.com/restic/restic/internal/verifrt"
)

const verifC50SftpAlpha = "a:@/%25?#"

func verifC50SftpField(name string, max int) string {
	n := verifrt.Int(name+".len", 1, max)
	b := make([]byte, n)
	for i := range b {
		b[i] = verifC50SftpAlpha[verifrt.Int(name, 0, len(verifC50SftpAlpha)-1)]
	}
	return string(b)
}

func VerifC50_SftpURL() {
	user := verifC50SftpField("U", verifrt.Param("ulen", 2))
	pass := verifC50SftpField("P", verifrt.Param("plen", 2))
	s := "sftp://" + user + ":" + pass + "@h/d"
	_, err := ParseConfig(s)
	out := NewFactory().StripPassword(s)
	if err != nil {
		verifrt.Reach("rejected")
		return
	}
	u, uerr := url.Parse(s)
	verifrt.Assert(uerr == nil, "ParseConfig accepted a location that is not a URL")
	pw, set := u.User.Password()
	if !set || pw == "" {
		verifrt.Reach("no-password")
		return
	}
	verifrt.Reach("password")
	verifrt.Assert(strings.HasPrefix(out, "sftp://"), "displayed location lost its scheme")
	auth := strings.TrimPrefix(out, "sftp://")
	if i := strings.IndexAny(auth, "/?#"); i >= 0 {
		auth = auth[:i] // only the authority part can hold the password; path, query and fragment are displayed as they are
	}
	verifrt.Assert(!strings.Contains(auth, ":"+pw+"@"), "displayed sftp location contains the decoded password")
	verifrt.Assert(!strings.Contains(auth, url.UserPassword("", pw).String()+"@"), "displayed sftp location contains the escaped password")
	if u.Host == "h" {
		verifrt.Assert(!strings.Contains(out, pass+"@h/"), "displayed sftp location contains the raw password")
	}
}

package repository

import (
	"bytes"
	"context"
	"io"

	"github.com/klauspost/compress/zstd"

	"github.com/restic/restic/internal/backend"
	"github.com/restic/restic/internal/errors"
	"github.com/restic/restic/internal/repository/crypto"
	"github.com/restic/restic/internal/repository/pack"
	"github.com/restic/restic/internal/restic"
	"github.com/restic/restic/internal/verifrt"
)

// ---- crypto / compression model ("identity with tag"), installed with verifrt.Stub --------------------------
//
//   stored blob  = nonce (verifC43Nonce bytes) || body || tag (1 byte)
//   Open         = ok iff tag == verifC43Tag(nonce, body); plaintext = body (decrypted in place, like the real code)
//   compressed   = 'Z' || payload; DecodeAll = ok iff first byte is 'Z'; output = payload appended to dst
//   restic.Hash  = SHA-256 = uninterpreted function of the bytes (engine intrinsic)
//
// The real sizes (16-byte nonce, 16-byte MAC) are replaced by 1+1 so that whole packs of 3 blobs fit into <= 8
// symbolic bytes; restic's code only uses NonceSize() as a number.

const verifC43Nonce = 1

var (
	verifC43ErrAuth  = errors.New("verif: ciphertext verification failed")
	verifC43ErrZstd  = errors.New("verif: invalid compressed data")
	verifC43ErrLoad  = errors.New("verif: injected download failure")
	verifC43ErrFB    = errors.New("verif: fallback copy unavailable")
	verifC43ErrAbort = errors.New("verif: callback asked to abort")
)

func verifC43Tag(nonce []byte, body []byte) byte {
	t := byte(0x5c)
	for _, b := range nonce {
		t = t*3 + b
	}
	for _, b := range body {
		t = t*5 + b + 1
	}
	return t
}

func verifC43InstallCrypto() {
	verifrt.Stub("(*internal/repository/crypto.Key).NonceSize", func(_ *crypto.Key) int { return verifC43Nonce })
	verifrt.Stub("(*internal/repository/crypto.Key).Open", func(_ *crypto.Key, dst, nonce, ciphertext, _ []byte) ([]byte, error) {
		verifrt.Assert(len(nonce) == verifC43Nonce, "Open called with a nonce of the wrong length")
		if len(ciphertext) < 1 {
			return nil, verifC43ErrAuth
		}
		body, tag := ciphertext[:len(ciphertext)-1], ciphertext[len(ciphertext)-1]
		if tag != verifC43Tag(nonce, body) {
			return nil, verifC43ErrAuth
		}
		return append(dst, body...), nil
	})
	verifrt.Stub("(*github.com/klauspost/compress/zstd.Decoder).DecodeAll", func(_ *zstd.Decoder, in, dst []byte) ([]byte, error) {
		if len(in) < 1 || in[0] != 'Z' {
			return dst, verifC43ErrZstd
		}
		return append(dst, in[1:]...), nil
	})
}

// reference decoding of one stored blob, written from the format description above
func verifC43Decode(stored []byte, compressed bool, id restic.ID) (plain []byte, ok bool) {
	if len(stored) <= verifC43Nonce {
		return nil, false
	}
	nonce, ct := stored[:verifC43Nonce], stored[verifC43Nonce:]
	body, tag := ct[:len(ct)-1], ct[len(ct)-1]
	if tag != verifC43Tag(nonce, body) {
		return nil, false
	}
	plain = append([]byte(nil), body...)
	if compressed {
		if len(plain) < 1 || plain[0] != 'Z' {
			return nil, false
		}
		plain = plain[1:]
	}
	if restic.Hash(plain) != id {
		return nil, false
	}
	return plain, true
}

type verifC43Call struct {
	h     restic.BlobHandle
	plain []byte
	err   error
}

type verifC43World struct {
	packID restic.ID
	data   []byte // the pack file
	blobs  pack.Blobs

	loadFails   bool
	loads       int
	loadOff     []int64
	loadLen     []int
	badLoadArgs bool

	fbCalls []restic.BlobHandle
	fbPlain [][]byte // per blob index: what the fallback copy would deliver
	fbOK    []bool   // per blob index: decided (symbolically) when the fallback is consulted
	calls   []verifC43Call
	aborted bool // a callback returned an error

	// exploration budget: in requests of >= 3 blobs at most `budget` blobs are "special" (compressed, damaged,
	// served by the fallback, or rejected by the callback); smaller requests combine everything freely.
	special         map[int]bool
	fallbackSpecial bool // consulting the fallback makes a blob special (false when every blob goes there)
	late    bool // a callback was invoked after a callback had returned an error
}

func (w *verifC43World) mark(i int) {
	if i < 0 {
		return
	}
	w.special[i] = true
	if len(w.blobs) >= 3 {
		verifrt.Assume(len(w.special) <= verifrt.Param("special3", 1))
	}
}

func (w *verifC43World) index(h restic.BlobHandle) int {
	for i := range w.blobs {
		if w.blobs[i].BlobHandle == h {
			return i
		}
	}
	return -1
}

func (w *verifC43World) beLoad(_ context.Context, h backend.Handle, length int, offset int64, fn func(rd io.Reader) error) error {
	w.loads++
	w.loadOff = append(w.loadOff, offset)
	w.loadLen = append(w.loadLen, length)
	if h.Type != backend.PackFile || h.Name != w.packID.String() || offset < 0 || length < 0 {
		w.badLoadArgs = true
	}
	if w.loadFails {
		return verifC43ErrLoad
	}
	lo, hi := offset, offset+int64(length)
	if lo > int64(len(w.data)) {
		lo = int64(len(w.data))
	}
	if hi > int64(len(w.data)) {
		hi = int64(len(w.data))
	}
	return fn(bytes.NewReader(w.data[lo:hi]))
}

func (w *verifC43World) fallback(_ context.Context, h restic.BlobHandle, _ []byte) ([]byte, error) {
	w.fbCalls = append(w.fbCalls, h)
	i := w.index(h)
	verifrt.Assert(i >= 0, "fallback asked for a blob that was not requested")
	if w.fallbackSpecial {
		w.mark(i)
	}
	w.fbOK[i] = verifrt.Bool("fallbackOK")
	if !w.fbOK[i] {
		w.mark(i)
		return nil, verifC43ErrFB
	}
	return w.fbPlain[i], nil
}

func (w *verifC43World) handle(h restic.BlobHandle, buf []byte, err error) error {
	if w.aborted {
		w.late = true
	}
	w.calls = append(w.calls, verifC43Call{h, append([]byte(nil), buf...), err})
	if err != nil {
		w.mark(w.index(h))
	}
	if !w.aborted && verifrt.Bool("callbackFails") {
		w.mark(w.index(h))
		w.aborted = true
		return verifC43ErrAbort
	}
	return nil
}

func (w *verifC43World) countCalls(h restic.BlobHandle) (n int, last verifC43Call) {
	for _, c := range w.calls {
		if c.h == h {
			n++
			last = c
		}
	}
	return
}

func (w *verifC43World) countFB(h restic.BlobHandle) (n int) {
	for _, c := range w.fbCalls {
		if c == h {
			n++
		}
	}
	return
}

// verifC43Pick returns an arbitrary value of lo..hi as a concrete number (one path per value), so that the
// buffer arithmetic downstream stays concrete.
func verifC43Pick(name string, lo, hi int) int {
	x := verifrt.Int(name, lo, hi)
	for v := lo; v < hi; v++ {
		if x == v {
			return v
		}
	}
	return hi
}

// verifC43NewWorld: a pack file of P symbolic bytes and 1..N requested blobs with arbitrary offset/length inside
// the file (gaps, adjacency, overlap and too-short entries included), in arbitrary order, with distinct handles.
func verifC43NewWorld() *verifC43World {
	P := verifrt.Param("packsize", 6)
	nmax := verifrt.Param("blobs", 3)
	lmax := verifrt.Param("bloblen", 3)
	w := &verifC43World{special: map[int]bool{}, fallbackSpecial: true}
	w.packID[0] = 0x77
	w.data = verifrt.BytesN("pack", P)
	n := verifC43Pick("nblobs", 1, nmax)
	for i := 0; i < n; i++ {
		var b pack.Blob
		// ID: bytes 1..5 arbitrary; byte 0 is a distinct constant per requested blob (a request names each blob
		// once), which keeps handle comparisons concrete; the SHA-256 model leaves bytes 6.. constant 0xA5.
		idb := verifrt.BytesN("id", 5)
		for k := range b.ID {
			b.ID[k] = 0xA5
		}
		b.ID[0] = byte(0x10 + i)
		copy(b.ID[1:], idb)
		b.Type = restic.DataBlob
		l := verifC43Pick("len", 1, lmax)
		o := verifC43Pick("off", 0, P-l) // index entries lie inside the pack file
		b.Offset, b.Length = uint(o), uint(l)
		w.blobs = append(w.blobs, b)
		w.fbOK = append(w.fbOK, false)
		w.fbPlain = append(w.fbPlain, []byte{0xfb, byte(i)})
	}
	// compression only matters for requests that get as far as decoding (overlapping requests must not)
	if !w.overlapping() && verifrt.Param("compression", 1) != 0 {
		for i := range w.blobs {
			if verifrt.Bool("compressed") {
				w.blobs[i].UncompressedLength = 1 // != 0 means compressed
				w.mark(i)
			}
		}
	}
	return w
}

func (w *verifC43World) overlapping() bool {
	for i := range w.blobs {
		for j := range w.blobs {
			if i != j && w.blobs[i].Offset <= w.blobs[j].Offset && w.blobs[j].Offset < w.blobs[i].Offset+w.blobs[i].Length {
				return true
			}
		}
	}
	return false
}

// checks that hold after every streamPack call
func (w *verifC43World) checkCommon(err error, haveFallback bool) {
	verifrt.Assert(!w.badLoadArgs, "backend asked for a wrong file or range")
	verifrt.Assert(!w.late, "callback invoked after a callback returned an error")
	for _, c := range w.calls {
		verifrt.Assert(w.index(c.h) >= 0, "callback for a blob that was not requested")
	}
	for _, b := range w.blobs {
		n, _ := w.countCalls(b.BlobHandle)
		verifrt.Assert(n <= 1, "callback invoked twice for one blob")
		verifrt.Assert(w.countFB(b.BlobHandle) <= 1, "fallback consulted twice for one blob")
	}
	if !haveFallback {
		verifrt.Assert(len(w.fbCalls) == 0, "fallback used although none was given")
	}
	if w.aborted {
		verifrt.Reach("callback-abort")
		verifrt.Assert(err != nil, "a callback error was swallowed")
	}
	if err == nil {
		verifrt.Assert(len(w.calls) == len(w.blobs), "success, but not every requested blob was delivered")
	}
	// delivery order follows the pack offsets
	for k := 1; k < len(w.calls); k++ {
		a, b := w.index(w.calls[k-1].h), w.index(w.calls[k].h)
		verifrt.Assert(w.blobs[a].Offset <= w.blobs[b].Offset, "blobs not delivered in pack order")
	}
}

func (w *verifC43World) checkFallbackDelivery(i int, c verifC43Call) {
	verifrt.Assert(w.countFB(w.blobs[i].BlobHandle) == 1, "damaged or undownloadable blob: fallback not consulted")
	if w.fbOK[i] {
		verifrt.Reach("delivered-from-fallback")
		verifrt.Assert(c.err == nil, "fallback copy was available but an error was reported")
		verifrt.Assert(bytes.Equal(c.plain, w.fbPlain[i]), "fallback plaintext not forwarded")
	} else {
		verifrt.Reach("fallback-failed")
		verifrt.Assert(c.err != nil, "no intact copy anywhere, but no error reported")
	}
}

// VerifC43_StreamPack: streamPack over one small, successfully downloaded pack: exactly-once delivery with the
// right plaintext, overlap rejection, damaged blobs go to the fallback, callback errors abort.
func VerifC43_StreamPack() {
	verifC43InstallCrypto()
	w := verifC43NewWorld()
	req := append(pack.Blobs(nil), w.blobs...) // streamPack sorts its argument in place
	haveFallback := verifrt.Bool("haveFallback")
	var fb loadBlobFn
	if haveFallback {
		fb = w.fallback
	}

	err := streamPack(context.Background(), w.beLoad, fb, &zstd.Decoder{}, &crypto.Key{}, w.packID, req, w.handle)

	w.checkCommon(err, haveFallback)
	if w.overlapping() {
		verifrt.Reach("overlap")
		verifrt.Assert(err != nil, "overlapping blob entries were accepted")
		verifrt.Assert(len(w.calls) == 0, "callback invoked although the request has overlapping entries")
		return
	}
	// the download covers all requested blobs (one part: all gaps are far below 1 MiB)
	lo, hi := w.blobs[0].Offset, uint(0)
	tooShort := false
	for _, b := range w.blobs {
		if b.Offset < lo {
			lo = b.Offset
		}
		if b.Offset+b.Length > hi {
			hi = b.Offset + b.Length
		}
		if b.Length <= verifC43Nonce {
			tooShort = true
		}
	}
	verifrt.Assert(w.loads == 1 && w.loadOff[0] == int64(lo) && w.loadLen[0] == int(hi-lo), "pack not downloaded as one range from the first to the last blob")
	if err == nil {
		verifrt.Reach("success")
		verifrt.Assert(!tooShort, "success although an entry is too short to hold a nonce")
	} else {
		// damaged blobs are reported through the callback, not through the return value
		verifrt.Assert(tooShort || w.aborted, "a well-formed request failed although no callback returned an error")
	}
	// per delivered blob: what was delivered
	for i, b := range w.blobs {
		n, c := w.countCalls(b.BlobHandle)
		if n == 0 {
			continue
		}
		want, ok := verifC43Decode(w.data[b.Offset:b.Offset+b.Length], b.IsCompressed(), b.ID)
		switch {
		case ok:
			verifrt.Reach("delivered-from-pack")
			verifrt.Assert(c.err == nil, "intact blob reported as error")
			verifrt.Assert(bytes.Equal(c.plain, want), "wrong plaintext delivered")
			verifrt.Assert(w.countFB(b.BlobHandle) == 0, "fallback consulted for an intact blob")
		case haveFallback:
			w.checkFallbackDelivery(i, c)
		default:
			verifrt.Reach("damaged-no-fallback")
			verifrt.Assert(c.err != nil, "damaged blob delivered without error")
		}
	}
}

// VerifC43_DownloadFails: the backend cannot deliver the pack: with a fallback every blob of the request is
// offered through it exactly once and the result forwarded; without one the failure is returned.
func VerifC43_DownloadFails() {
	verifC43InstallCrypto()
	w := verifC43NewWorld()
	w.loadFails = true
	w.fallbackSpecial = false
	req := append(pack.Blobs(nil), w.blobs...)
	haveFallback := verifrt.Bool("haveFallback")
	var fb loadBlobFn
	if haveFallback {
		fb = w.fallback
	}

	err := streamPack(context.Background(), w.beLoad, fb, &zstd.Decoder{}, &crypto.Key{}, w.packID, req, w.handle)

	w.checkCommon(err, haveFallback)
	if w.overlapping() {
		verifrt.Assert(err != nil, "overlapping blob entries were accepted")
		verifrt.Assert(len(w.calls) == 0, "callback invoked although the request has overlapping entries")
		return
	}
	verifrt.Assert(w.loads == 1, "download not attempted exactly once")
	if !haveFallback {
		verifrt.Reach("download-failed-no-fallback")
		verifrt.Assert(err != nil, "download failure without fallback must be an error")
		verifrt.Assert(len(w.calls) == 0, "callback invoked although nothing could be downloaded")
		return
	}
	verifrt.Reach("download-failed-fallback")
	if !w.aborted {
		verifrt.Assert(err == nil, "every blob was offered through the fallback, but an error was returned")
		verifrt.Assert(len(w.calls) == len(w.blobs), "not every blob was offered through the fallback")
	}
	for i, b := range w.blobs {
		n, c := w.countCalls(b.BlobHandle)
		if n == 1 {
			w.checkFallbackDelivery(i, c)
		}
	}
}

// ---- part splitting: real streamPack, streamPackPart replaced by a recorder; offsets/lengths full width ------

type verifC43Part struct{ blobs pack.Blobs }

// VerifC43_Parts: streamPack cuts the sorted request into parts exactly at gaps > 1 MiB or where the part would
// reach 2*DefaultPackSize; the parts are consecutive, cover every blob once; overlapping entries are an error.
func VerifC43_Parts() {
	nmax := verifrt.Param("partblobs", 3)
	n := verifrt.Int("nblobs", 1, nmax)
	var blobs pack.Blobs
	for i := 0; i < n; i++ {
		var b pack.Blob
		b.ID[0] = byte(i + 1)
		b.Type = restic.DataBlob
		b.Offset = uint(verifrt.Uint64("off"))
		b.Length = uint(verifrt.Uint64("len"))
		verifrt.Assume(b.Offset < 1<<40 && b.Length < 1<<40) // pack offsets/lengths are 32-bit in the pack header
		verifrt.Assume(b.Length >= 1)                        // a stored blob is never empty (nonce + MAC)
		blobs = append(blobs, b)
	}
	var parts []verifC43Part
	partFails := -1
	if verifrt.Bool("partFails") {
		partFails = verifrt.Int("failAt", 0, n-1)
	}
	verifrt.Stub("internal/repository.streamPackPart", func(_ context.Context, _ backendLoadFn, _ loadBlobFn, _ *zstd.Decoder, _ *crypto.Key, _ restic.ID, bl pack.Blobs, _ func(restic.BlobHandle, []byte, error) error) error {
		parts = append(parts, verifC43Part{append(pack.Blobs(nil), bl...)})
		if len(parts)-1 == partFails {
			return verifC43ErrLoad
		}
		return nil
	})
	req := append(pack.Blobs(nil), blobs...)
	err := streamPack(context.Background(), nil, nil, nil, nil, restic.ID{}, req, nil)

	const maxGap = 1 << 20
	const maxChunk = 2 * DefaultPackSize
	// flatten
	var seq pack.Blobs
	for _, p := range parts {
		verifrt.Assert(len(p.blobs) > 0, "empty part")
		seq = append(seq, p.blobs...)
	}
	// every part is sorted, consecutive parts are in order, nothing twice
	for k := 1; k < len(seq); k++ {
		verifrt.Assert(seq[k-1].Offset <= seq[k].Offset, "parts are not in offset order")
	}
	for i := range blobs {
		c := 0
		for _, s := range seq {
			if s.ID == blobs[i].ID {
				c++
				verifrt.Assert(s == blobs[i], "blob entry altered")
			}
		}
		verifrt.Assert(c <= 1, "blob handed to two parts")
		if err == nil {
			verifrt.Assert(c == 1, "success, but a blob was not handed to any part")
		}
	}
	overlap := false
	for i := range blobs {
		for j := range blobs {
			if i != j && blobs[i].Offset <= blobs[j].Offset && blobs[j].Offset < blobs[i].Offset+blobs[i].Length {
				overlap = true
			}
		}
	}
	if overlap {
		verifrt.Reach("parts-overlap")
		verifrt.Assert(err != nil, "overlapping entries accepted")
	}
	if partFails >= 0 && len(parts) > partFails {
		verifrt.Assert(err != nil, "error of a part swallowed")
		verifrt.Assert(len(parts) == partFails+1, "streaming continued after a part failed")
	}
	if err != nil {
		verifrt.Assert(overlap || (partFails >= 0 && len(parts) > partFails), "a well-formed request was rejected")
		return
	}
	verifrt.Reach("parts-ok")
	for pi, p := range parts {
		first, last := p.blobs[0], p.blobs[len(p.blobs)-1]
		// inside a part: no gap above the limit; the part stays below the chunk limit unless it is a single blob
		for k := 1; k < len(p.blobs); k++ {
			verifrt.Assert(p.blobs[k].Offset-(p.blobs[k-1].Offset+p.blobs[k-1].Length) <= maxGap, "gap larger than 1 MiB downloaded")
		}
		if len(p.blobs) > 1 {
			verifrt.Assert(last.Offset+last.Length-first.Offset < maxChunk, "multi-blob part reaches the maximum chunk size")
		}
		// a cut is only made when needed
		if pi+1 < len(parts) {
			nx := parts[pi+1].blobs[0]
			gap := nx.Offset - (last.Offset + last.Length)
			verifrt.Assert(gap > maxGap || nx.Offset+nx.Length-first.Offset >= maxChunk, "pack split without need")
			verifrt.Reach("parts-split")
		}
	}
}

package restorer

import (
	"bytes"
	"context"
	"io"
	iofs "io/fs"
	"os"
	"syscall"
	"time"

	"github.com/restic/restic/internal/data"
	"github.com/restic/restic/internal/errors"
	"github.com/restic/restic/internal/fs"
	"github.com/restic/restic/internal/restic"
	"github.com/restic/restic/internal/verifrt"
)

// =====================================================================================================
// Abstract file system: ONE path of interest (dst + "/f") whose pre-existing state is arbitrary.
//
//   absent | directory (empty or not) | symlink | regular file (size 0..S, arbitrary bytes, link count 1 or 2,
//   readable or not, writable or not, mtime before/equal/after the snapshot's)
//
// restic reaches it only through fs.Lstat/OpenFile/Remove/RemoveAll/ResetPermissions/ExtendedStat,
// (*os.File).Stat/ReadAt/WriteAt/Truncate/Close, fileio.PreallocateFile. Each of these is replaced by a function
// that acts on the abstract state the way the kernel does. Attributes are drawn lazily (on first use), so a
// path only forks over what restic actually looks at.
// =====================================================================================================

const (
	verifC19Regular = 0
	verifC19Dir     = 1
	verifC19Symlink = 2
)

type verifC19Inode struct {
	kind int
	pre  bool // existed before the restore

	haveData bool
	data     []byte // concrete length == file size
	modified bool   // content or size changed by a write/truncate/allocate

	haveRead, readable   bool
	haveWrite, writable  bool
	haveLinks            bool
	links                uint64
	hardlinked           bool // had a second name when the restore started
	wasUnreadable        bool // could not be opened for reading when the restore started
	haveMtime            bool
	mtimeDelta           int // pre-existing mtime - snapshot mtime, in seconds (-1, 0, 1)
	haveEmpty, dirEmpty  bool
	readOpens, writeOpen int
}

type verifC19Handle struct {
	ino      *verifC19Inode
	writable bool
	closed   bool
}

type verifC19FS struct {
	dst, path string
	nodeMtime time.Time
	mtimeLo   int // smallest pre-existing mtime delta to consider (-1: older, equal, newer; 0: equal, newer)
	maxPre    int

	preData []byte         // the pre-existing file's bytes as they were before the restore
	cur     *verifC19Inode // what the path currently names (nil: nothing)
	preIno  *verifC19Inode // what it named before the restore (nil: nothing)
	handles map[*os.File]*verifC19Handle

	foreignPath  bool // an fs call used a path other than dst, dst/f
	followedLink bool // OpenFile without O_NOFOLLOW
	noExcl       bool // re-creation after removal without O_EXCL
	removed      bool
	preallocFail bool
}

var verifC19Epoch = time.Unix(1700000000, 0)

type verifC19FI struct {
	kind int
	size int64
	m    *verifC19FS    // the modification time is only drawn when somebody asks for it
	ino  *verifC19Inode // nil: the target directory itself
}

func (fi verifC19FI) Name() string { return "f" }
func (fi verifC19FI) Size() int64  { return fi.size }
func (fi verifC19FI) Mode() os.FileMode {
	switch fi.kind {
	case verifC19Dir:
		return os.ModeDir | 0700
	case verifC19Symlink:
		return os.ModeSymlink | 0777
	}
	return 0600
}
func (fi verifC19FI) ModTime() time.Time {
	if fi.ino == nil {
		return verifC19Epoch
	}
	return fi.m.mtime(fi.ino)
}
func (fi verifC19FI) IsDir() bool        { return fi.kind == verifC19Dir }
func (fi verifC19FI) Sys() any           { return nil }

func verifC19Pick(name string, lo, hi int) int {
	x := verifrt.Int(name, lo, hi)
	for v := lo; v < hi; v++ {
		if x == v {
			return v
		}
	}
	return hi
}

func (m *verifC19FS) content(i *verifC19Inode) []byte {
	if !i.haveData {
		i.haveData = true
		if i.pre && i.kind == verifC19Regular {
			n := verifC19Pick("preSize", 0, m.maxPre)
			i.data = verifrt.BytesN("preByte", n)
			m.preData = append([]byte(nil), i.data...)
		}
	}
	return i.data
}

func (m *verifC19FS) canRead(i *verifC19Inode) bool {
	if !i.haveRead {
		i.haveRead = true
		i.readable = !i.pre || verifrt.Bool("preReadable")
		i.wasUnreadable = !i.readable
	}
	return i.readable
}

func (m *verifC19FS) canWrite(i *verifC19Inode) bool {
	if !i.haveWrite {
		i.haveWrite = true
		i.writable = !i.pre || verifrt.Bool("preWritable")
	}
	return i.writable
}

func (m *verifC19FS) linkCount(i *verifC19Inode) uint64 {
	if !i.haveLinks {
		i.haveLinks = true
		i.links = 1
		if i.pre && i.kind == verifC19Regular && verifrt.Bool("preHardlinked") {
			i.links = 2
			i.hardlinked = true
		}
	}
	return i.links
}

func (m *verifC19FS) mtime(i *verifC19Inode) time.Time {
	if !i.pre {
		return m.nodeMtime.Add(5 * time.Second)
	}
	if !i.haveMtime {
		i.haveMtime = true
		i.mtimeDelta = verifC19Pick("preMtimeDelta", m.mtimeLo, 1)
	}
	return m.nodeMtime.Add(time.Duration(i.mtimeDelta) * time.Second)
}

func (m *verifC19FS) info(i *verifC19Inode) os.FileInfo {
	size := int64(0)
	if i.kind == verifC19Regular {
		size = int64(len(m.content(i)))
	}
	return verifC19FI{kind: i.kind, size: size, m: m, ino: i}
}

func verifC19PathErr(op, p string, e syscall.Errno) error {
	return &os.PathError{Op: op, Path: p, Err: e}
}

func (m *verifC19FS) handle(f *os.File) *verifC19Handle {
	h := m.handles[f]
	verifrt.Assert(h != nil, "file operation on a handle that was never opened")
	verifrt.Assert(!h.closed, "file operation on a closed handle")
	return h
}

func (m *verifC19FS) unlink() {
	if m.cur != nil && m.cur.kind == verifC19Regular && m.cur.haveLinks && m.cur.links > 0 {
		m.cur.links--
	}
	m.cur = nil
	m.removed = true
}

func (m *verifC19FS) install() {
	verifrt.Stub("internal/fs.MkdirAll", func(p string, _ os.FileMode) error {
		if p != m.dst {
			m.foreignPath = true
		}
		return nil
	})
	verifrt.Stub("internal/fs.Lstat", func(p string) (os.FileInfo, error) {
		if p == m.dst {
			return verifC19FI{kind: verifC19Dir}, nil
		}
		if p != m.path {
			m.foreignPath = true
			return nil, verifC19PathErr("lstat", p, syscall.ENOENT)
		}
		if m.cur == nil {
			return nil, verifC19PathErr("lstat", p, syscall.ENOENT)
		}
		return m.info(m.cur), nil
	})
	verifrt.Stub("internal/fs.OpenFile", func(p string, flag int, _ os.FileMode) (*os.File, error) {
		if p != m.path {
			m.foreignPath = true
			return nil, verifC19PathErr("open", p, syscall.ENOENT)
		}
		if flag&fs.O_NOFOLLOW == 0 {
			m.followedLink = true
		}
		wr := flag&(os.O_WRONLY|os.O_RDWR) != 0
		if m.cur == nil {
			if flag&os.O_CREATE == 0 {
				return nil, verifC19PathErr("open", p, syscall.ENOENT)
			}
			if m.removed && flag&os.O_EXCL == 0 {
				m.noExcl = true
			}
			m.cur = &verifC19Inode{kind: verifC19Regular, haveData: true}
		} else {
			if flag&os.O_CREATE != 0 && flag&os.O_EXCL != 0 {
				return nil, verifC19PathErr("open", p, syscall.EEXIST)
			}
			switch m.cur.kind {
			case verifC19Symlink:
				return nil, verifC19PathErr("open", p, syscall.ELOOP)
			case verifC19Dir:
				if wr {
					return nil, verifC19PathErr("open", p, syscall.EISDIR)
				}
			case verifC19Regular:
				if wr && !m.canWrite(m.cur) {
					return nil, verifC19PathErr("open", p, syscall.EACCES)
				}
				if !wr && !m.canRead(m.cur) {
					return nil, verifC19PathErr("open", p, syscall.EACCES)
				}
			}
		}
		verifrt.Assert(flag&os.O_TRUNC == 0 && flag&os.O_APPEND == 0, "model: O_TRUNC/O_APPEND not modelled")
		f := &os.File{}
		m.handles[f] = &verifC19Handle{ino: m.cur, writable: wr}
		return f, nil
	})
	verifrt.Stub("internal/fs.ResetPermissions", func(p string) error {
		if p != m.path {
			m.foreignPath = true
		}
		if m.cur == nil {
			return verifC19PathErr("chmod", p, syscall.ENOENT)
		}
		// chmod 0600
		m.cur.haveRead, m.cur.readable = true, true
		m.cur.haveWrite, m.cur.writable = true, true
		return nil
	})
	remove := func(p string, recursive bool) error {
		if p != m.path {
			m.foreignPath = true
			return nil
		}
		if m.cur == nil {
			if recursive {
				return nil
			}
			return verifC19PathErr("remove", p, syscall.ENOENT)
		}
		if m.cur.kind == verifC19Dir && !recursive {
			if !m.cur.haveEmpty {
				m.cur.haveEmpty = true
				m.cur.dirEmpty = verifrt.Bool("preDirEmpty")
			}
			if !m.cur.dirEmpty {
				return verifC19PathErr("remove", p, syscall.ENOTEMPTY)
			}
		}
		m.unlink()
		return nil
	}
	verifrt.Stub("internal/fs.Remove", func(p string) error { return remove(p, false) })
	verifrt.Stub("internal/fs.RemoveAll", func(p string) error { return remove(p, true) })
	verifrt.Stub("internal/fs.ExtendedStat", func(fi os.FileInfo) *fs.ExtendedFileInfo {
		// only called on the info of the handle that was just opened on the path
		links := uint64(1)
		if m.cur != nil {
			links = m.linkCount(m.cur)
		}
		return &fs.ExtendedFileInfo{Mode: fi.Mode(), Links: links, Size: fi.Size()}
	})
	verifrt.Stub("internal/fs.NodeRestoreMetadata", func(_ *data.Node, p string, _ func(string), _ func(string) bool, _ bool) error {
		if p != m.path && p != m.dst {
			m.foreignPath = true
		}
		return nil
	})
	verifrt.Stub("(*os.File).Name", func(f *os.File) string { return m.path })
	verifrt.Stub("(*os.File).Close", func(f *os.File) error {
		h := m.handles[f]
		verifrt.Assert(h != nil, "Close on a handle that was never opened")
		h.closed = true
		return nil
	})
	verifrt.Stub("(*os.File).Stat", func(f *os.File) (os.FileInfo, error) {
		return m.info(m.handle(f).ino), nil
	})
	verifrt.Stub("(*os.File).ReadAt", func(f *os.File, b []byte, off int64) (int, error) {
		h := m.handle(f)
		verifrt.Assert(!h.writable, "ReadAt on a write-only handle")
		if h.ino.kind != verifC19Regular {
			return 0, syscall.EISDIR
		}
		d := m.content(h.ino)
		n := 0
		for n < len(b) && off+int64(n) < int64(len(d)) {
			b[n] = d[off+int64(n)]
			n++
		}
		if n < len(b) {
			return n, io.EOF
		}
		return n, nil
	})
	verifrt.Stub("(*os.File).WriteAt", func(f *os.File, b []byte, off int64) (int, error) {
		h := m.handle(f)
		verifrt.Assert(h.writable, "WriteAt on a read-only handle")
		verifrt.Assert(off >= 0, "WriteAt with a negative offset")
		if len(b) == 0 {
			return 0, nil
		}
		d := m.content(h.ino)
		for int64(len(d)) < off+int64(len(b)) {
			d = append(d, 0) // the gap between the old end and the written range reads as zero
		}
		copy(d[off:], b)
		h.ino.data = d
		h.ino.modified = true
		return len(b), nil
	})
	verifrt.Stub("(*os.File).Truncate", func(f *os.File, size int64) error {
		h := m.handle(f)
		verifrt.Assert(h.writable, "Truncate on a read-only handle")
		verifrt.Assert(size >= 0, "Truncate to a negative size")
		d := m.content(h.ino)
		if int64(len(d)) != size {
			h.ino.modified = true
		}
		for int64(len(d)) < size {
			d = append(d, 0)
		}
		h.ino.data = d[:size]
		return nil
	})
	// fallocate(fd, 0, 0, size): keeps the data, extends the file to at least size (zero-filled); may be unsupported
	verifrt.Stub("internal/fileio.PreallocateFile", func(f *os.File, size int64) error {
		h := m.handle(f)
		verifrt.Assert(h.writable, "PreallocateFile on a read-only handle")
		if verifrt.Bool("preallocateFails") {
			m.preallocFail = true
			return syscall.ENOTSUP
		}
		d := m.content(h.ino)
		if int64(len(d)) < size {
			h.ino.modified = true
		}
		for int64(len(d)) < size {
			d = append(d, 0)
		}
		h.ino.data = d
		return nil
	})
}

// =====================================================================================================
// Snapshot and repository model
// =====================================================================================================

// Collision-free hash model: the ID spells out length and bytes of the blob (blobs are <= 2 bytes here).
func verifC19Hash(b []byte) restic.ID {
	var id restic.ID
	id[0] = byte(len(b)) + 1
	for i := 0; i < len(b) && i < 30; i++ {
		id[1+i] = b[i]
	}
	return id
}

type verifC19PackBlob struct {
	pack restic.ID
	h    restic.BlobHandle
	n    uint
}

func (p verifC19PackBlob) PackID() restic.ID                  { return p.pack }
func (p verifC19PackBlob) Handle() restic.BlobHandle          { return p.h }
func (p verifC19PackBlob) CiphertextLength() uint             { return p.n + 32 }
func (p verifC19PackBlob) UncompressedCiphertextLength() uint { return p.n + 32 }
func (p verifC19PackBlob) PlaintextLength() uint              { return p.n }
func (p verifC19PackBlob) IsCompressed() bool                 { return false }

type verifC19Chunker struct {
	restic.ChunkerFactory
	zero restic.ID
}

func (c verifC19Chunker) ZeroChunk() restic.ID { return c.zero }

type verifC19Repo struct {
	restic.Repository
	pack    restic.ID
	ids     []restic.ID
	blobs   [][]byte
	zero    restic.ID
	reverse bool
	loads   int
}

func (r *verifC19Repo) find(id restic.ID) int {
	for i := range r.ids {
		if r.ids[i] == id {
			return i
		}
	}
	return -1
}
func (r *verifC19Repo) Connections() uint                     { return 1 }
func (r *verifC19Repo) ChunkerFactory() restic.ChunkerFactory { return verifC19Chunker{zero: r.zero} }
func (r *verifC19Repo) LookupBlobSize(h restic.BlobHandle) (uint, bool) {
	i := r.find(h.ID)
	if i < 0 || h.Type != restic.DataBlob {
		return 0, false
	}
	return uint(len(r.blobs[i])), true
}
func (r *verifC19Repo) LookupBlob(h restic.BlobHandle) []restic.PackBlob {
	i := r.find(h.ID)
	if i < 0 || h.Type != restic.DataBlob {
		return nil
	}
	return []restic.PackBlob{verifC19PackBlob{pack: r.pack, h: h, n: uint(len(r.blobs[i]))}}
}
func (r *verifC19Repo) LoadBlobsFromPack(_ context.Context, packID restic.ID, hs []restic.BlobHandle, fn func(restic.BlobHandle, []byte, error) error) error {
	r.loads++
	verifrt.Assert(packID == r.pack, "blobs requested from an unknown pack")
	if len(hs) > 1 {
		r.reverse = verifrt.Bool("packOrderReversed") // the blobs' order inside the pack is arbitrary
	}
	for k := range hs {
		h := hs[k]
		if r.reverse {
			h = hs[len(hs)-1-k]
		}
		i := r.find(h.ID)
		verifrt.Assert(i >= 0, "unknown blob requested")
		buf := append([]byte(nil), r.blobs[i]...)
		if err := fn(h, buf, nil); err != nil {
			return err
		}
	}
	return nil
}

type verifC19World struct {
	errors int // calls of Restorer.Error (how restore reports per-file problems)
	m     *verifC19FS
	repo  *verifC19Repo
	res   *Restorer
	node  *data.Node
	whole []byte
}

// verifC19Setup: snapshot with one regular file "f" of 0..N blobs of 1..B arbitrary bytes (all-zero blobs and the
// scaled-down "zero chunk" = B zero bytes included), restored into dst over an arbitrary pre-existing state.
func verifC19Setup(mode OverwriteBehavior, sparse bool) *verifC19World {
	mtimeLo := -1
	if mode == OverwriteIfChanged {
		mtimeLo = 0 // if-changed only asks whether the times are equal
	}
	nmax := verifrt.Param("blobs", 2)
	bmax := verifrt.Param("bloblen", 2)
	m := &verifC19FS{dst: "/t", path: "/t/f", nodeMtime: verifC19Epoch, maxPre: verifrt.Param("presize", 5), mtimeLo: mtimeLo,
		handles: map[*os.File]*verifC19Handle{}}
	// The engine does not run package os's init (it talks to the kernel); give its error sentinels the values
	// that init assigns (natively these assignments change nothing).
	os.ErrNotExist, os.ErrExist, os.ErrPermission = iofs.ErrNotExist, iofs.ErrExist, iofs.ErrPermission
	verifrt.Stub("internal/restic.Hash", verifC19Hash)
	verifrt.Stub("github.com/cespare/xxhash/v2.Sum64String", func(string) uint64 { return 0 })
	tree := restic.ID{1}
	repo := &verifC19Repo{pack: restic.ID{0x77}}
	repo.zero = verifC19Hash(make([]byte, bmax))

	n := verifC19Pick("nblobs", 0, nmax)
	var content restic.IDs
	var whole []byte
	for i := 0; i < n; i++ {
		l := verifC19Pick("bloblen", 1, bmax)
		b := verifrt.BytesN("blob", l)
		id := verifC19Hash(b)
		content = append(content, id)
		repo.ids = append(repo.ids, id)
		repo.blobs = append(repo.blobs, b)
		whole = append(whole, b...)
	}
	node := &data.Node{Name: "f", Type: data.NodeTypeFile, Content: content, Size: uint64(len(whole)), ModTime: m.nodeMtime, Links: 1}
	verifrt.Stub("internal/data.LoadTree", func(_ context.Context, _ restic.BlobLoader, id restic.ID) (data.TreeNodeIterator, error) {
		verifrt.Assert(id == tree, "unknown tree requested")
		return func(yield func(data.NodeOrError) bool) {
			yield(data.NodeOrError{Node: node})
		}, nil
	})

	// pre-existing state of dst/f
	if verifrt.Bool("preExists") {
		m.preIno = &verifC19Inode{pre: true, kind: verifC19Pick("preKind", verifC19Regular, verifC19Symlink)}
		if m.preIno.kind != verifC19Regular {
			m.preIno.haveData = true
		}
		m.cur = m.preIno
	}
	m.install()

	sn := &data.Snapshot{Tree: &tree}
	res := NewRestorer(repo, sn, Options{Overwrite: mode, Sparse: sparse})
	w := &verifC19World{m: m, repo: repo, res: res, node: node, whole: whole}
	// like cmd/restic: problems with single files are reported, counted, and the restore goes on
	res.Error = func(_ string, _ error) error {
		w.errors++
		return nil
	}
	return w
}

// known restic defect (DESIGN.md section 7): a pre-existing regular file that cannot be opened for reading makes
// verifyFile fail, the restorer then treats it like a new file, keeps it sparse and skips zero bytes, so old
// bytes survive. The predicate names exactly that state.
func (w *verifC19World) knownSparseOverUnreadable(sparse bool) bool {
	p := w.m.preIno
	return sparse && p != nil && p.kind == verifC19Regular && p.wasUnreadable && !p.hardlinked
}

// second restic defect, found by this harness and confirmed natively: a pre-existing regular file with a second
// hard link is replaced by a fresh file in createFile, but the blobs that verifyFile found matching in the OLD
// file are still skipped, so their ranges stay holes. The predicate: hard-linked, readable, and at least one
// snapshot blob is already present at its offset.
func (w *verifC19World) knownHardlinkedPartialMatch() bool {
	p := w.m.preIno
	if p == nil || p.kind != verifC19Regular || !p.hardlinked || !p.haveRead || p.wasUnreadable || !p.haveData {
		return false
	}
	if w.m.cur == p {
		return false // not replaced
	}
	off := 0
	for _, b := range w.repo.blobs {
		if off+len(b) <= len(w.m.preData) && bytes.Equal(w.m.preData[off:off+len(b)], b) {
			return true
		}
		off += len(b)
	}
	return false
}

func (w *verifC19World) checkEnv() {
	m := w.m
	verifrt.Assert(!m.foreignPath, "restore touched a path other than the target file")
	verifrt.Assert(!m.followedLink, "file opened without O_NOFOLLOW")
	verifrt.Assert(!m.noExcl, "file re-created after removal without O_EXCL")
	for _, h := range m.handles {
		verifrt.Assert(h.closed, "file handle leaked")
	}
}

func (w *verifC19World) checkRestored() {
	m := w.m
	verifrt.Assert(m.cur != nil, "restore succeeded but the file does not exist")
	verifrt.Assert(m.cur.kind == verifC19Regular, "restore succeeded but the target is not a regular file")
	d := m.content(m.cur)
	verifrt.Assert(len(d) == len(w.whole), "restored file has the wrong size")
	for i := 0; i < len(d) && i < len(w.whole); i++ {
		verifrt.Assert(d[i] == w.whole[i], "restored file has wrong content")
	}
	if p := m.preIno; p != nil && p.hardlinked {
		// the old inode stays reachable through its other name: it must be replaced, never written through
		verifrt.Assert(!p.modified, "hard-linked file was modified instead of being replaced")
		verifrt.Assert(m.cur != p || !w.restoredSomething(), "hard-linked file was written through")
	}
}

func (w *verifC19World) restoredSomething() bool { return w.repo.loads > 0 }

func (w *verifC19World) checkUntouched() {
	m := w.m
	verifrt.Assert(m.cur == m.preIno, "file was replaced although the overwrite mode forbids it")
	if m.preIno != nil {
		verifrt.Assert(!m.preIno.modified, "file was modified although the overwrite mode forbids it")
	}
	verifrt.Assert(w.repo.loads == 0, "blobs were downloaded for a file that must not be restored")
}

// run performs the restore; it is successful iff RestoreTo returns nil and no problem was reported
func (w *verifC19World) run() error {
	_, err := w.res.RestoreTo(context.Background(), w.m.dst)
	if err == nil && w.errors > 0 {
		return verifC19ErrReported
	}
	return err
}

var verifC19ErrReported = errors.New("verif: restore reported a problem through Restorer.Error")

// VerifC19_Always: --overwrite always, sparse or not: success => exact snapshot content.
func VerifC19_Always() {
	sparse := verifrt.Bool("sparse")
	w := verifC19Setup(OverwriteAlways, sparse)
	err := w.run()
	verifrt.Known("C19-sparse-over-unreadable", w.knownSparseOverUnreadable(sparse))
	verifrt.Known("C19-hardlinked-partial-match", w.knownHardlinkedPartialMatch())
	w.checkEnv()
	if err != nil {
		verifrt.Reach("always-error")
		// the only modelled reason: something non-removable is in the way
		p := w.m.preIno
		verifrt.Assert(p != nil && p.kind == verifC19Dir && p.haveEmpty && !p.dirEmpty, "restore failed without an environment error")
		return
	}
	verifrt.Reach("always-restored")
	w.checkRestored()
}

// VerifC19_IfChanged: --overwrite if-changed: like always, except that a regular file with the snapshot's size and
// mtime is trusted (documented) and left untouched.
func VerifC19_IfChanged() {
	sparse := verifrt.Bool("sparse")
	w := verifC19Setup(OverwriteIfChanged, sparse)
	err := w.run()
	verifrt.Known("C19-sparse-over-unreadable", w.knownSparseOverUnreadable(sparse))
	verifrt.Known("C19-hardlinked-partial-match", w.knownHardlinkedPartialMatch())
	w.checkEnv()
	if err != nil {
		verifrt.Reach("ifchanged-error")
		p := w.m.preIno
		verifrt.Assert(p != nil && p.kind == verifC19Dir && p.haveEmpty && !p.dirEmpty, "restore failed without an environment error")
		return
	}
	p := w.m.preIno
	trusted := p != nil && p.kind == verifC19Regular && p.haveRead && p.readable && p.haveMtime && p.mtimeDelta == 0 &&
		len(w.m.preData) == len(w.whole) // its size before the restore
	if trusted {
		verifrt.Reach("ifchanged-trusted")
		w.checkUntouched()
		return
	}
	verifrt.Reach("ifchanged-restored")
	w.checkRestored()
}

// VerifC19_IfNewerNever: if-newer overwrites exactly when nothing exists or the snapshot's mtime is strictly newer;
// never overwrites exactly when nothing exists; otherwise the target is left exactly as it was.
func VerifC19_IfNewerNever() {
	sparse := verifrt.Bool("sparse")
	mode := OverwriteNever
	if verifrt.Bool("ifNewer") {
		mode = OverwriteIfNewer
	}
	w := verifC19Setup(mode, sparse)
	err := w.run()
	verifrt.Known("C19-sparse-over-unreadable", w.knownSparseOverUnreadable(sparse))
	verifrt.Known("C19-hardlinked-partial-match", w.knownHardlinkedPartialMatch())
	w.checkEnv()
	p := w.m.preIno
	overwrite := p == nil
	if p != nil && mode == OverwriteIfNewer {
		// the file's mtime was looked at by Lstat: snapshot newer <=> delta < 0
		verifrt.Assert(p.kind != verifC19Regular || p.haveMtime, "if-newer did not look at the file's mtime")
		if p.kind == verifC19Regular {
			overwrite = p.mtimeDelta < 0
		} else {
			// directories/symlinks in the way: their mtime is fixed to the epoch+pre delta as well
			overwrite = p.haveMtime && p.mtimeDelta < 0
		}
	}
	if !overwrite {
		verifrt.Reach("kept")
		verifrt.Assert(err == nil, "skipping an existing file must not be an error")
		w.checkUntouched()
		return
	}
	if err != nil {
		verifrt.Reach("newer-error")
		verifrt.Assert(p != nil && p.kind == verifC19Dir && p.haveEmpty && !p.dirEmpty, "restore failed without an environment error")
		return
	}
	verifrt.Reach("newer-restored")
	w.checkRestored()
}

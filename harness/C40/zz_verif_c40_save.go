package archiver

import (
	"context"
	"time"

	"github.com/restic/restic/internal/data"
	"github.com/restic/restic/internal/fs"
	"github.com/restic/restic/internal/restic"
	"github.com/restic/restic/internal/verifrt"
)

// environment of Archiver.save: one regular file "/f"

type verifC40File struct {
	fs.File
	fi       *fs.ExtendedFileInfo
	readable int
	closed   int
}

func (f *verifC40File) MakeReadable() error { f.readable++; return nil }
func (f *verifC40File) Close() error        { f.closed++; return nil }
func (f *verifC40File) Stat() (*fs.ExtendedFileInfo, error) {
	c := *f.fi
	return &c, nil
}
func (f *verifC40File) ToNode(_ bool, _ func(string, ...any)) (*data.Node, error) {
	return &data.Node{Name: f.fi.Name, Type: data.NodeTypeFile, Mode: f.fi.Mode, Size: uint64(f.fi.Size),
		Inode: f.fi.Inode, Links: 1, ModTime: f.fi.ModTime, ChangeTime: f.fi.ChangeTime, AccessTime: f.fi.AccessTime}, nil
}

type verifC40FS struct {
	fs.FS
	file *verifC40File
}

func (v *verifC40FS) Abs(p string) (string, error) { return p, nil }
func (v *verifC40FS) OpenFile(_ string, _ int, _ bool) (fs.File, error) {
	return v.file, nil
}

type verifC40SaveRepo struct {
	archiverRepo
	have []restic.ID
}

func (r *verifC40SaveRepo) LookupBlobSize(h restic.BlobHandle) (uint, bool) {
	for _, x := range r.have {
		if h.Type == restic.DataBlob && x == h.ID {
			return 10, true
		}
	}
	return 0, false
}

func verifC40Now() time.Time { return time.Unix(1700000000, 0) }

// VerifC40_SaveRegular: for a regular file Archiver.save reuses the previous node's content list
// (without reading the file) iff a previous node exists, it is a regular file with the same size,
// mtime, ctime (unless ignored), inode (unless ignored), and all its blobs are indexed; in every
// other case the file is handed to the file saver to be read again.
func VerifC40_SaveRegular() {
	// the clock only feeds the durations reported to CompleteItem (a no-op here); a symbolic clock
	// would drag 64-bit multiplications and float conversions (Duration.Seconds) into every query
	verifrt.Stub("time.Now", verifC40Now)
	mS, mT := verifC40Time("fi.mtime")
	cS, cT := verifC40Time("fi.ctime")
	fi := &fs.ExtendedFileInfo{Name: "f", Mode: 0o644, Size: verifrt.Int64("fi.size"), Inode: verifrt.Uint64("fi.inode"), ModTime: mT, ChangeTime: cT}
	verifrt.Assume(fi.Size >= 0)
	file := &verifC40File{fi: fi}
	repo := &verifC40SaveRepo{}
	jobs := make(chan saveFileJob, 1)
	warned := 0
	reused := uint64(0)
	arch := &Archiver{
		Repo:              repo,
		FS:                &verifC40FS{file: file},
		SelectByName:      func(string) bool { return true },
		Select:            func(string, *fs.ExtendedFileInfo, fs.FS) bool { return true },
		fileSaver:         &fileSaver{ch: jobs},
		summary:           &Summary{},
		Error:             func(_ string, _ error) error { warned++; return nil }, // like the backup command: warn and go on
		CompleteItem:      func(string, ItemAction, ItemStats, time.Duration) {},
		StartFile:         func(string) {},
		CompleteBlob:      func(n uint64) { reused += n },
		ExcludedItem:      func(string) {},
		ChangeIgnoreFlags: uint(verifrt.Uint64("flags")),
	}

	var previous *data.Node
	unchanged := false
	present := false
	if verifrt.Bool("havePrevious") {
		nmS, nmT := verifC40Time("node.mtime")
		ncS, ncT := verifC40Time("node.ctime")
		types := [...]data.NodeType{data.NodeTypeFile, data.NodeTypeDir, data.NodeTypeSymlink}
		previous = &data.Node{Name: "f", Type: types[verifrt.Int("node.type", 0, 2)], Size: verifrt.Uint64("node.size"),
			Inode: verifrt.Uint64("node.inode"), ModTime: nmT, ChangeTime: ncT}
		nc := verifrt.Int("content.n", 0, verifrt.Param("content", 2))
		present = true
		for i := 0; i < nc; i++ {
			id := restic.ID{byte(i + 1)}
			previous.Content = append(previous.Content, id)
			if verifrt.Bool("indexed") {
				repo.have = append(repo.have, id)
			} else {
				present = false
			}
		}
		unchanged = previous.Type == data.NodeTypeFile && uint64(fi.Size) == previous.Size && mS == nmS &&
			(arch.ChangeIgnoreFlags&ChangeIgnoreCtime != 0 || cS == ncS) &&
			(arch.ChangeIgnoreFlags&ChangeIgnoreInode != 0 || fi.Inode == previous.Inode)
	}

	fn, excluded, err := arch.save(context.Background(), "/f", "/f", previous, true)

	verifrt.Assert(err == nil && !excluded, "saving a readable regular file must not fail or exclude it")
	if unchanged && present {
		verifrt.Reach("reused")
		verifrt.Assert(fn.res != nil && fn.res.node != nil, "unchanged file: no immediate result")
		verifrt.Assert(len(jobs) == 0 && file.readable == 0, "unchanged file with all blobs present was read again")
		got := fn.res.node
		verifrt.Assert(len(got.Content) == len(previous.Content), "reused content list differs from the previous one")
		for i := range previous.Content {
			verifrt.Assert(got.Content[i] == previous.Content[i], "reused content list differs from the previous one")
		}
		verifrt.Assert(got.Size == uint64(fi.Size) && got.ModTime.Equal(fi.ModTime) && got.Name == "f", "reused node does not carry the current metadata")
		verifrt.Assert(file.closed == 1, "metadata handle not closed exactly once")
		verifrt.Assert(reused == previous.Size, "progress not advanced by the file size")
	} else {
		verifrt.Reach("reread")
		verifrt.Assert(fn.res == nil && len(jobs) == 1, "changed file (or missing blobs) was not handed to the file saver")
		verifrt.Assert(file.readable == 1 && file.closed == 0, "file handed to the file saver must be readable and still open")
		job := <-jobs
		verifrt.Assert(job.file == fs.File(file) && job.snPath == "/f", "wrong file handed to the file saver")
		if unchanged && !present {
			verifrt.Reach("missing-blobs")
			verifrt.Assert(warned == 1, "missing blobs of an unchanged file must be reported")
		} else {
			verifrt.Assert(warned == 0, "unexpected error report")
		}
	}
}

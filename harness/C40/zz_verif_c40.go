package archiver

import (
	"time"

	"github.com/restic/restic/internal/data"
	"github.com/restic/restic/internal/fs"
	"github.com/restic/restic/internal/restic"
	"github.com/restic/restic/internal/verifrt"
)

type verifC40Stamp struct {
	sec  int64
	nsec int64
}

// verifC40Time: an arbitrary instant with nanosecond resolution within +-2^40 s of the epoch.
func verifC40Time(name string) (verifC40Stamp, time.Time) {
	s := verifrt.Int64(name + ".sec")
	ns := verifrt.Int64(name + ".nsec")
	verifrt.Assume(s >= -(1<<40) && s <= 1<<40)
	verifrt.Assume(ns >= 0 && ns < 1000000000)
	return verifC40Stamp{s, ns}, time.Unix(s, ns)
}

// VerifC40_FileChanged: fileChanged reports "changed" iff there is no previous node, the previous
// node is not a regular file, or size, mtime, ctime (unless ignored) or inode (unless ignored) differ.
func VerifC40_FileChanged() {
	mS, mT := verifC40Time("fi.mtime")
	cS, cT := verifC40Time("fi.ctime")
	fi := &fs.ExtendedFileInfo{
		Name:       "f",
		Mode:       0o644,
		Size:       verifrt.Int64("fi.size"),
		Inode:      verifrt.Uint64("fi.inode"),
		ModTime:    mT,
		ChangeTime: cT,
		// fields that must not matter
		DeviceID:   verifrt.Uint64("fi.dev"),
		Links:      verifrt.Uint64("fi.links"),
		UID:        verifrt.Uint32("fi.uid"),
		AccessTime: time.Unix(verifrt.Int64("fi.atime")&0xffffffff, 0),
	}
	verifrt.Assume(fi.Size >= 0)
	flags := uint(verifrt.Uint64("flags"))

	if verifrt.Bool("noPrevious") {
		verifrt.Reach("no-previous")
		verifrt.Assert(fileChanged(fi, nil, flags), "a file without a previous node must count as changed")
		return
	}
	nmS, nmT := verifC40Time("node.mtime")
	ncS, ncT := verifC40Time("node.ctime")
	types := [...]data.NodeType{data.NodeTypeFile, data.NodeTypeDir, data.NodeTypeSymlink, data.NodeTypeInvalid}
	node := &data.Node{
		Name:       "f",
		Type:       types[verifrt.Int("node.type", 0, len(types)-1)],
		Size:       verifrt.Uint64("node.size"),
		Inode:      verifrt.Uint64("node.inode"),
		ModTime:    nmT,
		ChangeTime: ncT,
		DeviceID:   verifrt.Uint64("node.dev"),
		Links:      verifrt.Uint64("node.links"),
		UID:        verifrt.Uint32("node.uid"),
	}

	got := fileChanged(fi, node, flags)

	want := node.Type != data.NodeTypeFile ||
		uint64(fi.Size) != node.Size ||
		mS != nmS ||
		(flags&ChangeIgnoreCtime == 0 && cS != ncS) ||
		(flags&ChangeIgnoreInode == 0 && fi.Inode != node.Inode)
	verifrt.Assert(got == want, "fileChanged differs from: type, size, mtime, ctime (unless ignored) or inode (unless ignored) differ")
	if got {
		verifrt.Reach("changed")
	} else {
		verifrt.Reach("unchanged")
	}
}

type verifC40Repo struct {
	restic.Repository
	have []restic.BlobHandle
}

func (r *verifC40Repo) LookupBlobSize(h restic.BlobHandle) (uint, bool) {
	for _, x := range r.have {
		if x == h {
			return 10, true
		}
	}
	return 0, false
}

// VerifC40_AllBlobsPresent: the previous content may be reused iff every one of its blobs is in the
// index as a data blob.
func VerifC40_AllBlobsPresent() {
	n := verifrt.Int("content.n", 0, verifrt.Param("content", 3))
	prev := &data.Node{Name: "f", Type: data.NodeTypeFile}
	for i := 0; i < n; i++ {
		prev.Content = append(prev.Content, restic.ID{verifrt.Byte("content")})
	}
	repo := &verifC40Repo{}
	m := verifrt.Int("index.n", 0, verifrt.Param("index", 3))
	for i := 0; i < m; i++ {
		t := restic.DataBlob
		if verifrt.Bool("index.tree") {
			t = restic.TreeBlob
		}
		repo.have = append(repo.have, restic.BlobHandle{Type: t, ID: restic.ID{verifrt.Byte("index")}})
	}
	arch := &Archiver{Repo: repo}

	got := arch.allBlobsPresent(prev)

	want := true
	for _, id := range prev.Content {
		found := false
		for _, h := range repo.have {
			if h.Type == restic.DataBlob && h.ID == id {
				found = true
			}
		}
		if !found {
			want = false
		}
	}
	verifrt.Assert(got == want, "allBlobsPresent differs from: every content blob is indexed as a data blob")
	if got {
		verifrt.Reach("present")
	} else {
		verifrt.Reach("missing")
	}
}

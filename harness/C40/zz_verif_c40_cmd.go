package main

// C40 at the command level: how the real runBackup configures change detection. With the environment
// of VerifC55_RunBackup, the archiver that runBackup hands to Snapshot must ignore ctime iff
// --ignore-ctime or --ignore-inode was given and the inode iff --ignore-inode was given (an incremental
// backup must still notice a file replaced by one of equal size and mtime unless the user asked not
// to), compare against the parent snapshot that was found, and pass --skip-if-unchanged through.

import (
	"context"
	"io"

	"github.com/restic/restic/internal/archiver"
	"github.com/restic/restic/internal/data"
	"github.com/restic/restic/internal/fs"
	"github.com/restic/restic/internal/global"
	"github.com/restic/restic/internal/repository"
	"github.com/restic/restic/internal/restic"
	"github.com/restic/restic/internal/ui"
	"github.com/restic/restic/internal/ui/backup"
	"github.com/restic/restic/internal/verifrt"
)

func VerifC40_BackupOptions() {
	verifrt.Stub("internal/ui/backup.NewTextProgress", func(ui.Terminal, uint) backup.ProgressPrinter { return verifC55Printer{} })
	verifrt.Stub("internal/ui/backup.NewJSONProgress", func(ui.Terminal, uint) backup.ProgressPrinter { return verifC55Printer{} })
	verifrt.Stub("(cmd/restic.BackupOptions).Check", func(BackupOptions, global.Options, []string) error { return nil })
	verifrt.Stub("cmd/restic.collectTargets", func(BackupOptions, []string, func(string, ...any), io.ReadCloser) ([]string, error) {
		return []string{"/src"}, nil
	})
	verifrt.Stub("cmd/restic.openWithAppendLock", func(ctx context.Context, _ global.Options, _ bool, _ restic.Printer) (context.Context, *repository.Repository, func(), error) {
		return ctx, &repository.Repository{}, func() {}, nil
	})
	verifrt.Stub("internal/ui/backup.NewProgress", func(backup.ProgressPrinter, bool, bool, bool) *backup.Progress { return &backup.Progress{} })
	verifrt.Stub("(*internal/ui/backup.Progress).Done", func(*backup.Progress) {})
	verifrt.Stub("(*internal/ui/backup.Progress).Finish", func(*backup.Progress, restic.ID, *archiver.Summary, bool) {})
	verifrt.Stub("cmd/restic.collectRejectByNameFuncs", func(BackupOptions, *repository.Repository, func(string, ...any)) ([]archiver.RejectByNameFunc, error) {
		return nil, nil
	})
	verifrt.Stub("cmd/restic.collectRejectFuncs", func(BackupOptions, []string, fs.FS, func(string, ...any)) ([]archiver.RejectFunc, error) {
		return nil, nil
	})
	parent := &data.Snapshot{Hostname: "h"}
	data.TestSetSnapshotID(nil, parent, restic.ID{0x40})
	parentLookups := 0
	verifrt.Stub("cmd/restic.findParentSnapshot", func(context.Context, restic.ListerLoaderUnpacked, BackupOptions, []string, any) (*data.Snapshot, error) {
		parentLookups++
		return parent, nil
	})
	verifrt.Stub("(*internal/repository.Repository).LoadIndex", func(*repository.Repository, context.Context, restic.TerminalCounterFactory) error { return nil })
	verifrt.Stub("internal/archiver.New", func(any, fs.FS, archiver.Options) *archiver.Archiver { return &archiver.Archiver{} })
	var flags uint
	var sopts archiver.SnapshotOptions
	calls := 0
	verifrt.Stub("(*internal/archiver.Archiver).Snapshot", func(a *archiver.Archiver, _ context.Context, _ []string, o archiver.SnapshotOptions) (*data.Snapshot, restic.ID, *archiver.Summary, error) {
		calls++
		flags = a.ChangeIgnoreFlags
		sopts = o
		return &data.Snapshot{}, restic.ID{9}, &archiver.Summary{}, nil
	})

	opts := BackupOptions{NoScan: true,
		IgnoreInode:     verifrt.Bool("ignore-inode"),
		IgnoreCtime:     verifrt.Bool("ignore-ctime"),
		SkipIfUnchanged: verifrt.Bool("skip-if-unchanged"),
	}
	err := runBackup(context.Background(), opts, global.Options{JSON: verifrt.Bool("json")}, verifC55Term{}, []string{"/src"})

	verifrt.Assert(err == nil && calls == 1, "runBackup did not run the archiver exactly once")
	verifrt.Assert((flags&archiver.ChangeIgnoreInode != 0) == opts.IgnoreInode, "the inode is ignored by change detection without --ignore-inode (or not ignored with it)")
	verifrt.Assert((flags&archiver.ChangeIgnoreCtime != 0) == (opts.IgnoreCtime || opts.IgnoreInode), "ctime is ignored by change detection without --ignore-ctime/--ignore-inode (or not ignored with one of them)")
	verifrt.Assert(flags&^(archiver.ChangeIgnoreInode|archiver.ChangeIgnoreCtime) == 0, "unknown change-detection flag set")
	// (--force is implemented inside findParentSnapshot, which is replaced here)
	verifrt.Assert(parentLookups == 1 && sopts.ParentSnapshot == parent, "the parent snapshot found is not the one the archiver compares against")
	verifrt.Assert(sopts.SkipIfUnchanged == opts.SkipIfUnchanged, "--skip-if-unchanged not passed through")
	verifrt.Reach("configured")
}

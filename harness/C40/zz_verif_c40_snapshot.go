package archiver

// C40, --skip-if-unchanged: the tail of the real Archiver.Snapshot (decision to skip, snapshot fields)
// with the tree walk replaced by an arbitrary outcome: the new root tree ID equals the parent's tree or
// not, and - independently - zero or more new tree blobs were stored (a changed source can produce a
// tree whose blobs all exist already, e.g. when it returns to an earlier state). The snapshot is
// omitted exactly when the new tree is the parent's tree; otherwise it is saved with the new tree.

import (
	"context"
	"time"

	"github.com/restic/restic/internal/data"
	"github.com/restic/restic/internal/fs"
	"github.com/restic/restic/internal/restic"
	"github.com/restic/restic/internal/verifrt"
)

type verifC40SnapRepo struct {
	archiverRepo
}

func (verifC40SnapRepo) WithBlobUploader(ctx context.Context, fn func(ctx context.Context, uploader restic.BlobSaverWithAsync) error) error {
	return fn(ctx, nil)
}

func VerifC40_SnapshotSkip() {
	parentTree := restic.ID{0x11}
	otherTree := restic.ID{0x22}
	sameTree := verifrt.Bool("newTreeEqualsParentTree")
	root := otherTree
	if sameTree {
		root = parentTree
	}
	newTreeBlobs := verifrt.Int("newTreeBlobs", 0, 2)
	newDataBlobs := verifrt.Int("newDataBlobs", 0, 1)

	verifrt.Stub("internal/archiver.resolveRelativeTargets", func(_ fs.FS, targets []string) ([]backupTarget, error) { return nil, nil })
	verifrt.Stub("internal/archiver.newTree", func(fs.FS, []backupTarget) (*tree, error) { return &tree{}, nil })
	verifrt.Stub("(*internal/archiver.Archiver).runWorkers", func(*Archiver, context.Context, any, any) {})
	verifrt.Stub("(*internal/archiver.Archiver).stopWorkers", func(*Archiver) {})
	verifrt.Stub("(*internal/archiver.Archiver).loadParentTree", func(*Archiver, context.Context, *data.Snapshot) data.TreeNodeIterator { return nil })
	verifrt.Stub("(*internal/archiver.Archiver).saveTree", func(arch *Archiver, _ context.Context, _ string, _ *tree, _ data.TreeNodeIterator, _ fileCompleteFunc) (futureNode, int, error) {
		arch.summary.ItemStats.TreeBlobs = newTreeBlobs
		arch.summary.ItemStats.DataBlobs = newDataBlobs
		r := root
		return newFutureNodeWithResult(futureNodeResult{node: &data.Node{Name: "/", Type: data.NodeTypeDir, Subtree: &r}}), 1, nil
	})
	var saved *data.Snapshot
	verifrt.Stub("internal/data.SaveSnapshot", func(_ context.Context, _ restic.SaverUnpacked[restic.WriteableFileType], sn *data.Snapshot) (restic.ID, error) {
		verifrt.Assert(saved == nil, "snapshot saved twice")
		saved = sn
		return restic.ID{0x99}, nil
	})

	arch := &Archiver{Repo: verifC40SnapRepo{}}
	opts := SnapshotOptions{Hostname: "h", Time: time.Unix(1700000000, 0), SkipIfUnchanged: verifrt.Bool("skipIfUnchanged")}
	hasParent := verifrt.Bool("hasParent")
	var parent *data.Snapshot
	if hasParent {
		parent = &data.Snapshot{Hostname: "h"}
		if !verifrt.Bool("parentWithoutTree") {
			pt := parentTree
			parent.Tree = &pt
		}
		data.TestSetSnapshotID(nil, parent, restic.ID{0x77})
		opts.ParentSnapshot = parent
	}

	sn, id, summary, err := arch.Snapshot(context.Background(), []string{"/src"}, opts)

	verifrt.Assert(err == nil && summary != nil, "Snapshot failed although nothing failed")
	wantSkip := opts.SkipIfUnchanged && hasParent && parent.Tree != nil && sameTree
	if wantSkip {
		verifrt.Reach("skipped")
		verifrt.Assert(sn == nil && saved == nil && id.IsNull(), "a snapshot was written although the tree is the parent's tree and --skip-if-unchanged was given")
		return
	}
	verifrt.Reach("saved")
	verifrt.Assert(sn != nil && saved == sn, "no snapshot was written although the new tree differs from the parent's tree (or skipping was not requested)")
	verifrt.Assert(sn.Tree != nil && *sn.Tree == root, "the snapshot does not point to the tree just saved")
	if hasParent {
		verifrt.Assert(sn.Parent != nil && *sn.Parent == *parent.ID(), "the snapshot does not name its parent")
	} else {
		verifrt.Assert(sn.Parent == nil, "a snapshot without parent names one")
	}
	verifrt.Assert(sn.Summary != nil && sn.Summary.TreeBlobs == newTreeBlobs && sn.Summary.DataBlobs == newDataBlobs, "the snapshot summary does not report the stored blobs")
}

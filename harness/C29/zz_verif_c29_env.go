package repository

// C29 environment: a key directory behind a backend stub that logs every operation, an ideal-AEAD /
// uninterpreted-KDF model of the crypto and identity codecs in place of encoding/json.
// Shared by the harnesses in this package and in cmd/restic (hence the exported names).

import (
	"bytes"
	"context"
	"hash"
	"io"
	"sync"
	"time"

	"github.com/restic/restic/internal/backend"
	"github.com/restic/restic/internal/errors"
	"github.com/restic/restic/internal/repository/crypto"
	"github.com/restic/restic/internal/restic"
	"github.com/restic/restic/internal/verifrt"
)

// VerifC29Event is one backend-level operation of the trace.
type VerifC29Event struct {
	Op      string // "save", "load", "list", "remove", "config"
	Name    string // file name (key files only)
	OK      bool   // outcome reported to restic
	Applied bool   // save: file exists afterwards; remove: file is gone afterwards
	Broken  bool   // save: the key file does not open with its own password (sealed wrongly)
	InUse   string // remove: name of the key the repository was using at that moment
}

// VerifC29Env is the backend stub plus the model state.
type VerifC29Env struct {
	backend.Backend
	Repo   *Repository
	Names  []string
	Data   [][]byte
	Live   []bool
	Broken []bool
	Trace  []VerifC29Event

	Pws []string // password each key file was created with (the last one given to the KDF before the save)

	kdfCalls []verifC29KDFCall
	lastPw   string
	master   *crypto.Key

	hashed [][]byte // contents that were hashed so far (ideal hash model)
	salts  [][]byte

	Faults     bool // Save/Load/List/Remove/LoadConfig may fail
	SealFaults bool // Seal may produce a ciphertext that does not authenticate (a "broken key")
	sealBroken bool
}

func (e *VerifC29Env) fail(name string) bool {
	return e.Faults && verifrt.Bool(name)
}

func (e *VerifC29Env) Hasher() hash.Hash { return nil }

func (e *VerifC29Env) IsNotExist(err error) bool { return false }

func (e *VerifC29Env) Connections() uint { return 2 }

func (e *VerifC29Env) Save(_ context.Context, h backend.Handle, rd backend.RewindReader) error {
	verifrt.Assert(h.Type == backend.KeyFile, "only key files are written by key operations")
	data, err := io.ReadAll(rd)
	if err != nil {
		return err
	}
	broken := e.sealBroken
	e.sealBroken = false
	if e.fail("saveFails") {
		// atomic save: a failed save leaves nothing behind
		e.Trace = append(e.Trace, VerifC29Event{Op: "save", Name: h.Name, OK: false})
		return errors.New("save failed")
	}
	e.Names = append(e.Names, h.Name)
	e.Data = append(e.Data, data)
	e.Live = append(e.Live, true)
	e.Broken = append(e.Broken, broken)
	e.Pws = append(e.Pws, e.lastPw)
	e.Trace = append(e.Trace, VerifC29Event{Op: "save", Name: h.Name, OK: true, Applied: true, Broken: broken})
	return nil
}

func (e *VerifC29Env) find(name string) int {
	for i := range e.Names {
		if e.Live[i] && e.Names[i] == name {
			return i
		}
	}
	return -1
}

func (e *VerifC29Env) Load(_ context.Context, h backend.Handle, length int, offset int64, fn func(rd io.Reader) error) error {
	verifrt.Assert(h.Type == backend.KeyFile, "only key files are read by key operations (LoadConfig is stubbed)")
	verifrt.Assert(length == 0 && offset == 0, "key files are loaded as a whole")
	i := e.find(h.Name)
	if i < 0 || e.fail("loadFails") {
		e.Trace = append(e.Trace, VerifC29Event{Op: "load", Name: h.Name, OK: false})
		return errors.New("load failed")
	}
	e.Trace = append(e.Trace, VerifC29Event{Op: "load", Name: h.Name, OK: true})
	return fn(&verifC29Reader{data: e.Data[i]})
}

type verifC29Reader struct {
	data []byte
	pos  int
}

func (r *verifC29Reader) Read(p []byte) (int, error) {
	if r.pos >= len(r.data) {
		return 0, io.EOF
	}
	n := copy(p, r.data[r.pos:])
	r.pos += n
	return n, nil
}

// List delivers a snapshot of the directory in creation order and, like every restic backend, stops
// as soon as the context is cancelled.
func (e *VerifC29Env) List(ctx context.Context, t backend.FileType, fn func(backend.FileInfo) error) error {
	verifrt.Assert(t == backend.KeyFile, "only key files are listed")
	if e.fail("listFails") {
		e.Trace = append(e.Trace, VerifC29Event{Op: "list", OK: false})
		return errors.New("list failed")
	}
	e.Trace = append(e.Trace, VerifC29Event{Op: "list", OK: true})
	n := len(e.Names)
	snap := make([]bool, n)
	copy(snap, e.Live)
	for i := 0; i < n; i++ {
		if !snap[i] {
			continue
		}
		if ctx.Err() != nil {
			return ctx.Err()
		}
		if err := fn(backend.FileInfo{Name: e.Names[i], Size: int64(len(e.Data[i]))}); err != nil {
			return err
		}
	}
	return ctx.Err()
}

func (e *VerifC29Env) Remove(_ context.Context, h backend.Handle) error {
	verifrt.Assert(h.Type == backend.KeyFile, "only key files are removed by key operations")
	ev := VerifC29Event{Op: "remove", Name: h.Name, OK: true, Applied: true, InUse: e.Repo.keyID.String()}
	if e.fail("removeFails") {
		ev.OK = false
		ev.Applied = verifrt.Bool("removedAnyway")
	}
	if ev.Applied {
		if i := e.find(h.Name); i >= 0 {
			e.Live[i] = false
		}
	}
	e.Trace = append(e.Trace, ev)
	if !ev.OK {
		return errors.New("remove failed")
	}
	return nil
}

// hash: ideal collision-free hash with concrete values: the k-th distinct content gets the ID {k,0,0,...}.
func (e *VerifC29Env) hash(data []byte) restic.ID {
	for i, c := range e.hashed {
		if bytes.Equal(c, data) {
			return restic.ID{byte(i + 1)}
		}
	}
	e.hashed = append(e.hashed, append([]byte(nil), data...))
	return restic.ID{byte(len(e.hashed))}
}

// ---- crypto model -------------------------------------------------------------------------------

// VerifC29Derive: the KDF as an uninterpreted function of (password, salt).
func VerifC29Derive(password string, salt []byte) uint64 {
	args := []uint64{uint64(len(password))}
	for i := 0; i < len(password); i++ {
		args = append(args, uint64(password[i]))
	}
	for _, c := range salt {
		args = append(args, uint64(c))
	}
	return verifrt.UF64("c29kdf", args...)
}

type verifC29KDFCall struct {
	salt     []byte
	password string
	v        uint64
}

// kdf: uninterpreted function of (password, salt), injective in the password for each salt on the
// calls that are made (scrypt is assumed collision-free).
func (e *VerifC29Env) kdf(_ crypto.Params, salt []byte, password string) (*crypto.Key, error) {
	v := VerifC29Derive(password, salt)
	for _, c := range e.kdfCalls {
		if bytes.Equal(c.salt, salt) {
			verifrt.Assume(c.password == password || c.v != v)
		}
	}
	e.kdfCalls = append(e.kdfCalls, verifC29KDFCall{salt: append([]byte(nil), salt...), password: password, v: v})
	e.lastPw = password
	k := &crypto.Key{}
	// derived keys are valid (non-zero) keys: byte 0 is 1 so that Valid() decides at once
	k.EncryptionKey[0] = 1
	for i := 0; i < 8; i++ {
		k.EncryptionKey[1+i] = byte(v >> (8 * uint(i)))
	}
	k.MACKey.K[0] = 1
	k.MACKey.R[0] = 1
	return k, nil
}

// ideal AEAD: Open(k', nonce, Seal(k, nonce, m)) = m if k' == k, ErrUnauthenticated otherwise.
// The tag is the sealing key itself (restic never looks at the tag).
func (e *VerifC29Env) seal(k *crypto.Key, dst, _ /*nonce*/, plaintext, _ []byte) []byte {
	dst = append(dst, plaintext...)
	tag := make([]byte, 16)
	copy(tag, k.EncryptionKey[1:9])
	if e.SealFaults && verifrt.Bool("sealBroken") {
		// fault: the ciphertext will not authenticate
		tag[8] = 1
		e.sealBroken = true
	}
	return append(dst, tag...)
}

func verifC29Open(k *crypto.Key, dst, _ /*nonce*/, ciphertext, _ []byte) ([]byte, error) {
	if len(ciphertext) < 16 {
		return nil, errors.New("ciphertext too short")
	}
	l := len(ciphertext) - 16
	tag := ciphertext[l:]
	if tag[8] != 0 || !bytes.Equal(tag[:8], k.EncryptionKey[1:9]) {
		return nil, crypto.ErrUnauthenticated
	}
	return append(dst, ciphertext[:l]...), nil
}

// ---- codecs in place of encoding/json --------------------------------------------------------------

const verifC29SaltLen = 2

func verifC29Marshal(v any) ([]byte, error) {
	switch t := v.(type) {
	case *crypto.Key:
		// the master key is abstracted to three bytes
		return []byte{t.EncryptionKey[0], t.MACKey.K[0], t.MACKey.R[0]}, nil
	case *Key:
		verifrt.Assert(t.KDF == "scrypt" && len(t.Salt) == verifC29SaltLen, "key file with unexpected KDF fields")
		out := append([]byte(nil), t.Salt...)
		return append(out, t.Data...), nil
	}
	verifrt.Assert(false, "json.Marshal stub: unexpected type")
	return nil, nil
}

func verifC29Unmarshal(data []byte, v any) error {
	switch t := v.(type) {
	case *crypto.Key:
		if len(data) != 3 {
			return errors.New("json: not a master key")
		}
		t.EncryptionKey[0], t.MACKey.K[0], t.MACKey.R[0] = data[0], data[1], data[2]
		return nil
	case *Key:
		if len(data) < verifC29SaltLen {
			return errors.New("json: not a key file")
		}
		t.KDF = "scrypt"
		t.N, t.R, t.P = 1, 1, 1
		t.Salt = append([]byte(nil), data[:verifC29SaltLen]...)
		t.Data = append([]byte(nil), data[verifC29SaltLen:]...)
		return nil
	}
	verifrt.Assert(false, "json.Unmarshal stub: unexpected type")
	return nil
}

// VerifC29NewEnv installs the stubs and returns an empty key directory with a repository on it.
func VerifC29NewEnv() *VerifC29Env {
	e := &VerifC29Env{}
	e.Repo = &Repository{be: e}
	verifrt.Stub("internal/repository/crypto.KDF", e.kdf)
	verifrt.Stub("internal/repository/crypto.Calibrate", func(time.Duration, int) (crypto.Params, error) {
		return crypto.Params{N: 1, R: 1, P: 1}, nil
	})
	verifrt.Stub("internal/repository/crypto.NewSalt", func() ([]byte, error) {
		// a fresh random salt differs from all earlier ones
		salt := verifrt.BytesN("salt", verifC29SaltLen)
		for _, o := range e.salts {
			verifrt.Assume(!bytes.Equal(o, salt))
		}
		e.salts = append(e.salts, salt)
		return append([]byte(nil), salt...), nil
	})
	verifrt.Stub("internal/restic.Hash", e.hash)
	verifrt.Stub("internal/repository/crypto.NewRandomNonce", func() []byte { return make([]byte, 16) })
	verifrt.Stub("internal/repository/crypto.NewRandomKey", func() *crypto.Key {
		k := &crypto.Key{}
		k.EncryptionKey[0], k.MACKey.K[0], k.MACKey.R[0] = verifrt.Byte("master"), verifrt.Byte("master"), verifrt.Byte("master")
		// a fresh random master key is valid
		verifrt.Assume(k.EncryptionKey[0] != 0 && k.MACKey.K[0] != 0 && k.MACKey.R[0] != 0)
		return k
	})
	verifrt.Stub("(*internal/repository/crypto.Key).Seal", e.seal)
	verifrt.Stub("(*internal/repository/crypto.Key).Open", verifC29Open)
	verifrt.Stub("encoding/json.Marshal", verifC29Marshal)
	verifrt.Stub("encoding/json.Unmarshal", verifC29Unmarshal)
	verifrt.Stub("(*sync.Map).Load", func(*sync.Map, any) (any, bool) { return nil, false })
	verifrt.Stub("time.Now", func() time.Time { return time.Time{} })
	verifrt.Stub("internal/restic.LoadConfig", func(context.Context, restic.LoaderUnpacked) (restic.Config, error) {
		if e.fail("configFails") {
			e.Trace = append(e.Trace, VerifC29Event{Op: "config", OK: false})
			return restic.Config{}, errors.New("config cannot be loaded")
		}
		e.Trace = append(e.Trace, VerifC29Event{Op: "config", OK: true})
		return restic.Config{Version: 2}, nil
	})
	return e
}

// VerifC29AddKey creates a key file with the real AddKey: the first one with a fresh master key, later
// ones with that master key as template (what `init` and `key add` do). Fault injection is off meanwhile.
func (e *VerifC29Env) VerifC29AddKey(password string) restic.ID {
	f, sf := e.Faults, e.SealFaults
	e.Faults, e.SealFaults = false, false
	k, err := AddKey(context.Background(), e.Repo, password, "user", "host", e.master)
	e.Faults, e.SealFaults = f, sf
	verifrt.Assert(err == nil, "AddKey failed on a healthy backend")
	if err != nil {
		return restic.ID{}
	}
	if e.master == nil {
		e.master = k.master
	}
	return k.id
}

// VerifC29MasterOK reports whether the repository uses the master key of the first key file.
func (e *VerifC29Env) VerifC29MasterOK() bool {
	return e.Repo.key != nil && e.master != nil && *e.Repo.key == *e.master
}

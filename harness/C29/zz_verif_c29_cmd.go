package main

// C29 (part 2): `key passwd`, `key add`, `key remove` against the event-logging key directory of
// internal/repository/zz_verif_c29_env.go with symbolic failures of every backend operation and of
// the sealing of the new key.

import (
	"context"

	"github.com/restic/restic/internal/global"
	"github.com/restic/restic/internal/repository"
	"github.com/restic/restic/internal/restic"
	"github.com/restic/restic/internal/verifrt"
)

type verifC29State struct {
	env *repository.VerifC29Env
	ids []restic.ID
	pws []string
	cur int // the key the repository was opened with
	n0  int // number of key files before the operation
}

// verifC29Open: a repository with 1..max key files (free passwords), opened with key `cur` by hint.
func verifC29Open(max int) *verifC29State {
	s := &verifC29State{env: repository.VerifC29NewEnv()}
	n := verifrt.Int("nkeys", 1, max)
	for i := 0; i < n; i++ {
		pw := verifrt.StringN("pw", 1)
		s.pws = append(s.pws, pw)
		s.ids = append(s.ids, s.env.VerifC29AddKey(pw))
	}
	s.n0 = n
	s.cur = verifrt.Int("current", 0, n-1)
	err := s.env.Repo.SearchKey(context.Background(), s.pws[s.cur], 0, s.ids[s.cur].String())
	verifrt.Assert(err == nil && s.env.Repo.KeyID() == s.ids[s.cur], "cannot open the repository with a hinted key and its password")
	s.env.Trace = nil
	s.env.Faults = true
	s.env.SealFaults = true
	return s
}

// verifC29Replay walks the trace: after every event at least one key file exists that opens with its
// password; no Remove is ever issued for the key the repository is using at that moment. Returns the
// index of the first Remove event for name (or -1).
func (s *verifC29State) replay() {
	e := s.env
	live := make([]bool, len(e.Names))
	for i := 0; i < s.n0; i++ {
		live[i] = true
	}
	saves := 0
	for _, ev := range e.Trace {
		switch ev.Op {
		case "save":
			if ev.Applied {
				live[s.n0+saves] = true
				saves++
			}
		case "remove":
			verifrt.Assert(ev.Name != ev.InUse, "Remove issued for the key the repository is using")
			if ev.Applied {
				for i := range e.Names {
					if e.Names[i] == ev.Name {
						live[i] = false
					}
				}
			}
		}
		working := false
		for i := range live {
			if live[i] && !e.Broken[i] {
				working = true
			}
		}
		verifrt.Assert(working, "after this backend operation no working key is left in the repository")
	}
	for i := range live {
		verifrt.Assert(live[i] == e.Live[i], "harness: replayed state differs from the backend stub's state")
	}
}

// opensWith: some key file that exists now and is not broken was created with pw.
func (s *verifC29State) opensWith(pw string) bool {
	e := s.env
	for i := range e.Names {
		if e.Live[i] && !e.Broken[i] && e.Pws[i] == pw {
			return true
		}
	}
	return false
}

func (s *verifC29State) firstEvent(op, name string, okOnly bool) int {
	for i, ev := range s.env.Trace {
		if ev.Op == op && (name == "" || ev.Name == name) && (ev.OK || !okOnly) {
			return i
		}
	}
	return -1
}

// VerifC29_Passwd: changePassword.
func VerifC29_Passwd() {
	s := verifC29Open(verifrt.Param("keys", 2))
	e := s.env
	newpw := verifrt.StringN("newpw", 1)
	testKeyNewPassword = newpw
	old := s.ids[s.cur].String()

	err := changePassword(context.Background(), e.Repo, global.Options{}, KeyPasswdOptions{KeyAddOptions{Username: "user", Hostname: "host"}}, restic.NewNoopPrinter())

	s.replay()
	verifrt.Assert(len(e.Names) <= s.n0+1, "key passwd saved more than one key file")
	// the old key is removed only after the new key file was saved, a key was opened with the new password
	// (SearchKey with the new key as hint) and the config could be decrypted with it; unless another old key
	// has the new password too, that key is the new one, loaded back from the backend and not broken
	otherSame := false
	for i := 0; i < s.n0; i++ {
		if i != s.cur && s.pws[i] == newpw {
			otherSame = true
		}
	}
	rm := s.firstEvent("remove", old, false)
	if rm >= 0 {
		verifrt.Assert(len(e.Names) == s.n0+1, "old key removed although no new key was saved")
		newName := e.Names[len(e.Names)-1]
		sv := s.firstEvent("save", newName, true)
		cf := s.firstEvent("config", "", true)
		verifrt.Assert(sv >= 0 && cf > sv && rm > cf, "old key removed before the new key was saved and the new password verified")
		inUse := e.Trace[rm].InUse
		verifrt.Assert(inUse != old, "old key removed while still in use")
		usable := false
		for i := range e.Names {
			if e.Names[i] == inUse && !e.Broken[i] && e.Pws[i] == newpw && e.Live[i] {
				usable = true
			}
		}
		verifrt.Assert(usable, "old key removed while the repository uses a key that does not exist, is broken or has another password")
		if !otherSame {
			ld := s.firstEvent("load", newName, true)
			verifrt.Assert(inUse == newName && !e.Broken[s.n0], "old key removed without switching to a working new key")
			verifrt.Assert(ld > sv && ld < cf, "old key removed before the new key was read back and verified")
		}
	}
	for i := 0; i < s.n0; i++ {
		if i != s.cur {
			verifrt.Assert(e.Live[i], "key passwd removed a key file other than the old and the new one")
		}
	}
	if err == nil {
		verifrt.Assert(rm >= 0 && e.Trace[rm].OK && !e.Live[s.cur], "key passwd reports success but the old key file is still there")
		verifrt.Assert(s.opensWith(newpw), "key passwd reports success but the new password does not open the repository")
		verifrt.Assert(e.VerifC29MasterOK(), "the repository switched to another master key")
	} else {
		// on failure the old password still works unless the removal itself was under way
		verifrt.Assert(rm >= 0 || e.Live[s.cur], "key passwd failed and the old key is gone without a Remove event")
	}
	broken := len(e.Broken) > s.n0 && e.Broken[s.n0]
	faulted := false
	for _, ev := range e.Trace {
		if !ev.OK {
			faulted = true
		}
	}
	switch {
	case err == nil && !broken:
		verifrt.Reach("changed")
	case err == nil && broken:
		verifrt.Reach("changed-with-broken-new-key-covered-by-another-key-with-that-password")
	case broken && !faulted && e.Live[s.n0]:
		verifrt.Reach("broken-key-left-behind-same-password-as-old")
	case broken && !faulted:
		verifrt.Reach("broken-key-detected-and-removed")
	case faulted:
		verifrt.Reach("backend-fault")
	default:
		verifrt.Assert(false, "key passwd failed although nothing went wrong")
	}
}

// VerifC29_AddCmd: addKey never touches the existing keys; success means the new password works.
func VerifC29_AddCmd() {
	s := verifC29Open(verifrt.Param("keys", 2))
	e := s.env
	newpw := verifrt.StringN("newpw", 1)
	testKeyNewPassword = newpw

	err := addKey(context.Background(), e.Repo, global.Options{}, KeyAddOptions{Username: "user", Hostname: "host"}, restic.NewNoopPrinter())

	s.replay()
	for i := 0; i < s.n0; i++ {
		verifrt.Assert(e.Live[i], "key add removed an existing key")
	}
	verifrt.Assert(len(e.Names) <= s.n0+1, "key add saved more than one key file")
	verifrt.Assert(e.VerifC29MasterOK(), "the repository switched to another master key")
	if err == nil {
		verifrt.Assert(len(e.Names) == s.n0+1 && e.Live[s.n0], "key add reports success without a new key file")
		verifrt.Assert(s.opensWith(newpw), "key add reports success but the new password does not open the repository")
		verifrt.Reach("added")
	} else {
		verifrt.Reach("add-failed")
	}
}

// VerifC29_RemoveCmd: deleteKey removes exactly the named key and never the one in use.
func VerifC29_RemoveCmd() {
	s := verifC29Open(verifrt.Param("keys", 3))
	e := s.env
	e.SealFaults = false
	victim := verifrt.Int("victim", 0, s.n0-1)
	prefix := s.ids[victim].String()
	if verifrt.Bool("short") {
		prefix = prefix[:4]
	}

	err := deleteKey(context.Background(), e.Repo, prefix, restic.NewNoopPrinter())

	s.replay()
	for i := 0; i < s.n0; i++ {
		if i != victim {
			verifrt.Assert(e.Live[i], "key remove removed another key than the named one")
		}
	}
	verifrt.Assert(e.Live[s.cur], "key remove removed the key in use")
	if victim == s.cur {
		verifrt.Assert(err != nil, "key remove of the key in use must fail")
		verifrt.Assert(s.firstEvent("remove", "", false) < 0, "Remove issued for the key in use")
		verifrt.Reach("refused")
	} else if err == nil {
		verifrt.Assert(!e.Live[victim], "key remove reports success but the key file is still there")
		verifrt.Reach("removed")
	} else {
		verifrt.Reach("remove-failed")
	}
}

package repository

// C29 (part 1): which passwords open the repository.

import (
	"context"
	"errors"

	"github.com/restic/restic/internal/repository/crypto"
	"github.com/restic/restic/internal/restic"
	"github.com/restic/restic/internal/verifrt"
)

type verifC29Keys struct {
	env    *VerifC29Env
	pws    []string // pws[i]: the password key file i was created with (free; any of them may coincide)
	ids    []restic.ID
	salts  [][]byte
	master *crypto.Key
}

// verifC29Populate creates n key files with the real AddKey (first one with a fresh master key, the
// others with the repository's master key as template, as `init` / `key add` do).
func verifC29Populate(n int) *verifC29Keys {
	s := &verifC29Keys{env: VerifC29NewEnv()}
	ctx := context.Background()
	for i := 0; i < n; i++ {
		s.pws = append(s.pws, verifrt.StringN("pw", 1))
		k, err := AddKey(ctx, s.env.Repo, s.pws[i], "user", "host", s.master)
		verifrt.Assert(err == nil, "AddKey failed on a healthy backend")
		if err != nil {
			return s
		}
		if s.master == nil {
			s.master = k.master
		}
		verifrt.Assert(*k.master == *s.master, "AddKey with a template wraps another master key")
		verifrt.Assert(len(s.env.Names) == i+1 && s.env.Names[i] == k.id.String(), "AddKey did not save exactly one key file named by its ID")
		verifrt.Assert(k.id == restic.Hash(s.env.Data[i]), "key ID is not the hash of the key file")
		s.ids = append(s.ids, k.id)
		s.salts = append(s.salts, k.Salt)
	}
	return s
}

// VerifC29_Search: searchKey(q, maxKeys, hint) on a key directory of n files created by AddKey with two
// passwords, some of them removed again.
func VerifC29_Search() {
	n := verifrt.Param("keys", 3)
	s := verifC29Populate(n)
	if len(s.ids) != n {
		return
	}
	q := verifrt.StringN("q", 1)
	for i := 0; i < n; i++ {
		if verifrt.Bool("removed") {
			s.env.Live[i] = false
		}
	}
	maxKeys := verifrt.Int("maxKeys", 0, n+1)
	hint := ""
	hinted := verifrt.Int("hint", -2, n-1) // -2: none, -1: a name that matches nothing, i: key i
	shortHint := hinted == 1               // key 1 is hinted by a prefix of its ID, the others by the full ID
	switch {
	case hinted == -1:
		hint = "zz"
	case hinted >= 0:
		hint = s.ids[hinted].String()
		if shortHint {
			hint = hint[:2]
		}
	}
	s.env.Trace = nil

	k, err := searchKey(context.Background(), s.env.Repo, q, maxKeys, hint)

	// specification
	want := -1
	if hinted >= 0 && s.env.Live[hinted] && s.pws[hinted] == q {
		want = hinted
	}
	listed := 0
	for i := 0; i < n && want < 0; i++ {
		if !s.env.Live[i] {
			continue
		}
		listed++
		if maxKeys > 0 && listed > maxKeys {
			break
		}
		if s.pws[i] == q {
			want = i
		}
	}
	live := 0
	for i := 0; i < n; i++ {
		if s.env.Live[i] {
			live++
		}
	}
	if want >= 0 {
		verifrt.Assert(err == nil && k != nil, "a key file created with this password is in the searched range but searchKey fails")
		if err == nil && k != nil {
			verifrt.Assert(k.id == s.ids[want], "searchKey returned another key than the hinted / first matching one")
			verifrt.Assert(*k.master == *s.master, "the opened key does not contain the repository's master key")
			verifrt.Assert(k.Valid(), "opened key is not valid")
		}
	} else {
		verifrt.Assert(err != nil && k == nil, "searchKey succeeds although no key file in the searched range was created with this password")
		if maxKeys > 0 && live > maxKeys {
			verifrt.Assert(errors.Is(err, ErrMaxKeysReached), "expected ErrMaxKeysReached")
		} else {
			verifrt.Assert(errors.Is(err, ErrNoKeyFound), "expected ErrNoKeyFound")
		}
	}
	for _, ev := range s.env.Trace {
		verifrt.Assert(ev.Op == "list" || ev.Op == "load", "searchKey modified the key directory")
	}
	if want >= 0 {
		verifrt.Reach("opened")
		if want > 0 && hinted < 0 {
			verifrt.Reach("opened-after-wrong-password-on-earlier-key")
		}
		if hinted >= 0 && want == hinted && maxKeys > 0 && hinted >= maxKeys {
			verifrt.Reach("opened-by-hint-beyond-maxKeys")
		}
	} else {
		verifrt.Reach("refused")
		if maxKeys > 0 && live > maxKeys {
			verifrt.Reach("max-keys-reached")
		}
	}
}

// VerifC29_SearchKeyRepo: Repository.SearchKey installs master key and key ID of the key it found and
// leaves the repository untouched when the config cannot be loaded.
func VerifC29_SearchKeyRepo() {
	s := verifC29Populate(2)
	if len(s.ids) != 2 {
		return
	}
	q := verifrt.StringN("q", 1)
	s.env.Faults = true
	r := s.env.Repo
	err := r.SearchKey(context.Background(), q, 0, "")
	faulted := false
	for _, ev := range s.env.Trace {
		if !ev.OK {
			faulted = true
		}
	}
	match := -1
	for i := 1; i >= 0; i-- {
		if s.pws[i] == q {
			match = i
		}
	}
	if err == nil {
		verifrt.Assert(match >= 0, "SearchKey accepted a password no key file was created with")
		verifrt.Assert(r.key != nil && *r.key == *s.master, "SearchKey installed a wrong master key")
		verifrt.Assert(match < 0 || r.keyID == s.ids[match], "SearchKey installed a wrong key ID")
		verifrt.Reach("opened")
	} else {
		verifrt.Assert(match < 0 || faulted, "SearchKey failed without any fault although the password is right")
		verifrt.Assert(r.key == nil && r.keyID.IsNull(), "failed SearchKey left a key installed")
		verifrt.Reach("refused")
	}
}

// VerifC29_RemoveKeyGuard: RemoveKey refuses the key in use and removes exactly the named key otherwise.
func VerifC29_RemoveKeyGuard() {
	n := verifrt.Param("keys", 2)
	s := verifC29Populate(n)
	if len(s.ids) != n {
		return
	}
	r := s.env.Repo
	cur := verifrt.Int("current", 0, n-1)
	verifrt.Assert(r.SearchKey(context.Background(), s.pws[cur], 0, s.ids[cur].String()) == nil, "cannot open the repository with the hinted key and its password")
	verifrt.Assert(r.keyID == s.ids[cur], "hinted key not used")
	s.env.Trace = nil
	s.env.Faults = true
	victim := verifrt.Int("victim", 0, n-1)
	err := RemoveKey(context.Background(), r, s.ids[victim])
	if victim == cur {
		verifrt.Assert(err != nil, "RemoveKey removed the key in use")
		verifrt.Assert(len(s.env.Trace) == 0, "RemoveKey touched the backend for the key in use")
		verifrt.Reach("refused")
		return
	}
	verifrt.Assert(len(s.env.Trace) == 1 && s.env.Trace[0].Op == "remove" && s.env.Trace[0].Name == s.ids[victim].String(), "RemoveKey must issue exactly one Remove for the named key")
	verifrt.Assert((err == nil) == s.env.Trace[0].OK, "RemoveKey does not report the backend's outcome")
	verifrt.Assert(s.env.Live[cur], "the key in use disappeared")
	verifrt.Reach("removed")
}

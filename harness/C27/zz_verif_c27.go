package main

import (
	"context"
	"errors"
	"path"

	"github.com/restic/restic/internal/data"
	"github.com/restic/restic/internal/filter"
	"github.com/restic/restic/internal/restic"
	"github.com/restic/restic/internal/verifrt"
	"github.com/restic/restic/internal/walker"
)

// ---- environment: a content-addressed tree store ----------------------------------------------------

// verifC27Store maps tree IDs to node lists. IDs are content addressed: saving an equal node list
// yields the same ID (as SHA-256 of the canonical JSON does in a repository).
type verifC27Store struct {
	restic.BlobLoader
	restic.BlobSaver
	trees   [][]*data.Node // tree k has ID {k+1, 0...}
	writers []*verifC27Writer
	saved   int
}

type verifC27Writer struct {
	tw    *data.TreeWriter
	nodes []*data.Node
}

func verifC27ID(k int) restic.ID {
	var id restic.ID
	id[0] = byte(k + 1)
	id[31] = 0x27
	return id
}

// every node of the input carries a unique tag (its inode number), so two nodes are the same
// node iff name, type, tag and sub-tree agree; the remaining metadata is compared at the end.
func verifC27SameNode(a, b *data.Node) bool {
	if a.Name != b.Name || a.Type != b.Type || a.Inode != b.Inode {
		return false
	}
	if (a.Subtree == nil) != (b.Subtree == nil) {
		return false
	}
	return a.Subtree == nil || *a.Subtree == *b.Subtree
}

func (s *verifC27Store) put(nodes []*data.Node) restic.ID {
	for k, t := range s.trees {
		if len(t) != len(nodes) {
			continue
		}
		same := true
		for i := range t {
			if !verifC27SameNode(t[i], nodes[i]) {
				same = false
			}
		}
		if same {
			return verifC27ID(k)
		}
	}
	cp := make([]*data.Node, len(nodes))
	for i, n := range nodes {
		c := *n
		cp[i] = &c
	}
	s.trees = append(s.trees, cp)
	return verifC27ID(len(s.trees) - 1)
}

func (s *verifC27Store) get(id restic.ID) ([]*data.Node, bool) {
	k := int(id[0]) - 1
	if k < 0 || k >= len(s.trees) || id != verifC27ID(k) {
		return nil, false
	}
	return s.trees[k], true
}

func (s *verifC27Store) writer(tw *data.TreeWriter) *verifC27Writer {
	for _, w := range s.writers {
		if w.tw == tw {
			return w
		}
	}
	w := &verifC27Writer{tw: tw}
	s.writers = append(s.writers, w)
	return w
}

// install replaces the JSON (de)serialisation of trees (reflection) by the store.
func (s *verifC27Store) install() {
	verifrt.Stub("internal/data.LoadTree", func(_ context.Context, _ restic.BlobLoader, id restic.ID) (data.TreeNodeIterator, error) {
		nodes, ok := s.get(id)
		if !ok {
			return nil, errors.New("tree not found")
		}
		return func(yield func(data.NodeOrError) bool) {
			for _, n := range nodes {
				c := *n // decoding yields fresh nodes: callers may modify them
				if !yield(data.NodeOrError{Node: &c}) {
					return
				}
			}
		}, nil
	})
	verifrt.Stub("(*internal/data.TreeWriter).AddNode", func(tw *data.TreeWriter, node *data.Node) error {
		w := s.writer(tw)
		if len(w.nodes) > 0 && node.Name <= w.nodes[len(w.nodes)-1].Name {
			return data.ErrTreeNotOrdered
		}
		w.nodes = append(w.nodes, node)
		return nil
	})
	verifrt.Stub("(*internal/data.TreeWriter).Finalize", func(tw *data.TreeWriter, _ context.Context) (restic.ID, error) {
		s.saved++
		return s.put(s.writer(tw).nodes), nil
	})
	verifrt.Stub("(*internal/data.TreeWriter).Count", func(tw *data.TreeWriter) int {
		return len(s.writer(tw).nodes)
	})
}

// ---- input trees ---------------------------------------------------------------------------------------

type verifC27Gen struct {
	s    *verifC27Store
	tags uint64
}

func (g *verifC27Gen) file(name string) *data.Node {
	g.tags++
	return &data.Node{Name: name, Type: data.NodeTypeFile, Inode: g.tags, Size: verifrt.Uint64("size"), Mode: 0o644}
}

// level builds a tree of <= 2 entries named a, b; at depth 1 entries may be directories.
func (g *verifC27Gen) level(depth, maxDepth int) restic.ID {
	var nodes []*data.Node
	for _, nm := range []string{"a", "b"} {
		hi := 1
		if depth < maxDepth {
			hi = 2
		}
		k := verifrt.Int("entry", 0, hi)
		if k == 0 {
			continue
		}
		if k == 1 {
			nodes = append(nodes, g.file(nm))
			continue
		}
		g.tags++
		tag := g.tags
		sub := g.level(depth+1, maxDepth)
		nodes = append(nodes, &data.Node{Name: nm, Type: data.NodeTypeDir, Inode: tag, Subtree: &sub, Mode: 0o755})
	}
	return g.s.put(nodes)
}

// ---- symbolic path predicates ----------------------------------------------------------------------------

// verifC27Pred: an arbitrary but fixed answer per path, chosen when the path is first asked for.
type verifC27Pred struct {
	paths   []string
	matched []bool
	child   []bool
	include bool
}

func (p *verifC27Pred) find(s string) int {
	for i := range p.paths {
		if p.paths[i] == s {
			return i
		}
	}
	return -1
}

func (p *verifC27Pred) get(s string) (bool, bool) {
	if i := p.find(s); i >= 0 {
		return p.matched[i], p.child[i]
	}
	parentChild := true
	if p.include && s != "/" {
		_, parentChild = p.get(path.Dir(s))
	}
	m, c := false, false
	if verifrt.Bool("matched") {
		m = true
	}
	if p.include {
		c = verifrt.Bool("childMayMatch") // stays symbolic: only directories look at it
	}
	// soundness of the 'children may match' answer (established for the pattern matcher by C28)
	verifrt.Assume(parentChild || !m)
	p.paths, p.matched, p.child = append(p.paths, s), append(p.matched, m), append(p.child, c)
	return m, c
}

// ---- reference: the filtered tree per the property statement -----------------------------------------

type verifC27Exp struct {
	node     *data.Node
	children []*verifC27Exp
}

type verifC27Ref struct {
	s       *verifC27Store
	p       *verifC27Pred
	files   uint
	size    uint64
	dropped bool
}

func (r *verifC27Ref) tree(prefix string, id restic.ID) []*verifC27Exp {
	nodes, _ := r.s.get(id)
	var out []*verifC27Exp
	for _, n := range nodes {
		pth := path.Join(prefix, n.Name)
		m, c := r.p.get(pth)
		if n.Type != data.NodeTypeDir {
			keep := m
			if !r.p.include {
				keep = !m
			}
			if keep {
				out = append(out, &verifC27Exp{node: n})
				r.files++
				r.size += n.Size
			} else {
				r.dropped = true
			}
			continue
		}
		if r.p.include {
			// a directory stays if it matches itself or leads to a matching entry
			if !m && !c {
				r.dropped = true
				continue
			}
			ch := r.tree(pth, *n.Subtree)
			if len(ch) == 0 && !m {
				r.dropped = true
				continue
			}
			out = append(out, &verifC27Exp{node: n, children: ch})
			continue
		}
		if m { // excluded with its contents
			r.dropped = true
			continue
		}
		out = append(out, &verifC27Exp{node: n, children: r.tree(pth, *n.Subtree)})
	}
	return out
}

// verifC27Check: the stored tree id equals the expectation; kept nodes are unmodified.
func verifC27Check(s *verifC27Store, id restic.ID, want []*verifC27Exp) {
	got, ok := s.get(id)
	verifrt.Assert(ok, "result refers to a tree that was never saved")
	verifrt.Assert(len(got) == len(want), "rewritten tree has a wrong number of entries")
	if len(got) != len(want) {
		return
	}
	for i, w := range want {
		g := got[i]
		verifrt.Assert(g.Name == w.node.Name && g.Type == w.node.Type && g.Inode == w.node.Inode, "rewritten tree holds a different entry than expected: "+g.Name)
		verifrt.Assert(g.Size == w.node.Size && g.Mode == w.node.Mode, "metadata of a kept entry changed")
		if w.node.Type == data.NodeTypeDir {
			verifrt.Assert(g.Subtree != nil, "kept directory lost its subtree")
			verifC27Check(s, *g.Subtree, w.children)
		}
	}
}

func verifC27Run(include bool) int {
	s := &verifC27Store{}
	s.install()
	g := &verifC27Gen{s: s}
	root := g.level(1, verifrt.Param("depth", 2))
	before := len(s.trees)

	p := &verifC27Pred{include: include}
	printer := restic.NewNoopPrinter()
	var rewriteNode walker.NodeRewriteFunc
	var keepEmpty walker.NodeKeepEmptyDirectoryFunc
	if include {
		inc := filter.IncludeByNameFunc(func(item string) (bool, bool) { return p.get(item) })
		rewriteNode, keepEmpty = gatherIncludeFilters([]filter.IncludeByNameFunc{inc}, printer)
	} else {
		rej := filter.RejectByNameFunc(func(item string) bool { m, _ := p.get(item); return m })
		rewriteNode = gatherExcludeFilters([]filter.RejectByNameFunc{rej}, printer)
	}
	// exactly as rewriteSnapshot wires it up
	rewriter, querySize := walker.NewSnapshotSizeRewriter(rewriteNode, keepEmpty)
	newID, err := rewriter.RewriteTree(context.Background(), s, s, "/", root)
	verifrt.Assert(err == nil, "RewriteTree failed on a well-formed tree")

	ref := &verifC27Ref{s: s, p: p}
	want := ref.tree("/", root)

	rootMatched := false
	if include {
		rootMatched, _ = p.get("/")
	}
	outcome := 0
	if include && len(want) == 0 && !rootMatched {
		// nothing is included: the rewritten snapshot would be empty, reported as the null ID
		outcome = 1
		verifrt.Assert(newID.IsNull(), "nothing is included but a tree was returned")
	} else {
		verifrt.Assert(!newID.IsNull(), "entries remain but the null ID was returned")
		verifC27Check(s, newID, want)
		if !ref.dropped {
			outcome = 2
			verifrt.Assert(newID == root, "nothing was removed but the tree ID changed")
			verifrt.Assert(len(s.trees) == before, "nothing was removed but new trees were stored")
		} else {
			outcome = 3
			verifrt.Assert(newID != root, "entries were removed but the tree ID is unchanged")
		}
	}
	ss := querySize()
	verifrt.Assert(ss.FileCount == ref.files, "summary file count differs from the files kept")
	verifrt.Assert(ss.FileSize == ref.size, "summary size differs from the files kept")
	return outcome
}

// VerifC27_Exclude: rewrite --exclude removes exactly the rejected entries with their contents.
func VerifC27_Exclude() {
	switch verifC27Run(false) {
	case 2:
		verifrt.Reach("nothing-removed")
	case 3:
		verifrt.Reach("something-removed")
	}
}

// VerifC27_Include: rewrite --include keeps exactly the matching entries and the directories
// leading to them.
func VerifC27_Include() {
	switch verifC27Run(true) {
	case 1:
		verifrt.Reach("everything-removed")
	case 2:
		verifrt.Reach("nothing-removed")
	case 3:
		verifrt.Reach("something-removed")
	}
}

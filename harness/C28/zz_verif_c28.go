package filter

import (
	"strings"

	"github.com/restic/restic/internal/verifrt"
)

// ---- inputs -------------------------------------------------------------------------------

// verifC28PartAlphabet: the pattern components. The first `alpha` entries are used.
var verifC28PartAlphabet = []string{"**", "*", "a", "b", "?", "[ab]", "\\a", "[", "a*", "[^a]"}

// verifC28Part picks one pattern component (symbolic choice, concrete string).
func verifC28Part(alpha int) string {
	k := verifrt.Int("part", 0, alpha-1)
	for i := 0; i < alpha; i++ {
		if k == i {
			return verifC28PartAlphabet[i]
		}
	}
	return verifC28PartAlphabet[0]
}

// verifC28Pattern picks a pattern of 1..maxParts components, optionally rooted.
// It returns the pattern string and its components (without the root marker).
func verifC28Pattern(maxParts, alpha int) (pat string, parts []string, rooted bool) {
	if verifrt.Bool("rooted") { // branch so that the flag is concrete afterwards
		rooted = true
	}
	n := verifrt.Int("nparts", 1, maxParts)
	for i := 0; i < maxParts; i++ {
		if i < n {
			parts = append(parts, verifC28Part(alpha))
		}
	}
	pat = strings.Join(parts, "/")
	if rooted {
		pat = "/" + pat
	}
	return pat, parts, rooted
}

// verifC28Seqs returns all component sequences of length lo..hi over the first ncomp names.
func verifC28Seqs(lo, hi, ncomp int) [][]string {
	names := []string{"a", "b", "ab"}[:ncomp]
	var out [][]string
	cur := [][]string{nil}
	for l := 1; l <= hi; l++ {
		var next [][]string
		for _, p := range cur {
			for _, c := range names {
				q := append(append([]string(nil), p...), c)
				next = append(next, q)
			}
		}
		cur = next
		if l >= lo {
			out = append(out, cur...)
		}
	}
	return out
}

func verifC28PathStr(abs bool, comps []string) string {
	s := strings.Join(comps, "/")
	if abs {
		return "/" + s
	}
	return s
}

// ---- reference semantics (written from doc/040_backup.rst, "--exclude") -----------------

// verifC28Glob: does the single-component shell pattern p match the component c?
// Only the alphabet above is defined; ok=false means the pattern is malformed.
func verifC28Glob(p, c string) (m bool, ok bool) {
	switch p {
	case "*":
		return true, true
	case "?":
		return len(c) == 1, true
	case "a", "b":
		return c == p, true
	case "[ab]":
		return c == "a" || c == "b", true
	case "a*":
		return len(c) >= 1 && c[0] == 'a', true
	case "\\a":
		return c == "a", true
	case "[^a]":
		return len(c) == 1 && c != "a", true
	case "[":
		return false, false
	}
	panic("verifC28Glob: component pattern outside the alphabet")
}

func verifC28HasInvalid(parts []string) bool {
	for _, p := range parts {
		if p == "[" {
			return true
		}
	}
	return false
}

// verifC28Seq: the pattern components match exactly the component sequence comps
// ('**' stands for any number, including zero, of components).
func verifC28Seq(parts, comps []string) bool {
	if len(parts) == 0 {
		return len(comps) == 0
	}
	if parts[0] == "**" {
		if verifC28Seq(parts[1:], comps) {
			return true
		}
		return len(comps) > 0 && verifC28Seq(parts, comps[1:])
	}
	if len(comps) == 0 {
		return false
	}
	m, _ := verifC28Glob(parts[0], comps[0])
	return m && verifC28Seq(parts[1:], comps[1:])
}

// verifC28Ref: the documented meaning of "pattern matches path": the pattern matches a run of
// complete components; a rooted pattern is anchored at the root directory, a relative one may
// start at any depth; a match on a directory covers everything inside it (so the run may end
// before the end of the path).
func verifC28Ref(parts []string, rooted bool, comps []string, abs bool) bool {
	if rooted && !abs {
		return false
	}
	for start := 0; start <= len(comps); start++ {
		if rooted && start > 0 {
			break
		}
		for end := start; end <= len(comps); end++ {
			if end == start && !rooted {
				// only a relative pattern made of '**' alone matches an empty run; it matches
				// every non-empty run as well, so empty runs need not be considered. For a rooted
				// pattern the empty run is the root directory itself ("/**" covers everything).
				continue
			}
			if verifC28Seq(parts, comps[start:end]) {
				return true
			}
		}
	}
	return false
}

// ---- harnesses ----------------------------------------------------------------------------

// VerifC28_MatchRef: Match agrees with the documented semantics, never panics, and reports a bad
// pattern only for a malformed component.
func VerifC28_MatchRef() {
	alpha := verifrt.Param("alpha", 7)
	ncomp := verifrt.Param("comps", 2)
	pat, parts, rooted := verifC28Pattern(verifrt.Param("parts", 3), alpha)
	invalid := verifC28HasInvalid(parts)
	verifrt.Note("pattern " + pat)
	stars := 0
	for _, p := range parts {
		if p == "**" {
			stars++
		}
	}
	// finding C28-multi-doublestar (see fix-C28.diff): with two or more '**' the expansion loop of
	// match() reserves one path component for every other '**', so e.g. Match("/**/a/**", "/a") is
	// false. Only effective if the id is listed in KNOWN_FINDINGS.txt.
	verifrt.Known("C28-multi-doublestar", stars >= 2)
	for _, comps := range verifC28Seqs(1, verifrt.Param("pathlen", 4), ncomp) {
		for _, abs := range []bool{true, false} {
			s := verifC28PathStr(abs, comps)
			got, err := Match(pat, s)
			if err != nil {
				verifrt.Assert(invalid, "Match("+pat+", "+s+") returned an error for a well-formed pattern")
				verifrt.Assert(!got, "Match("+pat+", "+s+") returned true together with an error")
				verifrt.Reach("bad-pattern-error")
				continue
			}
			want := verifC28Ref(parts, rooted, comps, abs)
			if want {
				verifrt.Reach("match")
				verifrt.Assert(got, "Match("+pat+", "+s+") = false, documented semantics say true")
			} else {
				verifrt.Reach("no-match")
				verifrt.Assert(!got, "Match("+pat+", "+s+") = true, documented semantics say false")
			}
		}
	}
}

// VerifC28_ChildSound: the 'children may match' answer is never false when some path below
// matches; a pattern matching a directory matches everything below it.
func VerifC28_ChildSound() {
	alpha := verifrt.Param("alpha", 7)
	ncomp := verifrt.Param("comps", 2)
	pat, parts, _ := verifC28Pattern(verifrt.Param("parts", 3), alpha)
	if verifC28HasInvalid(parts) {
		// with a malformed component nothing ever matches; only absence of panics is checked
		verifrt.Reach("invalid")
	}
	exts := verifC28Seqs(1, verifrt.Param("extlen", 2), ncomp)
	for _, comps := range verifC28Seqs(1, verifrt.Param("pathlen", 3), ncomp) {
		for _, abs := range []bool{true, false} {
			s := verifC28PathStr(abs, comps)
			self, _ := Match(pat, s)
			child, cerr := ChildMatch(pat, s)
			for _, e := range exts {
				se := s + "/" + strings.Join(e, "/")
				below, _ := Match(pat, se)
				if below {
					verifrt.Reach("descendant-matches")
					verifrt.Assert(cerr == nil, "ChildMatch("+pat+", "+s+") failed although "+se+" matches")
					verifrt.Assert(child, "ChildMatch("+pat+", "+s+") = false although "+se+" matches")
				}
				if self {
					verifrt.Reach("directory-matches")
					verifrt.Assert(below, "Match("+pat+", "+s+") = true but the path below "+se+" does not match")
				}
			}
		}
	}
}

// verifC28RefList: patterns are applied in order; a later negated pattern that matches cancels
// an earlier match.
func verifC28RefList(pats [][]string, rooted, neg []bool, comps []string, abs bool) bool {
	matched := false
	for i := range pats {
		m := verifC28Ref(pats[i], rooted[i], comps, abs)
		if neg[i] {
			if m {
				matched = false
			}
		} else if m {
			matched = true
		}
	}
	return matched
}

// VerifC28_List: List/ListWithChild over <=N patterns (each optionally negated) agree with the
// reference; ListWithChild's child answer is sound w.r.t. List on every descendant.
func VerifC28_List() {
	alpha := verifrt.Param("alpha", 5)
	ncomp := verifrt.Param("comps", 2)
	npat := verifrt.Int("npat", 1, verifrt.Param("patterns", 2))
	var strs []string
	var pats [][]string
	var rooted, neg []bool
	for i := 0; i < npat; i++ {
		p, parts, r := verifC28Pattern(verifrt.Param("parts", 2), alpha)
		n := false
		if verifrt.Bool("negated") {
			n = true
			p = "!" + p
		}
		verifrt.Assume(!verifC28HasInvalid(parts)) // callers run ValidatePatterns first
		strs = append(strs, p)
		pats = append(pats, parts)
		rooted = append(rooted, r)
		neg = append(neg, n)
	}
	verifrt.Assert(ValidatePatterns(strs) == nil, "ValidatePatterns rejected a well-formed pattern list")
	parsed := ParsePatterns(strs)
	desc := strings.Join(strs, " ")
	exts := verifC28Seqs(1, verifrt.Param("extlen", 2), ncomp)
	for _, comps := range verifC28Seqs(1, verifrt.Param("pathlen", 3), ncomp) {
		for _, abs := range []bool{true, false} {
			s := verifC28PathStr(abs, comps)
			got, err := List(parsed, s)
			verifrt.Assert(err == nil, "List returned an error for well-formed patterns")
			got2, child, err := ListWithChild(parsed, s)
			verifrt.Assert(err == nil, "ListWithChild returned an error for well-formed patterns")
			want := verifC28RefList(pats, rooted, neg, comps, abs)
			if want {
				verifrt.Reach("listed")
			} else {
				verifrt.Reach("not-listed")
			}
			verifrt.Assert(got == want, "List(["+desc+"], "+s+") disagrees with the documented semantics")
			verifrt.Assert(got2 == want, "ListWithChild(["+desc+"], "+s+") disagrees with the documented semantics")
			for _, e := range exts {
				se := s + "/" + strings.Join(e, "/")
				below, _ := List(parsed, se)
				if below {
					verifrt.Reach("descendant-listed")
					verifrt.Assert(child, "ListWithChild(["+desc+"], "+s+") says no child can match but "+se+" is listed")
				}
			}
		}
	}
}

// VerifC28_Odd: unusual inputs never panic: empty strings, lone '!', '/', trailing and doubled
// slashes, dot components.
func VerifC28_Odd() {
	odd := []string{"", "!", "/", "//", ".", "..", "a/", "/a/", "a//b", "/..", "!/", "**", "/**", "**/", "[", "\\", "a/../b", "!!a", "!**"}
	i := verifrt.Int("pattern", 0, len(odd)-1)
	j := verifrt.Int("path", 0, len(odd)-1)
	var pat, s string
	for k := range odd {
		if k == i {
			pat = odd[k]
		}
		if k == j {
			s = odd[k]
		}
	}
	m, err := Match(pat, s)
	if s == "" && pat != "" {
		verifrt.Reach("empty-string")
		verifrt.Assert(err == ErrBadString && !m, "Match on the empty string must return ErrBadString")
	}
	if pat == "" {
		verifrt.Reach("empty-pattern")
		verifrt.Assert(err == nil && m, "the empty pattern matches everything")
	}
	_, _ = ChildMatch(pat, s)
	_ = ValidatePatterns([]string{pat, s})
	parsed := ParsePatterns([]string{pat, "!" + pat, s})
	_, _ = List(parsed, s)
	_, _, _ = ListWithChild(parsed, s)
	if s == "" && len(parsed) > 0 {
		_, err := List(parsed, s)
		verifrt.Assert(err == ErrBadString, "List on the empty string must return ErrBadString")
	}
	verifrt.Reach("done")
}

package main

import (
	"context"

	"github.com/restic/restic/internal/data"
	"github.com/restic/restic/internal/restic"
	statsui "github.com/restic/restic/internal/ui/stats"
	"github.com/restic/restic/internal/verifrt"
)

// verifC54Node makes a node with symbolic type/size/links/inode/device under the preconditions
// that hold for every node restic writes:
//   - only regular files record a size (fs.buildBasicNode / nodeFillExtendedStat);
//   - directories do not record a link count; files and symlinks have Links >= 1;
//   - a multiply linked node has a non-zero inode.
func verifC54Node(name string, allowDir bool) *data.Node {
	n := &data.Node{Name: name}
	hi := 2
	if !allowDir {
		hi = 1
	}
	k := verifrt.Int("type", 0, hi)
	if k == 0 {
		n.Type = data.NodeTypeFile
		n.Size = verifrt.Uint64("size")
	} else if k == 1 {
		n.Type = data.NodeTypeSymlink
	} else {
		n.Type = data.NodeTypeDir
	}
	if n.Type != data.NodeTypeDir {
		n.Links = uint64(verifrt.Int("links", 1, 3))
		n.Inode = uint64(verifrt.Int("inode", 0, 2))
		n.DeviceID = uint64(verifrt.Int("device", 0, 1))
		if n.Links > 1 {
			verifrt.Assume(n.Inode != 0)
		}
	}
	return n
}

// verifC54SameInode: hard links are names of one inode, so they agree in type and size.
func verifC54SameInode(nodes []*data.Node) {
	for i, a := range nodes {
		for _, b := range nodes[:i] {
			if a.Type == data.NodeTypeDir || b.Type == data.NodeTypeDir {
				continue
			}
			if a.Links > 1 && b.Links > 1 && a.Inode == b.Inode && a.DeviceID == b.DeviceID {
				verifrt.Assume(a.Type == b.Type)
				verifrt.Assume(a.Size == b.Size)
			}
		}
	}
}

// verifC54RestoreSize: what a restore of one snapshot writes: every regular file once per
// hard-link group (inode, device); everything else carries no data.
func verifC54RestoreSize(nodes []*data.Node) uint64 {
	var total uint64
	for i, a := range nodes {
		if a.Type != data.NodeTypeFile {
			continue
		}
		dup := false
		if a.Links > 1 {
			for _, b := range nodes[:i] {
				if b.Type == data.NodeTypeFile && b.Links > 1 && a.Inode == b.Inode && a.DeviceID == b.DeviceID {
					dup = true
				}
			}
		}
		if !dup {
			total += a.Size
		}
	}
	return total
}

// VerifC54_WalkFunc: the per-node callback of `stats --mode restore-size` over one snapshot.
func VerifC54_WalkFunc() {
	n := verifrt.Int("n", 0, verifrt.Param("nodes", 3))
	var nodes []*data.Node
	for i := 0; i < n; i++ {
		nodes = append(nodes, verifC54Node("n", true))
	}
	verifC54SameInode(nodes)

	stats := &statsContainer{}
	fn := statsWalkTree(nil, StatsOptions{countMode: countModeRestoreSize}, stats, data.NewHardlinkIndex[struct{}](), &statsui.Progress{})
	// walker.Walk first reports the root tree itself with a nil node
	verifrt.Assert(fn(restic.ID{}, "/", nil, nil) == nil, "root callback failed")
	for _, nd := range nodes {
		verifrt.Assert(fn(restic.ID{}, "/"+nd.Name, nd, nil) == nil, "node callback failed")
	}
	verifrt.Assert(stats.TotalFileCount == uint64(n), "entry count differs from the number of nodes")
	verifrt.Assert(stats.TotalSize == verifC54RestoreSize(nodes), "total size differs from the size of the regular files (hard links once)")
	if n >= 2 {
		verifrt.Reach("several-nodes")
	}
}

// ---- whole snapshots through walker.Walk ---------------------------------------------------------

type verifC54Repo struct {
	restic.Loader
	trees [8][]*data.Node
}

func verifC54ID(k int) restic.ID {
	var id restic.ID
	id[0] = byte(k)
	id[31] = 0x54
	return id
}

// LoadBlob is only used natively (data.LoadTree is stubbed under the engine).
func (r *verifC54Repo) LoadBlob(_ context.Context, h restic.BlobHandle, _ []byte) ([]byte, error) {
	b := data.NewTreeJSONBuilder()
	for _, n := range r.trees[h.ID[0]] {
		if err := b.AddNode(n); err != nil {
			return nil, err
		}
	}
	return b.Finalize()
}

func verifC54LoadTree(_ context.Context, loader restic.BlobLoader, id restic.ID) (data.TreeNodeIterator, error) {
	nodes := loader.(*verifC54Repo).trees[id[0]]
	return func(yield func(data.NodeOrError) bool) {
		for _, n := range nodes {
			if !yield(data.NodeOrError{Node: n}) {
				return
			}
		}
	}, nil
}

// verifC54Snapshot builds snapshot k: root {a: dir -> {f}, b, c}; returns all its nodes.
func verifC54Snapshot(r *verifC54Repo, k int, rootNodes int) (*data.Snapshot, []*data.Node) {
	rootID, subID := verifC54ID(2*k+1), verifC54ID(2*k+2)
	var all []*data.Node
	if verifrt.Bool("hasdir") {
		d := &data.Node{Name: "a", Type: data.NodeTypeDir, Subtree: &subID}
		f := verifC54Node("f", false)
		r.trees[subID[0]] = []*data.Node{f}
		r.trees[rootID[0]] = append(r.trees[rootID[0]], d)
		all = append(all, d, f)
	}
	for _, nm := range []string{"b", "c"}[:rootNodes] {
		nd := verifC54Node(nm, false)
		r.trees[rootID[0]] = append(r.trees[rootID[0]], nd)
		all = append(all, nd)
	}
	verifC54SameInode(all)
	return &data.Snapshot{Tree: &rootID}, all
}

// VerifC54_Snapshots: statsWalkSnapshot over S snapshots: entries and sizes add up, hard-link
// groups are counted once per snapshot (not once over all snapshots).
func VerifC54_Snapshots() {
	verifrt.Stub("internal/data.LoadTree", verifC54LoadTree)
	r := &verifC54Repo{}
	stats := &statsContainer{}
	sp := &statsui.Progress{}
	opts := StatsOptions{countMode: countModeRestoreSize}
	var wantCount, wantSize uint64
	for k := 0; k < verifrt.Param("snapshots", 2); k++ {
		sn, nodes := verifC54Snapshot(r, k, verifrt.Param("rootnodes", 1))
		err := statsWalkSnapshot(context.Background(), sn, r, opts, stats, sp)
		verifrt.Assert(err == nil, "statsWalkSnapshot failed")
		wantCount += uint64(len(nodes))
		wantSize += verifC54RestoreSize(nodes)
	}
	verifrt.Assert(stats.SnapshotsCount == verifrt.Param("snapshots", 2), "snapshot count wrong")
	verifrt.Assert(stats.TotalFileCount == wantCount, "entry count differs from the number of nodes in the snapshots")
	verifrt.Assert(stats.TotalSize == wantSize, "total size differs from the per-snapshot restore sizes")
	verifrt.Reach("done")
}

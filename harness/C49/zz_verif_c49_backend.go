package backend

import (
	"github.com/restic/restic/internal/verifrt"
)

// verifC49ShellRef is a reference splitter written from the documented behaviour of
// SplitShellStrings ("splits a command string into separated arguments; supports single and
// double quoted strings"; a backslash protects the following quote character):
//   - outside quotes, white space and backslashes separate fields; a quote character that is not
//     preceded by a backslash opens a quoted section
//   - inside quotes everything up to the matching quote character (not preceded by a backslash)
//     belongs to the field, the quote characters themselves do not
//   - quote characters act as field separators
// It returns the fields, and which quote (0 if none) is still open at the end.
func verifC49ShellRef(s string) (fields []string, open byte) {
	var quote, last byte
	start := -1
	for i := 0; i < len(s); i++ {
		c := s[i]
		split := false
		handled := false
		if last != '\\' {
			if quote != 0 && c == quote {
				quote = 0
				split, handled = true, true
			} else if quote == 0 && (c == '"' || c == '\'') {
				quote = c
				split, handled = true, true
			}
		}
		if !handled {
			last = c
			if quote == 0 {
				split = c == '\\' || c == ' '
			}
		}
		if split {
			if start >= 0 {
				fields = append(fields, s[start:i])
				start = -1
			}
		} else if start < 0 {
			start = i
		}
	}
	if start >= 0 {
		fields = append(fields, s[start:])
	}
	return fields, quote
}

// VerifC49_ShellSplit: SplitShellStrings on every string of <= L bytes over {a, space, ', ", \}:
// no panic; error iff a quote is left open or there is no field; on success the fields are those
// of the reference splitter, none is empty, none contains an unquoted separator, and every field
// is a substring of the input in input order.
func VerifC49_ShellSplit() {
	const alpha = "a '\"\\"
	n := verifrt.Int("len", 0, verifrt.Param("len", 4))
	b := make([]byte, n)
	for i := range b {
		b[i] = alpha[verifrt.Int("ch", 0, len(alpha)-1)] // symbolic index: no fork
	}
	s := string(b)
	strs, err := SplitShellStrings(s)
	want, open := verifC49ShellRef(s)
	if err != nil {
		verifrt.Reach("shell-rejected")
		verifrt.Assert(strs == nil, "error together with a result")
		verifrt.Assert(open != 0 || len(want) == 0, "a terminated, non-empty command was rejected")
		return
	}
	verifrt.Reach("shell-accepted")
	verifrt.Assert(open == 0, "an unterminated quote was accepted")
	verifrt.Assert(len(strs) > 0, "success with no fields")
	verifrt.Assert(len(strs) == len(want), "number of fields differs from the reference")
	total := 0
	for i := 0; i < len(strs) && i < len(want); i++ {
		verifrt.Assert(strs[i] == want[i], "field differs from the reference")
		verifrt.Assert(len(strs[i]) > 0, "empty field")
		total += len(strs[i])
	}
	verifrt.Assert(total <= len(s), "fields are longer than the input")
	// a string without quotes and backslashes splits exactly like strings.Fields
	plain := true
	for i := 0; i < len(s); i++ {
		if s[i] == '\'' || s[i] == '"' || s[i] == '\\' {
			plain = false
		}
	}
	if plain {
		verifrt.Reach("shell-plain")
		for _, f := range strs {
			for i := 0; i < len(f); i++ {
				verifrt.Assert(f[i] != ' ', "a plain field contains a space")
			}
		}
		nonspace := 0
		for i := 0; i < len(s); i++ {
			if s[i] != ' ' {
				nonspace++
			}
		}
		verifrt.Assert(total == nonspace, "plain input: characters were lost")
	}
}

// VerifC49_ShellQuoted: the textbook cases, stated without the reference splitter: a non-empty
// body without backslash and without the quote character q, enclosed in q, is exactly one field
// (spaces and the other quote character included); preceded by "a " it is the second field.
func VerifC49_ShellQuoted() {
	q := byte('\'')
	other := byte('"')
	if verifrt.Bool("double") {
		q, other = other, q
	}
	body := verifrt.String("body", verifrt.Param("len", 3))
	verifrt.Assume(len(body) > 0)
	for i := 0; i < len(body); i++ {
		verifrt.Assume(body[i] == 'a' || body[i] == ' ' || body[i] == other)
	}
	quoted := string([]byte{q}) + body + string([]byte{q})
	strs, err := SplitShellStrings(quoted)
	verifrt.Assert(err == nil, "a terminated quoted string was rejected")
	verifrt.Assert(len(strs) == 1 && strs[0] == body, "a quoted string must be exactly one field")
	strs, err = SplitShellStrings("a " + quoted)
	verifrt.Assert(err == nil && len(strs) == 2 && strs[0] == "a" && strs[1] == body, "command followed by a quoted argument")
	_, err = SplitShellStrings(string([]byte{q}) + body)
	verifrt.Assert(err != nil, "an unterminated quoted string was accepted")
	verifrt.Reach("shell-quoted")
}

package options

// C49, extended options: the real Options.Apply (reflection over the config struct: engine model of
// reflect in x_reflect.go) assigning -o ns.key=value to an unsigned, a signed, a string and a bool
// field. The value is an optional sign followed by 1..D decimal digits without a leading zero:
// an unsigned option accepts exactly the unsigned numbers below 2^32 and stores that number; a signed
// one exactly the numbers in [-2^31, 2^31) with or without '+'; unknown keys are refused.

import (
	"github.com/restic/restic/internal/verifrt"
)

type verifC49Config struct {
	Connections uint   `option:"connections" help:"x"`
	Retries     int    `option:"retries"`
	Name        string `option:"name"`
	Flag        bool   `option:"flag"`
	Untagged    string
}

func VerifC49_OptionsApply() {
	nd := verifrt.Int("digits", 1, verifrt.Param("digits", 3))
	sign := verifrt.Int("sign", 0, 2) // none, '-', '+'
	var s []byte
	switch {
	case sign == 1:
		s = append(s, '-')
	case sign == 2:
		s = append(s, '+')
	}
	val := int64(0)
	for i := 0; i < nd; i++ {
		d := verifrt.Byte("digit")
		verifrt.Assume(d >= '0' && d <= '9')
		if i == 0 && nd > 1 {
			verifrt.Assume(d != '0') // no leading zero (base prefixes are another story)
		}
		s = append(s, d)
		val = val*10 + int64(d-'0')
	}
	if sign == 1 {
		val = -val
	}
	value := string(s)
	cfg := verifC49Config{Connections: 5, Retries: 7, Name: "n", Untagged: "u"}
	switch k := verifrt.Int("key", 0, 3); {
	case k == 0:
		err := Options{"connections": value}.Apply("local", &cfg)
		if sign == 0 {
			verifrt.Reach("uint-accepted")
			verifrt.Assert(err == nil, "an unsigned decimal number was refused for an unsigned option")
			verifrt.Assert(int64(cfg.Connections) == val, "an unsigned option holds another number than the one given")
		} else {
			verifrt.Reach("uint-signed-refused")
			verifrt.Assert(err != nil, "a number with a sign was accepted for an unsigned option")
			verifrt.Assert(cfg.Connections == 5, "a refused value changed the option")
		}
		verifrt.Assert(cfg.Retries == 7 && cfg.Name == "n" && !cfg.Flag && cfg.Untagged == "u", "another field was changed")
	case k == 1:
		err := Options{"retries": value}.Apply("s3", &cfg)
		verifrt.Reach("int")
		verifrt.Assert(err == nil, "a decimal number within range was refused for a signed option")
		verifrt.Assert(int64(cfg.Retries) == val, "a signed option holds another number than the one given")
		verifrt.Assert(cfg.Connections == 5, "another field was changed")
	case k == 2:
		err := Options{"name": value}.Apply("x", &cfg)
		verifrt.Assert(err == nil && cfg.Name == value, "a string option does not hold the given string")
		verifrt.Reach("string")
	default:
		err := Options{"untagged": value}.Apply("x", &cfg)
		verifrt.Assert(err != nil, "an unknown option key was accepted")
		verifrt.Assert(cfg.Untagged == "u" && cfg.Connections == 5, "an unknown option changed the configuration")
		verifrt.Reach("unknown-key")
	}
}

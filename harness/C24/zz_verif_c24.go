package data

import (
	"context"
	"strconv"
	"time"

	"github.com/restic/restic/internal/restic"
	"github.com/restic/restic/internal/verifrt"
)

// verifC24Conc concretises a bounded symbolic int (make() with a symbolic length forks per value).
func verifC24Conc(name string, lo, hi int) int {
	return lo + len(make([]struct{}, verifrt.Int(name, lo, hi)-lo))
}

// verifC24Letter: a one-letter string over {a,b,c}; with empty=true also "".
func verifC24Letter(name string, prefix string, empty bool) string {
	if empty && verifrt.Bool(name+".empty") {
		return ""
	}
	c := verifrt.Byte(name)
	verifrt.Assume(c >= 'a' && c <= 'c')
	return prefix + string([]byte{c})
}

func verifC24List(name string, prefix string, max int, empty bool) []string {
	n := verifC24Conc(name+".n", 0, max)
	var out []string // nil when empty, like a decoded snapshot / an unset option
	for i := 0; i < n; i++ {
		out = append(out, verifC24Letter(name, prefix, empty))
	}
	return out
}

func verifC24In(l []string, s string) bool {
	for _, x := range l {
		if x == s {
			return true
		}
	}
	return false
}

// ---- reference predicates (doc/040_backup.rst, 045_working_with_repos.rst, 060_forget.rst) ----

func verifC24RefHost(host string, hosts []string) bool {
	return len(hosts) == 0 || verifC24In(hosts, host)
}

// a tag list matches if the snapshot has all its tags; the list [""] matches untagged snapshots only
func verifC24RefTagList(tags []string, l TagList) bool {
	if len(l) == 1 && l[0] == "" {
		return len(tags) == 0
	}
	for _, t := range l {
		if !verifC24In(tags, t) {
			return false
		}
	}
	return true
}

func verifC24RefTagLists(tags []string, ls TagLists) bool {
	if len(ls) == 0 {
		return true
	}
	for _, l := range ls {
		if verifC24RefTagList(tags, l) {
			return true
		}
	}
	return false
}

func verifC24RefPaths(paths []string, want []string) bool {
	for _, p := range want {
		if !verifC24In(paths, p) {
			return false
		}
	}
	return true
}

func verifC24TagLists(nl, ll int) TagLists {
	var ls TagLists
	n := verifC24Conc("lists.n", 0, nl)
	for i := 0; i < n; i++ {
		k := verifC24Conc("list.n", 1, ll) // splitTagList never produces an empty list
		var l TagList
		for j := 0; j < k; j++ {
			// '' is documented as a tag list of its own (--tag ''); see "outside"
			l = append(l, verifC24Letter("ltag", "", k == 1))
		}
		ls = append(ls, l)
	}
	return ls
}

// VerifC24_Hosts: HasHostname.
func VerifC24_Hosts() {
	sn := &Snapshot{Hostname: verifC24Letter("host", "", true)}
	hosts := verifC24List("hosts", "", verifrt.Param("hosts", 3), true)
	verifrt.Assert(sn.HasHostname(hosts) == verifC24RefHost(sn.Hostname, hosts), "HasHostname differs from: no host filter, or the host is one of the listed ones")
	verifrt.Reach("hosts")
}

// VerifC24_Tags: HasTagList / HasTags.
func VerifC24_Tags() {
	sn := &Snapshot{Tags: verifC24List("tags", "", verifrt.Param("tags", 2), false)}
	ls := verifC24TagLists(verifrt.Param("lists", 2), verifrt.Param("listlen", 2))
	verifrt.Assert(sn.HasTagList(ls) == verifC24RefTagLists(sn.Tags, ls), "HasTagList differs from: no tag filter, or some list has all its tags in the snapshot ('' = untagged)")
	verifrt.Reach("tags")
}

// VerifC24_Paths: HasPaths.
func VerifC24_Paths() {
	sn := &Snapshot{Paths: verifC24List("paths", "/", verifrt.Param("paths", 3), false)}
	want := verifC24List("want", "/", verifrt.Param("want", 2), false)
	verifrt.Assert(sn.HasPaths(want) == verifC24RefPaths(sn.Paths, want), "HasPaths differs from: every requested path is a path of the snapshot")
	verifrt.Reach("paths")
}

func verifC24Snapshot(i int, tmax int) *Snapshot {
	id := restic.ID{byte(i + 1)}
	t := verifrt.Int("time", 1, tmax)
	return &Snapshot{
		id:       &id,
		Time:     time.Unix(int64(t), 0).UTC(),
		Hostname: verifC24Letter("host", "", false),
		Tags:     verifC24List("tags", "", verifrt.Param("tags", 1), false),
		Paths:    verifC24List("paths", "/", verifrt.Param("paths", 1), false),
	}
}

func verifC24Filter() *SnapshotFilter {
	return &SnapshotFilter{
		Hosts: verifC24List("fhosts", "", verifrt.Param("fhosts", 1), false),
		Tags:  verifC24TagLists(verifrt.Param("flists", 1), verifrt.Param("flistlen", 1)),
		Paths: verifC24List("fpaths", "/", verifrt.Param("fpaths", 1), false),
	}
}

func verifC24RefMatches(f *SnapshotFilter, sn *Snapshot) bool {
	return verifC24RefHost(sn.Hostname, f.Hosts) && verifC24RefTagLists(sn.Tags, f.Tags) && verifC24RefPaths(sn.Paths, f.Paths)
}

// VerifC24_Matches: SnapshotFilter.matches is the conjunction of the three filters.
func VerifC24_Matches() {
	sn := verifC24Snapshot(0, 1)
	f := verifC24Filter()
	verifrt.Assert(f.matches(sn) == verifC24RefMatches(f, sn), "matches differs from host AND tag-lists AND paths")
	verifrt.Reach("matches")
}

// ---- environment for findLatest / FindAll: slice-backed lister, snapshot "files" looked up by ID ----

type verifC24Repo struct {
	restic.LoaderUnpacked
	sns []*Snapshot
}

func (r *verifC24Repo) Connections() uint { return 1 }

func (r *verifC24Repo) List(_ context.Context, _ restic.FileType, fn func(restic.ID, int64) error) error {
	for _, sn := range r.sns {
		if err := fn(*sn.id, 1); err != nil {
			return err
		}
	}
	return nil
}

var verifC24Cur *verifC24Repo

// verifC24LoadSnapshot replaces LoadSnapshot (whose JSON decoding is reflection based).
func verifC24LoadSnapshot(_ context.Context, _ restic.LoaderUnpacked, id restic.ID) (*Snapshot, error) {
	for _, sn := range verifC24Cur.sns {
		if *sn.id == id {
			return sn, nil
		}
	}
	verifrt.Assert(false, "a snapshot was loaded that was not listed")
	return nil, nil
}

func verifC24Repository(nmax, tmax int) *verifC24Repo {
	n := verifC24Conc("n", 0, nmax)
	r := &verifC24Repo{}
	for i := 0; i < n; i++ {
		r.sns = append(r.sns, verifC24Snapshot(i, tmax))
	}
	verifC24Cur = r
	verifrt.Stub("internal/data.LoadSnapshot", verifC24LoadSnapshot)
	return r
}

// VerifC24_FindLatest: 'latest' resolves to a matching snapshot that is not after the time limit and
// has no strictly newer matching snapshot within the limit; ErrNoSnapshotFound iff there is none.
func VerifC24_FindLatest() {
	tmax := verifrt.Param("times", 3)
	r := verifC24Repository(verifrt.Param("snapshots", 3), tmax)
	f := verifC24Filter()
	var limit time.Time
	if verifrt.Bool("haveLimit") {
		limit = time.Unix(int64(verifrt.Int("limit", 0, tmax+1)), 0).UTC()
	}
	f.TimestampLimit = limit
	ref := &SnapshotFilter{Hosts: f.Hosts, Tags: f.Tags, Paths: append([]string(nil), f.Paths...)}

	got, err := f.findLatest(context.Background(), r, r)

	eligible := func(sn *Snapshot) bool {
		return verifC24RefMatches(ref, sn) && (limit.IsZero() || !sn.Time.After(limit))
	}
	any := false
	for _, sn := range r.sns {
		if eligible(sn) {
			any = true
		}
	}
	if !any {
		verifrt.Reach("none")
		verifrt.Assert(err == ErrNoSnapshotFound && got == nil, "no eligible snapshot must give ErrNoSnapshotFound")
		return
	}
	verifrt.Reach("found")
	verifrt.Assert(err == nil && got != nil, "an eligible snapshot exists but none was returned")
	isListed := false
	for _, sn := range r.sns {
		if sn == got {
			isListed = true
		}
	}
	verifrt.Assert(isListed, "the result is not one of the listed snapshots")
	verifrt.Assert(eligible(got), "the result does not satisfy the filter or is after the time limit")
	for _, sn := range r.sns {
		if eligible(sn) {
			verifrt.Assert(!sn.Time.After(got.Time), "a newer eligible snapshot exists")
		}
	}
}

// VerifC24_FindAll: without explicit IDs FindAll reports exactly the matching snapshots, each once.
func VerifC24_FindAll() {
	r := verifC24Repository(verifrt.Param("snapshots", 3), 1)
	f := verifC24Filter()
	seen := make([]int, len(r.sns))
	err := f.FindAll(context.Background(), r, r, nil, func(id string, sn *Snapshot, err error) error {
		verifrt.Assert(err == nil && sn != nil, "unexpected error reported")
		verifrt.Assert(id == sn.id.String(), "reported under a wrong id")
		for i, x := range r.sns {
			if x == sn {
				seen[i]++
			}
		}
		return nil
	})
	verifrt.Assert(err == nil, "FindAll failed")
	for i, sn := range r.sns {
		if verifC24RefMatches(f, sn) {
			verifrt.Assert(seen[i] == 1, "a matching snapshot was not reported exactly once")
			verifrt.Reach("reported")
		} else {
			verifrt.Assert(seen[i] == 0, "a snapshot that does not match was reported")
			verifrt.Reach("filtered")
		}
	}
}

// ---- GroupSnapshots ----

func verifC24EncStr(s string) string { return strconv.Itoa(len(s)) + ":" + s }

func verifC24EncList(l []string) string {
	if l == nil {
		return "N"
	}
	s := "L" + strconv.Itoa(len(l)) + "["
	for _, x := range l {
		s += verifC24EncStr(x)
	}
	return s + "]"
}

// verifC24Marshal replaces encoding/json.Marshal at GroupSnapshots' call: an injective encoding of
// SnapshotGroupKey (length-prefixed fields; nil and empty lists are distinguished like null and []).
func verifC24Marshal(v any) ([]byte, error) {
	k, ok := v.(SnapshotGroupKey)
	verifrt.Assert(ok, "json.Marshal stub called with something else than a SnapshotGroupKey")
	return []byte("H" + verifC24EncStr(k.Hostname) + "P" + verifC24EncList(k.Paths) + "T" + verifC24EncList(k.Tags)), nil
}

// multiset equality of short lists
func verifC24SameElems(a, b []string) bool {
	if len(a) != len(b) {
		return false
	}
	used := make([]bool, len(b))
	for _, x := range a {
		found := false
		for j, y := range b {
			if !used[j] && x == y {
				used[j], found = true, true
				break
			}
		}
		if !found {
			return false
		}
	}
	return true
}

// VerifC24_Group: GroupSnapshots partitions the snapshots; two snapshots share a group iff they agree
// on every selected key (host; paths and tags regardless of their order).
func VerifC24_Group() {
	verifrt.Stub("encoding/json.Marshal", verifC24Marshal)
	n := verifC24Conc("n", 0, verifrt.Param("snapshots", 3))
	sns := make(Snapshots, n)
	type orig struct {
		host        string
		paths, tags []string
	}
	o := make([]orig, n)
	for i := range sns {
		id := restic.ID{byte(i + 1)}
		sns[i] = &Snapshot{id: &id,
			Hostname: verifC24Letter("host", "", false),
			Tags:     verifC24List("tags", "", verifrt.Param("tags", 2), false),
			Paths:    verifC24List("paths", "/", verifrt.Param("paths", 2), false),
		}
		o[i] = orig{sns[i].Hostname, append([]string(nil), sns[i].Paths...), append([]string(nil), sns[i].Tags...)}
	}
	by := SnapshotGroupByOptions{Tag: verifrt.Bool("byTag"), Host: verifrt.Bool("byHost"), Path: verifrt.Bool("byPath")}

	groups, grouped, err := GroupSnapshots(sns, by)

	verifrt.Assert(err == nil, "GroupSnapshots failed")
	verifrt.Assert(grouped == (by.Tag || by.Host || by.Path), "wrong 'grouped' flag")
	where := make([]string, n)
	total := 0
	for k, g := range groups {
		verifrt.Assert(len(g) > 0, "empty group")
		total += len(g)
		for _, sn := range g {
			for i := range sns {
				if sns[i] == sn {
					verifrt.Assert(where[i] == "", "a snapshot is in two groups")
					where[i] = "=" + k
				}
			}
		}
	}
	verifrt.Assert(total == n, "the groups do not have as many members as there are snapshots")
	for i := 0; i < n; i++ {
		verifrt.Assert(where[i] != "", "a snapshot is in no group")
		// the snapshot's identity is unchanged (sorting paths/tags in place is allowed)
		verifrt.Assert(sns[i].Hostname == o[i].host && verifC24SameElems(sns[i].Paths, o[i].paths) && verifC24SameElems(sns[i].Tags, o[i].tags), "grouping changed a snapshot")
		for j := 0; j < i; j++ {
			same := (!by.Host || o[i].host == o[j].host) &&
				(!by.Path || verifC24SameElems(o[i].paths, o[j].paths)) &&
				(!by.Tag || verifC24SameElems(o[i].tags, o[j].tags))
			verifrt.Assert((where[i] == where[j]) == same, "two snapshots share a group iff they agree on the selected keys: violated")
			if same {
				verifrt.Reach("same-group")
			} else {
				verifrt.Reach("different-groups")
			}
		}
	}
}

// VerifC24_GroupSeparators: list elements that contain a separator character. Snapshot 1 has the two
// paths (tags) x and y, snapshot 2 the single path (tag) x<sep>y for sep in {blank , | ] " \}: they agree
// on the host but are different path (tag) lists, so grouping by paths (tags) must keep them apart.
func VerifC24_GroupSeparators() {
	verifrt.Stub("encoding/json.Marshal", verifC24Marshal)
	seps := []string{" ", ",", "|", "]", "\"", "\\"}
	k := verifrt.Int("sep", 0, len(seps)-1)
	sep := seps[0]
	for i := range seps { // fork: concrete separator
		if k == i {
			sep = seps[i]
		}
	}
	id1, id2 := restic.ID{1}, restic.ID{2}
	a := &Snapshot{id: &id1, Hostname: "h"}
	b := &Snapshot{id: &id2, Hostname: "h"}
	byPath := verifrt.Bool("byPath")
	if byPath {
		a.Paths, b.Paths = []string{"/a", "/b"}, []string{"/a" + sep + "/b"}
	} else {
		a.Tags, b.Tags = []string{"a", "b"}, []string{"a" + sep + "b"}
	}
	by := SnapshotGroupByOptions{Host: verifrt.Bool("byHost"), Path: byPath, Tag: !byPath}
	groups, _, err := GroupSnapshots(Snapshots{a, b}, by)
	verifrt.Assert(err == nil, "GroupSnapshots failed")
	verifrt.Assert(len(groups) == 2, "snapshots with different path/tag lists were put into one group")
	for _, g := range groups {
		verifrt.Assert(len(g) == 1, "a group does not hold exactly one of the two snapshots")
	}
	verifrt.Reach("separated")
}

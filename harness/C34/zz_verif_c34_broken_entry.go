package repository

// C34 (repair packs, wrong index entry): the pack file and its header are intact, the index lists the
// same number of blobs for the pack but one entry has a wrong offset, length or uncompressed length
// (or names another blob). A blob is readable exactly through the header's (true) entry. repair packs
// must salvage every blob of the pack before it drops the pack from the index and removes it.

import (
	"context"
	"errors"

	"github.com/restic/restic/internal/backend"
	"github.com/restic/restic/internal/repository/index"
	"github.com/restic/restic/internal/repository/pack"
	"github.com/restic/restic/internal/restic"
	"github.com/restic/restic/internal/verifrt"
)

func VerifC34_RepairPacksBrokenIndexEntry() {
	s := &verifC34State{hdr: map[restic.ID]pack.Blobs{}, hdrErr: map[restic.ID]bool{}}
	verifC34S = s
	mk := func(b byte) restic.ID { var id restic.ID; id[0] = b; return id }
	packID := mk(0x41)
	truth := pack.Blobs{
		{BlobHandle: restic.BlobHandle{ID: mk(1), Type: restic.DataBlob}, Offset: 0, Length: 50},
		{BlobHandle: restic.BlobHandle{ID: mk(2), Type: restic.TreeBlob}, Offset: 50, Length: 60, UncompressedLength: 80},
	}
	// the index entry of blob `which` is wrong in one field
	idxBlobs := append(pack.Blobs{}, truth...)
	which := 0
	if verifC34Bool("secondEntry") {
		which = 1
	}
	switch k := verifrt.Int("wrongField", 0, 3); {
	case k == 0:
		idxBlobs[which].Length--
	case k == 1:
		idxBlobs[which].Offset++
	case k == 2:
		idxBlobs[which].UncompressedLength += 7
	default:
		idxBlobs[which].ID = mk(9) // names a blob that is not in the pack
	}

	verifrt.Stub("(*internal/repository.Repository).WithBlobUploader", verifC34StubUploader)
	verifrt.Stub("(*internal/repository.Repository).listPack", verifC34StubListPack)
	verifrt.Stub("internal/repository.rewriteIndexFiles", verifC34StubRewrite)
	verifrt.Stub("(*internal/repository.Repository).loadBlobsFromPack", func(_ *Repository, _ context.Context, id restic.ID, blobs pack.Blobs, fn func(blob restic.BlobHandle, buf []byte, err error) error) error {
		verifrt.Assert(id == packID, "another pack is read")
		for _, b := range blobs {
			ok := false
			for _, t := range truth {
				if t == b {
					ok = true
				}
			}
			if !ok {
				if err := fn(b.BlobHandle, nil, errors.New("blob does not decrypt at this position")); err != nil {
					return err
				}
				continue
			}
			bid := b.ID
			if err := fn(b.BlobHandle, bid[:], nil); err != nil {
				return err
			}
		}
		return nil
	})

	idx := index.NewIndex()
	idx.StorePack(packID, idxBlobs)
	idx.Finalize()
	_ = idx.SetID(mk(0xee))
	mi := index.NewMasterIndex()
	mi.Insert(idx)
	_ = mi.MergeFinalIndexes()
	s.packs = []backend.FileInfo{{Name: packID.String(), Size: 500}}
	s.hdr[packID] = append(pack.Blobs{}, truth...)
	repo := &Repository{be: &verifC34Backend{}, idx: mi, cfg: restic.Config{Version: 2}, opts: Options{PackSize: DefaultPackSize}}

	err := RepairPacks(context.Background(), repo, restic.NewIDSet(packID), restic.NewNoopPrinter())
	if err != nil {
		verifrt.Reach("failed") // an injected upload/flush/rewrite/remove failure
		return
	}
	verifrt.Reach("repaired")
	for _, t := range truth {
		saved := false
		for _, e := range s.ev {
			if e.kind == "rewrite" {
				break
			}
			if e.kind == "save" && e.ok && e.id == t.ID {
				saved = true
			}
		}
		verifrt.Assert(saved, "an intact blob of the pack was not salvaged before the pack was dropped (index entry wrong, header right)")
	}
}

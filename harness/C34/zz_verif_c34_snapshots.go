package main

// C34 (repair snapshots part): the real runRepairSnapshots runs up to and including the construction
// of the tree rewriter; walker.NewTreeRewriter is stubbed to capture the RewriteOpts holding the
// RewriteNode / RewriteFailedTree closures, which are then called with symbolic nodes.
// Stubbed environment: openWithExclusiveLock, restic.MemorizeList, Repository.LoadIndex,
// Repository.LookupBlobSize (symbolic presence and size per blob), SnapshotFilter.FindAll (no snapshots),
// progress.NewTerminalPrinter (no-op printer).

import (
	"context"

	"github.com/restic/restic/internal/data"
	"github.com/restic/restic/internal/global"
	"github.com/restic/restic/internal/repository"
	"github.com/restic/restic/internal/restic"
	"github.com/restic/restic/internal/ui"
	"github.com/restic/restic/internal/verifrt"
	"github.com/restic/restic/internal/walker"
)

type verifC34sBlob struct {
	id      restic.ID
	present bool
	size    uint
}

// package main's own init cannot run symbolically (it touches the OS), so its package-level variables
// have no usable initial value: all state lives in a struct the harness allocates and stores first.
type verifC34sState struct {
	opts    *walker.RewriteOpts
	blobs   []verifC34sBlob
	lookups int
}

var verifC34sS *verifC34sState

func verifC34sCapture(dryRun, forget bool) {
	verifC34sS = &verifC34sState{}
	repo := &repository.Repository{}
	verifrt.Stub("cmd/restic.openWithExclusiveLock", func(ctx context.Context, _ global.Options, _ bool, _ restic.Printer) (context.Context, *repository.Repository, func(), error) {
		return ctx, repo, func() {}, nil
	})
	verifrt.Stub("internal/restic.MemorizeList", func(_ context.Context, _ restic.Lister, _ restic.FileType) (restic.Lister, error) {
		return nil, nil
	})
	verifrt.Stub("(*internal/repository.Repository).LoadIndex", func(_ *repository.Repository, _ context.Context, _ restic.TerminalCounterFactory) error {
		return nil
	})
	verifrt.Stub("(*internal/repository.Repository).LookupBlobSize", func(_ *repository.Repository, h restic.BlobHandle) (uint, bool) {
		verifC34sS.lookups++
		verifrt.Assert(h.Type == restic.DataBlob, "file content looked up with a non-data blob type")
		for _, b := range verifC34sS.blobs {
			if b.id == h.ID {
				return b.size, b.present
			}
		}
		verifrt.Assert(false, "lookup of a blob that is not part of the node")
		return 0, false
	})
	verifrt.Stub("internal/ui/progress.NewTerminalPrinter", func(_ bool, _ uint, _ ui.Terminal) restic.Printer {
		return restic.NewNoopPrinter()
	})
	verifrt.Stub("(*internal/data.SnapshotFilter).FindAll", func(_ *data.SnapshotFilter, _ context.Context, _ restic.Lister, _ restic.LoaderUnpacked, _ []string, _ data.SnapshotFindCb) error {
		return nil
	})
	verifrt.Stub("internal/walker.NewTreeRewriter", func(opts walker.RewriteOpts) *walker.TreeRewriter {
		o := opts
		verifC34sS.opts = &o
		return nil
	})
	err := runRepairSnapshots(context.Background(), global.Options{}, RepairOptions{DryRun: dryRun, Forget: forget}, nil, nil)
	verifrt.Assert(err == nil, "runRepairSnapshots failed without any snapshot")
	verifrt.Assert(verifC34sS.opts != nil, "runRepairSnapshots did not construct a tree rewriter")
}

// VerifC34_RepairSnapshotsNode: RewriteNode on an arbitrary node.
func VerifC34_RepairSnapshotsNode() {
	verifC34sCapture(verifrt.Bool("dryRun"), verifrt.Bool("forget"))
	opts := verifC34sS.opts
	verifrt.Assert(opts.RewriteNode != nil && opts.RewriteFailedTree != nil, "repair snapshots must handle damaged files and unreadable trees")

	types := []data.NodeType{data.NodeTypeFile, data.NodeTypeDir, data.NodeTypeSymlink, data.NodeTypeDev, data.NodeTypeCharDev,
		data.NodeTypeFifo, data.NodeTypeSocket, data.NodeTypeIrregular, data.NodeTypeInvalid}
	t := verifrt.Int("type", 0, len(types)-1)
	tt := len(types) - 1
	for v := 0; v < len(types)-1; v++ {
		if t == v {
			tt = v
			break
		}
	}
	N := verifrt.Param("blobs", 3)
	n := verifrt.Int("nblobs", 0, N)
	var content restic.IDs
	for i := 0; i < n; i++ {
		var id restic.ID
		id[0], id[1] = byte(i+1), 0x34
		if i > 0 && verifrt.Bool("repeatsFirst") {
			id = verifC34sS.blobs[0].id // files may contain the same blob several times
			verifC34sS.blobs = append(verifC34sS.blobs, verifC34sS.blobs[0])
		} else {
			verifC34sS.blobs = append(verifC34sS.blobs, verifC34sBlob{id: id, present: verifrt.Bool("present"), size: uint(verifrt.Uint32("size"))})
		}
		content = append(content, id)
	}
	sub := restic.ID{0x77}
	node := &data.Node{Name: "n", Type: types[tt], Mode: 0o644, Size: verifrt.Uint64("nodeSize"), Content: content, Inode: 5, LinkTarget: "t"}
	if types[tt] == data.NodeTypeDir {
		node.Subtree = &sub
	}
	origSize := node.Size
	orig := append(restic.IDs{}, content...)

	got := opts.RewriteNode(node, "/dir/n")

	switch types[tt] {
	case data.NodeTypeIrregular, data.NodeTypeInvalid:
		verifrt.Reach("invalid-type")
		verifrt.Assert(got == nil, "a node with an invalid type is kept")
		return
	case data.NodeTypeFile:
	default:
		verifrt.Reach("non-file")
		verifrt.Assert(got == node, "a non-file node is not kept as is")
		verifrt.Assert(got.Size == origSize && len(got.Content) == len(orig) && got.Subtree == node.Subtree && got.Type == types[tt], "a non-file node was modified")
		verifrt.Assert(verifC34sS.lookups == 0, "blob lookups for a non-file node")
		return
	}
	verifrt.Assert(got != nil, "a file node is removed instead of being repaired")
	verifrt.Assert(got.Name == "n" && got.Type == data.NodeTypeFile && got.Mode == 0o644 && got.Inode == 5, "file metadata changed by the repair")
	// reference: the present blobs, in order
	var want restic.IDs
	var wantSize uint64
	allPresent := true
	for i, id := range orig {
		if verifC34sS.blobs[i].present {
			want = append(want, id)
			wantSize += uint64(verifC34sS.blobs[i].size)
		} else {
			allPresent = false
		}
	}
	verifrt.Assert(len(got.Content) == len(want), "repaired content is not exactly the available blobs")
	for i := 0; i < len(got.Content) && i < len(want); i++ {
		verifrt.Assert(got.Content[i] == want[i], "repaired content is not the available blobs in their original order")
	}
	verifrt.Assert(got.Size == wantSize, "repaired size is not the sum of the remaining blobs' sizes")
	if allPresent {
		verifrt.Reach("all-present")
		verifrt.Assert(len(got.Content) == len(orig), "a file whose data is fully available lost content")
		if origSize == wantSize {
			verifrt.Assert(got.Size == origSize, "a fully available file with a correct size was modified")
		}
	} else {
		verifrt.Reach("blob-missing")
		verifrt.Assert(len(got.Content) < len(orig), "missing blobs are still referenced")
	}
	verifrt.Assert(got.Content != nil, "content must serialise as a list, not null")
}

// VerifC34_RepairSnapshotsFailedTree: an unreadable root removes the snapshot's tree (nil iterator, no
// error: the snapshot is dropped by filterAndReplaceSnapshot), any other unreadable tree becomes an
// empty directory.
func VerifC34_RepairSnapshotsFailedTree() {
	verifC34sCapture(verifrt.Bool("dryRun"), verifrt.Bool("forget"))
	opts := verifC34sS.opts
	verifrt.Assert(opts.AllowUnstableSerialization, "repair must be allowed to re-serialise trees")
	verifrt.Assert(opts.KeepEmptyDirectory == nil, "repair snapshots must not drop directories that became empty")
	it, err := opts.RewriteFailedTree(restic.ID{1}, "/", context.Canceled)
	verifrt.Assert(it == nil && err == nil, "unreadable root tree: expected the tree to be removed without error")
	p := []string{"/a", "/a/b", "//"}[verifrt.Int("path", 0, 2)]
	it, err = opts.RewriteFailedTree(restic.ID{2}, p, context.Canceled)
	verifrt.Assert(err == nil && it != nil, "unreadable subtree must be replaced, not fail the repair")
	cnt := 0
	if it != nil {
		for range it {
			cnt++
		}
	}
	verifrt.Assert(cnt == 0, "replacement for an unreadable subtree is not empty")
	verifrt.Reach("failed-tree")
}

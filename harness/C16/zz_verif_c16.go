package repository

import (
	"context"
	"sync"

	"github.com/restic/restic/internal/repository/index"
	"github.com/restic/restic/internal/repository/pack"
	"github.com/restic/restic/internal/restic"
	"github.com/restic/restic/internal/verifrt"
)

type verifC16Saver struct{}

func (verifC16Saver) Connections() uint { return 2 }
func (verifC16Saver) SaveUnpacked(_ context.Context, _ restic.FileType, _ []byte) (restic.ID, error) {
	return restic.ID{}, nil
}

// VerifC16_Dedup: concurrent saveBlob calls for blobs whose content (hence ID) may coincide with each
// other or with an already indexed blob store each new ID exactly once; the pack upload completing at
// an arbitrary moment (pending -> indexed transition in MasterIndex.storePack) opens no window.
func VerifC16_Dedup() {
	nth := verifrt.Param("threads", 2)
	ctx := context.Background()
	r := &Repository{idx: index.NewMasterIndex()}
	r.opts.NoExtraVerify = true
	// an index may become "full" at any StorePack: it is then finalized and uploaded (Index.SaveIndex,
	// stubbed: JSON encoding is reflection) while other goroutines keep saving blobs, and only merged
	// into the main index afterwards
	fullBudget := 1 // at most one index becomes full during the scenario
	index.Full = func(*index.Index) bool {
		if fullBudget > 0 && verifrt.Bool("indexFull") {
			fullBudget--
			return true
		}
		return false
	}
	nidx := 0
	verifrt.Stub("(*internal/repository/index.Index).SaveIndex", func(idx *index.Index, _ context.Context, _ restic.SaverUnpacked[restic.FileType]) (restic.ID, error) {
		verifrt.Yield() // the upload takes time
		nidx++
		id := restic.ID{0x1d, byte(nidx)}
		if err := idx.SetID(id); err != nil {
			verifrt.Assert(false, "index saved twice")
		}
		return id, nil
	})

	// content byte 2 is already in the loaded index
	pre := restic.Hash([]byte{2})
	// collision-freeness, only between the three plaintexts used here
	h0, h1 := restic.Hash([]byte{0}), restic.Hash([]byte{1})
	verifrt.Assume(h0 != h1)
	verifrt.Assume(h0 != pre)
	verifrt.Assume(h1 != pre)
	if err := r.idx.StorePack(ctx, restic.ID{0xee}, pack.Blobs{{BlobHandle: restic.BlobHandle{Type: restic.DataBlob, ID: pre}, Length: 40, Offset: 0}}, verifC16Saver{}); err != nil {
		verifrt.Assert(false, "setup: StorePack failed")
	}

	var stored []restic.ID
	npack := 0
	// saveAndEncrypt is replaced by an event; the blob's pack is "uploaded" (StorePack) either right
	// away or when the session ends, and other goroutines run in between.
	verifrt.Stub("(*internal/repository.Repository).saveAndEncrypt", func(r *Repository, ctx context.Context, t restic.BlobType, data []byte, id restic.ID) (int, error) {
		stored = append(stored, id)
		verifrt.Yield()
		if verifrt.Bool("uploadNow") {
			npack++
			_ = r.idx.StorePack(ctx, restic.ID{0xd0, byte(npack)}, pack.Blobs{{BlobHandle: restic.BlobHandle{Type: t, ID: id}, Length: uint(len(data)) + 32}}, verifC16Saver{})
		}
		return len(data), nil
	})

	content := make([]byte, nth)
	known := make([]bool, nth)
	ids := make([]restic.ID, nth)
	var wg sync.WaitGroup
	for t := 0; t < nth; t++ {
		content[t] = byte(verifrt.Int("content", 0, 2))
		t := t
		wg.Add(1)
		go func() {
			defer wg.Done()
			id, k, _, err := r.saveBlob(ctx, restic.DataBlob, []byte{content[t]}, restic.ID{}, false)
			verifrt.Assert(err == nil, "saveBlob failed")
			ids[t], known[t] = id, k
		}()
	}
	wg.Wait()

	for v := byte(0); v <= 2; v++ {
		want := restic.Hash([]byte{v})
		savers, fresh, events := 0, 0, 0
		for t := 0; t < nth; t++ {
			if content[t] == v {
				savers++
				verifrt.Assert(ids[t] == want, "saveBlob returned an ID that is not the hash of the plaintext")
				if !known[t] {
					fresh++
				}
			}
		}
		for _, id := range stored {
			if id == want {
				events++
			}
		}
		switch {
		case v == 2:
			verifrt.Assert(events == 0 && fresh == 0, "a blob that is already in the index was stored again")
		case savers > 0:
			verifrt.Assert(events >= 1, "a new blob was never stored")
			verifrt.Assert(events <= 1, "a new blob was stored more than once")
			verifrt.Assert(fresh == 1, "not exactly one caller was told the blob is new")
			if savers > 1 {
				verifrt.Reach("racing-duplicates")
			}
		default:
			verifrt.Assert(events == 0, "a blob nobody saved was stored")
		}
	}
	verifrt.Reach("dedup-done")
}

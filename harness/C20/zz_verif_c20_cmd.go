package main

// C20 / C27: how the commands combine several pattern sets (--include + --iinclude, --exclude +
// --iexclude, pattern files): every set is an abstract function with an arbitrary answer, so the
// check is about the combination only (the patterns themselves are C28).
//   * restore: the real runRestore from its entry to RestoreTo; the SelectFilter it installs is probed.
//   * rewrite: the real gatherIncludeFilters / gatherExcludeFilters closures.

import (
	"context"
	"errors"

	"github.com/restic/restic/internal/data"
	"github.com/restic/restic/internal/filter"
	"github.com/restic/restic/internal/global"
	"github.com/restic/restic/internal/repository"
	"github.com/restic/restic/internal/restic"
	"github.com/restic/restic/internal/restorer"
	"github.com/restic/restic/internal/verifrt"
)

type verifC20Ans struct{ matched, child bool }

// verifC20Sets: n abstract pattern sets, answers fixed up front (a set that is never asked still
// has an answer, so short-circuiting cannot hide one).
func verifC20Sets(n int) ([]verifC20Ans, []filter.IncludeByNameFunc, []filter.RejectByNameFunc, *int) {
	ans := make([]verifC20Ans, n)
	var inc []filter.IncludeByNameFunc
	var rej []filter.RejectByNameFunc
	calls := 0
	for i := 0; i < n; i++ {
		m, c := verifrt.Bool("matched"), verifrt.Bool("childMayMatch")
		ans[i] = verifC20Ans{m, c}
		a := ans[i]
		inc = append(inc, func(item string) (bool, bool) {
			calls++
			verifrt.Assert(item == "/d/x", "a pattern set was asked about another path")
			return a.matched, a.child
		})
		rej = append(rej, func(item string) bool {
			calls++
			verifrt.Assert(item == "/d/x", "a pattern set was asked about another path")
			return a.matched
		})
	}
	return ans, inc, rej, &calls
}

var verifC20Stop = errors.New("verif: stop at RestoreTo")

// VerifC20_RestoreSelect: runRestore with 0..2 include or exclude pattern sets.
func VerifC20_RestoreSelect() {
	nsets := verifrt.Int("sets", 0, verifrt.Param("sets", 2))
	exclude := verifrt.Bool("exclude")
	ans, inc, rej, _ := verifC20Sets(nsets)

	verifrt.Stub("(internal/filter.IncludePatternOptions).CollectPatterns", func(_ filter.IncludePatternOptions, _ func(string, ...any)) ([]filter.IncludeByNameFunc, error) {
		if exclude {
			return nil, nil
		}
		return inc, nil
	})
	verifrt.Stub("(internal/filter.ExcludePatternOptions).CollectPatterns", func(_ filter.ExcludePatternOptions, _ func(string, ...any)) ([]filter.RejectByNameFunc, error) {
		if !exclude {
			return nil, nil
		}
		return rej, nil
	})
	verifrt.Stub("cmd/restic.openWithReadLock", func(ctx context.Context, _ global.Options, _ bool, _ restic.Printer) (context.Context, *repository.Repository, func(), error) {
		return ctx, &repository.Repository{}, func() {}, nil
	})
	dummy := &data.Snapshot{Hostname: "h", Tree: &restic.ID{1}}
	verifrt.Stub("(*internal/data.SnapshotFilter).FindLatest", func(_ *data.SnapshotFilter, _ context.Context, _ restic.Lister, _ restic.LoaderUnpacked, _ string) (*data.Snapshot, string, error) {
		return dummy, "", nil
	})
	verifrt.Stub("(*internal/repository.Repository).LoadIndex", func(*repository.Repository, context.Context, restic.TerminalCounterFactory) error { return nil })
	verifrt.Stub("internal/data.FindTreeDirectory", func(_ context.Context, _ restic.BlobLoader, id *restic.ID, _ string) (*restic.ID, error) {
		return id, nil
	})

	probed := false
	verifrt.Stub("(*internal/restorer.Restorer).RestoreTo", func(res *restorer.Restorer, _ context.Context, _ string) (uint64, error) {
		probed = true
		isDir := verifrt.Bool("isDir")
		sel, child := res.SelectFilter("/d/x", isDir)
		anyMatch, anyChild := false, false
		for _, a := range ans {
			anyMatch = anyMatch || a.matched
			anyChild = anyChild || a.child
		}
		switch {
		case nsets == 0:
			verifrt.Reach("no-filter")
			verifrt.Assert(sel && child, "without patterns everything is restored")
		case exclude:
			verifrt.Reach("exclude")
			verifrt.Assert(sel == !anyMatch, "--exclude: an item is restored iff no exclude pattern set rejects it")
			verifrt.Assert(child == (sel && isDir), "--exclude: restic descends exactly into the directories it restores")
		default:
			verifrt.Reach("include")
			verifrt.Assert(sel == anyMatch, "--include: an item is restored iff some include pattern set matches it")
			verifrt.Assert(child == (isDir && anyChild), "--include: a directory is descended into iff some include pattern set may match below it")
		}
		return 0, verifC20Stop
	})

	gopts := global.Options{}
	gopts.Term = verifC14Term{}
	err := runRestore(context.Background(), RestoreOptions{Target: "/t"}, gopts, verifC14Term{}, []string{"latest"})
	verifrt.Assert(probed && err == verifC20Stop, "runRestore did not reach RestoreTo")
}

// VerifC27_Combine: rewrite --include/--iinclude resp. --exclude/--iexclude with 1..3 pattern sets.
func VerifC27_Combine() {
	nsets := verifrt.Int("sets", 1, verifrt.Param("sets", 3))
	ans, inc, rej, _ := verifC20Sets(nsets)
	tp := data.NodeTypeFile
	if verifrt.Bool("isDir") {
		tp = data.NodeTypeDir
	}
	node := &data.Node{Name: "x", Type: tp}
	anyMatch, anyChild := false, false
	for _, a := range ans {
		anyMatch = anyMatch || a.matched
		anyChild = anyChild || a.child
	}
	if verifrt.Bool("exclude") {
		rewrite := gatherExcludeFilters(rej, verifC14Printer{})
		got := rewrite(node, "/d/x")
		verifrt.Assert((got == nil) == anyMatch, "rewrite --exclude: a node is dropped iff some exclude pattern set rejects it")
		verifrt.Assert(got == nil || got == node, "rewrite --exclude returned another node")
		verifrt.Reach("exclude")
		return
	}
	rewrite, keepEmpty := gatherIncludeFilters(inc, verifC14Printer{})
	got := rewrite(node, "/d/x")
	want := anyMatch
	if tp == data.NodeTypeDir {
		want = anyMatch || anyChild
	}
	verifrt.Assert((got != nil) == want, "rewrite --include: a file is kept iff some pattern set matches it, a directory iff some set matches it or may match below it")
	verifrt.Assert(got == nil || got == node, "rewrite --include returned another node")
	verifrt.Assert(keepEmpty("/d/x") == anyMatch, "rewrite --include: an empty directory is kept iff some pattern set matches the directory itself")
	verifrt.Reach("include")
}

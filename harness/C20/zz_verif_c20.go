package restorer

import (
	"context"
	iofs "io/fs"
	"os"
	"path"

	"github.com/restic/restic/internal/data"
	"github.com/restic/restic/internal/fs"
	"github.com/restic/restic/internal/restic"
	"github.com/restic/restic/internal/verifrt"
)

// ---- environment ------------------------------------------------------------------------------------

// verifC20Repo: tree ID -> node list (data.LoadTree is replaced: JSON decoding needs reflection).
type verifC20Repo struct {
	restic.Repository
	trees [][]*data.Node
}

func verifC20ID(k int) restic.ID {
	var id restic.ID
	id[0] = byte(k + 1)
	id[31] = 0x20
	return id
}

func (r *verifC20Repo) put(nodes []*data.Node) restic.ID {
	r.trees = append(r.trees, nodes)
	return verifC20ID(len(r.trees) - 1)
}

func (r *verifC20Repo) install() {
	verifrt.Stub("internal/data.LoadTree", func(_ context.Context, _ restic.BlobLoader, id restic.ID) (data.TreeNodeIterator, error) {
		nodes := r.trees[int(id[0])-1]
		return func(yield func(data.NodeOrError) bool) {
			for _, n := range nodes {
				if !yield(data.NodeOrError{Node: n}) {
					return
				}
			}
		}, nil
	})
}

// verifC20Item: one path of the snapshot
type verifC20Item struct {
	loc    string
	dir    bool
	socket bool // a socket node: never restored, but part of the snapshot (protected from --delete)
	parent int // index of the parent item, -1 for entries of the root
}

type verifC20Gen struct {
	r     *verifC20Repo
	items []verifC20Item
}

func (g *verifC20Gen) level(prefix string, parent, depth, maxDepth int) restic.ID {
	var nodes []*data.Node
	for _, nm := range []string{"a", "b"} {
		hi := 1
		if depth < maxDepth {
			hi = 2
		}
		k := verifrt.Int("entry", 0, hi)
		if k == 0 {
			continue
		}
		loc := path.Join(prefix, nm)
		if k == 1 {
			tp := data.NodeTypeFile
			sock := false
			if nm == "b" {
				tp = data.NodeTypeSymlink
				if verifrt.Bool("socket") {
					tp, sock = data.NodeTypeSocket, true
				}
			}
			nodes = append(nodes, &data.Node{Name: nm, Type: tp})
			g.items = append(g.items, verifC20Item{loc: loc, parent: parent, socket: sock})
			continue
		}
		g.items = append(g.items, verifC20Item{loc: loc, dir: true, parent: parent})
		sub := g.level(loc, len(g.items)-1, depth+1, maxDepth)
		nodes = append(nodes, &data.Node{Name: nm, Type: data.NodeTypeDir, Subtree: &sub})
	}
	return g.r.put(nodes)
}

// verifC20Filter: arbitrary fixed answers (selected, childMayBeSelected) per path.
type verifC20Filter struct {
	paths []string
	sel   []bool
	child []bool
	asked []string // paths the restorer asked the filter about
}

func (f *verifC20Filter) get(p string, isDir bool) (bool, bool) {
	for i := range f.paths {
		if f.paths[i] == p {
			return f.sel[i], f.child[i]
		}
	}
	parentChild := true
	if d := path.Dir(p); d != "/" {
		_, parentChild = f.get(d, true)
	}
	s, c := false, false
	// soundness of the filter: something selected (or selectable) below d implies
	// childMayBeSelected(d); so below a directory with childMayBeSelected=false nothing is selected
	if parentChild {
		if verifrt.Bool("selected") {
			s = true
		}
		// both cmd_restore closures report childMayBeSelected only for directories
		if isDir && verifrt.Bool("childMayBeSelected") {
			c = true
		}
	}
	f.paths, f.sel, f.child = append(f.paths, p), append(f.sel, s), append(f.child, c)
	return s, c
}

func (f *verifC20Filter) selectFilter(item string, isDir bool) (bool, bool) {
	f.asked = append(f.asked, item)
	return f.get(item, isDir)
}

func verifC20Has(l []string, s string) bool {
	for _, x := range l {
		if x == s {
			return true
		}
	}
	return false
}

func verifC20Count(l []string, s string) int {
	n := 0
	for _, x := range l {
		if x == s {
			n++
		}
	}
	return n
}

// VerifC20_Traverse: the selection logic of Restorer.traverseTree.
func VerifC20_Traverse() {
	r := &verifC20Repo{}
	r.install()
	g := &verifC20Gen{r: r}
	root := g.level("/", -1, 1, verifrt.Param("depth", 2))
	f := &verifC20Filter{}
	del := false
	if verifrt.Bool("delete") {
		del = true
	}
	res := NewRestorer(r, &data.Snapshot{Tree: &root}, Options{Delete: del})
	res.SelectFilter = f.selectFilter

	var entered, visited, left []string
	var leftEntries [][]string
	rootLeft := false
	targetOK := true
	err := res.traverseTree(context.Background(), "/tgt", root, treeVisitor{
		enterDir: func(_ *data.Node, target, location string) error {
			if location != "/" {
				entered = append(entered, location)
				targetOK = targetOK && target == "/tgt"+location
			}
			return nil
		},
		visitNode: func(node *data.Node, target, location string) error {
			visited = append(visited, location)
			targetOK = targetOK && target == "/tgt"+location && node != nil && node.Type != data.NodeTypeDir
			return nil
		},
		leaveDir: func(_ *data.Node, _, location string, entries []string) error {
			if location == "/" {
				rootLeft = true
				left = append(left, "/")
				leftEntries = append(leftEntries, entries)
			} else {
				left = append(left, location)
				leftEntries = append(leftEntries, entries)
			}
			return nil
		},
	})
	verifrt.Assert(err == nil, "traverseTree failed")
	verifrt.Assert(targetOK, "a visitor was called with a wrong target path or node")

	// expectation from the property statement: exactly the selected paths are written; a directory
	// is only left (metadata, --delete) if it or something below was written; nothing below a
	// directory whose children cannot be selected is looked at.
	anySelected := false
	below := make([]bool, len(g.items)) // something below item i is selected
	for i := len(g.items) - 1; i >= 0; i-- {
		it := g.items[i]
		// reachable: every ancestor allows children (implied by soundness for selected paths)
		reach := true
		for p := it.parent; p >= 0; p = g.items[p].parent {
			_, c := f.get(g.items[p].loc, true)
			if !c {
				reach = false
			}
		}
		if !reach {
			verifrt.Reach("pruned")
			verifrt.Assert(!verifC20Has(entered, it.loc) && !verifC20Has(visited, it.loc) && !verifC20Has(left, it.loc), "a path below a directory with childMayBeSelected=false was visited: "+it.loc)
			verifrt.Assert(!verifC20Has(f.asked, it.loc), "the tree below a directory with childMayBeSelected=false was loaded and filtered: "+it.loc)
			continue
		}
		s, _ := f.get(it.loc, it.dir)
		if it.socket {
			verifrt.Reach("socket")
			verifrt.Assert(!verifC20Has(visited, it.loc) && !verifC20Has(entered, it.loc), "a socket node was restored")
			continue
		}
		if s || below[i] {
			anySelected = true
			if it.parent >= 0 {
				below[it.parent] = true
			}
		}
		if it.dir {
			want := 0
			if s {
				want = 1
				verifrt.Reach("dir-selected")
			}
			verifrt.Assert(verifC20Count(entered, it.loc) == want, "directory created although not selected, or selected directory not created (once): "+it.loc)
			wantLeft := 0
			if s || below[i] {
				wantLeft = 1
			}
			verifrt.Assert(verifC20Count(left, it.loc) == wantLeft, "leaveDir must run exactly for directories that were restored or hold restored items: "+it.loc)
			verifrt.Assert(!verifC20Has(visited, it.loc), "directory passed to visitNode")
		} else {
			want := 0
			if s {
				want = 1
				verifrt.Reach("file-selected")
			} else {
				verifrt.Reach("file-not-selected")
			}
			verifrt.Assert(verifC20Count(visited, it.loc) == want, "file restored although not selected, or selected file not restored (once): "+it.loc)
		}
	}
	verifrt.Assert(len(entered)+len(visited) <= len(g.items), "more visits than snapshot entries")
	verifrt.Assert(rootLeft == anySelected, "the target root must be finished exactly if something was restored")
	// with --delete the names handed to leaveDir protect snapshot entries from deletion: they must
	// contain every selected snapshot entry of that directory and nothing that is not in the snapshot
	if del {
		for k, loc := range left {
			for _, it := range g.items {
				if path.Dir(it.loc) != loc {
					continue
				}
				if s, _ := f.get(it.loc, false); s { // removeUnexpectedFiles asks the filter with isDir=false
					verifrt.Reach("delete-protects")
					verifrt.Assert(verifC20Has(leftEntries[k], path.Base(it.loc)), "--delete: a selected snapshot entry is missing from the names to keep in "+loc)
				}
			}
			for _, e := range leftEntries[k] {
				found := false
				for _, it := range g.items {
					if it.loc == path.Join(loc, e) {
						found = true
					}
				}
				verifrt.Assert(found, "--delete: the names to keep contain something that is not in the snapshot")
			}
		}
	}
}

// ---- removeUnexpectedFiles ---------------------------------------------------------------------------

type verifC20Progress struct {
	noopProgressReporter
	deleted []string
}

func (p *verifC20Progress) ReportDeletion(name string) { p.deleted = append(p.deleted, name) }

// VerifC20_Delete: removeUnexpectedFiles removes exactly the existing entries that are selected and
// not part of the snapshot directory.
func VerifC20_Delete() {
	names := []string{"a", "b", "c"}[:verifrt.Param("names", 3)]
	var existing, expected []string
	for _, nm := range names {
		if verifrt.Bool("exists") {
			existing = append(existing, nm)
		}
		if verifrt.Bool("inSnapshot") {
			expected = append(expected, nm)
		}
	}
	// package os is not initialised by the engine; these assignments are what its init does
	os.ErrNotExist, os.ErrExist, os.ErrPermission = iofs.ErrNotExist, iofs.ErrExist, iofs.ErrPermission
	dirMissing := false
	if verifrt.Bool("dirMissing") {
		dirMissing = true
	}
	var removed []string
	verifrt.Stub("internal/fs.Readdirnames", func(_ fs.FS, dir string, _ int) ([]string, error) {
		verifrt.Assert(dir == "/tgt/d", "wrong directory listed")
		if dirMissing {
			return nil, os.ErrNotExist
		}
		return existing, nil
	})
	verifrt.Stub("path/filepath.Walk", func(root string, fn func(string, os.FileInfo, error) error) error {
		return fn(root, nil, nil)
	})
	verifrt.Stub("internal/fs.RemoveAll", func(p string) error {
		removed = append(removed, p)
		return nil
	})

	f := &verifC20Filter{}
	pr := &verifC20Progress{}
	dry := false
	if verifrt.Bool("dryRun") {
		dry = true
	}
	root := verifC20ID(0)
	res := NewRestorer(&verifC20Repo{}, &data.Snapshot{Tree: &root}, Options{Delete: true, DryRun: dry, Progress: pr})
	res.SelectFilter = f.selectFilter

	err := res.removeUnexpectedFiles(context.Background(), "/tgt/d", "/d", expected)
	verifrt.Assert(err == nil, "removeUnexpectedFiles failed")

	for _, nm := range names {
		want := !dirMissing && verifC20Has(existing, nm) && !verifC20Has(expected, nm)
		if want {
			want, _ = f.get("/d/"+nm, false)
		}
		n := 0
		if want {
			n = 1
			verifrt.Reach("deleted")
		} else {
			verifrt.Reach("kept")
		}
		verifrt.Assert(verifC20Count(pr.deleted, "/tgt/d/"+nm) == n, "deletion report differs from {existing, selected, not in snapshot}: "+nm)
		if dry {
			n = 0
		}
		verifrt.Assert(verifC20Count(removed, "/tgt/d/"+nm) == n, "removed set differs from {existing, selected, not in snapshot}: "+nm)
	}
	verifrt.Assert(len(removed) <= len(names) && len(pr.deleted) <= len(names), "something outside the directory listing was removed")
}

package repository

import (
	"bufio"
	"bytes"
	"context"
	"hash"
	"io"

	"github.com/klauspost/compress/zstd"

	"github.com/restic/restic/internal/backend"
	"github.com/restic/restic/internal/errors"
	"github.com/restic/restic/internal/repository/crypto"
	"github.com/restic/restic/internal/repository/index"
	"github.com/restic/restic/internal/repository/pack"
	"github.com/restic/restic/internal/restic"
	"github.com/restic/restic/internal/verifrt"
)

// ---- environment (models as in C02/C07) ----------------------------------------------------------

func verifC03Tag(nonce, p []byte) []byte {
	in := append(append([]byte(nil), nonce...), p...)
	return verifrt.UFBytes("c03tag", 16, in)
}

func verifC03Seal(_ *crypto.Key, dst, nonce, plaintext, _ []byte) []byte {
	tag := verifC03Tag(nonce, plaintext)
	dst = append(dst, plaintext...)
	return append(dst, tag...)
}

func verifC03Open(_ *crypto.Key, dst, nonce, ciphertext, _ []byte) ([]byte, error) {
	if len(ciphertext) < 16 {
		return nil, errors.New("ciphertext too short")
	}
	l := len(ciphertext) - 16
	if !bytes.Equal(verifC03Tag(nonce, ciphertext[:l]), ciphertext[l:]) {
		return nil, crypto.ErrUnauthenticated
	}
	return append(dst, ciphertext[:l]...), nil
}

const verifC03Magic = 0xFD

func verifC03Frame(p []byte) []byte {
	out := []byte{verifC03Magic, byte(len(p))}
	for _, c := range p {
		out = append(out, c^0x5a)
	}
	return out
}

func verifC03DecodeAll(_ *zstd.Decoder, input, dst []byte) ([]byte, error) {
	if len(input) < 2 || input[0] != verifC03Magic || int(input[1]) != len(input)-2 {
		return dst, errors.New("zstd: invalid input")
	}
	for _, c := range input[2:] {
		dst = append(dst, c^0x5a)
	}
	return dst, nil
}

// streaming SHA-256 = the engine's uninterpreted sha256.Sum256 of everything written
type verifC03Hasher struct{ data []byte }

func (h *verifC03Hasher) Write(p []byte) (int, error) { h.data = append(h.data, p...); return len(p), nil }
func (h *verifC03Hasher) Sum(b []byte) []byte {
	s := restic.Hash(h.data)
	return append(b, s[:]...)
}
func (h *verifC03Hasher) Reset()         { h.data = nil }
func (h *verifC03Hasher) Size() int      { return 32 }
func (h *verifC03Hasher) BlockSize() int { return 64 }

var errVerifC03Read = errors.New("verif: read failed")
var errVerifC03Load = errors.New("verif: load failed")

// stream delivered by the backend: data, then io.EOF or a read error; at most chunk bytes per Read
type verifC03Stream struct {
	data     []byte
	fail     bool
	chunk    int
	consumed int
}

func (r *verifC03Stream) Read(p []byte) (int, error) {
	if len(r.data) == 0 {
		if r.fail && verifrt.Bool("readErr") {
			return 0, errVerifC03Read
		}
		return 0, io.EOF
	}
	if r.chunk > 0 && len(p) > r.chunk {
		p = p[:r.chunk]
	}
	n := copy(p, r.data)
	r.data = r.data[n:]
	r.consumed += n
	return n, nil
}

type verifC03Answer struct {
	failEarly bool
	data      []byte
	readErr   bool
	failLate  bool
	chunk     int
}

type verifC03ListEntry struct {
	name string
	size int64
}

type verifC03Backend struct {
	backend.Backend
	answer   func(h backend.Handle, length int, offset int64) verifC03Answer
	served   []verifC03Answer
	consumed []int
	list     []verifC03ListEntry
	listErr  bool
	lateFail bool // Load may fail after a successful callback
}

func (b *verifC03Backend) Hasher() hash.Hash { return nil }

func (b *verifC03Backend) Load(_ context.Context, h backend.Handle, length int, offset int64, fn func(rd io.Reader) error) error {
	a := b.answer(h, length, offset)
	b.served = append(b.served, a)
	b.consumed = append(b.consumed, 0)
	if a.failEarly {
		return errVerifC03Load
	}
	s := &verifC03Stream{data: append([]byte(nil), a.data...), fail: a.readErr, chunk: a.chunk}
	err := fn(s)
	b.consumed[len(b.consumed)-1] = s.consumed
	if err != nil {
		return err
	}
	if b.lateFail && verifrt.Bool("failLate") {
		// the callback succeeded but the backend reports an error afterwards
		b.served[len(b.served)-1].failLate = true
		return errVerifC03Load
	}
	return nil
}

func (b *verifC03Backend) List(_ context.Context, t backend.FileType, fn func(backend.FileInfo) error) error {
	verifrt.Assert(t == backend.PackFile, "only packs are listed")
	for _, e := range b.list {
		if err := fn(backend.FileInfo{Name: e.name, Size: e.size}); err != nil {
			return err
		}
	}
	if b.listErr {
		return errVerifC03Load
	}
	return nil
}

func verifC03Env() (*Repository, *verifC03Backend) {
	verifrt.Stub("(*internal/repository/crypto.Key).Seal", verifC03Seal)
	verifrt.Stub("(*internal/repository/crypto.Key).Open", verifC03Open)
	verifrt.Stub("internal/repository/crypto.NewRandomNonce", func() []byte { return verifrt.BytesN("nonce", 16) })
	verifrt.Stub("(*github.com/klauspost/compress/zstd.Decoder).DecodeAll", verifC03DecodeAll)
	verifrt.Stub("crypto/sha256.New", func() hash.Hash { return &verifC03Hasher{} })
	index.Full = func(*index.Index) bool { return false }
	be := &verifC03Backend{}
	r := &Repository{be: be, key: &crypto.Key{}, cfg: restic.Config{Version: 2}, idx: index.NewMasterIndex()}
	return r, be
}

type verifC03NoSaver struct{}

func (verifC03NoSaver) Connections() uint { return 2 }
func (verifC03NoSaver) SaveUnpacked(_ context.Context, _ restic.FileType, _ []byte) (restic.ID, error) {
	verifrt.Assert(false, "index save not expected")
	return restic.ID{}, nil
}

func verifC03LE32(b []byte) uint32 {
	return uint32(b[0]) | uint32(b[1])<<8 | uint32(b[2])<<16 | uint32(b[3])<<24
}

// reference: is buf = nonce || data || tag(nonce, data)? returns data
func verifC03RefOpen(buf []byte) ([]byte, bool) {
	if len(buf) < 32 {
		return nil, false
	}
	body := buf[16 : len(buf)-16]
	return body, bytes.Equal(verifC03Tag(buf[:16], body), buf[len(buf)-16:])
}

// reference parser of a decrypted pack header (doc/design.rst)
func verifC03RefParse(h []byte) (out pack.Blobs, ok bool) {
	pos := uint(0)
	for len(h) > 0 {
		if len(h) < 37 {
			return nil, false
		}
		var b pack.Blob
		n := 37
		switch h[0] {
		case 0:
			b.Type = restic.DataBlob
		case 1:
			b.Type = restic.TreeBlob
		case 2:
			b.Type, n = restic.DataBlob, 41
		case 3:
			b.Type, n = restic.TreeBlob, 41
		default:
			return nil, false
		}
		if len(h) < n {
			return nil, false
		}
		b.Length = uint(verifC03LE32(h[1:5]))
		if n == 41 {
			b.UncompressedLength = uint(verifC03LE32(h[5:9]))
		}
		copy(b.ID[:], h[n-32:n])
		b.Offset = pos
		pos += b.Length
		out = append(out, b)
		h = h[n:]
	}
	return out, true
}

// index entries of one pack as the index describes them for contents goods[i]
func verifC03IndexEntries(n, max int, allowDamage bool) (blobs pack.Blobs, goods [][]byte, contiguous bool) {
	contiguous = true
	off := uint(0)
	if allowDamage && verifrt.Bool("startGap") {
		off = 1
		contiguous = false
	}
	for i := 0; i < n; i++ {
		good := verifrt.Bytes("good", max)
		compressed := len(good) > 0 && verifrt.Bool("compressed")
		b := pack.Blob{BlobHandle: restic.BlobHandle{Type: restic.DataBlob, ID: restic.Hash(good)}, Offset: off}
		if verifrt.Param("treefork", 0) == 1 {
			if verifrt.Bool("tree") {
				b.Type = restic.TreeBlob
			}
		} else if compressed {
			// quick tier: compressed blobs are tree blobs, plain ones data blobs
			b.Type = restic.TreeBlob
		}
		if compressed {
			b.UncompressedLength = uint(len(good))
			b.Length = uint(32 + 2 + len(good))
		} else {
			b.Length = uint(32 + len(good))
		}
		off += b.Length
		if allowDamage && i < n-1 && verifrt.Bool("gap") {
			off++
			contiguous = false
		}
		blobs = append(blobs, b)
		goods = append(goods, good)
	}
	return
}

// pack size as computed from the index (pack.Size): header overhead + per blob length + entry size
func verifC03IndexSize(blobs pack.Blobs) int64 {
	size := int64(4 + 32)
	for _, b := range blobs {
		size += int64(b.Length)
		if b.UncompressedLength != 0 {
			size += 41
		} else {
			size += 37
		}
	}
	return size
}

// VerifC03_CheckPackArbitrary: checkPackInner on an arbitrary byte stream: nil => the file was read and
// hashed completely, SHA-256(stream) == pack ID, every indexed blob decrypts and hashes to its ID, the
// index entries are contiguous from 0 and the header (authentic) lists exactly the index entries.
func VerifC03_CheckPackArbitrary() {
	max := verifrt.Param("blob", 1)
	n := verifrt.Int("nblobs", 1, verifrt.Param("blobs", 2))
	r, be := verifC03Env()
	be.lateFail = true
	ctx := context.Background()

	blobs, _, contiguous := verifC03IndexEntries(n, max, true)
	size := verifC03IndexSize(blobs)
	// the pack was stored with some content `orig` of the size the index implies
	orig := verifrt.BytesN("orig", int(size))
	id := restic.Hash(orig)
	if err := r.idx.StorePack(ctx, id, blobs, verifC03NoSaver{}); err != nil {
		verifrt.Assert(false, "setup: StorePack failed")
	}
	lastEnd := int(blobs[n-1].Offset + blobs[n-1].Length)
	hdrLen := int(size) - lastEnd // what is left for the header if the index is right

	be.answer = func(h backend.Handle, length int, offset int64) verifC03Answer {
		verifrt.Assert(h.Type == backend.PackFile && h.Name == id.String(), "wrong file requested")
		verifrt.Assert(offset == 0 && int64(length) == size, "the pack must be read from the start, for its whole expected size")
		var a verifC03Answer
		switch verifrt.Int("kind", 0, 2) {
		case 0:
			a.failEarly = true
			return a
		case 1:
			a.data = verifrt.BytesN("stream", int(size))
		case 2:
			// truncated; ends with io.EOF or a read error (decided when the end is reached)
			a.data = verifrt.BytesN("stream", int(size)-1)
			a.readErr = true
		}
		a.chunk = verifrt.Param("chunk", 0)
		if len(a.data) == int(size) && hdrLen >= 4 {
			// the header length field: right, off by one, or below the crypto overhead (all other values: C06)
			hl := verifC03LE32(a.data[len(a.data)-4:])
			w := uint32(hdrLen - 4)
			verifrt.Assume(hl == w || hl == w+1 || hl < 32)
			if verifrt.Param("typebytes", 0) == 0 && hdrLen >= 36+37 {
				// first header entry: type byte 0..5 (4, 5 stand for all invalid values; keeps the error text concrete)
				verifrt.Assume(a.data[lastEnd+16] <= 5)
			}
		}
		return a
	}

	arg := append(pack.Blobs(nil), blobs...)
	if n == 2 && verifrt.Bool("swap") {
		arg[0], arg[1] = arg[1], arg[0] // checkPackInner sorts itself
	}
	bufRd := bufio.NewReaderSize(nil, verifrt.Param("bufsize", 32))
	err := checkPackInner(ctx, r, id, arg, size, bufRd, &zstd.Decoder{})

	verifrt.Assert(len(be.served) == 1, "checkPackInner loads once")
	a := be.served[0]
	if err != nil {
		verifrt.Reach("arbitrary-rejected")
		return
	}
	verifrt.Reach("arbitrary-accepted")
	verifrt.Assert(!a.failEarly && !a.failLate, "nil although the download failed")
	verifrt.Assert(int64(len(a.data)) == size, "nil for a file of another size than the index implies")
	verifrt.Assert(be.consumed[0] == len(a.data), "nil although not every byte of the file was read (and hashed)")
	verifrt.Assert(restic.Hash(a.data) == id, "nil although SHA-256 of the file is not the pack ID")
	verifrt.Assert(contiguous, "nil although the index entries have gaps / do not start at 0")
	if int64(len(a.data)) != size || !contiguous {
		return
	}
	for _, b := range blobs {
		pt, ok := verifC03RefOpen(a.data[b.Offset : b.Offset+b.Length])
		verifrt.Assert(ok, "nil although a blob does not authenticate")
		if ok && b.UncompressedLength != 0 {
			verifrt.Assert(len(pt) >= 2 && pt[0] == verifC03Magic && int(pt[1]) == len(pt)-2, "nil although a blob does not decompress")
			if len(pt) >= 2 {
				dec := make([]byte, 0, len(pt))
				for _, c := range pt[2:] {
					dec = append(dec, c^0x5a)
				}
				pt = dec
			}
		}
		if ok {
			verifrt.Assert(restic.Hash(pt) == b.ID, "nil although a blob's plaintext does not hash to its ID")
		}
	}
	hdr := a.data[lastEnd:]
	verifrt.Assert(len(hdr) >= 36 && int(verifC03LE32(hdr[len(hdr)-4:])) == len(hdr)-4, "nil although the header does not start right after the last blob")
	if len(hdr) >= 36 {
		body, ok := verifC03RefOpen(hdr[:len(hdr)-4])
		verifrt.Assert(ok, "nil although the header does not authenticate")
		if ok {
			entries, wf := verifC03RefParse(body)
			verifrt.Assert(wf && len(entries) == n, "nil although the header does not list as many blobs as the index")
			for i := 0; wf && i < n && i < len(entries); i++ {
				verifrt.Assert(entries[i] == blobs[i], "nil although a header entry differs from the index entry")
			}
		}
	}
}

// an authentic pack for the given index entries, written by the real Packer
func verifC03BuildPack(r *Repository, blobs pack.Blobs, goods [][]byte) []byte {
	var file bytes.Buffer
	p := pack.NewPacker(r.key, &file)
	for i, b := range blobs {
		pt := goods[i]
		if b.UncompressedLength != 0 {
			pt = verifC03Frame(pt)
		}
		nonce := make([]byte, 16) // concrete, distinct per blob (keeps the solver terms small)
		nonce[0], nonce[1] = 0xb1, byte(i)
		ct := append(append([]byte(nil), nonce...), verifC03Seal(nil, nil, nonce, pt, nil)...)
		_, err := p.Add(b.Type, b.ID, ct, int(b.UncompressedLength))
		verifrt.Assert(err == nil, "setup: Add failed")
	}
	verifrt.Assert(p.Finalize() == nil, "setup: Finalize failed")
	return file.Bytes()
}

// VerifC03_CheckPackDamage: checkPack (with its retry) on an authentic pack that is served intact or
// with one damage (one byte changed at an arbitrary position, last byte cut, one byte appended to the
// stream is not possible: length-limited) on each of the two attempts. nil <=> first attempt intact.
func VerifC03_CheckPackDamage() {
	max := verifrt.Param("blob", 1)
	n := verifrt.Int("nblobs", 1, verifrt.Param("blobs", 2))
	r, be := verifC03Env()
	ctx := context.Background()

	var blobs pack.Blobs
	var goods [][]byte
	if n == 2 && verifrt.Param("fixedshape", 0) == 1 {
		// blob 0: plain data blob, blob 1: compressed tree blob, one symbolic content byte each
		g0, g1 := verifrt.BytesN("good", 1), verifrt.BytesN("good", 1)
		goods = [][]byte{g0, g1}
		blobs = pack.Blobs{
			{BlobHandle: restic.BlobHandle{Type: restic.DataBlob, ID: restic.Hash(g0)}, Offset: 0, Length: 33},
			{BlobHandle: restic.BlobHandle{Type: restic.TreeBlob, ID: restic.Hash(g1)}, Offset: 33, Length: 35, UncompressedLength: 1},
		}
	} else {
		blobs, goods, _ = verifC03IndexEntries(n, max, false)
	}
	verifrt.Stub("internal/repository/crypto.NewRandomNonce", func() []byte { return []byte{0xb2, 1, 2, 3, 4, 5, 6, 7, 8, 9, 10, 11, 12, 13, 14, 15} })
	orig := verifC03BuildPack(r, blobs, goods)
	size := verifC03IndexSize(blobs)
	verifrt.Assert(int64(len(orig)) == size, "index-derived size is the file size")
	id := restic.Hash(orig)
	if err := r.idx.StorePack(ctx, id, blobs, verifC03NoSaver{}); err != nil {
		verifrt.Assert(false, "setup: StorePack failed")
	}
	var damaged []bool
	lastEnd := int(blobs[n-1].Offset + blobs[n-1].Length)
	be.answer = func(h backend.Handle, length int, offset int64) verifC03Answer {
		verifrt.Assert(h.Type == backend.PackFile && h.Name == id.String(), "wrong file requested")
		verifrt.Assert(len(damaged) < 2, "at most two attempts")
		var a verifC03Answer
		a.data = append([]byte(nil), orig...)
		a.chunk = verifrt.Param("chunk", 7)
		ndamage := 2
		if len(damaged) == 1 {
			ndamage = 1 // second attempt: intact or last byte changed
		}
		switch verifrt.Int("damage", 0, ndamage) {
		case 0:
			damaged = append(damaged, false)
		case 1:
			pos := len(orig) - 1
			if len(damaged) == 0 {
				if verifrt.Param("allpositions", 0) == 1 {
					pos = verifrt.Int("pos", 0, len(orig)-1)
				} else {
					// one position per region of the file: blob nonce / data or tag / tag end, header nonce,
					// entry type, entry length, entry ID, header tag, header length field (first and last byte)
					cand := []int{0, 16, lastEnd - 1, lastEnd, lastEnd + 16, lastEnd + 17, lastEnd + 21, len(orig) - 5, len(orig) - 4, len(orig) - 1}
					if verifrt.Param("positions", 10) == 6 {
						cand = []int{0, lastEnd - 1, lastEnd + 16, lastEnd + 21, len(orig) - 5, len(orig) - 1}
					}
					pi := verifrt.Int("posidx", 0, len(cand)-1)
					for k := range cand { // fork: one path per position
						if pi == k {
							pos = cand[k]
							break
						}
					}
				}
			}
			mask := verifrt.Byte("mask")
			verifrt.Assume(mask != 0)
			a.data[pos] ^= mask
			// collision-freeness of SHA-256, assumed only between the stored and the modified file
			verifrt.Assume(restic.Hash(a.data) != id)
			damaged = append(damaged, true)
		case 2:
			a.data = a.data[:len(a.data)-1]
			damaged = append(damaged, true)
		}
		return a
	}

	bufRd := bufio.NewReaderSize(nil, verifrt.Param("bufsize", 32))
	err := checkPack(ctx, r, id, append(pack.Blobs(nil), blobs...), size, bufRd, &zstd.Decoder{})

	if !damaged[0] {
		verifrt.Reach("intact-accepted")
		verifrt.Assert(err == nil, "an intact pack was reported as damaged")
		verifrt.Assert(len(damaged) == 1, "an intact pack is read once")
		return
	}
	verifrt.Reach("damage-reported")
	verifrt.Assert(err != nil, "a damaged pack passed the check")
	verifrt.Assert(len(damaged) == 2, "a failed check is retried once")
	if !damaged[1] {
		verifrt.Reach("transient-damage-reported")
	}
}

// VerifC03_Packs: Checker.Packs compares the packs of the index (real MasterIndex, pack.Size) with an
// arbitrary backend listing.
func VerifC03_Packs() {
	r, be := verifC03Env()
	ctx := context.Background()
	ids := []restic.ID{{0xa1}, {0xa2}, {0xa3}}
	nidx := verifrt.Int("indexPacks", 0, 2)
	want := map[restic.ID]int64{}
	for i := 0; i < nidx; i++ {
		var blobs pack.Blobs
		nb := 1
		if i == 0 {
			nb = verifrt.Int("nblobs", 1, 2)
		}
		off := uint(0)
		for j := 0; j < nb; j++ {
			// blob 0 plain, blob 1 compressed (different header entry sizes)
			b := pack.Blob{BlobHandle: restic.BlobHandle{Type: restic.DataBlob, ID: restic.ID{0xb0, byte(i), byte(j)}}, Offset: off}
			b.Length = uint(32 + 3 + j)
			b.UncompressedLength = uint(5 * j)
			off += b.Length
			blobs = append(blobs, b)
		}
		if err := r.idx.StorePack(ctx, ids[i], blobs, verifC03NoSaver{}); err != nil {
			verifrt.Assert(false, "setup: StorePack failed")
		}
		want[ids[i]] = verifC03IndexSize(blobs)
	}
	// backend listing: any subset of three IDs (a1, a2 possibly indexed, a3 never), arbitrary sizes
	listed := map[restic.ID]int64{}
	for i := 0; i < 3; i++ {
		if verifrt.Bool("listed") {
			var sz int64
			if verifrt.Param("symsize", 0) == 1 {
				sz = verifrt.Int64("size") // any size (the error text formats it: needs the cvc5-int solver)
			} else {
				// the size the index implies, one less, one more, or empty (concrete values)
				base, indexed := want[ids[i]]
				sz = 7
				if indexed {
					switch verifrt.Int("sizekind", 0, 3) {
					case 0:
						sz = base
					case 1:
						sz = base - 1
					case 2:
						sz = base + 1
					case 3:
						sz = 0
					}
				}
			}
			be.list = append(be.list, verifC03ListEntry{name: ids[i].String(), size: sz})
			listed[ids[i]] = sz
		}
	}
	be.list = append(be.list, verifC03ListEntry{name: "not-an-id", size: 1}) // ignored by Repository.List
	be.listErr = verifrt.Bool("listErr")

	ch := make(chan error, 8)
	newChecker(r).Packs(ctx, ch)
	var missing, truncated, orphaned []restic.ID
	other := 0
	for err := range ch {
		var pe *ErrPackMetadata
		if errors.As(err, &pe) {
			switch {
			case pe.Missing && !pe.Truncated && !pe.Orphaned:
				missing = append(missing, pe.ID)
			case pe.Truncated && !pe.Missing && !pe.Orphaned:
				truncated = append(truncated, pe.ID)
			case pe.Orphaned && !pe.Missing && !pe.Truncated:
				orphaned = append(orphaned, pe.ID)
			default:
				verifrt.Assert(false, "ErrPackMetadata with an inconsistent flag combination")
			}
		} else {
			other++
		}
	}
	has := func(l []restic.ID, id restic.ID) int {
		c := 0
		for _, x := range l {
			if x == id {
				c++
			}
		}
		return c
	}
	if be.listErr {
		verifrt.Reach("list-error")
		verifrt.Assert(other == 1, "a failing listing must be reported")
	} else {
		verifrt.Assert(other == 0, "unexpected error")
	}
	for _, id := range ids {
		wsz, indexed := want[id]
		lsz, present := listed[id]
		wm, wt, wo := 0, 0, 0
		switch {
		case indexed && !present:
			wm = 1
			verifrt.Reach("missing")
		case indexed && present && wsz != lsz:
			wt = 1
			verifrt.Reach("size-mismatch")
		case !indexed && present:
			wo = 1
			verifrt.Reach("orphaned")
		}
		verifrt.Assert(has(missing, id) == wm, "missing pack: wrong report")
		verifrt.Assert(has(truncated, id) == wt, "pack of unexpected size: wrong report")
		verifrt.Assert(has(orphaned, id) == wo, "orphaned pack: wrong report")
	}
}

package checker

import (
	"github.com/restic/restic/internal/data"
	"github.com/restic/restic/internal/errors"
	"github.com/restic/restic/internal/restic"
	"github.com/restic/restic/internal/verifrt"
)

type verifC03Repo struct {
	restic.Repository
	known []restic.ID
}

func (r *verifC03Repo) LookupBlobSize(h restic.BlobHandle) (uint, bool) {
	for _, id := range r.known {
		if id == h.ID && h.Type == restic.DataBlob {
			return 1, true
		}
	}
	return 0, false
}

type verifC03Set struct {
	restic.AssociatedBlobSet
	inserted []restic.BlobHandle
}

func (s *verifC03Set) Insert(h restic.BlobHandle) { s.inserted = append(s.inserted, h) }

// VerifC03_CheckTree: Checker.checkTree over a tree of N arbitrary nodes reports no error iff every node
// has a known type and a non-empty name, every file has a non-nil content list of non-null blob IDs that
// are all in the index (as data blobs), and every directory has a non-null subtree ID; a decoding error of
// the tree stream is reported.
func VerifC03_CheckTree() {
	nmax := verifrt.Param("nodes", 2)
	cmax := verifrt.Param("content", 2)
	n := verifrt.Int("nodes", 0, nmax)
	known := restic.ID{0xc1}
	unknown := restic.ID{0xc2}
	repo := &verifC03Repo{known: []restic.ID{known}}
	set := &verifC03Set{}
	c := &Checker{repo: repo, trackUnused: verifrt.Bool("trackUnused")}
	c.blobRefs.M = set

	// index 0 file, 1 dir, 2.. other known types, then the unknown ones
	types := []data.NodeType{data.NodeTypeFile, data.NodeTypeDir, data.NodeTypeSymlink, data.NodeTypeDev, data.NodeTypeCharDev,
		data.NodeTypeFifo, data.NodeTypeSocket, data.NodeTypeIrregular, data.NodeTypeInvalid, data.NodeType("bogus")}
	firstUnknown := 7
	if verifrt.Param("alltypes", 0) == 0 {
		types = []data.NodeType{data.NodeTypeFile, data.NodeTypeDir, data.NodeTypeSymlink, data.NodeTypeIrregular, data.NodeTypeInvalid}
		firstUnknown = 3
	}
	var items []data.NodeOrError
	good := true
	var refs []restic.ID
	for i := 0; i < n; i++ {
		node := &data.Node{}
		ti := verifrt.Int("type", 0, len(types)-1)
		node.Type = types[ti]
		if verifrt.Bool("named") {
			node.Name = "n"
		} else {
			good = false
		}
		switch {
		case ti == 0:
			if verifrt.Bool("nilContent") {
				good = false
			} else {
				node.Content = restic.IDs{}
				nc := verifrt.Int("ncontent", 0, cmax)
				for j := 0; j < nc; j++ {
					switch verifrt.Int("blob", 0, 2) {
					case 0:
						node.Content = append(node.Content, known)
						refs = append(refs, known)
					case 1:
						node.Content = append(node.Content, unknown)
						refs = append(refs, unknown)
						good = false
					case 2:
						node.Content = append(node.Content, restic.ID{})
						good = false
					}
				}
			}
		case ti == 1:
			switch verifrt.Int("subtree", 0, 2) {
			case 0:
				st := restic.ID{0xd1}
				node.Subtree = &st
			case 1:
				node.Subtree = &restic.ID{}
				good = false
			case 2:
				good = false
			}
		case ti >= firstUnknown:
			good = false
		}
		items = append(items, data.NodeOrError{Node: node})
	}
	decodeErr := verifrt.Bool("decodeError")
	if decodeErr {
		// like data.NewTreeNodeIterator: a decode error is the last item
		items = append(items, data.NodeOrError{Error: errors.New("verif: truncated tree")})
	}
	readToEnd := false
	tree := func(yield func(data.NodeOrError) bool) {
		for _, it := range items {
			if !yield(it) {
				return
			}
		}
		readToEnd = true
	}

	errs := c.checkTree(restic.ID{0xee}, tree)
	// data.StreamTrees collects the subtrees while checkTree iterates and panics ("tree was not read
	// completely") if the iteration was abandoned: a damaged tree must be reported, not crash the check
	verifrt.Assert(readToEnd, "checkTree abandoned the tree iterator: StreamTrees panics instead of reporting the damaged tree")

	if good && !decodeErr {
		verifrt.Reach("tree-clean")
		verifrt.Assert(len(errs) == 0, "a well-formed tree was reported as damaged")
	} else {
		verifrt.Reach("tree-damaged")
		verifrt.Assert(len(errs) > 0, "a damaged tree (missing/null blob, missing subtree, empty name, unknown type or decode error) passed the check")
	}
	for _, e := range errs {
		var ce *Error
		verifrt.Assert(errors.As(e, &ce) && ce.TreeID == restic.ID{0xee}, "errors carry the tree ID")
	}
	if c.trackUnused {
		verifrt.Reach("track-unused")
		verifrt.Assert(len(set.inserted) == len(refs), "every non-null content blob is marked as referenced")
		for i := 0; i < len(refs) && i < len(set.inserted); i++ {
			verifrt.Assert(set.inserted[i] == restic.BlobHandle{ID: refs[i], Type: restic.DataBlob}, "wrong blob marked as referenced")
		}
	} else {
		verifrt.Assert(len(set.inserted) == 0, "nothing is tracked")
	}
}

package repository

import (
	"context"

	"github.com/restic/restic/internal/backend"
	"github.com/restic/restic/internal/restic"
	"github.com/restic/restic/internal/verifrt"
)

// VerifC03_LoadKey: a key file whose stored bytes no longer hash to its name (any modification of the
// file, also in the fields that are not covered by the key's own MAC) is rejected by LoadKey; an
// intact file is accepted.
func VerifC03_LoadKey() {
	max := verifrt.Param("file", 3)
	r, be := verifC02Env(2)
	good := verifrt.Bytes("good", max)
	id := restic.Hash(good)
	be.answer = func(h backend.Handle, length int, offset int64) verifC02Answer {
		verifrt.Assert(h.Type == backend.KeyFile && h.Name == id.String(), "LoadKey asked the backend for another file")
		return verifC02AnyAnswer(max)
	}
	// JSON decoding (reflection) is not the subject: any bytes "parse"
	verifrt.Stub("encoding/json.Unmarshal", func([]byte, any) error { return nil })

	k, err := LoadKey(context.Background(), r, id)

	last := be.served[len(be.served)-1]
	lastOK := !last.failEarly && !last.readErr && !last.failLate
	if err == nil {
		verifrt.Reach("key-accepted")
		verifrt.Assert(k != nil, "no key returned")
		verifrt.Assert(lastOK && restic.Hash(last.data) == id, "a key file whose bytes do not hash to its name was accepted")
	} else {
		verifrt.Reach("key-rejected")
		verifrt.Assert(k == nil, "a key was returned together with an error")
	}
	first := be.served[0]
	if !first.failEarly && !first.readErr && !first.failLate && restic.Hash(first.data) == id {
		verifrt.Assert(err == nil, "an intact key file was rejected")
	}
}

package index

import (
	"github.com/restic/restic/internal/repository/pack"
	"github.com/restic/restic/internal/restic"
	"github.com/restic/restic/internal/verifrt"
)

// Model of hash/maphash for the engine: one fixed, valid hash function (the first ID byte). The hash
// table itself is checked under C56 with an arbitrary hash; here only its multimap behaviour is used.
// Natively the real maphash runs (the property does not depend on the hash).
func verifC48Hash(m *indexMap, id restic.ID) uint {
	if verifC48OneBucket {
		return 0 // every blob in the same bucket chain (a constant function is a valid hash function)
	}
	return uint(id[0]) & uint(len(m.buckets)-1)
}

var verifC48OneBucket bool

// a blob ID "1".."hi" (one symbolic byte; IDs are compared only for equality)
func verifC48ID(name string, hi byte) restic.ID {
	var id restic.ID
	id[0] = verifrt.Byte(name)
	verifrt.Assume(id[0] >= 1 && id[0] <= hi)
	id[31] = 0x48
	return id
}

func verifC48Pack(n byte) restic.ID {
	var id restic.ID
	id[0] = n
	id[30] = 0xAA
	return id
}

func verifC48Blob(id restic.ID, t restic.BlobType, off uint) pack.Blob {
	return pack.Blob{BlobHandle: restic.BlobHandle{ID: id, Type: t}, Offset: off, Length: 40}
}

// Builds a real MasterIndex from up to 3 entries in loaded index files plus an optional entry in a
// not yet saved index:
//
//	entry 0 -> index file 1, pack 1      entry 1 -> index file 1, pack 2
//	entry 2 -> index file 2, pack 3      extra   -> unsaved (non-final) index, pack 4
//
// Blob IDs are 1 or 2 (entry 0 is 1 w.l.o.g.), so the same blob may be stored in 1..4 packs, within one
// index file, across index files (merged by MergeFinalIndexes) and across sub-indexes. ID 3 is never indexed.
func verifC48Index(t restic.BlobType) *MasterIndex {
	verifrt.Stub("(*internal/repository/index.indexMap).hash", verifC48Hash)
	nmax := verifrt.Param("entries", 3)
	n := verifrt.Int("entries", 0, nmax)
	ids := make([]restic.ID, n)
	for i := range ids {
		ids[i] = verifC48ID("entryID", 2)
	}
	if n > 0 {
		verifrt.Assume(ids[0][0] == 1)
	}

	mi := NewMasterIndex()
	if n > 0 {
		f1 := NewIndex()
		f1.StorePack(verifC48Pack(1), pack.Blobs{verifC48Blob(ids[0], t, 0)})
		if n > 1 {
			f1.StorePack(verifC48Pack(2), pack.Blobs{verifC48Blob(ids[1], t, 0)})
		}
		f1.Finalize()
		verifrt.Assert(f1.SetID(verifC48Pack(101)) == nil, "SetID failed")
		mi.Insert(f1)
	}
	if n > 2 {
		f2 := NewIndex()
		f2.StorePack(verifC48Pack(3), pack.Blobs{verifC48Blob(ids[2], t, 0)})
		f2.Finalize()
		verifrt.Assert(f2.SetID(verifC48Pack(102)) == nil, "SetID failed")
		mi.Insert(f2)
	}
	verifrt.Assert(mi.MergeFinalIndexes() == nil, "MergeFinalIndexes failed")
	if verifrt.Param("unsaved", 1) != 0 && verifrt.Bool("unsavedEntry") {
		u := NewIndex()
		u.StorePack(verifC48Pack(4), pack.Blobs{verifC48Blob(verifC48ID("unsavedID", 2), t, 0)})
		mi.Insert(u)
	}
	return mi
}

type verifC48Member struct {
	h restic.BlobHandle
	v uint8
}

// reference set: a list without duplicates
type verifC48Ref struct{ m []verifC48Member }

func (r *verifC48Ref) find(h restic.BlobHandle) int {
	for i := range r.m {
		if r.m[i].h == h {
			return i
		}
	}
	return -1
}

func (r *verifC48Ref) set(h restic.BlobHandle, v uint8) {
	if i := r.find(h); i >= 0 {
		r.m[i].v = v
		return
	}
	r.m = append(r.m, verifC48Member{h, v})
}

func (r *verifC48Ref) del(h restic.BlobHandle) {
	if i := r.find(h); i >= 0 {
		r.m = append(r.m[:i:i], r.m[i+1:]...)
	}
}

func (r *verifC48Ref) Has(h restic.BlobHandle) bool { return r.find(h) >= 0 }

// a handle: ID 1..3 (3 is not in the index), of type t or - if otherType - of the other blob type
func verifC48Handle(t restic.BlobType, otherType bool) restic.BlobHandle {
	h := restic.BlobHandle{ID: verifC48ID("opID", 3), Type: t}
	if otherType && verifrt.Bool("opOtherType") {
		h.Type = restic.DataBlob + restic.TreeBlob - t
	}
	return h
}

// applies up to `ops` symbolic Set/Delete operations to a fresh set and to the reference
func verifC48Ops(mi *MasterIndex, t restic.BlobType, maxOps int, allowDelete, otherType, extend bool) (*AssociatedSet[uint8], *verifC48Ref) {
	a := NewAssociatedSet[uint8](mi)
	ref := &verifC48Ref{}
	if extend && verifrt.Bool("indexExtended") {
		// the index grows after the set was created (another index file is loaded and merged):
		// blob 3 becomes known, or blob 1/2 gets one more copy
		f3 := NewIndex()
		f3.StorePack(verifC48Pack(5), pack.Blobs{verifC48Blob(verifC48ID("extendID", 3), t, 0)})
		f3.Finalize()
		verifrt.Assert(f3.SetID(verifC48Pack(103)) == nil, "SetID failed")
		mi.Insert(f3)
		verifrt.Assert(mi.MergeFinalIndexes() == nil, "MergeFinalIndexes failed")
	}
	nops := verifrt.Int("ops", 0, maxOps)
	for i := 0; i < nops; i++ {
		h := verifC48Handle(t, otherType)
		if allowDelete && verifrt.Bool("opDelete") {
			a.Delete(h)
			ref.del(h)
		} else {
			v := verifrt.Byte("opVal")
			a.Set(h, v)
			ref.set(h, v)
		}
	}
	return a, ref
}

// checks Len/All/Keys/Get of a against the reference
func verifC48Check(a *AssociatedSet[uint8], ref *verifC48Ref, what string) {
	verifrt.Assert(a.Len() == len(ref.m), what+": Len() differs from the number of distinct members")

	seen := make([]bool, len(ref.m))
	cnt := 0
	for h, v := range a.All() {
		cnt++
		i := ref.find(h)
		verifrt.Assert(i >= 0, what+": All() yielded a handle that is not a member")
		if i >= 0 {
			verifrt.Assert(!seen[i], what+": All() yielded a member twice")
			seen[i] = true
			verifrt.Assert(v == ref.m[i].v, what+": All() yielded a wrong value")
		}
	}
	verifrt.Assert(cnt == len(ref.m), what+": All() did not yield every member exactly once")

	kcnt := 0
	for h := range a.Keys() {
		kcnt++
		verifrt.Assert(ref.Has(h), what+": Keys() yielded a handle that is not a member")
	}
	verifrt.Assert(kcnt == len(ref.m), what+": Keys() did not yield every member exactly once")

	for _, m := range ref.m {
		v, ok := a.Get(m.h)
		verifrt.Assert(ok && v == m.v, what+": Get() of a member failed")
	}
}

// VerifC48_LenAll: after any <=N Set/Delete operations on any small index, Len() is the number of
// distinct members and All()/Keys() enumerate each member exactly once with its value.
func VerifC48_LenAll() { verifC48LenAll() }

// VerifC48_ExtendedIndex: the same when the index may grow after the set was created.
func VerifC48_ExtendedIndex() { verifC48LenAll() }

func verifC48LenAll() {
	t := restic.DataBlob
	mi := verifC48Index(t)
	a, ref := verifC48Ops(mi, t, verifrt.Param("ops", 2), true, false, verifrt.Param("extend", 0) != 0)
	verifC48Check(a, ref, "set")

	q := verifC48Handle(t, false)
	verifrt.Assert(a.Has(q) == ref.Has(q), "Has() differs from membership")
	if len(ref.m) > 0 {
		verifrt.Reach("non-empty")
	} else {
		verifrt.Reach("empty")
	}
}

// VerifC48_Types: handles with the same ID but different blob type are different members.
func VerifC48_Types() {
	t := restic.DataBlob
	if verifrt.Bool("indexHoldsTrees") {
		t = restic.TreeBlob
	}
	mi := verifC48Index(t)
	a, ref := verifC48Ops(mi, t, verifrt.Param("ops", 2), true, true, false)
	verifC48Check(a, ref, "set")
	verifrt.Reach("types-done")
}

// VerifC48_IntersectSub: Intersect and Sub are the set operations (members, values of the receiver, Len).
func VerifC48_IntersectSub() {
	t := restic.DataBlob
	mi := verifC48Index(t)
	maxOps := verifrt.Param("ops", 2)
	a, ra := verifC48Ops(mi, t, maxOps, false, false, false)
	b, rb := verifC48Ops(mi, t, maxOps, false, false, false)

	wantI, wantS := &verifC48Ref{}, &verifC48Ref{}
	for _, m := range ra.m {
		if rb.Has(m.h) {
			wantI.set(m.h, m.v)
		} else {
			wantS.set(m.h, m.v)
		}
	}
	if verifrt.Bool("sub") {
		verifC48Check(a.Sub(b), wantS, "Sub")
		verifrt.Reach("sub")
	} else {
		verifC48Check(a.Intersect(b), wantI, "Intersect")
		verifrt.Reach("intersect")
	}
}

// VerifC48_GrowWhileInUse: the index grows while the set already has members: Set/Delete operations,
// then another index file with 1..X entries (blob IDs 1..3, one pack each; more entries than the
// index had so far are possible) is loaded and merged, then more operations. Members keep their
// identity and value across the growth. All blobs share one hash bucket here (a constant hash
// function is a valid hash function), so copies of one blob can be separated by another blob in the
// bucket chain.
func VerifC48_GrowWhileInUse() {
	t := restic.DataBlob
	verifC48OneBucket = true
	mi := verifC48Index(t)
	a := NewAssociatedSet[uint8](mi)
	ref := &verifC48Ref{}
	apply := func(max int, tag string) {
		n := verifrt.Int(tag, 0, max)
		for i := 0; i < n; i++ {
			h := verifC48Handle(t, false)
			if verifrt.Bool("opDelete") {
				a.Delete(h)
				ref.del(h)
			} else {
				v := verifrt.Byte("opVal")
				a.Set(h, v)
				ref.set(h, v)
			}
		}
	}
	apply(verifrt.Param("ops", 2), "opsBefore")
	verifC48Check(a, ref, "before the index grows")

	f3 := NewIndex()
	nx := verifrt.Int("extEntries", 1, verifrt.Param("ext", 3))
	for i := 0; i < nx; i++ {
		f3.StorePack(verifC48Pack(byte(5+i)), pack.Blobs{verifC48Blob(verifC48ID("extendID", 3), t, 0)})
	}
	f3.Finalize()
	verifrt.Assert(f3.SetID(verifC48Pack(103)) == nil, "SetID failed")
	mi.Insert(f3)
	verifrt.Assert(mi.MergeFinalIndexes() == nil, "MergeFinalIndexes failed")
	verifC48Check(a, ref, "after the index grew")

	apply(1, "opsAfter")
	verifC48Check(a, ref, "after operations on the grown index")
	q := verifC48Handle(t, false)
	verifrt.Assert(a.Has(q) == ref.Has(q), "Has() differs from membership after the index grew")
	if len(ref.m) > 0 {
		verifrt.Reach("members-across-growth")
	}
}

//go:build !windows

package local

import (
	"context"
	"io"
	"os"
	"path/filepath"
	"strings"
	"syscall"

	"github.com/restic/restic/internal/backend"
	"github.com/restic/restic/internal/backend/layout"
	"github.com/restic/restic/internal/backend/util"
	"github.com/restic/restic/internal/restic"
	"github.com/restic/restic/internal/verifrt"
)

// ---- file-system model: every os-level operation of Local.Save is an event with a symbolic outcome ----

const (
	verifC36CreateTemp = iota
	verifC36MkdirAll
	verifC36Prealloc
	verifC36Copy
	verifC36Sync
	verifC36Close
	verifC36Rename
	verifC36OpenDir
	verifC36DirSync
	verifC36DirClose
	verifC36Chmod
	verifC36Remove
)

type verifC36Ev struct {
	op       int
	ok       bool
	notsup   bool   // failed with ENOTSUP
	name     string // path operated on (Rename: source)
	to       string // Rename: destination
	n        int64  // Copy: bytes that reached the temporary file
	tolerate bool   // DirSync: failed with an errno fsyncDir ignores
	again    bool   // Close: the handle had been closed before (fails with os.ErrClosed)
}

type verifC36FS struct {
	trace   []verifC36Ev
	length  int64 // size of the data to be saved
	tmp     *os.File
	tmpName string
	dirh    *os.File
	dirName string
	temps   int
	final   string

	tmpCloseCalled bool
	st             verifC36State
	states         []verifC36State // states[i]: abstract directory state after the first i events
}

var verifC36 *verifC36FS

var verifC36Errnos = [...]syscall.Errno{syscall.EIO, syscall.ENOSPC, syscall.EACCES, syscall.ENOTSUP, syscall.ENOENT, syscall.EINVAL}

// fail draws the outcome of one operation: nil or an arbitrary errno out of the list above.
func (fs *verifC36FS) fail() (syscall.Errno, bool) {
	if !verifrt.Bool("fail") {
		return 0, false
	}
	return verifC36Errnos[verifrt.Int("errno", 0, len(verifC36Errnos)-1)], true
}

func verifC36TempFile(dir, pattern string) (*os.File, error) {
	fs := verifC36
	verifrt.Assert(fs.tmp == nil, "second temporary file created although the first one exists")
	if e, failed := fs.fail(); failed {
		fs.record(verifC36Ev{op: verifC36CreateTemp, name: dir})
		return nil, &os.PathError{Op: "open", Path: filepath.Join(dir, pattern), Err: e}
	}
	fs.temps++
	// os.CreateTemp appends a random decimal number
	fs.tmpName = filepath.Join(dir, pattern+"3141592653")
	fs.tmp = new(os.File)
	fs.record(verifC36Ev{op: verifC36CreateTemp, ok: true, name: fs.tmpName})
	return fs.tmp, nil
}

func verifC36MkdirAllFn(path string, _ os.FileMode) error {
	fs := verifC36
	e, failed := fs.fail()
	fs.record(verifC36Ev{op: verifC36MkdirAll, ok: !failed, name: path})
	if failed {
		return &os.PathError{Op: "mkdir", Path: path, Err: e}
	}
	return nil
}

func verifC36PreallocFn(f *os.File, _ int64) error {
	fs := verifC36
	verifrt.Assert(f == fs.tmp, "preallocation of a foreign file")
	e, failed := fs.fail()
	fs.record(verifC36Ev{op: verifC36Prealloc, ok: !failed, name: fs.tmpName})
	if failed {
		return e
	}
	return nil
}

// anyFail: did any operation fail, or did the source deliver fewer bytes than announced?
func (fs *verifC36FS) anyFail() bool {
	for _, ev := range fs.trace {
		if !ev.ok || (ev.op == verifC36Copy && ev.n != fs.length) {
			return true
		}
	}
	return false
}

func verifC36ReadFrom(f *os.File, _ io.Reader) (int64, error) {
	fs := verifC36
	verifrt.Assert(f == fs.tmp, "data written to a foreign file")
	n := verifrt.Int64("written")
	verifrt.Assume(n >= 0 && n <= fs.length)
	e, failed := fs.fail()
	fs.record(verifC36Ev{op: verifC36Copy, ok: !failed, name: fs.tmpName, n: n})
	if failed {
		return n, &os.PathError{Op: "write", Path: fs.tmpName, Err: e}
	}
	return n, nil
}

func verifC36SyncFn(f *os.File) error {
	fs := verifC36
	e, failed := fs.fail()
	ev := verifC36Ev{op: verifC36Sync, ok: !failed, name: fs.tmpName, notsup: failed && e == syscall.ENOTSUP}
	if f == fs.dirh {
		ev.op, ev.name = verifC36DirSync, fs.dirName
		ev.tolerate = failed && (e == syscall.ENOTSUP || e == syscall.ENOENT || e == syscall.EINVAL)
	} else {
		verifrt.Assert(f == fs.tmp, "Sync on an unknown file")
	}
	fs.record(ev)
	if failed {
		return &os.PathError{Op: "sync", Path: ev.name, Err: e}
	}
	return nil
}

func verifC36CloseFn(f *os.File) error {
	fs := verifC36
	if f == fs.tmp && fs.tmpCloseCalled {
		// Close on a handle that was closed before: os.ErrClosed, no effect
		fs.record(verifC36Ev{op: verifC36Close, name: fs.tmpName, again: true})
		return &os.PathError{Op: "close", Path: fs.tmpName, Err: os.ErrClosed}
	}
	e, failed := fs.fail()
	ev := verifC36Ev{op: verifC36Close, ok: !failed, name: fs.tmpName}
	if f == fs.dirh {
		ev.op, ev.name = verifC36DirClose, fs.dirName
	} else {
		verifrt.Assert(f == fs.tmp, "Close on an unknown file")
		fs.tmpCloseCalled = true
	}
	fs.record(ev)
	if failed {
		return &os.PathError{Op: "close", Path: ev.name, Err: e}
	}
	return nil
}

func verifC36NameFn(f *os.File) string {
	fs := verifC36
	if f == fs.dirh {
		return fs.dirName
	}
	verifrt.Assert(f == fs.tmp, "Name of an unknown file")
	return fs.tmpName
}

func verifC36RenameFn(from, to string) error {
	fs := verifC36
	e, failed := fs.fail()
	fs.record(verifC36Ev{op: verifC36Rename, ok: !failed, name: from, to: to})
	if failed {
		return &os.LinkError{Op: "rename", Old: from, New: to, Err: e}
	}
	return nil
}

func verifC36RemoveFn(name string) error {
	fs := verifC36
	e, failed := fs.fail()
	fs.record(verifC36Ev{op: verifC36Remove, ok: !failed, name: name})
	if failed {
		return &os.PathError{Op: "remove", Path: name, Err: e}
	}
	return nil
}

func verifC36OpenFn(name string) (*os.File, error) {
	fs := verifC36
	e, failed := fs.fail()
	fs.record(verifC36Ev{op: verifC36OpenDir, ok: !failed, name: name})
	if failed {
		return nil, &os.PathError{Op: "open", Path: name, Err: e}
	}
	fs.dirh = new(os.File)
	fs.dirName = name
	return fs.dirh, nil
}

func verifC36ChmodFn(name string, mode os.FileMode) error {
	fs := verifC36
	verifrt.Assert(mode&0222 == 0, "file not made read-only")
	e, failed := fs.fail()
	fs.record(verifC36Ev{op: verifC36Chmod, ok: !failed, name: name})
	if failed {
		return &os.PathError{Op: "chmod", Path: name, Err: e}
	}
	return nil
}

type verifC36Reader struct {
	backend.RewindReader
	n int64
}

func (r *verifC36Reader) Length() int64 { return r.n }

// ---- abstract directory state after a prefix of the trace -------------------------------------------------

const (
	verifC36Before  = iota // whatever was there before Save started (nothing, or the complete file of an earlier Save)
	verifC36New            // the renamed temporary file
	verifC36Removed        // removed by Save
)

type verifC36State struct {
	tmpExists  bool
	tmpWritten int64
	tmpSynced  bool // data flushed, or the file system has no fsync
	tmpClosed  bool
	final      int
	finWritten int64
	finSynced  bool
	finClosed  bool
	foreign    bool // an operation touched a path that is neither the temporary nor the final name
}

// record appends the event, applies it to the abstract state and stores the state reached.
func (fs *verifC36FS) record(ev verifC36Ev) {
	if len(fs.states) == 0 {
		fs.states = append(fs.states, fs.st)
	}
	fs.trace = append(fs.trace, ev)
	st := &fs.st
	switch ev.op {
	case verifC36CreateTemp:
		if ev.ok {
			st.tmpExists, st.tmpWritten, st.tmpSynced, st.tmpClosed = true, 0, false, false
		}
	case verifC36Copy:
		st.tmpWritten = ev.n
	case verifC36Sync:
		st.tmpSynced = ev.ok || ev.notsup
	case verifC36Close:
		if ev.ok {
			st.tmpClosed = true
		}
	case verifC36Rename:
		if ev.name != fs.tmpName || ev.to != fs.final {
			st.foreign = true
		}
		if ev.ok {
			st.final, st.finWritten, st.finSynced, st.finClosed = verifC36New, st.tmpWritten, st.tmpSynced, st.tmpClosed
			st.tmpExists = false
		}
	case verifC36Remove:
		switch {
		case ev.name == fs.final:
			if ev.ok {
				st.final = verifC36Removed
			}
		case fs.tmpName != "" && ev.name == fs.tmpName:
			if ev.ok {
				st.tmpExists = false
			}
		default:
			st.foreign = true
		}
	case verifC36Chmod:
		if ev.name != fs.final {
			st.foreign = true
		}
	}
	fs.states = append(fs.states, fs.st)
}

func verifC36Setup() *verifC36FS {
	fs := &verifC36FS{}
	verifC36 = fs
	tempFile = verifC36TempFile
	verifrt.Stub("os.MkdirAll", verifC36MkdirAllFn)
	verifrt.Stub("internal/fileio.PreallocateFile", verifC36PreallocFn)
	verifrt.Stub("(*os.File).ReadFrom", verifC36ReadFrom)
	verifrt.Stub("(*os.File).Sync", verifC36SyncFn)
	verifrt.Stub("(*os.File).Close", verifC36CloseFn)
	verifrt.Stub("(*os.File).Name", verifC36NameFn)
	verifrt.Stub("os.Rename", verifC36RenameFn)
	verifrt.Stub("os.Remove", verifC36RemoveFn)
	verifrt.Stub("os.Open", verifC36OpenFn)
	verifrt.Stub("os.Chmod", verifC36ChmodFn)
	verifrt.Stub("os.OpenFile", func(name string, flag int, _ os.FileMode) (*os.File, error) {
		verifrt.Assert(!(name == fs.final && flag&(os.O_CREATE|os.O_WRONLY|os.O_RDWR|os.O_TRUNC|os.O_APPEND) != 0),
			"the file is created or opened for writing under its final name, where it is visible before it is complete")
		return nil, &os.PathError{Op: "open", Path: name, Err: syscall.EIO}
	})
	return fs
}

const verifC36Name = "0123456789abcdef0123456789abcdef0123456789abcdef0123456789abcdef"

// VerifC36_SaveCrash: Local.Save over every outcome of every file-system step, crash after any prefix.
func VerifC36_SaveCrash() {
	fs := verifC36Setup()
	b := &Local{Config: Config{Path: "/r", Connections: 2}, Layout: layout.NewDefaultLayout("/r", filepath.Join), Modes: util.DefaultModes}
	// every file type goes through the same protocol
	h := backend.Handle{Type: backend.PackFile, Name: verifC36Name}
	switch k := verifrt.Int("type", 0, 5); {
	case k == 1:
		h = backend.Handle{Type: backend.ConfigFile}
	case k == 2:
		h.Type = backend.LockFile
	case k == 3:
		h.Type = backend.KeyFile
	case k == 4:
		h.Type = backend.SnapshotFile
	case k == 5:
		h.Type = backend.IndexFile
	}
	fs.final = b.Filename(h)
	fs.length = int64(verifrt.Int("length", 0, verifrt.Param("length", 2)))

	res := b.Save(context.Background(), h, &verifC36Reader{n: fs.length})

	// (1) crash after any prefix of the events: k is symbolic, states[k] is the directory state the crash leaves
	verifrt.Assert(len(fs.states) == len(fs.trace)+1, "harness: one state per prefix")
	k := verifrt.Int("crash", 0, len(fs.trace))
	st := fs.states[k]
	verifrt.Assert(!st.foreign, "an operation touched a path that is neither the temporary nor the final name")
	verifrt.Assert(st.final != verifC36Removed, "Save removed the file under the final name")
	if st.final == verifC36New {
		verifrt.Assert(st.finWritten == fs.length, "file visible under its final name with partial content")
		verifrt.Assert(st.finSynced, "file renamed to its final name before its data was synced")
		verifrt.Assert(st.finClosed, "file renamed before it was closed")
		verifrt.Reach("crash-after-rename")
	} else {
		verifrt.Reach("crash-before-rename")
	}
	if fs.tmpName != "" {
		verifrt.Assert(strings.Contains(filepath.Base(fs.tmpName), "-tmp-"), "temporary name not recognisable")
		verifrt.Assert(filepath.Dir(fs.tmpName) == filepath.Dir(fs.final), "temporary file not in the directory of the final name (rename would not be atomic)")
		_, perr := restic.ParseID(filepath.Base(fs.tmpName))
		verifrt.Assert(perr != nil, "temporary file name parses as a repository ID")
	}

	// (2) completed run
	end := fs.st
	if res == nil {
		verifrt.Assert(end.final == verifC36New && end.finWritten == fs.length, "Save reported success without the complete file under the final name")
		verifrt.Assert(!end.tmpExists, "temporary file left behind after a successful Save")
		// the rename is committed by a directory sync whenever the file system supports fsync
		ri, ds := -1, -1
		syncOK := false
		for i, ev := range fs.trace {
			switch ev.op {
			case verifC36Rename:
				ri = i
			case verifC36DirSync:
				if ev.ok || ev.tolerate {
					ds = i
				}
			case verifC36Sync:
				syncOK = ev.ok
			}
		}
		if syncOK {
			verifrt.Assert(ds > ri, "successful Save without a directory sync after the rename")
		}
		verifrt.Reach("save-ok")
	} else {
		if end.tmpExists {
			// only if the clean-up itself failed
			last := fs.trace[len(fs.trace)-1]
			verifrt.Assert(last.op == verifC36Remove && last.name == fs.tmpName && !last.ok, "temporary file left behind on an error path")
			verifrt.Reach("cleanup-failed")
		}
		verifrt.Assert(fs.anyFail(), "Save failed although every step succeeded")
		verifrt.Reach("save-failed")
	}
	verifrt.Assert(fs.temps <= 1, "more than one temporary file")
}

// VerifC36_TempNames: no name containing "-tmp-" is accepted as a repository file ID (Repository.List drops
// every listed name that restic.ParseID rejects).
func VerifC36_TempNames() {
	// 64 characters (the only length ParseID decodes): "-tmp-" at every position inside a valid hex ID
	for p := 0; p+5 <= 64; p++ {
		s := []byte(verifC36Name)
		copy(s[p:], "-tmp-")
		_, err := restic.ParseID(string(s))
		verifrt.Assert(err != nil, "a name containing -tmp- parses as a repository ID")
	}
	// one symbolic byte pair next to the marker cannot repair it
	{
		s := []byte(verifC36Name)
		c := verifrt.BytesN("pair", 2)
		copy(s[0:], "-tmp-")
		s[5], s[6] = c[0], c[1]
		_, err := restic.ParseID(string(s))
		verifrt.Assert(err != nil, "a name containing -tmp- parses as a repository ID")
	}
	// the names Local.Save really produces: <final name>-tmp-<decimal number>
	for _, base := range []string{verifC36Name, "config"} {
		for _, sfx := range []string{"0", "4294967295", "31415926535897932384626433832795028841971693993751058"} {
			_, err := restic.ParseID(base + "-tmp-" + sfx)
			verifrt.Assert(err != nil, "a temporary name parses as a repository ID")
		}
	}
	verifrt.Reach("tempname")
}

package archiver

import (
	"context"
	"errors"
	"os"
	"time"

	"github.com/restic/restic/internal/data"
	"github.com/restic/restic/internal/fs"
	"github.com/restic/restic/internal/verifrt"
)

// a source file whose every access may fail
type verifC55File struct {
	fs.File
	fi1, fi2           *fs.ExtendedFileInfo
	stat1Err, stat2Err error
	readableErr        error
	stats              int
	closed             int
}

func (f *verifC55File) MakeReadable() error { return f.readableErr }
func (f *verifC55File) Close() error        { f.closed++; return nil }
func (f *verifC55File) Stat() (*fs.ExtendedFileInfo, error) {
	f.stats++
	if f.stats == 1 {
		return f.fi1, f.stat1Err
	}
	return f.fi2, f.stat2Err
}
func (f *verifC55File) ToNode(bool, func(string, ...any)) (*data.Node, error) {
	return &data.Node{Name: "f", Type: data.NodeTypeFile}, nil
}

type verifC55FS struct {
	fs.FS
	file    *verifC55File
	openErr error
}

func (v *verifC55FS) Abs(p string) (string, error) { return p, nil }
func (v *verifC55FS) OpenFile(string, int, bool) (fs.File, error) {
	if v.openErr != nil {
		return nil, v.openErr
	}
	return v.file, nil
}

func verifC55Err(name string) (err error, notExist bool) {
	switch verifrt.Int(name, 0, 2) {
	case 0:
		return nil, false
	case 1:
		return &os.PathError{Op: "open", Path: "/f", Err: os.ErrNotExist}, true
	}
	return errors.New("input/output error"), false
}

// VerifC55_SaveErrors: every failure to read a regular source file, except the file having vanished
// before it was opened/first stat'ed, reaches the Error callback exactly once and the item is skipped
// (not silently stored, not fatal when the callback says continue).
func VerifC55_SaveErrors() {
	verifrt.Stub("time.Now", func() time.Time { return time.Unix(1700000000, 0) })
	os.ErrNotExist = errors.New("file does not exist") // engine: package os is not initialised
	reg := &fs.ExtendedFileInfo{Name: "f", Mode: 0o644}
	second := reg
	typeChanged := verifrt.Bool("typeChanged")
	if typeChanged {
		second = &fs.ExtendedFileInfo{Name: "f", Mode: os.ModeSymlink | 0o777}
	}
	openErr, openGone := verifC55Err("openErr")
	stat1Err, stat1Gone := verifC55Err("stat1Err")
	readableErr, _ := verifC55Err("readableErr")
	stat2Err, _ := verifC55Err("stat2Err")
	file := &verifC55File{fi1: reg, fi2: second, stat1Err: stat1Err, stat2Err: stat2Err, readableErr: readableErr}
	jobs := make(chan saveFileJob, 1)
	reported := 0
	abort := verifrt.Bool("callbackAborts")
	errAbort := errors.New("abort")
	arch := &Archiver{
		FS:           &verifC55FS{file: file, openErr: openErr},
		SelectByName: func(string) bool { return true },
		Select:       func(string, *fs.ExtendedFileInfo, fs.FS) bool { return true },
		fileSaver:    &fileSaver{ch: jobs},
		summary:      &Summary{},
		Error: func(_ string, _ error) error {
			reported++
			if abort {
				return errAbort
			}
			return nil
		},
		CompleteItem: func(string, ItemAction, ItemStats, time.Duration) {},
		StartFile:    func(string) {},
		CompleteBlob: func(uint64) {},
		ExcludedItem: func(string) {},
	}

	_, excluded, err := arch.save(context.Background(), "/f", "/f", nil, true)

	// reference: first failing step decides
	var wantReport, vanished bool
	switch {
	case openErr != nil:
		wantReport, vanished = !openGone, openGone
	case stat1Err != nil:
		wantReport, vanished = !stat1Gone, stat1Gone
	case readableErr != nil:
		wantReport = true
	case stat2Err != nil:
		wantReport = true
	case typeChanged:
		wantReport = true
	}
	if wantReport {
		verifrt.Reach("read-failure")
		verifrt.Assert(reported == 1, "a source file that could not be read was not reported exactly once")
		if abort {
			verifrt.Assert(err != nil, "the callback's decision to abort was ignored")
		} else {
			verifrt.Assert(err == nil && excluded, "an unreadable file must be skipped, not stored and not fatal")
		}
		verifrt.Assert(len(jobs) == 0, "an unreadable file was handed to the file saver")
	} else if vanished {
		verifrt.Reach("vanished")
		verifrt.Assert(reported == 0 && err == nil && excluded, "a file that vanished before it was opened is silently skipped")
	} else {
		verifrt.Reach("readable")
		verifrt.Assert(reported == 0 && err == nil && !excluded && len(jobs) == 1, "a readable file must be handed to the file saver without an error report")
	}
	if openErr == nil && len(jobs) == 0 {
		verifrt.Assert(file.closed == 1, "file handle leaked on an error path")
	}
}

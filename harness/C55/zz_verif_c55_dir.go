package archiver

// C55, directories: the real Archiver.dirToNodeAndEntries on a directory whose listing may fail -
// before anything was read or after some names were delivered (EIO part-way through a listing on a
// flaky disk, NFS or FUSE) - or whose MakeReadable / metadata lookup fails or whose type changed.
// A directory that could not be listed completely must never be handed on as if it were complete:
// the caller (Archiver.save, VerifC55_SaveErrors) reports exactly the errors returned here.

import (
	"errors"
	"os"

	"github.com/restic/restic/internal/data"
	"github.com/restic/restic/internal/fs"
	"github.com/restic/restic/internal/verifrt"
)

type verifC55Dir struct {
	fs.File
	names       []string
	listErr     error
	readableErr error
	nodeType    data.NodeType
	nodeErr     error
}

func (d *verifC55Dir) MakeReadable() error { return d.readableErr }
func (d *verifC55Dir) Readdirnames(int) ([]string, error) {
	return d.names, d.listErr
}
func (d *verifC55Dir) Stat() (*fs.ExtendedFileInfo, error) {
	return &fs.ExtendedFileInfo{Name: "d", Mode: os.ModeDir | 0o755}, nil
}
func (d *verifC55Dir) ToNode(bool, func(string, ...any)) (*data.Node, error) {
	if d.nodeErr != nil {
		return nil, d.nodeErr
	}
	return &data.Node{Name: "d", Type: d.nodeType}, nil
}

func VerifC55_DirListing() {
	all := []string{"b", "a", "c"}
	n := verifrt.Int("delivered", 0, 3)
	d := &verifC55Dir{names: append([]string(nil), all[:n]...), nodeType: data.NodeTypeDir}
	failed := false
	if verifrt.Bool("listingFails") {
		d.listErr, failed = errors.New("input/output error"), true
	}
	if verifrt.Bool("makeReadableFails") {
		d.readableErr, failed = errors.New("permission denied"), true
	}
	if verifrt.Bool("metadataFails") {
		d.nodeErr, failed = errors.New("lstat failed"), true
	}
	if verifrt.Bool("typeChanged") {
		d.nodeType, failed = data.NodeTypeFile, true
	}
	arch := &Archiver{summary: &Summary{}}
	arch.Error = func(string, error) error { return nil }

	node, names, err := arch.dirToNodeAndEntries("/d", "/src/d", d)

	if failed {
		verifrt.Reach("directory-unreadable")
		verifrt.Assert(err != nil, "a directory that could not be read completely is archived without reporting an error")
		verifrt.Assert(node == nil && names == nil, "partial results returned together with an error")
		return
	}
	verifrt.Reach("directory-read")
	verifrt.Assert(err == nil && node != nil && node.Type == data.NodeTypeDir, "a readable directory was refused")
	verifrt.Assert(len(names) == n, "the list of entries differs from the directory listing")
	for i := 1; i < len(names); i++ {
		verifrt.Assert(names[i-1] < names[i], "entries not sorted")
	}
}

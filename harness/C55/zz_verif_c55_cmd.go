package main

import (
	"context"
	"errors"
	"io"

	"github.com/spf13/cobra"

	"github.com/restic/restic/internal/archiver"
	"github.com/restic/restic/internal/data"
	rerrors "github.com/restic/restic/internal/errors"
	"github.com/restic/restic/internal/fs"
	"github.com/restic/restic/internal/global"
	"github.com/restic/restic/internal/repository"
	"github.com/restic/restic/internal/restic"
	"github.com/restic/restic/internal/ui"
	"github.com/restic/restic/internal/ui/backup"
	"github.com/restic/restic/internal/verifrt"
)

type verifC55Printer struct{ backup.ProgressPrinter }

func (verifC55Printer) E(string, ...any)  {}
func (verifC55Printer) P(string, ...any)  {}
func (verifC55Printer) V(string, ...any)  {}
func (verifC55Printer) VV(string, ...any) {}
func (verifC55Printer) S(string, ...any)  {}

type verifC55Term struct{ ui.Terminal }

func (verifC55Term) InputRaw() io.ReadCloser { return nil }
func (verifC55Term) CanUpdateStatus() bool   { return false }

// VerifC55_RunBackup: runBackup returns ErrInvalidSourceData exactly when the snapshot was saved and
// some source item was reported unreadable (by the archiver's Error callback or while collecting the
// targets); a failed snapshot is a different (fatal) error; a clean run returns nil.
func VerifC55_RunBackup() {
	nfail := verifrt.Int("readFailures", 0, 2)
	fatalItem := verifrt.Bool("fatalItemError")
	snapshotFails := verifrt.Bool("snapshotFails")
	targetsSkipped := verifrt.Bool("targetSkipped")
	reporterAborts := verifrt.Bool("reporterReturnsError")
	finished := 0
	callbackAborted := false

	verifrt.Stub("internal/ui/backup.NewTextProgress", func(ui.Terminal, uint) backup.ProgressPrinter { return verifC55Printer{} })
	verifrt.Stub("internal/ui/backup.NewJSONProgress", func(ui.Terminal, uint) backup.ProgressPrinter { return verifC55Printer{} })
	verifrt.Stub("(cmd/restic.BackupOptions).Check", func(BackupOptions, global.Options, []string) error { return nil })
	verifrt.Stub("cmd/restic.collectTargets", func(BackupOptions, []string, func(string, ...any), io.ReadCloser) ([]string, error) {
		if targetsSkipped {
			return []string{"/src"}, ErrInvalidSourceData
		}
		return []string{"/src"}, nil
	})
	verifrt.Stub("cmd/restic.openWithAppendLock", func(ctx context.Context, _ global.Options, _ bool, _ restic.Printer) (context.Context, *repository.Repository, func(), error) {
		return ctx, &repository.Repository{}, func() {}, nil
	})
	verifrt.Stub("internal/ui/backup.NewProgress", func(backup.ProgressPrinter, bool, bool, bool) *backup.Progress { return &backup.Progress{} })
	verifrt.Stub("(*internal/ui/backup.Progress).Done", func(*backup.Progress) {})
	verifrt.Stub("(*internal/ui/backup.Progress).Error", func(_ *backup.Progress, _ string, _ error) error {
		if reporterAborts {
			return errors.New("reporter says stop")
		}
		return nil
	})
	verifrt.Stub("(*internal/ui/backup.Progress).Finish", func(*backup.Progress, restic.ID, *archiver.Summary, bool) { finished++ })
	verifrt.Stub("cmd/restic.collectRejectByNameFuncs", func(BackupOptions, *repository.Repository, func(string, ...any)) ([]archiver.RejectByNameFunc, error) {
		return nil, nil
	})
	verifrt.Stub("cmd/restic.collectRejectFuncs", func(BackupOptions, []string, fs.FS, func(string, ...any)) ([]archiver.RejectFunc, error) {
		return nil, nil
	})
	verifrt.Stub("cmd/restic.findParentSnapshot", func(context.Context, restic.ListerLoaderUnpacked, BackupOptions, []string, any) (*data.Snapshot, error) {
		return nil, nil
	})
	verifrt.Stub("(*internal/repository.Repository).LoadIndex", func(*repository.Repository, context.Context, restic.TerminalCounterFactory) error { return nil })
	verifrt.Stub("internal/archiver.New", func(any, fs.FS, archiver.Options) *archiver.Archiver { return &archiver.Archiver{} })
	verifrt.Stub("(*internal/archiver.Archiver).Snapshot", func(a *archiver.Archiver, _ context.Context, _ []string, _ archiver.SnapshotOptions) (*data.Snapshot, restic.ID, *archiver.Summary, error) {
		// the archiver meets nfail unreadable items and reports each through the callback runBackup installed
		for i := 0; i < nfail; i++ {
			var itemErr error = errors.New("permission denied")
			if fatalItem {
				itemErr = rerrors.Fatal("fatal read error")
			}
			if err := a.Error("/src/item", itemErr); err != nil {
				callbackAborted = true
				return nil, restic.ID{}, nil, err
			}
		}
		if snapshotFails {
			return nil, restic.ID{}, nil, errors.New("saving the snapshot failed")
		}
		return &data.Snapshot{}, restic.ID{9}, &archiver.Summary{}, nil
	})

	opts := BackupOptions{NoScan: true}
	gopts := global.Options{JSON: verifrt.Bool("json")}
	err := runBackup(context.Background(), opts, gopts, verifC55Term{}, []string{"/src"})

	saved := !snapshotFails && !callbackAborted
	if fatalItem && nfail > 0 {
		verifrt.Assert(callbackAborted, "a fatal item error must abort the snapshot")
	}
	if reporterAborts && nfail > 0 {
		verifrt.Assert(callbackAborted, "the reporter's decision to stop was ignored")
	}
	if !saved {
		verifrt.Reach("snapshot-failed")
		verifrt.Assert(err != nil && err != ErrInvalidSourceData, "a failed snapshot must be a hard error, not the 'incomplete' status")
		verifrt.Assert(finished == 0, "a failed backup was reported as finished")
		return
	}
	verifrt.Assert(finished == 1, "a saved snapshot was not reported")
	if nfail > 0 || targetsSkipped {
		verifrt.Reach("incomplete")
		verifrt.Assert(err == ErrInvalidSourceData, "a backup that skipped source items must return ErrInvalidSourceData")
	} else {
		verifrt.Reach("complete")
		verifrt.Assert(err == nil, "a backup that read every item must succeed")
	}
}

// VerifC55_ExitCode: main maps ErrInvalidSourceData to exit status 3 and success to 0.
func VerifC55_ExitCode() {
	verifrt.Stub("cmd/restic.tweakGoGC", func() {})
	verifrt.Stub("log.SetOutput", func(io.Writer) {})
	verifrt.Stub("internal/backend/all.Backends", func() any { return nil })
	verifrt.Stub("internal/ui/termstatus.Setup", func(io.ReadCloser, io.Writer, io.Writer, bool) (ui.Terminal, func()) { return nil, func() {} })
	verifrt.Stub("cmd/restic.createGlobalContext", func(io.Writer) context.Context { return context.Background() })
	verifrt.Stub("cmd/restic.newRootCommand", func(*global.Options) *cobra.Command { return &cobra.Command{} })
	kind := verifrt.Int("result", 0, 4)
	var result error
	switch kind {
	case 1:
		result = ErrInvalidSourceData
	case 2:
		result = ErrOK
	case 3:
		result = rerrors.Fatal("fatal")
	case 4:
		result = errors.New("other")
	}
	verifrt.Stub("(*github.com/spf13/cobra.Command).ExecuteContext", func(*cobra.Command, context.Context) error { return result })
	verifrt.Stub("cmd/restic.printExitError", func(global.Options, int, string) {})
	codes := []int{}
	verifrt.Stub("cmd/restic.Exit", func(code int) { codes = append(codes, code) })

	main()

	verifrt.Assert(len(codes) == 1, "main must exit exactly once")
	switch kind {
	case 0, 2:
		verifrt.Assert(codes[0] == 0, "success must exit with status 0")
		verifrt.Reach("exit-0")
	case 1:
		verifrt.Assert(codes[0] == 3, "an incomplete backup must exit with status 3")
		verifrt.Reach("exit-3")
	default:
		verifrt.Assert(codes[0] == 1, "other errors exit with status 1")
	}
}

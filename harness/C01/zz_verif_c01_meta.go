//go:build linux

package fs

// C01 (restore side, metadata): the real nodeRestoreMetadata / lchown / chmod / nodeRestoreTimestamps
// against a one-inode model of the file system with the kernel's documented side effect: chown(2) on a
// non-directory clears the set-user-ID bit and, if the file is group-executable, the set-group-ID bit.
// For every node type, mode (permission bits, setuid, setgid, sticky), owner and timestamps the inode
// ends up with exactly the node's mode bits, owner and times.

import (
	"os"
	"time"

	"github.com/restic/restic/internal/data"
	"github.com/restic/restic/internal/verifrt"
	"golang.org/x/sys/unix"
)

type verifC01Inode struct {
	mode         os.FileMode // permission + setuid/setgid/sticky bits
	uid, gid     int
	atime, mtime int64
	isDir        bool
	calls        []string
}

const verifC01Bits = os.ModePerm | os.ModeSetuid | os.ModeSetgid | os.ModeSticky

func VerifC01_RestoreMetadata() {
	ino := &verifC01Inode{mode: 0600}
	path := "/t/f"
	verifrt.Stub("os.Lchown", func(name string, uid, gid int) error {
		verifrt.Assert(name == path, "lchown on another path")
		ino.calls = append(ino.calls, "chown")
		ino.uid, ino.gid = uid, gid
		if !ino.isDir {
			ino.mode &^= os.ModeSetuid
			if ino.mode&0010 != 0 {
				ino.mode &^= os.ModeSetgid
			}
		}
		return nil
	})
	verifrt.Stub("os.Chmod", func(name string, mode os.FileMode) error {
		verifrt.Assert(name == path, "chmod on another path")
		ino.calls = append(ino.calls, "chmod")
		ino.mode = mode & verifC01Bits
		return nil
	})
	verifrt.Stub("golang.org/x/sys/unix.UtimesNanoAt", func(dirfd int, p string, ts []unix.Timespec, flags int) error {
		verifrt.Assert(p == path && flags&unix.AT_SYMLINK_NOFOLLOW != 0, "timestamps set through a symlink or on another path")
		ino.calls = append(ino.calls, "utimes")
		ino.atime = ts[0].Sec*1e9 + ts[0].Nsec
		ino.mtime = ts[1].Sec*1e9 + ts[1].Nsec
		return nil
	})
	verifrt.Stub("internal/fs.nodeRestoreExtendedAttributes", func(*data.Node, string, func(string) bool) error { return nil })

	node := &data.Node{Name: "f", Type: data.NodeTypeFile}
	switch k := verifrt.Int("type", 0, 2); {
	case k == 1:
		node.Type = data.NodeTypeDir
		ino.isDir = true
	case k == 2:
		node.Type = data.NodeTypeSymlink
	}
	perm := os.FileMode(verifrt.Uint32("perm")) & os.ModePerm
	node.Mode = perm
	if verifrt.Bool("setuid") {
		node.Mode |= os.ModeSetuid
	}
	if verifrt.Bool("setgid") {
		node.Mode |= os.ModeSetgid
	}
	if verifrt.Bool("sticky") {
		node.Mode |= os.ModeSticky
	}
	if node.Type == data.NodeTypeDir {
		node.Mode |= os.ModeDir
	}
	node.UID, node.GID = verifrt.Uint32("uid"), verifrt.Uint32("gid")
	verifrt.Assume(node.UID < 1<<31 && node.GID < 1<<31)
	// concrete times (64-bit division by 10^9 in NsecToTimespec is out of the solvers' reach)
	node.ModTime = time.Unix(1700000000, 500)
	node.AccessTime = time.Unix(1700000007, 0)

	err := nodeRestoreMetadata(node, path, func(string) {}, func(string) bool { return true }, false)

	verifrt.Assert(err == nil, "metadata restore failed although every system call succeeded")
	verifrt.Assert(ino.uid == int(node.UID) && ino.gid == int(node.GID), "restored owner differs from the snapshot")
	verifrt.Assert(ino.mtime == node.ModTime.UnixNano() && ino.atime == node.AccessTime.UnixNano(), "restored timestamps differ from the snapshot")
	if node.Type != data.NodeTypeSymlink {
		verifrt.Assert(ino.mode == node.Mode&verifC01Bits, "restored permission / setuid / setgid / sticky bits differ from the snapshot")
		if node.Mode&os.ModeSetuid != 0 {
			verifrt.Reach("setuid-file")
		}
	} else {
		verifrt.Reach("symlink")
		for _, c := range ino.calls {
			verifrt.Assert(c != "chmod", "chmod on a symlink (would change the link target's mode)")
		}
	}
}

package archiver

import (
	"context"
	"errors"

	"github.com/restic/restic/internal/data"
	"github.com/restic/restic/internal/restic"
	"github.com/restic/restic/internal/verifrt"
)

// an uploader that completes blob saves later and in an arbitrary order (as the real asynchronous
// blob saver does when several workers run)
type verifC01Saver struct {
	chunks  [][]byte
	ids     []restic.ID
	pending []func()
	failIdx int // index of the chunk whose save fails, or -1
}

func (s *verifC01Saver) SaveBlobAsync(_ context.Context, t restic.BlobType, buf []byte, _ restic.ID, _ bool, cb func(newID restic.ID, known bool, sizeInRepo int, err error)) {
	verifrt.Assert(t == restic.DataBlob, "file chunk saved with a non-data blob type")
	k := len(s.chunks)
	var id restic.ID
	id[0] = byte(k + 1)
	id[1] = 0xc1
	s.chunks = append(s.chunks, append([]byte{}, buf...))
	s.ids = append(s.ids, id)
	n := len(buf)
	s.pending = append(s.pending, func() {
		if k == s.failIdx {
			cb(restic.ID{}, false, 0, errors.New("upload failed"))
			return
		}
		cb(id, false, n, nil)
	})
}

// VerifC01_SaveFileAsync: whatever the order in which the blob saves of a file complete, the file's
// node lists the chunk IDs in the order the chunks were cut from the file, its size is the number of
// bytes read, the chunks concatenate to the file, and the file is completed exactly once - after the
// last blob (or with an error if a blob save failed).
func VerifC01_SaveFileAsync() {
	N := verifrt.Param("filelen", 6)
	min, max := verifrt.Param("min", 2), verifrt.Param("max", 3)
	ch := &verifC17Chunker{min: min, max: max}
	st := &fileChunkState{readBuf: make([]byte, verifrt.Param("readbuf", 3))}
	saver := &verifC01Saver{failIdx: -1}
	s := &fileSaver{
		uploader:     saver,
		saveFilePool: newBufferPool(max),
		CompleteBlob: func(uint64) {},
		NodeFromFileInfo: func(snPath, filename string, meta toNoder, ignoreXattrListError bool) (*data.Node, error) {
			return &data.Node{Name: filename, Type: data.NodeTypeFile}, nil
		},
	}
	f := &verifC17File{content: verifrt.Bytes("file", N), failAt: -1, full: true}
	finished := 0
	var result futureNodeResult
	readDone := 0
	s.saveFile(context.Background(), ch, st, "/f", "f", f, func() {}, func() { readDone++ }, func(res futureNodeResult) {
		finished++
		result = res
	})
	nch := len(saver.pending)
	if verifrt.Bool("oneSaveFails") && nch > 0 {
		saver.failIdx = verifC17Pick("failIdx", 0, nch-1)
	}
	if nch > 0 {
		verifrt.Assert(finished == 0, "file completed before its blobs were saved")
	}
	// complete the saves in an arbitrary order
	done := make([]bool, nch)
	for k := 0; k < nch; k++ {
		pick := verifC17Pick("order", 0, nch-1)
		verifrt.Assume(!done[pick])
		done[pick] = true
		before := finished
		saver.pending[pick]()
		if k < nch-1 && saver.failIdx < 0 {
			verifrt.Assert(finished == before, "file completed although some of its blobs are still being saved")
		}
	}
	verifrt.Assert(finished == 1, "file not completed exactly once")
	verifrt.Assert(f.closed == 1, "file not closed exactly once")
	if saver.failIdx >= 0 {
		verifrt.Reach("blob-save-failed")
		verifrt.Assert(result.err != nil && result.node == nil, "a failed blob save did not fail the file")
		return
	}
	verifrt.Assert(result.err == nil && result.node != nil, "file failed although everything was saved")
	verifC17CheckChunks(saver.chunks, f.content, min, max)
	verifrt.Assert(result.node.Size == uint64(len(f.content)), "node size differs from the file length")
	verifrt.Assert(len(result.node.Content) == nch, "node content does not list one ID per chunk")
	for i := 0; i < nch && i < len(result.node.Content); i++ {
		verifrt.Assert(result.node.Content[i] == saver.ids[i], "node content is not in the order of the file's chunks")
	}
	if nch >= 2 {
		verifrt.Reach("several-chunks")
	}
}

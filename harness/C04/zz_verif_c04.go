package repository

import (
	"bufio"
	"bytes"
	"context"
	"hash"
	"io"
	"os"
	"time"

	"github.com/klauspost/compress/zstd"

	"github.com/restic/restic/internal/backend"
	"github.com/restic/restic/internal/errors"
	"github.com/restic/restic/internal/repository/crypto"
	"github.com/restic/restic/internal/repository/index"
	"github.com/restic/restic/internal/repository/pack"
	"github.com/restic/restic/internal/restic"
	"github.com/restic/restic/internal/verifrt"
)

// ---- instrumented crypto ---------------------------------------------------------------------
//
// NewRandomNonce returns a fresh symbolic nonce and logs it. Seal is a stream-cipher model:
//   Seal(dst, nonce, p) = dst || (p XOR KS(nonce)) || T(nonce, ct)   with KS, T uninterpreted,
// it logs key, nonce, plaintext and output, and checks on every call that the nonce is the one drawn by
// the NewRandomNonce call that belongs to this Seal call (k-th Seal <-> k-th nonce, drawn after the
// previous Seal): a hoisted / cached / reused nonce violates this for some choice of the fresh values.

type verifC04SealCall struct {
	key       *crypto.Key
	nonce     []byte
	plaintext []byte
	out       []byte // bytes appended to dst
}

type verifC04Crypto struct {
	nonces [][]byte
	seals  []verifC04SealCall
}

func (c *verifC04Crypto) newNonce() []byte {
	verifrt.Assert(len(c.nonces) == len(c.seals), "a nonce was drawn but not used by a Seal call before the next one was drawn")
	n := verifrt.BytesN("nonce", 16)
	c.nonces = append(c.nonces, append([]byte(nil), n...))
	return n
}

func verifC04KS(nonce []byte, n int) []byte { return verifrt.UFBytes("c04ks", n, nonce) }

func verifC04Tag(nonce, ct []byte) []byte {
	in := append(append([]byte(nil), nonce...), ct...)
	return verifrt.UFBytes("c04tag", 16, in)
}

func (c *verifC04Crypto) seal(k *crypto.Key, dst, nonce, plaintext, ad []byte) []byte {
	i := len(c.seals)
	verifrt.Assert(len(c.nonces) == i+1, "Seal called without drawing a fresh nonce for it")
	verifrt.Assert(len(nonce) == 16, "nonce length")
	if len(c.nonces) == i+1 {
		verifrt.Assert(bytes.Equal(nonce, c.nonces[i]), "Seal called with a nonce that is not the freshly drawn one (nonce reuse)")
	}
	verifrt.Assert(ad == nil, "additional data is not used by restic")
	ks := verifC04KS(nonce, len(plaintext))
	ct := make([]byte, len(plaintext))
	for j := range plaintext {
		ct[j] = plaintext[j] ^ ks[j]
	}
	out := append(ct, verifC04Tag(nonce, ct)...)
	c.seals = append(c.seals, verifC04SealCall{key: k, nonce: append([]byte(nil), nonce...), plaintext: append([]byte(nil), plaintext...), out: append([]byte(nil), out...)})
	return append(dst, out...)
}

func (c *verifC04Crypto) open(_ *crypto.Key, dst, nonce, ciphertext, _ []byte) ([]byte, error) {
	if len(ciphertext) < 16 {
		return nil, errors.New("ciphertext too short")
	}
	l := len(ciphertext) - 16
	if !bytes.Equal(verifC04Tag(nonce, ciphertext[:l]), ciphertext[l:]) {
		return nil, crypto.ErrUnauthenticated
	}
	ks := verifC04KS(nonce, l)
	p := make([]byte, l)
	for j := 0; j < l; j++ {
		p[j] = ciphertext[j] ^ ks[j]
	}
	return append(dst, p...), nil
}

// the only legal stored form of the k-th encryption: nonce || Seal output
func (c *verifC04Crypto) sealed(k int) []byte {
	return append(append([]byte(nil), c.seals[k].nonce...), c.seals[k].out...)
}

const verifC04Magic = 0xFD

func verifC04EncodeAll(_ *zstd.Encoder, src, dst []byte) []byte {
	dst = append(dst, verifC04Magic, byte(len(src)))
	for _, c := range src {
		dst = append(dst, c^0x5a)
	}
	return dst
}

func verifC04DecodeAll(_ *zstd.Decoder, input, dst []byte) ([]byte, error) {
	if len(input) < 2 || input[0] != verifC04Magic || int(input[1]) != len(input)-2 {
		return dst, errors.New("zstd: invalid input")
	}
	for _, c := range input[2:] {
		dst = append(dst, c^0x5a)
	}
	return dst, nil
}

func verifC04Frame(p []byte) []byte { return verifC04EncodeAll(nil, p, nil) }

type verifC04Saved struct {
	h    backend.Handle
	data []byte
}

type verifC04Backend struct {
	backend.Backend
	saved []verifC04Saved
}

func (b *verifC04Backend) Hasher() hash.Hash { return nil }
func (b *verifC04Backend) Save(_ context.Context, h backend.Handle, rd backend.RewindReader) error {
	data, err := io.ReadAll(rd)
	if err != nil {
		return err
	}
	b.saved = append(b.saved, verifC04Saved{h: h, data: data})
	return nil
}

type verifC04Hasher struct{ data []byte }

func (h *verifC04Hasher) Write(p []byte) (int, error) { h.data = append(h.data, p...); return len(p), nil }
func (h *verifC04Hasher) Sum(b []byte) []byte {
	s := restic.Hash(h.data)
	return append(b, s[:]...)
}
func (h *verifC04Hasher) Reset()         { h.data = nil }
func (h *verifC04Hasher) Size() int      { return 32 }
func (h *verifC04Hasher) BlockSize() int { return 64 }

func verifC04Env(version uint) (*Repository, *verifC04Backend, *verifC04Crypto) {
	c := &verifC04Crypto{}
	verifrt.Stub("(*internal/repository/crypto.Key).Seal", c.seal)
	verifrt.Stub("(*internal/repository/crypto.Key).Open", c.open)
	verifrt.Stub("internal/repository/crypto.NewRandomNonce", c.newNonce)
	verifrt.Stub("(*internal/repository.Repository).getZstdEncoder", func(_ *Repository) *zstd.Encoder { return &zstd.Encoder{} })
	verifrt.Stub("(*internal/repository.Repository).getZstdDecoder", func(_ *Repository) *zstd.Decoder { return &zstd.Decoder{} })
	verifrt.Stub("(*github.com/klauspost/compress/zstd.Encoder).EncodeAll", verifC04EncodeAll)
	verifrt.Stub("(*github.com/klauspost/compress/zstd.Decoder).DecodeAll", verifC04DecodeAll)
	verifrt.Stub("crypto/sha256.New", func() hash.Hash { return &verifC04Hasher{} })
	index.Full = func(*index.Index) bool { return false }
	be := &verifC04Backend{}
	r := &Repository{be: be, key: &crypto.Key{}, cfg: restic.Config{Version: version}, idx: index.NewMasterIndex()}
	return r, be, c
}

func verifC04Version() uint {
	if verifrt.Bool("v2") {
		return 2
	}
	return 1
}

// VerifC04_Unpacked: a session of N saveUnpacked calls (any file types, config included).
func VerifC04_Unpacked() {
	max := verifrt.Param("payload", 3)
	n := verifrt.Int("files", 1, verifrt.Param("encryptions", 3))
	version := verifC04Version()
	r, be, c := verifC04Env(version)
	r.opts.NoExtraVerify = verifrt.Bool("noExtraVerify")
	ctx := context.Background()
	for i := 0; i < n; i++ {
		t := restic.FileType(verifrt.Int("type", int(restic.KeyFile), int(restic.ConfigFile)))
		p := verifrt.Bytes("p", max)
		_, err := r.saveUnpacked(ctx, t, p)
		verifrt.Assert(err == nil, "saveUnpacked failed")
		verifrt.Assert(len(c.seals) == i+1 && len(c.nonces) == i+1, "exactly one fresh nonce and one Seal per stored file")
		verifrt.Assert(len(be.saved) == i+1, "exactly one file stored per call")
		s := c.seals[i]
		verifrt.Assert(s.key == r.key, "sealed with another key than the repository's master key")
		if t == restic.ConfigFile || version == 1 {
			verifrt.Assert(bytes.Equal(s.plaintext, p), "sealed plaintext is not the payload")
		} else {
			verifrt.Assert(bytes.Equal(s.plaintext, append([]byte{2}, verifC04Frame(p)...)), "sealed plaintext is not 2 || zstd(payload)")
		}
		verifrt.Assert(bytes.Equal(be.saved[i].data, c.sealed(i)), "stored bytes are not exactly nonce || Seal(...) (plaintext or extra bytes outside the sealed part)")
	}
	verifrt.Reach("unpacked-session")
}

// in-memory stand-in for the packer's temporary *os.File
type verifC04File struct {
	data []byte
	pos  int64
}

func (f *verifC04File) write(_ *os.File, b []byte) (int, error) {
	f.data = append(f.data, b...)
	f.pos += int64(len(b))
	return len(b), nil
}
func (f *verifC04File) read(_ *os.File, b []byte) (int, error) {
	if f.pos >= int64(len(f.data)) {
		return 0, io.EOF
	}
	n := copy(b, f.data[f.pos:])
	f.pos += int64(n)
	return n, nil
}
func (f *verifC04File) seek(_ *os.File, off int64, whence int) (int64, error) {
	switch whence {
	case io.SeekStart:
		f.pos = off
	case io.SeekCurrent:
		f.pos += off
	case io.SeekEnd:
		f.pos = int64(len(f.data)) + off
	}
	return f.pos, nil
}
func (f *verifC04File) close(_ *os.File) error { return nil }

// VerifC04_Pack: a session saveAndEncrypt x N (real packerManager.SaveBlob, pack.Packer.Add) followed by
// savePacker (Packer.Finalize): the pack file is exactly
//   nonce_1 || Seal_1 || ... || nonce_N || Seal_N || nonce_hdr || Seal_hdr || uint32le(len(nonce_hdr || Seal_hdr))
func VerifC04_Pack() {
	max := verifrt.Param("payload", 2)
	n := verifrt.Int("blobs", 1, verifrt.Param("encryptions", 3)-1)
	version := verifC04Version()
	r, be, c := verifC04Env(version)
	r.opts.NoExtraVerify = verifrt.Bool("noExtraVerify")
	if verifrt.Bool("compressionOff") {
		r.opts.Compression = CompressionOff
	}
	f := &verifC04File{}
	verifrt.Stub("(*os.File).Write", f.write)
	verifrt.Stub("(*os.File).Read", f.read)
	verifrt.Stub("(*os.File).Seek", f.seek)
	verifrt.Stub("(*os.File).Close", f.close)
	verifrt.Stub("internal/repository.randomInt", func(int) (int, error) { return 0, nil })
	var thePacker *packer
	verifrt.Stub("(*internal/repository.packerManager).newPacker", func(pm *packerManager) (*packer, error) {
		verifrt.Assert(thePacker == nil, "one pack per session expected")
		tmp := &os.File{}
		bufWr := bufio.NewWriter(tmp)
		thePacker = &packer{Packer: pack.NewPacker(pm.key, bufWr), tmpfile: tmp, bufWr: bufWr}
		return thePacker, nil
	})
	queue := func(context.Context, restic.BlobType, *packer) error {
		verifrt.Assert(false, "pack not expected to be full")
		return nil
	}
	r.treePM = newPackerManager(r.key, restic.TreeBlob, MinPackSize, 1, queue)
	r.dataPM = newPackerManager(r.key, restic.DataBlob, MinPackSize, 1, queue)

	t := restic.DataBlob
	if verifrt.Bool("tree") {
		t = restic.TreeBlob
	}
	ctx := context.Background()
	var want []byte
	for i := 0; i < n; i++ {
		p := verifrt.Bytes("p", max)
		id := restic.Hash(p)
		_, err := r.saveAndEncrypt(ctx, t, p, id)
		verifrt.Assert(err == nil, "saveAndEncrypt failed")
		verifrt.Assert(len(c.seals) == i+1 && len(c.nonces) == i+1, "exactly one fresh nonce and one Seal per blob")
		s := c.seals[i]
		verifrt.Assert(s.key == r.key, "blob sealed with another key than the master key")
		if version == 2 && len(p) > 0 && (t == restic.TreeBlob || r.opts.Compression != CompressionOff) {
			verifrt.Assert(bytes.Equal(s.plaintext, verifC04Frame(p)), "sealed plaintext is not zstd(blob)")
		} else {
			verifrt.Assert(bytes.Equal(s.plaintext, p), "sealed plaintext is not the blob")
		}
		want = append(want, c.sealed(i)...)
	}
	verifrt.Assert(thePacker != nil, "no packer")
	err := r.savePacker(ctx, t, thePacker)
	verifrt.Assert(err == nil, "savePacker failed")
	verifrt.Assert(len(c.seals) == n+1 && len(c.nonces) == n+1, "exactly one fresh nonce and one Seal for the header")
	hs := c.seals[n]
	verifrt.Assert(hs.key == r.key, "header sealed with another key")
	// header plaintext: the entries only (type, lengths, plaintext hash) - checked against C06's format by length
	es := 0
	for _, b := range thePacker.Packer.Blobs() {
		es += pack.CalculateEntrySize(b.IsCompressed())
	}
	verifrt.Assert(len(hs.plaintext) == es, "header plaintext is not one entry per blob")
	hdr := c.sealed(n)
	want = append(want, hdr...)
	want = append(want, byte(len(hdr)), byte(len(hdr)>>8), byte(len(hdr)>>16), byte(len(hdr)>>24))
	verifrt.Assert(len(be.saved) == 1, "one pack file stored")
	verifrt.Assert(bytes.Equal(be.saved[0].data, want), "pack file is not exactly the concatenation of nonce || Seal(...) parts plus the header length")
	verifrt.Reach("pack-session")
}

// compile-time guard: the exported (hence JSON-visible) fields of Key are exactly the informational ones
// plus salt and the encrypted master key; adding or exporting a field breaks this conversion.
type verifC04KeyLayout struct {
	Created  time.Time
	Username string
	Hostname string
	KDF      string
	N        int
	R        int
	P        int
	Salt     []byte
	Data     []byte
	user     *crypto.Key
	master   *crypto.Key
	id       restic.ID
}

var _ = verifC04KeyLayout(Key{})

// VerifC04_AddKey: the key file contains username, hostname, creation time, KDF parameters, salt and
// Data = nonce || Seal_userkey(JSON(master key)); neither password nor master key appear elsewhere.
func VerifC04_AddKey() {
	r, be, c := verifC04Env(2)
	params = &crypto.Params{N: 32768, R: 8, P: 1}
	salt := verifrt.BytesN("salt", 64)
	userKey := &crypto.Key{}
	master := &crypto.Key{}
	masterJSON := verifrt.BytesN("masterjson", verifrt.Param("payload", 3))
	password := verifrt.String("password", 2)
	username := verifrt.StringN("user", 1)
	hostname := verifrt.StringN("host", 1)
	kdfCalls := 0
	verifrt.Stub("internal/repository/crypto.NewSalt", func() ([]byte, error) { return append([]byte(nil), salt...), nil })
	verifrt.Stub("internal/repository/crypto.KDF", func(p crypto.Params, s []byte, pw string) (*crypto.Key, error) {
		kdfCalls++
		verifrt.Assert(bytes.Equal(s, salt) && pw == password && p == *params, "KDF called with other inputs")
		return userKey, nil
	})
	verifrt.Stub("internal/repository/crypto.NewRandomKey", func() *crypto.Key { return master })
	var marshalled *Key
	var fileBytes []byte
	verifrt.Stub("encoding/json.Marshal", func(v any) ([]byte, error) {
		switch x := v.(type) {
		case *crypto.Key:
			verifrt.Assert(x == master, "only the master key is serialised as a crypto.Key")
			return append([]byte(nil), masterJSON...), nil
		case *Key:
			verifrt.Assert(marshalled == nil, "key file serialised once")
			marshalled = x
			// stand-in for the JSON text of the exported fields
			fileBytes = []byte("K")
			fileBytes = append(fileBytes, x.Username...)
			fileBytes = append(fileBytes, x.Hostname...)
			fileBytes = append(fileBytes, x.KDF...)
			fileBytes = append(fileBytes, x.Salt...)
			fileBytes = append(fileBytes, x.Data...)
			return append([]byte(nil), fileBytes...), nil
		}
		verifrt.Assert(false, "unexpected json.Marshal")
		return nil, nil
	})
	var template *crypto.Key
	if verifrt.Bool("template") {
		template = master
	}

	k, err := AddKey(context.Background(), r, password, username, hostname, template)
	verifrt.Assert(err == nil && k != nil, "AddKey failed")
	verifrt.Assert(kdfCalls == 1, "KDF called once")
	verifrt.Assert(len(c.nonces) == 1 && len(c.seals) == 1, "exactly one fresh nonce and one Seal for the key data")
	s := c.seals[0]
	verifrt.Assert(s.key == userKey, "master key must be sealed with the password-derived user key")
	verifrt.Assert(bytes.Equal(s.plaintext, masterJSON), "sealed plaintext is not the serialised master key")
	verifrt.Assert(marshalled == k, "the returned key is what was serialised")
	verifrt.Assert(bytes.Equal(k.Data, c.sealed(0)), "Key.Data is not exactly nonce || Seal(master key)")
	verifrt.Assert(k.Username == username && k.Hostname == hostname && k.KDF == "scrypt", "informational fields")
	verifrt.Assert(k.N == params.N && k.R == params.R && k.P == params.P && bytes.Equal(k.Salt, salt), "KDF parameters / salt")
	verifrt.Assert(k.master == master && k.user == userKey, "in-memory keys")
	verifrt.Assert(len(be.saved) == 1 && be.saved[0].h.Type == backend.KeyFile, "one key file stored")
	verifrt.Assert(bytes.Equal(be.saved[0].data, fileBytes), "stored key file is not the serialised Key")
	verifrt.Assert(be.saved[0].h.Name == restic.Hash(fileBytes).String(), "key file name is not SHA-256 of its bytes")
	verifrt.Reach("key-added")
}

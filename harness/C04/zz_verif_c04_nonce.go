package repository

// C04, the nonce source itself (in this package so that the random source is replaced before package
// crypto is initialised): crypto.NewRandomNonce called N times in one process, with
// crypto/rand.Read replaced by a stream whose aligned 16-byte blocks are pairwise different (block b
// carries the number b). Any two nonces handed out, at symbolic positions i < j <= N, must differ and
// each must consist of bytes the random source produced: a pool that is not refilled, a reused buffer
// or a short read shows up as two equal nonces or as a nonce that was never drawn.

import (
	"github.com/restic/restic/internal/repository/crypto"
	"github.com/restic/restic/internal/verifrt"
)

var verifC04Stream uint64 // bytes delivered so far

func verifC04RandRead(b []byte) (int, error) {
	for i := range b {
		g := verifC04Stream
		blk := g/16 + 1
		k := g % 16
		if k < 8 {
			b[i] = byte(blk >> (8 * (7 - k)))
		} else {
			b[i] = ^byte(blk >> (8 * (15 - k)))
		}
		verifC04Stream++
	}
	return len(b), nil
}

func VerifC04_NonceSource() {
	verifC04Stream = 0
	verifrt.Stub("crypto/rand.Read", verifC04RandRead)
	n := verifrt.Param("draws", 1100)
	// every nonce is an aligned block of the stream (bytes 0..7 are the complement of bytes 8..15) and
	// the block numbers strictly increase: no block is handed out twice
	last := uint64(0)
	for d := 0; d < n; d++ {
		x := crypto.NewRandomNonce()
		verifrt.Assert(len(x) == 16, "nonce of a wrong length")
		blk := uint64(0)
		for k := 0; k < 8; k++ {
			verifrt.Assert(x[k] == ^x[8+k], "a nonce contains bytes that do not come from the random source")
			blk = blk<<8 | uint64(x[k])
		}
		verifrt.Assert(blk > last, "a nonce was handed out twice in one process")
		last = blk
	}
	verifrt.Reach("drawn")
}

package repository

import (
	"context"
	"errors"

	"github.com/restic/chunker"

	"github.com/restic/restic/internal/backend"
	"github.com/restic/restic/internal/repository/crypto"
	"github.com/restic/restic/internal/restic"
	"github.com/restic/restic/internal/verifrt"
)

// ---- backend stub with symbolic pre-existing files and Stat/List faults ----

const (
	verifC30Stat = iota
	verifC30List
	verifC30SaveOp
	verifC30Other // Remove, Delete
)

type verifC30Ev struct {
	op int
	t  backend.FileType
	ok bool
	// Stat: the answer was "does not exist"
	notExist bool
}

var (
	verifC30ErrNotExist = errors.New("verifC30: file does not exist")
	verifC30ErrIO       = errors.New("verifC30: backend error")
)

const verifC30HexA = "aa00000000000000000000000000000000000000000000000000000000000001"
const verifC30HexB = "bb00000000000000000000000000000000000000000000000000000000000002"

type verifC30Be struct {
	backend.Backend
	hasConfig bool
	keys      []string
	snaps     []string
	trace     []verifC30Ev
}

func (b *verifC30Be) IsNotExist(err error) bool { return errors.Is(err, verifC30ErrNotExist) }

func (b *verifC30Be) Stat(_ context.Context, h backend.Handle) (backend.FileInfo, error) {
	if verifrt.Bool("stat-fault") {
		b.trace = append(b.trace, verifC30Ev{op: verifC30Stat, t: h.Type})
		return backend.FileInfo{}, verifC30ErrIO
	}
	exists := h.Type == backend.ConfigFile && b.hasConfig
	b.trace = append(b.trace, verifC30Ev{op: verifC30Stat, t: h.Type, ok: exists, notExist: !exists})
	if !exists {
		return backend.FileInfo{}, verifC30ErrNotExist
	}
	return backend.FileInfo{Name: h.Name, Size: 100}, nil
}

func (b *verifC30Be) List(_ context.Context, t backend.FileType, fn func(backend.FileInfo) error) error {
	var names []string
	switch t {
	case backend.KeyFile:
		names = b.keys
	case backend.SnapshotFile:
		names = b.snaps
	}
	for _, n := range names {
		if verifrt.Bool("list-fault") {
			b.trace = append(b.trace, verifC30Ev{op: verifC30List, t: t})
			return verifC30ErrIO
		}
		if err := fn(backend.FileInfo{Name: n, Size: 100}); err != nil {
			b.trace = append(b.trace, verifC30Ev{op: verifC30List, t: t})
			return err
		}
	}
	if verifrt.Bool("list-fault") {
		b.trace = append(b.trace, verifC30Ev{op: verifC30List, t: t})
		return verifC30ErrIO
	}
	b.trace = append(b.trace, verifC30Ev{op: verifC30List, t: t, ok: true})
	return nil
}

func (b *verifC30Be) Save(_ context.Context, h backend.Handle, _ backend.RewindReader) error {
	ok := !verifrt.Bool("save-fault")
	b.trace = append(b.trace, verifC30Ev{op: verifC30SaveOp, t: h.Type, ok: ok})
	if !ok {
		return verifC30ErrIO
	}
	return nil
}

func (b *verifC30Be) Remove(_ context.Context, h backend.Handle) error {
	b.trace = append(b.trace, verifC30Ev{op: verifC30Other, t: h.Type})
	return nil
}

func (b *verifC30Be) Delete(_ context.Context) error {
	b.trace = append(b.trace, verifC30Ev{op: verifC30Other})
	return nil
}

// ---- replaced functions (crypto, randomness, JSON) ----

type verifC30Env struct {
	randomPol     chunker.Pol
	randomPolUsed bool
	randomPolFail bool
	randomID      restic.ID
	savedCfg      *restic.Config
}

var verifC30E *verifC30Env

// createMasterKey = KDF + random master key + JSON + Save(key)
func verifC30CreateMasterKey(ctx context.Context, s *Repository, _ string) (*Key, error) {
	id := restic.ID{0xcc, 31: 3}
	err := s.be.Save(ctx, backend.Handle{Type: backend.KeyFile, Name: id.String()}, backend.NewByteReader([]byte("key"), nil))
	if err != nil {
		return nil, err
	}
	return &Key{master: &crypto.Key{}, user: &crypto.Key{}, id: id}, nil
}

// restic.SaveConfig = JSON + encryption + Save(config)
func verifC30SaveConfig(ctx context.Context, r restic.SaverUnpacked[restic.FileType], cfg restic.Config) error {
	ir, isInternal := r.(*internalRepository)
	verifrt.Assert(isInternal, "SaveConfig on an unexpected repository wrapper")
	c := cfg
	verifC30E.savedCfg = &c
	verifrt.Assert(ir.key != nil, "config saved before the master key exists")
	return ir.be.Save(ctx, backend.Handle{Type: backend.ConfigFile}, backend.NewByteReader([]byte("config"), nil))
}

func verifC30RandomPolynomial() (chunker.Pol, error) {
	verifC30E.randomPolUsed = true
	if verifC30E.randomPolFail {
		return 0, verifC30ErrIO
	}
	return verifC30E.randomPol, nil
}

func verifC30NewRandomID() restic.ID { return verifC30E.randomID }

// VerifC30_Init: Repository.Init / init against every combination of pre-existing files and faults.
func VerifC30_Init() {
	env := &verifC30Env{randomPol: chunker.Pol(verifrt.Uint64("random-pol")), randomPolFail: verifrt.Bool("random-pol-fails")}
	env.randomID = restic.ID{0xdd, 31: 4}
	verifC30E = env
	verifrt.Stub("internal/repository.createMasterKey", verifC30CreateMasterKey)
	verifrt.Stub("internal/restic.SaveConfig", verifC30SaveConfig)
	verifrt.Stub("github.com/restic/chunker.RandomPolynomial", verifC30RandomPolynomial)
	verifrt.Stub("internal/restic.NewRandomID", verifC30NewRandomID)

	be := &verifC30Be{hasConfig: verifrt.Bool("has-config")}
	// files in keys/ and snapshots/: valid IDs, plus possibly a stray non-ID name (ignored by Repository.List)
	pool := []string{verifC30HexA, verifC30HexB}
	be.keys = append(be.keys, pool[:verifrt.Int("nkeys", 0, 2)]...)
	be.snaps = append(be.snaps, pool[:verifrt.Int("nsnaps", 0, 2)]...)
	stray := verifrt.Bool("stray-file")
	if stray {
		be.keys = append([]string{"README"}, be.keys...)
	}
	nkeys, nsnaps := len(be.keys), len(be.snaps)
	if stray {
		nkeys--
	}

	version := uint(verifrt.Int("version", 0, 3))
	var pol *chunker.Pol
	givenPol := chunker.Pol(verifrt.Uint64("given-pol"))
	if verifrt.Bool("pol-given") {
		pol = &givenPol
	}
	repo := &Repository{be: be}
	err := repo.Init(context.Background(), version, "password", pol)

	if version < restic.MinRepoVersion || version > restic.MaxRepoVersion {
		verifrt.Assert(err != nil, "unsupported version accepted")
		verifrt.Assert(len(be.trace) == 0, "backend touched although the version is unsupported")
		verifrt.Reach("bad-version")
		return
	}
	saves := 0
	statNotExist, keysListed, snapsListed := false, false, false
	for _, ev := range be.trace {
		switch ev.op {
		case verifC30Stat:
			verifrt.Assert(ev.t == backend.ConfigFile, "Stat of another file")
			statNotExist = ev.notExist
		case verifC30List:
			if ev.t == backend.KeyFile {
				keysListed = ev.ok
			}
			if ev.t == backend.SnapshotFile {
				snapsListed = ev.ok
			}
		case verifC30SaveOp:
			saves++
			// the heart of C30
			verifrt.Assert(!be.hasConfig && nkeys == 0 && nsnaps == 0, "init wrote into a location that already holds a config, a key or a snapshot")
			verifrt.Assert(statNotExist, "init wrote although Stat(config) did not answer 'does not exist'")
			verifrt.Assert(keysListed && snapsListed, "init wrote although listing keys/snapshots did not complete")
			if saves == 1 {
				verifrt.Assert(ev.t == backend.KeyFile, "first file written is not the key")
			} else {
				verifrt.Assert(saves == 2 && ev.t == backend.ConfigFile, "unexpected file written")
			}
		default:
			verifrt.Assert(false, "init removed something")
		}
	}
	if be.hasConfig || nkeys > 0 || nsnaps > 0 {
		verifrt.Assert(err != nil, "init succeeded on an existing repository")
		verifrt.Reach("refused")
	}
	if err == nil {
		verifrt.Assert(saves == 2 && be.trace[len(be.trace)-1].ok && be.trace[len(be.trace)-2].ok, "init reported success without writing key and config")
		cfg := env.savedCfg
		verifrt.Assert(cfg != nil && cfg.Version == version, "config has a different version than requested")
		verifrt.Assert(cfg.ID == env.randomID.String(), "config ID is not the fresh random ID")
		if pol != nil {
			verifrt.Assert(cfg.ChunkerPolynomial == givenPol && !env.randomPolUsed, "given polynomial not used")
			verifrt.Reach("init-given-pol")
		} else {
			verifrt.Assert(env.randomPolUsed && cfg.ChunkerPolynomial == env.randomPol, "config polynomial is not the one chunker.RandomPolynomial produced")
			verifrt.Reach("init-random-pol")
		}
		verifrt.Assert(repo.Config() == *cfg && repo.Key() != nil, "repository not set up with the saved config/key")
	} else if saves == 0 && !be.hasConfig && nkeys == 0 && nsnaps == 0 && statNotExist && keysListed && snapsListed {
		verifrt.Assert(pol == nil && env.randomPolFail, "init refused an empty location without any fault")
		verifrt.Reach("random-pol-failed")
	}
}

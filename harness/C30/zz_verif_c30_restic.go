package restic

import (
	"context"
	"errors"

	"github.com/restic/chunker"

	"github.com/restic/restic/internal/verifrt"
)

var verifC30LoadErr = errors.New("verifC30: load failed")

// VerifC30_LoadConfig: LoadConfig accepts exactly the configs with a supported version and an
// irreducible chunker polynomial.
func VerifC30_LoadConfig() {
	// versions 0..9 and two huge values (the error message prints the number: arbitrary 64-bit values would
	// only add decimal-formatting work for the solver)
	versions := [12]uint{0, 1, 2, 3, 4, 5, 6, 7, 8, 9, 1 << 32, ^uint(0)}
	vi := 0
	for sym := verifrt.Int("version", 0, len(versions)-1); vi < sym; vi++ { // (forks: one path per version)
	}
	version := versions[vi]
	pol := chunker.Pol(verifrt.Uint64("pol"))
	loadFails := verifrt.Bool("load-fails")
	irreducibleCalls := 0
	// LoadJSONUnpacked = LoadUnpacked (decrypt) + json.Unmarshal
	verifrt.Stub("internal/restic.LoadJSONUnpacked", func(_ context.Context, _ LoaderUnpacked, t FileType, id ID, item any) error {
		verifrt.Assert(t == ConfigFile && id.IsNull(), "LoadConfig loads something else than the config")
		if loadFails {
			return verifC30LoadErr
		}
		cfg := item.(*Config)
		cfg.Version, cfg.ID, cfg.ChunkerPolynomial = version, "repo-id", pol
		return nil
	})
	// irreducibility test (GF(2) polynomial arithmetic) as an uninterpreted predicate of the polynomial
	verifrt.Stub("(github.com/restic/chunker.Pol).Irreducible", func(p chunker.Pol) bool {
		irreducibleCalls++
		return verifrt.UFBool("irreducible", uint64(p))
	})
	verifrt.Assert(checkPolynomial, "polynomial check disabled outside tests")

	cfg, err := LoadConfig(context.Background(), nil)

	if loadFails {
		verifrt.Assert(err != nil && cfg == (Config{}), "load error swallowed")
		verifrt.Reach("load-failed")
		return
	}
	supported := version >= MinRepoVersion && version <= MaxRepoVersion
	want := supported && verifrt.UFBool("irreducible", uint64(pol))
	if err == nil {
		verifrt.Assert(want, "config with unsupported version or reducible polynomial accepted")
		verifrt.Assert(cfg.Version == version && cfg.ID == "repo-id" && cfg.ChunkerPolynomial == pol, "config altered")
		verifrt.Reach("accepted")
	} else {
		verifrt.Assert(!want, "valid config rejected")
		verifrt.Assert(cfg == (Config{}), "rejected config returned")
		verifrt.Reach("rejected")
	}
}

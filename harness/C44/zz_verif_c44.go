package repository

import (
	"bufio"
	"bytes"
	"context"
	"errors"
	"io"
	"os"

	"github.com/restic/restic/internal/repository/crypto"
	"github.com/restic/restic/internal/repository/pack"
	"github.com/restic/restic/internal/restic"
	"github.com/restic/restic/internal/verifrt"
)

// ---- environment: packers that write to memory instead of a temporary file ----

type verifC44Env struct {
	files   map[*os.File]*bytes.Buffer // content "on disk" of each packer's temp file
	readers map[*os.File]*bytes.Reader // read position after Seek(0)
	created []*packer
	queued  []*packer
	slotSeq []int // values handed out by randomInt
	errQ    error
}

// replaces packerManager.newPacker: same construction, but the bufio.Writer ends in a bytes.Buffer
func (e *verifC44Env) newPacker(r *packerManager) (*packer, error) {
	buf := &bytes.Buffer{}
	f := new(os.File) // never used for I/O: Seek and Read are redirected below
	bw := bufio.NewWriter(buf)
	p := &packer{Packer: pack.NewPacker(r.key, bw), tmpfile: f, bufWr: bw}
	e.files[f] = buf
	e.created = append(e.created, p)
	return p, nil
}

func verifC44Setup() *verifC44Env {
	e := &verifC44Env{files: map[*os.File]*bytes.Buffer{}, readers: map[*os.File]*bytes.Reader{}, errQ: errors.New("queue failed")}
	verifrt.Stub("(*internal/repository.packerManager).newPacker", e.newPacker)
	verifrt.Stub("internal/repository.randomInt", func(max int) (int, error) {
		k := verifrt.Int("slot", 0, max-1)
		e.slotSeq = append(e.slotSeq, k)
		return k, nil
	})
	verifrt.Stub("(*os.File).Seek", func(f *os.File, off int64, whence int) (int64, error) {
		verifrt.Assert(off == 0 && whence == io.SeekStart, "unexpected Seek")
		e.readers[f] = bytes.NewReader(e.files[f].Bytes())
		return 0, nil
	})
	verifrt.Stub("(*os.File).Read", func(f *os.File, b []byte) (int, error) {
		rd := e.readers[f]
		verifrt.Assert(rd != nil, "temp file read without Seek")
		return rd.Read(b)
	})
	return e
}

func (e *verifC44Env) queue(fail bool) func(context.Context, restic.BlobType, *packer) error {
	return func(_ context.Context, _ restic.BlobType, p *packer) error {
		e.queued = append(e.queued, p)
		if fail {
			return e.errQ
		}
		return nil
	}
}

func verifC44ID(n int) restic.ID {
	var id restic.ID
	id[0] = byte(n)
	id[31] = 0x44
	return id
}

type verifC44Blob struct {
	id   restic.ID
	data []byte
	ulen int
}

// fills slot i of r with a packer holding nb blobs of symbolic length (total < packSize)
func verifC44Prefill(e *verifC44Env, r *packerManager, maxBlobs, maxLen int, symData bool, seq *int) []verifC44Blob {
	p, _ := e.newPacker(r)
	nb := verifrt.Int("prefillBlobs", 1, maxBlobs)
	var out []verifC44Blob
	for k := 0; k < nb; k++ {
		l := verifrt.Int("prefillLen", 0, maxLen)
		var data []byte
		if symData {
			for c := 0; c <= maxLen; c++ { // make the length concrete (one path per value)
				if l == c {
					data = verifrt.BytesN("prefillData", c)
					break
				}
			}
		} else {
			data = make([]byte, l)
		}
		*seq++
		b := verifC44Blob{id: verifC44ID(*seq), data: data, ulen: (*seq % 2) * 77}
		_, err := p.Add(r.tpe, b.id, b.data, b.ulen)
		verifrt.Assert(err == nil, "Add failed")
		out = append(out, b)
	}
	// invariant of an open packer: below the target size, header not full
	verifrt.Assume(p.Size() < r.packSize)
	verifrt.Assume(!p.HeaderFull())
	return out
}

func verifC44Count(blobs pack.Blobs, id restic.ID) int {
	n := 0
	for _, b := range blobs {
		if b.ID == id {
			n++
		}
	}
	return n
}

// VerifC44_SaveBlobStep: one SaveBlob from any state of the packer slots.
func VerifC44_SaveBlobStep() {
	e := verifC44Setup()
	packSize := uint(verifrt.Param("packSize", 4))
	nslots := verifrt.Param("slots", 2)
	queueFails := verifrt.Bool("queueFails")
	r := newPackerManager(nil, restic.DataBlob, packSize, nslots, e.queue(queueFails))

	seq := 0
	before := make([]*packer, nslots)
	beforeBlobs := make([]pack.Blobs, nslots)
	for i := 0; i < nslots; i++ {
		if verifrt.Bool("slotUsed") {
			verifC44Prefill(e, r, verifrt.Param("prefill", 1), int(packSize)-1, false, &seq)
			r.packers[i] = e.created[len(e.created)-1]
			before[i] = r.packers[i]
			beforeBlobs[i] = append(pack.Blobs(nil), r.packers[i].Blobs()...)
		}
	}
	ncreated := len(e.created)

	l := verifrt.Int("len", 0, int(packSize)+1)
	data := make([]byte, l)
	id := verifC44ID(100)
	ulen := verifrt.Int("ulen", 0, 1) * 99
	n, err := r.SaveBlob(context.Background(), restic.DataBlob, id, data, ulen)

	// where did the blob go?
	var target *packer
	if l >= int(packSize) {
		verifrt.Reach("oversize")
		verifrt.Assert(len(e.created) == ncreated+1, "an oversize blob must get a new packer")
		target = e.created[ncreated]
		verifrt.Assert(target.Count() == 1, "the private packer of an oversize blob holds other blobs")
		for i := range r.packers {
			verifrt.Assert(r.packers[i] == before[i], "an oversize blob must not touch the open packers")
		}
		verifrt.Assert(len(e.slotSeq) == 0, "no random slot is drawn for an oversize blob")
	} else {
		verifrt.Reach("normal")
		verifrt.Assert(len(e.slotSeq) == 1, "exactly one random slot is drawn")
		s := e.slotSeq[0]
		if before[s] == nil {
			verifrt.Assert(len(e.created) == ncreated+1, "an empty slot must get a new packer")
			target = e.created[ncreated]
		} else {
			verifrt.Assert(len(e.created) == ncreated, "no new packer when the slot is in use")
			target = before[s]
		}
		for i := range r.packers {
			if i != s {
				verifrt.Assert(r.packers[i] == before[i], "another slot changed")
			}
		}
	}

	// the blob is the last entry of the target packer, and in no other packer
	tb := target.Blobs()
	verifrt.Assert(len(tb) >= 1, "blob not added")
	last := tb[len(tb)-1]
	var off uint
	for _, b := range tb[:len(tb)-1] {
		off += b.Length
	}
	verifrt.Assert(last.ID == id && last.Type == restic.DataBlob && last.Length == uint(l) && last.UncompressedLength == uint(ulen) && last.Offset == off, "wrong pack entry for the saved blob")
	total := 0
	for _, p := range e.created {
		total += verifC44Count(p.Blobs(), id)
	}
	verifrt.Assert(total == 1, "the blob must be in exactly one packer")
	for i := range before {
		if before[i] != nil && before[i] != target {
			verifrt.Assert(len(before[i].Blobs()) == len(beforeBlobs[i]), "another packer changed")
		}
		if before[i] != nil {
			nb := before[i].Blobs()
			for k := range beforeBlobs[i] {
				verifrt.Assert(nb[k] == beforeBlobs[i][k], "earlier pack entries changed")
			}
		}
	}

	// full packers are queued and forgotten, others stay open
	full := target.Size() >= packSize || target.HeaderFull()
	if full {
		verifrt.Reach("full")
		verifrt.Assert(len(e.queued) == 1 && e.queued[0] == target, "a full packer must be queued exactly once")
		for i := range r.packers {
			verifrt.Assert(r.packers[i] != target, "a queued packer is still open for further blobs")
		}
		verifrt.Assert((err != nil) == queueFails, "queue error must be returned")
		if err == nil {
			verifrt.Assert(n == l+pack.CalculateEntrySize(ulen != 0)+target.HeaderOverhead(), "wrong size accounting for a finished pack")
		}
	} else {
		verifrt.Reach("not-full")
		verifrt.Assert(len(e.queued) == 0, "a packer below the limits must not be queued")
		found := 0
		for i := range r.packers {
			if r.packers[i] == target {
				found++
			}
		}
		verifrt.Assert(found == 1, "an open packer must stay in exactly one slot")
		verifrt.Assert(err == nil, "unexpected error")
		verifrt.Assert(n == l+pack.CalculateEntrySize(ulen != 0), "wrong size accounting")
	}
	for i := range r.packers {
		if p := r.packers[i]; p != nil {
			verifrt.Assert(p.Size() < packSize && !p.HeaderFull(), "open packer violates the invariant")
		}
	}
}

// VerifC44_FlushMerge: Flush queues every open packer (merged or not); the sequence of blobs, their
// offsets and the pack data are preserved; nothing stays open.
func VerifC44_FlushMerge() {
	e := verifC44Setup()
	packSize := uint(verifrt.Param("packSize", 4))
	nslots := verifrt.Param("slots", 3)
	r := newPackerManager(nil, restic.TreeBlob, packSize, nslots, e.queue(false))

	seq := 0
	var want []verifC44Blob
	for i := 0; i < nslots; i++ {
		if verifrt.Bool("slotUsed") {
			bl := verifC44Prefill(e, r, verifrt.Param("prefill", 2), int(packSize)-1, true, &seq)
			r.packers[i] = e.created[len(e.created)-1]
			want = append(want, bl...)
		}
	}
	open := len(e.created)

	err := r.Flush(context.Background())
	verifrt.Assert(err == nil, "Flush failed")
	verifrt.Assert(len(e.created) == open, "Flush must not create packers")
	for i := range r.packers {
		verifrt.Assert(r.packers[i] == nil, "a packer is still open after Flush")
	}

	k := 0
	for qi, p := range e.queued {
		for qj := 0; qj < qi; qj++ {
			verifrt.Assert(e.queued[qj] != p, "a packer was queued twice")
		}
		verifrt.Assert(p.Size() < packSize, "a merged pack reached the target pack size")
		verifrt.Assert(p.Count() >= 1, "an empty pack was queued")
		verifrt.Assert(p.bufWr.Flush() == nil, "flush")
		content := e.files[p.tmpfile].Bytes()
		var off uint
		for _, b := range p.Blobs() {
			verifrt.Assert(k < len(want), "more blobs queued than were saved")
			w := want[k]
			k++
			verifrt.Assert(b.ID == w.id && b.Type == restic.TreeBlob && b.Length == uint(len(w.data)) && b.UncompressedLength == uint(w.ulen), "blob entry changed or reordered by the merge")
			verifrt.Assert(b.Offset == off, "wrong offset after merge")
			verifrt.Assert(int(off)+len(w.data) <= len(content), "pack data shorter than its entries")
			for j := range w.data {
				verifrt.Assert(content[int(off)+j] == w.data[j], "pack data changed by the merge")
			}
			off += b.Length
		}
		verifrt.Assert(int(off) == len(content) && off == p.Size(), "pack size differs from its entries")
	}
	verifrt.Assert(k == len(want), "a saved blob is in no queued pack")
	if len(e.queued) < open {
		verifrt.Reach("merged")
	}
	if len(e.queued) > 1 {
		verifrt.Reach("several-packs")
	}
}

// ---- header limit: abstract packers (only the number of entries and bytes are kept) ----

type verifC44Cnt struct {
	count int
	bytes uint
}

type verifC44Abs struct {
	m map[*pack.Packer]*verifC44Cnt
}

// The pack header limit cannot be reached blob by blob inside the bound (409 199 entries), so for these
// two harnesses a pack.Packer is represented by its two counters. Add/Merge update them the way the real
// methods do (one entry and len(data) bytes per blob); HeaderFull is "one more entry would not fit".
func verifC44Abstract() *verifC44Abs {
	a := &verifC44Abs{m: map[*pack.Packer]*verifC44Cnt{}}
	verifrt.Stub("(*internal/repository/pack.Packer).Size", func(p *pack.Packer) uint { return a.m[p].bytes })
	verifrt.Stub("(*internal/repository/pack.Packer).Count", func(p *pack.Packer) int { return a.m[p].count })
	verifrt.Stub("(*internal/repository/pack.Packer).HeaderFull", func(p *pack.Packer) bool {
		return uint(a.m[p].count)+1 > pack.MaxHeaderEntries
	})
	verifrt.Stub("(*internal/repository/pack.Packer).Add", func(p *pack.Packer, _ restic.BlobType, _ restic.ID, data []byte, ulen int) (int, error) {
		a.m[p].count++
		a.m[p].bytes += uint(len(data))
		return len(data) + pack.CalculateEntrySize(ulen != 0), nil
	})
	verifrt.Stub("(*internal/repository/pack.Packer).Merge", func(p *pack.Packer, other *pack.Packer, _ io.Reader) error {
		a.m[p].count += a.m[other].count
		a.m[p].bytes += a.m[other].bytes
		return nil
	})
	return a
}

// an open packer in any state a real run can reach: at least one blob, every stored blob is at least
// crypto.Extension bytes (nonce+MAC), below the target size, header not full
func (a *verifC44Abs) open(e *verifC44Env, r *packerManager) *packer {
	p, _ := e.newPacker(r)
	c := &verifC44Cnt{count: int(verifrt.Uint32("count")), bytes: uint(verifrt.Uint32("bytes"))}
	a.m[p.Packer] = c
	verifrt.Assume(c.count >= 1)
	verifrt.Assume(uint(c.count)+1 <= pack.MaxHeaderEntries)
	verifrt.Assume(c.bytes >= uint(c.count)*crypto.Extension)
	verifrt.Assume(c.bytes < r.packSize)
	return p
}

func verifC44PackSize() uint {
	ps := uint(verifrt.Uint32("packSize"))
	verifrt.Assume(ps >= MinPackSize && ps <= MaxPackSize)
	return ps
}

// VerifC44_FlushHeaderLimit: no pack queued by Flush has more entries than fit into a pack header.
func VerifC44_FlushHeaderLimit() {
	e := verifC44Setup()
	a := verifC44Abstract()
	nslots := verifrt.Param("slots", 2)
	r := newPackerManager(nil, restic.DataBlob, verifC44PackSize(), nslots, e.queue(false))
	total := 0
	for i := 0; i < nslots; i++ {
		if verifrt.Bool("slotUsed") {
			r.packers[i] = a.open(e, r)
			total += r.packers[i].Count()
		}
	}
	err := r.Flush(context.Background())
	verifrt.Assert(err == nil, "Flush failed")
	got := 0
	for _, p := range e.queued {
		verifrt.Assert(uint(p.Count()) <= pack.MaxHeaderEntries, "Flush queued a pack with more entries than fit into the pack header (Finalize will refuse it)")
		got += p.Count()
	}
	verifrt.Assert(got == total, "entries lost or duplicated by Flush")
	verifrt.Reach("flushed")
}

// VerifC44_SaveBlobHeaderLimit: adding one blob to any open packer never exceeds the header limit; a
// packer whose header became full is queued and forgotten.
func VerifC44_SaveBlobHeaderLimit() {
	e := verifC44Setup()
	a := verifC44Abstract()
	r := newPackerManager(nil, restic.DataBlob, verifC44PackSize(), 1, e.queue(false))
	p := a.open(e, r)
	r.packers[0] = p
	data := make([]byte, crypto.Extension+verifrt.Int("plainLen", 0, 2))
	_, err := r.SaveBlob(context.Background(), restic.DataBlob, verifC44ID(1), data, 0)
	verifrt.Assert(err == nil, "SaveBlob failed")
	verifrt.Assert(uint(p.Count()) <= pack.MaxHeaderEntries, "pack exceeds the header limit")
	if uint(p.Count()) == pack.MaxHeaderEntries {
		verifrt.Reach("header-full")
		verifrt.Assert(len(e.queued) == 1 && e.queued[0] == p && r.packers[0] == nil, "a pack with a full header must be queued and forgotten")
	}
	if r.packers[0] == p {
		verifrt.Reach("still-open")
		verifrt.Assert(len(e.queued) == 0, "open packer was queued")
		verifrt.Assert(p.Size() < r.packSize && uint(p.Count())+1 <= pack.MaxHeaderEntries, "open packer violates the invariant")
	}
}

package repository

import (
	"context"
	"errors"
	"time"

	"github.com/restic/restic/internal/backend"
	"github.com/restic/restic/internal/restic"
	"github.com/restic/restic/internal/verifrt"
)

// verifC13Store: lock directory with fault injection and an event log. `live` after each event is
// recorded so that "some lock file of the holder exists" can be asserted at every prefix (crash point).
type verifC13Store struct {
	ids      []restic.ID
	live     []bool
	next     byte
	events   []string
	liveAt   []int // number of live lock files after each event
	otherDel int   // >=0: another process removes lock file #otherDel before the next List (stale-lock remover)
	reliable bool  // List and Remove never fail (used where only Save faults are the subject)
}

func (s *verifC13Store) note(ev string) {
	n := 0
	for _, l := range s.live {
		if l {
			n++
		}
	}
	s.events = append(s.events, ev)
	s.liveAt = append(s.liveAt, n)
}

func (s *verifC13Store) Connections() uint { return 1 }
func (s *verifC13Store) List(_ context.Context, _ restic.FileType, fn func(restic.ID, int64) error) error {
	verifrt.Yield()
	if s.otherDel >= 0 && s.otherDel < len(s.live) && verifrt.Bool("otherRemovesNow") {
		s.live[s.otherDel] = false
		s.note("other-removed")
		s.otherDel = -1
	}
	if !s.reliable && verifrt.Bool("listFails") {
		s.note("list-failed")
		return errors.New("list failed")
	}
	s.note("list")
	for i := range s.ids {
		if s.live[i] {
			if err := fn(s.ids[i], 100); err != nil {
				return err
			}
		}
	}
	return nil
}
func (s *verifC13Store) LoadUnpacked(context.Context, restic.FileType, restic.ID) ([]byte, error) {
	return nil, errors.New("not used")
}
func (s *verifC13Store) SaveUnpacked(context.Context, restic.FileType, []byte) (restic.ID, error) {
	return restic.ID{}, errors.New("not used")
}
func (s *verifC13Store) RemoveUnpacked(_ context.Context, _ restic.FileType, id restic.ID) error {
	verifrt.Yield()
	if !s.reliable && verifrt.Bool("removeFails") {
		s.note("remove-failed")
		return errors.New("remove failed")
	}
	for i := range s.ids {
		if s.ids[i] == id {
			s.live[i] = false
		}
	}
	s.note("remove")
	return nil
}
func (s *verifC13Store) save() (restic.ID, error) {
	verifrt.Yield()
	if verifrt.Bool("saveFails") {
		s.note("save-failed")
		return restic.ID{}, errors.New("save failed")
	}
	s.next++
	id := restic.ID{s.next}
	s.ids = append(s.ids, id)
	s.live = append(s.live, true)
	s.note("save")
	return id, nil
}

func verifC13Setup(s *verifC13Store, now *time.Time) *lockHandle {
	verifrt.Stub("internal/restic.SaveJSONUnpacked", func(_ context.Context, _ restic.SaverUnpacked[restic.FileType], _ restic.FileType, _ any) (restic.ID, error) {
		return s.save()
	})
	verifrt.Stub("internal/repository.delayedCancelContext", func(_ context.Context, _ time.Duration) (context.Context, context.CancelFunc) {
		return context.WithCancel(context.Background())
	})
	verifrt.Stub("time.Now", func() time.Time { return *now })
	verifrt.Stub("time.Since", func(t time.Time) time.Duration { return now.Sub(t) })
	id, _ := func() (restic.ID, error) { // the initial lock file, created without faults
		s.next++
		id := restic.ID{s.next}
		s.ids = append(s.ids, id)
		s.live = append(s.live, true)
		return id, nil
	}()
	return &lockHandle{Lock: Lock{Time: *now, PID: 1, Hostname: "h"}, repo: s, lockID: &id}
}

// holderHasLockAtEveryPrefix: as long as no other process interfered, the holder never has zero lock files.
func verifC13NoGap(s *verifC13Store) {
	interfered := false
	for i, ev := range s.events {
		if ev == "other-removed" {
			interfered = true
		}
		if !interfered {
			verifrt.Assert(s.liveAt[i] >= 1, "there is a moment at which the lock holder has no lock file")
		}
	}
}

// VerifC13_Refresh: lockHandle.refresh saves the replacement before it removes the old file and never
// removes the old file if the save failed.
func VerifC13_Refresh() {
	now := time.Unix(1700000000, 0)
	s := &verifC13Store{otherDel: -1}
	l := verifC13Setup(s, &now)
	old := *l.lockID
	now = now.Add(5 * time.Minute)
	err := l.refresh(context.Background())
	verifC13NoGap(s)
	saved := len(s.ids) == 2
	if !saved {
		verifrt.Reach("refresh-save-failed")
		verifrt.Assert(err != nil, "a failed refresh must be reported")
		verifrt.Assert(s.live[0] && *l.lockID == old, "the old lock was dropped although no replacement was saved")
		verifrt.Assert(len(s.events) == 1, "a failed save must not be followed by a removal")
	} else {
		verifrt.Reach("refresh-saved")
		verifrt.Assert(*l.lockID == s.ids[1], "the handle does not point to the replacement lock")
		verifrt.Assert(l.Time.Equal(now), "the refreshed lock does not carry the new time")
		verifrt.Assert(s.events[0] == "save", "the old lock was touched before the replacement was saved")
	}
}

// VerifC13_RefreshStale: refreshStaleLock re-creates the lock only while the old file still exists
// before and after the replacement was written; otherwise it cleans up and reports failure.
func VerifC13_RefreshStale() {
	now := time.Unix(1700000000, 0)
	s := &verifC13Store{otherDel: 0}
	l := verifC13Setup(s, &now)
	old := *l.lockID
	now = now.Add(40 * time.Minute)
	err := l.refreshStaleLock(context.Background())
	removedByOther := false
	for _, ev := range s.events {
		if ev == "other-removed" {
			removedByOther = true
		}
	}
	if err == nil {
		verifrt.Reach("stale-refreshed")
		verifrt.Assert(!removedByOther, "a lock that another process had already removed was refreshed as if it were still held")
		verifrt.Assert(*l.lockID != old && len(s.ids) == 2 && s.live[1], "successful stale refresh without a live replacement lock")
		verifC13NoGap(s)
	} else {
		verifrt.Reach("stale-refresh-failed")
		adopted := *l.lockID != old
		if adopted {
			// the replacement was adopted and only the removal of the old file failed
			verifrt.Assert(len(s.ids) == 2 && *l.lockID == s.ids[1] && s.live[1] && s.events[len(s.events)-1] == "remove-failed",
				"a failed stale refresh changed the lock identity without a live replacement")
		}
		if len(s.ids) == 2 && !adopted {
			// the replacement must not be left behind unless its removal itself failed
			removeFailed := false
			for _, ev := range s.events {
				if ev == "remove-failed" {
					removeFailed = true
				}
			}
			verifrt.Assert(!s.live[1] || removeFailed, "the replacement lock of a failed stale refresh was left behind")
		}
	}
}

type verifC13Backend struct {
	backend.Backend
	events *[]string
}

func (b verifC13Backend) Freeze()   { *b.events = append(*b.events, "freeze") }
func (b verifC13Backend) Unfreeze() { *b.events = append(*b.events, "unfreeze") }

// VerifC13_TryRefreshStale: a failed stale refresh cancels the context while the backend is still frozen.
func VerifC13_TryRefreshStale() {
	now := time.Unix(1700000000, 0)
	s := &verifC13Store{otherDel: 0}
	l := verifC13Setup(s, &now)
	now = now.Add(40 * time.Minute)
	var order []string
	be := verifC13Backend{events: &order}
	cancelled := false
	ok := tryRefreshStaleLock(context.Background(), be, l, func() { cancelled = true; order = append(order, "cancel") }, func(string, ...any) {})
	verifrt.Assert(len(order) >= 2 && order[0] == "freeze" && order[len(order)-1] == "unfreeze", "backend not frozen around the stale refresh")
	if ok {
		verifrt.Reach("try-ok")
		verifrt.Assert(!cancelled, "a successful stale refresh cancelled the context")
	} else {
		verifrt.Reach("try-failed")
		verifrt.Assert(cancelled && len(order) == 3 && order[1] == "cancel", "a failed stale refresh must cancel the context before the backend is unfrozen")
	}
}

package repository

import (
	"context"
	"sync"
	"time"

	"github.com/restic/restic/internal/restic"
	"github.com/restic/restic/internal/verifrt"
)

// harness-controlled tickers: time.NewTicker returns a ticker whose channel the harness feeds
func verifC13Tickers() chan chan time.Time {
	ready := make(chan chan time.Time, 2)
	verifrt.Stub("time.NewTicker", func(time.Duration) *time.Ticker {
		ch := make(chan time.Time)
		ready <- ch // hand the channel to the harness, which waits for it before it sends ticks
		return &time.Ticker{C: ch}
	})
	verifrt.Stub("(*time.Ticker).Stop", func(*time.Ticker) {})
	return ready
}

// VerifC13_RefreshLoop: the refresh goroutine refreshes on ticks while the lock is young enough, stops
// refreshing once refreshabilityTimeout has passed, and on termination cancels the context BEFORE it
// removes the lock file, and always removes it.
func VerifC13_RefreshLoop() {
	now := time.Unix(1700000000, 0)
	s := &verifC13Store{otherDel: -1}
	l := verifC13Setup(s, &now)
	tickers := verifC13Tickers()
	lk := &locker{refreshInterval: 5 * time.Minute, refreshabilityTimeout: staleLockTimeout - 5*time.Minute*3/2}
	ctx, cancel := context.WithCancel(context.Background())
	cancelledAt := -1
	u := &unlocker{lock: l}
	u.cancel = func() {
		if cancelledAt < 0 {
			cancelledAt = len(s.events)
		}
		cancel()
	}
	u.refreshWG.Add(1)
	refreshed := make(chan struct{})
	force := make(chan refreshLockRequest)
	var wg sync.WaitGroup
	wg.Add(1)
	go func() {
		defer wg.Done()
		lk.refreshLocks(ctx, verifC13Backend{events: new([]string)}, u, refreshed, force, func(string, ...any) {})
	}()
	tick := <-tickers
	nticks := verifrt.Int("ticks", 0, verifrt.Param("ticks", 2))
	lastGood := now
	onNotify := func() {
		// a successful refresh: the lock file just written carries the time of the tick that caused it
		verifrt.Assert(l.Time.Sub(lastGood) <= lk.refreshabilityTimeout, "the lock was refreshed although it could already be considered stale by others")
		verifrt.Assert(len(s.ids) >= 2 && *l.lockID == s.ids[len(s.ids)-1], "refresh notification without a new lock file")
		lastGood = l.Time
	}
	for i := 0; i < nticks; i++ {
		// the next tick comes after 5 minutes, after 20 minutes (ticks dropped while the goroutine was
		// busy; still younger than refreshabilityTimeout) or after 30 minutes (host suspended)
		switch k := verifrt.Int("pause", 0, 2); {
		case k == 0:
			now = now.Add(5 * time.Minute)
		case k == 1:
			now = now.Add(20 * time.Minute)
		default:
			now = now.Add(30 * time.Minute)
		}
		// like the monitor goroutine, the harness is always ready to take a refresh notification
		for sent := false; !sent; {
			select {
			case tick <- now:
				sent = true
			case <-refreshed:
				onNotify()
			}
		}
		// the clock stands still until the tick has been processed: the goroutine is either back in
		// its select or offers a notification
		verifrt.Settle()
		select {
		case <-refreshed:
			onNotify()
		default:
		}
	}
	u.cancel()
	wg.Wait()
	// termination: context cancelled first, then the current lock file removed (unless the removal failed)
	removedOwn := false
	for i, ev := range s.events {
		if ev == "remove" && i >= cancelledAt && i == len(s.events)-1 {
			removedOwn = true
		}
	}
	lastRemoveFailed := len(s.events) > 0 && s.events[len(s.events)-1] == "remove-failed"
	verifrt.Assert(removedOwn || lastRemoveFailed, "the lock file was not removed when the lock holder finished")
	verifC13NoGapBefore(s, cancelledAt)
	verifrt.Reach("loop-done")
}

func verifC13NoGapBefore(s *verifC13Store, upto int) {
	for i := range s.events {
		if i < upto {
			verifrt.Assert(s.liveAt[i] >= 1, "the holder had no lock file while its context was still live")
		}
	}
}

// VerifC13_Monitor: the monitor cancels the context no later than the first poll tick after
// refreshabilityTimeout has passed without a refresh, unless a forced refresh succeeds.
func VerifC13_Monitor() {
	now := time.Unix(1700000000, 0)
	verifrt.Stub("time.Now", func() time.Time { return now })
	tickers := verifC13Tickers()
	lk := &locker{refreshInterval: 5 * time.Minute, refreshabilityTimeout: staleLockTimeout - 5*time.Minute*3/2}
	ctx, cancel := context.WithCancel(context.Background())
	cancelled := false
	u := &unlocker{}
	u.cancel = func() { cancelled = true; cancel() }
	u.refreshWG.Add(1)
	refreshed := make(chan struct{})
	force := make(chan refreshLockRequest)
	done := make(chan struct{})
	go func() {
		lk.monitorLockRefresh(ctx, u, refreshed, force, func(string, ...any) {})
		close(done)
	}()
	tick := <-tickers
	lastRefresh := now
	steps := verifrt.Param("steps", 3)
	finished := false
	handleForce := func(req refreshLockRequest) {
		// the monitor read the clock somewhere between the tick and now
		verifrt.Assert(now.Sub(lastRefresh) >= lk.refreshabilityTimeout, "forced refresh requested although the lock was refreshed recently")
		ok := verifrt.Bool("forcedRefreshOK")
		select {
		case req.result <- ok:
		case <-done:
			finished = true
			return
		}
		if ok {
			lastRefresh = now
		} else {
			<-done
			finished = true
			verifrt.Assert(cancelled, "the context was not cancelled after the lock could not be refreshed in time")
			verifrt.Reach("monitor-cancelled")
		}
	}
	for i := 0; i < steps && !finished; i++ {
		ev := verifrt.Int("event", 0, 2)
		var notify chan<- struct{}
		var tk chan<- time.Time
		switch ev {
		case 0: // a regular refresh happened a minute later
			now = now.Add(time.Minute)
			notify = refreshed
		case 1: // a short time passes, then the poll ticker fires
			now = now.Add(time.Minute)
			tk = tick
		case 2: // a long time passes (no refresh possible / host suspended), then the poll ticker fires
			now = now.Add(25 * time.Minute)
			tk = tick
		}
		for sent := false; !sent && !finished; {
			select {
			case notify <- struct{}{}:
				sent = true
				lastRefresh = now
			case tk <- now:
				sent = true
			case req := <-force:
				handleForce(req)
			case <-done:
				finished = true
			}
		}
		if !finished {
			verifrt.Assert(!cancelled || now.Sub(lastRefresh) >= lk.refreshabilityTimeout, "context cancelled although the lock was refreshed in time")
		}
	}
	cancel()
	<-done
	verifrt.Reach("monitor-done")
}


// VerifC13_Combined: both lock goroutines (refreshLocks and monitorLockRefresh) wired together as in
// locker.Lock, with a harness clock, harness-controlled tickers and a lock store whose Save may be slow
// (10 minutes of clock time pass while it runs) or fail. Fairness of the poll ticker is modelled: after
// every clock step the monitor is offered a poll tick (it takes it as soon as it is back in its select).
// The two goroutines must never block each other (the engine reports that as a deadlock), and once the
// monitor has looked at a clock that is past the staleness limit the holder's context must be cancelled.
func VerifC13_Combined() {
	now := time.Unix(1700000000, 0)
	s := &verifC13Store{otherDel: -1, reliable: true}
	l := verifC13Setup(s, &now)
	verifrt.Stub("internal/restic.SaveJSONUnpacked", func(_ context.Context, _ restic.SaverUnpacked[restic.FileType], _ restic.FileType, _ any) (restic.ID, error) {
		if verifrt.Bool("slowSave") {
			// a stalled backend / retries: within what the retry layer allows for one operation
			now = now.Add(10 * time.Minute)
		}
		return s.save()
	})
	tickers := verifC13Tickers()
	lk := &locker{refreshInterval: 5 * time.Minute, refreshabilityTimeout: staleLockTimeout - 5*time.Minute*3/2}
	ctx, cancel := context.WithCancel(context.Background())
	cancelled := false
	u := &unlocker{lock: l}
	u.cancel = func() { cancelled = true; cancel() }
	u.refreshWG.Add(2)
	refreshChan := make(chan struct{})
	forceChan := make(chan refreshLockRequest)
	refDone, monDone := make(chan struct{}), make(chan struct{})
	go func() {
		lk.refreshLocks(ctx, verifC13Backend{events: new([]string)}, u, refreshChan, forceChan, func(string, ...any) {})
		close(refDone)
	}()
	refTick := <-tickers
	go func() {
		lk.monitorLockRefresh(ctx, u, refreshChan, forceChan, func(string, ...any) {})
		close(monDone)
	}()
	pollTick := <-tickers

	steps := verifrt.Param("steps", 3)
	for i := 0; i < steps && !cancelled; i++ {
		if verifrt.Bool("longStep") {
			now = now.Add(10 * time.Minute) // e.g. a missed refresh tick
		} else {
			now = now.Add(time.Minute)
		}
		// the poll ticker fires every second: the monitor sees the new time as soon as it is in its select
		select {
		case pollTick <- now:
		case <-monDone:
		case <-refDone:
		}
		if verifrt.Bool("refreshTick") {
			select {
			case refTick <- now:
			case <-monDone:
			case <-refDone:
			}
		}
	}
	cancel()
	<-refDone
	<-monDone
	verifrt.Reach("combined-done")
}

package index

import (
	"github.com/restic/restic/internal/restic"
	"github.com/restic/restic/internal/verifrt"
)

// Model of hash/maphash for the engine: an uninterpreted function of the ID (only bytes 0 and 1 of the
// harness IDs vary), masked to the table size exactly as indexMap.hash does. The solver may choose any
// function, so every bucket-collision pattern is explored. Natively the real maphash runs.
func verifC56Hash(m *indexMap, id restic.ID) uint {
	u := verifrt.UF64("maphash", uint64(id[0]), uint64(id[1]))
	if verifrt.Param("narrowhash", 0) != 0 {
		// only bits 0,1 (4 buckets at every size) and 6,7 (the bits that decide where a chain goes when the
		// table doubles to 128 and 256 buckets) may be set
		u = u&3 | (u>>2&3)<<6
	}
	return uint(u) & uint(len(m.buckets)-1)
}

type verifC56Entry struct {
	id          restic.ID
	pack        uint32 // concrete: the insertion number (identifies the entry in the harness)
	off, ln, ul uint32 // arbitrary
}

// an ID whose first byte (selects the bloom-filter bit: id[0]%28) is arbitrary and whose second byte is 0/1
func verifC56ID(name string) restic.ID {
	var id restic.ID
	id[0] = verifrt.Byte(name + ".b0")
	id[1] = verifrt.Byte(name + ".b1")
	verifrt.Assume(id[1] <= 1)
	// (no other byte is set: the all-zero ID - the key of the reserved null entry at position 0 - is included)
	return id
}

// picks one of the given concrete values (forks; the result is concrete on every path, which keeps the
// divisions in preallocate out of the solver)
func verifC56Pick(name string, vals []int) int {
	k := verifrt.Int(name, 0, len(vals)-1)
	for i, v := range vals {
		if k == i {
			return v
		}
	}
	return vals[0]
}

// runs a symbolic history of add/preallocate on a fresh indexMap; returns the map and the shadow list
// (in insertion order). q is probed with firstIndex after every step to check that it is stable.
func verifC56History(q restic.ID) (*indexMap, []verifC56Entry) {
	verifrt.Stub("(*internal/repository/index.indexMap).hash", verifC56Hash)
	maxIns := verifrt.Param("inserts", 4)
	maxPre := verifrt.Param("preallocs", 2)
	sizes := []int{0, 1, 256} // no growth of a 64-bucket table
	if verifrt.Param("grow", 0) != 0 {
		sizes = []int{257, 600} // 257: 128 buckets, 600: 256 buckets; both regroup the block list
	}
	steps := verifrt.Int("steps", 0, maxIns+maxPre)

	m := &indexMap{}
	var shadow []verifC56Entry
	npre := 0
	first := -1
	for s := 0; s < steps; s++ {
		if maxPre > 0 && verifrt.Bool("isPrealloc") {
			npre++
			verifrt.Assume(npre <= maxPre)
			m.preallocate(verifC56Pick("presize", sizes))
		} else {
			verifrt.Assume(len(shadow) < maxIns)
			e := verifC56Entry{id: verifC56ID("id"), pack: uint32(len(shadow)), off: verifrt.Uint32("off"),
				ln: verifrt.Uint32("len"), ul: verifrt.Uint32("ulen")}
			m.add(e.id, e.pack, e.off, e.ln, e.ul)
			shadow = append(shadow, e)
		}
		if verifrt.Param("probe", 1) != 0 {
			fi := m.firstIndex(q)
			if first != -1 {
				verifrt.Assert(fi == first, "firstIndex of a key changed after a later insert/preallocate")
			}
			first = fi
		}
	}
	return m, shadow
}

// does e carry exactly the data of shadow entry w? (pack is concrete, so this never forks)
func verifC56Same(e *indexEntry, w verifC56Entry) bool {
	// one struct comparison = one solver term (a chain of && would fork the path four times)
	return verifC56Entry{e.id, w.pack, e.offset, e.length, e.uncompressedLength} == w
}

func verifC56Lookup() {
	q := verifC56ID("q")
	m, shadow := verifC56History(q)

	verifrt.Assert(m.len() == uint(len(shadow)), "len() differs from the number of inserts")

	// reference: which inserts were made for q
	isQ := make([]bool, len(shadow))
	nq := 0
	firstQ := -1
	for i, e := range shadow {
		if e.id == q {
			isQ[i] = true
			nq++
			if firstQ < 0 {
				firstQ = i
			}
		}
	}

	// valuesWithID(q) yields exactly the entries inserted for q, each once
	seen := make([]bool, len(shadow))
	cnt := 0
	for e := range m.valuesWithID(q) {
		cnt++
		k := int(e.packIndex)
		verifrt.Assert(k < len(shadow), "valuesWithID yielded an entry that was never inserted")
		verifrt.Assert(isQ[k], "valuesWithID yielded an entry of another ID")
		verifrt.Assert(!seen[k], "valuesWithID yielded an entry twice")
		seen[k] = true
		verifrt.Assert(verifC56Same(e, shadow[k]), "valuesWithID yielded an entry with changed content")
	}
	verifrt.Assert(cnt == nq, "valuesWithID yielded too few entries (bloom false negative or lost entry)")

	g := m.get(q)
	verifrt.Assert((g != nil) == (nq > 0), "get() != nil iff an entry was inserted")
	if g != nil {
		k := int(g.packIndex)
		verifrt.Assert(k < len(shadow) && isQ[k], "get returned an entry of another ID")
		verifrt.Assert(verifC56Same(g, shadow[k]), "get returned an entry with changed content")
	}

	fi := m.firstIndex(q)
	if nq == 0 {
		verifrt.Reach("absent")
		verifrt.Assert(fi == -1, "firstIndex of an absent key must be -1")
	} else {
		verifrt.Reach("present")
		// AssociatedSet relies on: 1 <= firstIndex <= len, and the slot holds the oldest entry of that key
		verifrt.Assert(fi >= 1 && fi <= len(shadow), "firstIndex outside 1..len")
		r := m.resolve(uint(fi))
		verifrt.Assert(int(r.packIndex) == firstQ, "firstIndex is not the first inserted entry of the key")
		verifrt.Assert(verifC56Same(r, shadow[firstQ]), "entry at firstIndex has changed content")
	}
	if nq >= 2 {
		verifrt.Reach("duplicate-key")
	}
}

// VerifC56_Lookup: after any history of inserts (and preallocations that do not grow the table),
// valuesWithID/get/firstIndex/len agree with the reference list; the hash is a free function.
func VerifC56_Lookup() { verifC56Lookup() }

// VerifC56_LookupGrowth: the same with preallocate(n) for any n <= 600 (table doubles to 128/256 buckets,
// the block list is merged up to block size 32); hash restricted to 4 bits, see verifC56Hash.
func VerifC56_LookupGrowth() { verifC56Lookup() }

// VerifC56_Values: values() yields every inserted entry exactly once, in insertion order.
func VerifC56_Values() {
	q := verifC56ID("q")
	m, shadow := verifC56History(q)
	i := 0
	for e := range m.values() {
		verifrt.Assert(i < len(shadow), "values() yielded more entries than were inserted")
		w := shadow[i]
		verifrt.Assert(e.packIndex == w.pack && verifC56Same(e, w), "values() yielded a wrong entry")
		i++
	}
	verifrt.Assert(i == len(shadow), "values() yielded fewer entries than were inserted")
	verifrt.Reach("values-done")
}

// VerifC56_Bloom: the bloom filter kept in the upper bits of a chain word never gives a false negative
// and does not disturb the entry position.
func VerifC56_Bloom() {
	idx := uint(verifrt.Uint64("idx"))
	verifrt.Assume(idx == bloomCleanID(idx)) // newEntry panics otherwise
	next := uint(verifrt.Uint64("next"))     // any earlier chain word, with its own filter bits
	id := verifC56ID("id")
	other := verifC56ID("other")
	w := bloomInsertID(idx, next, id)
	verifrt.Assert(bloomCleanID(w) == idx, "bloomInsertID changed the position")
	verifrt.Assert(bloomHasID(w, id), "bloom filter false negative for the inserted ID")
	if bloomHasID(next, other) {
		verifrt.Reach("inherited")
		verifrt.Assert(bloomHasID(w, other), "bloom filter lost an ID of the rest of the chain")
	}
	verifrt.Assert(!bloomHasID(0, id), "the empty chain word must not match")
}

// VerifC56_HAT: the hashed array tree keeps the content and position of every allocated entry across
// growth and preallocation; Ref is bounds-checked.
func VerifC56_HAT() {
	nmax := verifrt.Param("hatEntries", 20)
	n := verifrt.Int("n", 0, nmax)
	h := newHAT()
	preAt := verifrt.Int("preAt", 0, nmax)
	k := uint(verifC56Pick("presize", []int{1, 5, 16, 17, 64, 65, 257, 600}))
	tag := verifrt.Uint32("tag")
	for i := 0; i < n; i++ {
		if i == preAt {
			h.preallocate(k)
		}
		e, pos := h.Alloc()
		verifrt.Assert(pos == uint(i), "Alloc returned a wrong position")
		e.offset = uint32(i) + tag
	}
	verifrt.Assert(h.Size() == uint(n), "Size differs from the number of Allocs")
	for i := 0; i < n; i++ {
		verifrt.Assert(h.Ref(uint(i)).offset == uint32(i)+tag, "entry content/position changed")
	}
	verifrt.Assert(verifrt.ExpectPanic(func() { h.Ref(uint(n)) }), "Ref beyond Size must panic")
	verifrt.Reach("hat-done")
}

package repository

import (
	"bufio"
	"bytes"
	"context"
	"io"
	"os"

	"github.com/restic/restic/internal/backend"
	"github.com/restic/restic/internal/errors"
	"github.com/restic/restic/internal/repository/pack"
	"github.com/restic/restic/internal/restic"
	"github.com/restic/restic/internal/verifrt"
)

type verifC02Packed1 struct {
	pm         *packerManager
	t          restic.BlobType
	id         restic.ID
	ciphertext []byte
	ulen       int
}

// VerifC02_SaveBlob: saveBlob (real saveAndEncrypt + verifyCiphertext; packerManager.SaveBlob is an
// event) stores a blob under SHA-256(plaintext) resp. the caller's ID, and what reaches the packer is
// nonce || Seal(encoding of exactly that plaintext).
func VerifC02_SaveBlob() {
	max := verifrt.Param("blob", 4)
	version := uint(1)
	if verifrt.Bool("v2") {
		version = 2
	}
	r, _ := verifC02Env(version)
	r.opts.NoExtraVerify = verifrt.Bool("noExtraVerify")
	if verifrt.Bool("compressionOff") {
		r.opts.Compression = CompressionOff
	}
	r.treePM = &packerManager{tpe: restic.TreeBlob}
	r.dataPM = &packerManager{tpe: restic.DataBlob}
	var events []verifC02Packed1
	verifrt.Stub("(*internal/repository.packerManager).SaveBlob", func(pm *packerManager, _ context.Context, t restic.BlobType, id restic.ID, ciphertext []byte, ulen int) (int, error) {
		events = append(events, verifC02Packed1{pm: pm, t: t, id: id, ciphertext: append([]byte(nil), ciphertext...), ulen: ulen})
		return len(ciphertext), nil
	})

	t := restic.DataBlob
	if verifrt.Bool("tree") {
		t = restic.TreeBlob
	}
	buf := verifrt.Bytes("buf", max)
	orig := append([]byte(nil), buf...)
	want := restic.Hash(orig)

	// the caller passes the null ID (compute it), the right ID, or (contract violation) an ID of other content
	var given restic.ID
	mode := verifrt.Int("idmode", 0, 2)
	switch mode {
	case 1:
		given = want
	case 2:
		given = restic.Hash(verifrt.BytesN("other", 1))
		verifrt.Assume(given != want)
	}

	ctx := context.Background()
	id, known, size, err := r.saveBlob(ctx, t, buf, given, false)
	verifrt.Assert(bytes.Equal(buf, orig), "saveBlob modified the caller's buffer")

	if mode == 2 {
		verifrt.Assert(id == given, "a caller-provided ID must be used as is")
		if !r.opts.NoExtraVerify {
			verifrt.Reach("wrong-id-detected")
			verifrt.Assert(err != nil, "blob stored under an ID that is not the hash of its plaintext (verification on)")
			verifrt.Assert(len(events) == 0, "a blob that failed verification reached the packer")
		}
		return
	}

	verifrt.Assert(err == nil, "saveBlob failed")
	verifrt.Assert(id == want, "saveBlob returned an ID that is not SHA-256(plaintext)")
	verifrt.Assert(!known, "a new blob reported as known")
	verifrt.Assert(len(events) == 1, "exactly one blob must reach the packer")
	e := events[0]
	verifrt.Assert(e.id == want && e.t == t, "packed under another handle")
	verifrt.Assert(e.pm.tpe == t, "blob handed to the packer manager of the other type")
	compressed := version == 2 && len(orig) > 0 && (t == restic.TreeBlob || r.opts.Compression != CompressionOff)
	body := verifC02Packed(compressed, orig)
	verifrt.Assert(len(e.ciphertext) == 16+len(body)+16, "packed ciphertext has a wrong length")
	verifrt.Assert(size == len(e.ciphertext), "reported size")
	if len(e.ciphertext) == 16+len(body)+16 {
		verifrt.Assert(bytes.Equal(e.ciphertext[16:16+len(body)], body), "sealed data is not the (compressed) plaintext")
		verifrt.Assert(bytes.Equal(e.ciphertext[16+len(body):], verifC02Tag(e.ciphertext[:16], body)), "tag is not over (nonce, data)")
	}
	if compressed {
		verifrt.Reach("compressed")
		verifrt.Assert(e.ulen == len(orig), "uncompressed length wrong")
	} else {
		verifrt.Reach("uncompressed")
		verifrt.Assert(e.ulen == 0, "uncompressed length set for uncompressed data")
	}

	// saving the same content again: same ID, known, not stored again unless storeDuplicate
	dup := verifrt.Bool("storeDuplicate")
	id2, known2, _, err2 := r.saveBlob(ctx, t, orig, restic.ID{}, dup)
	verifrt.Assert(err2 == nil && id2 == want && known2, "second save of the same content")
	if dup {
		verifrt.Reach("duplicate-stored")
		verifrt.Assert(len(events) == 2 && events[1].id == want, "storeDuplicate must store again under the same ID")
	} else {
		verifrt.Assert(len(events) == 1, "known blob stored again")
	}
}

// in-memory stand-in for the packer's temporary *os.File
type verifC02File struct {
	data   []byte
	pos    int64
	closed bool
}

func (f *verifC02File) write(_ *os.File, b []byte) (int, error) {
	verifrt.Assert(!f.closed, "write after close")
	verifrt.Assert(f.pos == int64(len(f.data)), "the pack temp file is written sequentially")
	f.data = append(f.data, b...)
	f.pos += int64(len(b))
	return len(b), nil
}

func (f *verifC02File) read(_ *os.File, b []byte) (int, error) {
	verifrt.Assert(!f.closed, "read after close")
	if f.pos >= int64(len(f.data)) {
		return 0, io.EOF
	}
	n := copy(b, f.data[f.pos:])
	f.pos += int64(n)
	return n, nil
}

func (f *verifC02File) seek(_ *os.File, off int64, whence int) (int64, error) {
	switch whence {
	case io.SeekStart:
		f.pos = off
	case io.SeekCurrent:
		f.pos += off
	case io.SeekEnd:
		f.pos = int64(len(f.data)) + off
	}
	if f.pos < 0 {
		return 0, errors.New("negative position")
	}
	return f.pos, nil
}

func (f *verifC02File) close(_ *os.File) error {
	f.closed = true
	return nil
}

// VerifC02_SavePacker: the pack file is saved under SHA-256 of exactly the bytes handed to the backend,
// these are blobs || header, and the index maps the blobs to that pack ID.
func VerifC02_SavePacker() {
	max := verifrt.Param("blob", 3)
	r, be := verifC02Env(2)
	be.hasher = verifrt.Bool("backendHasher")
	f := &verifC02File{}
	verifrt.Stub("(*os.File).Write", f.write)
	verifrt.Stub("(*os.File).Read", f.read)
	verifrt.Stub("(*os.File).Seek", f.seek)
	verifrt.Stub("(*os.File).Close", f.close)
	tmp := &os.File{}
	bufWr := bufio.NewWriter(tmp)
	p := &packer{Packer: pack.NewPacker(r.key, bufWr), tmpfile: tmp, bufWr: bufWr}

	n := verifrt.Int("nblobs", 1, verifrt.Param("blobs", 2))
	t := restic.DataBlob
	if verifrt.Bool("tree") {
		t = restic.TreeBlob
	}
	var body []byte
	var blobs pack.Blobs
	for i := 0; i < n; i++ {
		ct := verifrt.Bytes("ciphertext", max)
		ulen := verifrt.Int("ulen", 0, 1) * 7
		id := restic.ID{0xb0, byte(i + 1)}
		_, err := p.Add(t, id, ct, ulen)
		verifrt.Assert(err == nil, "Add failed")
		blobs = append(blobs, pack.Blob{BlobHandle: restic.BlobHandle{Type: t, ID: id}, Offset: uint(len(body)), Length: uint(len(ct)), UncompressedLength: uint(ulen)})
		body = append(body, ct...)
	}

	err := r.savePacker(context.Background(), t, p)
	verifrt.Assert(err == nil, "savePacker failed on an intact backend")
	verifrt.Assert(len(be.saved) == 1, "exactly one file saved")
	s := be.saved[0]
	packID := restic.Hash(s.data)
	verifrt.Assert(s.h.Type == backend.PackFile, "not saved as a pack file")
	verifrt.Assert(s.h.Name == packID.String(), "pack file name is not SHA-256 of the bytes handed to the backend")
	verifrt.Assert(s.h.IsMetadata == (t == restic.TreeBlob), "IsMetadata flag")
	verifrt.Assert(bytes.Equal(s.data, f.data), "saved bytes are not the temp file's content")
	verifrt.Assert(f.closed, "temp file not closed")
	verifrt.Assert(len(s.data) >= len(body) && bytes.Equal(s.data[:len(body)], body), "pack does not start with the blobs")
	if be.hasher {
		verifrt.Reach("backend-hash")
		verifrt.Assert(bytes.Equal(s.hash, verifrt.UFBytes("c02behash", 4, s.data)), "backend-specific hash is not over the saved bytes")
	} else {
		verifrt.Assert(s.hash == nil, "hash without hasher")
	}
	listed, hdrSize, lerr := pack.List(r.key, bytes.NewReader(s.data), int64(len(s.data)))
	verifrt.Assert(lerr == nil && len(listed) == n, "the saved pack's header does not list the blobs")
	verifrt.Assert(int(hdrSize) == len(s.data)-len(body), "header is not the rest of the file")
	for i := 0; i < n && i < len(listed); i++ {
		verifrt.Assert(listed[i] == blobs[i], "header entry differs from what was added")
		pbs := r.idx.Lookup(blobs[i].BlobHandle)
		verifrt.Assert(len(pbs) == 1 && pbs[0].Pack == packID && pbs[0].Blob == blobs[i], "index does not map the blob to the saved pack")
	}
	verifrt.Reach("pack-saved")
}

package repository

import (
	"bytes"
	"context"
	"crypto/sha256"
	"hash"
	"io"

	"github.com/klauspost/compress/zstd"

	"github.com/restic/restic/internal/backend"
	"github.com/restic/restic/internal/errors"
	"github.com/restic/restic/internal/repository/crypto"
	"github.com/restic/restic/internal/repository/index"
	"github.com/restic/restic/internal/repository/pack"
	"github.com/restic/restic/internal/restic"
	"github.com/restic/restic/internal/verifrt"
)

// ---- environment (same models as C07: identity-with-tag AEAD, framing zstd) ---------------------

func verifC02Tag(nonce, p []byte) []byte {
	in := append(append([]byte(nil), nonce...), p...)
	return verifrt.UFBytes("c02tag", 16, in)
}

func verifC02Seal(_ *crypto.Key, dst, nonce, plaintext, _ []byte) []byte {
	tag := verifC02Tag(nonce, plaintext)
	dst = append(dst, plaintext...)
	return append(dst, tag...)
}

func verifC02Open(_ *crypto.Key, dst, nonce, ciphertext, _ []byte) ([]byte, error) {
	if len(ciphertext) < 16 {
		return nil, errors.New("ciphertext too short")
	}
	l := len(ciphertext) - 16
	if !bytes.Equal(verifC02Tag(nonce, ciphertext[:l]), ciphertext[l:]) {
		return nil, crypto.ErrUnauthenticated
	}
	return append(dst, ciphertext[:l]...), nil
}

const verifC02Magic = 0xFD

func verifC02EncodeAll(_ *zstd.Encoder, src, dst []byte) []byte {
	dst = append(dst, verifC02Magic, byte(len(src)))
	for _, c := range src {
		dst = append(dst, c^0x5a)
	}
	return dst
}

func verifC02DecodeAll(_ *zstd.Decoder, input, dst []byte) ([]byte, error) {
	if len(input) < 2 || input[0] != verifC02Magic || int(input[1]) != len(input)-2 {
		return dst, errors.New("zstd: invalid input")
	}
	for _, c := range input[2:] {
		dst = append(dst, c^0x5a)
	}
	return dst, nil
}

// streaming SHA-256: Sum is crypto/sha256.Sum256 (the engine's uninterpreted function) of the
// concatenation of everything written, so streamed and one-shot hashes of equal bytes coincide.
type verifC02Hasher struct {
	name string
	data []byte
}

func (h *verifC02Hasher) Write(p []byte) (int, error) {
	h.data = append(h.data, p...)
	return len(p), nil
}
func (h *verifC02Hasher) Sum(b []byte) []byte {
	if h.name != "" {
		return append(b, verifrt.UFBytes(h.name, 4, h.data)...)
	}
	s := sha256.Sum256(h.data)
	return append(b, s[:]...)
}
func (h *verifC02Hasher) Reset()         { h.data = nil }
func (h *verifC02Hasher) Size() int      { return 32 }
func (h *verifC02Hasher) BlockSize() int { return 64 }

// one scripted answer of the backend to a Load call
type verifC02Answer struct {
	failEarly bool   // Load returns an error without calling fn
	data      []byte // bytes delivered by the reader
	readErr   bool   // the reader fails after data (instead of io.EOF)
	failLate  bool   // fn is called (and may succeed) but Load still returns an error
}

type verifC02Reader struct {
	data []byte
	fail bool
}

var errVerifC02Read = errors.New("verif: read failed")
var errVerifC02Load = errors.New("verif: load failed")

func (r *verifC02Reader) Read(p []byte) (int, error) {
	if len(r.data) == 0 {
		if r.fail {
			return 0, errVerifC02Read
		}
		return 0, io.EOF
	}
	n := copy(p, r.data)
	r.data = r.data[n:]
	return n, nil
}

type verifC02Saved struct {
	h    backend.Handle
	data []byte
	hash []byte
}

// backend answering every Load with arbitrary bytes / errors chosen by answer()
type verifC02Backend struct {
	backend.Backend
	answer  func(h backend.Handle, length int, offset int64) verifC02Answer
	loads   []backend.Handle
	offsets []int64
	lengths []int
	served  []verifC02Answer
	saved   []verifC02Saved
	hasher  bool
}

func (b *verifC02Backend) Hasher() hash.Hash {
	if b.hasher {
		return &verifC02Hasher{name: "c02behash"}
	}
	return nil
}

func (b *verifC02Backend) Load(_ context.Context, h backend.Handle, length int, offset int64, fn func(rd io.Reader) error) error {
	a := b.answer(h, length, offset)
	b.loads = append(b.loads, h)
	b.offsets = append(b.offsets, offset)
	b.lengths = append(b.lengths, length)
	b.served = append(b.served, a)
	if a.failEarly {
		return errVerifC02Load
	}
	err := fn(&verifC02Reader{data: append([]byte(nil), a.data...), fail: a.readErr})
	if err != nil {
		return err
	}
	if a.failLate {
		return errVerifC02Load
	}
	return nil
}

func (b *verifC02Backend) Save(_ context.Context, h backend.Handle, rd backend.RewindReader) error {
	data, err := io.ReadAll(rd)
	if err != nil {
		return err
	}
	verifrt.Assert(int64(len(data)) == rd.Length(), "RewindReader.Length differs from the bytes delivered")
	b.saved = append(b.saved, verifC02Saved{h: h, data: data, hash: rd.Hash()})
	return nil
}

func verifC02Env(version uint) (*Repository, *verifC02Backend) {
	verifrt.Stub("(*internal/repository/crypto.Key).Seal", verifC02Seal)
	verifrt.Stub("(*internal/repository/crypto.Key).Open", verifC02Open)
	verifrt.Stub("internal/repository/crypto.NewRandomNonce", func() []byte { return verifrt.BytesN("nonce", 16) })
	verifrt.Stub("(*internal/repository.Repository).getZstdEncoder", func(_ *Repository) *zstd.Encoder { return &zstd.Encoder{} })
	verifrt.Stub("(*internal/repository.Repository).getZstdDecoder", func(_ *Repository) *zstd.Decoder { return &zstd.Decoder{} })
	verifrt.Stub("(*github.com/klauspost/compress/zstd.Encoder).EncodeAll", verifC02EncodeAll)
	verifrt.Stub("(*github.com/klauspost/compress/zstd.Decoder).DecodeAll", verifC02DecodeAll)
	verifrt.Stub("crypto/sha256.New", func() hash.Hash { return &verifC02Hasher{} })
	index.Full = func(*index.Index) bool { return false }
	be := &verifC02Backend{}
	r := &Repository{be: be, key: &crypto.Key{}, cfg: restic.Config{Version: version}, idx: index.NewMasterIndex()}
	return r, be
}

// an arbitrary answer to a whole-file load
func verifC02AnyAnswer(max int) verifC02Answer {
	var a verifC02Answer
	switch verifrt.Int("answer", 0, 3) {
	case 0:
		a.failEarly = true
		return a
	case 1:
	case 2:
		a.readErr = true
	case 3:
		a.failLate = true
	}
	a.data = verifrt.Bytes("served", max)
	return a
}

type verifC02NoSaver struct{}

func (verifC02NoSaver) Connections() uint { return 2 }
func (verifC02NoSaver) SaveUnpacked(_ context.Context, _ restic.FileType, _ []byte) (restic.ID, error) {
	verifrt.Assert(false, "index save not expected")
	return restic.ID{}, nil
}

// VerifC02_LoadRaw: whatever the backend delivers on the (at most two) loads, LoadRaw returns
// nil error only together with bytes that hash to the requested ID.
func VerifC02_LoadRaw() {
	max := verifrt.Param("file", 4)
	r, be := verifC02Env(2)
	// pack, key, lock, snapshot or index file (symbolic: LoadRaw treats them alike)
	t := restic.FileType(verifrt.Int("type", int(restic.PackFile), int(restic.IndexFile)))
	// the requested ID is the address of some content `good` (which the backend may or may not hold)
	good := verifrt.Bytes("good", max)
	id := restic.Hash(good)
	be.answer = func(h backend.Handle, length int, offset int64) verifC02Answer {
		verifrt.Assert(h.Type == backend.FileType(t) && h.Name == id.String(), "LoadRaw asked the backend for another file")
		verifrt.Assert(length == 0 && offset == 0, "LoadRaw must read the whole file")
		verifrt.Assert(len(be.loads) < 2, "LoadRaw loads a file at most twice")
		return verifC02AnyAnswer(max)
	}

	buf, err := r.LoadRaw(context.Background(), t, id)

	n := len(be.served)
	verifrt.Assert(n >= 1 && n <= 2, "LoadRaw loads the file once or twice")
	last := be.served[n-1]
	if err == nil {
		verifrt.Reach("loadraw-ok")
		verifrt.Assert(restic.Hash(buf) == id, "LoadRaw returned nil error with bytes that do not hash to the requested ID")
		verifrt.Assert(bytes.Equal(buf, last.data), "LoadRaw returned bytes that are not those of the last load")
		verifrt.Assert(!last.failEarly && !last.readErr && !last.failLate, "LoadRaw returned nil although the last load failed")
	} else if errors.Is(err, restic.ErrInvalidData) {
		verifrt.Reach("loadraw-invalid")
		verifrt.Assert(n == 2, "ErrInvalidData is only reported after a retry")
		verifrt.Assert(bytes.Equal(buf, last.data), "with ErrInvalidData the damaged bytes of the second load are handed out")
		verifrt.Assert(restic.Hash(buf) != id, "ErrInvalidData for data that matches the ID")
	} else {
		verifrt.Reach("loadraw-error")
		verifrt.Assert(buf == nil, "no data is returned with a load error")
	}
	first := be.served[0]
	firstOK := !first.failEarly && !first.readErr && !first.failLate
	if firstOK && restic.Hash(first.data) == id {
		verifrt.Reach("loadraw-first-good")
		verifrt.Assert(err == nil && n == 1, "an intact file must be accepted after one load")
	}
	if n == 2 {
		lastOK := !last.failEarly && !last.readErr && !last.failLate
		if lastOK && restic.Hash(last.data) == id {
			verifrt.Reach("loadraw-retry-good")
			verifrt.Assert(err == nil, "a good second load must be accepted")
		}
		if lastOK && restic.Hash(last.data) != id {
			verifrt.Reach("loadraw-retry-bad")
			verifrt.Assert(errors.Is(err, restic.ErrInvalidData), "a mismatch after the retry must be reported as ErrInvalidData")
		}
		if !lastOK {
			verifrt.Assert(err != nil && !errors.Is(err, restic.ErrInvalidData) && buf == nil, "a failed retry must be reported as a load error")
		}
	}
}

// VerifC02_LoadRawConfig: the config file has no content address; LoadRaw loads it once and returns
// what the backend delivered.
func VerifC02_LoadRawConfig() {
	max := verifrt.Param("file", 4)
	r, be := verifC02Env(2)
	be.answer = func(h backend.Handle, length int, offset int64) verifC02Answer {
		verifrt.Assert(h.Type == backend.ConfigFile, "wrong file type")
		return verifC02AnyAnswer(max)
	}
	buf, err := r.LoadRaw(context.Background(), restic.ConfigFile, restic.ID{})
	verifrt.Assert(len(be.served) == 1, "config is loaded once")
	a := be.served[0]
	if !a.failEarly && !a.readErr && !a.failLate {
		verifrt.Reach("config-ok")
		verifrt.Assert(err == nil && bytes.Equal(buf, a.data), "config bytes not returned")
	} else {
		verifrt.Reach("config-error")
		verifrt.Assert(err != nil && buf == nil, "config load error not reported")
	}
}

// reference encoding of a packed blob's sealed plaintext
func verifC02Packed(compressed bool, p []byte) []byte {
	if !compressed {
		return p
	}
	out := []byte{verifC02Magic, byte(len(p))}
	for _, c := range p {
		out = append(out, c^0x5a)
	}
	return out
}

// an arbitrary answer to a ranged load: the requested number of bytes (arbitrary content), fewer, or an error
func verifC02RangeAnswer(length int) verifC02Answer {
	var a verifC02Answer
	switch verifrt.Int("ranswer", 0, 3) {
	case 0:
		a.failEarly = true
		return a
	case 1:
		a.data = verifrt.BytesN("rserved", length)
	case 2:
		// truncated file: one byte short
		if length > 0 {
			a.data = verifrt.BytesN("rshort", length-1)
		}
	case 3:
		a.data = verifrt.BytesN("rserved", length)
		a.failLate = true
	}
	return a
}

type verifC02Loc struct {
	pack       restic.ID
	blob       pack.Blob
	compressed bool
}

// verifC02LoadBlob: a blob with nloc index locations; every ranged load is answered with an error,
// arbitrary bytes of the requested length, a truncated stream, data followed by an error, or (kind 4) an
// authentic ciphertext of the original content. simple: data blob, uncompressed, intact index entries, 3 answer kinds.
func verifC02LoadBlob(nloc int, simple bool) (err error, out []byte, good []byte, bh restic.BlobHandle, be *verifC02Backend, anyShort bool, firstIntact bool, anyIntact bool) {
	max := verifrt.Param("blob", 2)
	r, be := verifC02Env(2)
	ctx := context.Background()

	good = verifrt.Bytes("good", max)
	bh = restic.BlobHandle{Type: restic.DataBlob, ID: restic.Hash(good)}
	if !simple && verifrt.Bool("tree") {
		bh.Type = restic.TreeBlob
	}
	var locs []verifC02Loc
	for i := 0; i < nloc; i++ {
		l := verifC02Loc{pack: restic.ID{0xd0, byte(i + 1)}}
		// restic never stores an empty blob compressed (UncompressedLength 0 means "not compressed")
		// (in the two-location harness the second copy may be compressed: copies of different stored length)
		l.compressed = (!simple || i == 1) && len(good) > 0 && verifrt.Bool("compressed")
		plen := len(verifC02Packed(l.compressed, good))
		l.blob = pack.Blob{BlobHandle: bh, Offset: uint(5 + 3*i), Length: uint(32 + plen)}
		if l.compressed {
			l.blob.UncompressedLength = uint(len(good))
		}
		if !simple && verifrt.Bool("shortEntry") {
			// damaged index entry: no longer than a nonce
			l.blob.Length = 16
			anyShort = true
		}
		locs = append(locs, l)
		if err := r.idx.StorePack(ctx, l.pack, pack.Blobs{l.blob}, verifC02NoSaver{}); err != nil {
			verifrt.Assert(false, "setup: StorePack failed")
		}
	}
	be.answer = func(h backend.Handle, length int, offset int64) verifC02Answer {
		verifrt.Assert(h.Type == backend.PackFile, "blobs are read from pack files")
		verifrt.Assert(h.IsMetadata == (bh.Type == restic.TreeBlob), "IsMetadata flag wrong")
		var loc *verifC02Loc
		for i := range locs {
			if h.Name == locs[i].pack.String() {
				loc = &locs[i]
			}
		}
		verifrt.Assert(loc != nil, "LoadBlob read a pack that is not listed for the blob")
		verifrt.Assert(offset == int64(loc.blob.Offset) && length == int(loc.blob.Length), "read range is not the index entry's")
		verifrt.Assert(len(be.loads) < 2*nloc, "each location is tried at most twice")
		var a verifC02Answer
		kind := 0
		if simple {
			kind = verifrt.Int("bkind", 0, 2) * 2 // 0, 2, 4
		} else {
			kind = verifrt.Int("bkind", 0, 4)
		}
		switch kind {
		case 0:
			a.failEarly = true
		case 1:
			a.data = verifrt.BytesN("bshort", length-1) // truncated
		case 2:
			a.data = verifrt.BytesN("bserved", length)
		case 3:
			a.data = verifrt.BytesN("bserved", length)
			a.failLate = true
		case 4:
			if length > 16 {
				nonce := verifrt.BytesN("inonce", 16)
				a.data = append(append([]byte(nil), nonce...), verifC02Seal(nil, nil, nonce, verifC02Packed(loc.compressed, good), nil)...)
				anyIntact = true
				if len(be.loads) == 0 {
					firstIntact = true
				}
			} else {
				a.data = verifrt.BytesN("bserved", length)
			}
		}
		return a
	}

	var scratch []byte
	if !simple && verifrt.Bool("scratch") {
		scratch = make([]byte, 3, 40)
	}
	out, err = r.LoadBlob(ctx, bh, scratch)
	return
}

// VerifC02_LoadBlob: one index location (data/tree, compressed or not, possibly a damaged index entry),
// both tries answered arbitrarily: LoadBlob returns nil error only with bytes that hash to the requested ID.
func VerifC02_LoadBlob() {
	err, out, good, bh, be, _, firstIntact, _ := verifC02LoadBlob(1, false)
	if err == nil {
		verifrt.Reach("loadblob-ok")
		verifrt.Assert(restic.Hash(out) == bh.ID, "LoadBlob returned nil error with bytes that do not hash to the requested ID")
	} else {
		verifrt.Reach("loadblob-error")
		verifrt.Assert(out == nil, "LoadBlob returned data together with an error")
	}
	if firstIntact {
		verifrt.Reach("loadblob-intact")
		verifrt.Assert(err == nil && bytes.Equal(out, good), "an intact blob must be returned")
		verifrt.Assert(len(be.loads) == 1, "an intact location is read once")
	}
}

// VerifC02_LoadBlobFallback: two index locations; a damaged copy is never handed out, an intact duplicate is used.
func VerifC02_LoadBlobFallback() {
	err, out, good, bh, be, _, _, anyIntact := verifC02LoadBlob(2, true)
	if err == nil {
		verifrt.Reach("fallback-ok")
		verifrt.Assert(restic.Hash(out) == bh.ID, "LoadBlob returned nil error with bytes that do not hash to the requested ID")
	} else {
		verifrt.Reach("fallback-error")
		verifrt.Assert(out == nil, "LoadBlob returned data together with an error")
	}
	if anyIntact {
		verifrt.Reach("fallback-intact-copy")
		verifrt.Assert(err == nil, "an intact copy was served but LoadBlob failed")
		verifrt.Assert(restic.Hash(out) == restic.Hash(good), "wrong content")
	}
	verifrt.Assert(len(be.loads) <= 4, "two locations are tried at most twice each")
}

// VerifC02_StreamPack: streamPack/packBlobIterator.Next over an arbitrary byte stream: the callback
// gets nil error only with a plaintext that hashes to the blob's ID; each blob is reported at most once;
// nil result => each blob was reported exactly once, in offset order.
func VerifC02_StreamPack() {
	max := verifrt.Param("blob", 2)
	nb := verifrt.Int("nblobs", 1, verifrt.Param("blobs", 2))
	verifC02Env(2)
	ctx := context.Background()
	packID := restic.ID{0xd0, 1}

	var blobs pack.Blobs
	var goods [][]byte
	off := uint(verifrt.Int("start", 0, 1))
	for i := 0; i < nb; i++ {
		good := verifrt.Bytes("good", max)
		compressed := verifrt.Bool("compressed") && len(good) > 0
		b := pack.Blob{BlobHandle: restic.BlobHandle{Type: restic.DataBlob, ID: restic.Hash(good)}, Offset: off,
			Length: uint(32 + len(verifC02Packed(compressed, good)))}
		if compressed {
			b.UncompressedLength = uint(len(good))
		}
		if i < nb-1 && verifrt.Bool("gap") {
			off++ // unused byte between blobs
		}
		off += b.Length
		blobs = append(blobs, b)
		goods = append(goods, good)
	}
	if nb == 2 && verifrt.Bool("swap") {
		blobs[0], blobs[1] = blobs[1], blobs[0] // streamPack sorts by offset itself
	}
	want := append(pack.Blobs(nil), blobs...)
	loads := 0
	beLoad := func(_ context.Context, h backend.Handle, length int, offset int64, fn func(rd io.Reader) error) error {
		loads++
		verifrt.Assert(h.Type == backend.PackFile && h.Name == packID.String(), "wrong file requested")
		a := verifC02RangeAnswer(length)
		if a.failEarly {
			return errVerifC02Load
		}
		if err := fn(&verifC02Reader{data: a.data}); err != nil {
			return err
		}
		if a.failLate {
			return errVerifC02Load
		}
		return nil
	}
	var seen []restic.ID
	err := streamPack(ctx, beLoad, nil, &zstd.Decoder{}, &crypto.Key{}, packID, blobs, func(h restic.BlobHandle, buf []byte, berr error) error {
		// an ID may be reported as often as the request lists it (equal contents at different offsets)
		asked, got := 0, 1
		for _, w := range want {
			if w.ID == h.ID {
				asked++
			}
		}
		for _, s := range seen {
			if s == h.ID {
				got++
			}
		}
		verifrt.Assert(got <= asked, "a blob was reported more often than it was requested")
		seen = append(seen, h.ID)
		verifrt.Assert(len(seen) <= nb, "more callbacks than blobs")
		if berr == nil {
			verifrt.Assert(restic.Hash(buf) == h.ID, "blob handed out with nil error although its hash is not the ID")
		}
		return nil
	})
	if err == nil {
		verifrt.Reach("stream-ok")
		verifrt.Assert(len(seen) == nb, "streamPack returned nil without reporting every blob")
		verifrt.Assert(loads == 1, "two adjacent blobs are fetched with one request")
	} else {
		verifrt.Reach("stream-error")
	}
	_ = goods
}

package repository

import (
	"context"

	"github.com/restic/chunker"

	"github.com/restic/restic/internal/repository/index"
	"github.com/restic/restic/internal/restic"
	"github.com/restic/restic/internal/verifrt"
)

// VerifC02_ZeroChunkGuard: the all-zero-chunk shortcut of saveBlob (ID taken from a precomputed value
// instead of hashing) applies only to a buffer of exactly chunker.MinSize zero bytes. Buffers that merely
// start with that many zeros (longer, or with a non-zero byte) get the hash of their own content.
// SHA-256 is replaced by an uninterpreted function of (length, last two bytes) here because the buffer
// has 512 KiB; the two IDs compared are assumed not to collide.
func VerifC02_ZeroChunkGuard() {
	verifrt.Stub("internal/restic.Hash", func(b []byte) restic.ID {
		var id restic.ID
		var l1, l2 byte
		if len(b) >= 2 {
			l1, l2 = b[len(b)-1], b[len(b)-2]
		}
		h := verifrt.UF64("bighash", uint64(len(b)), uint64(l1), uint64(l2))
		for i := 0; i < 8; i++ {
			id[i] = byte(h >> (8 * uint(i)))
		}
		id[31] = 1
		return id
	})
	r := &Repository{idx: index.NewMasterIndex()}
	r.opts.NoExtraVerify = true
	index.Full = func(*index.Index) bool { return false }
	var saved []restic.ID
	verifrt.Stub("(*internal/repository.Repository).saveAndEncrypt", func(_ *Repository, _ context.Context, _ restic.BlobType, data []byte, id restic.ID) (int, error) {
		saved = append(saved, id)
		return len(data), nil
	})
	extra := verifrt.Int("extra", 0, 2) // bytes after the 512 KiB zero prefix
	buf := make([]byte, chunker.MinSize+extra)
	for i := 0; i < extra; i++ {
		buf[chunker.MinSize+i] = verifrt.Byte("tail")
	}
	zeroID := restic.Hash(make([]byte, chunker.MinSize))
	want := restic.Hash(buf)
	if extra > 0 {
		verifrt.Assume(want != zeroID) // collision-freeness between the two IDs compared
	}
	id, _, _, err := r.saveBlob(context.Background(), restic.DataBlob, buf, restic.ID{}, false)
	verifrt.Assert(err == nil, "saveBlob failed")
	verifrt.Assert(id == want, "saveBlob returned an ID that is not the hash of the plaintext")
	verifrt.Assert(len(saved) == 1 && saved[0] == want, "the blob was not stored under the hash of its plaintext")
	if extra == 0 {
		verifrt.Reach("exact-zero-chunk")
	} else {
		verifrt.Reach("zero-prefix-longer-buffer")
	}
}

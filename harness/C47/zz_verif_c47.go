package bloblru

import (
	"errors"
	"sync"

	"github.com/restic/restic/internal/restic"
	"github.com/restic/restic/internal/verifrt"
)

func verifC47ID(k int) restic.ID {
	var id restic.ID
	id[0] = byte(k + 1)
	return id
}

// invariant: the bytes accounted for the held entries never exceed the budget and `free` is exact.
func verifC47CheckBudget(c *Cache, nids int) {
	used := 0
	for k := 0; k < nids; k++ {
		if b, ok := c.c.Peek(verifC47ID(k)); ok {
			used += cap(b) + overhead
			if cap(b) > 0 {
				verifrt.Assert(b[:1][0] == byte(k+1), "cache holds another blob's bytes under this ID")
			}
		}
	}
	verifrt.Assert(used <= c.size, "cache holds more bytes than its configured size")
	verifrt.Assert(c.free == c.size-used, "free-space accounting is inconsistent with the held entries")
	verifrt.Assert(c.free >= 0, "free space negative")
}

// VerifC47_Budget: any history of adds/gets with arbitrary capacities keeps the cache within budget.
func VerifC47_Budget() {
	nops := verifrt.Param("ops", 4)
	nids := verifrt.Param("ids", 3)
	caps := []int{0, 5, 12, 120, 300}
	size := 2*overhead + 12 // room for two small entries; 120 forces evictions, 300 never fits
	c := New(size)
	for i := 0; i < nops; i++ {
		k := verifrt.Int("id", 0, nids-1)
		id := verifC47ID(k)
		if verifrt.Bool("isGet") {
			b, ok := c.get(id)
			if ok && cap(b) > 0 {
				verifrt.Assert(b[:1][0] == byte(k+1), "get returned another blob's bytes")
			}
		} else {
			cp := caps[verifrt.Int("cap", 0, len(caps)-1)]
			blob := make([]byte, cp)
			if cp > 0 {
				blob[0] = byte(k + 1)
			}
			c.add(id, blob)
		}
		verifC47CheckBudget(c, nids)
	}
	verifrt.Reach("budget-done")
}

// VerifC47_Concurrent: concurrent GetOrCompute calls return the value computed for their ID, compute
// at most once per ID when the first computation succeeds and the blob fits, and never deadlock.
func VerifC47_Concurrent() {
	nth := verifrt.Param("threads", 2)
	c := New(4 * (overhead + 8))
	computes := make([]int, 2)
	fails := make([]bool, nth)
	partial := make([]bool, nth)
	ids := make([]int, nth)
	for t := 0; t < nth; t++ {
		ids[t] = verifrt.Int("tid", 0, 1)
		fails[t] = verifrt.Bool("fail")
		partial[t] = fails[t] && verifrt.Bool("partialBuffer")
	}
	var wg sync.WaitGroup
	var mu sync.Mutex
	results := make([][]byte, nth)
	errs := make([]error, nth)
	for t := 0; t < nth; t++ {
		wg.Add(1)
		t := t
		go func() {
			defer wg.Done()
			k := ids[t]
			b, err := c.GetOrCompute(verifC47ID(k), func() ([]byte, error) {
				mu.Lock()
				computes[k]++
				mu.Unlock()
				verifrt.Yield()
				if fails[t] {
					if partial[t] {
						// e.g. a truncated read: the partly filled buffer comes back together with the error
						return []byte{0xEE}, errors.New("compute failed after a partial read")
					}
					return nil, errors.New("compute failed")
				}
				return []byte{byte(k + 1), 7}, nil
			})
			results[t], errs[t] = b, err
		}()
	}
	wg.Wait()
	anyFail := false
	for t := 0; t < nth; t++ {
		if fails[t] {
			anyFail = true
		}
		if errs[t] == nil {
			verifrt.Assert(len(results[t]) == 2 && results[t][0] == byte(ids[t]+1), "GetOrCompute returned a value that was not computed for this ID")
		} else {
			verifrt.Assert(fails[t], "GetOrCompute failed although this caller's computation would have succeeded and nobody else's result was available")
		}
	}
	if !anyFail {
		verifrt.Assert(computes[0] <= 1 && computes[1] <= 1, "a blob was computed more than once although every computation succeeded and fits the cache")
		verifrt.Reach("all-succeeded")
	}
	// whatever is cached afterwards is a successfully computed value of its ID
	for k := 0; k < 2; k++ {
		if b, ok := c.get(verifC47ID(k)); ok {
			verifrt.Assert(len(b) == 2 && b[0] == byte(k+1), "the cache holds the buffer of a failed computation")
		}
	}
	verifC47CheckBudget(c, 2)
	verifrt.Reach("concurrent-done")
}

//go:build darwin || freebsd || linux

package fuse

import (
	"context"

	"github.com/anacrolix/fuse"

	"github.com/restic/restic/internal/bloblru"
	"github.com/restic/restic/internal/data"
	"github.com/restic/restic/internal/restic"
	"github.com/restic/restic/internal/verifrt"
)

type verifC46Repo struct {
	restic.Repository
	ids   []restic.ID
	blobs [][]byte
	loads int
}

func (r *verifC46Repo) find(id restic.ID) int {
	for i := range r.ids {
		if r.ids[i] == id {
			return i
		}
	}
	return -1
}

func (r *verifC46Repo) LookupBlobSize(h restic.BlobHandle) (uint, bool) {
	i := r.find(h.ID)
	if i < 0 || h.Type != restic.DataBlob {
		return 0, false
	}
	return uint(len(r.blobs[i])), true
}

func (r *verifC46Repo) LoadBlob(_ context.Context, h restic.BlobHandle, _ []byte) ([]byte, error) {
	r.loads++
	i := r.find(h.ID)
	verifrt.Assert(i >= 0, "LoadBlob called for a blob that is not part of the file")
	return r.blobs[i], nil
}

// VerifC46_Read: openFile.Read returns exactly content[off:off+size] clipped to the file size.
func VerifC46_Read() {
	nmax := verifrt.Param("blobs", 3)
	bmax := verifrt.Param("bloblen", 3)
	n := verifrt.Int("nblobs", 0, nmax)
	repo := &verifC46Repo{}
	var whole []byte
	content := make(restic.IDs, n)
	for i := 0; i < n; i++ {
		b := verifrt.Bytes("blob", bmax)
		var id restic.ID
		id[0] = byte(i + 1)
		content[i] = id
		repo.ids = append(repo.ids, id)
		repo.blobs = append(repo.blobs, b)
		whole = append(whole, b...)
	}
	total := len(whole)
	node := &data.Node{Name: "f", Type: data.NodeTypeFile, Content: content, Size: uint64(total)}
	if verifrt.Bool("sizeMismatch") {
		// a snapshot whose recorded size disagrees with its blobs: Open corrects it
		node.Size = uint64(total) + 1
	}
	root := &Root{repo: repo, blobCache: bloblru.New(1 << 20)}
	f := &file{root: root, node: node, inode: 7}

	h, err := f.Open(context.Background(), nil, nil)
	verifrt.Assert(err == nil, "Open must succeed when all blobs are indexed")
	of := h.(*openFile)

	off := verifrt.Int64("off")
	verifrt.Assume(off >= 0)
	size := verifrt.Int("size", 0, total+2)
	req := &fuse.ReadRequest{Offset: off, Size: size}
	resp := &fuse.ReadResponse{Data: make([]byte, size)}
	err = of.Read(context.Background(), req, resp)
	verifrt.Assert(err == nil, "Read must succeed")

	lo := total
	if off < int64(total) {
		lo = int(off)
	}
	hi := total
	if off < int64(total) && int(off)+size < total {
		hi = int(off) + size
	}
	verifrt.Assert(len(resp.Data) == hi-lo, "Read returned a wrong number of bytes")
	for i := 0; i < len(resp.Data) && i < hi-lo; i++ {
		verifrt.Assert(resp.Data[i] == whole[lo+i], "Read returned a wrong byte")
	}
	if hi-lo > 0 {
		verifrt.Reach("nonempty-read")
	} else {
		verifrt.Reach("empty-read")
	}
}
